(* the right part of a built range proof has as many hashes as the verifier's mask formula says *)
From Coq Require Import List NArith Arith Bool Lia ZifyN ZifyNat ZifyBool.
From Sia Require Import Prim.Tok Merkle.Rhp.
From Sia Require Import Merkle.RgBits Merkle.RgCount Merkle.RgXor Merkle.RgFinal.
Import ListNotations.
Local Open Scope N_scope.

Definition rterm (n i : N) : N := popcount (N.land (N.ldiff (Rhp.W - 1) (i - 1)) (2 ^ bitlen (N.lxor (i - 1) (n - 1)) - 1)).

Lemma popcount_pow_mul k y : popcount (2 ^ k * y) = popcount y.
Proof.
  induction k as [|k IH] using N.peano_ind; [rewrite N.pow_0_r, N.mul_1_l; reflexivity|].
  rewrite N.pow_succ_r', <- N.mul_assoc, popcount_double. exact IH.
Qed.

Lemma rterm_end n : rterm n n = 0.
Proof. unfold rterm. rewrite N.lxor_nilpotent. change (bitlen 0) with 0. rewrite N.pow_0_r. change (1 - 1) with 0. rewrite N.land_0_r. reflexivity. Qed.

Lemma arith_step T a k : 0 < T -> 2 * T * (a + 1 + k) - 1 - (2 * T * a + T - 1) = T * (2 * k + 1) /\
                                  2 * T * (a + 1 + k) - 1 - (2 * T * a + 2 * T - 1) = 2 * T * k.
Proof.
  intros HT. replace (2 * T * (a + 1 + k)) with (2 * T * a + T + (T + 2 * T * k)) by ring.
  replace (T * (2 * k + 1)) with (2 * T * k + T) by ring.
  generalize (2 * T * a). generalize (2 * T * k). intros Y X. split; lia.
Qed.

Section Shape.
(* i = 2^t (2A + 1): e = i - 1 has t ones below a zero; e' = e + 2^t *)
Variables t A : N.
Let e := 2 ^ (t + 1) * A + 2 ^ t - 1.
Let e' := e + 2 ^ t.
Lemma pt : 0 < 2 ^ t. Proof. apply N.neq_0_lt_0, N.pow_nonzero; lia. Qed.
Lemma pt1 : 2 ^ (t + 1) = 2 * 2 ^ t. Proof. rewrite N.add_1_r, N.pow_succ_r'. reflexivity. Qed.
Lemma e_div1 : e / 2 ^ (t + 1) = A /\ e' / 2 ^ (t + 1) = A.
Proof.
  pose proof pt. pose proof pt1 as P1. unfold e', e. split; symmetry.
  - apply (N.div_unique _ _ A (2 ^ t - 1)); lia.
  - apply (N.div_unique _ _ A (2 ^ (t + 1) - 1)); lia.
Qed.
Lemma e_divk k : t + 1 <= k -> e / 2 ^ k = e' / 2 ^ k.
Proof. intros Hk. apply (div_pow_mono e e' (t + 1) k Hk). destruct e_div1 as [-> ->]. reflexivity. Qed.
Lemma e_divt : e / 2 ^ t = 2 * A.
Proof. pose proof pt. pose proof pt1. unfold e. symmetry. apply (N.div_unique _ _ (2 * A) (2 ^ t - 1)); lia. Qed.
Lemma e_mod d : t + 1 <= d -> e mod 2 ^ d = 2 ^ (t + 1) * (A mod 2 ^ (d - t - 1)) + 2 ^ t - 1 /\
                              e' mod 2 ^ d = 2 ^ (t + 1) * (A mod 2 ^ (d - t - 1)) + 2 ^ (t + 1) - 1.
Proof.
  intros Hd. pose proof pt. pose proof pt1 as P1.
  assert (S : 2 ^ d = 2 ^ (t + 1) * 2 ^ (d - t - 1)) by (rewrite <- N.pow_add_r; f_equal; lia).
  assert (Nz1 : 2 ^ (t + 1) <> 0) by (apply N.pow_nonzero; lia). assert (Nz2 : 2 ^ (d - t - 1) <> 0) by (apply N.pow_nonzero; lia).
  destruct e_div1 as [D1 D2]. rewrite S, !N.mod_mul_r by assumption. rewrite D1, D2.
  assert (M1 : e mod 2 ^ (t + 1) = 2 ^ t - 1) by (unfold e; symmetry; apply (N.mod_unique _ _ A); lia).
  assert (M2 : e' mod 2 ^ (t + 1) = 2 ^ (t + 1) - 1) by (unfold e', e; symmetry; apply (N.mod_unique _ _ A); lia).
  rewrite M1, M2. assert (0 < 2 ^ (t + 1)) by lia. clear P1 M1 M2 D1 D2 S.
  generalize (2 ^ (t + 1) * (A mod 2 ^ (d - t - 1))). intros X. split; lia.
Qed.

(* one more aligned subtree fits strictly before the end: the term drops by one *)
Lemma rterm_step m : e' < m -> m < 2 ^ 64 ->
  popcount (N.land (N.ldiff (Rhp.W - 1) e) (2 ^ bitlen (N.lxor e m) - 1)) =
  1 + popcount (N.land (N.ldiff (Rhp.W - 1) e') (2 ^ bitlen (N.lxor e' m) - 1)).
Proof.
  intros Hm Hm64. pose proof pt as Pt. pose proof pt1 as P1.
  assert (Pt1 : 0 < 2 ^ (t + 1)) by (rewrite P1; clear - Pt; lia).
  assert (Hee : e < e') by (unfold e'; clear - Pt; lia).
  assert (Hne : e <> m) by (clear - Hee Hm; lia).
  destruct (bitlen_xor_spec e m Hne) as (D1 & Dq & Dn). set (d := bitlen (N.lxor e m)) in *.
  destruct e_div1 as [Dv1 Dv2].
  (* d >= t + 2 *)
  assert (Hd : t + 2 <= d).
  { destruct (N.le_gt_cases (t + 2) d) as [|G]; [assumption|]. exfalso.
    assert (Eq : e / 2 ^ (t + 1) = m / 2 ^ (t + 1)) by (apply (div_pow_mono e m d (t + 1)); [clear - G; lia | exact Dq]).
    rewrite Dv1 in Eq.
    assert (G2 : m < 2 ^ (t + 1) * N.succ A) by (rewrite Eq; apply N.mul_succ_div_gt; clear - Pt1; lia).
    rewrite N.mul_succ_r in G2. unfold e', e in Hm. rewrite P1 in *. clear - G2 Hm Pt.
    generalize dependent (2 * 2 ^ t * A). intros X ? ?. lia. }
  assert (Ed' : bitlen (N.lxor e' m) = d).
  { apply bitlen_xor_char; [rewrite <- (e_divk d) by (clear - Hd; lia); exact Dq|]. right. rewrite <- (e_divk (d - 1)) by (clear - Hd; lia). exact Dn. }
  rewrite Ed'.
  assert (He64 : e < 2 ^ 64) by (clear - Hee Hm Hm64; lia). assert (He'64 : e' < 2 ^ 64) by (clear - Hm Hm64; lia).
  assert (d64 : d <= 64).
  { unfold d, bitlen. destruct (N.eqb_spec (N.lxor e m) 0) as [|NZ]; [lia|].
    assert (B : N.lxor e m < 2 ^ 64). { apply bits_bound. intros i Hi. rewrite N.lxor_spec, !high_bits_zero by assumption. reflexivity. }
    assert (N.log2 (N.lxor e m) < 64) by (apply N.log2_lt_pow2; [clear - NZ; lia | exact B]). lia. }
  rewrite !mask_value by assumption. destruct (e_mod d ltac:(clear - Hd; lia)) as [M1 M2]. rewrite M1, M2.
  set (c := 2 ^ (d - t - 1)). set (a := A mod c).
  assert (Pc : 0 < c) by (apply N.neq_0_lt_0, N.pow_nonzero; lia). assert (Ha : a < c) by (apply N.mod_lt; clear - Pc; lia).
  assert (Sd : 2 ^ d = 2 ^ (t + 1) * c) by (unfold c; rewrite <- N.pow_add_r; f_equal; clear - Hd; lia).
  rewrite Sd, P1. assert (Ec : c = a + 1 + (c - 1 - a)) by (clear - Ha; lia). set (k := c - 1 - a) in *. rewrite Ec.
  destruct (arith_step (2 ^ t) a k Pt) as [A1 A2]. rewrite A1, A2. rewrite <- P1.
  rewrite !popcount_pow_mul, popcount_succ_double. reflexivity.
Qed.

(* the last subtree (reaching or overshooting the end): exactly one hash *)
Lemma rterm_last m : e < m -> m <= e' -> t < 64 -> m < 2 ^ 64 ->
  popcount (N.land (N.ldiff (Rhp.W - 1) e) (2 ^ bitlen (N.lxor e m) - 1)) = 1.
Proof.
  intros H1 H2 Ht Hm64. pose proof pt as Pt. pose proof pt1 as P1. destruct e_div1 as [D1 D2].
  assert (Pt1 : 0 < 2 ^ (t + 1)) by (rewrite P1; clear - Pt; lia).
  assert (Bm : 2 ^ (t + 1) * A + 2 ^ t <= m /\ m < 2 ^ (t + 1) * A + 2 ^ (t + 1)).
  { unfold e', e in *. rewrite P1 in *. clear - H1 H2 Pt. generalize dependent (2 * 2 ^ t * A). intros X ? ?. lia. }
  assert (Ed : bitlen (N.lxor e m) = t + 1).
  { apply bitlen_xor_char.
    - rewrite D1. apply (N.div_unique _ _ A (m - 2 ^ (t + 1) * A)); clear - Bm Pt1; generalize dependent (2 ^ (t + 1) * A); intros X ?; lia.
    - right. replace (t + 1 - 1) with t by (clear; lia). rewrite e_divt. intros E.
      assert (G2 : m < 2 ^ t * N.succ (2 * A)) by (rewrite E; apply N.mul_succ_div_gt; clear - Pt; lia).
      rewrite N.mul_succ_r in G2. replace (2 ^ t * (2 * A)) with (2 ^ (t + 1) * A) in G2 by (rewrite P1; ring).
      clear - G2 Bm. generalize dependent (2 ^ (t + 1) * A). intros X ? ?. lia. }
  assert (He64 : e < 2 ^ 64) by (clear - H1 Hm64; lia).
  rewrite Ed, mask_value by (try assumption; clear - Ht; lia). destruct (e_mod (t + 1) ltac:(clear; lia)) as [M1 _]. rewrite M1.
  replace (t + 1 - t - 1) with 0 by (clear; lia). rewrite N.pow_0_r, N.mod_1_r, N.mul_0_r, N.add_0_l, P1.
  replace (2 * 2 ^ t - 1 - (2 ^ t - 1)) with (2 ^ t * 1) by (clear - Pt; lia). rewrite popcount_pow_mul. reflexivity.
Qed.
End Shape.
