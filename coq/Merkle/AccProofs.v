From Coq Require Import List NArith ZArith Arith Bool Lia ZifyN ZifyNat ZifyBool.
From Sia Require Import Prim.Tok Merkle.Tree Merkle.Forest Merkle.Acc.
Import ListNotations.
Ltac Zify.zify_post_hook ::= Z.div_mod_to_equations.

Section AccProofs.
Variable H : bytes -> bytes.
Notation node := (node H).
Notation roots := (roots H).
Notation forest_of := (forest_of).
Notation ptree := (ptree hash).
Notation root := (root hash node).
Notation sibs := (sibs hash node).
Notation perfect := (perfect hash).
Notation height := (height hash).
Notation leaves := (leaves hash).
Notation get := (get hash).
Notation all_leaves := (all_leaves hash).
Notation wf_from := (wf_from hash).
Notation tinc := (tinc hash).
Notation roots_of := (roots_of hash node).

(* ---------- the forest built by folding tinc is well formed over exactly the leaf list ---------- *)
Lemma fold_tinc ts xs : wf_from 0 ts ->
  wf_from 0 (fold_left (fun ts x => tinc (Leaf hash x) ts) xs ts) /\
  all_leaves (fold_left (fun ts x => tinc (Leaf hash x) ts) xs ts) = all_leaves ts ++ xs.
Proof.
  revert ts. induction xs as [|x xs IH]; intros ts Hw; simpl.
  - now rewrite app_nil_r.
  - destruct (IH (tinc (Leaf hash x) ts)) as [A B].
    + apply tinc_wf; simpl; auto.
    + split; [exact A|]. rewrite B, tinc_leaves. simpl. now rewrite <- app_assoc.
Qed.

Lemma forest_wf L : wf_from 0 (forest_of L).
Proof. apply (fold_tinc [] L). exact I. Qed.
Lemma forest_leaves L : all_leaves (forest_of L) = L.
Proof. apply (fold_tinc [] L). exact I. Qed.

(* addLeaves' carry chain computes the roots of the true forest *)
Theorem add_roots L xs : add_leaves H (roots L) xs = roots (L ++ xs).
Proof.
  unfold add_leaves, roots, Acc.forest_of. rewrite fold_left_app.
  generalize (fold_left (fun ts x => tinc (Leaf hash x) ts) L []). intros ts.
  revert ts. induction xs as [|x xs IH]; intros ts; simpl; auto.
  rewrite <- IH. f_equal. symmetry. apply (tinc_roots hash (Acc.node H) (Leaf hash x) ts).
Qed.

Theorem roots_count L : N.of_nat (length L) = num_leaves (roots L).
Proof.
  unfold num_leaves. f_equal. apply (repr_count hash (Acc.node H)).
  exists (forest_of L). split; [apply forest_wf|]. split; [apply forest_leaves|reflexivity].
Qed.

(* ---------- positions ---------- *)
Lemma leaves_len t : perfect t -> N.of_nat (length (leaves t)) = (2 ^ N.of_nat (height t))%N.
Proof.
  intros Hp. rewrite (leaves_length hash t Hp).
  rewrite Nat2N.inj_pow. reflexivity.
Qed.

Lemma get_path t r : perfect t -> (r < 2 ^ N.of_nat (height t))%N ->
  get t (path (height t) r) = nth_error (leaves t) (N.to_nat r).
Proof.
  revert r. induction t as [x|l IHl rt IHr]; intros r Hp Hr.
  - simpl in *. assert (r = 0%N) as -> by lia. reflexivity.
  - destruct Hp as (Hl & Hrr & Hh). cbn [height path get leaves].
    pose proof (leaves_len l Hl) as Ll.
    assert (E2 : (2 ^ N.of_nat (S (height l)) = 2 * 2 ^ N.of_nat (height l))%N).
    { rewrite Nat2N.inj_succ, N.pow_succ_r'. reflexivity. }
    cbn [height] in Hr. rewrite E2 in Hr.
    destruct (N.leb_spec (2 ^ N.of_nat (height l)) r) as [Hge|Hlt].
    + rewrite Hh at 1. rewrite IHr by (rewrite <- ?Hh; auto; lia).
      rewrite nth_error_app2 by lia. f_equal. lia.
    + rewrite IHl by auto. rewrite nth_error_app1 by lia. reflexivity.
Qed.

Lemma path_length h r : length (path h r) = h.
Proof. revert r; induction h; intros; simpl; auto. Qed.

Lemma lsb_bits_S idx h : lsb_bits idx (S h) = lsb_bits idx h ++ [N.testbit idx (N.of_nat h)].
Proof. unfold lsb_bits. rewrite seq_S, map_app. reflexivity. Qed.

Lemma lsb_bits_path h idx : lsb_bits idx h = rev (path h (idx mod 2 ^ N.of_nat h)%N).
Proof.
  induction h as [|h IH].
  - reflexivity.
  - rewrite lsb_bits_S. cbn [path rev].
    set (P := (2 ^ N.of_nat h)%N) in *.
    assert (HP : (0 < P)%N) by (unfold P; apply N.neq_0_lt_0, N.pow_nonzero; lia).
    assert (E2 : (2 ^ N.of_nat (S h) = P * 2)%N).
    { rewrite Nat2N.inj_succ, N.pow_succ_r'. unfold P. lia. }
    rewrite E2. rewrite N.mod_mul_r by lia.
    rewrite N.testbit_eqb. fold P.
    assert (Hb : ((idx / P) mod 2 = 0 \/ (idx / P) mod 2 = 1)%N).
    { assert (Hlt : ((idx / P) mod 2 < 2)%N) by (apply N.mod_lt; lia).
      revert Hlt. generalize ((idx / P) mod 2)%N. intros m Hm. lia. }
    assert (Hm : (idx mod P < P)%N) by (apply N.mod_lt; lia).
    destruct Hb as [Hb|Hb]; rewrite Hb.
    + replace (idx mod P + P * 0)%N with (idx mod P)%N by lia.
      destruct (N.leb_spec P (idx mod P)); [lia|]. rewrite IH. reflexivity.
    + replace (idx mod P + P * 1)%N with (idx mod P + P)%N by lia.
      destruct (N.leb_spec P (idx mod P + P)); [|lia].
      replace (idx mod P + P - P)%N with (idx mod P)%N by lia. rewrite IH. reflexivity.
Qed.

(* ---------- locating a leaf in the forest ---------- *)
Lemma wf_leaves_div k ts : wf_from k ts ->
  exists q, N.of_nat (length (all_leaves ts)) = (q * 2 ^ N.of_nat k)%N.
Proof.
  revert k. induction ts as [|[t|] ts IH]; intros k Hw; simpl in *.
  - exists 0%N. lia.
  - destruct Hw as (Hp & Hk & Hw). destruct (IH (S k) Hw) as [q Hq].
    rewrite app_length, Nat2N.inj_add, Hq, (leaves_len t Hp), Hk.
    rewrite Nat2N.inj_succ, N.pow_succ_r'. exists (2 * q + 1)%N. lia.
  - destruct (IH (S k) Hw) as [q Hq]. rewrite Hq.
    rewrite Nat2N.inj_succ, N.pow_succ_r'. exists (2 * q)%N. lia.
Qed.

Lemma locate_spec k ts j t r : wf_from k ts -> locate ts j = Some (t, r) ->
  perfect t /\ (k <= height t)%nat /\ nth_error ts (height t - k) = Some (Some t) /\
  (r < 2 ^ N.of_nat (height t))%N /\
  nth_error (all_leaves ts) (N.to_nat j) = nth_error (leaves t) (N.to_nat r) /\
  (j mod 2 ^ N.of_nat (height t) = r)%N.
Proof.
  revert k. induction ts as [|[t0|] ts IH]; intros k Hw Hl; simpl in *; try discriminate.
  - destruct Hw as (Hp & Hk & Hw).
    destruct (N.ltb_spec j (N.of_nat (length (all_leaves ts)))) as [Hlt|Hge].
    + destruct (IH (S k) Hw Hl) as (A & B & C & D & E & F).
      split; [exact A|]. split; [lia|]. split.
      * replace (height t - k)%nat with (S (height t - S k)) by lia. exact C.
      * split; [exact D|]. split; [|exact F]. rewrite nth_error_app1 by lia. exact E.
    + destruct (N.ltb_spec (j - N.of_nat (length (all_leaves ts))) (N.of_nat (length (leaves t0)))) as [Hin|]; [|discriminate].
      inversion Hl; subst t0 r. clear Hl.
      split; [exact Hp|]. split; [lia|]. split; [rewrite Hk, Nat.sub_diag; reflexivity|].
      pose proof (leaves_len t Hp) as Ll. split; [lia|]. split.
      * rewrite nth_error_app2 by lia. f_equal. lia.
      * destruct (wf_leaves_div (S k) ts Hw) as [q Hq]. rewrite Hq in *.
        rewrite <- Hk in *. rewrite Nat2N.inj_succ, N.pow_succ_r' in *.
        set (P := (2 ^ N.of_nat (height t))%N) in *.
        assert (HP : (0 < P)%N) by (unfold P; apply N.neq_0_lt_0, N.pow_nonzero; lia).
        replace j with ((j - q * (2 * P)) + (q * 2) * P)%N at 1 by lia.
        rewrite N.mod_add by lia. apply N.mod_small. lia.
  - apply (IH (S k)) in Hl; [|exact Hw]. destruct Hl as (A & B & C & D & E & F).
    split; [exact A|]. split; [lia|]. split; [|auto].
    replace (height t - k)%nat with (S (height t - S k)) by lia. exact C.
Qed.

Lemma locate_some k ts j : wf_from k ts -> (j < N.of_nat (length (all_leaves ts)))%N ->
  exists t r, locate ts j = Some (t, r).
Proof.
  revert k. induction ts as [|[t0|] ts IH]; intros k Hw Hj; simpl in *.
  - lia.
  - destruct Hw as (Hp & Hk & Hw).
    destruct (N.ltb_spec j (N.of_nat (length (all_leaves ts)))) as [Hlt|Hge].
    + eapply IH; eauto.
    + rewrite app_length, Nat2N.inj_add in Hj.
      destruct (N.ltb_spec (j - N.of_nat (length (all_leaves ts))) (N.of_nat (length (leaves t0)))); [eauto|lia].
  - eapply IH; eauto.
Qed.

(* ---------- completeness: the naive proof of every leaf verifies against the roots ---------- *)
Definition verifies (a : acc) (x : hash) (idx : N) (proof : list hash) : bool :=
  match nth_error a (length proof) with
  | Some (Some r) => hash_eqb r (proofRootN H x idx proof)
  | _ => false
  end.

Lemma contains_verifies a l proof : contains_leaf H a l proof = verifies a (leaf_hash H l) (eidx l) proof.
Proof. reflexivity. Qed.

Lemma hash_eqb_refl x : hash_eqb x x = true.
Proof. unfold hash_eqb. destruct (hash_eq_dec x x); congruence. Qed.
Lemma hash_eqb_eq x y : hash_eqb x y = true -> x = y.
Proof. unfold hash_eqb. destruct (hash_eq_dec x y); congruence. Qed.


Theorem naive_proof_complete L j x : nth_error L (N.to_nat j) = Some x ->
  verifies (roots L) x j (naive_proof H L j) = true.
Proof.
  intros Hx.
  assert (Hj : (j < N.of_nat (length (all_leaves (forest_of L))))%N).
  { rewrite forest_leaves. assert (N.to_nat j < length L)%nat by (apply nth_error_Some; congruence). lia. }
  destruct (locate_some 0 _ j (forest_wf L) Hj) as (t & r & Hloc).
  destruct (locate_spec 0 _ j t r (forest_wf L) Hloc) as (Hp & _ & Hd & Hr & Hnth & Hmod).
  unfold naive_proof. rewrite Hloc.
  rewrite forest_leaves, Hx in Hnth.
  assert (Hget : get t (path (height t) r) = Some x) by (rewrite get_path; auto).
  destruct (sibs_length hash node t _ x Hp Hget) as [Ls Lp].
  unfold verifies. rewrite rev_length, Ls.
  unfold roots, roots_of. rewrite nth_error_map. rewrite Nat.sub_0_r in Hd. rewrite Hd. simpl.
  unfold proofRootN. rewrite rev_length, Ls, lsb_bits_path, Hmod.
  rewrite (proof_complete hash (Acc.node H) t _ x Hp Hget). apply hash_eqb_refl.
Qed.

Fixpoint offset (ts : tdigits hash) (i : nat) : nat :=      (* leaves held by digits above i *)
  match ts, i with
  | _ :: ts, O => length (all_leaves ts)
  | _ :: ts, S i => offset ts i
  | [], _ => O
  end.

(* ---------- soundness: whatever verifies is the true leaf at that position ---------- *)
Theorem verifies_sound L x idx proof : verifies (roots L) x idx proof = true ->
  (exists j, nth_error L (N.to_nat j) = Some x /\ (j mod 2 ^ N.of_nat (length proof) = idx mod 2 ^ N.of_nat (length proof))%N /\
             proof = naive_proof H L j)
  \/ NodeCollision hash node.
Proof.
  unfold verifies, roots, roots_of. rewrite nth_error_map.
  destruct (nth_error (forest_of L) (length proof)) as [[t|]|] eqn:Hd; simpl; try discriminate.
  intros E. apply hash_eqb_eq in E.
  (* the digit is a perfect tree of that height *)
  assert (Hwf : forall k ts i t, wf_from k ts -> nth_error ts i = Some (Some t) -> perfect t /\ height t = (k + i)%nat).
  { clear. intros k ts; revert k; induction ts as [|[t0|] ts IH]; intros k i t Hw Hn; destruct i; simpl in *; try discriminate.
    - inversion Hn; subst. destruct Hw as (A & B & _). split; auto. lia.
    - destruct Hw as (_ & _ & Hw). destruct (IH (S k) i t Hw Hn). split; auto; lia.
    - destruct (IH (S k) i t Hw Hn). split; auto; lia. }
  destruct (Hwf 0%nat _ _ _ (forest_wf L) Hd) as [Hp Hh]. simpl in Hh.
  unfold proofRootN in E. rewrite lsb_bits_path in E. rewrite <- Hh in E.
  set (r := (idx mod 2 ^ N.of_nat (height t))%N) in *.
  assert (Hr : (r < 2 ^ N.of_nat (height t))%N) by (apply N.mod_lt, N.pow_nonzero; lia).
  rewrite <- (rev_involutive proof) in E.
  assert (L1 : length (path (height t) r) = height t) by apply path_length.
  assert (L2 : length (rev proof) = height t) by (rewrite rev_length; lia).
  destruct (proof_sound hash hash_eq_dec (Acc.node H) t (path (height t) r) x (rev proof) Hp L1 L2 (eq_sym E)) as [[Hg Hs]|C];
    [|right; exact C].
  left.
  (* absolute index of that leaf *)
  assert (Hloc : forall k ts i, wf_from k ts -> nth_error ts i = Some (Some t) ->
            locate ts (N.of_nat (offset ts i) + r)%N = Some (t, r)).
  { clear - Hp Hr. clearbody r. intros k ts; revert k; induction ts as [|[t0|] ts IH]; intros k i Hw Hn; destruct i; simpl in *; try discriminate.
    - inversion Hn; subst t0. pose proof (leaves_len t Hp).
      destruct (N.ltb_spec (N.of_nat (length (all_leaves ts)) + r) (N.of_nat (length (all_leaves ts)))); [lia|].
      replace (N.of_nat (length (all_leaves ts)) + r - N.of_nat (length (all_leaves ts)))%N with r by lia.
      destruct (N.ltb_spec r (N.of_nat (length (leaves t)))); [reflexivity|lia].
    - destruct Hw as (Hp0 & Hk & Hw).
      assert (Hlen : (N.of_nat (offset ts i) + r < N.of_nat (length (all_leaves ts)))%N).
      { specialize (IH (S k) i Hw Hn). destruct (locate_spec (S k) ts _ t r Hw IH) as (_ & _ & _ & _ & Hnth & _).
        assert (nth_error (leaves t) (N.to_nat r) <> None).
        { apply nth_error_Some. pose proof (leaves_len t Hp) as Hll. clear - Hr Hll. lia. }
        rewrite <- Hnth in H. apply nth_error_Some in H. lia. }
      destruct (N.ltb_spec (N.of_nat (offset ts i) + r) (N.of_nat (length (all_leaves ts)))); [|lia].
      eapply IH; eauto.
    - eapply IH; eauto. }
  specialize (Hloc 0%nat _ _ (forest_wf L) Hd).
  set (j := (N.of_nat (offset (forest_of L) (length proof)) + r)%N) in *.
  exists j. destruct (locate_spec 0 _ j t r (forest_wf L) Hloc) as (_ & _ & _ & _ & Hnth & Hmod).
  rewrite forest_leaves in Hnth. split; [|split].
  - rewrite Hnth. rewrite <- get_path by auto. exact Hg.
  - rewrite Hh in Hmod. rewrite Hmod. unfold r. now rewrite Hh.
  - unfold naive_proof. rewrite Hloc. rewrite <- Hs. now rewrite rev_involutive.
Qed.

(* ---------- leaves commit to their own index and spent flag ---------- *)
Definition LeafCollision : Prop := exists a b : eleaf, a <> b /\ leaf_hash H a = leaf_hash H b.
Definition wf_leaves (L : list eleaf) : Prop := forall j l, nth_error L j = Some l -> eidx l = N.of_nat j.
Definition lhashes (L : list eleaf) : list hash := map (leaf_hash H) L.

Lemma eleaf_eq_dec (a b : eleaf) : {a = b} + {a <> b}.
Proof. decide equality; [apply bool_dec|apply N.eq_dec|apply hash_eq_dec]. Qed.

Theorem membership_sound L l proof : wf_leaves L ->
  contains_leaf H (roots (lhashes L)) l proof = true ->
  (nth_error L (N.to_nat (eidx l)) = Some l /\ proof = naive_proof H (lhashes L) (eidx l))
  \/ NodeCollision hash node \/ LeafCollision.
Proof.
  intros Hwf Hc. rewrite contains_verifies in Hc.
  destruct (verifies_sound _ _ _ _ Hc) as [(j & Hn & _ & Hp)|C]; [|right; left; exact C].
  unfold lhashes in Hn. rewrite nth_error_map in Hn.
  destruct (nth_error L (N.to_nat j)) as [l'|] eqn:Hl'; [|discriminate]. simpl in Hn. inversion Hn as [Hh].
  destruct (eleaf_eq_dec l' l) as [->|Hne].
  - left. pose proof (Hwf _ _ Hl') as Hi. rewrite N2Nat.id in Hi. subst j. auto.
  - right; right. exists l', l. auto.
Qed.

Theorem member_complete L k l : wf_leaves L -> nth_error L k = Some l ->
  contains_leaf H (roots (lhashes L)) l (naive_proof H (lhashes L) (N.of_nat k)) = true.
Proof.
  intros Hwf Hn. rewrite contains_verifies. rewrite (Hwf _ _ Hn).
  apply naive_proof_complete. rewrite Nat2N.id. unfold lhashes. rewrite nth_error_map, Hn. reflexivity.
Qed.

(* ---------- every history keeps the forest well formed ---------- *)
Lemma nth_set_nth {A} k (x : A) L j :
  nth_error (set_nth k x L) j =
  if Nat.eqb j k then (if (k <? length L)%nat then Some x else None) else nth_error L j.
Proof.
  revert L j. induction k as [|k IH]; intros [|a L] j; unfold set_nth in *; simpl.
  - destruct j; reflexivity.
  - destruct j; reflexivity.
  - destruct j as [|j]; [reflexivity|]. simpl. destruct (j =? k)%nat; destruct j; reflexivity.
  - destruct j as [|j]; [reflexivity|]. simpl. rewrite IH. reflexivity.
Qed.

Lemma set_nth_wf L u : wf_leaves L -> wf_leaves (set_nth (N.to_nat (eidx u)) u L).
Proof.
  intros Hwf j l. rewrite nth_set_nth. destruct (Nat.eqb_spec j (N.to_nat (eidx u))) as [->|Hne].
  - destruct (N.to_nat (eidx u) <? length L)%nat; [|discriminate]. intros E; inversion E; subst. lia.
  - apply Hwf.
Qed.

Lemma add_all_wf L xs : wf_leaves L -> wf_leaves (add_all L xs).
Proof.
  revert L. induction xs as [|[e s] xs IH]; intros L Hwf; simpl; auto.
  apply IH. intros j l. destruct (Nat.lt_ge_cases j (length L)) as [Hlt|Hge].
  - rewrite nth_error_app1 by exact Hlt. apply Hwf.
  - rewrite nth_error_app2 by exact Hge. destruct (j - length L)%nat as [|m] eqn:Hm; simpl.
    + intros E; inversion E; subst; simpl. f_equal. lia.
    + destruct m; discriminate.
Qed.

Theorem run_wf bs : wf_leaves (run bs).
Proof.
  unfold run. assert (G : forall L, wf_leaves L -> wf_leaves (fold_left apply_block bs L)).
  { induction bs as [|b bs IH]; intros L Hwf; simpl; auto. apply IH. unfold apply_block. apply add_all_wf.
    generalize (b_updated b). intros us. revert L Hwf. induction us as [|u us IHu]; intros L Hwf; simpl; auto.
    apply IHu. apply set_nth_wf; exact Hwf. }
  apply G. intros j l Hn. destruct j; discriminate.
Qed.

End AccProofs.
