From Coq Require Import List NArith Arith Bool Lia.
From Sia Require Import Prim.Tok Merkle.Tree Merkle.Forest Merkle.Rhp.
Import ListNotations.

Section RhpProofs.
Variable H : bytes -> bytes.
Notation node := (Rhp.node H).

(* proofAccumulator.insertNode(h, 0) and blake2b.Accumulator.AddLeaf are the binary increment *)
Lemma carry_inc h ds : carry H h ds = inc hash node h ds.
Proof. revert h; induction ds as [|[t|] ds IH]; intros h; simpl; auto; rewrite IH; reflexivity. Qed.

Lemma insert0_inc h ds : insert_node H h 0 ds = inc hash node h ds.
Proof. apply carry_inc. Qed.

(* hence after adding any list of leaves the digits are the roots of a well-formed forest of
   perfect trees over exactly those leaves, digit i of height i *)
Lemma fold_insert0 xs ds :
  fold_left (fun a h => insert_node H h 0 a) xs ds = fold_left (fun d x => inc hash node x d) xs ds.
Proof. revert ds. induction xs as [|x xs IH]; intros ds; cbn [fold_left]; [reflexivity|]. rewrite insert0_inc. apply IH. Qed.

Theorem acc_digits_repr L ds xs : Repr hash node L ds ->
  Repr hash node (L ++ xs) (fold_left (fun a h => insert_node H h 0 a) xs ds).
Proof. intros HR. rewrite fold_insert0. now apply add_leaves_repr. Qed.

Theorem acc_count L ds : Repr hash node L ds -> length L = value hash 0 ds.
Proof. apply repr_count. Qed.
End RhpProofs.
