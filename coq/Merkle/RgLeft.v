(* the left part of a built range proof has popcount(start) hashes *)
From Coq Require Import List NArith Arith Bool Lia ZifyN ZifyNat ZifyBool.
From Sia Require Import Prim.Tok Merkle.Rhp.
From Sia Require Import Merkle.RgBits Merkle.RgCount.
Import ListNotations.
Local Open Scope N_scope.

Section RLeft.
Variable H : bytes -> bytes.
Notation build_range := (Rhp.build_range H).

(* adding a smaller power of two to a multiple of a larger one *)
Lemma ctz_add_pow i b : (i = 0 \/ b < ctz i) -> b < 64 -> ctz (i + 2 ^ b) = b.
Proof.
  intros [->|Hb] B64; [rewrite N.add_0_l; apply ctz_pow2|].
  destruct (N.eq_dec i 0) as [->|NZ]; [rewrite N.add_0_l; apply ctz_pow2|].
  destruct (ctz_spec i ltac:(lia)) as (q & E). set (c := ctz i) in *.
  replace (i + 2 ^ b) with (2 ^ b * (2 * ((2 * q + 1) * 2 ^ (c - b - 1)) + 1)); [apply ctz_unique|].
  rewrite E. replace c with (b + N.succ (c - b - 1)) at 2 by lia. rewrite N.pow_add_r, N.pow_succ_r'. lia.
Qed.

Lemma left_count (ls : list hash) start : start <= N.of_nat (length ls) -> N.of_nat (length ls) < 2 ^ 64 ->
  forall k i fb, (N.to_nat (start - i) <= k)%nat -> i <= start -> (i = 0 \/ start - i < 2 ^ ctz i) -> (N.to_nat (start - i) <= fb)%nat ->
    N.of_nat (length (build_range fb ls (N.of_nat (length ls)) i start)) = popcount (start - i).
Proof.
  intros Hs Hn. induction k as [|k IH]; intros i fb Hk Hi Inv Hfb.
  - assert (i = start) by lia. subst i. rewrite N.sub_diag. destruct fb; cbn [Rhp.build_range]; rewrite ?N.ltb_irrefl; reflexivity.
  - destruct (N.eq_dec i start) as [->|Ne]; [rewrite N.sub_diag; destruct fb; cbn [Rhp.build_range]; rewrite ?N.ltb_irrefl; reflexivity|].
    assert (Lt : i < start) by lia. set (rem := start - i) in *. assert (Hr : 0 < rem) by lia.
    destruct (nss_spec i start Lt ltac:(lia)) as (h & Es & Hh & _ & Fit & _ & Hm). fold rem in Hm.
    pose proof (N.log2_spec rem Hr) as [R1 R2].
    assert (Hlog : N.log2 rem < 64) by (apply N.log2_lt_pow2; lia).
    assert (Eh : h = N.log2 rem).
    { rewrite Hm. destruct (N.eqb_spec i 0); [lia|]. destruct Inv as [|Inv]; [contradiction|].
      assert (N.log2 rem < ctz i).
      { destruct (N.lt_ge_cases (N.log2 rem) (ctz i)) as [|G]; [assumption|]. exfalso. assert (2 ^ ctz i <= 2 ^ N.log2 rem) by (apply N.pow_le_mono_r; lia). lia. }
      lia. }
    clear Hm. subst h. destruct fb as [|fb]; [lia|]. cbn [Rhp.build_range].
    destruct (N.ltb_spec i start); [|lia]. destruct (N.ltb_spec i (N.of_nat (length ls))); [|lia]. cbn [andb]. cbv zeta. rewrite Es.
    destruct (N.ltb_spec (N.of_nat (length ls)) (i + 2 ^ N.log2 rem)); [lia|]. cbn [length]. rewrite Nat2N.inj_succ.
    rewrite (IH (i + 2 ^ N.log2 rem) fb); try lia.
    + rewrite (popcount_top rem Hr). replace (start - (i + 2 ^ N.log2 rem)) with (rem - 2 ^ N.log2 rem) by lia. lia.
    + right. rewrite ctz_add_pow; [rewrite N.pow_succ_r' in R2; lia | | exact Hlog].
      destruct Inv as [->|Inv]; [left; reflexivity|]. right.
      destruct (N.lt_ge_cases (N.log2 rem) (ctz i)) as [|G]; [assumption|]. exfalso. assert (2 ^ ctz i <= 2 ^ N.log2 rem) by (apply N.pow_le_mono_r; lia). lia.
Qed.
End RLeft.
