(* The element accumulator of consensus/merkle.go.
   Executable part: leaf hashing, proofRoot with the index bits exactly as the Go loop uses
   them, containsLeaf, the carry chain of addLeaves (roots), and the *true forest*: all leaves
   ever added, built naively, with the naive proof of every leaf. *)
From Coq Require Import List NArith Arith Bool Lia.
From Sia Require Import Prim.Tok Merkle.Tree Merkle.Forest.
Import ListNotations.

Section Acc.
Variable H : bytes -> bytes.

Definition hash := bytes.
Definition hash_eq_dec : forall a b : hash, {a = b} + {a <> b} := list_eq_dec N.eq_dec.
Definition hash_eqb (a b : hash) : bool := if hash_eq_dec a b then true else false.
Definition node (l r : hash) : hash := H (1%N :: l ++ r).          (* blake2b.SumPair *)

Fixpoint le_bytes (n : nat) (x : N) : bytes :=
  match n with O => [] | S n' => N.modulo x 256 :: le_bytes n' (N.div x 256) end.
Definition le64 (x : N) : bytes := le_bytes 8 x.

(* elementLeaf: the element hash, the leaf index and the spent flag are committed *)
Record eleaf := mkLeaf { ehash : hash; eidx : N; espent : bool }.
Definition leaf_hash (l : eleaf) : hash :=
  H (0%N :: ehash l ++ le64 (eidx l) ++ [if espent l then 1%N else 0%N]).

(* bit i of the leaf index selects the side for proof element i *)
Definition lsb_bits (idx : N) (n : nat) : list bool := map (fun i => N.testbit idx (N.of_nat i)) (seq 0 n).
Definition proofRootN (x : hash) (idx : N) (ps : list hash) : hash :=
  proofRoot hash node x (lsb_bits idx (length ps)) ps.

(* the accumulator: digit h = root of the tree of height h, present iff bit h of NumLeaves *)
Definition acc := digits hash.
Definition num_leaves (a : acc) : N := N.of_nat (value hash 0 a).
Definition contains_leaf (a : acc) (l : eleaf) (proof : list hash) : bool :=
  match nth_error a (length proof) with
  | Some (Some r) => hash_eqb r (proofRootN (leaf_hash l) (eidx l) proof)
  | _ => false
  end.
Definition add_leaves (a : acc) (xs : list hash) : acc := fold_left (fun d x => inc hash node x d) xs a.

(* the true forest over a leaf list *)
Definition forest_of (L : list hash) : tdigits hash := fold_left (fun ts x => tinc hash (Leaf hash x) ts) L [].
Definition roots (L : list hash) : acc := roots_of hash node (forest_of L).

Fixpoint path (h : nat) (r : N) : list bool :=          (* position of relative index r, MSB first *)
  match h with
  | O => []
  | S h' => let b := N.leb (2 ^ N.of_nat h') r in b :: path h' (if b then r - 2 ^ N.of_nat h' else r)
  end%N.

Fixpoint locate (ts : tdigits hash) (k : N) : option (ptree hash * N) :=
  match ts with
  | [] => None
  | None :: ts => locate ts k
  | Some t :: ts =>
    let n := N.of_nat (length (all_leaves hash ts)) in
    if (k <? n)%N then locate ts k
    else if (k - n <? N.of_nat (length (leaves hash t)))%N then Some (t, (k - n)%N) else None
  end.

(* proof of leaf k, bottom-up as Go stores it *)
Definition naive_proof (L : list hash) (k : N) : list hash :=
  match locate (forest_of L) k with
  | Some (t, r) => rev (sibs hash node t (path (height hash t) r))
  | None => []
  end.

(* one block: leaves rewritten in place (spent / revised), then leaves appended *)
Definition set_nth {A} (k : nat) (x : A) (l : list A) : list A :=
  firstn k l ++ match skipn k l with [] => [] | _ :: r => x :: r end.
Record block := { b_updated : list eleaf; b_added : list (hash * bool) }.
Fixpoint add_all (L : list eleaf) (xs : list (hash * bool)) : list eleaf :=
  match xs with
  | [] => L
  | (e, s) :: xs => add_all (L ++ [mkLeaf e (N.of_nat (length L)) s]) xs
  end.
Definition apply_block (L : list eleaf) (b : block) : list eleaf :=
  add_all (fold_left (fun L u => set_nth (N.to_nat (eidx u)) u L) (b_updated b) L) (b_added b).
Definition run (bs : list block) : list eleaf := fold_left apply_block bs [].

End Acc.
