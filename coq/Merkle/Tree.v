(* Prototype: perfect Merkle trees, proofs as in consensus/merkle.go proofRoot.
   Positions are bit lists, MSB first (top-down).  Go's loop uses bit i of the leaf
   index for proof element i, i.e. LSB first, proofs bottom-up: hence the [rev]s. *)
From Coq Require Import List Arith Lia Bool.
Import ListNotations.

Section Tree.
Variable hash : Type.
Variable hash_eq_dec : forall a b : hash, {a = b} + {a <> b}.
Variable node : hash -> hash -> hash.

Definition NodeCollision : Prop := exists a b c d, (a, b) <> (c, d) /\ node a b = node c d.

Inductive ptree : Type := Leaf (x : hash) | Node (l r : ptree).

Fixpoint height (t : ptree) : nat := match t with Leaf _ => 0 | Node l _ => S (height l) end.
Fixpoint perfect (t : ptree) : Prop :=
  match t with Leaf _ => True | Node l r => perfect l /\ perfect r /\ height l = height r end.
Fixpoint root (t : ptree) : hash := match t with Leaf x => x | Node l r => node (root l) (root r) end.
Fixpoint leaves (t : ptree) : list hash := match t with Leaf x => [x] | Node l r => leaves l ++ leaves r end.

Fixpoint get (t : ptree) (p : list bool) : option hash :=
  match t, p with
  | Leaf x, [] => Some x
  | Node l r, b :: p => get (if b then r else l) p
  | _, _ => None
  end.

Fixpoint set (t : ptree) (p : list bool) (y : hash) : ptree :=
  match t, p with
  | Leaf _, [] => Leaf y
  | Node l r, b :: p => if b then Node l (set r p y) else Node (set l p y) r
  | _, _ => t
  end.

(* sibling hashes along the path, top-down *)
Fixpoint sibs (t : ptree) (p : list bool) : list hash :=
  match t, p with
  | Node l r, b :: p => root (if b then l else r) :: sibs (if b then r else l) p
  | _, _ => []
  end.

Definition step (acc : hash) (bh : bool * hash) : hash :=
  let '(b, h) := bh in if b then node h acc else node acc h.
(* Go: proofRoot(leafHash, leafIndex, proof); bits LSB first *)
Definition proofRoot (leaf : hash) (bits_lsb : list bool) (proof : list hash) : hash :=
  fold_left step (combine bits_lsb proof) leaf.

Lemma combine_snoc {A B} (xs : list A) (ys : list B) x y :
  length xs = length ys -> combine (xs ++ [x]) (ys ++ [y]) = combine xs ys ++ [(x, y)].
Proof.
  revert ys. induction xs as [|a xs IH]; intros [|b ys] E; simpl in *; try discriminate; auto.
  f_equal. apply IH. lia.
Qed.

Lemma proofRoot_snoc leaf bs ps b s : length bs = length ps ->
  proofRoot leaf (bs ++ [b]) (ps ++ [s]) = step (proofRoot leaf bs ps) (b, s).
Proof. intros E. unfold proofRoot. rewrite combine_snoc by exact E. now rewrite fold_left_app. Qed.

Lemma sibs_length t p x : perfect t -> get t p = Some x -> length (sibs t p) = height t /\ length p = height t.
Proof.
  revert p. induction t as [y|l IHl r IHr]; intros [|b p] Hp Hg; simpl in *; try discriminate; auto.
  destruct Hp as (Hl & Hr & Hh). destruct b.
  - destruct (IHr p Hr Hg). lia.
  - destruct (IHl p Hl Hg). lia.
Qed.

Theorem proof_complete t p x : perfect t -> get t p = Some x ->
  proofRoot x (rev p) (rev (sibs t p)) = root t.
Proof.
  revert p. induction t as [y|l IHl r IHr]; intros p Hp Hg.
  - destruct p; simpl in *; [|discriminate]. now inversion Hg.
  - destruct p as [|b p]; simpl in *; [discriminate|].
    destruct Hp as (Hl & Hr & Hh).
    destruct b; simpl.
    + destruct (sibs_length r p x Hr Hg) as [E1 E2].
      rewrite proofRoot_snoc by (rewrite !rev_length; lia). simpl. now rewrite (IHr p Hr Hg).
    + destruct (sibs_length l p x Hl Hg) as [E1 E2].
      rewrite proofRoot_snoc by (rewrite !rev_length; lia). simpl. now rewrite (IHl p Hl Hg).
Qed.

Lemma get_total t p : perfect t -> length p = height t -> exists x, get t p = Some x.
Proof.
  revert p. induction t as [y|l IHl r IHr]; intros [|b p] Hp E; simpl in *; try discriminate; eauto.
  destruct Hp as (Hl & Hr & Hh). destruct b; [apply IHr|apply IHl]; auto; lia.
Qed.

Lemma pair_eq_dec (a b c d : hash) : {(a, b) = (c, d)} + {(a, b) <> (c, d)}.
Proof. destruct (hash_eq_dec a c), (hash_eq_dec b d); subst; auto; right; congruence. Qed.

(* soundness: a proof of the right length that hashes to the root proves the true leaf
   and carries the true siblings, or we hold a collision of [node] *)
Theorem proof_sound t p x ps : perfect t -> length p = height t -> length ps = height t ->
  proofRoot x (rev p) (rev ps) = root t -> (get t p = Some x /\ ps = sibs t p) \/ NodeCollision.
Proof.
  revert p ps. induction t as [y|l IHl r IHr]; intros p ps Hp Lp Lps E.
  - destruct p; destruct ps; simpl in *; try discriminate. left. unfold proofRoot in E. simpl in E. subst. auto.
  - destruct p as [|b p]; destruct ps as [|s ps]; simpl in *; try discriminate.
    destruct Hp as (Hl & Hr & Hh).
    rewrite proofRoot_snoc in E by (rewrite !rev_length; lia). simpl in E.
    destruct b.
    + set (X := proofRoot x (rev p) (rev ps)) in *.
      destruct (pair_eq_dec s X (root l) (root r)) as [Heq|Hne].
      * inversion Heq as [[E1 E2]]. subst s.
        destruct (IHr p ps Hr) as [[G S]|C]; try lia; auto.
        left. split; auto. now f_equal.
      * right. exists s, X, (root l), (root r). auto.
    + set (X := proofRoot x (rev p) (rev ps)) in *.
      destruct (pair_eq_dec X s (root l) (root r)) as [Heq|Hne].
      * inversion Heq as [[E1 E2]]. subst s.
        destruct (IHl p ps Hl) as [[G S]|C]; try lia; auto.
        left. split; auto. now f_equal.
      * right. exists X, s, (root l), (root r). auto.
Qed.

(* updating one leaf *)
Lemma set_height t p y : height (set t p y) = height t.
Proof. revert p; induction t as [x|l IHl r IHr]; intros [|b p]; simpl; auto. destruct b; simpl; auto. Qed.

Lemma set_perfect t p y : perfect t -> perfect (set t p y).
Proof.
  revert p; induction t as [x|l IHl r IHr]; intros [|b p] H; simpl in *; auto.
  destruct H as (Hl & Hr & Hh). destruct b; simpl; rewrite ?set_height; auto.
Qed.

Lemma get_set_same t p y x : get t p = Some x -> get (set t p y) p = Some y.
Proof. revert p; induction t as [z|l IHl r IHr]; intros [|b p] H; simpl in *; try discriminate; auto. destruct b; simpl; auto. Qed.

Lemma get_set_other t p q y : p <> q -> length p = length q -> get (set t q y) p = get t p.
Proof.
  revert p q; induction t as [z|l IHl r IHr]; intros [|b p] [|c q] Hne E; simpl in *; try discriminate; try congruence; auto.
  destruct c, b; simpl; auto; apply IHr || apply IHl; try congruence; lia.
Qed.

Lemma sibs_set_same t p y : sibs (set t p y) p = sibs t p.
Proof.
  revert p; induction t as [z|l IHl r IHr]; intros [|b p]; simpl; auto.
  destruct b; simpl; f_equal; auto.
Qed.

(* common prefix split: the merge point of two distinct positions *)
Lemma sibs_set_diverge l r p q y b :
  sibs (set (Node l r) (b :: q) y) (negb b :: p) =
  root (set (if b then r else l) q y) :: sibs (if b then l else r) p.
Proof. destruct b; simpl; reflexivity. Qed.

Lemma sibs_set_shared l r p q y b :
  sibs (set (Node l r) (b :: q) y) (b :: p) =
  root (if b then l else r) :: sibs (set (if b then r else l) q y) p.
Proof. destruct b; simpl; reflexivity. Qed.

(* the statement behind updateProof: after updating position q, the proof of position p
   is: unchanged below the merge point, the new subtree root of q's side at the merge
   point, and equal to q's new proof above it *)
Fixpoint common {A} (eqb : A -> A -> bool) (p q : list A) : nat :=
  match p, q with a :: p, b :: q => if eqb a b then S (common eqb p q) else 0 | _, _ => 0 end.

Theorem update_proof_spec t p q y : perfect t -> length p = height t -> length q = height t -> p <> q ->
  let k := common Bool.eqb p q in
  let t' := set t q y in
  firstn k (sibs t' p) = firstn k (sibs t' q) /\
  skipn (S k) (sibs t' p) = skipn (S k) (sibs t p).
Proof.
  revert p q. induction t as [z|l IHl r IHr]; intros p q Hp Lp Lq Hne; simpl in *.
  - destruct p, q; simpl in *; try discriminate. congruence.
  - destruct p as [|b p]; destruct q as [|c q]; simpl in *; try discriminate.
    destruct Hp as (Hl & Hr & Hh).
    destruct (Bool.eqb b c) eqn:Ebc.
    + apply Bool.eqb_prop in Ebc. subst c.
      assert (Hne' : p <> q) by congruence.
      destruct b; simpl.
      * destruct (IHr p q Hr ltac:(lia) ltac:(lia) Hne') as [A B]. split; [f_equal; exact A|exact B].
      * destruct (IHl p q Hl ltac:(lia) ltac:(lia) Hne') as [A B]. split; [f_equal; exact A|exact B].
    + split; [reflexivity|]. destruct b, c; simpl in *; try discriminate; reflexivity.
Qed.

End Tree.
