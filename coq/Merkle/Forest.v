(* Prototype: the accumulator as a binary numeral of perfect trees; addLeaf = increment. *)
From Coq Require Import List Arith Lia Bool.
Import ListNotations.
From Sia Require Import Merkle.Tree.

Section Forest.
Variable hash : Type.
Variable node : hash -> hash -> hash.
Notation ptree := (ptree hash).
Notation root := (root hash node).
Notation leaves := (leaves hash).
Notation perfect := (perfect hash).
Notation height := (height hash).

(* digits, least significant first: digit i is the root of a tree of height i, or absent *)
Definition digits := list (option hash).

Fixpoint inc (x : hash) (ds : digits) : digits :=
  match ds with
  | [] => [Some x]
  | None :: ds => Some x :: ds
  | Some r :: ds => None :: inc (node r x) ds
  end.

(* the abstract forest: same shape, but whole trees *)
Definition tdigits := list (option ptree).

Fixpoint tinc (x : ptree) (ts : tdigits) : tdigits :=
  match ts with
  | [] => [Some x]
  | None :: ts => Some x :: ts
  | Some t :: ts => None :: tinc (Node hash t x) ts
  end.

(* well-formed from height k: digit i holds a perfect tree of height k+i *)
Fixpoint wf_from (k : nat) (ts : tdigits) : Prop :=
  match ts with
  | [] => True
  | None :: ts => wf_from (S k) ts
  | Some t :: ts => perfect t /\ height t = k /\ wf_from (S k) ts
  end.

(* all leaves, oldest first: higher digits hold older leaves *)
Fixpoint all_leaves (ts : tdigits) : list hash :=
  match ts with
  | [] => []
  | None :: ts => all_leaves ts
  | Some t :: ts => all_leaves ts ++ leaves t
  end.

Definition roots_of (ts : tdigits) : digits := map (option_map root) ts.

Lemma tinc_wf k x ts : perfect x -> height x = k -> wf_from k ts -> wf_from k (tinc x ts).
Proof.
  revert k x. induction ts as [|[t|] ts IH]; intros k x Hx Hh Hw; simpl in *; auto.
  destruct Hw as (Ht & Hk & Hw). apply IH; simpl; auto. repeat split; auto; lia.
Qed.

Lemma tinc_leaves x ts : all_leaves (tinc x ts) = all_leaves ts ++ leaves x.
Proof.
  revert x. induction ts as [|[t|] ts IH]; intros x; simpl; auto.
  rewrite IH. simpl. now rewrite app_assoc.
Qed.

Lemma tinc_roots x ts : roots_of (tinc x ts) = inc (root x) (roots_of ts).
Proof.
  revert x. induction ts as [|[t|] ts IH]; intros x; simpl; auto.
  now rewrite IH.
Qed.

(* representation invariant: the digit list [ds] are the roots of a well-formed forest over L *)
Definition Repr (L : list hash) (ds : digits) : Prop :=
  exists ts, wf_from 0 ts /\ all_leaves ts = L /\ roots_of ts = ds.

Theorem add_leaf_repr L ds x : Repr L ds -> Repr (L ++ [x]) (inc x ds).
Proof.
  intros (ts & Hw & HL & HR). exists (tinc (Leaf hash x) ts). split; [|split].
  - apply tinc_wf; simpl; auto.
  - rewrite tinc_leaves, HL. reflexivity.
  - rewrite tinc_roots, HR. reflexivity.
Qed.

Theorem add_leaves_repr L ds xs : Repr L ds -> Repr (L ++ xs) (fold_left (fun d x => inc x d) xs ds).
Proof.
  revert L ds. induction xs as [|x xs IH]; intros L ds H; simpl.
  - now rewrite app_nil_r.
  - replace (L ++ x :: xs) with ((L ++ [x]) ++ xs) by (now rewrite <- app_assoc).
    apply IH. now apply add_leaf_repr.
Qed.

Lemma repr_nil : Repr [] [].
Proof. exists []. simpl. auto. Qed.

(* number of leaves = value of the numeral *)
Fixpoint value (k : nat) (ds : digits) : nat :=
  match ds with [] => 0 | None :: ds => value (S k) ds | Some _ :: ds => 2 ^ k + value (S k) ds end.

Lemma leaves_length t : perfect t -> length (leaves t) = 2 ^ height t.
Proof.
  induction t as [x|l IHl r IHr]; simpl; intros H; auto.
  destruct H as (Hl & Hr & Hh). rewrite app_length, IHl, IHr, Hh by auto. lia.
Qed.

Lemma wf_value k ts : wf_from k ts -> length (all_leaves ts) = value k (roots_of ts).
Proof.
  revert k. induction ts as [|[t|] ts IH]; intros k H; simpl in *; auto.
  destruct H as (Ht & Hk & Hw). rewrite app_length, (IH (S k)) by auto. rewrite leaves_length, Hk by auto. lia.
Qed.

Theorem repr_count L ds : Repr L ds -> length L = value 0 ds.
Proof. intros (ts & Hw & <- & <-). now apply wf_value. Qed.
End Forest.
