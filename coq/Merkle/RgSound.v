(* Soundness of sector-range proofs: for fixed (n, start, end) the verifier evaluates one fixed tree expression over the
   proof hashes and the covered roots, so whatever it accepts against the plain root is the honest proof with the true
   roots -- or two different pairs with the same node hash are in hand. *)
From Coq Require Import List NArith Arith Bool Lia Permutation.
From Sia Require Import Prim.Tok Merkle.Rhp.
Import ListNotations.
Local Open Scope N_scope.

(* ---- the verifier's accumulator program, over any carrier ---- *)
Section Poly.
Variable X : Type.
Variable nd : X -> X -> X.
Fixpoint pcarry (h : X) (ds : list (option X)) : list (option X) :=
  match ds with
  | [] => [Some h]
  | None :: ds => Some h :: ds
  | Some t :: ds => None :: pcarry (nd t h) ds
  end.
Fixpoint pins (h : X) (height : nat) (ds : list (option X)) : list (option X) :=
  match height with
  | O => pcarry h ds
  | S k => match ds with [] => None :: pins h k [] | d :: ds => d :: pins h k ds end
  end.
Fixpoint proot_aux (acc : option X) (ds : list (option X)) : option X :=
  match ds with
  | [] => acc
  | None :: ds => proot_aux acc ds
  | Some t :: ds => proot_aux (Some (match acc with None => t | Some r => nd t r end)) ds
  end.
Fixpoint pins_range (fuel : nat) (acc : list (option X)) (proof : list X) (i j : N) : list (option X) * list X :=
  match fuel with
  | O => (acc, proof)
  | S f =>
    match proof with
    | [] => (acc, proof)
    | p :: rest => if i <? j then let s := next_subtree_size i j in pins_range f (pins p (N.to_nat (tz64 s)) acc) rest (i + s) j
                   else (acc, proof)
    end
  end.
Definition pverify_state (proof roots : list X) (start end_ : N) : list (option X) * list X :=
  let '(acc, proof) := pins_range FUEL [] proof 0 start in
  let acc := fold_left (fun a h => pins h 0 a) roots acc in
  pins_range FUEL acc proof end_ (Rhp.W - 1).
Definition pverify_root (proof roots : list X) (start end_ : N) : option X := proot_aux None (fst (pverify_state proof roots start end_)).
Definition pverify_left (proof roots : list X) (start end_ : N) : list X := snd (pverify_state proof roots start end_).
End Poly.
Arguments pcarry {X}. Arguments pins {X}. Arguments proot_aux {X}. Arguments pins_range {X}. Arguments pverify_root {X}. Arguments pverify_state {X}. Arguments pverify_left {X}.

(* ---- homomorphisms commute with the program ---- *)
Section Hom.
Variables X Y : Type.
Variable nd : X -> X -> X.
Variable nd' : Y -> Y -> Y.
Variable f : X -> Y.
Hypothesis Hf : forall a b, f (nd a b) = nd' (f a) (f b).
Notation mf := (map (option_map f)).
Lemma hom_carry h ds : mf (pcarry nd h ds) = pcarry nd' (f h) (mf ds).
Proof. revert h. induction ds as [|[t|] ds IH]; intros h; cbn; [reflexivity| |reflexivity]. rewrite IH, Hf. reflexivity. Qed.
Lemma hom_ins h k : forall ds, mf (pins nd h k ds) = pins nd' (f h) k (mf ds).
Proof.
  induction k as [|k IH]; intros ds; cbn [pins]; [apply hom_carry|].
  destruct ds as [|d ds]; cbn [map]; f_equal; [exact (IH []) | apply IH].
Qed.
Lemma hom_root ds : forall acc, option_map f (proot_aux nd acc ds) = proot_aux nd' (option_map f acc) (mf ds).
Proof.
  induction ds as [|[t|] ds IH]; intros acc; cbn [proot_aux map option_map]; [reflexivity| |apply IH].
  rewrite IH. destruct acc; cbn [option_map]; rewrite ?Hf; reflexivity.
Qed.
Lemma hom_range fuel : forall acc proof i j,
  (let '(a, r) := pins_range nd fuel acc proof i j in (mf a, map f r)) = pins_range nd' fuel (mf acc) (map f proof) i j.
Proof.
  induction fuel as [|fu IH]; intros acc proof i j; cbn [pins_range]; [reflexivity|].
  destruct proof as [|p rest]; cbn [map]; [reflexivity|]. destruct (i <? j); [|reflexivity]. cbv zeta.
  rewrite <- hom_ins. apply IH.
Qed.
Lemma hom_state proof roots s e :
  (let '(a, r) := pverify_state nd proof roots s e in (mf a, map f r)) = pverify_state nd' (map f proof) (map f roots) s e.
Proof.
  unfold pverify_state. pose proof (hom_range FUEL [] proof 0 s) as R1. destruct (pins_range nd FUEL [] proof 0 s) as [a1 r1].
  cbn [map] in R1. rewrite <- R1.
  assert (F : forall rs a, mf (fold_left (fun a h => pins nd h 0 a) rs a) = fold_left (fun a h => pins nd' h 0 a) (map f rs) (mf a)).
  { induction rs as [|x rs IH]; intros a; cbn [fold_left map]; [reflexivity|]. rewrite IH, hom_ins. reflexivity. }
  rewrite <- F. apply hom_range.
Qed.
Lemma hom_verify proof roots s e : option_map f (pverify_root nd proof roots s e) = pverify_root nd' (map f proof) (map f roots) s e.
Proof.
  unfold pverify_root. pose proof (hom_state proof roots s e) as E. destruct (pverify_state nd proof roots s e) as [a r].
  rewrite <- E. cbn [fst]. apply hom_root.
Qed.
Lemma hom_left proof roots s e : map f (pverify_left nd proof roots s e) = pverify_left nd' (map f proof) (map f roots) s e.
Proof.
  unfold pverify_left. pose proof (hom_state proof roots s e) as E. destruct (pverify_state nd proof roots s e) as [a r].
  rewrite <- E. reflexivity.
Qed.
End Hom.

(* ---- two runs at once: pairs of hashes, with the proposition "all inputs merged so far agree" ---- *)
Section Pairs.
Variable H : bytes -> bytes.
Notation node := (Rhp.node H).
Definition NodeCollision : Prop := exists a b c d : hash, (a, b) <> (c, d) /\ node a b = node c d.

Definition PX : Type := (hash * hash) * Prop.
Definition nd2 (x y : PX) : PX := ((node (fst (fst x)) (fst (fst y)), node (snd (fst x)) (snd (fst y))), snd x /\ snd y).
Definition inj (a b : hash) : PX := ((a, b), a = b).
Definition f1 (x : PX) : hash := fst (fst x).
Definition f2 (x : PX) : hash := snd (fst x).
Lemma f1_hom a b : f1 (nd2 a b) = node (f1 a) (f1 b). Proof. reflexivity. Qed.
Lemma f2_hom a b : f2 (nd2 a b) = node (f2 a) (f2 b). Proof. reflexivity. Qed.

(* if the two components agree, all merged inputs agree -- or a collision is in hand *)
Definition Good (x : PX) : Prop := f1 x = f2 x -> snd x \/ NodeCollision.
Lemma hash_dec : forall a b : hash, {a = b} + {a <> b}. Proof. apply list_eq_dec, N.eq_dec. Qed.
Lemma good_inj a b : Good (inj a b). Proof. intros E. left. exact E. Qed.
Lemma good_nd x y : Good x -> Good y -> Good (nd2 x y).
Proof.
  intros Gx Gy E. unfold f1, f2, nd2 in E. cbn [fst snd] in E.
  destruct (hash_dec (f1 x) (f2 x)) as [Ex|Nx]; [destruct (hash_dec (f1 y) (f2 y)) as [Ey|Ny]|].
  - destruct (Gx Ex) as [Px|C]; [|right; exact C]. destruct (Gy Ey) as [Py|C]; [|right; exact C]. left. split; assumption.
  - right. exists (f1 x), (f1 y), (f2 x), (f2 y). split; [unfold f1, f2 in *; congruence | exact E].
  - right. exists (f1 x), (f1 y), (f2 x), (f2 y). split; [unfold f1, f2 in *; congruence | exact E].
Qed.

Fixpoint allp (ds : list (option PX)) : Prop := match ds with [] => True | None :: r => allp r | Some x :: r => snd x /\ allp r end.
Fixpoint lall (l : list PX) : Prop := match l with [] => True | x :: r => snd x /\ lall r end.
Definition gooda (ds : list (option PX)) : Prop := Forall (fun d => match d with Some x => Good x | None => True end) ds.

Lemma carry_inv h ds : Good h -> gooda ds -> gooda (pcarry nd2 h ds) /\ (allp (pcarry nd2 h ds) <-> snd h /\ allp ds).
Proof.
  revert h. induction ds as [|[t|] ds IH]; intros h Gh Ga; cbn [pcarry allp].
  - split; [apply Forall_cons; [exact Gh | apply Forall_nil] | tauto].
  - inversion Ga as [|? ? Gt Gr]; subst. destruct (IH (nd2 t h) (good_nd _ _ Gt Gh) Gr) as [A B]. split; [apply Forall_cons; [exact I | exact A]|].
    rewrite B. unfold nd2. cbn [snd]. tauto.
  - inversion Ga as [|? ? _ Gr]; subst. split; [apply Forall_cons; [exact Gh | exact Gr] | tauto].
Qed.
Lemma ins_inv h k : forall ds, Good h -> gooda ds -> gooda (pins nd2 h k ds) /\ (allp (pins nd2 h k ds) <-> snd h /\ allp ds).
Proof.
  induction k as [|k IH]; intros ds Gh Ga; cbn [pins]; [apply carry_inv; assumption|].
  destruct ds as [|d ds].
  - destruct (IH [] Gh (Forall_nil _)) as [A B]. split; [apply Forall_cons; [exact I | exact A]|]. cbn [allp]. rewrite B. cbn [allp]. tauto.
  - inversion Ga as [|? ? Gd Gr]; subst. destruct (IH ds Gh Gr) as [A B]. split; [apply Forall_cons; assumption|].
    destruct d as [x|]; cbn [allp]; rewrite B; tauto.
Qed.
Lemma root_inv ds : forall acc, gooda ds -> (match acc with Some a => Good a | None => True end) ->
  match proot_aux nd2 acc ds with
  | Some v => Good v /\ (snd v <-> (match acc with Some a => snd a | None => True end) /\ allp ds)
  | None => acc = None /\ (allp ds <-> True)
  end.
Proof.
  induction ds as [|[t|] ds IH]; intros acc Ga Gacc; cbn [proot_aux allp].
  - destruct acc as [a|]; [split; [exact Gacc | tauto] | split; [reflexivity | tauto]].
  - inversion Ga as [|? ? Gt Gr]; subst.
    specialize (IH (Some (match acc with None => t | Some r => nd2 t r end)) Gr ltac:(destruct acc; [apply good_nd; assumption | exact Gt])).
    destruct (proot_aux nd2 (Some (match acc with None => t | Some r => nd2 t r end)) ds) as [v|]; [|destruct IH as [X _]; discriminate].
    destruct IH as [Gv B]. split; [exact Gv|]. rewrite B. destruct acc as [a|]; unfold nd2; cbn [snd]; tauto.
  - inversion Ga as [|? ? _ Gr]; subst. apply IH; assumption.
Qed.
Lemma range_inv fuel : forall acc proof i j, gooda acc -> Forall Good proof ->
  let '(a, r) := pins_range nd2 fuel acc proof i j in gooda a /\ Forall Good r /\ (allp a /\ lall r <-> allp acc /\ lall proof) /\ (allp a -> allp acc).
Proof.
  induction fuel as [|fu IH]; intros acc proof i j Ga Gp; cbn [pins_range]; [split; [exact Ga | split; [exact Gp | tauto]]|].
  destruct proof as [|p rest]; [split; [exact Ga | split; [exact Gp | tauto]]|].
  destruct (i <? j); [|split; [exact Ga | split; [exact Gp | tauto]]]. cbv zeta.
  inversion Gp as [|? ? Gp0 Gr]; subst. destruct (ins_inv p (N.to_nat (tz64 (next_subtree_size i j))) acc Gp0 Ga) as [A B].
  specialize (IH (pins nd2 p (N.to_nat (tz64 (next_subtree_size i j))) acc) rest (i + next_subtree_size i j) j A Gr).
  destruct (pins_range nd2 fu (pins nd2 p (N.to_nat (tz64 (next_subtree_size i j))) acc) rest (i + next_subtree_size i j) j) as [a r].
  destruct IH as (G1 & G2 & E & M). split; [exact G1|]. split; [exact G2|]. split; [rewrite E, B; cbn [lall]; tauto|].
  intros Pa. apply M in Pa. apply B in Pa. tauto.
Qed.

(* the whole verifier on pairs: if it yields a value, that value is Good and its proposition says that every pair of
   covered roots agrees, and every pair of proof hashes too when none is left unconsumed *)
Lemma verify_inv proof roots s e : Forall Good proof -> Forall Good roots ->
  match pverify_root nd2 proof roots s e with
  | Some v => Good v /\ (snd v -> lall roots /\ (pverify_left nd2 proof roots s e = [] -> lall proof))
  | None => True
  end.
Proof.
  intros Gp Gr. unfold pverify_root, pverify_left, pverify_state.
  pose proof (range_inv FUEL [] proof 0 s (Forall_nil _) Gp) as R1. destruct (pins_range nd2 FUEL [] proof 0 s) as [a1 r1]. destruct R1 as (G1 & G1r & E1 & _).
  assert (F : forall rs a, gooda a -> Forall Good rs -> gooda (fold_left (fun a h => pins nd2 h 0 a) rs a) /\
                            (allp (fold_left (fun a h => pins nd2 h 0 a) rs a) <-> allp a /\ lall rs)).
  { induction rs as [|x rs IHr]; intros a Ga Gx; cbn [fold_left lall]; [split; [exact Ga | tauto]|].
    inversion Gx as [|? ? Gx0 Gxr]; subst. destruct (ins_inv x 0%nat a Gx0 Ga) as [A B]. destruct (IHr _ A Gxr) as [A2 B2]. split; [exact A2|]. rewrite B2, B. tauto. }
  destruct (F roots a1 G1 Gr) as [G2 E2].
  pose proof (range_inv FUEL (fold_left (fun a h => pins nd2 h 0 a) roots a1) r1 e (Rhp.W - 1) G2 G1r) as R3.
  destruct (pins_range nd2 FUEL (fold_left (fun a h => pins nd2 h 0 a) roots a1) r1 e (Rhp.W - 1)) as [a3 r3]. destruct R3 as (G3 & _ & E3 & M3).
  cbn [fst snd]. pose proof (root_inv a3 None G3 I) as R4. destruct (proot_aux nd2 None a3) as [v|]; [|exact I].
  destruct R4 as [Gv B]. split; [exact Gv|]. intros Pv. apply B in Pv. destruct Pv as [_ Pa]. split.
  - apply M3 in Pa. apply E2 in Pa. tauto.
  - intros ->. cbn [lall] in E3. cbn [allp] in E1. tauto.
Qed.
End Pairs.
