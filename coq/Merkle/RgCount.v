(* Counting: popcount bounds and the loop bound of the range-proof verifier. *)
From Coq Require Import List NArith Arith Bool Lia ZifyN ZifyNat ZifyBool.
From Sia Require Import Prim.Tok Merkle.Rhp.
Import ListNotations.
Local Open Scope N_scope.

Lemma popcount_pos_size p : popcount_pos p <= Npos (Pos.size p).
Proof. induction p as [p IH|p IH|]; cbn [popcount_pos Pos.size]; lia. Qed.
Lemma popcount_le_64 x : x < 2 ^ 64 -> popcount x <= 64.
Proof.
  intros Hx. destruct x as [|p]; [cbn; lia|]. cbn [popcount]. pose proof (popcount_pos_size p) as B.
  assert (S : N.size (Npos p) <= 64).
  { rewrite N.size_log2 by lia. assert (N.log2 (Npos p) < 64) by (apply N.log2_lt_pow2; lia). lia. }
  cbn [N.size] in S. lia.
Qed.
Lemma bits_bound x k : (forall i, k <= i -> N.testbit x i = false) -> x < 2 ^ k.
Proof.
  intros Hb. destruct (N.eq_dec x 0) as [->|NZ]; [apply N.neq_0_lt_0, N.pow_nonzero; lia|].
  apply N.log2_lt_pow2; [lia|]. destruct (N.lt_ge_cases (N.log2 x) k) as [|G]; [assumption|].
  specialize (Hb (N.log2 x) G). rewrite (N.bit_log2 x NZ) in Hb. discriminate.
Qed.
Lemma high_bits_zero a i : a < 2 ^ 64 -> 64 <= i -> N.testbit a i = false.
Proof.
  intros Ha Hi. destruct (N.eq_dec a 0) as [->|NZ]; [apply N.bits_0|]. apply N.bits_above_log2.
  assert (N.log2 a < 64) by (apply N.log2_lt_pow2; lia). lia.
Qed.
Lemma range_proof_size_bound n s e : s < 2 ^ 64 -> range_proof_size n s e <= 128.
Proof.
  intros Hs. unfold range_proof_size. pose proof (popcount_le_64 s Hs).
  assert (B : N.land (N.ldiff (Rhp.W - 1) (e - 1)) (2 ^ bitlen (N.lxor (e - 1) (n - 1)) - 1) < 2 ^ 64).
  { set (a := N.ldiff (Rhp.W - 1) (e - 1)). set (b := 2 ^ bitlen (N.lxor (e - 1) (n - 1)) - 1).
    apply bits_bound. intros i Hi. rewrite N.land_spec. unfold a. rewrite N.ldiff_spec.
    rewrite (high_bits_zero (Rhp.W - 1) i) by (unfold Rhp.W; lia). reflexivity. }
  pose proof (popcount_le_64 _ B). lia.
Qed.

(* ---- popcount, structurally ---- *)
Lemma popcount_double y : popcount (2 * y) = popcount y.
Proof. destruct y as [|p]; reflexivity. Qed.
Lemma popcount_succ_double y : popcount (2 * y + 1) = 1 + popcount y.
Proof. destruct y as [|p]; reflexivity. Qed.
(* removing the top bit removes one from the count *)
Lemma popcount_top x : 0 < x -> popcount x = 1 + popcount (x - 2 ^ N.log2 x).
Proof.
  destruct x as [|p]; [lia|]. intros _. induction p as [p IH|p IH|].
  - replace (N.pos p~1) with (2 * N.pos p + 1) by lia. rewrite N.log2_succ_double by lia. rewrite N.pow_succ_r', popcount_succ_double, IH.
    replace (2 * N.pos p + 1 - 2 * 2 ^ N.log2 (N.pos p)) with (2 * (N.pos p - 2 ^ N.log2 (N.pos p)) + 1).
    + rewrite popcount_succ_double. reflexivity.
    + pose proof (N.log2_spec (N.pos p) ltac:(lia)). lia.
  - replace (N.pos p~0) with (2 * N.pos p) by lia. rewrite N.log2_double by lia. rewrite N.pow_succ_r', popcount_double, IH.
    replace (2 * N.pos p - 2 * 2 ^ N.log2 (N.pos p)) with (2 * (N.pos p - 2 ^ N.log2 (N.pos p))) by lia.
    rewrite popcount_double. reflexivity.
  - reflexivity.
Qed.
