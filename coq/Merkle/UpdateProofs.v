(* consensus/merkle.go, proof maintenance inside one perfect tree:
   - updateLeaves.recompute returns, besides the new root, every updated leaf with its proof in the *updated* tree;
   - updateProof patches the proof of any other leaf from the closest updated leaf, and the result is that leaf's
     proof in the updated tree.
   Positions are bit lists, MSB first (top-down); Go's leaf index bits and bottom-up proofs are their reversals
   (Merkle/AccProofs.v: lsb_bits_path). *)
From Coq Require Import List Arith Lia Bool Permutation.
Import ListNotations.
From Sia Require Import Merkle.Tree Merkle.Update.

Section UpdateProofs.
Variable hash : Type.
Variable node : hash -> hash -> hash.
Notation ptree := (ptree hash).
Notation root := (root hash node).
Notation sibs := (sibs hash node).
Notation perfect := (perfect hash).
Notation height := (height hash).
Notation uleaf := (uleaf hash).
Notation recompute := (recompute hash node).
Notation apply_updates := (apply_updates hash).
Notation valid_old := (valid_old hash node).

Definition key (u : uleaf) : list bool * hash := (pos hash u, newh hash u).

Lemma key_with_top s b (u : uleaf) : key (with_top hash s b u) = (b :: pos hash u, newh hash u).
Proof. reflexivity. Qed.

Lemma side_key (u : uleaf) : pos hash u <> [] -> key u = (goes_right hash u :: pos hash (tl_leaf hash u), newh hash u).
Proof. destruct u as [p y pr]. destruct p as [|b p]; [contradiction|]. reflexivity. Qed.

Lemma perm_sides (ls : list uleaf) :
  Permutation (filter (fun u => negb (goes_right hash u)) ls ++ filter (goes_right hash) ls) ls.
Proof.
  induction ls as [|u ls IH]; [constructor|]. cbn [filter]. destruct (goes_right hash u); cbn [negb].
  - apply Permutation_sym, Permutation_cons_app, Permutation_sym, IH.
  - cbn [app]. constructor. exact IH.
Qed.

(* the full specification of recompute *)
Theorem recompute_spec d t : forall ls, perfect t -> ls <> [] -> Forall (valid_old t) ls -> NoDup (map (pos hash) ls) ->
  let t' := apply_updates t ls in
  fst (recompute (height t) d ls) = root t' /\
  Forall (fun u => prf hash u = sibs t' (pos hash u)) (snd (recompute (height t) d ls)) /\
  Permutation (map key (snd (recompute (height t) d ls))) (map key ls).
Proof.
  induction t as [x|l IHl r IHr]; intros ls Hp Hne Hv Hnd; cbv zeta.
  - assert (Hall : Forall (fun u => pos hash u = []) ls).
    { eapply Forall_impl; [|exact Hv]. intros u [Hl _]. simpl in Hl. now destruct (pos hash u). }
    pose proof (nodup_nil_pos hash ls Hnd Hall) as Hlen.
    destruct ls as [|u [|v ls]]; simpl in *; try contradiction; try lia.
    inversion Hall as [|? ? Hu _]; subst. inversion Hv as [|? ? [_ Hpr] _]; subst.
    destruct u as [p y pr]; simpl in *; subst p. split; [reflexivity|]. split; [|apply Permutation_refl].
    constructor; [|constructor]. simpl. exact Hpr.
  - destruct Hp as (Hl & Hr & Hh).
    assert (Hsides : forall u, In u ls -> pos hash u <> [] /\ valid_old (if goes_right hash u then r else l) (tl_leaf hash u) /\
                       prf hash u = root (if goes_right hash u then l else r) :: prf hash (tl_leaf hash u)).
    { rewrite Forall_forall in Hv. intros u Hu. apply valid_old_side; auto. }
    assert (Hnonnil : Forall (fun u => pos hash u <> []) ls) by (apply Forall_forall; intros u Hu; apply (Hsides u Hu)).
    rewrite apply_updates_node by exact Hnonnil.
    cbn [Tree.height Update.recompute].
    remember (filter (fun u => negb (goes_right hash u)) ls) as L eqn:HL.
    remember (filter (goes_right hash) ls) as R eqn:HR.
    set (l' := apply_updates l (map (tl_leaf hash) L)). set (r' := apply_updates r (map (tl_leaf hash) R)).
    assert (HvL : Forall (valid_old l) (map (tl_leaf hash) L)).
    { apply Forall_forall. intros u Hu. apply in_map_iff in Hu. destruct Hu as (v & <- & Hv').
      subst L. apply filter_In in Hv'. destruct Hv' as [Hin Hs].
      destruct (Hsides v Hin) as (_ & Hvv & _). apply negb_true_iff in Hs. now rewrite Hs in Hvv. }
    assert (HvR : Forall (valid_old r) (map (tl_leaf hash) R)).
    { apply Forall_forall. intros u Hu. apply in_map_iff in Hu. destruct Hu as (v & <- & Hv').
      subst R. apply filter_In in Hv'. destruct Hv' as [Hin Hs].
      destruct (Hsides v Hin) as (_ & Hvv & _). now rewrite Hs in Hvv. }
    assert (HnL : NoDup (map (pos hash) (map (tl_leaf hash) L))).
    { subst L. apply filter_side_nodup; auto. intros u _ Fu v _ Fv. apply negb_true_iff in Fu, Fv. congruence. }
    assert (HnR : NoDup (map (pos hash) (map (tl_leaf hash) R))).
    { subst R. apply filter_side_nodup; auto. intros u _ Fu v _ Fv. congruence. }
    (* what each side returns *)
    assert (SL : exists lroot left', (match L with [] => (dflt hash R d, []) | _ => recompute (height l) d (map (tl_leaf hash) L) end) = (lroot, left') /\
                  lroot = root l' /\ Forall (fun u => prf hash u = sibs l' (pos hash u)) left' /\
                  Permutation (map key left') (map key (map (tl_leaf hash) L))).
    { destruct L as [|u0 L0] eqn:EL.
      - exists (dflt hash R d), []. split; [reflexivity|]. split; [|split; [constructor | constructor]].
        unfold l'. cbn [map Update.apply_updates fold_left].
        destruct R as [|v0 R0]; [destruct (filters_nonempty hash ls Hne) as [N|N]; rewrite <- ?HL, <- ?HR in N; contradiction|].
        symmetry in HR. destruct (in_filter_hd _ _ _ _ HR) as [Hin Hs].
        destruct (Hsides v0 Hin) as (_ & _ & Hprf). rewrite Hs in Hprf. unfold dflt. rewrite Hprf. reflexivity.
      - destruct (IHl (map (tl_leaf hash) (u0 :: L0)) Hl ltac:(discriminate) HvL HnL) as (A & B & C).
        destruct (recompute (height l) d (map (tl_leaf hash) (u0 :: L0))) as [lroot left'] eqn:EqRec.
        exists lroot, left'. cbn [fst snd] in *. repeat split; assumption. }
    assert (SR : exists rroot right', (match R with [] => (dflt hash L d, []) | _ => recompute (height l) d (map (tl_leaf hash) R) end) = (rroot, right') /\
                  rroot = root r' /\ Forall (fun u => prf hash u = sibs r' (pos hash u)) right' /\
                  Permutation (map key right') (map key (map (tl_leaf hash) R))).
    { destruct R as [|v0 R0] eqn:ER.
      - exists (dflt hash L d), []. split; [reflexivity|]. split; [|split; [constructor | constructor]].
        unfold r'. cbn [map Update.apply_updates fold_left].
        destruct L as [|u0 L0]; [destruct (filters_nonempty hash ls Hne) as [N|N]; rewrite <- ?HL, <- ?HR in N; contradiction|].
        symmetry in HL. destruct (in_filter_hd _ _ _ _ HL) as [Hin Hs]. apply negb_true_iff in Hs.
        destruct (Hsides u0 Hin) as (_ & _ & Hprf). rewrite Hs in Hprf. unfold dflt. rewrite Hprf. reflexivity.
      - rewrite Hh. destruct (IHr (map (tl_leaf hash) (v0 :: R0)) Hr ltac:(discriminate) HvR HnR) as (A & B & C).
        destruct (recompute (height r) d (map (tl_leaf hash) (v0 :: R0))) as [rroot right'] eqn:EqRec.
        exists rroot, right'. cbn [fst snd] in *. repeat split; assumption. }
    destruct SL as (lroot & left' & EqL & ElR & FL & PL). destruct SR as (rroot & right' & EqR & ErR & FR & PR).
    rewrite EqL, EqR. cbn [fst snd Tree.root]. split; [rewrite ElR, ErR; reflexivity|]. split.
    + apply Forall_app. split; apply Forall_forall; intros u Hu; apply in_map_iff in Hu; destruct Hu as (v & <- & Hin).
      * cbn [with_top prf pos Tree.sibs]. rewrite ErR. f_equal. exact (proj1 (Forall_forall _ _) FL v Hin).
      * cbn [with_top prf pos Tree.sibs]. rewrite ElR. f_equal. exact (proj1 (Forall_forall _ _) FR v Hin).
    + rewrite map_app, !map_map.
      assert (KL : map (fun x => key (with_top hash rroot false x)) left' = map (fun k => (false :: fst k, snd k)) (map key left')) by (rewrite map_map; reflexivity).
      assert (KR : map (fun x => key (with_top hash lroot true x)) right' = map (fun k => (true :: fst k, snd k)) (map key right')) by (rewrite map_map; reflexivity).
      rewrite KL, KR.
      eapply Permutation_trans; [apply Permutation_app; [apply Permutation_map; exact PL | apply Permutation_map; exact PR]|].
      rewrite !map_map. rewrite <- (Permutation_map key (perm_sides ls)). rewrite map_app, <- HL, <- HR.
      assert (EL2 : map (fun x => (false :: fst (key (tl_leaf hash x)), snd (key (tl_leaf hash x)))) L = map key L).
      { apply map_ext_in. intros u Hu. subst L. apply filter_In in Hu. destruct Hu as [Hin Hs]. apply negb_true_iff in Hs.
        rewrite (side_key u (proj1 (Hsides u Hin))), Hs. reflexivity. }
      assert (ER2 : map (fun x => (true :: fst (key (tl_leaf hash x)), snd (key (tl_leaf hash x)))) R = map key R).
      { apply map_ext_in. intros u Hu. subst R. apply filter_In in Hu. destruct Hu as [Hin Hs].
        rewrite (side_key u (proj1 (Hsides u Hin))), Hs. reflexivity. }
      rewrite EL2, ER2. apply Permutation_refl.
Qed.

(* ---- updateProof: the proof of a leaf that was not itself updated ---- *)
Notation common := (common Bool.eqb).

(* root of the subtree below depth j on the path to a leaf, from the leaf hash and the lower part of its proof *)
Fixpoint root_from (x : hash) (p : list bool) (ps : list hash) : hash :=
  match p, ps with
  | b :: p', s :: ps' => let r := root_from x p' ps' in if b then node s r else node r s
  | _, _ => x
  end.

Lemma root_from_sibs t : forall p x, perfect t -> get hash t p = Some x -> root_from x p (sibs t p) = root t.
Proof.
  induction t as [y|l IHl r IHr]; intros p x Hp Hg.
  - destruct p; simpl in *; [now inversion Hg | discriminate].
  - destruct p as [|b p]; simpl in *; [discriminate|]. destruct Hp as (Hl & Hr & Hh).
    destruct b; simpl; [rewrite (IHr p x Hr Hg) | rewrite (IHl p x Hl Hg)]; reflexivity.
Qed.

(* the updated leaf whose position shares the longest prefix with p (the lowest mergeHeight); the first one on ties *)
Fixpoint best (p : list bool) (ls : list uleaf) : option uleaf :=
  match ls with
  | [] => None
  | u :: rest => match best p rest with
                 | Some v => if common p (pos hash u) <? common p (pos hash v) then Some v else Some u
                 | None => Some u
                 end
  end.
Lemma best_in p ls u : best p ls = Some u -> In u ls /\ Forall (fun v => common p (pos hash v) <= common p (pos hash u)) ls.
Proof.
  revert u. induction ls as [|w ls IH]; intros u E; cbn [best] in E; [discriminate|].
  destruct (best p ls) as [v|] eqn:B.
  - destruct (IH v eq_refl) as [Hin F]. destruct (Nat.ltb_spec (common p (pos hash w)) (common p (pos hash v))); inversion E; subst.
    + split; [right; exact Hin|]. constructor; [lia | exact F].
    + split; [left; reflexivity|]. constructor; [lia|]. eapply Forall_impl; [|exact F]. cbv beta. intros; lia.
  - inversion E; subst. destruct ls; [|cbn [best] in B; destruct (best p ls); [destruct (_ <? _)|]; discriminate].
    split; [left; reflexivity|]. constructor; [lia | constructor].
Qed.

(* updateProof(e, updated): [prf] is e's current proof (top-down), [ls] the updated leaves with their new proofs *)
Definition update_proof (p : list bool) (prf0 : list hash) (ls : list uleaf) : list hash :=
  match best p ls with
  | None => prf0
  | Some b =>
    let k := common p (pos hash b) in
    if k =? length p then prf hash b
    else firstn k (prf hash b) ++ root_from (newh hash b) (skipn (S k) (pos hash b)) (skipn (S k) (prf hash b)) :: skipn (S k) prf0
  end.

Lemma common_le (p q : list bool) : common p q <= length p /\ common p q <= length q.
Proof. revert q. induction p as [|a p IH]; intros [|b q]; simpl; try lia. destruct (Bool.eqb a b); simpl; [destruct (IH q); lia | lia]. Qed.
Lemma common_full (p q : list bool) : length p = length q -> common p q = length p -> p = q.
Proof.
  revert q. induction p as [|a p IH]; intros [|b q] L C; simpl in *; try discriminate; [reflexivity|].
  destruct (Bool.eqb a b) eqn:E; [|discriminate]. apply Bool.eqb_prop in E. subst. f_equal. apply IH; lia.
Qed.

Lemma filter_none {A} (f : A -> bool) (l : list A) : (forall x, In x l -> f x = false) -> filter f l = [].
Proof. induction l as [|a l IH]; intros Hf; [reflexivity|]. cbn [filter]. rewrite (Hf a (or_introl eq_refl)). apply IH. intros x Hx. apply Hf. right. exact Hx. Qed.

(* no update below a prefix leaves the siblings below that prefix untouched; the shared prefix has shared siblings *)
Lemma sibs_updates t : forall p q ls x, perfect t -> length p = height t -> length q = height t ->
  Forall (fun v => length (pos hash v) = height t) ls ->
  get hash (apply_updates t ls) q = Some x ->
  Forall (fun v => common p (pos hash v) <= common p q) ls -> common p q < length p ->
  let t' := apply_updates t ls in
  let k := common p q in
  sibs t' p = firstn k (sibs t' q) ++ root_from x (skipn (S k) q) (skipn (S k) (sibs t' q)) :: skipn (S k) (sibs t p).
Proof.
  induction t as [y|l IHl r IHr]; intros p q ls x Hp Lp Lq Fl Hg Fc Hk; cbv zeta.
  - destruct p; simpl in *; [lia | discriminate].
  - destruct p as [|a p]; destruct q as [|b q]; simpl in Lp, Lq; try discriminate.
    destruct Hp as (Hl & Hr & Hh).
    assert (Hnonnil : Forall (fun u => pos hash u <> []) ls).
    { eapply Forall_impl; [|exact Fl]. intros u Hu E. cbv beta in Hu. rewrite E in Hu. simpl in Hu. discriminate. }
    rewrite apply_updates_node in * by exact Hnonnil.
    set (L := filter (fun u => negb (goes_right hash u)) ls) in *. set (R := filter (goes_right hash) ls) in *.
    set (l' := apply_updates l (map (tl_leaf hash) L)) in *. set (r' := apply_updates r (map (tl_leaf hash) R)) in *.
    cbn [Tree.common] in *. destruct (Bool.eqb a b) eqn:Eab.
    + (* same side: recurse *)
      apply Bool.eqb_prop in Eab. subst b. cbn [skipn firstn Tree.sibs Tree.get] in *.
      assert (Side : forall (f : uleaf -> bool) (side : bool), (forall u, f u = true -> goes_right hash u = side) -> side = a ->
                Forall (fun v => common p (pos hash v) <= common p q) (map (tl_leaf hash) (filter f ls))).
      { intros f side Hf Hs. apply Forall_forall. intros v Hv. apply in_map_iff in Hv. destruct Hv as (u & <- & Hu).
        apply filter_In in Hu. destruct Hu as [Hin Hfu]. pose proof (proj1 (Forall_forall _ _) Fc u Hin) as C.
        pose proof (proj1 (Forall_forall _ _) Hnonnil u Hin) as NN. specialize (Hf u Hfu).
        destruct u as [pu yu pru]. destruct pu as [|c pu]; [contradiction|]. unfold goes_right in Hf. cbn in Hf, C |- *. subst c side.
        rewrite Bool.eqb_reflx in C. lia. }
      assert (LenSide : forall (f : uleaf -> bool), Forall (fun v => S (length (pos hash v)) = S (height l)) (map (tl_leaf hash) (filter f ls))).
      { intros f. apply Forall_forall. intros v Hv. apply in_map_iff in Hv. destruct Hv as (u & <- & Hu). apply filter_In in Hu. destruct Hu as [Hin _].
        pose proof (proj1 (Forall_forall _ _) Fl u Hin) as LL. pose proof (proj1 (Forall_forall _ _) Hnonnil u Hin) as NN.
        destruct u as [pu yu pru]. destruct pu; [contradiction|]. cbn in *. lia. }
      destruct a; cbn [Tree.sibs app].
      * f_equal. apply (IHr p q (map (tl_leaf hash) R) x Hr); try lia.
        -- eapply Forall_impl; [|exact (LenSide (goes_right hash))]. cbv beta. intros; lia.
        -- exact Hg.
        -- apply (Side (goes_right hash) true); auto.
        -- cbn [length] in Hk; lia.
      * f_equal. apply (IHl p q (map (tl_leaf hash) L) x Hl); try lia.
        -- eapply Forall_impl; [|exact (LenSide (fun u => negb (goes_right hash u)))]. cbv beta. intros; lia.
        -- exact Hg.
        -- apply (Side (fun u => negb (goes_right hash u)) false); auto. intros u Hu. apply negb_true_iff in Hu. exact Hu.
        -- cbn [length] in Hk; lia.
    + (* the paths diverge here: no update on p's side *)
      cbn [skipn firstn app].
      assert (NoneOnSide : forall u, In u ls -> goes_right hash u = b).
      { intros u Hin. pose proof (proj1 (Forall_forall _ _) Fc u Hin) as C. pose proof (proj1 (Forall_forall _ _) Hnonnil u Hin) as NN.
        destruct u as [pu yu pru]. destruct pu as [|c pu]; [contradiction|]. unfold goes_right. cbn in C |- *.
        destruct (Bool.eqb a c) eqn:Eac; [lia|]. destruct a, b, c; simpl in *; congruence. }
      destruct b; destruct a; simpl in Eab; try discriminate; cbn [Tree.sibs Tree.get] in *.
      * (* q right, p left: L is empty *)
        assert (EL : L = []).
        { unfold L. apply filter_none. intros u Hin. rewrite (NoneOnSide u Hin). reflexivity. }
        unfold l'. rewrite EL. cbn [map Update.apply_updates fold_left].
        f_equal. symmetry. apply (root_from_sibs r' q x); [apply apply_updates_perfect; exact Hr | exact Hg].
      * assert (ER : R = []).
        { unfold R. apply filter_none. intros u Hin. rewrite (NoneOnSide u Hin). reflexivity. }
        unfold r'. rewrite ER. cbn [map Update.apply_updates fold_left].
        f_equal. symmetry. apply (root_from_sibs l' q x); [apply apply_updates_perfect; exact Hl | exact Hg].
Qed.

(* updateProof is correct: given the old proof of p and the updated leaves carrying their proofs in the updated tree
   (what recompute returns), the patched proof is p's proof in the updated tree *)
Theorem update_proof_correct t p ls : perfect t -> length p = height t -> ls <> [] ->
  Forall (fun v => length (pos hash v) = height t) ls ->
  let t' := apply_updates t ls in
  Forall (fun v => prf hash v = sibs t' (pos hash v) /\ get hash t' (pos hash v) = Some (newh hash v)) ls ->
  update_proof p (sibs t p) ls = sibs t' p.
Proof.
  intros Hp Lp Hne Fl t' Fv. unfold update_proof.
  destruct (best p ls) as [b|] eqn:B; [|destruct ls; [contradiction | cbn [best] in B; destruct (best p ls); [destruct (_ <? _)|]; discriminate]].
  destruct (best_in p ls b B) as [Hin Fc].
  pose proof (proj1 (Forall_forall _ _) Fl b Hin) as Lb. cbv beta in Lb. destruct (proj1 (Forall_forall _ _) Fv b Hin) as [Pb Gb].
  destruct (Nat.eqb_spec (common p (pos hash b)) (length p)) as [E|NE].
  - rewrite (common_full p (pos hash b) ltac:(lia) E). exact Pb.
  - rewrite Pb. symmetry. apply (sibs_updates t p (pos hash b) ls (newh hash b) Hp Lp Lb Fl Gb Fc).
    destruct (common_le p (pos hash b)). lia.
Qed.

(* ---- the two steps together ---- *)
Notation set := (Tree.set hash).
Lemma set_comm t : forall p q x y, p <> q -> length p = length q -> set (set t p x) q y = set (set t q y) p x.
Proof.
  induction t as [z|l IHl r IHr]; intros [|a p] [|b q] x y Hne Hl; cbn in Hl |- *; try discriminate; try congruence.
  destruct a, b; cbn; try reflexivity; f_equal; (apply IHr || apply IHl); try congruence; lia.
Qed.
Definition apply_keys (t : ptree) (ks : list (list bool * hash)) : ptree := fold_left (fun t k => set t (fst k) (snd k)) ks t.
Lemma apply_keys_cons t k ks : apply_keys t (k :: ks) = apply_keys (set t (fst k) (snd k)) ks.
Proof. reflexivity. Qed.
Lemma apply_updates_keys t ls : apply_updates t ls = apply_keys t (map key ls).
Proof. revert t. induction ls as [|u ls IH]; intros t; [reflexivity|]. cbn [Update.apply_updates apply_keys fold_left map]. apply IH. Qed.
Lemma apply_keys_perm h ks1 ks2 : Permutation ks1 ks2 -> NoDup (map fst ks1) -> Forall (fun k => length (fst k) = h) ks1 ->
  forall t, apply_keys t ks1 = apply_keys t ks2.
Proof.
  induction 1 as [|k a b P IH|k1 k2 a|a b c P1 IH1 P2 IH2]; intros Hnd Hl t.
  - reflexivity.
  - rewrite !apply_keys_cons. inversion Hnd; inversion Hl; subst. apply IH; assumption.
  - rewrite !apply_keys_cons. f_equal. inversion Hnd as [|? ? Hn1 Hnd']; subst. inversion Hl as [|? ? L1 Hl']; subst. inversion Hl' as [|? ? L2 _]; subst.
    apply set_comm; [|lia]. intros E. apply Hn1. left. symmetry. exact E.
  - rewrite IH1 by assumption. apply IH2.
    + eapply Permutation_NoDup; [apply Permutation_map; exact P1 | exact Hnd].
    + eapply Permutation_Forall; [exact P1 | exact Hl].
Qed.
Lemma get_apply_keys t ks : forall p x, NoDup (map fst ks) -> In (p, x) ks -> Forall (fun k => length (fst k) = height t) ks -> perfect t ->
  get hash (apply_keys t ks) p = Some x.
Proof.
  revert t. induction ks as [|[q y] ks IH]; intros t p x Hnd Hin Hl Hp; [contradiction|].
  rewrite apply_keys_cons. cbn [fst snd]. inversion Hnd as [|? ? Hn Hnd']; subst. inversion Hl as [|? ? Lq Hl']; subst. cbn [fst] in *.
  destruct Hin as [E|Hin].
  - inversion E; subst.
    (* later writes are at other positions *)
    assert (G : forall ks t0, ~ In p (map fst ks) -> Forall (fun k => length (fst k) = length p) ks -> get hash (apply_keys t0 ks) p = get hash t0 p).
    { induction ks0 as [|[q' y'] ks0 IH0]; intros t0 Hn0 Hl0; [reflexivity|]. rewrite apply_keys_cons. cbn [fst snd].
      inversion Hl0 as [|? ? L0 Hl0']; subst. cbn [fst] in L0. cbn [map fst] in Hn0.
      rewrite IH0; [|intros X; apply Hn0; right; exact X|exact Hl0']. apply get_set_other; [intros E'; apply Hn0; left; symmetry; exact E' | lia]. }
    rewrite G; [|exact Hn | eapply Forall_impl; [|exact Hl']; cbv beta; intros; lia].
    destruct (get_total hash t p Hp Lq) as (x0 & Gx). apply (get_set_same hash t p x x0 Gx).
  - apply IH; try assumption; [rewrite (set_height hash); exact Hl' | apply set_perfect; exact Hp].
Qed.

(* updateLeaves followed by updateProof, on one perfect tree: the recomputed root is the root of the updated tree and
   every leaf position -- updated or not -- ends up with its proof in the updated tree *)
Theorem update_flow d t ls p : perfect t -> ls <> [] -> Forall (valid_old t) ls -> NoDup (map (pos hash) ls) -> length p = height t ->
  let t' := apply_updates t ls in
  let '(rt, ls') := recompute (height t) d ls in
  rt = root t' /\ update_proof p (sibs t p) ls' = sibs t' p.
Proof.
  intros Hp Hne Hv Hnd Lp. cbv zeta. destruct (recompute_spec d t ls Hp Hne Hv Hnd) as (A & B & C).
  destruct (recompute (height t) d ls) as [rt ls'] eqn:ER. cbn [fst snd] in *. split; [exact A|].
  assert (Hl : Forall (fun k => length (fst k) = height t) (map key ls)).
  { apply Forall_forall. intros k Hk. apply in_map_iff in Hk. destruct Hk as (u & <- & Hu). exact (proj1 (proj1 (Forall_forall _ _) Hv u Hu)). }
  assert (Hnd' : NoDup (map fst (map key ls))) by (rewrite map_map; exact Hnd).
  assert (E : apply_updates t ls' = apply_updates t ls).
  { rewrite !apply_updates_keys. symmetry. apply (apply_keys_perm (height t)); [apply Permutation_sym; exact C | exact Hnd' | exact Hl]. }
  assert (Hl' : Forall (fun v => length (pos hash v) = height t) ls').
  { apply Forall_forall. intros v Hv'. pose proof (Permutation_in (key v) C (in_map key _ _ Hv')) as K.
    exact (proj1 (Forall_forall _ _) Hl (key v) K). }
  rewrite <- E. apply update_proof_correct; try assumption.
  - intros En. subst ls'. cbn [map] in C. apply Permutation_nil in C. destruct ls; [contradiction | discriminate].
  - rewrite E. apply Forall_forall. intros v Hv'. split; [exact (proj1 (Forall_forall _ _) B v Hv')|].
    rewrite apply_updates_keys. apply get_apply_keys; try assumption.
    exact (Permutation_in (key v) C (in_map key _ _ Hv')).
Qed.
End UpdateProofs.
