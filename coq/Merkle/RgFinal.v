(* RHP sector-range proofs: the proof the builder produces is accepted by the verifier against the plain root, provided it
   has the length the verifier expects (the popcount formula). *)
From Coq Require Import List NArith Arith Bool Lia ZifyN ZifyNat ZifyBool.
From Sia Require Import Prim.Tok Merkle.Tree Merkle.Forest Merkle.Rhp Merkle.RhpProofs Merkle.RhpRoot.
From Sia Require Import Merkle.RgBits Merkle.RgStruct Merkle.RgLoops Merkle.RgRight.
Import ListNotations.
Local Open Scope N_scope.

Section RFinal.
Variable H : bytes -> bytes.
Notation node := (Rhp.node H).
Notation mroot := (Rhp.mroot H).
Notation build_range := (Rhp.build_range H).
Notation insert_range := (Rhp.insert_range H).
Notation insert_node := (Rhp.insert_node H).

(* a loop that stopped before its fuel ran out gives the same result with any larger fuel *)
Lemma build_range_stable (ls : list hash) n j : forall f f' i, (f <= f')%nat -> (length (build_range f ls n i j) < f)%nat ->
  build_range f' ls n i j = build_range f ls n i j.
Proof.
  induction f as [|f IH]; intros f' i Hf Hl; [cbn in Hl; lia|].
  destruct f' as [|f']; [lia|]. cbn [Rhp.build_range] in *. destruct ((i <? j) && (i <? n)); [|reflexivity]. cbv zeta in *.
  cbn [length] in Hl. f_equal. apply IH; lia.
Qed.
Lemma insert_range_nil f acc i j : insert_range f acc [] i j = (acc, []).
Proof. destruct f; reflexivity. Qed.

(* subtree sizes to the right of the range: the largest subtree aligned at i, for builder and verifier alike *)
Lemma nss_right i n : 0 < i -> i < n -> n <= 2 ^ 30 ->
  next_subtree_size i (2 ^ 31 - 1) = 2 ^ ctz i /\ next_subtree_size i (Rhp.W - 1) = 2 ^ ctz i /\ ctz i < 30 /\ (exists k, i = k * 2 ^ ctz i) /\ tz64 (2 ^ ctz i) = ctz i.
Proof.
  intros Hi Hin Hn.
  destruct (ctz_spec i Hi) as (q & E).
  assert (C30 : ctz i < 30).
  { destruct (N.lt_ge_cases (ctz i) 30) as [|G]; [assumption|]. exfalso. assert (2 ^ 30 <= 2 ^ ctz i) by (apply N.pow_le_mono_r; lia). nia. }
  destruct (nss_spec i (2 ^ 31 - 1) ltac:(lia) ltac:(lia)) as (h1 & E1 & _ & _ & _ & T1 & M1).
  destruct (nss_spec i (Rhp.W - 1) ltac:(unfold Rhp.W; lia) ltac:(unfold Rhp.W; lia)) as (h2 & E2 & _ & _ & _ & T2 & M2).
  destruct (N.eqb_spec i 0); [lia|].
  assert (L1 : 30 <= N.log2 (2 ^ 31 - 1 - i)).
  { replace 30 with (N.log2 (2 ^ 30)) by (apply N.log2_pow2; lia). apply N.log2_le_mono. lia. }
  assert (L2 : 63 <= N.log2 (Rhp.W - 1 - i)).
  { replace 63 with (N.log2 (2 ^ 63)) by (apply N.log2_pow2; lia). apply N.log2_le_mono. unfold Rhp.W. lia. }
  assert (A1 : h1 = ctz i) by lia. assert (A2 : h2 = ctz i) by lia. clear M1 M2. subst h1 h2.
  split; [exact E1|]. split; [exact E2|]. split; [exact C30|]. split; [|exact T1].
  exists (2 * q + 1). lia.
Qed.

Lemma pow_nat h : N.to_nat (2 ^ h) = (2 ^ N.to_nat h)%nat.
Proof. rewrite <- (N2Nat.id 2) at 1. rewrite <- (N2Nat.id h) at 1. rewrite <- Nat2N.inj_pow, Nat2N.id. reflexivity. Qed.

Lemma right_sync (ls : list hash) : 0 < N.of_nat (length ls) <= 2 ^ 30 ->
  forall k i acc fb fv, (N.to_nat (N.of_nat (length ls) - i) <= k)%nat -> 0 < i -> i <= N.of_nat (length ls) ->
    Repr hash node (firstn (N.to_nat i) ls) acc ->
    (N.to_nat (N.of_nat (length ls) - i) <= fb)%nat -> (length (build_range fb ls (N.of_nat (length ls)) i (2 ^ 31 - 1)) < fv)%nat ->
    exists acc', insert_range fv acc (build_range fb ls (N.of_nat (length ls)) i (2 ^ 31 - 1)) i (Rhp.W - 1) = (acc', []) /\
                 pa_root H acc' = mroot ls.
Proof.
  intros Hn. set (n := N.of_nat (length ls)) in *. induction k as [|k IH]; intros i acc fb fv Hk Hi0 Hi R Hfb Hfv.
  - assert (i = n) by lia. subst i. exists acc.
    assert (B : build_range fb ls n n (2 ^ 31 - 1) = []) by (destruct fb; cbn [Rhp.build_range]; [reflexivity|]; rewrite N.ltb_irrefl, andb_false_r; reflexivity).
    rewrite B, insert_range_nil. split; [reflexivity|]. rewrite (repr_root H _ _ R). f_equal. apply firstn_all2. lia.
  - destruct (N.eq_dec i n) as [->|Ne].
    + exists acc.
      assert (B : build_range fb ls n n (2 ^ 31 - 1) = []) by (destruct fb; cbn [Rhp.build_range]; [reflexivity|]; rewrite N.ltb_irrefl, andb_false_r; reflexivity).
      rewrite B, insert_range_nil. split; [reflexivity|]. rewrite (repr_root H _ _ R). f_equal. apply firstn_all2. lia.
    + assert (Lt : i < n) by lia.
      destruct (nss_right i n Hi0 Lt ltac:(lia)) as (Eb & Ev & C30 & (q & Dv) & Tz).
      assert (P : 0 < 2 ^ ctz i) by (apply N.neq_0_lt_0, N.pow_nonzero; lia).
      destruct fb as [|fb]; [lia|]. cbn [Rhp.build_range] in *.
      destruct (N.ltb_spec i (2 ^ 31 - 1)); [|lia]. destruct (N.ltb_spec i n); [|lia]. cbn [andb] in *. cbv zeta in *. rewrite Eb in *.
      assert (DvN : (exists k0, length (firstn (N.to_nat i) ls) = k0 * 2 ^ N.to_nat (ctz i))%nat).
      { exists (N.to_nat q). rewrite firstn_length, Nat.min_l by lia. rewrite Dv at 1. rewrite N2Nat.inj_mul, pow_nat. reflexivity. }
      destruct (N.ltb_spec n (i + 2 ^ ctz i)) as [Clip|Full].
      * (* the last, clipped subtree *)
        replace (i + (n - i)) with n in * by lia.
        assert (B : build_range fb ls n n (2 ^ 31 - 1) = []) by (destruct fb; cbn [Rhp.build_range]; [reflexivity|]; rewrite N.ltb_irrefl, andb_false_r; reflexivity).
        rewrite B in *. cbn [length] in Hfv. destruct fv as [|fv]; [lia|]. cbn [Rhp.insert_range].
        destruct (N.ltb_spec i (Rhp.W - 1)); [|unfold Rhp.W in *; lia]. cbv zeta. rewrite Ev, Tz, insert_range_nil.
        eexists. split; [reflexivity|].
        rewrite (insert_last H _ _ _ (slice ls i (n - i)) R DvN).
        -- rewrite firstn_slice. replace (i + (n - i)) with n by lia. f_equal. apply firstn_all2. lia.
        -- rewrite slice_length by lia. rewrite <- pow_nat. lia.
      * cbn [length] in Hfv. destruct fv as [|fv]; [lia|]. cbn [Rhp.insert_range].
        destruct (N.ltb_spec i (Rhp.W - 1)); [|unfold Rhp.W in *; lia]. cbv zeta. rewrite Ev, Tz.
        assert (Sl : length (slice ls i (2 ^ ctz i)) = (2 ^ N.to_nat (ctz i))%nat) by (rewrite slice_length by lia; apply pow_nat).
        assert (R' : Repr hash node (firstn (N.to_nat (i + 2 ^ ctz i)) ls) (insert_node (mroot (slice ls i (2 ^ ctz i))) (N.to_nat (ctz i)) acc)).
        { rewrite <- firstn_slice. apply (insert_aligned H); [exact R | exact DvN | exact Sl]. }
        apply (IH (i + 2 ^ ctz i) _ fb fv); try lia. exact R'.
Qed.

Lemma hash_eqb_refl (x : hash) : hash_eqb x x = true.
Proof. unfold hash_eqb. destruct (list_eq_dec N.eq_dec x x); [reflexivity | contradiction]. Qed.

(* completeness of sector-range proofs, given the length identity: for every list of at most 2^30 roots and every range,
   if the built proof has the length the verifier computes from (n, start, end) and fits the loop bound, it is accepted
   against the plain root *)
Theorem range_proof_complete_sized (ls : list hash) start end_ :
  let n := N.of_nat (length ls) in
  0 < n <= 2 ^ 30 -> start < end_ -> end_ <= n ->
  let proof := build_range_proof H ls start end_ in
  N.of_nat (length proof) = range_proof_size n start end_ -> (length proof < FUEL)%nat ->
  verify_range_proof H proof (slice ls start (end_ - start)) start end_ n (mroot ls) = true.
Proof.
  intros n Hn Hse Hen proof Hlen Hfuel. unfold verify_range_proof. destruct (N.eqb_spec n 0); [lia|].
  rewrite Hlen, N.eqb_refl. cbn [negb]. unfold proof, build_range_proof in *. fold n in Hfuel |- *. destruct (N.eqb_spec n 0); [lia|].
  set (pL := build_range FUEL ls n 0 start) in *. set (pR := build_range FUEL ls n end_ (2 ^ 31 - 1)) in *.
  rewrite app_length in Hfuel.
  (* both loops of the builder ran to completion *)
  set (bigL := Nat.max FUEL (N.to_nat start)). set (bigR := Nat.max FUEL (N.to_nat n)).
  assert (EL : build_range bigL ls n 0 start = pL) by (apply build_range_stable; [unfold bigL; lia | unfold pL in *; lia]).
  assert (ER : build_range bigR ls n end_ (2 ^ 31 - 1) = pR) by (apply build_range_stable; [unfold bigR; lia | unfold pR in *; lia]).
  (* left *)
  destruct (left_sync H ls start ltac:(fold n; lia) ltac:(fold n; lia) (N.to_nat start) 0 [] pR bigL FUEL) as (accL & IL & RL);
    [lia | lia | cbn; apply repr_nil | unfold bigL; lia | fold n; rewrite EL; lia |].
  fold n in IL. rewrite EL in IL. rewrite IL.
  (* the range itself *)
  set (accM := fold_left (fun a h => insert_node h 0 a) (slice ls start (end_ - start)) accL).
  assert (RM : Repr hash node (firstn (N.to_nat end_) ls) accM).
  { unfold accM. replace end_ with (start + (end_ - start)) at 1 by lia. rewrite <- firstn_slice. apply acc_digits_repr. exact RL. }
  (* right *)
  destruct (right_sync ls ltac:(fold n; lia) (N.to_nat n) end_ accM bigR FUEL) as (accR & IR & RR);
    [fold n; lia | lia | fold n; lia | exact RM | fold n; unfold bigR; lia | fold n; rewrite ER; lia |].
  fold n in IR. rewrite ER in IR. rewrite IR, RR. apply hash_eqb_refl.
Qed.
End RFinal.
