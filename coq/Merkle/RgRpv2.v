(* rhp/v2 RangeProofVerifier (streaming verification of a leaf range of one sector) is VerifySectorRangeProof over the leaf
   hashes of the range: the verifier inserts the roots of the aligned subtrees of the data it read where the plain verifier
   inserts the leaf hashes one by one. *)
From Coq Require Import List NArith Arith Bool Lia ZifyN ZifyNat ZifyBool.
From Sia Require Import Prim.Tok Merkle.Tree Merkle.Forest Merkle.Rhp Merkle.RhpProofs Merkle.RhpRoot.
From Sia Require Import Merkle.RgBits Merkle.RgStruct Merkle.RgCount Merkle.RgLoops Merkle.RgFinal Merkle.RgLeft Merkle.RgRightCount Merkle.RgComplete Merkle.RgSound Merkle.RgSound2 Merkle.RgAppend Merkle.RgGap Merkle.RgMulti.
From Sia Require Import Merkle.RgRpv1.
Import ListNotations.
Local Open Scope N_scope.

Section Rpv.
Variable H : bytes -> bytes.
Notation node := (Rhp.node H).
Notation mroot := (Rhp.mroot H).
Notation insert_range := (Rhp.insert_range H).
Notation ins := (Rhp.insert_node H).
Notation ins0 := (fun a h => Rhp.insert_node H h 0 a).

Notation range_subtrees_off := (Rhp.range_subtrees_off H).
Notation rpv_verify := (Rhp.rpv_verify H).

Lemma skipn_add {A} (l : list A) : forall a b, skipn (a + b) l = skipn b (skipn a l).
Proof. induction l as [|x l IH]; intros a b; [rewrite !skipn_nil; reflexivity|]. destruct a; [reflexivity|]. cbn [Nat.add skipn]. apply IH. Qed.
Lemma pow_nat' h : N.to_nat (2 ^ h) = (2 ^ N.to_nat h)%nat.
Proof. rewrite <- (N2Nat.id 2) at 1. rewrite <- (N2Nat.id h) at 1. rewrite <- Nat2N.inj_pow, Nat2N.id. reflexivity. Qed.

(* the middle phase: subtree roots of the data, inserted where the accumulator counts exactly i leaves *)
Lemma data_gap (lv : list hash) off j : j < 2 ^ 64 -> off + N.of_nat (length lv) = j -> forall f i acc,
  off <= i -> i <= j -> (i < j -> (N.to_nat (phi i j) <= f)%nat) -> dval acc = i ->
  insert_range f acc (range_subtrees_off f lv off i j) i j = (fold_left ins0 (skipn (N.to_nat (i - off)) lv) acc, []).
Proof.
  intros Hj Hl. induction f as [|f IH]; intros i acc Ho Hi En Dv.
  - destruct (N.ltb_spec i j) as [L|G]; [pose proof (phi_pos i j L Hj); specialize (En L); lia|].
    assert (i = j) by lia. subst i. cbn [Rhp.range_subtrees_off Rhp.insert_range]. rewrite skipn_all2 by lia. reflexivity.
  - cbn [Rhp.range_subtrees_off]. destruct (N.ltb_spec i j) as [L|G].
    + cbv zeta. destruct (nss_spec i j L Hj) as (h & Es & Hh & (q & Dvd) & Fit & Tz & _).
      cbn [Rhp.insert_range]. destruct (N.ltb_spec i j); [|lia]. cbv zeta. rewrite Es, Tz.
      set (blk := slice lv (i - off) (2 ^ h)).
      assert (Lb : length blk = (2 ^ N.to_nat h)%nat) by (unfold blk; rewrite slice_length by lia; apply pow_nat').
      assert (LF : lowfree (N.to_nat h) acc) by (apply (dval_lowfree H (N.to_nat h) acc q); rewrite N2Nat.id, Dv; exact Dvd).
      rewrite <- (ins_block H (N.to_nat h) blk acc Lb LF).
      rewrite (IH (i + 2 ^ h) (fold_left ins0 blk acc)); try lia.
      * f_equal. rewrite <- fold_left_app. f_equal. unfold blk, slice.
        replace (N.to_nat (i + 2 ^ h - off)) with (N.to_nat (i - off) + N.to_nat (2 ^ h))%nat by lia.
        rewrite skipn_add. apply firstn_skipn.
      * intros L2. pose proof (phi_step i j L Hj ltac:(rewrite Es; exact L2)) as P. rewrite Es in P. specialize (En L). lia.
      * rewrite (dval_fold H), Dv, Lb. rewrite <- pow_nat', N2Nat.id. reflexivity.
    + assert (i = j) by lia. subst i. cbn [Rhp.insert_range]. rewrite skipn_all2 by lia. reflexivity.
Qed.

(* a phase that has enough proof hashes consumes exactly one per subtree and leaves the accumulator counting j leaves *)
Lemma phase_dval j : j < 2 ^ 64 -> forall f i acc p, i <= j -> (i < j -> (N.to_nat (phi i j) <= f)%nat) -> dval acc = i ->
  gaps_size f i j <= N.of_nat (length p) ->
  exists acc', insert_range f acc p i j = (acc', skipn (N.to_nat (gaps_size f i j)) p) /\ dval acc' = j.
Proof.
  intros Hj. induction f as [|f IH]; intros i acc p Hi En Dv Gs.
  - destruct (N.ltb_spec i j) as [L|G]; [pose proof (phi_pos i j L Hj); specialize (En L); lia|]. exists acc. cbn. split; [reflexivity | lia].
  - cbn [gaps_size] in *. destruct (N.ltb_spec i j) as [L|G].
    + destruct p as [|x r]; [cbn [length] in Gs; lia|]. cbn [Rhp.insert_range]. destruct (N.ltb_spec i j); [|lia]. cbv zeta.
      destruct (nss_spec i j L Hj) as (h & Es & Hh & (q & Dvd) & Fit & Tz & _). rewrite Es, Tz in *.
      assert (LF : lowfree (N.to_nat h) acc) by (apply (dval_lowfree H (N.to_nat h) acc q); rewrite N2Nat.id, Dv; exact Dvd).
      destruct (IH (i + 2 ^ h) (ins x (N.to_nat h) acc) r ltac:(lia)) as (acc' & E & D').
      * intros L2. pose proof (phi_step i j L Hj ltac:(rewrite Es; exact L2)) as P. rewrite Es in P. specialize (En L). lia.
      * rewrite (dval_ins H) by exact LF. rewrite N2Nat.id, Dv. reflexivity.
      * cbn [length] in Gs. lia.
      * exists acc'. split; [|exact D']. rewrite E. f_equal.
        replace (N.to_nat (1 + gaps_size f (i + 2 ^ h) j)) with (S (N.to_nat (gaps_size f (i + 2 ^ h) j))) by lia. reflexivity.
    + exists acc. cbn [Rhp.insert_range]. destruct p; [split; [reflexivity | lia]|]. destruct (N.ltb_spec i j); [lia|]. split; [reflexivity | lia].
Qed.

(* ---- counting the hashes of the two outer phases ---- *)
Definition zs (n : N) : list hash := repeat zero_hash (N.to_nat n).
Lemma zs_len n : N.of_nat (length (zs n)) = n.
Proof. unfold zs. rewrite repeat_length. lia. Qed.

Lemma cnt_left n s : s <= n -> n < 2 ^ 64 -> gaps_size FUEL 0 s = popcount s.
Proof.
  intros Hs Hn. rewrite <- (gaps_length H (zs n)). rewrite (subtrees_build H (zs n) s) by (rewrite ?zs_len; lia).
  set (big := Nat.max FUEL (N.to_nat s)).
  pose proof (left_count H (zs n) s ltac:(rewrite zs_len; lia) ltac:(rewrite zs_len; lia) (N.to_nat s) 0 big ltac:(lia) ltac:(lia) (or_introl eq_refl) ltac:(unfold big; lia)) as C.
  rewrite N.sub_0_r in C. pose proof (popcount_le_64 s ltac:(lia)) as B.
  rewrite (build_range_stable' H (zs n) _ s FUEL big 0); [exact C | unfold big; lia | unfold FUEL; lia].
Qed.

Lemma nss_pow2 k i : 0 < i -> i < 2 ^ k -> k < 64 -> next_subtree_size i (2 ^ k) = 2 ^ ctz i /\ i + 2 ^ ctz i <= 2 ^ k.
Proof.
  intros Hi Hik Hk. assert (Hn : 2 ^ k < 2 ^ 64) by (apply N.pow_lt_mono_r; lia).
  destruct (nss_spec i (2 ^ k) Hik Hn) as (h & Es & _ & _ & _ & _ & Eh). destruct (N.eqb_spec i 0); [lia|].
  destruct (ctz_spec i Hi) as (q & E). set (t := ctz i) in *.
  assert (Pt : 0 < 2 ^ t) by (apply N.neq_0_lt_0, N.pow_nonzero; lia).
  assert (Tk : t < k). { destruct (N.lt_ge_cases t k) as [|G]; [assumption|]. exfalso. assert (2 ^ k <= 2 ^ t) by (apply N.pow_le_mono_r; lia). nia. }
  assert (Ek : 2 ^ k = 2 ^ t * 2 ^ (k - t)) by (rewrite <- N.pow_add_r; f_equal; lia).
  assert (Fit : i + 2 ^ t <= 2 ^ k).
  { rewrite Ek, E. assert (2 * q + 1 < 2 ^ (k - t)) by nia. nia. }
  split; [|exact Fit]. rewrite Es. f_equal. rewrite Eh. apply N.min_l. apply N.log2_le_pow2; lia.
Qed.

(* for a power-of-two count the right-hand builder never clips: it produces the subtrees of [e, n) *)
Lemma build_right_pow2 k (ls : list hash) : 1 <= k -> k <= 30 -> N.of_nat (length ls) = 2 ^ k -> forall f e, 0 < e -> e <= 2 ^ k ->
  Rhp.build_range H f ls (2 ^ k) e (2 ^ 31 - 1) = Rhp.range_subtrees H f ls e (2 ^ k).
Proof.
  intros K1 K30 Ll. assert (Bn : 2 ^ k <= 2 ^ 30) by (apply N.pow_le_mono_r; lia).
  induction f as [|f IH]; intros e He Hen; cbn [Rhp.build_range Rhp.range_subtrees]; [reflexivity|].
  destruct (N.ltb_spec e (2 ^ k)) as [L|G].
  - destruct (N.ltb_spec e (2 ^ 31 - 1)); [|lia]. cbn [andb]. cbv zeta.
    destruct (nss_right e (2 ^ k) He L Bn) as (E1 & _ & _). destruct (nss_pow2 k e He L ltac:(lia)) as (E2 & Fit). rewrite E1, E2.
    destruct (N.ltb_spec (2 ^ k) (e + 2 ^ ctz e)); [lia|]. f_equal. apply IH; lia.
  - rewrite andb_false_r. reflexivity.
Qed.

Lemma cnt_right k e : 1 <= k -> k <= 30 -> 0 < e -> e <= 2 ^ k -> gaps_size FUEL e (2 ^ k) = rterm (2 ^ k) e.
Proof.
  intros K1 K30 He Hen. assert (Bn : 2 ^ k <= 2 ^ 30) by (apply N.pow_le_mono_r; lia).
  assert (Pn : 0 < 2 ^ k) by (apply N.neq_0_lt_0, N.pow_nonzero; lia).
  rewrite <- (gaps_length H (zs (2 ^ k))). rewrite <- (build_right_pow2 k (zs (2 ^ k)) K1 K30 (zs_len (2 ^ k)) FUEL e He Hen).
  set (n := 2 ^ k) in *. set (big := Nat.max FUEL (N.to_nat n)).
  pose proof (right_count H (zs n) ltac:(rewrite zs_len; lia) (N.to_nat n) e big) as C. rewrite zs_len in C.
  specialize (C ltac:(lia) He Hen ltac:(unfold big; lia)).
  assert (BR : rterm n e <= 64).
  { unfold rterm. apply popcount_le_64. apply bits_bound. intros i Hi. rewrite N.land_spec, N.ldiff_spec.
    rewrite (high_bits_zero (Rhp.W - 1) i) by (unfold Rhp.W; lia). reflexivity. }
  rewrite (build_range_stable' H (zs n) n (2 ^ 31 - 1) FUEL big e); [exact C | unfold big; lia | unfold FUEL; lia].
Qed.

(* the last phase: stopping at n or going on towards 2^64 - 1 is the same when no hash is left at n *)
Lemma phase3_eq k : 1 <= k -> k <= 30 -> forall f e acc p, 0 < e -> e <= 2 ^ k -> N.of_nat (length p) <= gaps_size f e (2 ^ k) ->
  insert_range f acc p e (2 ^ k) = insert_range f acc p e (Rhp.W - 1).
Proof.
  intros K1 K30. assert (Bn : 2 ^ k <= 2 ^ 30) by (apply N.pow_le_mono_r; lia).
  induction f as [|f IH]; intros e acc p He Hen Lp; [reflexivity|]. cbn [Rhp.insert_range gaps_size] in *.
  destruct p as [|x r]; [reflexivity|]. destruct (N.ltb_spec e (2 ^ k)) as [L|G]; [|cbn [length] in Lp; lia].
  destruct (N.ltb_spec e (Rhp.W - 1)); [|unfold Rhp.W in *; lia]. cbv zeta.
  destruct (nss_right e (2 ^ k) He L Bn) as (_ & E1 & _). destruct (nss_pow2 k e He L ltac:(lia)) as (E2 & Fit). rewrite E1, E2 in *.
  apply IH; [lia | lia | cbn [length] in Lp; lia].
Qed.

(* RangeProofVerifier.Verify is VerifySectorRangeProof over the leaf hashes it read *)
Theorem rpv_is_range (k : N) (proof lv : list hash) s e root : 1 <= k -> k <= 30 -> s < e -> e <= 2 ^ k -> N.of_nat (length lv) = e - s ->
  rpv_verify proof lv s e (2 ^ k) root = verify_range_proof H proof lv s e (2 ^ k) root.
Proof.
  intros K1 K30 Hse Hen Ll. set (n := 2 ^ k) in *. assert (Bn : n <= 2 ^ 30) by (apply N.pow_le_mono_r; lia).
  assert (Pn : 0 < n) by (apply N.neq_0_lt_0, N.pow_nonzero; lia).
  unfold Rhp.rpv_verify, verify_range_proof. destruct (N.eqb_spec n 0); [lia|].
  destruct (N.eqb_spec (N.of_nat (length proof)) (range_proof_size n s e)) as [Lp|]; [|reflexivity]. cbn [negb].
  assert (Sz : range_proof_size n s e = popcount s + rterm n e) by reflexivity.
  pose proof (cnt_left n s ltac:(lia) ltac:(lia)) as CL. pose proof (cnt_right k e K1 K30 ltac:(lia) Hen) as CR. fold n in CR.
  destruct (phase_dval s ltac:(lia) FUEL 0 [] proof ltac:(lia) ltac:(intros _; pose proof (phi_bound 0 s ltac:(lia)); unfold FUEL; lia) eq_refl ltac:(lia))
    as (acc1 & E1 & D1).
  rewrite E1. rewrite CL.
  rewrite (data_gap lv s e ltac:(lia) ltac:(lia) FUEL s acc1 ltac:(lia) ltac:(lia) ltac:(intros _; pose proof (phi_bound s e ltac:(lia)); unfold FUEL; lia) D1).
  rewrite N.sub_diag. cbn [N.to_nat skipn].
  rewrite (phase3_eq k K1 K30 FUEL e _ _ ltac:(lia) Hen); [reflexivity|].
  fold n. rewrite CR, skipn_length. lia.
Qed.
End Rpv.

(* hence, for the leaf hashes ls of a whole sector (2^k of them): the plain proof is accepted together with the leaf hashes
   of the range, and what is accepted is the true leaf hashes with exactly that proof, or a collision is exhibited *)
Section RpvCor.
Variable H : bytes -> bytes.
Theorem rpv_complete (k : N) (ls : list hash) s e : 1 <= k -> k <= 30 -> N.of_nat (length ls) = 2 ^ k -> s < e -> e <= 2 ^ k ->
  Rhp.rpv_verify H (build_range_proof H ls s e) (slice ls s (e - s)) s e (2 ^ k) (Rhp.mroot H ls) = true.
Proof.
  intros K1 K30 Ll Hse Hen. assert (Bn : 2 ^ k <= 2 ^ 30) by (apply N.pow_le_mono_r; lia).
  assert (Pn : 0 < 2 ^ k) by (apply N.neq_0_lt_0, N.pow_nonzero; lia).
  rewrite (rpv_is_range H k) by (try assumption; rewrite slice_length by lia; lia).
  pose proof (range_proof_complete H ls s e) as C. cbv zeta in C. rewrite Ll in C. apply C; lia.
Qed.
Theorem rpv_sound (k : N) (ls proof lv : list hash) s e : 1 <= k -> k <= 30 -> N.of_nat (length ls) = 2 ^ k -> s < e -> e <= 2 ^ k ->
  N.of_nat (length lv) = e - s -> Rhp.rpv_verify H proof lv s e (2 ^ k) (Rhp.mroot H ls) = true ->
  (lv = slice ls s (e - s) /\ proof = build_range_proof H ls s e) \/ RgSound.NodeCollision H.
Proof.
  intros K1 K30 Ll Hse Hen Lv V. assert (Bn : 2 ^ k <= 2 ^ 30) by (apply N.pow_le_mono_r; lia).
  assert (Pn : 0 < 2 ^ k) by (apply N.neq_0_lt_0, N.pow_nonzero; lia).
  rewrite (rpv_is_range H k) in V by assumption.
  pose proof (RgSound2.range_proof_sound H ls s e proof lv) as S. rewrite Ll in S. apply S; try assumption; lia.
Qed.
End RpvCor.
