(* Multi-range proofs (the old-root half of rhp/v2 VerifyDiffProof and rhp/v4 VerifyFreeSectorsProof): completeness and
   soundness against the plainly defined root, for every list of fewer than 2^64 roots and every increasing index list.
   The verifier marks a proof short when a range needs a tree hash and none is left (fix 7283819); without that mark the
   soundness statement is false (refuted below on the unmarked loop). *)
From Coq Require Import List NArith Arith Bool Lia ZifyN ZifyNat ZifyBool Sorted.
From Sia Require Import Prim.Tok Merkle.Tree Merkle.Forest Merkle.Rhp Merkle.RhpProofs Merkle.RhpRoot.
From Sia Require Import Merkle.RgBits Merkle.RgStruct Merkle.RgLoops Merkle.RgFinal Merkle.RgComplete Merkle.RgSound Merkle.RgSound2.
From Sia Require Import Merkle.RgGap.
Import ListNotations.
Local Open Scope N_scope.

(* strictly increasing indices from [start], all below n *)
Fixpoint incr (start : N) (idx : list N) (n : N) : Prop :=
  match idx with [] => start <= n | e :: r => start <= e /\ e < n /\ incr (e + 1) r n end.
Definition leaves_at (ls : list hash) (idx : list N) : list hash := map (fun j => nth (N.to_nat j) ls zero_hash) idx.

(* the verifier over any carrier *)
Section Poly.
Variable X : Type.
Variable nd : X -> X -> X.
Fixpoint pmulti (fuel : nat) (acc : list (option X)) (th : list X) (start : N) (idx : list N) (lh : list X) (n : N)
  : option (list (option X) * list X) :=
  match idx with
  | [] => Some (pins_range nd fuel acc th start n)
  | e :: r =>
    match lh with
    | [] => None
    | l :: lrest => let '(acc, th) := pins_range nd fuel acc th start e in pmulti fuel (pins nd l 0 acc) th (e + 1) r lrest n
    end
  end.
End Poly.
Arguments pmulti {X}.

Section Hom.
Variables X Y : Type.
Variable nd : X -> X -> X.
Variable nd' : Y -> Y -> Y.
Variable f : X -> Y.
Hypothesis Hf : forall a b, f (nd a b) = nd' (f a) (f b).
Notation mf := (map (option_map f)).
Lemma hom_multi fuel idx : forall acc th start lh n,
  option_map (fun ar => (mf (fst ar), map f (snd ar))) (pmulti nd fuel acc th start idx lh n) = pmulti nd' fuel (mf acc) (map f th) start idx (map f lh) n.
Proof.
  induction idx as [|e r IH]; intros acc th start lh n; cbn [pmulti].
  - cbn [option_map]. f_equal. pose proof (hom_range X Y nd nd' f Hf fuel acc th start n) as E.
    destruct (pins_range nd fuel acc th start n) as [a q]. cbn [fst snd]. exact E.
  - destruct lh as [|l lrest]; cbn [map]; [reflexivity|].
    pose proof (hom_range X Y nd nd' f Hf fuel acc th start e) as E. destruct (pins_range nd fuel acc th start e) as [a q].
    rewrite <- E. rewrite <- (hom_ins X Y nd nd' f Hf). apply IH.
Qed.
End Hom.

Section Multi.
Variable H : bytes -> bytes.
Notation node := (Rhp.node H).
Notation mroot := (Rhp.mroot H).
Notation range_subtrees := (Rhp.range_subtrees H).
Notation insert_range := (Rhp.insert_range H).
Notation build_gaps := (Rhp.build_gaps H).

(* the unmarked loop (what the verifier ran before the fix, and what the pair argument is about) *)
Fixpoint multi_ns (fuel : nat) (acc : pacc) (th : list hash) (start : N) (idx : list N) (lh : list hash) (n : N) : option (pacc * list hash) :=
  match idx with
  | [] => Some (insert_range fuel acc th start n)
  | e :: r =>
    match lh with
    | [] => None
    | l :: lrest => let '(acc, th) := insert_range fuel acc th start e in multi_ns fuel (insert_node H l 0 acc) th (e + 1) r lrest n
    end
  end.
Lemma multi_p fuel idx : forall acc th start lh n, multi_ns fuel acc th start idx lh n = pmulti node fuel acc th start idx lh n.
Proof.
  induction idx as [|e r IH]; intros acc th start lh n; cbn [multi_ns pmulti]; [rewrite range_p; reflexivity|].
  destruct lh as [|l lrest]; [reflexivity|]. rewrite range_p. destruct (pins_range node fuel acc th start e) as [a q]. rewrite ins_p. apply IH.
Qed.

(* a range that was not marked short ran the unmarked loop to the end of the range, consuming one hash per subtree *)
Lemma strict_false f : forall acc p i j a t, insert_range_s H f acc p i j = (a, t, false) ->
  insert_range f acc p i j = (a, t) /\ N.of_nat (length p) = gaps_size f i j + N.of_nat (length t).
Proof.
  induction f as [|f IH]; intros acc p i j a t E; cbn [insert_range_s Rhp.insert_range gaps_size] in *.
  - destruct (i <? j); [discriminate|]. injection E as <- <-. split; [reflexivity | lia].
  - destruct (i <? j).
    + destruct p as [|x rest]; [discriminate|]. cbv zeta in *. destruct (IH _ _ _ _ _ _ E) as [E1 E2]. split; [exact E1|]. cbn [length]. lia.
    + injection E as <- <-. split; [destruct p; reflexivity | lia].
Qed.
Lemma multi_s_false f n idx : forall acc th start lh a t, verify_multi_aux H f acc th start idx lh n = Some (a, t, false) ->
  multi_ns f acc th start idx lh n = Some (a, t) /\ N.of_nat (length th) = diff_gaps f start idx n + N.of_nat (length t).
Proof.
  induction idx as [|e r IH]; intros acc th start lh a t E; cbn [verify_multi_aux multi_ns diff_gaps] in *.
  - injection E as E. destruct (strict_false f _ _ _ _ _ _ E) as [E1 E2]. rewrite E1. split; [reflexivity | exact E2].
  - destruct lh as [|l lrest]; [discriminate|]. destruct (insert_range_s H f acc th start e) as [[a1 t1] s1] eqn:E1.
    destruct (verify_multi_aux H f (insert_node H l 0 a1) t1 (e + 1) r lrest n) as [[[a2 t2] s2]|] eqn:E2; [|discriminate].
    injection E as <- <- Es. destruct s1; [discriminate|]. destruct s2; [discriminate|].
    destruct (strict_false f _ _ _ _ _ _ E1) as [F1 F2]. rewrite F1. destruct (IH _ _ _ _ _ _ E2) as [G1 G2]. split; [exact G1 | lia].
Qed.

(* with the builder's hashes in front, no range is marked short *)
Lemma strict_app (ls : list hash) j rest : j < 2 ^ 64 -> forall f i acc, (i < j -> (N.to_nat (phi i j) <= f)%nat) ->
  insert_range_s H f acc (range_subtrees f ls i j ++ rest) i j =
  (fst (insert_range f acc (range_subtrees f ls i j ++ rest) i j), snd (insert_range f acc (range_subtrees f ls i j ++ rest) i j), false).
Proof.
  intros Hj. induction f as [|f IH]; intros i acc En; cbn [insert_range_s Rhp.insert_range Rhp.range_subtrees].
  - destruct (N.ltb_spec i j) as [L|G]; [pose proof (phi_pos i j L Hj); specialize (En L); lia | reflexivity].
  - destruct (N.ltb_spec i j) as [L|G].
    + cbv zeta. cbn [app]. apply IH. intros L2. pose proof (phi_step i j L Hj L2). specialize (En L). lia.
    + cbn [app]. destruct rest; reflexivity.
Qed.

Lemma firstn_succ_nth (ls : list hash) e : (e < length ls)%nat -> firstn (S e) ls = firstn e ls ++ [nth e ls zero_hash].
Proof.
  revert e. induction ls as [|x ls IH]; intros e L; [cbn in L; lia|]. destruct e as [|e]; [reflexivity|].
  cbn [firstn nth app]. f_equal. apply IH. cbn in L. lia.
Qed.

Lemma gap_sync_s (ls : list hash) i j acc rest : i <= j -> j <= N.of_nat (length ls) -> N.of_nat (length ls) < 2 ^ 64 ->
  Repr hash node (firstn (N.to_nat i) ls) acc ->
  exists acc', insert_range_s H FUEL acc (range_subtrees FUEL ls i j ++ rest) i j = (acc', rest, false) /\ Repr hash node (firstn (N.to_nat j) ls) acc'.
Proof.
  intros Hij Hjn Hn R. destruct (gap_sync H ls i j acc rest Hij Hjn Hn R) as (acc' & E & R'). exists acc'. split; [|exact R'].
  rewrite (strict_app ls j rest ltac:(lia) FUEL i acc); [rewrite E; reflexivity|].
  intros _. pose proof (phi_bound i j ltac:(lia)). unfold FUEL. lia.
Qed.

(* ---- completeness ---- *)
Lemma multi_sync (ls : list hash) : N.of_nat (length ls) < 2 ^ 64 -> forall idx start acc rest,
  incr start idx (N.of_nat (length ls)) -> Repr hash node (firstn (N.to_nat start) ls) acc ->
  exists acc', verify_multi_aux H FUEL acc (build_gaps FUEL ls start idx ++ rest) start idx (leaves_at ls idx) (N.of_nat (length ls)) = Some (acc', rest, false)
               /\ Repr hash node ls acc'.
Proof.
  intros Hn. induction idx as [|e r IH]; intros start acc rest I R; cbn [Rhp.build_gaps verify_multi_aux leaves_at map incr] in *.
  - destruct (gap_sync_s ls start (N.of_nat (length ls)) acc rest I ltac:(lia) Hn R) as (acc' & E & R').
    exists acc'. rewrite E. split; [reflexivity|]. rewrite firstn_all2 in R' by lia. exact R'.
  - destruct I as (I1 & I2 & I3). rewrite <- app_assoc.
    destruct (gap_sync_s ls start e acc (build_gaps FUEL ls (e + 1) r ++ rest) I1 ltac:(lia) Hn R) as (acc1 & E & R1). rewrite E.
    destruct (IH (e + 1) (insert_node H (nth (N.to_nat e) ls zero_hash) 0 acc1) rest I3) as (acc' & E' & R').
    { replace (N.to_nat (e + 1)) with (S (N.to_nat e)) by lia. rewrite firstn_succ_nth by lia.
      apply (acc_digits_repr H _ acc1 [nth (N.to_nat e) ls zero_hash]). exact R1. }
    exists acc'. fold (leaves_at ls r). rewrite E'. split; [reflexivity | exact R'].
Qed.

Theorem multi_complete (ls : list hash) idx : N.of_nat (length ls) < 2 ^ 64 -> incr 0 idx (N.of_nat (length ls)) ->
  verify_multi H idx (build_gaps FUEL ls 0 idx) (leaves_at ls idx) (N.of_nat (length ls)) (mroot ls) = Some true.
Proof.
  intros Hn I. unfold verify_multi. destruct (multi_sync ls Hn idx 0 [] [] I ltac:(cbn; apply repr_nil)) as (acc' & E & R).
  rewrite app_nil_r in E. rewrite E. rewrite (repr_root H ls acc' R), hash_eqb_refl. reflexivity.
Qed.

(* ---- soundness ---- *)
Lemma multi_inv fuel n idx : forall acc th start lh, length lh = length idx -> gooda H acc -> Forall (Good H) th -> Forall (Good H) lh ->
  match pmulti (nd2 H) fuel acc th start idx lh n with
  | Some (a, r) => gooda H a /\ (allp a /\ lall r <-> allp acc /\ lall th /\ lall lh)
  | None => False
  end.
Proof.
  induction idx as [|e r IH]; intros acc th start lh L Ga Gt Gl; cbn [pmulti].
  - destruct lh; [|discriminate]. pose proof (range_inv H fuel acc th start n Ga Gt) as RI.
    destruct (pins_range (nd2 H) fuel acc th start n) as [a q]. destruct RI as (G1 & _ & E & _). split; [exact G1|]. cbn [lall]. tauto.
  - destruct lh as [|l lrest]; [discriminate|]. cbn [length] in L. inversion Gl as [|? ? Gl0 Glr]; subst.
    pose proof (range_inv H fuel acc th start e Ga Gt) as RI. destruct (pins_range (nd2 H) fuel acc th start e) as [a q].
    destruct RI as (G1 & G2 & E & _). destruct (ins_inv H l 0%nat a Gl0 G1) as [G3 E3].
    specialize (IH (pins (nd2 H) l 0 a) q (e + 1) lrest ltac:(lia) G3 G2 Glr).
    destruct (pmulti (nd2 H) fuel (pins (nd2 H) l 0 a) q (e + 1) r lrest n) as [[a' r']|]; [|exact IH].
    destruct IH as [G4 E4]. split; [exact G4|]. rewrite E4, E3. cbn [lall]. tauto.
Qed.

Lemma gaps_length (ls : list hash) f : forall i j, N.of_nat (length (range_subtrees f ls i j)) = gaps_size f i j.
Proof. induction f as [|f IH]; intros i j; cbn [Rhp.range_subtrees gaps_size]; [reflexivity|]. destruct (i <? j); [|reflexivity]. cbv zeta. cbn [length]. rewrite <- IH. lia. Qed.
Lemma build_gaps_length (ls : list hash) f idx : forall start,
  N.of_nat (length (build_gaps f ls start idx)) = diff_gaps f start idx (N.of_nat (length ls)).
Proof.
  induction idx as [|e r IH]; intros start; cbn [Rhp.build_gaps diff_gaps]; [apply gaps_length|].
  rewrite app_length, Nat2N.inj_add, gaps_length, IH. reflexivity.
Qed.

Lemma andb_true (a b : bool) : a && b = true -> a = true /\ b = true.
Proof. destruct a, b; intros E; try discriminate; split; reflexivity. Qed.

(* the pair argument on the unmarked loop: with as many tree hashes as the gaps need, whatever it accepts against the plain
   root is the true leaves at the indices and the builder's gap hashes -- or a collision is exhibited *)
Lemma multi_ns_sound (ls : list hash) idx th lh acc1 : N.of_nat (length ls) < 2 ^ 64 -> incr 0 idx (N.of_nat (length ls)) ->
  length lh = length idx -> N.of_nat (length th) = diff_gaps FUEL 0 idx (N.of_nat (length ls)) ->
  multi_ns FUEL [] th 0 idx lh (N.of_nat (length ls)) = Some (acc1, []) -> pa_root H acc1 = mroot ls ->
  (lh = leaves_at ls idx /\ th = build_gaps FUEL ls 0 idx) \/ NodeCollision H.
Proof.
  intros Hn Inc Ll Lt E1 V1.
  remember (build_gaps FUEL ls 0 idx) as th0 eqn:Eth0. remember (leaves_at ls idx) as lh0 eqn:Elh0.
  assert (Lt0 : length th = length th0) by (rewrite Eth0; pose proof (build_gaps_length ls FUEL idx 0); lia).
  assert (Ll0 : length lh = length lh0) by (rewrite Elh0; unfold leaves_at; rewrite map_length; exact Ll).
  (* the honest run *)
  destruct (multi_sync ls Hn idx 0 [] [] Inc ltac:(cbn; apply repr_nil)) as (acc0 & E0 & R0). rewrite app_nil_r, <- Eth0, <- Elh0 in E0.
  apply multi_s_false in E0. destruct E0 as [E0 _]. rewrite multi_p in E0. pose proof (repr_root H ls acc0 R0) as Root0.
  rewrite multi_p in E1.
  (* both at once *)
  remember (map (fun ab => inj (fst ab) (snd ab)) (combine th th0)) as PP eqn:EPP.
  remember (map (fun ab => inj (fst ab) (snd ab)) (combine lh lh0)) as LL eqn:ELL.
  assert (P1 : map f1 PP = th) by (rewrite EPP; apply (map_inj_fst H); exact Lt0).
  assert (P2 : map f2 PP = th0) by (rewrite EPP; apply (map_inj_snd H); exact Lt0).
  assert (L1 : map f1 LL = lh) by (rewrite ELL; apply (map_inj_fst H); exact Ll0).
  assert (L2 : map f2 LL = lh0) by (rewrite ELL; apply (map_inj_snd H); exact Ll0).
  assert (LLl : length LL = length idx) by (rewrite ELL, map_length, combine_length; lia).
  pose proof (multi_inv FUEL (N.of_nat (length ls)) idx [] PP 0 LL LLl (Forall_nil _) ltac:(rewrite EPP; apply (good_all H)) ltac:(rewrite ELL; apply (good_all H))) as Inv.
  pose proof (hom_multi _ _ (nd2 H) node f1 (f1_hom H) FUEL idx [] PP 0 LL (N.of_nat (length ls))) as H1. cbn [map] in H1. rewrite P1, L1, E1 in H1.
  pose proof (hom_multi _ _ (nd2 H) node f2 (f2_hom H) FUEL idx [] PP 0 LL (N.of_nat (length ls))) as H2. cbn [map] in H2. rewrite P2, L2, E0 in H2.
  destruct (pmulti (nd2 H) FUEL [] PP 0 idx LL (N.of_nat (length ls))) as [[A Rm]|]; [|contradiction].
  cbn [option_map fst snd] in H1, H2. injection H1 as A1 Rm1. injection H2 as A2 _.
  apply map_eq_nil in Rm1. subst Rm. destruct Inv as [GA EA].
  pose proof (root_inv H A None GA I) as RI.
  pose proof (hom_root _ _ (nd2 H) node f1 (f1_hom H) A None) as R1. rewrite A1 in R1. cbn [option_map] in R1. rewrite <- (rootaux_p H) in R1.
  pose proof (hom_root _ _ (nd2 H) node f2 (f2_hom H) A None) as R2. rewrite A2 in R2. cbn [option_map] in R2. rewrite <- (rootaux_p H) in R2.
  unfold Rhp.pa_root in V1, Root0. rewrite <- R1 in V1. rewrite <- R2 in Root0.
  assert (AA : allp A \/ NodeCollision H).
  { destruct (proot_aux (nd2 H) None A) as [v|].
    - cbn [option_map] in V1, Root0. destruct RI as [Gv B]. destruct (Gv ltac:(rewrite V1, Root0; reflexivity)) as [Sv|C]; [left; apply B; exact Sv | right; exact C].
    - left. apply RI. exact I. }
  destruct AA as [AA|C]; [left | right; exact C].
  assert (Both : lall PP /\ lall LL) by (cbn [allp lall] in EA; tauto). destruct Both as [LP LLL]. split.
  - apply (lall_eq H); [exact Ll0 | rewrite <- ELL; exact LLL].
  - apply (lall_eq H); [exact Lt0 | rewrite <- EPP; exact LP].
Qed.

(* the verifier itself: whatever verify_multi accepts against the plain root -- any number of tree hashes offered -- is the
   true leaves at the indices and the builder's gap hashes, or a collision is exhibited *)
Theorem multi_sound (ls : list hash) idx th lh : N.of_nat (length ls) < 2 ^ 64 -> incr 0 idx (N.of_nat (length ls)) ->
  length lh = length idx ->
  verify_multi H idx th lh (N.of_nat (length ls)) (mroot ls) = Some true ->
  (lh = leaves_at ls idx /\ th = build_gaps FUEL ls 0 idx) \/ NodeCollision H.
Proof.
  intros Hn Inc Ll V. unfold verify_multi in V.
  destruct (verify_multi_aux H FUEL [] th 0 idx lh (N.of_nat (length ls))) as [[[acc1 left1] short]|] eqn:E1; [|discriminate].
  injection V as V. apply andb_true in V. destruct V as [V V2]. apply andb_true in V. destruct V as [V0 V1]. apply hash_eqb_true in V1.
  destruct short; [discriminate|]. assert (left1 = []) by (destruct left1; [reflexivity | discriminate]). subst left1.
  apply multi_s_false in E1. destruct E1 as [E1 Len]. cbn [length] in Len.
  apply (multi_ns_sound ls idx th lh acc1 Hn Inc Ll ltac:(lia) E1 V1).
Qed.

(* ---- sectorsChanged yields such an index list ---- *)
Lemma insert_sorted_in x l y : In y (insert_sorted x l) <-> y = x \/ In y l.
Proof.
  induction l as [|z l IH]; cbn [insert_sorted In]; [intuition congruence|].
  destruct (N.ltb_spec x z); [cbn [In]; intuition congruence|]. destruct (N.eqb_spec x z) as [->|Ne]; cbn [In]; [intuition congruence|]. rewrite IH. intuition congruence.
Qed.
Lemma insert_sorted_sorted x l : StronglySorted N.lt l -> StronglySorted N.lt (insert_sorted x l).
Proof.
  induction l as [|z l IH]; intros S; cbn [insert_sorted]; [constructor; [constructor | constructor]|].
  inversion S as [|? ? S' F]; subst. destruct (N.ltb_spec x z) as [L|G].
  - constructor; [exact S|]. constructor; [exact L|]. rewrite Forall_forall in *. intros y Hy. specialize (F y Hy). lia.
  - destruct (N.eqb_spec x z) as [->|Ne]; [exact S|]. constructor; [apply IH; exact S'|].
    rewrite Forall_forall in *. intros y Hy. apply insert_sorted_in in Hy. destruct Hy as [->|Hy]; [lia | apply F; exact Hy].
Qed.
Lemma trim_marks_sorted k : forall cur set, StronglySorted N.lt set -> StronglySorted N.lt (snd (trim_marks k cur set)).
Proof. induction k as [|k IH]; intros cur set S; cbn [trim_marks]; [exact S|]. apply IH. apply insert_sorted_sorted. exact S. Qed.
Lemma changed_sorted acts : forall cur set, StronglySorted N.lt set -> StronglySorted N.lt (changed_aux acts cur set).
Proof.
  induction acts as [|[|a|a b] r IH]; intros cur set S; cbn [changed_aux]; [exact S| | |].
  - apply IH. apply insert_sorted_sorted. exact S.
  - pose proof (trim_marks_sorted (N.to_nat a) cur set S) as T. destruct (trim_marks (N.to_nat a) cur set) as [c s]. apply IH. exact T.
  - apply IH. apply insert_sorted_sorted, insert_sorted_sorted. exact S.
Qed.
Lemma filter_sorted (p : N -> bool) l : StronglySorted N.lt l -> StronglySorted N.lt (filter p l).
Proof.
  induction l as [|x l IH]; intros S; cbn [filter]; [constructor|]. inversion S as [|? ? S' F]; subst.
  destruct (p x); [|apply IH; exact S']. constructor; [apply IH; exact S'|].
  rewrite Forall_forall in *. intros y Hy. apply filter_In in Hy. apply F. tauto.
Qed.
Lemma sorted_incr n l : forall start, StronglySorted N.lt l -> Forall (fun x => start <= x /\ x < n) l -> start <= n -> incr start l n.
Proof.
  induction l as [|e r IH]; intros start S F Hs; cbn [incr]; [exact Hs|].
  inversion S as [|? ? S' Fe]; subst. inversion F as [|? ? [F1 F2] Fr]; subst. split; [exact F1|]. split; [exact F2|].
  apply IH; [exact S' | | lia]. rewrite Forall_forall in *. intros y Hy. specialize (Fe y Hy). specialize (Fr y Hy). lia.
Qed.
Lemma sectors_changed_incr acts n : incr 0 (sectors_changed acts n) n.
Proof.
  unfold sectors_changed. apply sorted_incr; [apply filter_sorted, changed_sorted; constructor | | lia].
  rewrite Forall_forall. intros y Hy. apply filter_In in Hy. destruct Hy as [_ Hy]. destruct (N.ltb_spec y n); [lia | discriminate].
Qed.

(* ---- the old-root half of VerifyDiffProof ---- *)
(* BuildDiffProof's hashes pass the first verification of VerifyDiffProof against the plain root *)
Theorem diff_old_complete (acts : list action) (ls : list hash) : N.of_nat (length ls) < 2 ^ 64 ->
  verify_multi H (sectors_changed acts (N.of_nat (length ls))) (fst (build_diff_proof H acts ls)) (snd (build_diff_proof H acts ls))
    (N.of_nat (length ls)) (mroot ls) = Some true.
Proof. intros Hn. unfold build_diff_proof. cbn [fst snd]. apply (multi_complete ls _ Hn). apply sectors_changed_incr. Qed.

(* if VerifyDiffProof accepts (count held true, old root the plain root), the leaf hashes it was given are the true roots of
   the changed sectors and the tree hashes are the builder's -- or a collision is exhibited *)
Theorem diff_old_sound (acts : list action) (ls th lh : list hash) (newRoot : hash) (appendRoots : list hash) :
  N.of_nat (length ls) < 2 ^ 64 ->
  verify_diff_proof H acts (N.of_nat (length ls)) th lh (mroot ls) newRoot appendRoots = Some true ->
  (lh = snd (build_diff_proof H acts ls) /\ th = fst (build_diff_proof H acts ls)) \/ NodeCollision H.
Proof.
  intros Hn V. unfold verify_diff_proof in V. set (idx := sectors_changed acts (N.of_nat (length ls))) in *.
  destruct (Nat.eqb_spec (length idx) (length lh)) as [Ll|]; [|discriminate]. cbn [negb] in V.
  destruct (verify_multi H idx th lh (N.of_nat (length ls)) (mroot ls)) as [[|]|] eqn:V1; try discriminate.
  apply (multi_sound ls idx th lh Hn (sectors_changed_incr acts _) (eq_sym Ll) V1).
Qed.
End Multi.

(* without the short mark the statement is false: four leaves, index 3; one tree hash instead of two and the interior node
   over leaves 2 and 3 in place of leaf 3 reach the same root (hash taken as the identity, so no collision is involved) *)
Example unmarked_loop_refuted : let Hid := fun b : bytes => b in
  let ls := [[1]; [2]; [3]; [4]] in
  exists th lh acc, multi_ns Hid FUEL [] th 0 [3] lh 4 = Some (acc, []) /\ Rhp.pa_root Hid acc = Rhp.mroot Hid ls /\ lh <> leaves_at ls [3] /\ length lh = 1%nat.
Proof.
  cbv zeta. exists [Rhp.node (fun b => b) [1] [2]], [Rhp.node (fun b => b) [3] [4]]. eexists.
  split; [vm_compute; reflexivity|]. split; [vm_compute; reflexivity|]. split; [vm_compute; discriminate | reflexivity].
Qed.


(* ---- the new-root half, reduced to the builder's side ---- *)
Section NewRoot.
Variable H : bytes -> bytes.
(* the root the second verification of VerifyDiffProof computes from the builder's own proof: a function of the actions,
   the old list and the appended roots alone *)
Definition diff_new_acc (acts : list action) (ls ar : list hash) : option (pacc * list hash * bool) :=
  let n := N.of_nat (length ls) in
  let idx := sectors_changed acts n in
  let lh := leaves_at ls idx in
  match modify_leaves lh acts n ar, modify_ranges idx acts n with
  | Some nlh, Some nidx => verify_multi_aux H FUEL [] (build_gaps H FUEL ls 0 idx) 0 nidx nlh (n + N.of_nat (length nlh) - N.of_nat (length lh))
  | _, _ => None
  end.
Definition diff_new_root (acts : list action) (ls ar : list hash) : option hash :=
  match diff_new_acc acts ls ar with Some (acc, _, _) => Some (pa_root H acc) | None => None end.

(* whatever new root VerifyDiffProof accepts (old root the plain root, count held true) is the one root determined by the
   actions, the old list and the appended roots -- the root the verifier derives from the builder's own proof -- or a
   collision is exhibited. That this root is the plain root of the list after the actions is the builder-side
   (completeness) statement, which is tied by correspondence. *)
Theorem diff_new_determined (acts : list action) (ls th lh : list hash) (newRoot : hash) (ar : list hash) :
  N.of_nat (length ls) < 2 ^ 64 ->
  verify_diff_proof H acts (N.of_nat (length ls)) th lh (Rhp.mroot H ls) newRoot ar = Some true ->
  diff_new_root acts ls ar = Some newRoot \/ NodeCollision H.
Proof.
  intros Hn V. destruct (diff_old_sound H acts ls th lh newRoot ar Hn V) as [[El Et]|C]; [left | right; exact C].
  unfold build_diff_proof in El, Et. cbn [fst snd] in El, Et. fold (leaves_at ls (sectors_changed acts (N.of_nat (length ls)))) in El.
  unfold verify_diff_proof in V. destruct (negb _); [discriminate|].
  destruct (verify_multi H (sectors_changed acts (N.of_nat (length ls))) th lh (N.of_nat (length ls)) (Rhp.mroot H ls)) as [[|]|]; try discriminate.
  unfold diff_new_root, diff_new_acc. cbv zeta. rewrite <- El, <- Et.
  destruct (modify_leaves lh acts (N.of_nat (length ls)) ar) as [nlh|]; [|discriminate].
  destruct (modify_ranges (sectors_changed acts (N.of_nat (length ls))) acts (N.of_nat (length ls))) as [nidx|]; [|discriminate].
  unfold verify_multi in V.
  destruct (verify_multi_aux H FUEL [] th 0 nidx nlh (N.of_nat (length ls) + N.of_nat (length nlh) - N.of_nat (length lh))) as [[[acc t] sh]|]; [|discriminate].
  injection V as V. apply andb_true in V. destruct V as [V _]. apply andb_true in V. destruct V as [_ V]. apply hash_eqb_true in V. rewrite V. reflexivity.
Qed.
End NewRoot.
