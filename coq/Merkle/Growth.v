(* addLeaves, structurally: when leaves are appended to the forest, the proof of every old leaf is its old proof
   followed by a list of hashes that depends only on the height of the tree the leaf was in -- which is what the
   treeGrowth table of consensus/merkle.go stores, one list per height. *)
From Coq Require Import List NArith ZArith Arith Bool Lia ZifyN ZifyNat ZifyBool.
From Sia Require Import Prim.Tok Merkle.Tree Merkle.Forest Merkle.Acc Merkle.AccProofs.
Import ListNotations.

Section Growth.
Variable H : bytes -> bytes.
Notation node := (Acc.node H).
Notation ptree := (ptree hash).
Notation root := (root hash node).
Notation sibs := (sibs hash node).
Notation perfect := (perfect hash).
Notation height := (height hash).
Notation leaves := (leaves hash).
Notation all_leaves := (all_leaves hash).
Notation wf_from := (wf_from hash).
Notation tinc := (tinc hash).

Local Open Scope N_scope.
Lemma path_left h q : q < 2 ^ N.of_nat h -> path (S h) q = false :: path h q.
Proof. intros Hq. cbn [path]. destruct (N.leb_spec (2 ^ N.of_nat h) q); [lia | reflexivity]. Qed.
Lemma path_right h q : path (S h) (2 ^ N.of_nat h + q) = true :: path h q.
Proof. cbn [path]. destruct (N.leb_spec (2 ^ N.of_nat h) (2 ^ N.of_nat h + q)); [|lia]. f_equal. f_equal. lia. Qed.
Local Close Scope N_scope.

(* the proof of the leaf at relative index r of tree t, top-down *)
Definition tproof (t : ptree) (r : N) : list hash := sibs t (path (height t) r).

Lemma nleaves t : perfect t -> N.of_nat (length (leaves t)) = (2 ^ N.of_nat (height t))%N.
Proof. intros P. rewrite (leaves_length hash t P), Nat2N.inj_pow. reflexivity. Qed.

(* (E) where a tree inserted by the carry chain ends up: as a subtree reached by a fixed list of siblings *)
Lemma inserted ts : forall lv X, wf_from lv ts -> perfect X -> height X = lv ->
  exists T off pre, perfect T /\
    forall q, (q < 2 ^ N.of_nat lv)%N ->
      locate (tinc X ts) (N.of_nat (length (all_leaves ts)) + q)%N = Some (T, (off + q)%N) /\
      tproof T (off + q) = pre ++ tproof X q.
Proof.
  induction ts as [|[t0|] ts IH]; intros lv X W PX HX.
  - exists X, 0%N, []. split; [exact PX|]. intros q Hq. cbn [tinc locate all_leaves length app].
    rewrite (nleaves X PX), HX. cbn [N.of_nat]. rewrite !N.add_0_l.
    destruct (N.ltb_spec q 0); [lia|]. rewrite N.sub_0_r. destruct (N.ltb_spec q (2 ^ N.of_nat lv)); [|lia]. split; reflexivity.
  - cbn [wf_from] in W. destruct W as (P0 & H0 & W).
    assert (PX' : perfect (Node hash t0 X)) by (cbn; repeat split; auto; lia).
    assert (HX' : height (Node hash t0 X) = S lv) by (cbn; lia).
    destruct (IH (S lv) (Node hash t0 X) W PX' HX') as (T & off & pre & PT & F).
    exists T, (off + 2 ^ N.of_nat lv)%N, (pre ++ [root t0]). split; [exact PT|]. intros q Hq.
    cbn [tinc locate all_leaves]. rewrite app_length, Nat2N.inj_add, (nleaves t0 P0), H0.
    destruct (F (2 ^ N.of_nat lv + q)%N) as [L S].
    { rewrite Nat2N.inj_succ, N.pow_succ_r'. lia. }
    replace (N.of_nat (length (all_leaves ts)) + 2 ^ N.of_nat lv + q)%N with (N.of_nat (length (all_leaves ts)) + (2 ^ N.of_nat lv + q))%N by lia.
    replace (off + 2 ^ N.of_nat lv + q)%N with (off + (2 ^ N.of_nat lv + q))%N by lia.
    split; [exact L|]. rewrite S. unfold tproof. cbn [Tree.height]. rewrite H0, path_right. cbn [Tree.sibs]. rewrite <- app_assoc. cbn [app].
    rewrite HX. reflexivity.
  - cbn [wf_from] in W. exists X, 0%N, []. split; [exact PX|]. intros q Hq. cbn [tinc locate all_leaves].
    destruct (N.ltb_spec (N.of_nat (length (all_leaves ts)) + q) (N.of_nat (length (all_leaves ts)))); [lia|].
    rewrite (nleaves X PX), HX. replace (N.of_nat (length (all_leaves ts)) + q - N.of_nat (length (all_leaves ts)))%N with q by lia.
    destruct (N.ltb_spec q (2 ^ N.of_nat lv)); [|lia]. rewrite N.add_0_l. split; reflexivity.
Qed.

Lemma locate_lt ts : forall k t r, locate ts k = Some (t, r) -> (k < N.of_nat (length (all_leaves ts)))%N.
Proof.
  induction ts as [|[t0|] ts IH]; intros k t r L; cbn [locate all_leaves] in *; [discriminate| |eapply IH; exact L].
  rewrite app_length, Nat2N.inj_add. destruct (N.ltb_spec k (N.of_nat (length (all_leaves ts)))); [lia|].
  destruct (N.ltb_spec (k - N.of_nat (length (all_leaves ts))) (N.of_nat (length (leaves t0)))); [lia | discriminate].
Qed.

(* (O) where the old trees end up: every leaf of the old tree of height h gets the same list of siblings on top *)
Lemma old_trees ts : forall lv X, wf_from lv ts -> perfect X -> height X = lv ->
  forall h, exists T' pre, forall k t r, locate ts k = Some (t, r) -> height t = h ->
    exists r', locate (tinc X ts) k = Some (T', r') /\ tproof T' r' = pre ++ tproof t r.
Proof.
  induction ts as [|[t0|] ts IH]; intros lv X W PX HX h.
  - exists X, []. intros k t r L. discriminate.
  - cbn [wf_from] in W. destruct W as (P0 & H0 & W).
    assert (PX' : perfect (Node hash t0 X)) by (cbn; repeat split; auto; lia).
    assert (HX' : height (Node hash t0 X) = S lv) by (cbn; lia).
    destruct (Nat.eq_dec h lv) as [->|Nh].
    + (* the tree at this digit: it becomes the left child of the carried tree *)
      destruct (inserted ts (S lv) (Node hash t0 X) W PX' HX') as (T & off & pre & PT & F).
      exists T, (pre ++ [root X]). intros k t r L Ht. cbn [locate] in L.
      destruct (N.ltb_spec k (N.of_nat (length (all_leaves ts)))) as [Lt|Ge].
      * (* a leaf of a higher digit cannot have height lv *)
        exfalso. destruct (locate_spec (S lv) ts k t r W L) as (_ & Hh & _). lia.
      * destruct (N.ltb_spec (k - N.of_nat (length (all_leaves ts))) (N.of_nat (length (leaves t0)))) as [In|]; [|discriminate].
        inversion L; subst t r. rewrite (nleaves t0 P0), H0 in In.
        destruct (F (k - N.of_nat (length (all_leaves ts)))%N) as [L' S'].
        { rewrite Nat2N.inj_succ, N.pow_succ_r'. lia. }
        replace (N.of_nat (length (all_leaves ts)) + (k - N.of_nat (length (all_leaves ts))))%N with k in L' by lia.
        eexists. cbn [tinc locate]. split; [exact L'|]. rewrite S'. unfold tproof. cbn [Tree.height]. rewrite H0, (path_left lv _ In). cbn [Tree.sibs].
        rewrite <- app_assoc. reflexivity.
    + destruct (IH (S lv) (Node hash t0 X) W PX' HX' h) as (T' & pre & F).
      exists T', pre. intros k t r L Ht. cbn [locate] in L. cbn [tinc locate].
      destruct (N.ltb_spec k (N.of_nat (length (all_leaves ts)))) as [Lt|Ge]; [exact (F k t r L Ht)|].
      destruct (N.ltb_spec (k - N.of_nat (length (all_leaves ts))) (N.of_nat (length (leaves t0)))); [|discriminate].
      inversion L; subst. lia.
  - cbn [wf_from] in W.
    (* nothing is carried: the new tree takes the empty digit, every old leaf keeps its tree and proof *)
    destruct (nth_error ts (h - S lv)) as [[th|]|] eqn:Dig.
    + exists th, []. intros k t r L Ht. cbn [locate] in L. cbn [tinc locate].
      pose proof (locate_lt ts k t r L) as Lt. destruct (N.ltb_spec k (N.of_nat (length (all_leaves ts)))); [|lia].
      destruct (locate_spec (S lv) ts k t r W L) as (_ & _ & Dg & _). rewrite Ht, Dig in Dg. inversion Dg; subst th.
      exists r. split; [exact L | reflexivity].
    + exists X, []. intros k t r L Ht. cbn [locate] in L. destruct (locate_spec (S lv) ts k t r W L) as (_ & _ & Dg & _). rewrite Ht, Dig in Dg. discriminate.
    + exists X, []. intros k t r L Ht. cbn [locate] in L. destruct (locate_spec (S lv) ts k t r W L) as (_ & _ & Dg & _). rewrite Ht, Dig in Dg. discriminate.
Qed.

(* any number of appended leaves: the new proof of an old leaf is its old proof followed by a list that depends only on
   the height of the tree it was in *)
Theorem growth_uniform A : forall L h, exists g, forall k t r, locate (forest_of L) k = Some (t, r) -> height t = h ->
  naive_proof H (L ++ A) k = naive_proof H L k ++ g.
Proof.
  induction A as [|a A IH]; intros L h.
  - exists []. intros k t r _ _. rewrite !app_nil_r. reflexivity.
  - destruct (old_trees (forest_of L) 0%nat (Leaf hash a) (forest_wf L) I eq_refl h) as (T' & pre & F).
    destruct (IH (L ++ [a]) (height T')) as (g' & G).
    exists (rev pre ++ g'). intros k t r Lk Ht.
    destruct (F k t r Lk Ht) as (r' & L' & S').
    assert (FE : forest_of (L ++ [a]) = tinc (Leaf hash a) (forest_of L)) by (unfold Acc.forest_of; rewrite fold_left_app; reflexivity).
    replace (L ++ a :: A) with ((L ++ [a]) ++ A) by (rewrite <- app_assoc; reflexivity).
    rewrite (G k T' r' ltac:(rewrite FE; exact L') eq_refl).
    unfold naive_proof. rewrite FE, L', Lk. fold (tproof T' r'). fold (tproof t r). rewrite S', rev_app_distr, <- app_assoc. reflexivity.
Qed.
End Growth.
