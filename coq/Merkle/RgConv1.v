(* ConvertProofOrdering, part 1: the subtree lists of a single-leaf proof in a perfect tree, level by level. *)
From Coq Require Import List NArith Arith Bool Lia ZifyN ZifyNat ZifyBool.
From Sia Require Import Prim.Tok Merkle.Tree Merkle.Forest Merkle.Rhp Merkle.RhpProofs Merkle.RhpRoot.
From Sia Require Import Merkle.RgBits Merkle.RgLoops Merkle.RgFinal Merkle.RgGap Merkle.RgMulti Merkle.RgDiff3 Merkle.RgRpv2.
Import ListNotations.
Local Open Scope N_scope.

(* ---- bits ---- *)
Lemma top_bit a i : i < 2 ^ (a + 1) -> N.testbit i a = (2 ^ a <=? i).
Proof.
  intros B. rewrite N.testbit_eqb. rewrite N.pow_add_r, N.pow_1_r in B.
  assert (P : 0 < 2 ^ a) by (apply N.neq_0_lt_0, N.pow_nonzero; lia).
  destruct (N.leb_spec (2 ^ a) i) as [L|G].
  - assert (E : i / 2 ^ a = 1) by (symmetry; apply (N.div_unique i (2 ^ a) 1 (i - 2 ^ a)); lia). rewrite E. reflexivity.
  - rewrite N.div_small by lia. reflexivity.
Qed.
Lemma low_bits_sub a i b : 2 ^ a <= i -> i < 2 ^ (a + 1) -> b < a -> N.testbit (i - 2 ^ a) b = N.testbit i b.
Proof.
  intros L B Hb. rewrite N.pow_add_r, N.pow_1_r in B. rewrite <- (N.mod_pow2_bits_low i a b Hb).
  f_equal. apply (N.mod_unique i (2 ^ a) 1 (i - 2 ^ a)); lia.
Qed.

Section Conv1.
Variable H : bytes -> bytes.
Notation mroot := (Rhp.mroot H).
Notation range_subtrees := (Rhp.range_subtrees H).

(* next_subtree_size is translation invariant inside the right half of a perfect tree *)
Lemma nss_shift a x y : a < 63 -> x < y -> y <= 2 ^ a -> next_subtree_size (2 ^ a + x) (2 ^ a + y) = next_subtree_size x y.
Proof.
  intros Ha Hxy Hy. assert (P : 0 < 2 ^ a) by (apply N.neq_0_lt_0, N.pow_nonzero; lia).
  assert (B : 2 ^ a < 2 ^ 63) by (apply N.pow_lt_mono_r; lia). assert (B2 : (2:N) ^ 64 = 2 * 2 ^ 63) by reflexivity.
  destruct (nss_spec (2 ^ a + x) (2 ^ a + y) ltac:(lia) ltac:(lia)) as (h1 & E1 & _ & _ & _ & _ & M1).
  destruct (nss_spec x y Hxy ltac:(lia)) as (h2 & E2 & _ & _ & _ & _ & M2).
  rewrite E1, E2. f_equal. rewrite M1, M2. replace (2 ^ a + y - (2 ^ a + x)) with (y - x) by lia.
  destruct (N.eqb_spec (2 ^ a + x) 0); [lia|]. destruct (N.eqb_spec x 0) as [->|NZ].
  - rewrite N.add_0_r, ctz_pow2, N.sub_0_r. assert (N.log2 y <= a) by (rewrite <- (N.log2_pow2 a) by lia; apply N.log2_le_mono; lia). lia.
  - f_equal. destruct (ctz_spec x ltac:(lia)) as (q & Ex). set (t := ctz x) in *.
    assert (Pt : 0 < 2 ^ t) by (apply N.neq_0_lt_0, N.pow_nonzero; lia).
    assert (Ta : t < a). { destruct (N.lt_ge_cases t a) as [|G]; [assumption|]. exfalso. assert (2 ^ a <= 2 ^ t) by (apply N.pow_le_mono_r; lia). nia. }
    replace (2 ^ a + x) with (2 ^ t * (2 * (2 ^ (a - t - 1) + q) + 1)); [apply ctz_unique|].
    rewrite Ex. replace a with (t + (1 + (a - t - 1))) at 2 by lia. rewrite !N.pow_add_r, N.pow_1_r. lia.
Qed.

Lemma slice_app_right (L1 L2 : list hash) a x s : N.of_nat (length L1) = 2 ^ a -> slice (L1 ++ L2) (2 ^ a + x) s = slice L2 x s.
Proof.
  intros L. unfold slice. f_equal. replace (N.to_nat (2 ^ a + x)) with (length L1 + N.to_nat x)%nat by lia.
  rewrite skipn_app. rewrite skipn_all2 by lia. cbn [app]. f_equal. lia.
Qed.
Lemma skipn_add' {A} (l : list A) : forall a b, skipn (a + b) l = skipn b (skipn a l).
Proof. induction l as [|x l IH]; intros a b; [rewrite !skipn_nil; reflexivity|]. destruct a; [reflexivity|]. cbn [Nat.add skipn]. apply IH. Qed.

Lemma subtrees_shift (L1 L2 : list hash) a : N.of_nat (length L1) = 2 ^ a -> a < 63 -> forall f x y, y <= 2 ^ a ->
  range_subtrees f (L1 ++ L2) (2 ^ a + x) (2 ^ a + y) = range_subtrees f L2 x y.
Proof.
  intros L Ha. induction f as [|f IH]; intros x y Hy; cbn [Rhp.range_subtrees]; [reflexivity|].
  destruct (N.ltb_spec (2 ^ a + x) (2 ^ a + y)); destruct (N.ltb_spec x y); try lia; [|reflexivity].
  cbv zeta. rewrite (nss_shift a x y Ha) by lia. rewrite (slice_app_right L1 L2 a x _ L). f_equal.
  rewrite <- N.add_assoc. apply IH. exact Hy.
Qed.
Lemma slice_app_left (L1 L2 : list hash) x s : x + s <= N.of_nat (length L1) -> slice (L1 ++ L2) x s = slice L1 x s.
Proof.
  intros B. unfold slice. rewrite skipn_app. rewrite firstn_app. rewrite skipn_length.
  replace (N.to_nat s - (length L1 - N.to_nat x))%nat with 0%nat by lia. cbn [firstn]. rewrite app_nil_r. reflexivity.
Qed.
Lemma subtrees_low (L1 L2 : list hash) : forall f x y, y <= N.of_nat (length L1) -> y < 2 ^ 64 ->
  range_subtrees f (L1 ++ L2) x y = range_subtrees f L1 x y.
Proof.
  induction f as [|f IH]; intros x y Hy B; cbn [Rhp.range_subtrees]; [reflexivity|].
  destruct (N.ltb_spec x y) as [Lt|]; [|reflexivity]. cbv zeta. destruct (nss_spec x y Lt B) as (h & Es & _ & _ & Fit & _). rewrite Es.
  rewrite slice_app_left by lia. f_equal. apply IH; assumption.
Qed.

(* the right-hand part crossing the middle of a perfect tree: the subtrees up to the middle, then the whole right half *)
Lemma subtrees_cross (L1 L2 : list hash) a : N.of_nat (length L1) = 2 ^ a -> N.of_nat (length L2) = 2 ^ a -> a < 62 -> forall f x,
  0 < x -> x <= 2 ^ a -> (N.to_nat (phi x (2 ^ (a + 1))) <= f)%nat ->
  range_subtrees f (L1 ++ L2) x (2 ^ (a + 1)) = range_subtrees f L1 x (2 ^ a) ++ [mroot L2].
Proof.
  intros La Lb Ha. assert (P : 0 < 2 ^ a) by (apply N.neq_0_lt_0, N.pow_nonzero; lia).
  assert (E2 : 2 ^ (a + 1) = 2 * 2 ^ a) by (rewrite N.pow_add_r, N.pow_1_r; lia).
  assert (B : 2 ^ (a + 1) < 2 ^ 64) by (apply N.pow_lt_mono_r; lia).
  induction f as [|f IH]; intros x Hx Hxa En.
  - pose proof (phi_pos x (2 ^ (a + 1)) ltac:(lia) B). lia.
  - cbn [Rhp.range_subtrees]. destruct (N.ltb_spec x (2 ^ (a + 1))); [|lia]. cbv zeta.
    destruct (nss_pow2 (a + 1) x Hx ltac:(lia) ltac:(lia)) as [S1 F1]. rewrite S1.
    destruct (N.eq_dec x (2 ^ a)) as [->|Ne].
    + rewrite ctz_pow2. destruct (N.ltb_spec (2 ^ a) (2 ^ a)); [lia|]. cbn [app].
      replace (2 ^ a) with (2 ^ a + 0) at 1 by lia. rewrite (slice_app_right L1 L2 a 0 _ La).
      unfold slice. cbn [N.to_nat skipn]. rewrite firstn_all2 by lia. f_equal.
      rewrite subtrees_nil by lia. reflexivity.
    + destruct (N.ltb_spec x (2 ^ a)); [|lia]. destruct (nss_pow2 a x Hx ltac:(lia) ltac:(lia)) as [S2 F2]. rewrite S2.
      rewrite slice_app_left by lia. rewrite <- app_comm_cons. apply f_equal. apply IH; [lia | lia|].
      pose proof (phi_step x (2 ^ (a + 1)) ltac:(lia) B ltac:(rewrite S1; lia)) as Ps. rewrite S1 in Ps. lia.
Qed.

(* the left-hand part of an index in the right half: the whole left half, then the left-hand part inside the right half *)
Lemma subtrees_left_high (L1 L2 : list hash) a i : N.of_nat (length L1) = 2 ^ a -> a < 62 -> 2 ^ a <= i -> i < 2 ^ (a + 1) -> forall f,
  range_subtrees (S f) (L1 ++ L2) 0 i = mroot L1 :: range_subtrees f L2 0 (i - 2 ^ a).
Proof.
  intros La Ha Li Bi f. assert (P : 0 < 2 ^ a) by (apply N.neq_0_lt_0, N.pow_nonzero; lia).
  assert (E2 : 2 ^ (a + 1) = 2 * 2 ^ a) by (rewrite N.pow_add_r, N.pow_1_r; lia).
  assert (B : 2 ^ (a + 1) < 2 ^ 64) by (apply N.pow_lt_mono_r; lia).
  cbn [Rhp.range_subtrees]. destruct (N.ltb_spec 0 i); [|lia]. cbv zeta.
  destruct (nss_spec 0 i ltac:(lia) ltac:(lia)) as (h & Es & _ & _ & _ & _ & M). rewrite Es. cbn [N.eqb] in M. rewrite N.sub_0_r in M.
  assert (Lg : N.log2 i = a) by (apply (N.log2_unique' i a (i - 2 ^ a)); lia). rewrite Lg in M. assert (h = a) by lia. clear M. subst h.
  rewrite slice_app_left by (rewrite La; clear; lia). unfold slice at 1. cbn [N.to_nat skipn]. rewrite firstn_all2 by (clear - La; lia). f_equal.
  rewrite N.add_0_l. replace i with (2 ^ a + (i - 2 ^ a)) at 1 by lia. replace (2 ^ a) with (2 ^ a + 0) at 1 by lia.
  apply (subtrees_shift L1 L2 a La ltac:(lia)). lia.
Qed.
End Conv1.
