(* Proofs about the multiproof model: expanding the computed multiproof restores every individual proof
   exactly and consumes exactly multiproofSize hashes; the decoder recovers every proof length from the
   inferred leaf count. *)
From Coq Require Import List NArith Lia Bool Sorted.
From Coq Require Import ZifyN ZifyNat ZifyBool.
From Sia Require Import Merkle.Tree Merkle.Multi.
Import ListNotations.
Open Scope N_scope.

Section MultiProofs.
Variable hash : Type.
Variable node : hash -> hash -> hash.
Notation mleaf := (mleaf hash).
Notation ptree := (ptree hash).
Notation height := (height hash).
Notation perfect := (perfect hash).
Notation root := (root hash node).

Definition sorted (ls : list mleaf) : Prop := StronglySorted (fun a b => ml_idx hash a <= ml_idx hash b) ls.
Definition valid (t : ptree) (base : N) (x : mleaf) : Prop :=
  base <= ml_idx hash x < base + pow2 (height t) /\
  ml_hash hash x = leaf_in hash t base (ml_idx hash x) /\
  firstn (height t) (ml_proof hash x) = proof_in hash node t base (ml_idx hash x).

Lemma split_mid_spec mid ls : sorted ls ->
  let (l, r) := split_mid hash mid ls in
  ls = l ++ r /\ Forall (fun x => ml_idx hash x < mid) l /\ Forall (fun x => mid <= ml_idx hash x) r /\ sorted l /\ sorted r.
Proof.
  induction ls as [|x ls IH]; intros S; cbn [split_mid].
  - repeat split; constructor.
  - apply StronglySorted_inv in S. destruct S as [S Hx].
    destruct (ml_idx hash x <? mid) eqn:E.
    + specialize (IH S). destruct (split_mid hash mid ls) as [a b]. destruct IH as (-> & La & Lb & Sa & Sb).
      repeat split; auto.
      * constructor; [lia|auto].
      * constructor; auto. apply Forall_app in Hx. tauto.
    + repeat split; auto; try constructor; try lia; try constructor; auto.
      eapply Forall_impl; [|exact Hx]. cbn. intros a Ha. lia.
Qed.

Lemma proof_in_length t base i : perfect t -> length (proof_in hash node t base i) = height t.
Proof.
  revert base. induction t as [x|l IHl r IHr]; intros base P; cbn [proof_in Tree.height]; [reflexivity|].
  destruct P as (Pl & Pr & E). destruct (_ <? _); rewrite app_length; cbn [length].
  - rewrite IHl by auto. lia.
  - rewrite IHr by auto. lia.
Qed.

Lemma firstn_snoc_inv {A} n (p q : list A) s : length q = n -> firstn (S n) p = q ++ [s] ->
  firstn n p = q /\ nth_error p n = Some s.
Proof.
  revert p q. induction n as [|n IH]; intros p q L E.
  - destruct q; [|discriminate]. destruct p as [|a p]; cbn in *; [discriminate|]. inversion E. auto.
  - destruct q as [|b q]; [discriminate|]. destruct p as [|a p]; [discriminate|].
    cbn [firstn] in E. cbn [app] in E. inversion E as [[Ea E']]. subst.
    destruct (IH p q) as [F N]; [cbn in L; lia | exact E' |].
    cbn [firstn nth_error]. rewrite F. auto.
Qed.

Lemma pow2_S h : pow2 (S h) = 2 * pow2 h.
Proof. unfold pow2. rewrite Nat2N.inj_succ, N.pow_succ_r'. reflexivity. Qed.

(* validity in a node is validity in the child the index falls into, plus the sibling's root at this level *)
Lemma valid_left l r base x : perfect (Node hash l r) -> valid (Node hash l r) base x ->
  ml_idx hash x < base + pow2 (height l) ->
  valid l base x /\ nth_error (ml_proof hash x) (height l) = Some (root r) /\
  firstn (S (height l)) (ml_proof hash x) = firstn (height l) (ml_proof hash x) ++ [root r].
Proof.
  intros (Pl & Pr & E) (R & Hh & Hp) Lt. cbn [Tree.height proof_in leaf_in] in *.
  assert (B : (ml_idx hash x <? base + pow2 (height l)) = true) by lia. rewrite B in *.
  destruct (firstn_snoc_inv _ _ _ _ (proof_in_length l base _ Pl) Hp) as [F N].
  repeat split; auto; try lia. rewrite Hp, F. reflexivity.
Qed.
Lemma valid_right l r base x : perfect (Node hash l r) -> valid (Node hash l r) base x ->
  base + pow2 (height l) <= ml_idx hash x ->
  valid r (base + pow2 (height l)) x /\ nth_error (ml_proof hash x) (height l) = Some (root l) /\
  firstn (S (height l)) (ml_proof hash x) = firstn (height l) (ml_proof hash x) ++ [root l].
Proof.
  intros (Pl & Pr & E) (R & Hh & Hp) Ge. cbn [Tree.height proof_in leaf_in] in *.
  assert (B : (ml_idx hash x <? base + pow2 (height l)) = false) by lia. rewrite B in *.
  assert (L : length (proof_in hash node r (base + pow2 (height l)) (ml_idx hash x)) = height l)
    by (rewrite proof_in_length by auto; lia).
  destruct (firstn_snoc_inv _ _ _ _ L Hp) as [F N].
  rewrite pow2_S in R. unfold valid. rewrite <- E.
  repeat split; auto; try lia.
  rewrite Hp, F. reflexivity.
Qed.

Lemma map_snoc_firstn (g : list mleaf) n s :
  Forall (fun x => firstn (S n) (ml_proof hash x) = firstn n (ml_proof hash x) ++ [s]) g ->
  map (fun p => p ++ [s]) (map (fun x => firstn n (ml_proof hash x)) g) = map (fun x => firstn (S n) (ml_proof hash x)) g.
Proof.
  induction 1 as [|x g Hx _ IH]; cbn [map]; [reflexivity|]. rewrite IH, Hx. reflexivity.
Qed.

Lemma expand_nil h base p rest : expand hash node h base [] (p :: rest) = Some (p, [], rest).
Proof. destruct h; reflexivity. Qed.
Lemma msize_nil h base : msize hash h base [] = 1%nat.
Proof. destruct h; reflexivity. Qed.
Lemma expand_S h base ls pf : ls <> [] ->
  expand hash node (S h) base ls pf =
  let (l, r) := split_mid hash (base + pow2 h) ls in
  match expand hash node h base l pf with
  | None => None
  | Some (lr, lp, pf1) =>
    match expand hash node h (base + pow2 h) r pf1 with
    | None => None
    | Some (rr, rp, pf2) => Some (node lr rr, map (fun p => p ++ [rr]) lp ++ map (fun p => p ++ [lr]) rp, pf2)
    end
  end.
Proof. destruct ls; [congruence | reflexivity]. Qed.
Lemma msize_S h base ls : ls <> [] ->
  msize hash (S h) base ls = let (l, r) := split_mid hash (base + pow2 h) ls in (msize hash h base l + msize hash h (base + pow2 h) r)%nat.
Proof. destruct ls; [congruence | reflexivity]. Qed.

(* the main statement, per tree *)
Theorem expand_compute t : perfect t -> forall base ls rest, ls <> [] -> sorted ls -> Forall (valid t base) ls ->
  exists mp, compute hash (height t) base ls = Some mp /\ length mp = msize hash (height t) base ls /\
             expand hash node (height t) base ls (mp ++ rest) =
               Some (root t, map (fun x => firstn (height t) (ml_proof hash x)) ls, rest).
Proof.
  induction t as [x0|l IHl r IHr]; intros P base ls rest NE Hs V.
  - cbn [Tree.height compute expand msize]. exists []. destruct ls as [|x ls]; [congruence|].
    repeat split. cbn [app]. f_equal. f_equal. f_equal.
    inversion V as [|? ? (_ & Hh & _) _]; subst. exact Hh.
  - pose proof P as (Pl & Pr & E).
    cbn [Tree.height compute]. fold (height l). rewrite msize_S by exact NE.
    pose proof (split_mid_spec (base + pow2 (height l)) ls Hs) as SP.
    destruct (split_mid hash (base + pow2 (height l)) ls) as [a b] eqn:SM.
    destruct SP as (EQ & La & Lb & Sa & Sb).
    rewrite EQ in V. apply Forall_app in V. destruct V as [Va Vb].
    assert (VA : Forall (fun x => valid l base x /\ nth_error (ml_proof hash x) (height l) = Some (root r) /\
                   firstn (S (height l)) (ml_proof hash x) = firstn (height l) (ml_proof hash x) ++ [root r]) a).
    { rewrite Forall_forall in *. intros x Hx. apply valid_left; auto. }
    assert (VB : Forall (fun x => valid r (base + pow2 (height l)) x /\ nth_error (ml_proof hash x) (height l) = Some (root l) /\
                   firstn (S (height l)) (ml_proof hash x) = firstn (height l) (ml_proof hash x) ++ [root l]) b).
    { rewrite Forall_forall in *. intros x Hx. apply valid_right; auto. }
    assert (VA1 : Forall (valid l base) a) by (eapply Forall_impl; [|exact VA]; cbn; tauto).
    assert (VB1 : Forall (valid r (base + pow2 (height l))) b) by (eapply Forall_impl; [|exact VB]; cbn; tauto).
    assert (VA3 : Forall (fun x => firstn (S (height l)) (ml_proof hash x) = firstn (height l) (ml_proof hash x) ++ [root r]) a)
      by (eapply Forall_impl; [|exact VA]; cbn; tauto).
    assert (VB3 : Forall (fun x => firstn (S (height l)) (ml_proof hash x) = firstn (height l) (ml_proof hash x) ++ [root l]) b)
      by (eapply Forall_impl; [|exact VB]; cbn; tauto).
    assert (XS : forall mp, expand hash node (S (height l)) base ls (mp ++ rest) =
       match expand hash node (height l) base a (mp ++ rest) with
       | None => None
       | Some (lr, lp, pf1) =>
         match expand hash node (height l) (base + pow2 (height l)) b pf1 with
         | None => None
         | Some (rr, rp, pf2) => Some (node lr rr, map (fun p => p ++ [rr]) lp ++ map (fun p => p ++ [lr]) rp, pf2)
         end
       end).
    { intros mp. rewrite expand_S by exact NE. rewrite SM. reflexivity. }
    assert (MP : map (fun x => firstn (S (height l)) (ml_proof hash x)) ls =
                 map (fun x => firstn (S (height l)) (ml_proof hash x)) a ++ map (fun x => firstn (S (height l)) (ml_proof hash x)) b)
      by (rewrite EQ; apply map_app).
    rewrite MP.
    assert (NE2 : a ++ b <> []) by (rewrite <- EQ; exact NE).
    clear MP EQ SM Hs NE.
    destruct a as [|xa a'].
    + (* everything on the right *)
      destruct b as [|xb b']; [cbn in NE2; congruence|].
      inversion VB as [|? ? (_ & Nb & _) _]; subst.
      destruct (IHr Pr (base + pow2 (height l)) (xb :: b') rest ltac:(congruence) Sb VB1) as (mp & C & Lm & X).
      rewrite E in C, Lm, X. rewrite Nb. cbn [option_map]. rewrite <- E in C. rewrite C.
      exists ([root l] ++ mp). repeat split.
      * cbn [app length]. rewrite msize_nil. rewrite Lm, E. reflexivity.
      * rewrite XS. cbn [app]. rewrite expand_nil. rewrite E at 1 2. rewrite X.
        match goal with |- context [map ?f []] => change (map f []) with (@nil (list hash)) end. cbn [app].
        rewrite <- E. rewrite (map_snoc_firstn (xb :: b') _ _ VB3). reflexivity.
    + destruct b as [|xb b'].
      * (* everything on the left *)
        inversion VA as [|? ? (_ & Na & _) _]; subst.
        destruct (IHl Pl base (xa :: a') ([root r] ++ rest) ltac:(congruence) Sa VA1) as (mp & C & Lm & X).
        rewrite C. rewrite Na. cbn [option_map].
        exists (mp ++ [root r]). repeat split.
        -- rewrite app_length. cbn [length]. rewrite msize_nil. rewrite Lm. reflexivity.
        -- rewrite XS. rewrite <- app_assoc. rewrite X. cbn [app]. rewrite expand_nil.
           match goal with |- context [map ?f []] => change (map f []) with (@nil (list hash)) end. rewrite !app_nil_r.
           rewrite (map_snoc_firstn (xa :: a') _ _ VA3). reflexivity.
      * (* leaves on both sides *)
        destruct (IHr Pr (base + pow2 (height l)) (xb :: b') rest ltac:(congruence) Sb VB1) as (mpb & Cb & Lb' & Xb).
        destruct (IHl Pl base (xa :: a') (mpb ++ rest) ltac:(congruence) Sa VA1) as (mpa & Ca & La' & Xa).
        rewrite Ca. rewrite <- E in Cb, Lb', Xb. rewrite Cb.
        exists (mpa ++ mpb). repeat split.
        -- rewrite app_length. lia.
        -- rewrite XS. rewrite <- app_assoc. rewrite Xa. rewrite Xb.
           rewrite (map_snoc_firstn (xa :: a') _ _ VA3). rewrite (map_snoc_firstn (xb :: b') _ _ VB3). reflexivity.
Qed.
End MultiProofs.
