(* Bit facts behind rhp/v2 nextSubtreeSize: trailing zeros, alignment, powers of two. *)
From Coq Require Import List NArith Arith Bool Lia ZifyN ZifyNat ZifyBool.
From Sia Require Import Prim.Tok Merkle.Rhp.
Import ListNotations.
Local Open Scope N_scope.

(* number of trailing zero bits *)
Fixpoint ctz_pos (p : positive) : N := match p with xO q => 1 + ctz_pos q | _ => 0 end.
Definition ctz (x : N) : N := match x with N0 => 64 | Npos p => ctz_pos p end.

Lemma ctz_pos_spec p : exists q, Npos p = 2 ^ ctz_pos p * (2 * q + 1).
Proof.
  induction p as [p IH|p IH|]; cbn [ctz_pos].
  - exists (Npos p). cbn. lia.
  - destruct IH as (q & E). exists q. rewrite N.pow_add_r. change (2 ^ 1) with 2. rewrite <- N.mul_assoc, <- E. lia.
  - exists 0. reflexivity.
Qed.
Lemma ctz_spec x : 0 < x -> exists q, x = 2 ^ ctz x * (2 * q + 1).
Proof. destruct x as [|p]; [lia|]. intros _. apply ctz_pos_spec. Qed.
Lemma ctz_unique t q : ctz (2 ^ t * (2 * q + 1)) = t.
Proof.
  destruct (2 ^ t * (2 * q + 1)) as [|p] eqn:E.
  - assert (0 < 2 ^ t) by (apply N.neq_0_lt_0, N.pow_nonzero; lia). lia.
  - cbn [ctz]. destruct (ctz_pos_spec p) as (q' & E'). rewrite E' in E. set (a := ctz_pos p) in *. clearbody a.
    (* 2^a (2q'+1) = 2^t (2q+1): compare the powers *)
    destruct (N.lt_trichotomy a t) as [L|[->|G]]; [exfalso| reflexivity |exfalso].
    + replace t with (a + (t - a)) in E by lia. rewrite N.pow_add_r in E.
      assert (P : 0 < 2 ^ a) by (apply N.neq_0_lt_0, N.pow_nonzero; lia).
      assert (E2 : 2 * q' + 1 = 2 ^ (t - a) * (2 * q + 1)) by nia.
      replace (t - a) with (N.succ (t - a - 1)) in E2 by lia. rewrite N.pow_succ_r' in E2. lia.
    + replace a with (t + (a - t)) in E by lia. rewrite N.pow_add_r in E.
      assert (P : 0 < 2 ^ t) by (apply N.neq_0_lt_0, N.pow_nonzero; lia).
      assert (E2 : 2 ^ (a - t) * (2 * q' + 1) = 2 * q + 1) by nia.
      replace (a - t) with (N.succ (a - t - 1)) in E2 by lia. rewrite N.pow_succ_r' in E2. lia.
Qed.
Lemma ctz_pow2 h : ctz (2 ^ h) = h.
Proof. replace (2 ^ h) with (2 ^ h * (2 * 0 + 1)) by lia. apply ctz_unique. Qed.
Lemma ctz_bound x : 0 < x < 2 ^ 64 -> ctz x < 64.
Proof.
  intros Hx. destruct (ctz_spec x ltac:(lia)) as (q & E). destruct (N.lt_ge_cases (ctz x) 64) as [|G]; [assumption|]. exfalso.
  assert (2 ^ 64 <= 2 ^ ctz x) by (apply N.pow_le_mono_r; lia). nia.
Qed.
(* ctz is the largest power of two dividing x *)
Lemma ctz_divides x h : 0 < x -> (exists k, x = k * 2 ^ h) -> h <= ctz x.
Proof.
  intros Hx (k & E). destruct (ctz_spec x Hx) as (q & E'). set (t := ctz x) in *. clearbody t.
  destruct (N.le_gt_cases h t) as [|G]; [assumption|]. exfalso.
  replace h with (t + (h - t)) in E by lia. rewrite N.pow_add_r in E.
  assert (P : 0 < 2 ^ t) by (apply N.neq_0_lt_0, N.pow_nonzero; lia).
  assert (E2 : 2 * q + 1 = k * 2 ^ (h - t)) by nia.
  replace (h - t) with (N.succ (h - t - 1)) in E2 by lia. rewrite N.pow_succ_r' in E2. lia.
Qed.

(* the model's tz64 (lowest set bit isolated by x & -x) is ctz *)
Lemma ldiff_small q k : q < 2 ^ k -> N.ldiff q (N.ones k) = 0.
Proof.
  intros Hq. apply N.bits_inj. intros i. rewrite N.ldiff_spec, N.bits_0.
  destruct (N.lt_ge_cases i k) as [L|G].
  - rewrite N.ones_spec_low by lia. apply andb_false_r.
  - destruct (N.eq_dec q 0) as [->|NZ]; [rewrite N.bits_0; reflexivity|].
    rewrite (N.bits_above_log2 q i); [reflexivity|]. assert (N.log2 q < k) by (apply N.log2_lt_pow2; lia). lia.
Qed.
Lemma land_complement q k : q < 2 ^ k -> N.land q (N.ones k - q) = 0.
Proof.
  intros Hq. rewrite (N.sub_nocarry_ldiff (N.ones k) q (ldiff_small q k Hq)). rewrite N.land_comm. apply N.land_ldiff.
Qed.
Lemma tz64_ctz x : 0 < x < 2 ^ 64 -> tz64 x = ctz x.
Proof.
  intros Hx. unfold tz64. destruct (N.eqb_spec x 0); [lia|].
  destruct (ctz_spec x ltac:(lia)) as (q & E). pose proof (ctz_bound x Hx) as Bt. set (t := ctz x) in *. clearbody t.
  assert (P : 0 < 2 ^ t) by (apply N.neq_0_lt_0, N.pow_nonzero; lia).
  set (k := 63 - t). assert (Pk : 2 ^ 64 = 2 ^ t * (2 * 2 ^ k)) by (unfold k; rewrite <- N.pow_succ_r', <- N.pow_add_r; f_equal; lia).
  assert (Hq : q < 2 ^ k) by nia.
  set (q' := N.ones k - q). assert (Hq' : q + q' = 2 ^ k - 1) by (unfold q'; rewrite N.ones_equiv; lia).
  assert (Wx : Rhp.W - x = 2 ^ t * (2 * q' + 1)) by (unfold Rhp.W; rewrite Pk, E; nia).
  rewrite Wx, E. rewrite !(N.mul_comm (2 ^ t)), <- !N.shiftl_mul_pow2, <- N.shiftl_land.
  assert (L1 : N.land (2 * q + 1) (2 * q' + 1) = 1).
  { apply N.bits_inj. intros i. rewrite N.land_spec. destruct (N.eq_dec i 0) as [->|Ni].
    - rewrite !N.testbit_odd_0. reflexivity.
    - replace i with (N.succ (N.pred i)) by lia. rewrite !N.testbit_odd_succ by lia. rewrite <- N.land_spec.
      unfold q'. rewrite land_complement by exact Hq. rewrite N.bits_0. change 1 with (2 * 0 + 1). rewrite N.testbit_odd_succ by lia. rewrite N.bits_0. reflexivity. }
  rewrite L1, N.shiftl_mul_pow2, N.mul_1_l. apply N.log2_pow2. lia.
Qed.

(* ---- nextSubtreeSize ---- *)
Lemma nss_spec i j : i < j -> j < 2 ^ 64 ->
  exists h, next_subtree_size i j = 2 ^ h /\ h < 64 /\ (exists k, i = k * 2 ^ h) /\ i + 2 ^ h <= j /\ tz64 (2 ^ h) = h /\
            h = N.min (if i =? 0 then 64 else ctz i) (N.log2 (j - i)).
Proof.
  intros Hij Hj. unfold next_subtree_size, bitlen. destruct (N.eqb_spec (j - i) 0) as [|_]; [lia|].
  replace (N.log2 (j - i) + 1 - 1) with (N.log2 (j - i)) by lia. set (m := N.log2 (j - i)).
  pose proof (N.log2_spec (j - i) ltac:(lia)) as [M1 M2]. fold m in M1, M2.
  assert (Hm : m < 64). { apply N.log2_lt_pow2; lia. }
  assert (TZ : tz64 i = if i =? 0 then 64 else ctz i).
  { destruct (N.eqb_spec i 0) as [->|NZ]; [reflexivity | apply tz64_ctz; lia]. }
  rewrite TZ. set (t := if i =? 0 then 64 else ctz i).
  assert (Pow : forall h, h < 64 -> tz64 (2 ^ h) = h).
  { intros h Hh. assert (0 < 2 ^ h < 2 ^ 64) by (split; [apply N.neq_0_lt_0, N.pow_nonzero; lia | apply N.pow_lt_mono_r; lia]).
    rewrite tz64_ctz by assumption. apply ctz_pow2. }
  assert (Div : forall h, h <= t -> exists k, i = k * 2 ^ h).
  { intros h Hh. unfold t in Hh. destruct (N.eqb_spec i 0) as [->|NZ]; [exists 0; lia|].
    destruct (ctz_spec i ltac:(lia)) as (q & E). exists ((2 * q + 1) * 2 ^ (ctz i - h)).
    rewrite <- N.mul_assoc, <- N.pow_add_r. replace (ctz i - h + h) with (ctz i) by lia. lia. }
  destruct (N.ltb_spec m t) as [L|G].
  - exists m. split; [reflexivity|]. split; [exact Hm|]. split; [apply Div; lia|]. split; [lia|]. split; [apply Pow; exact Hm|]. lia.
  - assert (Ht : t < 64) by lia. assert (2 ^ t <= 2 ^ m) by (apply N.pow_le_mono_r; lia).
    exists t. split; [reflexivity|]. split; [exact Ht|]. split; [apply Div; lia|]. split; [lia|]. split; [apply Pow; exact Ht|]. lia.
Qed.
