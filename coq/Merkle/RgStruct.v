(* Structure behind RHP range proofs: subtree roots inserted into the proof accumulator at aligned positions keep it a
   forest over a prefix of the leaves. *)
From Coq Require Import List NArith Arith Bool Lia.
From Sia Require Import Prim.Tok Merkle.Tree Merkle.Forest Merkle.Rhp Merkle.RhpProofs Merkle.RhpRoot.
Import ListNotations.

Section RStruct.
Variable H : bytes -> bytes.
Notation node := (Rhp.node H).
Notation mroot := (Rhp.mroot H).
Notation ptree := (ptree hash).
Notation root := (root hash node).
Notation perfect := (perfect hash).
Notation height := (height hash).
Notation leaves := (leaves hash).
Notation all_leaves := (all_leaves hash).
Notation wf_from := (wf_from hash).
Notation tinc := (tinc hash).
Notation roots_of := (roots_of hash node).
Notation value := (value hash).

(* every list of 2^h hashes is the leaf list of a perfect tree of height h *)
Lemma perfect_of_list h : forall l : list hash, length l = (2 ^ h)%nat -> exists t, perfect t /\ height t = h /\ leaves t = l.
Proof.
  induction h as [|h IH]; intros l Hl.
  - destruct l as [|x [|y r]]; cbn in Hl; try lia. exists (Leaf hash x). repeat split.
  - rewrite Nat.pow_succ_r' in Hl. assert (P : (0 < 2 ^ h)%nat) by (apply Nat.neq_0_lt_0, Nat.pow_nonzero; lia).
    destruct (IH (firstn (2 ^ h) l) ltac:(rewrite firstn_length; lia)) as (t1 & P1 & H1 & L1).
    destruct (IH (skipn (2 ^ h) l) ltac:(rewrite skipn_length; lia)) as (t2 & P2 & H2 & L2).
    exists (Node hash t1 t2). cbn. repeat split; auto; try lia. rewrite L1, L2. apply firstn_skipn.
Qed.

(* inserting a tree at digit h of the forest *)
Fixpoint tins (t : ptree) (h : nat) (ts : tdigits hash) : tdigits hash :=
  match h with
  | O => tinc t ts
  | S k => match ts with [] => None :: tins t k [] | d :: r => d :: tins t k r end
  end.

Lemma value_mult lv ds : exists q, value lv ds = (q * 2 ^ lv)%nat.
Proof.
  revert lv. induction ds as [|[r|] ds IH]; intros lv; cbn [Forest.value].
  - exists 0%nat. lia.
  - destruct (IH (S lv)) as (q & E). rewrite E, Nat.pow_succ_r'. exists (2 * q + 1)%nat. lia.
  - destruct (IH (S lv)) as (q & E). rewrite E, Nat.pow_succ_r'. exists (2 * q)%nat. lia.
Qed.

Lemma tins_spec h : forall lv ts t, wf_from lv ts -> (exists k, value lv (roots_of ts) = k * 2 ^ (lv + h))%nat ->
  perfect t -> height t = (lv + h)%nat ->
  wf_from lv (tins t h ts) /\ all_leaves (tins t h ts) = all_leaves ts ++ leaves t /\
  roots_of (tins t h ts) = insert_node H (root t) h (roots_of ts).
Proof.
  induction h as [|h IH]; intros lv ts t W Dv Pt Ht.
  - rewrite Nat.add_0_r in Ht. cbn [tins insert_node]. split; [apply tinc_wf; assumption|]. split; [apply tinc_leaves|].
    rewrite carry_inc. apply tinc_roots.
  - destruct ts as [|d r]; cbn [tins roots_of map insert_node].
    + destruct (IH (S lv) [] t I ltac:(exists 0%nat; reflexivity) Pt ltac:(lia)) as (A & B & C).
      cbn [Forest.wf_from Forest.all_leaves option_map]. split; [exact A|]. split; [exact B|]. f_equal. exact C.
    + destruct d as [t0|].
      * (* a tree at this digit contradicts the alignment *)
        exfalso. unfold Forest.roots_of in *. cbn [Forest.wf_from map option_map Forest.value] in *. destruct Dv as (k & E).
        destruct (value_mult (S lv) (map (option_map root) r)) as (q & Eq). rewrite Eq in E.
        replace (lv + S h)%nat with (S lv + h)%nat in E by lia. rewrite Nat.pow_add_r, Nat.pow_succ_r' in E.
        assert (P : (0 < 2 ^ lv)%nat) by (apply Nat.neq_0_lt_0, Nat.pow_nonzero; lia).
        assert (2 ^ lv * (1 + 2 * q) = 2 ^ lv * (2 * (k * 2 ^ h)))%nat by lia.
        apply Nat.mul_cancel_l in H0; lia.
      * unfold Forest.roots_of in *. cbn [Forest.wf_from map option_map Forest.value Forest.all_leaves] in *.
        destruct (IH (S lv) r t W ltac:(destruct Dv as (k & E); exists k; rewrite E; f_equal; f_equal; lia) Pt ltac:(lia)) as (A & B & C).
        split; [exact A|]. split; [exact B|]. f_equal. exact C.
Qed.

(* on the representation invariant: an aligned subtree of 2^h leaves, given by its plain root *)
Theorem insert_aligned L ds h (l : list hash) : Repr hash node L ds -> (exists k, length L = k * 2 ^ h)%nat -> length l = (2 ^ h)%nat ->
  Repr hash node (L ++ l) (insert_node H (mroot l) h ds).
Proof.
  intros (ts & W & EL & ER) Dv Hl. destruct (perfect_of_list h l Hl) as (t & Pt & Ht & Lt).
  assert (Dv' : (exists k, value 0 (roots_of ts) = k * 2 ^ (0 + h))%nat).
  { destruct Dv as (k & E). exists k. rewrite <- (wf_value hash node 0 ts W), EL. exact E. }
  destruct (tins_spec h 0%nat ts t W Dv' Pt ltac:(lia)) as (A & B & C).
  exists (tins t h ts). split; [exact A|]. split; [rewrite B, EL, Lt; reflexivity|].
  rewrite C, ER. rewrite <- Lt, (perfect_root H t Pt). reflexivity.
Qed.
End RStruct.
