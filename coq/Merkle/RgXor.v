(* bitlen (a xor b) is the least k with a / 2^k = b / 2^k; the verifier's mask formula as arithmetic *)
From Coq Require Import List NArith Arith Bool Lia ZifyN ZifyNat ZifyBool.
From Sia Require Import Prim.Tok Merkle.Rhp.
From Sia Require Import Merkle.RgBits Merkle.RgCount.
Import ListNotations.
Local Open Scope N_scope.

Lemma div_pow_mono a b d k : d <= k -> a / 2 ^ d = b / 2 ^ d -> a / 2 ^ k = b / 2 ^ k.
Proof.
  intros Hk E. replace k with (d + (k - d)) by lia. rewrite N.pow_add_r, <- !N.div_div by (apply N.pow_nonzero; lia). rewrite E. reflexivity.
Qed.
Lemma shiftr_xor a b k : N.lxor a b / 2 ^ k = N.lxor (a / 2 ^ k) (b / 2 ^ k).
Proof. rewrite <- !N.shiftr_div_pow2. apply N.shiftr_lxor. Qed.

Lemma bitlen_xor_char a b d : a / 2 ^ d = b / 2 ^ d -> (d = 0 \/ a / 2 ^ (d - 1) <> b / 2 ^ (d - 1)) -> bitlen (N.lxor a b) = d.
Proof.
  intros E NE. unfold bitlen.
  assert (Hi : N.lxor a b < 2 ^ d).
  { assert (Z : N.lxor a b / 2 ^ d = 0) by (rewrite shiftr_xor, E; apply N.lxor_nilpotent).
    apply N.div_small_iff in Z; [exact Z | apply N.pow_nonzero; lia]. }
  destruct NE as [->|NE].
  - assert (N.lxor a b = 0) by (cbn in Hi; lia). rewrite H. reflexivity.
  - assert (D1 : 0 < d). { destruct (N.eq_dec d 0) as [->|]; [exfalso; apply NE; exact E | lia]. }
    assert (Lo : 2 ^ (d - 1) <= N.lxor a b).
    { destruct (N.le_gt_cases (2 ^ (d - 1)) (N.lxor a b)) as [|G]; [assumption|]. exfalso. apply NE.
      assert (Z : N.lxor a b / 2 ^ (d - 1) = 0) by (apply N.div_small; exact G). rewrite shiftr_xor in Z. apply (proj1 (N.lxor_eq_0_iff _ _)) in Z. exact Z. }
    assert (P : 0 < 2 ^ (d - 1)) by (apply N.neq_0_lt_0, N.pow_nonzero; lia).
    destruct (N.eqb_spec (N.lxor a b) 0); [lia|].
    assert (N.log2 (N.lxor a b) = d - 1). { apply N.log2_unique; [lia|]. replace (N.succ (d - 1)) with d by lia. lia. }
    lia.
Qed.

Lemma bitlen_xor_spec a b : a <> b -> let d := bitlen (N.lxor a b) in 1 <= d /\ a / 2 ^ d = b / 2 ^ d /\ a / 2 ^ (d - 1) <> b / 2 ^ (d - 1).
Proof.
  intros Hab. cbv zeta. unfold bitlen. assert (NZ : N.lxor a b <> 0) by (intros Z; apply (proj1 (N.lxor_eq_0_iff _ _)) in Z; contradiction).
  destruct (N.eqb_spec (N.lxor a b) 0); [contradiction|]. set (l := N.log2 (N.lxor a b)).
  pose proof (N.log2_spec (N.lxor a b) ltac:(lia)) as [L1 L2]. fold l in L1, L2.
  replace (l + 1 - 1) with l by lia. split; [lia|]. split.
  - assert (Z : N.lxor a b / 2 ^ (l + 1) = 0) by (apply N.div_small; rewrite N.add_1_r; exact L2).
    rewrite shiftr_xor in Z. apply (proj1 (N.lxor_eq_0_iff _ _)) in Z. exact Z.
  - intros E. assert (Z : N.lxor a b / 2 ^ l = 0) by (rewrite shiftr_xor, E; apply N.lxor_nilpotent).
    apply N.div_small_iff in Z; [lia | apply N.pow_nonzero; lia].
Qed.

(* the mask expression: the complement of the low d bits of e *)
Lemma mask_value e d : e < 2 ^ 64 -> d <= 64 ->
  N.land (N.ldiff (Rhp.W - 1) e) (2 ^ d - 1) = 2 ^ d - 1 - e mod 2 ^ d.
Proof.
  intros He Hd. change (Rhp.W - 1) with (N.ones 64). replace (2 ^ d - 1) with (N.ones d) at 1 by (rewrite N.ones_equiv; lia).
  rewrite N.land_ones. rewrite <- (N.sub_nocarry_ldiff (N.ones 64) e (ldiff_small e 64 He)).
  rewrite N.ones_equiv. assert (P : 0 < 2 ^ d) by (apply N.neq_0_lt_0, N.pow_nonzero; lia).
  assert (S : 2 ^ 64 = 2 ^ d * 2 ^ (64 - d)) by (rewrite <- N.pow_add_r; f_equal; lia).
  pose proof (N.div_mod e (2 ^ d) ltac:(lia)) as DM. pose proof (N.mod_lt e (2 ^ d) ltac:(lia)) as ML.
  assert (Q : e / 2 ^ d < 2 ^ (64 - d)). { apply N.div_lt_upper_bound; [lia|]. rewrite <- S. exact He. }
  replace (N.pred (2 ^ 64) - e) with ((2 ^ d - 1 - e mod 2 ^ d) + (2 ^ (64 - d) - 1 - e / 2 ^ d) * 2 ^ d) by nia.
  rewrite N.mod_add by lia. apply N.mod_small. lia.
Qed.
