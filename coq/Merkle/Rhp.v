(* RHP Merkle trees (rhp/v2/merkle.go, rhp/v4/merkle.go): the plainly defined tree [mroot], the
   proof accumulator, range/append/diff proofs. Executable, mirrors the Go loops; loops that run
   "while i < j" carry explicit fuel (at most 128 subtrees cover any 64-bit range). *)
From Coq Require Import List NArith Arith Bool Lia.
From Sia Require Import Prim.Tok.
Import ListNotations.
Open Scope N_scope.

Section Rhp.
Variable H : bytes -> bytes.
Definition hash := bytes.
Definition node (l r : hash) : hash := H (1 :: l ++ r).
Definition leafh (d : bytes) : hash := H (0 :: d).
Definition zero_hash : hash := repeat 0 32.
Definition hash_eqb (a b : hash) : bool := if list_eq_dec N.eq_dec a b then true else false.

(* ---- the plain definition: split at the largest power of two strictly below n ---- *)
Fixpoint pow2_below (fuel : nat) (p n : nat) : nat :=     (* largest p*2^k < n, starting from p *)
  match fuel with O => p | S f => if (2 * p <? n)%nat then pow2_below f (2 * p)%nat n else p end.
Definition split_point (n : nat) : nat := pow2_below n 1%nat n.
Fixpoint mroot_fuel (fuel : nat) (ls : list hash) : hash :=
  match ls with
  | [] => zero_hash
  | [x] => x
  | _ => match fuel with
         | O => []
         | S f => let k := split_point (length ls) in
                  node (mroot_fuel f (firstn k ls)) (mroot_fuel f (skipn k ls))
         end
  end.
Definition mroot (ls : list hash) : hash := mroot_fuel (length ls) ls.

(* ---- bit helpers on uint64 ---- *)
Definition W := 2 ^ 64.
Definition bitlen (x : N) : N := if x =? 0 then 0 else N.log2 x + 1.
Definition tz64 (x : N) : N := if x =? 0 then 64 else N.log2 (N.land x (W - x)).
Fixpoint popcount_pos (p : positive) : N :=
  match p with xH => 1 | xO q => popcount_pos q | xI q => 1 + popcount_pos q end.
Definition popcount (x : N) : N := match x with N0 => 0 | Npos p => popcount_pos p end.

Definition range_proof_size (n start end_ : N) : N :=
  let pathMask := 2 ^ bitlen (N.lxor (end_ - 1) (n - 1)) - 1 in
  popcount start + popcount (N.land (N.ldiff (W - 1) (end_ - 1)) pathMask).

Definition next_subtree_size (start end_ : N) : N :=
  let ideal := tz64 start in
  let maxSize := bitlen (end_ - start) - 1 in
  if maxSize <? ideal then 2 ^ maxSize else 2 ^ ideal.

(* ---- proofAccumulator: digits LSB first ---- *)
Definition pacc := list (option hash).
Fixpoint carry (h : hash) (ds : pacc) : pacc :=
  match ds with
  | [] => [Some h]
  | None :: ds => Some h :: ds
  | Some t :: ds => None :: carry (node t h) ds
  end.
Fixpoint insert_node (h : hash) (height : nat) (ds : pacc) : pacc :=
  match height with
  | O => carry h ds
  | S k => match ds with
           | [] => None :: insert_node h k []
           | d :: ds => d :: insert_node h k ds
           end
  end.
Fixpoint pa_root_aux (acc : option hash) (ds : pacc) : option hash :=
  match ds with
  | [] => acc
  | None :: ds => pa_root_aux acc ds
  | Some t :: ds => pa_root_aux (Some (match acc with None => t | Some r => node t r end)) ds
  end.
Definition pa_root (ds : pacc) : hash := match pa_root_aux None ds with Some r => r | None => zero_hash end.

(* ---- range proofs over a list of leaf hashes (sector roots, or the 64-byte leaves of a sector) ---- *)
Definition slice (ls : list hash) (i n : N) : list hash := firstn (N.to_nat n) (skipn (N.to_nat i) ls).

Fixpoint build_range (fuel : nat) (ls : list hash) (numLeaves i j : N) : list hash :=
  match fuel with
  | O => []
  | S f =>
    if (i <? j) && (i <? numLeaves) then
      let s := next_subtree_size i j in
      let s := if numLeaves <? i + s then numLeaves - i else s in
      mroot (slice ls i s) :: build_range f ls numLeaves (i + s) j
    else []
  end.
Definition FUEL := 200%nat.
Definition build_range_proof (ls : list hash) (start end_ : N) : list hash :=
  let n := N.of_nat (length ls) in
  if n =? 0 then [] else build_range FUEL ls n 0 start ++ build_range FUEL ls n end_ (2 ^ 31 - 1).

(* consume hashes from [proof] for the subtrees covering [i, j) *)
Fixpoint insert_range (fuel : nat) (acc : pacc) (proof : list hash) (i j : N) : pacc * list hash :=
  match fuel with
  | O => (acc, proof)
  | S f =>
    match proof with
    | [] => (acc, proof)
    | p :: rest =>
      if i <? j then
        let s := next_subtree_size i j in
        insert_range f (insert_node p (N.to_nat (tz64 s)) acc) rest (i + s) j
      else (acc, proof)
    end
  end.

Definition verify_range_proof (proof rangeRoots : list hash) (start end_ numRoots : N) (root : hash) : bool :=
  if numRoots =? 0 then (length proof =? 0)%nat
  else if negb (N.of_nat (length proof) =? range_proof_size numRoots start end_) then false
  else
    let '(acc, proof) := insert_range FUEL [] proof 0 start in
    let acc := fold_left (fun a h => insert_node h 0 a) rangeRoots acc in
    let '(acc, _) := insert_range FUEL acc proof end_ (W - 1) in
    hash_eqb (pa_root acc) root.

(* RangeProofVerifier over one sector: range roots are subtree roots of [start,end), count is 2^16 *)
Fixpoint range_subtrees (fuel : nat) (ls : list hash) (i j : N) : list hash :=
  match fuel with
  | O => []
  | S f => if i <? j then let s := next_subtree_size i j in mroot (slice ls i s) :: range_subtrees f ls (i + s) j else []
  end.

(* RangeProofVerifier.ReadFrom: roots of the aligned subtrees of the leaves read, [lv] being the leaf hashes of
   [off, off + |lv|); Verify: the three consume loops (the last one up to the leaf count of a sector) *)
Fixpoint range_subtrees_off (fuel : nat) (lv : list hash) (off i j : N) : list hash :=
  match fuel with
  | O => []
  | S f => if i <? j then let s := next_subtree_size i j in mroot (slice lv (i - off) s) :: range_subtrees_off f lv off (i + s) j else []
  end.
Definition rpv_verify (proof lv : list hash) (start end_ n : N) (root : hash) : bool :=
  if negb (N.of_nat (length proof) =? range_proof_size n start end_) then false
  else
    let '(acc, proof) := insert_range FUEL [] proof 0 start in
    let '(acc, _) := insert_range FUEL acc (range_subtrees_off FUEL lv start start end_) start end_ in
    let '(acc, _) := insert_range FUEL acc proof end_ n in
    hash_eqb (pa_root acc) root.

(* VerifyAppendProof *)
Fixpoint fill_trees (bits : nat) (k : N) (numLeaves : N) (ths : list hash) : pacc :=
  match bits with
  | O => []
  | S b => if N.testbit numLeaves k then
             match ths with
             | t :: rest => Some t :: fill_trees b (k + 1) numLeaves rest
             | [] => Some zero_hash :: fill_trees b (k + 1) numLeaves []
             end
           else None :: fill_trees b (k + 1) numLeaves ths
  end.
Definition verify_append (numLeaves : N) (treeHashes : list hash) (sectorRoot oldRoot newRoot : hash) : bool :=
  let acc := fill_trees 64 0 numLeaves treeHashes in
  if negb (hash_eqb (pa_root acc) oldRoot) then false
  else hash_eqb (pa_root (insert_node sectorRoot 0 acc)) newRoot.

(* ---- diff proofs ---- *)
Inductive action := AAppend | ATrim (a : N) | ASwap (a b : N).

Fixpoint insert_sorted (x : N) (l : list N) : list N :=
  match l with
  | [] => [x]
  | y :: r => if x <? y then x :: l else if x =? y then l else y :: insert_sorted x r
  end.
Fixpoint trim_marks (n : nat) (cur : N) (set : list N) : N * list N :=
  match n with O => (cur, set) | S k => trim_marks k (cur - 1) (insert_sorted (cur - 1) set) end.
Fixpoint changed_aux (acts : list action) (cur : N) (set : list N) : list N :=
  match acts with
  | [] => set
  | AAppend :: r => changed_aux r (cur + 1) (insert_sorted cur set)
  | ATrim a :: r => let '(c, s) := trim_marks (N.to_nat a) cur set in changed_aux r c s
  | ASwap a b :: r => changed_aux r cur (insert_sorted b (insert_sorted a set))
  end.
Definition sectors_changed (acts : list action) (numSectors : N) : list N :=
  filter (fun i => i <? numSectors) (changed_aux acts numSectors []).
(* (uint64 wrap of newNumSectors-- below zero is excluded by the callers' validation: trims never exceed the count) *)

Fixpoint build_gaps (fuel : nat) (ls : list hash) (start : N) (indices : list N) : list hash :=
  match indices with
  | [] => range_subtrees fuel ls start (N.of_nat (length ls))
  | e :: r => range_subtrees fuel ls start e ++ build_gaps fuel ls (e + 1) r
  end.
Definition build_diff_proof (acts : list action) (roots : list hash) : list hash * list hash :=
  let idx := sectors_changed acts (N.of_nat (length roots)) in
  (build_gaps FUEL roots 0 idx, map (fun j => nth (N.to_nat j) roots zero_hash) idx).

Fixpoint gaps_size (fuel : nat) (i j : N) : N :=
  match fuel with O => 0 | S f => if i <? j then 1 + gaps_size f (i + next_subtree_size i j) j else 0 end.
Fixpoint diff_gaps (fuel : nat) (start : N) (indices : list N) (n : N) : N :=
  match indices with [] => gaps_size fuel start n | e :: r => gaps_size fuel start e + diff_gaps fuel (e + 1) r n end.
Definition diff_proof_size (acts : list action) (numLeaves : N) : N :=
  let idx := sectors_changed acts numLeaves in N.of_nat (length idx) + diff_gaps FUEL 0 idx numLeaves.

(* VerifyDiffProof's insertRange: a range that needs a tree hash when none is left marks the proof short (the Go loop
   returns at once and the verdict is false); out of fuel is treated the same way and excluded by a lemma *)
Fixpoint insert_range_s (fuel : nat) (acc : pacc) (proof : list hash) (i j : N) : pacc * list hash * bool :=
  if i <? j then
    match fuel with
    | O => (acc, proof, true)
    | S f =>
      match proof with
      | [] => (acc, [], true)
      | p :: rest => let s := next_subtree_size i j in insert_range_s f (insert_node p (N.to_nat (tz64 s)) acc) rest (i + s) j
      end
    end
  else (acc, proof, false).
Fixpoint verify_multi_aux (fuel : nat) (acc : pacc) (th : list hash) (start : N) (idx : list N) (lh : list hash) (numLeaves : N)
  : option (pacc * list hash * bool) :=
  match idx with
  | [] => Some (insert_range_s fuel acc th start numLeaves)
  | e :: r =>
    match lh with
    | [] => None                                   (* leafHashes[i] out of range: Go panics *)
    | l :: lrest =>
      let '(acc, th, s1) := insert_range_s fuel acc th start e in
      match verify_multi_aux fuel (insert_node l 0 acc) th (e + 1) r lrest numLeaves with
      | Some (a, t, s2) => Some (a, t, s1 || s2)
      | None => None
      end
    end
  end.
Definition verify_multi (idx : list N) (th lh : list hash) (numLeaves : N) (root : hash) : option bool :=
  match verify_multi_aux FUEL [] th 0 idx lh numLeaves with
  | Some (acc, th', short) => Some (negb short && hash_eqb (pa_root acc) root && (length th' =? 0)%nat)
  | None => None
  end.

Fixpoint modify_ranges (idx : list N) (acts : list action) (num : N) : option (list N) :=
  match acts with
  | [] => Some idx
  | AAppend :: r => modify_ranges (idx ++ [num]) r (num + 1)
  | ATrim a :: r => if N.of_nat (length idx) <? a then None
                    else modify_ranges (firstn (length idx - N.to_nat a) idx) r (num - a)
  | ASwap _ _ :: r => modify_ranges idx r num
  end.

(* all touched indices in order of action, then sorted with duplicates removed -> position map *)
Fixpoint touched (acts : list action) (num : N) (set : list N) : list N :=
  match acts with
  | [] => set
  | AAppend :: r => touched r (num + 1) (insert_sorted num set)
  | ATrim a :: r => let '(c, s) := trim_marks (N.to_nat a) num set in touched r c s
  | ASwap a b :: r => touched r num (insert_sorted b (insert_sorted a set))
  end.
Fixpoint index_of (x : N) (l : list N) (k : nat) : nat :=
  match l with [] => O | y :: r => if x =? y then k else index_of x r (S k) end.
Definition set_nth {A} (k : nat) (x : A) (l : list A) : list A :=
  firstn k l ++ match skipn k l with [] => [] | _ :: r => x :: r end.
Fixpoint modify_leaves_aux (lh : list hash) (acts : list action) (imap : list N) (appendRoots : list hash)
  : option (list hash) :=
  match acts with
  | [] => Some lh
  | AAppend :: r =>
    match appendRoots with
    | root :: ar => modify_leaves_aux (lh ++ [root]) r imap ar
    | [] => None                                   (* would hash action.Data: not modelled *)
    end
  | ATrim a :: r => if N.of_nat (length lh) <? a then None
                    else modify_leaves_aux (firstn (length lh - N.to_nat a) lh) r imap appendRoots
  | ASwap a b :: r =>
    let i := index_of a imap 0 in let j := index_of b imap 0 in
    match nth_error lh i, nth_error lh j with
    | Some x, Some y => modify_leaves_aux (set_nth j x (set_nth i y lh)) r imap appendRoots
    | _, _ => None
    end
  end.
Definition modify_leaves (lh : list hash) (acts : list action) (num : N) (appendRoots : list hash) :=
  modify_leaves_aux lh acts (touched acts num []) appendRoots.

Definition verify_diff_proof (acts : list action) (numLeaves : N) (th lh : list hash) (oldRoot newRoot : hash)
  (appendRoots : list hash) : option bool :=
  let idx := sectors_changed acts numLeaves in
  if negb (length idx =? length lh)%nat then Some false
  else match verify_multi idx th lh numLeaves oldRoot with
  | None => None
  | Some false => Some false
  | Some true =>
    match modify_leaves lh acts numLeaves appendRoots, modify_ranges idx acts numLeaves with
    | Some nlh, Some nidx =>
      let n' := numLeaves + N.of_nat (length nlh) - N.of_nat (length lh) in
      verify_multi nidx th nlh n' newRoot
    | _, _ => None
    end
  end.

(* rhp/v4 convertFreeActions: swap freed[i] with numSectors-i-1 in the given order, then one trim *)
Fixpoint free_swaps (freed : list N) (num : N) (i : N) : list action :=
  match freed with [] => [] | n :: r => ASwap n (num - i - 1) :: free_swaps r num (i + 1) end.
Definition convert_free_actions (freed : list N) (num : N) : list action :=
  free_swaps freed num 0 ++ [ATrim (N.of_nat (length freed))].

(* rhp/v4 VerifyAppendSectorsProof over blake2b.Accumulator (same digits, AddLeaf = insert at height 0) *)
Definition verify_append_sectors (numSectors : N) (subtreeRoots appended : list hash) (oldRoot newRoot : hash) : bool :=
  let acc := fill_trees (N.to_nat (bitlen numSectors)) 0 numSectors subtreeRoots in
  if negb (hash_eqb (pa_root acc) oldRoot) then false
  else hash_eqb (pa_root (fold_left (fun a h => insert_node h 0 a) appended acc)) newRoot.
Definition build_append_proof (roots appended : list hash) : list hash * hash :=
  let acc := fold_left (fun a h => insert_node h 0 a) roots [] in
  (List.concat (map (fun d => match d with Some t => [t] | None => [] end) acc),
   pa_root (fold_left (fun a h => insert_node h 0 a) appended acc)).

(* ConvertProofOrdering *)
Fixpoint convert_order (fuel : nat) (i : N) (index : N) (lefts rights : list hash) (need : nat) : list hash :=
  match fuel with
  | O => []
  | S f =>
    match need with
    | O => []
    | _ =>
      if N.testbit index i then
        match rev lefts with
        | l :: rl => l :: convert_order f (i + 1) index (rev rl) rights (need - 1)
        | [] => []     (* lefts[len-1] on empty: Go panics; unreachable for well-formed input *)
        end
      else match rights with
        | r :: rr => r :: convert_order f (i + 1) index lefts rr (need - 1)
        | [] => convert_order f (i + 1) index lefts rights need
        end
    end
  end.
Definition convert_proof_ordering (proof : list hash) (index : N) : list hash :=
  let nl := N.to_nat (popcount index) in
  convert_order 200 0 index (firstn nl proof) (skipn nl proof) (length proof).

End Rhp.
