(* Storage proofs (consensus/merkle.go storageProofRoot, the v1 twin in validation.go): the honest proof of any leaf
   of a file of any size -- the siblings along the path in the plainly defined tree [mroot] -- is accepted:
   the verifier's rule "bit j of the leaf index below the merge height with the last leaf, left siblings above it"
   reconstructs exactly the path of leaf i among n leaves. *)
From Coq Require Import List ZArith NArith Arith Bool Lia.
From Sia Require Import Prim.Result Prim.Tok Merkle.Rhp Merkle.RhpRoot Ledger.Types Ledger.Mid Ledger.Validate.
Import ListNotations.

(* ---- bits ---- *)
Local Open Scope Z_scope.
Definition blen (x : Z) : Z := if x =? 0 then 0 else Z.log2 x + 1.

Lemma testbit_ge x a : 0 <= x -> 0 <= a -> Z.testbit x a = true -> 2 ^ a <= x.
Proof.
  intros Hx Ha T. destruct (Z.lt_ge_cases x (2 ^ a)) as [L|G]; [|exact G]. exfalso.
  destruct (Z.eq_dec x 0) as [->|NZ]; [rewrite Z.bits_0 in T; discriminate|].
  rewrite Z.bits_above_log2 in T; [discriminate | lia |]. apply Z.log2_lt_pow2; lia.
Qed.
Lemma log2_between x a : 0 <= a -> 2 ^ a <= x < 2 ^ (a + 1) -> Z.log2 x = a.
Proof. intros Ha Hx. apply Z.log2_unique; [lia|]. replace (Z.succ a) with (a + 1) by lia. exact Hx. Qed.
Lemma lxor_bound x y a : 0 <= a -> 0 <= x < 2 ^ a -> 0 <= y < 2 ^ a -> 0 <= Z.lxor x y < 2 ^ a.
Proof.
  intros Ha Hx Hy. assert (N : 0 <= Z.lxor x y) by (apply Z.lxor_nonneg; lia). split; [exact N|].
  destruct (Z.eq_dec (Z.lxor x y) 0) as [->|NZ]; [apply Z.pow_pos_nonneg; lia|].
  apply Z.log2_lt_pow2; [lia|]. pose proof (Z.log2_lxor x y ltac:(lia) ltac:(lia)) as L.
  assert (Z.log2 x < a \/ x = 0) by (destruct (Z.eq_dec x 0); [right; assumption | left; apply Z.log2_lt_pow2; lia]).
  assert (Z.log2 y < a \/ y = 0) by (destruct (Z.eq_dec y 0); [right; assumption | left; apply Z.log2_lt_pow2; lia]).
  destruct (Z.eq_dec a 0) as [->|]; [cbn in *; assert (x = 0) by lia; assert (y = 0) by lia; subst; cbn in NZ; contradiction|].
  assert (Z.log2 x < a) by (destruct H; [assumption | subst; cbn; lia]).
  assert (Z.log2 y < a) by (destruct H0; [assumption | subst; cbn; lia]). lia.
Qed.
(* adding 2^a to a number below 2^a sets bit a and leaves the others *)
Lemma testbit_add_pow x a j : 0 <= a -> 0 <= x < 2 ^ a -> 0 <= j -> Z.testbit (x + 2 ^ a) j = if j =? a then true else Z.testbit x j.
Proof.
  intros Ha Hx Hj.
  assert (L0 : Z.land (2 ^ a) x = 0).
  { apply Z.bits_inj'. intros k Hk. rewrite Z.land_spec, Z.bits_0, Z.pow2_bits_eqb by lia.
    destruct (Z.eqb_spec a k) as [->|]; [|reflexivity]. cbn [andb].
    destruct (Z.eq_dec x 0) as [->|NZ]; [apply Z.bits_0|]. apply Z.bits_above_log2; [lia|]. apply Z.log2_lt_pow2; lia. }
  rewrite Z.add_comm, (Z.add_nocarry_lxor _ _ L0), Z.lxor_spec, Z.pow2_bits_eqb by lia.
  destruct (Z.eqb_spec j a) as [->|NE].
  - rewrite Z.eqb_refl. destruct (Z.eq_dec x 0) as [->|NZ]; [rewrite Z.bits_0; reflexivity|].
    rewrite (Z.bits_above_log2 x a); [reflexivity | lia |]. apply Z.log2_lt_pow2; lia.
  - destruct (Z.eqb_spec a j); [lia|]. destruct (Z.testbit x j); reflexivity.
Qed.
(* i below the split, m at or above it: the merge height is a + 1 *)
Lemma blen_low i m a : 0 <= a -> 0 <= i < 2 ^ a -> 2 ^ a <= m < 2 ^ (a + 1) -> blen (Z.lxor i m) = a + 1.
Proof.
  intros Ha Hi Hm. unfold blen.
  assert (P : 0 < 2 ^ a) by (apply Z.pow_pos_nonneg; lia).
  assert (E : 2 ^ (a + 1) = 2 * 2 ^ a) by (rewrite Z.pow_add_r by lia; lia).
  assert (Tm : Z.testbit m a = true).
  { replace m with ((m - 2 ^ a) + 2 ^ a) by ring. rewrite testbit_add_pow by lia. rewrite Z.eqb_refl. reflexivity. }
  assert (Ti : Z.testbit i a = false).
  { destruct (Z.eq_dec i 0) as [->|NZ]; [apply Z.bits_0|]. apply Z.bits_above_log2; [lia|]. apply Z.log2_lt_pow2; lia. }
  assert (Tx : Z.testbit (Z.lxor i m) a = true) by (rewrite Z.lxor_spec, Tm, Ti; reflexivity).
  assert (B : 0 <= Z.lxor i m < 2 ^ (a + 1)) by (apply lxor_bound; lia).
  pose proof (testbit_ge _ _ (proj1 B) Ha Tx) as G.
  destruct (Z.eqb_spec (Z.lxor i m) 0); [lia|]. rewrite (log2_between _ a Ha); lia.
Qed.
(* both at or above the split: the split bit cancels *)
Lemma lxor_high i m a : 0 <= a -> 2 ^ a <= i < 2 ^ (a + 1) -> 2 ^ a <= m < 2 ^ (a + 1) -> Z.lxor i m = Z.lxor (i - 2 ^ a) (m - 2 ^ a).
Proof.
  intros Ha Hi Hm. assert (E : 2 ^ (a + 1) = 2 * 2 ^ a) by (rewrite Z.pow_add_r by lia; lia).
  apply Z.bits_inj'. intros j Hj. rewrite !Z.lxor_spec.
  replace i with ((i - 2 ^ a) + 2 ^ a) at 1 by ring. replace m with ((m - 2 ^ a) + 2 ^ a) at 1 by ring.
  rewrite !testbit_add_pow by lia. destruct (Z.eqb_spec j a) as [->|]; [|reflexivity].
  assert (F : forall x, 0 <= x < 2 ^ a -> Z.testbit x a = false).
  { intros x Hx. destruct (Z.eq_dec x 0) as [->|NZ]; [apply Z.bits_0|]. apply Z.bits_above_log2; [lia|]. apply Z.log2_lt_pow2; lia. }
  rewrite (F (i - 2 ^ a)), (F (m - 2 ^ a)) by lia. reflexivity.
Qed.
Lemma testbit_high i a j : 0 <= a -> 2 ^ a <= i < 2 ^ (a + 1) -> 0 <= j < a -> Z.testbit i j = Z.testbit (i - 2 ^ a) j.
Proof.
  intros Ha Hi Hj. assert (E : 2 ^ (a + 1) = 2 * 2 ^ a) by (rewrite Z.pow_add_r by lia; lia).
  replace i with ((i - 2 ^ a) + 2 ^ a) at 1 by ring. rewrite testbit_add_pow by lia. destruct (Z.eqb_spec j a); [lia | reflexivity].
Qed.
(* inside a perfect tree of 2^a leaves: above the merge height with the last leaf, the index bits are ones *)
Lemma ones_above i a j : 0 <= a -> 0 <= i < 2 ^ a -> 0 <= j < a -> blen (Z.lxor i (2 ^ a - 1)) <= j -> Z.testbit i j = true.
Proof.
  intros Ha Hi Hj B. assert (P : 0 < 2 ^ a) by (apply Z.pow_pos_nonneg; lia).
  assert (X : Z.testbit (Z.lxor i (2 ^ a - 1)) j = false).
  { unfold blen in B. destruct (Z.eqb_spec (Z.lxor i (2 ^ a - 1)) 0) as [->|NZ]; [apply Z.bits_0|].
    apply Z.bits_above_log2; [apply Z.lxor_nonneg; lia | lia]. }
  rewrite Z.lxor_spec in X. replace (2 ^ a - 1) with (Z.ones a) in X by (rewrite Z.ones_equiv; lia).
  rewrite Z.ones_spec_low in X by lia. destruct (Z.testbit i j); [reflexivity | discriminate].
Qed.

(* ---- the honest prover and the verifier's rule ---- *)
Section StorageProofs.
Variable H : bytes -> bytes.
Notation node := (Rhp.node H).
Notation mroot := (Rhp.mroot H).
Notation hash := bytes.

(* siblings along the path of leaf i in the plain tree, bottom-up *)
Fixpoint sp_prove (fuel : nat) (L : list hash) (i : nat) : list hash :=
  match fuel with
  | O => []
  | S f =>
    match L with
    | [] | [_] => []
    | _ => let k := split_point (length L) in
           if (i <? k)%nat then sp_prove f (firstn k L) i ++ [mroot (skipn k L)]
           else sp_prove f (skipn k L) (i - k) ++ [mroot (firstn k L)]
    end
  end.

(* the verifier: sibling j is on the left iff bit j of the index is set or j is at/above the merge height *)
Definition rule (i sth j : Z) : bool := Z.testbit i j || (sth <=? j).
Definition step (i sth : Z) (acc : hash * Z) (h : hash) : hash * Z :=
  let '(root, j) := acc in ((if rule i sth j then node h root else node root h), j + 1).
Definition fold_rule (x : hash) (i sth : Z) (proof : list hash) : hash := fst (fold_left (step i sth) proof (x, 0)).

Lemma fold_step_index i sth proof : forall x j, snd (fold_left (step i sth) proof (x, j)) = j + Z.of_nat (length proof).
Proof. induction proof as [|h p IH]; intros x j; cbn [fold_left step length]; [cbn; lia|]. rewrite IH. lia. Qed.
Lemma fold_rule_snoc x i sth p s :
  fold_rule x i sth (p ++ [s]) = if rule i sth (Z.of_nat (length p)) then node s (fold_rule x i sth p) else node (fold_rule x i sth p) s.
Proof.
  unfold fold_rule. rewrite fold_left_app. cbn [fold_left].
  pose proof (fold_step_index i sth p x 0) as I. destruct (fold_left (step i sth) p (x, 0)) as [r j]. cbn [snd fst step] in *. subst j. reflexivity.
Qed.
(* the fold depends on the rule only at the positions of the proof *)
Lemma fold_rule_ext x i1 s1 i2 s2 p : (forall j, 0 <= j < Z.of_nat (length p) -> rule i1 s1 j = rule i2 s2 j) ->
  fold_rule x i1 s1 p = fold_rule x i2 s2 p.
Proof.
  induction p as [|h p IH] using rev_ind; intros E; [reflexivity|].
  rewrite !fold_rule_snoc. rewrite app_length in E. cbn [length] in E.
  rewrite IH by (intros j Hj; apply E; lia). rewrite (E (Z.of_nat (length p))) by lia. reflexivity.
Qed.

Lemma sp_prove_length_perfect a : forall fuel L i, (length L = 2 ^ a)%nat -> (length L <= fuel)%nat -> (i < length L)%nat ->
  length (sp_prove fuel L i) = a.
Proof.
  induction a as [|a IH]; intros fuel L i HL Hf Hi.
  - destruct L as [|x [|y r]]; cbn in HL; try lia. destruct fuel; reflexivity.
  - assert (P : (0 < 2 ^ a)%nat) by (apply Nat.neq_0_lt_0, Nat.pow_nonzero; lia).
    rewrite Nat.pow_succ_r' in HL. destruct fuel as [|f]; [lia|].
    destruct L as [|x [|y r]]; [cbn in HL; lia | cbn in HL; lia |]. cbn [sp_prove]. set (L := x :: y :: r) in *.
    assert (K : split_point (length L) = (2 ^ a)%nat) by (rewrite HL; replace (2 * 2 ^ a)%nat with (2 ^ a + 2 ^ a)%nat by lia; apply split_point_pow; lia).
    rewrite K. destruct (Nat.ltb_spec i (2 ^ a)); rewrite app_length; cbn [length].
    + rewrite IH; [lia | rewrite firstn_length; lia | rewrite firstn_length; lia | rewrite firstn_length; lia].
    + rewrite IH; [lia | rewrite skipn_length; lia | rewrite skipn_length; lia | rewrite skipn_length; lia].
Qed.
Lemma sp_prove_length_le a : forall fuel L i, (length L <= 2 ^ a)%nat -> (length (sp_prove fuel L i) <= a)%nat.
Proof.
  induction a as [|a IH]; intros fuel L i HL.
  - destruct L as [|x [|y r]]; cbn in HL; try lia; destruct fuel; cbn; lia.
  - destruct fuel as [|f]; [cbn; lia|]. destruct L as [|x [|y r]]; [cbn; lia | cbn; lia |]. cbn [sp_prove]. set (L := x :: y :: r) in *.
    destruct (split_point_spec (length L) ltac:(cbn; lia)) as (b & E & A & B). rewrite E.
    assert (P : (0 < 2 ^ b)%nat) by (apply Nat.neq_0_lt_0, Nat.pow_nonzero; lia).
    assert (Hb : (b <= a)%nat). { destruct (Nat.le_gt_cases b a); [assumption|]. exfalso. assert (2 ^ S a <= 2 ^ b)%nat by (apply Nat.pow_le_mono_r; lia). lia. }
    rewrite Nat.pow_succ_r' in HL.
    destruct (Nat.ltb_spec i (2 ^ b)); rewrite app_length; cbn [length].
    + assert (length (sp_prove f (firstn (2 ^ b) L) i) <= a)%nat by (apply IH; rewrite firstn_length; pose proof (Nat.pow_le_mono_r 2 b a ltac:(lia) Hb); lia). lia.
    + assert (length (sp_prove f (skipn (2 ^ b) L) (i - 2 ^ b)) <= a)%nat.
      { apply IH. rewrite skipn_length. rewrite Nat.pow_succ_r' in B. lia. }
      lia.
Qed.

Lemma nat_pow_Z a : Z.of_nat (2 ^ a) = 2 ^ Z.of_nat a.
Proof. rewrite Nat2Z.inj_pow. reflexivity. Qed.

(* the honest proof folds to the plain root under the verifier's rule, and is at least as long as the merge height *)
Theorem sp_prove_verifies fuel : forall L i d, (i < length L)%nat -> (length L <= fuel)%nat ->
  let sth := blen (Z.lxor (Z.of_nat i) (Z.of_nat (length L) - 1)) in
  fold_rule (nth i L d) (Z.of_nat i) sth (sp_prove fuel L i) = mroot L /\ sth <= Z.of_nat (length (sp_prove fuel L i)).
Proof.
  induction fuel as [|f IH]; intros L i d Hi Hf; [lia|]. cbv zeta.
  destruct L as [|x [|y r]]; [cbn in Hi; lia | |].
  - (* one leaf *)
    cbn in Hi. assert (i = 0)%nat by lia. subst i. cbn. split; [reflexivity | lia].
  - cbn [sp_prove]. set (L := x :: y :: r) in *.
    assert (Ln : (2 <= length L)%nat) by (cbn; lia).
    destruct (split_point_spec (length L) Ln) as (a & E & A & B). rewrite E.
    assert (P : (0 < 2 ^ a)%nat) by (apply Nat.neq_0_lt_0, Nat.pow_nonzero; lia).
    set (az := Z.of_nat a). assert (Haz : 0 <= az) by lia.
    assert (PZ : Z.of_nat (2 ^ a) = 2 ^ az) by apply nat_pow_Z.
    assert (PZ1 : 2 ^ (az + 1) = 2 * 2 ^ az) by (rewrite Z.pow_add_r by lia; lia).
    assert (Hm : 2 ^ az <= Z.of_nat (length L) - 1 < 2 ^ (az + 1)) by (rewrite Nat.pow_succ_r' in B; lia).
    rewrite (mroot_unfold H L Ln). unfold Rhp.hash in *. rewrite E.
    destruct (Nat.ltb_spec i (2 ^ a)) as [Lt|Ge].
    + (* the leaf is in the left, perfect subtree of 2^a leaves *)
      set (L1 := firstn (2 ^ a) L). assert (Len1 : length L1 = (2 ^ a)%nat) by (unfold L1; rewrite firstn_length; lia).
      destruct (IH L1 i d ltac:(lia) ltac:(lia)) as [F1 S1]. cbv zeta in F1, S1.
      assert (Nth : nth i L1 d = nth i L d).
      { unfold L1. rewrite <- (firstn_skipn (2 ^ a) L) at 2. rewrite app_nth1 by (rewrite firstn_length; lia). reflexivity. }
      assert (LenP : length (sp_prove f L1 i) = a) by (apply sp_prove_length_perfect; lia).
      assert (Sth : blen (Z.lxor (Z.of_nat i) (Z.of_nat (length L) - 1)) = az + 1) by (apply blen_low; lia).
      rewrite Sth. split; [|rewrite app_length, LenP; cbn [length]; lia].
      rewrite fold_rule_snoc, LenP. fold az.
      assert (R0 : rule (Z.of_nat i) (az + 1) az = false).
      { unfold rule. destruct (Z.leb_spec (az + 1) az); [lia|]. rewrite orb_false_r.
        destruct (Z.eq_dec (Z.of_nat i) 0) as [->|NZ]; [apply Z.bits_0|]. apply Z.bits_above_log2; [lia|]. apply Z.log2_lt_pow2; lia. }
      rewrite R0. f_equal. rewrite <- F1, Nth. apply fold_rule_ext. intros j Hj. rewrite LenP in Hj. fold az in Hj.
      unfold rule. destruct (Z.leb_spec (az + 1) j); [lia|]. rewrite orb_false_r.
      rewrite Len1, PZ. destruct (Z.leb_spec (blen (Z.lxor (Z.of_nat i) (2 ^ az - 1))) j) as [Ab|Be]; [|rewrite orb_false_r; reflexivity].
      rewrite (ones_above (Z.of_nat i) az j) by lia. reflexivity.
    + (* the leaf is in the right subtree *)
      set (L2 := skipn (2 ^ a) L). assert (Len2 : length L2 = (length L - 2 ^ a)%nat) by (unfold L2; apply skipn_length).
      destruct (IH L2 (i - 2 ^ a)%nat d ltac:(lia) ltac:(lia)) as [F2 S2]. cbv zeta in F2, S2.
      assert (Nth : nth (i - 2 ^ a) L2 d = nth i L d).
      { unfold L2. rewrite <- (firstn_skipn (2 ^ a) L) at 2. rewrite app_nth2 by (rewrite firstn_length; lia). rewrite firstn_length. f_equal. lia. }
      assert (Hiz : 2 ^ az <= Z.of_nat i < 2 ^ (az + 1)) by (rewrite Nat.pow_succ_r' in B; lia).
      assert (Sth : Z.lxor (Z.of_nat i) (Z.of_nat (length L) - 1) = Z.lxor (Z.of_nat (i - 2 ^ a)) (Z.of_nat (length L2) - 1)).
      { rewrite (lxor_high _ _ az Haz Hiz Hm). f_equal; lia. }
      rewrite Sth. set (sth := blen (Z.lxor (Z.of_nat (i - 2 ^ a)) (Z.of_nat (length L2) - 1))) in *.
      assert (LenP : (length (sp_prove f L2 (i - 2 ^ a)) <= a)%nat) by (apply sp_prove_length_le; rewrite Nat.pow_succ_r' in B; lia).
      split; [|rewrite app_length; cbn [length]; lia].
      rewrite fold_rule_snoc.
      assert (R1 : rule (Z.of_nat i) sth (Z.of_nat (length (sp_prove f L2 (i - 2 ^ a)))) = true).
      { unfold rule. destruct (Z.leb_spec sth (Z.of_nat (length (sp_prove f L2 (i - 2 ^ a))))); [apply orb_true_r | lia]. }
      rewrite R1. f_equal. rewrite <- F2, Nth. apply fold_rule_ext. intros j Hj.
      unfold rule. f_equal. rewrite (testbit_high (Z.of_nat i) az j) by lia. f_equal. lia.
Qed.

(* ---- the two verifiers of the implementation are this fold ---- *)
Definition tstep (i : Z) (acc : hash * Z) (h : hash) : hash * Z :=
  let '(root, j) := acc in ((if Z.testbit i j then node h root else node root h), j + 1).
Lemma tfold_is_rule i sth p : forall x j0, j0 + Z.of_nat (length p) <= sth ->
  fold_left (tstep i) p (x, j0) = fold_left (step i sth) p (x, j0).
Proof.
  induction p as [|h p IH]; intros x j0 Hs; [reflexivity|]. cbn [fold_left tstep step length] in *.
  assert (R : rule i sth j0 = Z.testbit i j0) by (unfold rule; destruct (Z.leb_spec sth j0); [lia | apply orb_false_r]).
  rewrite R. apply IH. lia.
Qed.
Lemma high_is_rule i sth p : forall x j0, sth <= j0 ->
  fold_left (step i sth) p (x, j0) = (fold_left (fun root h => node h root) p x, j0 + Z.of_nat (length p)).
Proof.
  induction p as [|h p IH]; intros x j0 Hs; cbn [fold_left step length]; [f_equal; lia|].
  assert (R : rule i sth j0 = true) by (unfold rule; destruct (Z.leb_spec sth j0); [apply orb_true_r | lia]).
  rewrite R, IH by lia. f_equal. lia.
Qed.

Lemma node_same l r : Validate.node H l r = node l r. Proof. reflexivity. Qed.

Theorem sp_root_v2_is_fold x i filesize proof :
  let last := if filesize mod 64 =? 0 then (filesize / 64 - 1) mod 2 ^ 64 else filesize / 64 in
  let sth := blen (Z.lxor i last) in
  0 <= sth <= Z.of_nat (length proof) -> sp_root_v2 H x i filesize proof = fold_rule x i sth proof.
Proof.
  cbv zeta. set (last := if filesize mod 64 =? 0 then _ else _). intros Hs. unfold sp_root_v2. fold last.
  change (Validate.bitlen (Z.lxor i last)) with (blen (Z.lxor i last)). set (sth := blen (Z.lxor i last)) in *.
  destruct (Nat.ltb_spec (length proof) (Z.to_nat sth)); [lia|].
  unfold fold_rule. rewrite <- (firstn_skipn (Z.to_nat sth) proof) at 3. rewrite fold_left_app.
  assert (L1 : Z.of_nat (length (firstn (Z.to_nat sth) proof)) = sth) by (rewrite firstn_length; lia).
  change (fun (acc : bytes * Z) (h : bytes) => let '(root, i0) := acc in (if Z.testbit i i0 then Validate.node H h root else Validate.node H root h, i0 + 1)) with (tstep i).
  rewrite <- (tfold_is_rule i sth (firstn (Z.to_nat sth) proof) x 0) by lia.
  pose proof (fold_step_index i sth (firstn (Z.to_nat sth) proof) x 0) as I. rewrite <- (tfold_is_rule i sth _ x 0) in I by lia.
  destruct (fold_left (tstep i) (firstn (Z.to_nat sth) proof) (x, 0)) as [r0 j0]. cbn [fst snd] in *.
  rewrite high_is_rule by lia. reflexivity.
Qed.

Theorem sp_root_v1_is_fold i filesize leaf proof :
  sp_root_v1 H i filesize leaf proof = fold_rule (H (0%N :: pad64 leaf)) i (blen (Z.lxor i (last_leaf_index filesize))) proof.
Proof. reflexivity. Qed.

(* number of 64-byte leaves of a file *)
Definition sp_num_leaves (filesize : Z) : Z := filesize / 64 + (if filesize mod 64 =? 0 then 0 else 1).

Lemma last_is_pred filesize : 0 < filesize < 2 ^ 64 ->
  (if filesize mod 64 =? 0 then (filesize / 64 - 1) mod 2 ^ 64 else filesize / 64) = sp_num_leaves filesize - 1.
Proof.
  intros Hf. unfold sp_num_leaves. pose proof (Z.div_mod filesize 64 ltac:(lia)). pose proof (Z.mod_pos_bound filesize 64 ltac:(lia)).
  destruct (Z.eqb_spec (filesize mod 64) 0); [|lia]. rewrite Z.mod_small; lia.
Qed.

(* completeness, v2: for a file of any size, the siblings of leaf i in the plain tree over its leaf hashes are accepted
   against the plain root *)
Theorem storage_proof_v2_complete (L : list hash) filesize i d : 0 < filesize < 2 ^ 64 ->
  Z.of_nat (length L) = sp_num_leaves filesize -> (i < length L)%nat ->
  sp_root_v2 H (nth i L d) (Z.of_nat i) filesize (sp_prove (length L) L i) = mroot L.
Proof.
  intros Hf Hn Hi. destruct (sp_prove_verifies (length L) L i d Hi (Nat.le_refl _)) as [F S]. cbv zeta in F, S.
  rewrite sp_root_v2_is_fold; rewrite (last_is_pred filesize Hf), <- Hn.
  - exact F.
  - split; [|exact S]. unfold blen. destruct (_ =? 0); [lia|]. pose proof (Z.log2_nonneg (Z.lxor (Z.of_nat i) (Z.of_nat (length L) - 1))). lia.
Qed.

(* completeness, v1 (all three leaf-handling eras differ only in which bytes of the last leaf are hashed): the same
   siblings are accepted for the leaf data whose padded hash is leaf i *)
Theorem storage_proof_v1_complete (L : list hash) filesize i d leaf : 0 < filesize < 2 ^ 64 ->
  Z.of_nat (length L) = sp_num_leaves filesize -> (i < length L)%nat -> nth i L d = H (0%N :: pad64 leaf) ->
  sp_root_v1 H (Z.of_nat i) filesize leaf (sp_prove (length L) L i) = mroot L.
Proof.
  intros Hf Hn Hi Hleaf. destruct (sp_prove_verifies (length L) L i d Hi (Nat.le_refl _)) as [F _]. cbv zeta in F.
  rewrite sp_root_v1_is_fold, <- Hleaf.
  assert (E : last_leaf_index filesize = Z.of_nat (length L) - 1).
  { rewrite Hn. rewrite <- (last_is_pred filesize Hf). unfold last_leaf_index. destruct (filesize mod 64 =? 0); reflexivity. }
  rewrite E. exact F.
Qed.
End StorageProofs.

(* ---- soundness for proofs of the honest length ---- *)
Section Sound.
Variable H : bytes -> bytes.
Notation node := (Rhp.node H).
Notation mroot := (Rhp.mroot H).
Notation hash := bytes.

Definition NodeCollision : Prop := exists a b c d : hash, (a, b) <> (c, d) /\ node a b = node c d.

Lemma bytes_eq_dec : forall a b : hash, {a = b} + {a <> b}.
Proof. apply list_eq_dec. apply N.eq_dec. Qed.

(* two proofs of the same length that fold to the same value under the same rule are the same proof of the same leaf,
   or a collision of the node hash is in hand *)
Lemma fold_rule_injective i sth : forall p q x y, length p = length q ->
  fold_rule H x i sth p = fold_rule H y i sth q -> (x = y /\ p = q) \/ NodeCollision.
Proof.
  induction p as [|s p IH] using rev_ind; intros q x y L E.
  - destruct q; [|discriminate]. left. split; [exact E | reflexivity].
  - destruct q as [|t q] using rev_ind; [rewrite app_length in L; cbn in L; lia|]. clear IHq.
    rewrite !app_length in L. cbn [length] in L. assert (L' : length p = length q) by lia.
    rewrite !fold_rule_snoc, L' in E.
    set (F := fold_rule H x i sth p) in *. set (G := fold_rule H y i sth q) in *.
    destruct (rule i sth (Z.of_nat (length q))).
    + destruct (bytes_eq_dec s t) as [->|Ns]; [destruct (bytes_eq_dec F G) as [Eq|Nf]|].
      * destruct (IH q x y L' Eq) as [[-> ->]|C]; [left; split; reflexivity | right; exact C].
      * right. exists t, F, t, G. split; [congruence | exact E].
      * right. exists s, F, t, G. split; [congruence | exact E].
    + destruct (bytes_eq_dec s t) as [->|Ns]; [destruct (bytes_eq_dec F G) as [Eq|Nf]|].
      * destruct (IH q x y L' Eq) as [[-> ->]|C]; [left; split; reflexivity | right; exact C].
      * right. exists F, t, G, t. split; [congruence | exact E].
      * right. exists F, s, G, t. split; [congruence | exact E].
Qed.

(* soundness for proofs of the honest length: what verifies is the true leaf with its true siblings *)
Theorem storage_proof_v2_sound_same_length (L : list hash) filesize i d x proof : 0 < filesize < 2 ^ 64 ->
  Z.of_nat (length L) = sp_num_leaves filesize -> (i < length L)%nat ->
  length proof = length (sp_prove H (length L) L i) ->
  sp_root_v2 H x (Z.of_nat i) filesize proof = mroot L ->
  (x = nth i L d /\ proof = sp_prove H (length L) L i) \/ NodeCollision.
Proof.
  intros Hf Hn Hi Hl Hv. destruct (sp_prove_verifies H (length L) L i d Hi (Nat.le_refl _)) as [F S]. cbv zeta in F, S.
  rewrite sp_root_v2_is_fold in Hv; rewrite (last_is_pred filesize Hf), <- Hn in *.
  - rewrite <- F in Hv. apply (fold_rule_injective _ _ _ _ _ _ Hl Hv).
  - rewrite Hl. split; [|exact S]. unfold blen. destruct (_ =? 0); [lia|]. pose proof (Z.log2_nonneg (Z.lxor (Z.of_nat i) (Z.of_nat (length L) - 1))). lia.
Qed.
End Sound.
