(* Diff proofs, builder side: bookkeeping lemmas about the sorted set of touched indices. *)
From Coq Require Import List NArith Arith Bool Lia ZifyN ZifyNat ZifyBool Sorted.
From Sia Require Import Prim.Tok Merkle.Rhp Merkle.RgMulti.
Import ListNotations.
Local Open Scope N_scope.

Notation SS := (StronglySorted N.lt).
Definition idH : bytes -> bytes := fun b => b.
Definition ins_in := insert_sorted_in idH.
Definition ins_sorted := insert_sorted_sorted idH.
Definition chg_sorted := changed_sorted idH.
Definition flt_sorted := filter_sorted idH.
Definition below (c : N) (C : list N) : list N := filter (fun i => i <? c) C.

Lemma ss_tail x C : SS (x :: C) -> SS C /\ Forall (fun y => x < y) C.
Proof. intros S. inversion S; subst. split; assumption. Qed.

Lemma below_all c C : Forall (fun y => c <= y) C -> below c C = [].
Proof. induction C as [|y C IH]; intros F; [reflexivity|]. inversion F; subst. cbn [below filter]. destruct (N.ltb_spec y c); [lia|]. apply IH. assumption. Qed.

(* the members below c, then c itself *)
Lemma below_succ C : SS C -> forall c, In c C -> below (c + 1) C = below c C ++ [c].
Proof.
  induction C as [|y C IH]; intros S c Hin; [destruct Hin|]. destruct (ss_tail _ _ S) as [S' F]. cbn [below filter].
  destruct Hin as [->|Hin].
  - destruct (N.ltb_spec c (c + 1)); [|lia]. destruct (N.ltb_spec c c); [lia|].
    fold (below (c + 1) C). fold (below c C). rewrite (below_all (c + 1) C), (below_all c C); [reflexivity | |];
      (eapply Forall_impl; [|exact F]; cbv beta; intros; lia).
  - rewrite Forall_forall in F. specialize (F c Hin). destruct (N.ltb_spec y (c + 1)); [|lia]. destruct (N.ltb_spec y c); [|lia].
    fold (below (c + 1) C). fold (below c C). rewrite (IH S' c Hin). reflexivity.
Qed.
Lemma below_mono c C x : In x (below c C) <-> In x C /\ x < c.
Proof. unfold below. rewrite filter_In. destruct (N.ltb_spec x c); intuition (try lia; try discriminate). Qed.
Lemma below_length_le c C : (length (below c C) <= length C)%nat.
Proof. unfold below. induction C as [|y C IH]; cbn [filter length]; [lia|]. destruct (y <? c); cbn [length]; lia. Qed.

(* trimming a: the last a members below c are c-a .. c-1 *)
Lemma below_trim C : SS C -> forall (a : nat) c, N.of_nat a <= c -> (forall k, c - N.of_nat a <= k -> k < c -> In k C) ->
  firstn (length (below c C) - a) (below c C) = below (c - N.of_nat a) C /\ (a <= length (below c C))%nat.
Proof.
  intros Ss. induction a as [|a IH]; intros c Hc Hin.
  - rewrite Nat.sub_0_r, firstn_all. replace (c - N.of_nat 0) with c by lia. split; [reflexivity | lia].
  - assert (E : below c C = below (c - 1) C ++ [c - 1]).
    { replace c with ((c - 1) + 1) at 1 by lia. apply below_succ; [exact Ss|]. apply Hin; lia. }
    destruct (IH (c - 1) ltac:(lia) ltac:(intros k K1 K2; apply Hin; lia)) as [E2 L2].
    rewrite E, app_length. cbn [length]. split; [|lia].
    replace (length (below (c - 1) C) + 1 - S a)%nat with (length (below (c - 1) C) - a)%nat by lia.
    rewrite firstn_app. replace (length (below (c - 1) C) - a - length (below (c - 1) C))%nat with 0%nat by lia.
    cbn [firstn]. rewrite app_nil_r, E2. f_equal. lia.
Qed.

(* below c C is a prefix of C *)
Lemma below_prefix C : SS C -> forall c, exists rest, C = below c C ++ rest.
Proof.
  induction C as [|y C IH]; intros S c; [exists []; reflexivity|]. destruct (ss_tail _ _ S) as [S' F]. cbn [below filter].
  destruct (N.ltb_spec y c).
  - destruct (IH S' c) as [rest E]. exists rest. cbn [app]. fold (below c C). rewrite <- E. reflexivity.
  - exists (y :: C). fold (below c C). rewrite (below_all c C); [reflexivity|]. eapply Forall_impl; [|exact F]. cbv beta. intros. lia.
Qed.
Lemma below_sorted c C : SS C -> SS (below c C).
Proof. intros S. apply flt_sorted; exact S. Qed.

(* positions *)
Lemma index_of_spec x : forall l k, In x l -> (k <= index_of x l k < k + length l)%nat /\ nth (index_of x l k - k) l 0 = x.
Proof.
  induction l as [|y r IH]; intros k Hin; [destruct Hin|]. cbn [index_of length]. destruct (N.eqb_spec x y) as [->|Ne].
  - split; [lia|]. rewrite Nat.sub_diag. reflexivity.
  - destruct Hin as [E|Hin]; [congruence|]. destruct (IH (S k) Hin) as [B E]. split; [lia|].
    replace (index_of x r (S k) - k)%nat with (S (index_of x r (S k) - S k)) by lia. exact E.
Qed.
Lemma ss_nodup C : SS C -> NoDup C.
Proof.
  induction C as [|y C IH]; intros S; [constructor|]. destruct (ss_tail _ _ S) as [S' F]. constructor; [|apply IH; exact S'].
  intros Hin. rewrite Forall_forall in F. specialize (F y Hin). lia.
Qed.
Lemma index_of_prefix x I rest : In x I -> index_of x (I ++ rest) 0 = index_of x I 0.
Proof.
  generalize 0%nat. induction I as [|y r IH]; intros k Hin; [destruct Hin|]. cbn [app index_of]. destruct (N.eqb_spec x y); [reflexivity|].
  destruct Hin as [E|Hin]; [congruence|]. apply IH. exact Hin.
Qed.
(* in a duplicate-free list, the position of x is the only place where x sits *)
Lemma nodup_pos_gen I : NoDup I -> forall p k x, (p < length I)%nat -> nth p I 0 = x -> index_of x I k = (p + k)%nat.
Proof.
  induction I as [|y r IH]; intros ND p k x L E; [cbn in L; lia|]. inversion ND as [|? ? Ny NDr]; subst. cbn [index_of].
  destruct p as [|p].
  - cbn [nth]. rewrite N.eqb_refl. lia.
  - cbn [nth length] in *. destruct (N.eqb_spec (nth p r 0) y) as [Exy|_]; [exfalso; apply Ny; rewrite <- Exy; apply nth_In; lia|].
    rewrite (IH NDr p (S k) _ ltac:(lia) eq_refl). lia.
Qed.
Lemma nodup_pos I p x : NoDup I -> (p < length I)%nat -> nth p I 0 = x -> index_of x I 0 = p.
Proof. intros ND L E. rewrite (nodup_pos_gen I ND p 0%nat x L E). lia. Qed.

(* ---- what the marking pass records ---- *)
Lemma trim_marks_keeps k : forall cur set x, In x set -> In x (snd (trim_marks k cur set)).
Proof. induction k as [|k IH]; intros cur set x Hin; cbn [trim_marks snd]; [exact Hin|]. apply IH. apply ins_in. right. exact Hin. Qed.
Lemma trim_marks_in k : forall cur set x, N.of_nat k <= cur ->
  (In x (snd (trim_marks k cur set)) <-> In x set \/ (cur - N.of_nat k <= x /\ x < cur)).
Proof.
  induction k as [|k IH]; intros cur set x L; cbn [trim_marks snd]; [split; [tauto | intros [?|?]; [assumption | lia]]|].
  rewrite IH by lia. unfold ins_in; rewrite (insert_sorted_in idH). split.
  - intros [[->|?]|?]; [right; lia | left; assumption | right; lia].
  - intros [?|?]; [left; right; assumption|]. destruct (N.eq_dec x (cur - 1)); [left; left; assumption | right; lia].
Qed.
Lemma trim_marks_cur k : forall cur set, N.of_nat k <= cur -> fst (trim_marks k cur set) = cur - N.of_nat k.
Proof. induction k as [|k IH]; intros cur set L; cbn [trim_marks fst]; [lia|]. rewrite IH by lia. lia. Qed.
Lemma changed_mono acts : forall cur set x, In x set -> In x (changed_aux acts cur set).
Proof.
  induction acts as [|[|a|a b] r IH]; intros cur set x Hin; cbn [changed_aux]; [exact Hin| | |].
  - apply IH. apply ins_in. right. exact Hin.
  - destruct (trim_marks (N.to_nat a) cur set) as [c s] eqn:E. apply IH. change s with (snd (c, s)). rewrite <- E. apply trim_marks_keeps. exact Hin.
  - apply IH. apply ins_in. right. apply ins_in. right. exact Hin.
Qed.
Lemma touched_changed acts : forall num set, touched acts num set = changed_aux acts num set.
Proof. induction acts as [|[|a|a b] r IH]; intros num set; cbn [touched changed_aux]; [reflexivity | apply IH | destruct (trim_marks (N.to_nat a) num set); apply IH | apply IH]. Qed.
