(* Inserting the root of an aligned perfect subtree is the same as inserting its leaves one by one -- for any accumulator
   contents, honest or not: a statement about the shape of the digit list only. *)
From Coq Require Import List NArith Arith Bool Lia ZifyN ZifyNat ZifyBool.
From Sia Require Import Prim.Tok Merkle.Tree Merkle.Forest Merkle.Rhp Merkle.RhpProofs Merkle.RhpRoot Merkle.RgStruct Merkle.RgAppend.
Import ListNotations.
Local Open Scope N_scope.

Section Shape.
Variable H : bytes -> bytes.
Notation node := (Rhp.node H).
Notation mroot := (Rhp.mroot H).
Notation carry := (Rhp.carry H).
Notation ins := (Rhp.insert_node H).
Notation ins0 := (fun a h => Rhp.insert_node H h 0 a).

(* the h lowest digits are empty *)
Fixpoint lowfree (h : nat) (ds : pacc) : Prop :=
  match h with O => True | S k => match ds with [] => True | d :: r => d = None /\ lowfree k r end end.

Lemma lowfree_ins h : forall ds x, lowfree h ds -> lowfree h (ins x h ds).
Proof.
  induction h as [|h IH]; intros ds x L; [exact I|]. destruct ds as [|d r]; cbn [Rhp.insert_node lowfree] in *.
  - split; [reflexivity | apply IH; destruct h; exact I].
  - destruct L as [-> L]. split; [reflexivity | apply IH; exact L].
Qed.
Lemma lowfree_le h k ds : (k <= h)%nat -> lowfree h ds -> lowfree k ds.
Proof.
  revert k ds. induction h as [|h IH]; intros k ds Le L; [replace k with 0%nat by lia; exact I|].
  destruct k as [|k]; [exact I|]. destruct ds as [|d r]; [exact I|]. cbn [lowfree] in *. destruct L as [E L]. split; [exact E | apply IH; [lia | exact L]].
Qed.
Lemma lowfree_nil h : lowfree h [].
Proof. destruct h; exact I. Qed.

(* two insertions at height h into a list whose h+1 lowest digits are empty = one insertion of their node at height h+1 *)
Lemma ins_twice h : forall ds x y, lowfree (S h) ds -> ins y h (ins x h ds) = ins (node x y) (S h) ds.
Proof.
  induction h as [|h IH]; intros ds x y L.
  - destruct ds as [|d r]; cbn [Rhp.insert_node Rhp.carry]; [reflexivity|]. cbn [lowfree] in L. destruct L as [-> _]. reflexivity.
  - destruct ds as [|d r].
    + cbn [Rhp.insert_node]. f_equal. rewrite (IH [] x y (lowfree_nil _)). reflexivity.
    + cbn [lowfree] in L. destruct L as [-> L]. cbn [Rhp.insert_node]. f_equal. rewrite (IH r x y L). reflexivity.
Qed.

Lemma fold_ins_app (a b : list hash) ds : fold_left ins0 (a ++ b) ds = fold_left ins0 b (fold_left ins0 a ds).
Proof. apply fold_left_app. Qed.

(* the leaves of a perfect tree of height h, inserted one by one where the h lowest digits are empty *)
Lemma ins_perfect t : forall ds, perfect hash t -> lowfree (height hash t) ds ->
  fold_left ins0 (leaves hash t) ds = ins (root hash node t) (height hash t) ds.
Proof.
  induction t as [x|l IHl r IHr]; intros ds P L; cbn [leaves height root fold_left] in *; [reflexivity|].
  destruct P as (Pl & Pr & Eh). rewrite fold_ins_app.
  assert (Ll : lowfree (height hash l) ds) by (apply (lowfree_le (S (height hash l)) (height hash l) ds); [lia | exact L]).
  rewrite (IHl ds Pl Ll).
  rewrite (IHr _ Pr ltac:(rewrite <- Eh; apply lowfree_ins; exact Ll)).
  rewrite <- Eh. apply ins_twice. exact L.
Qed.

(* the digit pattern as a number (RgAppend.dval) *)
Lemma dval_lowfree h : forall (ds : pacc) q, dval ds = q * 2 ^ N.of_nat h -> lowfree h ds.
Proof.
  induction h as [|h IH]; intros ds q E; [exact I|]. destruct ds as [|d r]; [exact I|]. cbn [lowfree dval] in *.
  replace (N.of_nat (S h)) with (N.of_nat h + 1) in E by lia. rewrite N.pow_add_r, N.pow_1_r in E.
  destruct d as [t|].
  - exfalso. assert (1 + 2 * dval r = 2 * (q * 2 ^ N.of_nat h)) by lia. lia.
  - split; [reflexivity|]. apply (IH r q). lia.
Qed.
Lemma dval_carry x : forall ds : pacc, dval (carry x ds) = dval ds + 1.
Proof. intros ds. revert x. induction ds as [|[t|] r IH]; intros x; cbn [Rhp.carry dval]; [lia | rewrite IH; lia | lia]. Qed.
Lemma dval_fold l : forall ds : pacc, dval (fold_left ins0 l ds) = dval ds + N.of_nat (length l).
Proof. induction l as [|x l IH]; intros ds; cbn [fold_left length]; [lia|]. rewrite IH. cbn [Rhp.insert_node]. rewrite dval_carry. lia. Qed.
Lemma dval_ins h : forall (ds : pacc) x, lowfree h ds -> dval (ins x h ds) = dval ds + 2 ^ N.of_nat h.
Proof.
  induction h as [|h IH]; intros ds x L; [cbn [Rhp.insert_node]; rewrite dval_carry; cbn; lia|].
  replace (N.of_nat (S h)) with (N.of_nat h + 1) by lia. rewrite N.pow_add_r, N.pow_1_r.
  destruct ds as [|d r]; cbn [Rhp.insert_node dval lowfree] in *.
  - rewrite (IH [] x (lowfree_nil _)). cbn [dval]. lia.
  - destruct L as [-> L]. rewrite (IH r x L). lia.
Qed.

(* a list of 2^h hashes, inserted where the h lowest digits are empty, is its plain root inserted at height h *)
Lemma ins_block h (l : list hash) ds : length l = (2 ^ h)%nat -> lowfree h ds -> fold_left ins0 l ds = ins (mroot l) h ds.
Proof.
  intros Ll L. destruct (perfect_of_list h l Ll) as (t & Pt & Ht & Lt). rewrite <- Lt. rewrite (perfect_root H t Pt). rewrite <- Ht in L |- *.
  apply ins_perfect; assumption.
Qed.
End Shape.
