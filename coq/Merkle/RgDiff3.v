(* Diff proofs, builder side: the tree hashes serve the list after the actions too; VerifyDiffProof accepts BuildDiffProof's
   output with the plain roots of the old and the new list, and an accepted new root is the plain root of the new list. *)
From Coq Require Import List NArith Arith Bool Lia ZifyN ZifyNat ZifyBool Sorted.
From Sia Require Import Prim.Tok Merkle.Tree Merkle.Forest Merkle.Rhp Merkle.RhpProofs Merkle.RhpRoot.
From Sia Require Import Merkle.RgBits Merkle.RgLoops Merkle.RgFinal Merkle.RgSound Merkle.RgGap Merkle.RgMulti.
From Sia Require Import Merkle.RgDiff1 Merkle.RgDiff2.
Import ListNotations.
Local Open Scope N_scope.

Fixpoint seqN (lo : N) (k : nat) : list N := match k with O => [] | S k' => lo :: seqN (lo + 1) k' end.
Lemma seqN_snoc k : forall lo, seqN lo (S k) = seqN lo k ++ [lo + N.of_nat k].
Proof.
  induction k as [|k IH]; intros lo; [cbn; f_equal; lia|]. change (seqN lo (S (S k))) with (lo :: seqN (lo + 1) (S k)). rewrite IH.
  cbn [seqN app]. do 2 f_equal. f_equal. lia.
Qed.
Lemma below_seq C : SS C -> forall k lo, (forall x, lo <= x -> x < lo + N.of_nat k -> In x C) -> below (lo + N.of_nat k) C = below lo C ++ seqN lo k.
Proof.
  intros HC. induction k as [|k IH]; intros lo Hin.
  - cbn [seqN]. rewrite app_nil_r. f_equal. lia.
  - replace (lo + N.of_nat (S k)) with ((lo + N.of_nat k) + 1) by lia. rewrite (below_succ C HC) by (apply Hin; lia).
    rewrite IH by (intros x X1 X2; apply Hin; lia). rewrite seqN_snoc, app_assoc. reflexivity.
Qed.

Section Gaps.
Variable H : bytes -> bytes.
Notation mroot := (Rhp.mroot H).
Notation range_subtrees := (Rhp.range_subtrees H).
Notation build_gaps := (Rhp.build_gaps H).

(* the gap builder with the end of the last gap made explicit *)
Fixpoint gapsl (L : list hash) (start : N) (idxs : list N) (lim : N) : list hash :=
  match idxs with
  | [] => range_subtrees FUEL L start lim
  | e :: r => range_subtrees FUEL L start e ++ gapsl L (e + 1) r lim
  end.
Lemma build_gaps_gapsl L idxs : forall start, build_gaps FUEL L start idxs = gapsl L start idxs (N.of_nat (length L)).
Proof. induction idxs as [|e r IH]; intros start; cbn [Rhp.build_gaps gapsl]; [reflexivity | rewrite IH; reflexivity]. Qed.

Lemma nth_skipn' {A} (l : list A) d : forall i p, nth p (skipn i l) d = nth (i + p) l d.
Proof. induction l as [|y l IH]; intros i p; [rewrite skipn_nil; destruct p, i; reflexivity|]. destruct i; [reflexivity|]. cbn [skipn Nat.add nth]. apply IH. Qed.
Lemma slice_ext (L L' : list hash) i s : i + s <= N.of_nat (length L) -> i + s <= N.of_nat (length L') ->
  (forall x, i <= x -> x < i + s -> nth (N.to_nat x) L zero_hash = nth (N.to_nat x) L' zero_hash) -> slice L i s = slice L' i s.
Proof.
  intros B B' E. apply (nth_ext _ _ zero_hash zero_hash); [rewrite !slice_length by assumption; reflexivity|].
  intros p Lp. rewrite slice_length in Lp by assumption. unfold slice. rewrite !nth_firstn_lt by exact Lp. rewrite !nth_skipn'.
  specialize (E (i + N.of_nat p) ltac:(lia) ltac:(lia)). replace (N.to_nat (i + N.of_nat p)) with (N.to_nat i + p)%nat in E by lia. exact E.
Qed.
Lemma range_ext (L L' : list hash) j : j <= N.of_nat (length L) -> j <= N.of_nat (length L') -> j < 2 ^ 64 -> forall f i,
  (forall x, i <= x -> x < j -> nth (N.to_nat x) L zero_hash = nth (N.to_nat x) L' zero_hash) -> range_subtrees f L i j = range_subtrees f L' i j.
Proof.
  intros B B' Hj. induction f as [|f IH]; intros i E; cbn [Rhp.range_subtrees]; [reflexivity|].
  destruct (N.ltb_spec i j) as [Lt|]; [|reflexivity]. cbv zeta. destruct (nss_spec i j Lt Hj) as (h & Es & _ & _ & Fit & _). rewrite Es in *.
  f_equal; [f_equal; apply slice_ext; try lia; intros x X1 X2; apply E; lia | apply IH; intros x X1 X2; apply E; lia].
Qed.
Lemma gapsl_ext (L L' : list hash) lim : lim <= N.of_nat (length L) -> lim <= N.of_nat (length L') -> lim < 2 ^ 64 -> forall idxs start,
  incr start idxs lim ->
  (forall x, start <= x -> x < lim -> ~ In x idxs -> nth (N.to_nat x) L zero_hash = nth (N.to_nat x) L' zero_hash) ->
  gapsl L start idxs lim = gapsl L' start idxs lim.
Proof.
  intros B B' Hl. induction idxs as [|e r IH]; intros start I E; cbn [gapsl incr] in *.
  - apply range_ext; try assumption. intros x X1 X2. apply E; [lia | lia | intros []].
  - destruct I as (I1 & I2 & I3).
    assert (R1 : range_subtrees FUEL L start e = range_subtrees FUEL L' start e).
    { apply range_ext; try lia. intros x X1 X2. apply E; [lia | lia|]. intros [<-|Hin]; [lia|].
      (* members of r are above e *)
      clear -I3 Hin X2. revert x e I3 Hin X2. induction r as [|e' r IHr]; intros x e I3 Hin X2; [destruct Hin|]. cbn [incr] in I3. destruct I3 as (J1 & J2 & J3).
      destruct Hin as [<-|Hin]; [lia | apply (IHr x e' J3 Hin); lia]. }
    assert (R2 : gapsl L (e + 1) r lim = gapsl L' (e + 1) r lim).
    { apply IH; [exact I3|]. intros x X1 X2 Nx. apply E; [lia | lia|]. intros [<-|Hin]; [lia | contradiction]. }
    rewrite R1, R2. reflexivity.
Qed.
(* consecutive indices up to the end add no gap *)
Lemma gapsl_seq_nil L k : forall lo, gapsl L lo (seqN lo k) (lo + N.of_nat k) = [].
Proof.
  induction k as [|k IH]; intros lo; cbn [seqN gapsl].
  - replace (lo + N.of_nat 0) with lo by lia. apply subtrees_nil. lia.
  - rewrite (subtrees_nil H L FUEL lo lo) by lia. cbn [app]. replace (lo + N.of_nat (S k)) with ((lo + 1) + N.of_nat k) by lia. apply IH.
Qed.
Lemma gapsl_tail L k lo : forall idxs start, gapsl L start (idxs ++ seqN lo k) (lo + N.of_nat k) = gapsl L start idxs lo.
Proof.
  induction idxs as [|e r IH]; intros start; cbn [app gapsl].
  - destruct k as [|k]; cbn [seqN gapsl]; [f_equal; lia|].
    replace (lo + N.of_nat (S k)) with ((lo + 1) + N.of_nat k) by lia. rewrite gapsl_seq_nil, app_nil_r. reflexivity.
  - rewrite IH. reflexivity.
Qed.
End Gaps.

Section Final.
Variable H : bytes -> bytes.
Notation mroot := (Rhp.mroot H).

Lemma below_incr C lim : SS C -> incr 0 (below lim C) lim.
Proof.
  intros HC. apply (sorted_incr idH); [apply below_sorted; exact HC | | lia].
  rewrite Forall_forall. intros x Hx. apply below_mono in Hx. lia.
Qed.

(* the tree hashes built over the old list are the tree hashes of the new list at the new indices *)
Lemma gaps_same (C : list N) (ls new : list hash) : SS C -> N.of_nat (length ls) < 2 ^ 64 -> N.of_nat (length new) < 2 ^ 64 ->
  (forall i, ~ In (N.of_nat i) C -> (i < length ls)%nat -> (i < length new)%nat -> nth i new zero_hash = nth i ls zero_hash) ->
  (forall k, N.min (N.of_nat (length ls)) (N.of_nat (length new)) <= k -> k < N.max (N.of_nat (length ls)) (N.of_nat (length new)) -> In k C) ->
  build_gaps H FUEL new 0 (below (N.of_nat (length new)) C) = build_gaps H FUEL ls 0 (below (N.of_nat (length ls)) C).
Proof.
  intros HC Bn Bn' F1 F2. rewrite !build_gaps_gapsl. set (n := N.of_nat (length ls)) in *. set (n' := N.of_nat (length new)) in *.
  set (lo := N.min n n').
  assert (E1 : below n C = below lo C ++ seqN lo (N.to_nat (n - lo))).
  { replace n with (lo + N.of_nat (N.to_nat (n - lo))) at 1 by (unfold lo; lia). apply below_seq; [exact HC|]. intros x X1 X2. apply F2; unfold lo in *; lia. }
  assert (E2 : below n' C = below lo C ++ seqN lo (N.to_nat (n' - lo))).
  { replace n' with (lo + N.of_nat (N.to_nat (n' - lo))) at 1 by (unfold lo; lia). apply below_seq; [exact HC|]. intros x X1 X2. apply F2; unfold lo in *; lia. }
  rewrite E1, E2.
  pose proof (gapsl_tail H new (N.to_nat (n' - lo)) lo (below lo C) 0) as T1. replace (lo + N.of_nat (N.to_nat (n' - lo))) with n' in T1 by (unfold lo; lia).
  pose proof (gapsl_tail H ls (N.to_nat (n - lo)) lo (below lo C) 0) as T2. replace (lo + N.of_nat (N.to_nat (n - lo))) with n in T2 by (unfold lo; lia).
  rewrite T1, T2. apply gapsl_ext; try (unfold lo, n, n' in *; lia); [apply below_incr; exact HC|].
  intros x X1 X2 Nx. apply F1; [rewrite N2Nat.id; intros Hin; apply Nx; apply below_mono; split; [exact Hin | lia] | unfold lo, n, n' in *; lia | unfold lo, n, n' in *; lia].
Qed.

(* BuildDiffProof's output passes VerifyDiffProof with the plain roots of the old list and of the list after the actions *)
Theorem diff_complete (acts : list action) (ls ar new : list hash) :
  apply_acts acts ls ar = Some new -> N.of_nat (length ls) < 2 ^ 64 -> N.of_nat (length new) < 2 ^ 64 ->
  verify_diff_proof H acts (N.of_nat (length ls)) (fst (build_diff_proof H acts ls)) (snd (build_diff_proof H acts ls)) (mroot ls) (mroot new) ar = Some true.
Proof.
  intros EA Bn Bn'. set (C := changed_aux acts (N.of_nat (length ls)) []).
  assert (HC : SS C) by (apply chg_sorted; constructor).
  assert (Eidx : sectors_changed acts (N.of_nat (length ls)) = below (N.of_nat (length ls)) C) by reflexivity.
  destruct (diff_inv C HC acts ls ar [] new ltac:(constructor) eq_refl EA) as (nlh & nidx & M1 & M2 & E1 & E2 & Cnt & F1 & F2).
  pose proof (diff_old_complete H acts ls Bn) as Old. unfold build_diff_proof in *. cbn [fst snd] in *.
  unfold verify_diff_proof. rewrite Old. rewrite Eidx.
  fold (leaves_at ls (below (N.of_nat (length ls)) C)). rewrite leaves_at_length, Nat.eqb_refl. cbn [negb].
  unfold modify_leaves. rewrite touched_changed. fold C. rewrite M1, M2.
  match goal with |- verify_multi _ _ _ _ ?X _ = _ => replace X with (N.of_nat (length new)) by (rewrite E2; unfold leaves_at; rewrite ?map_length; lia) end.
  rewrite E2, E1. rewrite <- (gaps_same C ls new HC Bn Bn' F1 F2).
  apply (multi_complete H new _ Bn'). apply below_incr. exact HC.
Qed.

(* hence: whatever new root VerifyDiffProof accepts is the plain root of the list after the actions, or a collision is exhibited *)
Theorem diff_sound (acts : list action) (ls th lh ar new : list hash) (newRoot : hash) :
  apply_acts acts ls ar = Some new -> N.of_nat (length ls) < 2 ^ 64 -> N.of_nat (length new) < 2 ^ 64 ->
  verify_diff_proof H acts (N.of_nat (length ls)) th lh (mroot ls) newRoot ar = Some true ->
  (newRoot = mroot new /\ lh = snd (build_diff_proof H acts ls) /\ th = fst (build_diff_proof H acts ls)) \/ NodeCollision H.
Proof.
  intros EA Bn Bn' V. pose proof (diff_complete acts ls ar new EA Bn Bn') as Vc.
  destruct (diff_old_sound H acts ls th lh newRoot ar Bn V) as [[El Et]|Co]; [|right; exact Co].
  destruct (diff_new_determined H acts ls th lh newRoot ar Bn V) as [D1|Co]; [|right; exact Co].
  destruct (diff_new_determined H acts ls _ _ (mroot new) ar Bn Vc) as [D2|Co]; [|right; exact Co].
  left. split; [congruence | split; assumption].
Qed.
End Final.

(* rhp/v4 free-sector proofs are diff proofs for "swap the i-th freed index with the i-th sector from the end, then trim" *)
Section Free.
Variable H : bytes -> bytes.
Theorem free_complete (freed : list N) (ls new : list hash) :
  let acts := convert_free_actions freed (N.of_nat (length ls)) in
  apply_acts acts ls [] = Some new -> N.of_nat (length ls) < 2 ^ 64 -> N.of_nat (length new) < 2 ^ 64 ->
  verify_diff_proof H acts (N.of_nat (length ls)) (fst (build_diff_proof H acts ls)) (snd (build_diff_proof H acts ls)) (Rhp.mroot H ls) (Rhp.mroot H new) [] = Some true.
Proof. intros acts. apply diff_complete. Qed.
Theorem free_sound (freed : list N) (ls th lh new : list hash) (newRoot : hash) :
  let acts := convert_free_actions freed (N.of_nat (length ls)) in
  apply_acts acts ls [] = Some new -> N.of_nat (length ls) < 2 ^ 64 -> N.of_nat (length new) < 2 ^ 64 ->
  verify_diff_proof H acts (N.of_nat (length ls)) th lh (Rhp.mroot H ls) newRoot [] = Some true ->
  (newRoot = Rhp.mroot H new /\ lh = snd (build_diff_proof H acts ls) /\ th = fst (build_diff_proof H acts ls)) \/ NodeCollision H.
Proof. intros acts. apply diff_sound. Qed.
End Free.

(* the premises are satisfiable: five sectors; swap 1 and 3, trim 2, append one *)
Example apply_acts_example : apply_acts [ASwap 1 3; ATrim 2; AAppend] [[1]; [2]; [3]; [4]; [5]] [[9]] = Some [[1]; [4]; [3]; [9]].
Proof. reflexivity. Qed.
Example free_example : apply_acts (convert_free_actions [1] 4) [[1]; [2]; [3]; [4]] [] = Some [[1]; [4]; [3]].
Proof. reflexivity. Qed.
