(* C18 — multiproof compression and compact block relay are lossless. *)
From Coq Require Import List NArith Bool.
From Sia Require Import Merkle.Tree Merkle.Multi Merkle.MultiProofs Merkle.MultiInfer Merkle.MultiAll Gateway.Outline.
Import ListNotations.
Open Scope N_scope.

(* For every perfect tree t (of any height) placed at any base, and every non-empty index-sorted list of
   leaves (duplicates allowed) whose individual proofs are the sibling paths in t: the multiproof is computed
   without a panic, has exactly multiproofSize hashes, and expanding it from the leaf hashes alone restores
   every individual proof bit-for-bit, recomputes the tree root and consumes exactly the multiproof. *)
Theorem C18_multiproof_lossless : forall (hash : Type) (node : hash -> hash -> hash) (t : ptree hash),
  perfect hash t -> forall base (ls : list (mleaf hash)) rest, ls <> [] -> sorted hash ls -> Forall (valid hash node t base) ls ->
  exists mp, compute hash (height hash t) base ls = Some mp /\ length mp = msize hash (height hash t) base ls /\
             expand hash node (height hash t) base ls (mp ++ rest) =
               Some (root hash node t, map (fun x => firstn (height hash t) (ml_proof hash x)) ls, rest).
Proof. exact expand_compute. Qed.
Print Assumptions C18_multiproof_lossless.

(* the proofs the theorem speaks about are exactly the verifying ones: proofRoot(leaf, index, sibling path) = root *)
Theorem C18_individual_proofs_verify : forall (hash : Type) (node : hash -> hash -> hash) (t : ptree hash),
  perfect hash t -> forall base i, base <= i < base + pow2 (height hash t) ->
  proofRoot hash node (leaf_in hash t base i) (lsb (i - base) (height hash t)) (proof_in hash node t base i) = root hash node t.
Proof. exact proof_in_verifies. Qed.
Print Assumptions C18_individual_proofs_verify.

(* the codec's leaf-count inference: for leaves of one accumulator state (leaf idx in the tree of height h of an
   accumulator with NL leaves), the decoder accepts every leaf and recovers exactly its proof length from the
   inferred count *)
Theorem C18_proof_lengths_recovered : forall NL ls idx h,
  Forall (fun x => in_tree NL (fst x) (snd x)) ls -> In (idx, h) ls -> proof_len idx (infer_leaves ls) = Some h.
Proof. exact proof_len_recovered. Qed.
Print Assumptions C18_proof_lengths_recovered.

(* the whole codec core, all trees of one state at once: for any list of leaves (any order, duplicates allowed) each
   carrying the sibling path of its position in the tree of its height (trees aligned as in an accumulator), the
   multiproof is computed without a panic, has exactly multiproofSize hashes, and expanding it over leaves that agree
   with the originals only in index, leaf hash and proof length (what a decoder has) restores every proof *)
Theorem C18_codec_lossless : forall (hash : Type) (node : hash -> hash -> hash) (T : nat -> ptree hash) (B : nat -> N)
  (f : mleaf hash -> mleaf hash) ls rest,
  (forall x, ml_idx hash (f x) = ml_idx hash x) -> (forall x, ml_hash hash (f x) = ml_hash hash x) ->
  (forall x, length (ml_proof hash (f x)) = length (ml_proof hash x)) ->
  Forall (leaf_ok hash node T B) ls ->
  exists mp out, compute_all hash ls = Some mp /\ length mp = msize_all hash ls /\
    expand_all hash node (map f ls) (mp ++ rest) = Some (out, rest) /\
    forall x, In x ls -> lookup_proof hash out (length (ml_proof hash x)) (ml_idx hash x) = Some (ml_proof hash x).
Proof. exact multiproof_codec_lossless. Qed.
Print Assumptions C18_codec_lossless.

(* the outline carries the block's transaction hashes whatever is omitted (so commitment and ID are those of the block) *)
Theorem C18_outline_same_hashes : forall (T K : Type) (K_eqb : K -> K -> bool) (h : T -> K) b omit,
  hashes T K (outline T K K_eqb h b omit) = map h b.
Proof. exact outline_hashes. Qed.
Print Assumptions C18_outline_same_hashes.
Theorem C18_complete_same_hashes : forall (T K : Type) (K_eqb : K -> K -> bool) (h : T -> K) o pool,
  hashes T K (complete T K K_eqb h o pool) = hashes T K o.
Proof. exact complete_hashes. Qed.
Print Assumptions C18_complete_same_hashes.

(* Complete reports exactly the hashes that were omitted and are not offered, in block order *)
Theorem C18_missing_exact : forall (T K : Type) (K_eqb : K -> K -> bool), (forall a b, K_eqb a b = true <-> a = b) ->
  forall (h : T -> K) b omit pool,
  missing T K (complete T K K_eqb h (outline T K K_eqb h b omit) pool) =
  filter (fun x => memb K K_eqb x omit && negb (memb K K_eqb x (map h pool))) (map h b).
Proof. exact missing_exact. Qed.
Print Assumptions C18_missing_exact.

(* any pool that contains the omitted transactions (any order, any extras) restores exactly the block,
   unless two different transactions with the same full hash are exhibited *)
Theorem C18_complete_restores : forall (T K : Type) (K_eqb : K -> K -> bool), (forall a b, K_eqb a b = true <-> a = b) ->
  forall (h : T -> K) (T_eq_dec : forall a b : T, {a = b} + {a <> b}) b omit pool,
  (forall t, In t b -> memb K K_eqb (h t) omit = true -> In t pool) ->
  (block_of T K (complete T K K_eqb h (outline T K K_eqb h b omit) pool) = b /\
   missing T K (complete T K K_eqb h (outline T K K_eqb h b omit) pool) = []) \/ Collision T K h.
Proof. exact complete_restores. Qed.
Print Assumptions C18_complete_restores.
