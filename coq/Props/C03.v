(* C03 — spends, revisions, renewals need content-binding authorisation. The signature oracle [vt] holds
   the (key, sighash, signature) triples the real Ed25519 accepts; which content a sighash binds is C12. *)
From Coq Require Import ZArith List Bool.
From Sia Require Import Prim.Result Prim.Tok Policy.Model Ledger.Types Ledger.Mid Ledger.Validate Ledger.Apply Ledger.Proofs.
Import ListNotations.
Open Scope Z_scope.

(* every accepted v2 input reveals a policy hashing to the parent's address, and that policy is satisfied
   at the parent height / median time by the supplied witnesses *)
Theorem C03_v2_input_authorised : forall H vt pt se sd s sighash sp addr e1 e2,
  validate_policy H vt pt se sd s sighash sp addr e1 e2 = Ok tt ->
  address H (sp_policy sp) = addr /\ verify_policy (Z.to_N (s_height s)) (s_median s) (fun k sg => vlookup vt k sighash sg) (plookup pt) se sd
                (sp_policy sp) (sp_sigs sp) (sp_pres sp) = Ok tt.
Proof. exact policy_authorises. Qed.
Print Assumptions C03_v2_input_authorised.

(* every accepted v2 contract is signed by its own renter and host keys *)
Theorem C03_contract_signed_by_its_keys : forall vt s fc, validate_contract vt s fc = Ok tt ->
  vlookup vt (c_renter_key fc) (c_sighash fc) (c_renter_sig fc) = true /\ vlookup vt (c_host_key fc) (c_sighash fc) (c_host_sig fc) = true.
Proof. intros vt s fc Hv. destruct (contract_wellformed vt s fc Hv) as (_ & _ & _ & _ & _ & A & B). auto. Qed.
Print Assumptions C03_contract_signed_by_its_keys.

(* every accepted revision is signed by the keys of the contract as it currently stands (the parent, or an
   earlier revision in the same block), not by the keys the revision itself names *)
Theorem C03_revision_signed_by_current_keys : forall net vt s m e rev, validate_revision net vt s m e rev = Ok tt ->
  exists cur,
    (cur = v2_fc e \/ exists i d, elem_idx m (v2_id e) = Some i /\ nth_error (m_v2fces m) i = Some d /\ d_v2_rev d = Some cur) /\ vlookup vt (c_renter_key cur) (c_sighash rev) (c_renter_sig rev) = true /\ vlookup vt (c_host_key cur) (c_sighash rev) (c_host_sig rev) = true.
Proof.
  intros net vt s m e rev Hv. destruct (revision_invariants net vt s m e rev Hv) as (cur & A & _ & _ & _ & _ & _ & _ & _ & _ & _ & B & C). eauto.
Qed.
Print Assumptions C03_revision_signed_by_current_keys.
