(* C03 — spends, revisions, renewals need content-binding authorisation. The signature oracle [vt] holds
   the (key, sighash, signature) triples the real Ed25519 accepts; which content a sighash binds is C12. *)
From Coq Require Import ZArith List Bool.
From Sia Require Import Prim.Result Prim.Tok Policy.Model Ledger.Types Ledger.Mid Ledger.Validate Ledger.Apply Ledger.Proofs Ledger.Auth Ledger.V1Gates Ledger.V1Sigs.
Import ListNotations.
Open Scope Z_scope.

(* every accepted v2 input reveals a policy hashing to the parent's address, and that policy is satisfied
   at the parent height / median time by the supplied witnesses *)
Theorem C03_v2_input_authorised : forall H vt pt se sd s sighash sp addr e1 e2,
  validate_policy H vt pt se sd s sighash sp addr e1 e2 = Ok tt ->
  address H (sp_policy sp) = addr /\ verify_policy (Z.to_N (s_height s)) (s_median s) (fun k sg => vlookup vt k sighash sg) (plookup pt) se sd
                (sp_policy sp) (sp_sigs sp) (sp_pres sp) = Ok tt.
Proof. exact policy_authorises. Qed.
Print Assumptions C03_v2_input_authorised.

(* every accepted v2 contract is signed by its own renter and host keys *)
Theorem C03_contract_signed_by_its_keys : forall vt s fc, validate_contract vt s fc = Ok tt ->
  vlookup vt (c_renter_key fc) (c_sighash fc) (c_renter_sig fc) = true /\ vlookup vt (c_host_key fc) (c_sighash fc) (c_host_sig fc) = true.
Proof. intros vt s fc Hv. destruct (contract_wellformed vt s fc Hv) as (_ & _ & _ & _ & _ & A & B). auto. Qed.
Print Assumptions C03_contract_signed_by_its_keys.

(* every accepted revision is signed by the keys of the contract as it currently stands (the parent, or an
   earlier revision in the same block), not by the keys the revision itself names *)
Theorem C03_revision_signed_by_current_keys : forall net vt s m e rev, validate_revision net vt s m e rev = Ok tt ->
  exists cur,
    (cur = v2_fc e \/ exists i d, elem_idx m (v2_id e) = Some i /\ nth_error (m_v2fces m) i = Some d /\ d_v2_rev d = Some cur) /\ vlookup vt (c_renter_key cur) (c_sighash rev) (c_renter_sig rev) = true /\ vlookup vt (c_host_key cur) (c_sighash rev) (c_host_sig rev) = true.
Proof.
  intros net vt s m e rev Hv. destruct (revision_invariants net vt s m e rev Hv) as (cur & A & _ & _ & _ & _ & _ & _ & _ & _ & _ & B & C). eauto.
Qed.
Print Assumptions C03_revision_signed_by_current_keys.

(* every attestation of an accepted transaction carries a key and is signed by it *)
Theorem C03_attestations_signed : forall vt t, validate_attestations vt t = Ok tt ->
  Forall (fun a => at_key_empty a = false /\ vlookup vt (at_pubkey a) (at_sighash a) (at_sig a) = true) (t2_att t).
Proof. exact attestations_signed. Qed.
Print Assumptions C03_attestations_signed.

(* an accepted renewal keeps both keys, is signed by both keys of the contract being renewed, conserves its value, and
   the new contract is itself well formed and signed by those keys *)
Theorem C03_renewal_authorised : forall vt s fc rn, validate_renewal vt s fc rn = Ok tt ->
  c_renter_key (rn_new rn) = c_renter_key fc /\ c_host_key (rn_new rn) = c_host_key fc /\
  vlookup vt (c_renter_key fc) (rn_sighash rn) (rn_renter_sig rn) = true /\
  vlookup vt (c_host_key fc) (rn_sighash rn) (rn_host_sig rn) = true /\
  sco_value (rn_final_renter rn) + rn_renter_rollover rn + sco_value (rn_final_host rn) + rn_host_rollover rn
    = sco_value (c_renter fc) + sco_value (c_host fc) /\
  validate_contract vt s (rn_new rn) = Ok tt.
Proof. exact renewal_authorised. Qed.
Print Assumptions C03_renewal_authorised.

(* the Foundation addresses change only in a transaction spending an output of the current management address *)
Theorem C03_foundation_update_authorised : forall s t a, validate_foundation_update s t = Ok tt -> t2_new_foundation t = Some a ->
  exists i, In i (t2_sci t) /\ sco_addr (sce_out (p_val (i2_parent i))) = s_found_mgmt s.
Proof. exact foundation_update_authorised. Qed.
Print Assumptions C03_foundation_update_authorised.

(* ---- v1 transactions ---- *)
(* every accepted v1 siacoin input reveals unlock conditions hashing to its parent's address (the parent being known from
   the block so far or the supplement), after its timelock and the parent's maturity *)
Theorem C03_v1_inputs_reveal_parent_conditions : forall H net vt se sd s m t ts, validate_txn1 H net vt se sd s m t ts = Ok tt ->
  Forall (fun i => i1_timelock i <= child s /\ is_spent m (i1_parent i) = false /\
                   exists p lf, sc_element m ts (i1_parent i) = Some (p, lf) /\ i1_uh i = sco_addr (sce_out p) /\ sce_maturity p <= child s) (t1_sci t).
Proof. exact v1_inputs_gated. Qed.
Print Assumptions C03_v1_inputs_reveal_parent_conditions.

(* every signature of an accepted v1 transaction names a listed input (or revision) and one of its keys, respects its
   timelock, covers existing fields and, for an ed25519 key, verifies under that key; entropy keys never sign; the table
   lists each input, siafund input and revision exactly once *)
Theorem C03_v1_signatures : forall vt se sd s t, validate_signatures vt se sd s t = Ok tt ->
  exists table, Forall (sig_ok vt se sd s table) (t1_sigs t) /\
    map fst table = (map i1_parent (t1_sci t) ++ map f1_parent (t1_sfi t) ++ map r1_parent (t1_rev t))%list.
Proof. exact v1_signatures_ok. Qed.
Print Assumptions C03_v1_signatures.
