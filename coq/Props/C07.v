(* C07 — contracts pay out exactly once; revisions keep totals; storage proofs. *)
From Coq Require Import ZArith List Bool.
From Sia Require Import Prim.Result Prim.Tok Policy.Model Ledger.Types Ledger.Mid Ledger.Validate Ledger.Apply Ledger.Proofs.
Import ListNotations.
Open Scope Z_scope.

(* accepted v2 revisions: total unchanged, revision number strictly higher, missed host value not raised,
   total collateral untouched, capacity not lowered, filesize within capacity, heights still in the future *)
Theorem C07_v2_revision_invariants : forall net vt s m e rev, validate_revision net vt s m e rev = Ok tt ->
  exists cur,
    (cur = v2_fc e \/ exists i d, elem_idx m (v2_id e) = Some i /\ nth_error (m_v2fces m) i = Some d /\ d_v2_rev d = Some cur) /\ sco_value (c_renter rev) + sco_value (c_host rev) = sco_value (c_renter cur) + sco_value (c_host cur) /\ c_revnum cur < c_revnum rev /\ c_missed_host rev <= c_missed_host cur /\ c_collateral rev = c_collateral cur /\ c_capacity cur <= c_capacity rev /\ c_filesize rev <= c_capacity rev /\ child s <= c_proof_height cur /\ child s <= c_proof_height rev /\ c_proof_height rev < c_exp_height rev /\ vlookup vt (c_renter_key cur) (c_sighash rev) (c_renter_sig rev) = true /\ vlookup vt (c_host_key cur) (c_sighash rev) (c_host_sig rev) = true.
Proof. exact revision_invariants. Qed.
Print Assumptions C07_v2_revision_invariants.

Theorem C07_v2_contract_wellformed : forall vt s fc, validate_contract vt s fc = Ok tt ->
  c_filesize fc <= c_capacity fc /\ child s <= c_proof_height fc /\ c_proof_height fc < c_exp_height fc /\ c_missed_host fc <= sco_value (c_host fc) /\ c_collateral fc <= sco_value (c_host fc) /\ vlookup vt (c_renter_key fc) (c_sighash fc) (c_renter_sig fc) = true /\ vlookup vt (c_host_key fc) (c_sighash fc) (c_host_sig fc) = true.
Proof. exact contract_wellformed. Qed.
Print Assumptions C07_v2_contract_wellformed.

(* the challenged leaf index is always a leaf of the file (no division by zero, index in range) *)
Theorem C07_leaf_index_in_range : forall H filesize window fcid, 0 < filesize ->
  0 <= sp_leaf_index H filesize window fcid < filesize / 64 + (if filesize mod 64 =? 0 then 0 else 1).
Proof. exact leaf_index_in_range. Qed.
Print Assumptions C07_leaf_index_in_range.
