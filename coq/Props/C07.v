(* C07 — contracts pay out exactly once; revisions keep totals; storage proofs. *)
From Coq Require Import ZArith List Bool.
From Sia Require Import Prim.Result Prim.Tok Policy.Model Ledger.Types Ledger.Mid Ledger.Validate Ledger.Apply Ledger.Proofs Merkle.Rhp Merkle.StorageProof Merkle.StorageSound Merkle.RgConv2.
Import ListNotations.
Open Scope Z_scope.

(* accepted v2 revisions: total unchanged, revision number strictly higher, missed host value not raised,
   total collateral untouched, capacity not lowered, filesize within capacity, heights still in the future *)
Theorem C07_v2_revision_invariants : forall net vt s m e rev, validate_revision net vt s m e rev = Ok tt ->
  exists cur,
    (cur = v2_fc e \/ exists i d, elem_idx m (v2_id e) = Some i /\ nth_error (m_v2fces m) i = Some d /\ d_v2_rev d = Some cur) /\ sco_value (c_renter rev) + sco_value (c_host rev) = sco_value (c_renter cur) + sco_value (c_host cur) /\ c_revnum cur < c_revnum rev /\ c_missed_host rev <= c_missed_host cur /\ c_collateral rev = c_collateral cur /\ c_capacity cur <= c_capacity rev /\ c_filesize rev <= c_capacity rev /\ child s <= c_proof_height cur /\ child s <= c_proof_height rev /\ c_proof_height rev < c_exp_height rev /\ vlookup vt (c_renter_key cur) (c_sighash rev) (c_renter_sig rev) = true /\ vlookup vt (c_host_key cur) (c_sighash rev) (c_host_sig rev) = true.
Proof. exact revision_invariants. Qed.
Print Assumptions C07_v2_revision_invariants.

Theorem C07_v2_contract_wellformed : forall vt s fc, validate_contract vt s fc = Ok tt ->
  c_filesize fc <= c_capacity fc /\ child s <= c_proof_height fc /\ c_proof_height fc < c_exp_height fc /\ c_missed_host fc <= sco_value (c_host fc) /\ c_collateral fc <= sco_value (c_host fc) /\ vlookup vt (c_renter_key fc) (c_sighash fc) (c_renter_sig fc) = true /\ vlookup vt (c_host_key fc) (c_sighash fc) (c_host_sig fc) = true.
Proof. exact contract_wellformed. Qed.
Print Assumptions C07_v2_contract_wellformed.

(* the challenged leaf index is always a leaf of the file (no division by zero, index in range) *)
Theorem C07_leaf_index_in_range : forall H filesize window fcid, 0 < filesize ->
  0 <= sp_leaf_index H filesize window fcid < filesize / 64 + (if filesize mod 64 =? 0 then 0 else 1).
Proof. exact leaf_index_in_range. Qed.
Print Assumptions C07_leaf_index_in_range.

(* ---- storage proofs: honest proofs built from the real data are always accepted ---- *)
(* for a file of any size (any number of 64-byte leaves, the last one possibly partial), the siblings of leaf i along its
   path in the plainly defined Merkle tree over the leaf hashes verify against the plain root: v2 verifier ... *)
Theorem C07_storage_proof_v2_complete : forall H (L : list bytes) filesize i d, 0 < filesize < 2 ^ 64 ->
  Z.of_nat (length L) = sp_num_leaves filesize -> (i < length L)%nat ->
  sp_root_v2 H (nth i L d) (Z.of_nat i) filesize (sp_prove H (length L) L i) = mroot H L.
Proof. exact storage_proof_v2_complete. Qed.
Print Assumptions C07_storage_proof_v2_complete.

(* ... and the v1 verifier, whatever bytes of the leaf the era hashes (the leaf hash is the padded-leaf hash) *)
Theorem C07_storage_proof_v1_complete : forall H (L : list bytes) filesize i d leaf, 0 < filesize < 2 ^ 64 ->
  Z.of_nat (length L) = sp_num_leaves filesize -> (i < length L)%nat -> nth i L d = H (0%N :: pad64 leaf) ->
  sp_root_v1 H (Z.of_nat i) filesize leaf (sp_prove H (length L) L i) = mroot H L.
Proof. exact storage_proof_v1_complete. Qed.
Print Assumptions C07_storage_proof_v1_complete.

(* the verifier's rule reconstructs the path of leaf i among n leaves: the honest proof folds to the plain root and is at
   least as long as the merge height with the last leaf *)
Theorem C07_storage_proof_path : forall H fuel (L : list bytes) i d, (i < length L)%nat -> (length L <= fuel)%nat ->
  let sth := blen (Z.lxor (Z.of_nat i) (Z.of_nat (length L) - 1)) in
  fold_rule H (nth i L d) (Z.of_nat i) sth (sp_prove H fuel L i) = mroot H L /\ sth <= Z.of_nat (length (sp_prove H fuel L i)).
Proof. exact sp_prove_verifies. Qed.
Print Assumptions C07_storage_proof_path.

(* soundness for proofs of the honest length: whatever verifies is the true leaf hash with its true siblings, or a
   collision of the node hash is exhibited (so altering the leaf data or any proof hash is rejected) *)
Theorem C07_storage_proof_sound_same_length : forall H (L : list bytes) filesize i d x proof, 0 < filesize < 2 ^ 64 ->
  Z.of_nat (length L) = sp_num_leaves filesize -> (i < length L)%nat ->
  length proof = length (sp_prove H (length L) L i) ->
  sp_root_v2 H x (Z.of_nat i) filesize proof = mroot H L ->
  (x = nth i L d /\ proof = sp_prove H (length L) L i) \/ NodeCollision H.
Proof. exact storage_proof_v2_sound_same_length. Qed.
Print Assumptions C07_storage_proof_sound_same_length.

(* soundness for every proof length the verifier lets through (at least the merge height of the index with the last
   leaf): for a file of any size, what verifies against the plain root of the leaf hashes is the hash of leaf i itself
   with exactly the siblings of leaf i -- or a collision is exhibited: two different pairs with one node hash, or a value
   that is both a leaf hash H(0x00 ++ _) and a node hash H(0x01 ++ _) *)
Theorem C07_storage_proof_sound : forall H (L : list bytes) filesize i d x proof, 0 < filesize < 2 ^ 64 ->
  Z.of_nat (length L) = sp_num_leaves filesize -> (i < length L)%nat ->
  Forall (leaf_hash_form H) L -> leaf_hash_form H x ->
  StorageProof.blen (Z.lxor (Z.of_nat i) (Z.of_nat (length L) - 1)) <= Z.of_nat (length proof) ->
  sp_root_v2 H x (Z.of_nat i) filesize proof = mroot H L ->
  (x = nth i L d /\ proof = sp_prove H (length L) L i) \/ Collision H (leaf_hash_form H).
Proof. exact storage_proof_v2_sound. Qed.
Print Assumptions C07_storage_proof_sound.

(* a proof shorter than the merge height gets the invalid marker (32 zero bytes) *)
Theorem C07_storage_proof_short : forall H x i filesize proof,
  let last := (if filesize mod 64 =? 0 then (filesize / 64 - 1) mod 2 ^ 64 else filesize / 64) in
  (length proof < Z.to_nat (StorageProof.blen (Z.lxor i last)))%nat -> sp_root_v2 H x i filesize proof = repeat 0%N 32.
Proof. exact sp_root_v2_short. Qed.
Print Assumptions C07_storage_proof_short.

(* the RHP side of a v2 storage proof: the host builds the left-to-right proof of the challenged leaf over the sector's leaf
   hashes (BuildSectorProof) and reorders it (ConvertProofOrdering); for every sector content (2^a leaf hashes) and every
   leaf that reordered proof is accepted by the consensus verifier against the plain root *)
Theorem C07_rhp_leaf_proof_accepted_by_consensus : forall H (a : nat) (L : list Rhp.hash) i filesize d,
  (1 <= a <= 30)%nat -> length L = Nat.pow 2 a -> (i < 2 ^ N.of_nat a)%N ->
  0 < filesize < 2 ^ 64 -> Z.of_nat (length L) = sp_num_leaves filesize ->
  sp_root_v2 H (nth (N.to_nat i) L d) (Z.of_nat (N.to_nat i)) filesize (convert_proof_ordering (build_range_proof H L i (i + 1)) i) = mroot H L.
Proof. exact converted_proof_accepted. Qed.
Print Assumptions C07_rhp_leaf_proof_accepted_by_consensus.
