(* C05 — element proofs survive every history; accumulator roots equal the true Merkle forest.
   [run bs] is the true forest's leaf list after any sequence of blocks (a revert returns to the
   list of the shorter history, so "any interleaving of apply and revert" is "any block list").
   H is an arbitrary hash function; [roots] is the naive forest over all leaves ever added;
   [add_leaves] is the carry chain of addLeaves; [recompute] is updateLeaves' recursion. *)
From Coq Require Import List NArith.
From Sia Require Import Prim.Tok Merkle.Tree Merkle.Update Merkle.UpdateProofs Merkle.Forest Merkle.Acc Merkle.AccProofs Merkle.Growth.
Import ListNotations.

(* after every block list, every leaf's naive proof verifies against the accumulator and
   carries the leaf's current contents (element hash, index, spent flag) *)
Theorem C05_history : forall H bs k l, nth_error (run bs) k = Some l ->
  contains_leaf H (roots H (lhashes H (run bs))) l (naive_proof H (lhashes H (run bs)) (N.of_nat k)) = true.
Proof. intros H bs k l Hn. apply member_complete; [apply (run_wf H)|exact Hn]. Qed.
Print Assumptions C05_history.

(* any proof that verifies for an index is the naive proof of that index (or a node collision is exhibited) *)
Theorem C05_proofs_are_forest_paths : forall H L x idx proof,
  verifies H (roots H L) x idx proof = true ->
  (exists j, nth_error L (N.to_nat j) = Some x /\
             (j mod 2 ^ N.of_nat (length proof) = idx mod 2 ^ N.of_nat (length proof))%N /\
             proof = naive_proof H L j)
  \/ NodeCollision hash (node H).
Proof. exact verifies_sound. Qed.
Print Assumptions C05_proofs_are_forest_paths.

(* addLeaves' carry chain = roots of the forest built naively over all leaves; leaf count too *)
Theorem C05_add_roots : forall H L xs, add_leaves H (roots H L) xs = roots H (L ++ xs).
Proof. exact add_roots. Qed.
Print Assumptions C05_add_roots.

Theorem C05_leaf_count : forall H L, N.of_nat (length L) = num_leaves (roots H L).
Proof. exact roots_count. Qed.
Print Assumptions C05_leaf_count.

(* updateLeaves' recursion returns the root of the tree with all updates applied *)
Theorem C05_update_leaves_root : forall (node : hash -> hash -> hash) t d ls,
  perfect hash t -> ls <> [] -> Forall (valid_old hash node t) ls -> NoDup (map (pos hash) ls) ->
  fst (recompute hash node (height hash t) d ls) = root hash node (apply_updates hash t ls).
Proof. exact (recompute_root hash). Qed.
Print Assumptions C05_update_leaves_root.

(* updateProof: after rewriting the leaf at q, the proof of p agrees with q's new proof above the
   merge point and is unchanged below it *)
Theorem C05_update_proof : forall (node : hash -> hash -> hash) t p q y,
  perfect hash t -> length p = height hash t -> length q = height hash t -> p <> q ->
  let k := common Bool.eqb p q in
  let t' := set hash t q y in
  firstn k (sibs hash node t' p) = firstn k (sibs hash node t' q) /\
  skipn (S k) (sibs hash node t' p) = skipn (S k) (sibs hash node t p).
Proof. exact (update_proof_spec hash). Qed.
Print Assumptions C05_update_proof.

Example C05_nonvacuous : let H := fun b : bytes => b in
  exists l, nth_error (run [{| b_updated := []; b_added := [([1%N], false); ([2%N], false); ([3%N], true)] |};
                            {| b_updated := [mkLeaf [1%N] 0 true]; b_added := [([4%N], false)] |}]) 2 = Some l.
Proof. eexists. reflexivity. Qed.

(* ---- incremental proof maintenance inside one tree (updateLeaves.recompute, updateProof) ---- *)
(* recompute returns the root of the updated tree and, for every updated leaf, its proof in the updated tree *)
Theorem C05_update_leaves_proofs : forall (node : hash -> hash -> hash) d t ls,
  perfect hash t -> ls <> [] -> Forall (valid_old hash node t) ls -> NoDup (map (pos hash) ls) ->
  let t' := apply_updates hash t ls in
  fst (recompute hash node (height hash t) d ls) = root hash node t' /\
  Forall (fun u => prf hash u = sibs hash node t' (pos hash u)) (snd (recompute hash node (height hash t) d ls)) /\
  Permutation.Permutation (map (key hash) (snd (recompute hash node (height hash t) d ls))) (map (key hash) ls).
Proof. exact (fun node d t => recompute_spec hash node d t). Qed.
Print Assumptions C05_update_leaves_proofs.

(* updateProof: patching the old proof of any other leaf from the closest updated leaf gives that leaf's proof in the
   updated tree *)
Theorem C05_update_proof_correct : forall (node : hash -> hash -> hash) t p ls,
  perfect hash t -> length p = height hash t -> ls <> [] ->
  Forall (fun v => length (pos hash v) = height hash t) ls ->
  let t' := apply_updates hash t ls in
  Forall (fun v => prf hash v = sibs hash node t' (pos hash v) /\ get hash t' (pos hash v) = Some (newh hash v)) ls ->
  update_proof hash node p (sibs hash node t p) ls = sibs hash node t' p.
Proof. exact (update_proof_correct hash). Qed.
Print Assumptions C05_update_proof_correct.

(* both steps: after updateLeaves and updateProof every leaf position of the tree carries its proof in the updated tree *)
Theorem C05_update_flow : forall (node : hash -> hash -> hash) d t ls p,
  perfect hash t -> ls <> [] -> Forall (valid_old hash node t) ls -> NoDup (map (pos hash) ls) -> length p = height hash t ->
  let t' := apply_updates hash t ls in
  let '(rt, ls') := recompute hash node (height hash t) d ls in
  rt = root hash node t' /\ update_proof hash node p (sibs hash node t p) ls' = sibs hash node t' p.
Proof. exact (update_flow hash). Qed.
Print Assumptions C05_update_flow.

(* ---- appending leaves (addLeaves): what treeGrowth stores ---- *)
(* however many leaves are appended, the proof of an old leaf in the grown forest is its old proof followed by a list
   of hashes that depends only on the height of the tree the leaf was in: one extension per old tree *)
Theorem C05_growth_uniform : forall H A L h, exists g, forall k t r,
  locate (forest_of L) k = Some (t, r) -> height hash t = h ->
  naive_proof H (L ++ A) k = (naive_proof H L k ++ g)%list.
Proof. exact growth_uniform. Qed.
Print Assumptions C05_growth_uniform.
