(* C02 — no double spend or double resolution. *)
From Coq Require Import ZArith List Bool.
From Sia Require Import Prim.Result Prim.Tok Policy.Model Ledger.Types Ledger.Mid Ledger.Validate Ledger.Apply Ledger.Proofs Ledger.Spends Ledger.SpendsV1 Ledger.SpendsSF Ledger.Persist Ledger.Marks1 Ledger.Marks2 Ledger.Marks3 Ledger.Marks4 Ledger.Marks5 Ledger.Marks6 Ledger.Marks7 Ledger.Marks8 Ledger.Marks9 Ledger.Marks10 Ledger.Persist1 Ledger.Kinds Ledger.Fresh Ledger.Fresh2.
Import ListNotations.
Open Scope Z_scope.

(* an accepted v2 transaction spends pairwise distinct outputs, none of them used earlier in the block,
   each either created earlier in this block (ephemeral) or the current unspent leaf of the element store *)
Theorem C02_v2_inputs_distinct_and_live : forall H net vt pt se sd s m t,
  validate_v2_siacoins H net vt pt se sd s m t = Ok tt ->
  Forall (fun i =>
    is_spent m (sce_id (p_val (i2_parent i))) = false /\ sce_maturity (p_val (i2_parent i)) <= child s /\ (p_leaf (i2_parent i) <> UNASSIGNED -> fst (mem_sc s (i2_parent i)) = true) /\ address H (sp_policy (i2_policy i)) = sco_addr (sce_out (p_val (i2_parent i)))) (t2_sci t) /\ NoDup (map (fun i => sce_id (p_val (i2_parent i))) (t2_sci t)).
Proof. exact v2_inputs_distinct_unspent_mature. Qed.
Print Assumptions C02_v2_inputs_distinct_and_live.

(* across blocks: an element whose leaf is marked spent is never accepted again, whatever proof it carries *)
Theorem C02_spent_leaf_rejected : forall s p e,
  nth_error (s_leaves s) (Z.to_nat (p_leaf p)) = Some {| l_elem := e; l_spent := true |} -> fst (mem_sc s p) = false.
Proof. exact mem_spent_rejected. Qed.
Print Assumptions C02_spent_leaf_rejected.

(* and what is accepted is exactly the current unspent leaf at that position *)
Theorem C02_accepted_is_live_leaf : forall s p, fst (mem_sc s p) = true ->
  p_proof_ok p = true /\ nth_error (s_leaves s) (Z.to_nat (p_leaf p)) = Some {| l_elem := ESC (p_val p); l_spent := false |}.
Proof. exact mem_sc_sound. Qed.
Print Assumptions C02_accepted_is_live_leaf.

(* ---- across the transactions of a block ---- *)
(* the MidState's spends map only grows while a transaction is applied, and every element the transaction consumes
   (siacoin inputs, siafund inputs, resolved contracts) is entered *)
Theorem C02_apply_enters_consumed : forall net s m t m', apply_txn2 net s m t = Ok m' ->
  ext m m' /\ Forall (fun i => is_spent m' i = true) (sci_ids t ++ sfi_ids t ++ res_ids t).
Proof. exact apply_txn2_spends. Qed.
Print Assumptions C02_apply_enters_consumed.

(* validation accepts a transaction only if none of the elements it consumes is already entered and none occurs twice *)
Theorem C02_validate_refuses_consumed : forall H net vt pt se sd s m t, validate_txn2 H net vt pt se sd s m t = Ok tt ->
  Forall (fun i => is_spent m i = false) (sci_ids t) /\ NoDup (sci_ids t) /\
  Forall (fun i => is_spent m i = false) (sfi_ids t) /\ NoDup (sfi_ids t) /\
  Forall (fun i => is_spent m i = false) (res_ids t) /\ NoDup (res_ids t).
Proof. exact validate_txn2_fresh. Qed.
Print Assumptions C02_validate_refuses_consumed.

(* hence an accepted block consumes no siacoin element, no siafund element and no v2 contract twice, over all of its
   v2 transactions, in any order and any grouping *)
Theorem C02_block_no_double_spend : forall H net vt pt se sd s b, validate_block H net vt pt se sd s b = Ok tt ->
  NoDup (flat_map sci_ids (b_v2txns b)) /\ NoDup (flat_map sfi_ids (b_v2txns b)) /\ NoDup (flat_map res_ids (b_v2txns b)).
Proof. exact v2_block_no_double_spend. Qed.
Print Assumptions C02_block_no_double_spend.

(* v1 transactions in the same block: validation refuses entered and repeated inputs, applying enters them *)
Theorem C02_v1_validate_refuses_consumed : forall H net vt se sd s m t ts, validate_txn1 H net vt se sd s m t ts = Ok tt ->
  Forall (fun i => is_spent m i = false) (v1_sci_ids t) /\ NoDup (v1_sci_ids t).
Proof. exact validate_txn1_fresh. Qed.
Print Assumptions C02_v1_validate_refuses_consumed.

Theorem C02_v1_apply_enters_consumed : forall net s m t ts m', apply_txn1 net s m t ts = Ok m' ->
  ext m m' /\ Forall (fun i => is_spent m' i = true) (v1_sci_ids t).
Proof. exact apply_txn1_spends. Qed.
Print Assumptions C02_v1_apply_enters_consumed.

(* a block that mixes v1 and v2 transactions spends no siacoin element twice, whichever kind of transaction uses it *)
Theorem C02_mixed_block_no_double_spend : forall H net vt pt se sd s b, validate_block H net vt pt se sd s b = Ok tt ->
  NoDup (flat_map v1_sci_ids (b_txns b) ++ flat_map sci_ids (b_v2txns b)).
Proof. exact mixed_block_no_double_spend. Qed.
Print Assumptions C02_mixed_block_no_double_spend.

(* ... and no siafund element *)
Theorem C02_mixed_block_no_double_spend_siafunds : forall H net vt pt se sd s b, validate_block H net vt pt se sd s b = Ok tt ->
  NoDup (flat_map v1_sfi_ids (b_txns b) ++ flat_map sfi_ids (b_v2txns b)).
Proof. exact mixed_block_no_double_spend_sf. Qed.
Print Assumptions C02_mixed_block_no_double_spend_siafunds.

(* ---- across blocks ---- *)
(* an accepted block without v1 transactions and without expiring v1 contracts leaves every leaf that is marked spent
   marked spent: no diff of the block rewrites a spent leaf as unspent (siacoin/siafund diffs with an assigned leaf are
   spends; contract diffs with an assigned leaf are resolutions, or revisions of a contract validation saw live) *)
Theorem C02_spent_persists : forall H net vt pt se sd s b s' m,
  validate_block H net vt pt se sd s b = Ok tt -> apply_block net s b = Ok (s', m) ->
  b_txns b = [] -> b_expiring b = [] -> forall k, SpentAt (s_leaves s) k -> SpentAt (s_leaves s') k.
Proof. exact spent_persist. Qed.
Print Assumptions C02_spent_persists.

(* from the height at which v2 is required, every accepted and applied block is of that kind *)
Theorem C02_v2_era_blocks : forall H net vt pt se sd s b s' m,
  validate_block H net vt pt se sd s b = Ok tt -> apply_block net s b = Ok (s', m) -> ln_v2_require net <= child s ->
  b_txns b = [] /\ b_expiring b = [].
Proof. exact era_v2_only. Qed.
Print Assumptions C02_v2_era_blocks.

(* over any accepted chain of such blocks: a leaf marked spent at some point is never again accepted as the parent of a
   siacoin input, a siafund input, a contract revision or a contract resolution *)
Theorem C02_chain_spent_persists : forall H net vt pt se sd s bs s', chain H net vt pt se sd s bs s' ->
  forall k, SpentAt (s_leaves s) k -> SpentAt (s_leaves s') k.
Proof. exact chain_spent_persist. Qed.
Print Assumptions C02_chain_spent_persists.

Theorem C02_chain_no_respend : forall H net vt pt se sd s bs s' k, chain H net vt pt se sd s bs s' -> SpentAt (s_leaves s) k ->
  forall m t, validate_txn2 H net vt pt se sd s' m t = Ok tt ->
  forall i, In i (t2_sci t) -> p_leaf (i2_parent i) <> UNASSIGNED -> Z.to_nat (p_leaf (i2_parent i)) <> k.
Proof. exact chain_no_respend. Qed.
Print Assumptions C02_chain_no_respend.

Theorem C02_chain_no_respend_siafund : forall H net vt pt se sd s bs s' k, chain H net vt pt se sd s bs s' -> SpentAt (s_leaves s) k ->
  forall m t, validate_txn2 H net vt pt se sd s' m t = Ok tt ->
  forall i, In i (t2_sfi t) -> p_leaf (f2_parent i) <> UNASSIGNED -> Z.to_nat (p_leaf (f2_parent i)) <> k.
Proof. exact chain_no_respend_sf. Qed.
Print Assumptions C02_chain_no_respend_siafund.

Theorem C02_chain_no_rerevise_or_reresolve : forall H net vt pt se sd s bs s' k, chain H net vt pt se sd s bs s' -> SpentAt (s_leaves s) k ->
  forall m t, validate_txn2 H net vt pt se sd s' m t = Ok tt ->
  (forall rv, In rv (t2_rev t) -> Z.to_nat (p_leaf (r2_parent rv)) <> k) /\
  (forall rs, In rs (t2_res t) -> Z.to_nat (p_leaf (rs_parent rs)) <> k).
Proof. exact chain_no_rerevise. Qed.
Print Assumptions C02_chain_no_rerevise_or_reresolve.

(* ---- applying a block marks what it consumed ---- *)
(* The MidState records every element in a slot found through one map from IDs to slice indices shared by all element
   kinds, so this statement needs what the ID derivation (C12) provides, stated here as hypotheses about the block: an ID
   names elements of one kind only ([kind_of], [TxOK]) and nothing in the block is created under the ID of the consumed
   element. Then: after an accepted v2-only block is applied, the leaf of every siacoin input with an assigned leaf index is
   marked spent *)
Theorem C02_consumed_leaf_marked : forall H net vt pt se sd s (kind_of : id -> kind) id0 lf0, kind_of id0 = KSC ->
  forall b s' m t0 i0,
  validate_block H net vt pt se sd s b = Ok tt -> apply_block net s b = Ok (s', m) -> b_txns b = [] -> b_expiring b = [] ->
  Forall (Marks2.TxOK kind_of id0 lf0) (b_v2txns b) ->
  Forall (fun p : id * sco => kind_of (fst p) = KSC /\ fst p <> id0) (b_payouts b) -> kind_of (b_foundation_id b) = KSC -> b_foundation_id b <> id0 ->
  In t0 (b_v2txns b) -> In i0 (t2_sci t0) -> sce_id (p_val (i2_parent i0)) = id0 -> p_leaf (i2_parent i0) = lf0 -> lf0 <> UNASSIGNED ->
  SpentAt (s_leaves s') (Z.to_nat lf0).
Proof. exact Marks3.consumed_leaf_marked. Qed.
Print Assumptions C02_consumed_leaf_marked.

(* ... and with persistence: over any accepted chain of v2-only blocks that follows, no accepted transaction has a siacoin
   input, siafund input, revision or resolution whose parent is that leaf -- no element is consumed twice across blocks *)
Theorem C02_consumed_never_again : forall H net vt pt se sd (kind_of : id -> kind) id0 lf0 s b s1 m t0 i0 bs s',
  kind_of id0 = KSC ->
  validate_block H net vt pt se sd s b = Ok tt -> apply_block net s b = Ok (s1, m) -> b_txns b = [] -> b_expiring b = [] ->
  Forall (Marks2.TxOK kind_of id0 lf0) (b_v2txns b) ->
  Forall (fun p : id * sco => kind_of (fst p) = KSC /\ fst p <> id0) (b_payouts b) -> kind_of (b_foundation_id b) = KSC -> b_foundation_id b <> id0 ->
  In t0 (b_v2txns b) -> In i0 (t2_sci t0) -> sce_id (p_val (i2_parent i0)) = id0 -> p_leaf (i2_parent i0) = lf0 -> lf0 <> UNASSIGNED ->
  chain H net vt pt se sd s1 bs s' ->
  forall mm t, validate_txn2 H net vt pt se sd s' mm t = Ok tt ->
    (forall i, In i (t2_sci t) -> p_leaf (i2_parent i) <> UNASSIGNED -> Z.to_nat (p_leaf (i2_parent i)) <> Z.to_nat lf0) /\
    (forall i, In i (t2_sfi t) -> p_leaf (f2_parent i) <> UNASSIGNED -> Z.to_nat (p_leaf (f2_parent i)) <> Z.to_nat lf0) /\
    (forall rv, In rv (t2_rev t) -> Z.to_nat (p_leaf (r2_parent rv)) <> Z.to_nat lf0) /\
    (forall rs, In rs (t2_res t) -> Z.to_nat (p_leaf (rs_parent rs)) <> Z.to_nat lf0).
Proof. exact Marks4.consumed_never_again. Qed.
Print Assumptions C02_consumed_never_again.

(* the slot map stays consistent through every transaction (no out-of-range slot, hence no index panic, on such blocks) *)
Theorem C02_slot_map_consistent : forall (kind_of : id -> kind) id0 lf0, kind_of id0 = KSC -> forall net s m t m',
  Marks2.TxOK kind_of id0 lf0 t -> apply_txn2 net s m t = Ok m' -> Marks1.Good kind_of id0 lf0 m -> Marks1.Good kind_of id0 lf0 m'.
Proof. exact Marks2.apply_txn2_good. Qed.
Print Assumptions C02_slot_map_consistent.

(* the same for siafund elements *)
Theorem C02_consumed_siafund_leaf_marked : forall H net vt pt se sd s (kind_of : id -> kind) id0 lf0, kind_of id0 = KSF ->
  forall b s' m t0 i0,
  validate_block H net vt pt se sd s b = Ok tt -> apply_block net s b = Ok (s', m) -> b_txns b = [] -> b_expiring b = [] ->
  Forall (Marks6.TxOK kind_of id0 lf0) (b_v2txns b) ->
  Forall (fun p : id * sco => kind_of (fst p) = KSC) (b_payouts b) -> kind_of (b_foundation_id b) = KSC ->
  In t0 (b_v2txns b) -> In i0 (t2_sfi t0) -> sfe_id (p_val (f2_parent i0)) = id0 -> p_leaf (f2_parent i0) = lf0 -> lf0 <> UNASSIGNED ->
  SpentAt (s_leaves s') (Z.to_nat lf0).
Proof. exact consumed_sf_leaf_marked. Qed.
Print Assumptions C02_consumed_siafund_leaf_marked.

Theorem C02_consumed_siafund_never_again : forall H net vt pt se sd (kind_of : id -> kind) id0 lf0 s b s1 m t0 i0 bs s',
  kind_of id0 = KSF ->
  validate_block H net vt pt se sd s b = Ok tt -> apply_block net s b = Ok (s1, m) -> b_txns b = [] -> b_expiring b = [] ->
  Forall (Marks6.TxOK kind_of id0 lf0) (b_v2txns b) ->
  Forall (fun p : id * sco => kind_of (fst p) = KSC) (b_payouts b) -> kind_of (b_foundation_id b) = KSC ->
  In t0 (b_v2txns b) -> In i0 (t2_sfi t0) -> sfe_id (p_val (f2_parent i0)) = id0 -> p_leaf (f2_parent i0) = lf0 -> lf0 <> UNASSIGNED ->
  chain H net vt pt se sd s1 bs s' ->
  forall mm t, validate_txn2 H net vt pt se sd s' mm t = Ok tt ->
    (forall i, In i (t2_sci t) -> p_leaf (i2_parent i) <> UNASSIGNED -> Z.to_nat (p_leaf (i2_parent i)) <> Z.to_nat lf0) /\
    (forall i, In i (t2_sfi t) -> p_leaf (f2_parent i) <> UNASSIGNED -> Z.to_nat (p_leaf (f2_parent i)) <> Z.to_nat lf0) /\
    (forall rv, In rv (t2_rev t) -> Z.to_nat (p_leaf (r2_parent rv)) <> Z.to_nat lf0) /\
    (forall rs, In rs (t2_res t) -> Z.to_nat (p_leaf (rs_parent rs)) <> Z.to_nat lf0).
Proof. exact consumed_sf_never_again. Qed.
Print Assumptions C02_consumed_siafund_never_again.

(* and for v2 contracts: the leaf of every contract an accepted block resolves is marked spent (the resolved diff is the
   only contract diff that can point at the leaf: every entry of the contract slice is registered under its own ID at its
   own index, and every assigned diff points at the live leaf of the contract with its ID) *)
Theorem C02_resolved_leaf_marked : forall H net vt pt se sd s (kind_of : id -> kind) id0 lf0, kind_of id0 = KV2 ->
  forall b s' m t0 rs0,
  validate_block H net vt pt se sd s b = Ok tt -> apply_block net s b = Ok (s', m) -> b_txns b = [] -> b_expiring b = [] ->
  Forall (Marks9.TxOK kind_of id0 lf0) (b_v2txns b) ->
  Forall (fun p : id * sco => kind_of (fst p) = KSC) (b_payouts b) -> kind_of (b_foundation_id b) = KSC ->
  In t0 (b_v2txns b) -> In rs0 (t2_res t0) -> v2_id (p_val (rs_parent rs0)) = id0 -> p_leaf (rs_parent rs0) = lf0 -> lf0 <> UNASSIGNED ->
  SpentAt (s_leaves s') (Z.to_nat lf0).
Proof. exact resolved_leaf_marked. Qed.
Print Assumptions C02_resolved_leaf_marked.

(* a resolved contract is never revised or resolved again across blocks *)
Theorem C02_resolved_never_again : forall H net vt pt se sd (kind_of : id -> kind) id0 lf0 s b s1 m t0 rs0 bs s',
  kind_of id0 = KV2 ->
  validate_block H net vt pt se sd s b = Ok tt -> apply_block net s b = Ok (s1, m) -> b_txns b = [] -> b_expiring b = [] ->
  Forall (Marks9.TxOK kind_of id0 lf0) (b_v2txns b) ->
  Forall (fun p : id * sco => kind_of (fst p) = KSC) (b_payouts b) -> kind_of (b_foundation_id b) = KSC ->
  In t0 (b_v2txns b) -> In rs0 (t2_res t0) -> v2_id (p_val (rs_parent rs0)) = id0 -> p_leaf (rs_parent rs0) = lf0 -> lf0 <> UNASSIGNED ->
  chain H net vt pt se sd s1 bs s' ->
  forall mm t, validate_txn2 H net vt pt se sd s' mm t = Ok tt ->
    (forall i, In i (t2_sci t) -> p_leaf (i2_parent i) <> UNASSIGNED -> Z.to_nat (p_leaf (i2_parent i)) <> Z.to_nat lf0) /\
    (forall i, In i (t2_sfi t) -> p_leaf (f2_parent i) <> UNASSIGNED -> Z.to_nat (p_leaf (f2_parent i)) <> Z.to_nat lf0) /\
    (forall rv, In rv (t2_rev t) -> Z.to_nat (p_leaf (r2_parent rv)) <> Z.to_nat lf0) /\
    (forall rs, In rs (t2_res t) -> Z.to_nat (p_leaf (rs_parent rs)) <> Z.to_nat lf0).
Proof. exact resolved_never_again. Qed.
Print Assumptions C02_resolved_never_again.

(* ---- all eras ---- *)
(* every accepted block -- v1 transactions, v1 contracts revised, proven or expiring, v2 transactions, any mix -- leaves every
   spent leaf spent (v1 contract diffs with an assigned leaf are resolutions or point at a leaf the supplement check saw as
   a live v1 contract) *)
Theorem C02_spent_persists_all_eras : forall H net vt pt se sd s b s' m,
  validate_block H net vt pt se sd s b = Ok tt -> apply_block net s b = Ok (s', m) ->
  forall k, SpentAt (s_leaves s) k -> SpentAt (s_leaves s') k.
Proof. exact spent_persist_all. Qed.
Print Assumptions C02_spent_persists_all_eras.

(* hence over any accepted history: a leaf once marked spent is never again accepted as the parent of a v2 siacoin input,
   siafund input, revision or resolution *)
Theorem C02_history_no_reuse : forall H net vt pt se sd s bs s' k, chain_all H net vt pt se sd s bs s' -> SpentAt (s_leaves s) k ->
  forall m t, validate_txn2 H net vt pt se sd s' m t = Ok tt ->
  (forall i, In i (t2_sci t) -> p_leaf (i2_parent i) <> UNASSIGNED -> Z.to_nat (p_leaf (i2_parent i)) <> k) /\
  (forall i, In i (t2_sfi t) -> p_leaf (f2_parent i) <> UNASSIGNED -> Z.to_nat (p_leaf (f2_parent i)) <> k) /\
  (forall rv, In rv (t2_rev t) -> Z.to_nat (p_leaf (r2_parent rv)) <> k) /\
  (forall rs, In rs (t2_res t) -> Z.to_nat (p_leaf (rs_parent rs)) <> k).
Proof. exact chain_all_no_reuse. Qed.
Print Assumptions C02_history_no_reuse.

(* ... nor as a supplement element of a block with v1 transactions (v1 siacoin or siafund parent, revised, proven or
   expiring v1 contract) *)
Theorem C02_history_no_reuse_v1 : forall H net vt pt se sd s bs s' k, chain_all H net vt pt se sd s bs s' -> SpentAt (s_leaves s) k ->
  forall b, validate_block H net vt pt se sd s' b = Ok tt ->
  (forall u p, In u (b_supp b) -> In p (u_sci u) -> Z.to_nat (p_leaf p) <> k) /\
  (forall u p, In u (b_supp b) -> In p (u_sfi u) -> Z.to_nat (p_leaf p) <> k) /\
  (forall u p, In u (b_supp b) -> In p (u_rev u) -> Z.to_nat (p_leaf p) <> k) /\
  (forall u x, In u (b_supp b) -> In x (u_sp u) -> Z.to_nat (p_leaf (ss_fc x)) <> k) /\
  (forall p, In p (b_expiring b) -> Z.to_nat (p_leaf (fst p)) <> k).
Proof. exact chain_all_no_reuse_v1. Qed.
Print Assumptions C02_history_no_reuse_v1.

(* the siacoin marking theorem with decidable checks of the block in place of its hypotheses: [consistent (declsB b)] (no ID is
   declared with two kinds) and [fresh_sc b] (nothing is created under the ID of a consumed siacoin element, and inputs with
   the same parent ID present the same leaf). Harness and model evaluate both checks on every applied block. *)
Theorem C02_consumed_leaf_marked_checked : forall H net vt pt se sd s b s' m t0 i0,
  validate_block H net vt pt se sd s b = Ok tt -> apply_block net s b = Ok (s', m) -> b_txns b = [] -> b_expiring b = [] ->
  consistent (declsB b) = true -> fresh_sc b = true ->
  In t0 (b_v2txns b) -> In i0 (t2_sci t0) -> p_leaf (i2_parent i0) <> UNASSIGNED ->
  SpentAt (s_leaves s') (Z.to_nat (p_leaf (i2_parent i0))).
Proof. exact consumed_marked_checked. Qed.
Print Assumptions C02_consumed_leaf_marked_checked.

(* the same for siafund inputs and for resolved v2 contracts: [fresh_sf b] and [fresh_v2 b] check, for every consumed siafund
   element (every resolved contract) with an assigned leaf, that the block creates nothing under its ID and that every input
   (revision, resolution) with the same parent ID presents the same leaf *)
Theorem C02_consumed_siafund_leaf_marked_checked : forall H net vt pt se sd s b s' m t0 i0,
  validate_block H net vt pt se sd s b = Ok tt -> apply_block net s b = Ok (s', m) -> b_txns b = [] -> b_expiring b = [] ->
  consistent (declsB b) = true -> fresh_sf b = true ->
  In t0 (b_v2txns b) -> In i0 (t2_sfi t0) -> p_leaf (f2_parent i0) <> UNASSIGNED ->
  SpentAt (s_leaves s') (Z.to_nat (p_leaf (f2_parent i0))).
Proof. exact consumed_sf_marked_checked. Qed.
Print Assumptions C02_consumed_siafund_leaf_marked_checked.

Theorem C02_resolved_leaf_marked_checked : forall H net vt pt se sd s b s' m t0 rs0,
  validate_block H net vt pt se sd s b = Ok tt -> apply_block net s b = Ok (s', m) -> b_txns b = [] -> b_expiring b = [] ->
  consistent (declsB b) = true -> fresh_v2 b = true ->
  In t0 (b_v2txns b) -> In rs0 (t2_res t0) -> p_leaf (rs_parent rs0) <> UNASSIGNED ->
  SpentAt (s_leaves s') (Z.to_nat (p_leaf (rs_parent rs0))).
Proof. exact resolved_marked_checked. Qed.
Print Assumptions C02_resolved_leaf_marked_checked.
