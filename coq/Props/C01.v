(* C01 — no value is created or destroyed. Proved here: the block-level fee identity and the exactness
   of the claim share; the per-block conservation equation over whole histories is checked by the
   correspondence (the model computes the ledger sum of its element store after every block) and by
   the Go-side oracle over the exported diffs. *)
From Coq Require Import ZArith List Bool.
From Sia Require Import Prim.Result Prim.Tok Policy.Model Ledger.Types Ledger.Mid Ledger.Validate Ledger.Apply Ledger.Proofs Ledger.Flow Ledger.FlowSF.
Import ListNotations.
Open Scope Z_scope.

(* miner fees reappear exactly in the miner payout: an accepted block pays reward + v1 fees + v2 fees *)
Theorem C01_fees_to_miner : forall net s b, validate_miner_payouts net s b = Ok tt ->
  zsum (map (fun p => sco_value (snd p)) (b_payouts b)) =
  block_reward net s + zsum (flat_map t1_fees (b_txns b)) + (if b_is_v2 b then zsum (map t2_fee (b_v2txns b)) else 0).
Proof. exact miner_payout_exact. Qed.
Print Assumptions C01_fees_to_miner.

(* every siafund claim is floor((pool - claim start) / 10000) * value, and never panics when claim start <= pool *)
Theorem C01_claim_exact : forall pool start value c, claim_portion pool start value = Ok c ->
  c = (pool - start) / 10000 * value /\ start <= pool.
Proof. exact claim_exact. Qed.
Print Assumptions C01_claim_exact.

(* a v2 revision never changes a contract's total value *)
Theorem C01_revision_keeps_total : forall net vt s m e rev, validate_revision net vt s m e rev = Ok tt ->
  exists cur, sco_value (c_renter rev) + sco_value (c_host rev) = sco_value (c_renter cur) + sco_value (c_host cur) /\ (cur = v2_fc e \/ exists i d, elem_idx m (v2_id e) = Some i /\ nth_error (m_v2fces m) i = Some d /\ d_v2_rev d = Some cur).
Proof. intros net vt s m e rev Hv. destruct (revision_invariants net vt s m e rev Hv) as (cur & A & B & _). eauto. Qed.
Print Assumptions C01_revision_keeps_total.

(* the value flow of every accepted v2 transaction: the siacoin inputs spent plus the contract value released by its
   resolutions equal the outputs created, the value locked in new contracts (formations and renewals) with their tax,
   the miner fee, what the resolutions pay out, and what missed contracts forfeit. (forfeited is host value minus missed
   host value: it is negative exactly for a contract whose missed value exceeds its host value, the legacy-window case
   recorded as known finding F11.) *)
Theorem C01_v2_value_flow : forall H net vt pt se sd s m t revised resolved,
  validate_v2_siacoins H net vt pt se sd s m t = Ok tt ->
  check_resolutions H vt s m revised (t2_res t) resolved = Ok tt ->
  sum_sci t + zsum (map released (t2_res t)) =
  sum_sco t + sum_fc t + zsum (map relocked (t2_res t)) + t2_fee t + zsum (map paid_out (t2_res t)) + zsum (map forfeited (t2_res t)).
Proof. exact v2_value_flow. Qed.
Print Assumptions C01_v2_value_flow.

(* the same for v1 transactions: spent values (as validation resolves the parents) = new outputs + contract payouts + fees *)
Theorem C01_v1_value_flow : forall s m t ts, validate_siacoins s m t ts = Ok tt ->
  zsum (map (spent_value m ts) (t1_sci t)) =
  zsum (map (fun x => sco_value (snd x)) (t1_sco t)) + zsum (map (fun x => fc_payout (snd (fst x))) (t1_fc t)) + zsum (t1_fees t).
Proof. exact v1_value_flow. Qed.
Print Assumptions C01_v1_value_flow.

(* an accepted transaction neither creates nor destroys siafunds: the values of the inputs spent and of the outputs created
   have the same sum. The implementation adds them as uint64, so the equality is modulo 2^64; it is the plain equality when
   neither sum reaches 2^64 (all siafund elements of a chain add up to the 10000 of the genesis allocation). No output
   has value zero. *)
Theorem C01_v2_siafunds_balance : forall H net vt pt se sd s m t, validate_v2_siafunds H net vt pt se sd s m t = Ok tt ->
  sf_in2 t mod 2 ^ 64 = sf_out2 t mod 2 ^ 64 /\ Forall (fun x : id * (Z * bytes) => fst (snd x) <> 0) (t2_sfo t).
Proof. exact v2_siafunds_balance. Qed.
Print Assumptions C01_v2_siafunds_balance.
Theorem C01_v2_siafunds_balance_exact : forall H net vt pt se sd s m t, validate_v2_siafunds H net vt pt se sd s m t = Ok tt ->
  0 <= sf_in2 t < 2 ^ 64 -> 0 <= sf_out2 t < 2 ^ 64 -> sf_in2 t = sf_out2 t.
Proof. exact v2_siafunds_balance_exact. Qed.
Print Assumptions C01_v2_siafunds_balance_exact.
(* v1: the inputs are valued as validation resolves their parents (supplement or an output created earlier in the block) *)
Theorem C01_v1_siafunds_balance : forall net s m t ts, validate_siafunds net s m t ts = Ok tt ->
  sf_in1 m ts t mod 2 ^ 64 = sf_out1 t mod 2 ^ 64.
Proof. exact v1_siafunds_balance. Qed.
Print Assumptions C01_v1_siafunds_balance.
