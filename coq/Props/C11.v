(* C11 — binary encoding round-trips, is canonical, field-complete and layout-exact.
   [gen_types] is regenerated from /repo on every run: for each EncodeTo/DecodeFrom pair the wire
   shape written by the encoder and the one read by the decoder. *)
From Coq Require Import String.
From Coq Require Import List NArith Bool.
From Sia Require Import Prim.Tok Codec.Schema Codec.Shape Codec.Irregular Gen.Schemas Codec.Golden Codec.Oblig.
Import ListNotations.

(* generic codec: decoding an encoding (followed by anything) returns the value and the rest *)
Theorem C11_roundtrip_generic : forall (recog : string -> bytes -> option (bytes * bytes)) (rvalid : string -> bytes -> Prop),
  (forall name b rest, rvalid name b -> recog name (b ++ rest)%list = Some (b, rest)) ->
  (forall name b, rvalid name b -> (1 <= List.length b)%nat) ->
  forall s, wf s -> forall v rest, wt rvalid s v -> dec recog s (enc s v ++ rest)%list = Some (v, rest).
Proof. exact roundtrip. Qed.
Print Assumptions C11_roundtrip_generic.

(* every generated type: decoder shape = encoder shape, and the round trip holds for all its values *)
Theorem C11_roundtrip_all_types : forall n e d, In (n, e, d) gen_types ->
  exists s, to_schema e = Some s /\ to_schema d = Some s /\
    forall v rest, wt rvalid s v -> dec recog s (enc s v ++ rest)%list = Some (v, rest).
Proof. exact roundtrip_all. Qed.
Print Assumptions C11_roundtrip_all_types.

(* canonical and field-complete at the byte level: two values of a generated type with equal
   encodings are equal (every component of the shape influences the bytes) *)
Theorem C11_injective_all_types : forall n e d s, In (n, e, d) gen_types -> to_schema e = Some s ->
  forall v w, wt rvalid s v -> wt rvalid s w -> enc s v = enc s w -> v = w.
Proof. exact injective_all. Qed.
Print Assumptions C11_injective_all_types.

(* re-checked against the regenerated shapes on every run *)
Theorem C11_schemas_agree : forallb agree gen_types = true.
Proof. exact schemas_agree. Qed.
Print Assumptions C11_schemas_agree.
Theorem C11_layout_pinned : types_eqb gen_types golden_types = true.
Proof. exact layout_pinned. Qed.
Print Assumptions C11_layout_pinned.
Theorem C11_irregular_pinned : strs_eqb gen_opaque golden_opaque = true.
Proof. exact opaque_pinned. Qed.
Print Assumptions C11_irregular_pinned.
Theorem C11_fields_covered : uncovered = [].
Proof. exact fields_covered. Qed.
Print Assumptions C11_fields_covered.

(* the hand-modelled fragments satisfy the hypotheses of the generic theorem *)
Theorem C11_v1currency_recognised : forall b rest, valid_v1cur b -> recog_v1cur (b ++ rest)%list = Some (b, rest).
Proof. exact recog_v1cur_ok. Qed.
Print Assumptions C11_v1currency_recognised.
Theorem C11_v1siafundoutput_recognised : forall b rest, valid_v1sfo b -> recog_v1sfo (b ++ rest)%list = Some (b, rest).
Proof. exact recog_v1sfo_ok. Qed.
Print Assumptions C11_v1siafundoutput_recognised.

Example C11_nonvacuous : exists s, to_schema enc_types_FileContract = Some s /\ wfb s = true /\
  existsb (fun t => String.eqb (fst (fst t)) "types.FileContract") gen_types = true.
Proof. eexists. split; [vm_compute; reflexivity|]. split; vm_compute; reflexivity. Qed.
