(* C11 — binary encoding round-trips, is canonical, field-complete and layout-exact.
   [gen_types] is regenerated from /repo on every run: for each EncodeTo/DecodeFrom pair the wire
   shape written by the encoder and the one read by the decoder. *)
From Coq Require Import String.
From Coq Require Import List NArith Bool.
From Sia Require Import Prim.Tok Codec.Schema Codec.Shape Codec.Canonical Codec.PolicyWire Codec.Tagged Codec.Irregular Gen.Schemas Codec.Wire Codec.Golden Codec.Oblig.
Import ListNotations.

(* generic codec: decoding an encoding (followed by anything) returns the value and the rest *)
Theorem C11_roundtrip_generic : forall (recog : string -> bytes -> option (bytes * bytes)) (rvalid : string -> bytes -> Prop),
  (forall name b rest, rvalid name b -> recog name (b ++ rest)%list = Some (b, rest)) ->
  (forall name b, rvalid name b -> (1 <= List.length b)%nat) ->
  forall s, wf s -> forall v rest, wt rvalid s v -> dec recog s (enc s v ++ rest)%list = Some (v, rest).
Proof. exact roundtrip. Qed.
Print Assumptions C11_roundtrip_generic.

(* every generated type: decoder shape = encoder shape, and the round trip holds for all its values; the hand-modelled
   fragments V1Currency, V1SiafundOutput, SpendPolicy, V2FileContractResolution and V2Transaction are all recognised *)
Theorem C11_roundtrip_all_types : forall n e d, In (n, e, d) gen_types ->
  exists s, to_schema e = Some s /\ to_schema d = Some s /\
    forall v rest, wt rvalid_all s v -> dec recog_all s (enc s v ++ rest)%list = Some (v, rest).
Proof. exact roundtrip_all. Qed.
Print Assumptions C11_roundtrip_all_types.

(* canonical and field-complete at the byte level: two values of a generated type with equal
   encodings are equal (every component of the shape influences the bytes) *)
Theorem C11_injective_all_types : forall n e d s, In (n, e, d) gen_types -> to_schema e = Some s ->
  forall v w, wt rvalid_all s v -> wt rvalid_all s w -> enc s v = enc s w -> v = w.
Proof. exact injective_all. Qed.
Print Assumptions C11_injective_all_types.

Theorem C11_schemas_agree : forallb agree gen_types = true.
Proof. exact schemas_agree. Qed.
Print Assumptions C11_schemas_agree.
Theorem C11_layout_pinned : types_eqb gen_types golden_types = true.
Proof. exact layout_pinned. Qed.
Print Assumptions C11_layout_pinned.
Theorem C11_irregular_pinned : strs_eqb gen_opaque golden_opaque = true.
Proof. exact opaque_pinned. Qed.
Print Assumptions C11_irregular_pinned.
(* the codec methods of the hand-modelled irregular types are textually the ones the models were written against *)
Theorem C11_irregular_source_pinned : opaque_src_changed = [] /\ pairs_eqb gen_opaque_src golden_opaque_src = true.
Proof. exact opaque_src_pinned. Qed.
Print Assumptions C11_irregular_source_pinned.

Theorem C11_fields_covered : uncovered = [].
Proof. exact fields_covered. Qed.
Print Assumptions C11_fields_covered.

(* the hand-modelled fragments satisfy the hypotheses of the generic theorem *)
Theorem C11_v1currency_recognised : forall b rest, valid_v1cur b -> recog_v1cur (b ++ rest)%list = Some (b, rest).
Proof. exact recog_v1cur_ok. Qed.
Print Assumptions C11_v1currency_recognised.
Theorem C11_v1siafundoutput_recognised : forall b rest, valid_v1sfo b -> recog_v1sfo (b ++ rest)%list = Some (b, rest).
Proof. exact recog_v1sfo_ok. Qed.
Print Assumptions C11_v1siafundoutput_recognised.

Example C11_nonvacuous : exists s, to_schema enc_types_FileContract = Some s /\ wfb s = true /\
  existsb (fun t => String.eqb (fst (fst t)) "types.FileContract") gen_types = true.
Proof. eexists. split; [vm_compute; reflexivity|]. split; vm_compute; reflexivity. Qed.

(* ---- truncation ---- *)
(* generic codec: decoding never depends on the bytes after the value ... *)
Theorem C11_decoder_ignores_suffix : forall (recog : string -> bytes -> option (bytes * bytes)),
  (forall name b x r q, recog name b = Some (x, r) -> recog name (b ++ q)%list = Some (x, (r ++ q)%list)) ->
  forall s b v r q, dec recog s b = Some (v, r) -> dec recog s (b ++ q)%list = Some (v, (r ++ q)%list).
Proof. exact dec_extend. Qed.
Print Assumptions C11_decoder_ignores_suffix.

(* ... so for every generated type no proper prefix of an encoding decodes (a truncated encoding is an error, never a
   partial value) *)
Theorem C11_truncation_all_types : forall n e d, In (n, e, d) gen_types ->
  exists s, to_schema e = Some s /\ to_schema d = Some s /\
    forall v p q, wt rvalid_all s v -> enc s v = (p ++ q)%list -> q <> [] -> dec recog_all s p = None.
Proof. exact truncation_all. Qed.
Print Assumptions C11_truncation_all_types.

(* ---- decoder canonicity ---- *)
(* generic codec: whatever the decoder accepts is exactly the encoding of the value it returns followed by the
   bytes it left, and that value is well typed; hence one accepted encoding per value *)
Theorem C11_decoder_canonical_generic : forall (recog : string -> bytes -> option (bytes * bytes)) (rvalid : string -> bytes -> Prop),
  (forall name b x r, byte_okl b -> recog name b = Some (x, r) -> b = (x ++ r)%list /\ rvalid name x) ->
  forall s b v r, byte_okl b -> dec recog s b = Some (v, r) -> b = (enc s v ++ r)%list /\ wt rvalid s v.
Proof. exact dec_canonical. Qed.
Print Assumptions C11_decoder_canonical_generic.

(* every generated type that does not contain a V2Transaction (whose decoder accepts non-canonical masks) *)
Theorem C11_canonical_all_types : forall n e d, In (n, e, d) gen_types ->
  exists s, to_schema e = Some s /\ to_schema d = Some s /\
    (mentions txn_name s = false ->
     forall b v r, byte_okl b -> dec recog_all s b = Some (v, r) -> b = (enc s v ++ r)%list /\ wt rvalid_all s v).
Proof. exact canonical_all. Qed.
Print Assumptions C11_canonical_all_types.

(* ---- V2FileContractResolution (tagged union) and V2Transaction (versioned, bit-masked record) ---- *)
Theorem C11_resolution_recognised : forall b rest, valid_resolution b -> recog_resolution (b ++ rest)%list = Some (b, rest).
Proof. exact (recog_union_ok recog rvalid recog_ok rvalid_nonempty _ _ res_pre_wf res_cases_wf). Qed.
Print Assumptions C11_resolution_recognised.

Theorem C11_v2transaction_recognised : forall b rest, valid_txn b -> recog_txn (b ++ rest)%list = Some (b, rest).
Proof. exact (recog_masked_ok recog1 rvalid1 recog1_ok rvalid1_nonempty recog1_extend _ _ txn_fields_wf). Qed.
Print Assumptions C11_v2transaction_recognised.

Theorem C11_wire_parts_pinned : forallb part_ok [
  (enc_types_V2FileContractElement, dec_types_V2FileContractElement); (enc_types_V2FileContractRenewal, dec_types_V2FileContractRenewal);
  (enc_types_V2StorageProof, dec_types_V2StorageProof); (enc_types_V2FileContractExpiration, dec_types_V2FileContractExpiration);
  (HSlice enc_types_V2SiacoinInput, HSlice dec_types_V2SiacoinInput); (HSlice enc_types_V2SiacoinOutput, HSlice dec_types_V2SiacoinOutput);
  (HSlice enc_types_V2SiafundInput, HSlice dec_types_V2SiafundInput); (HSlice enc_types_V2SiafundOutput, HSlice dec_types_V2SiafundOutput);
  (HSlice enc_types_V2FileContract, HSlice dec_types_V2FileContract); (HSlice enc_types_V2FileContractRevision, HSlice dec_types_V2FileContractRevision);
  (HSlice enc_types_V2FileContractResolution, HSlice dec_types_V2FileContractResolution); (HSlice enc_types_Attestation, HSlice dec_types_Attestation);
  (HBytes, HBytes); (enc_types_Address, dec_types_Address); (enc_types_V2Currency, dec_types_V2Currency)] = true.
Proof. exact wire_parts_pinned. Qed.
Print Assumptions C11_wire_parts_pinned.

(* ---- SpendPolicy wire format (version byte, opcode tree, nesting limit 32) ---- *)
Theorem C11_policy_roundtrip : forall p rest, pw_ok max_policy_levels p ->
  dec_pw max_policy_levels (enc_pw p ++ rest)%list = Some (p, rest).
Proof. exact (dec_pw_enc max_policy_levels). Qed.
Print Assumptions C11_policy_roundtrip.

Theorem C11_policy_canonical : forall b p r, byte_okl b -> dec_pw max_policy_levels b = Some (p, r) ->
  b = (enc_pw p ++ r)%list /\ pw_ok max_policy_levels p.
Proof. exact (dec_pw_canonical max_policy_levels). Qed.
Print Assumptions C11_policy_canonical.

Theorem C11_policy_recognised : forall b rest, valid_policy b -> recog_policy (b ++ rest)%list = Some (b, rest).
Proof. exact recog_policy_ok. Qed.
Print Assumptions C11_policy_recognised.

(* the unlock-conditions leaf is the generated UnlockConditions layout *)
Theorem C11_policy_uc_layout : to_schema enc_types_UnlockConditions = Some uc_schema /\ to_schema dec_types_UnlockConditions = Some uc_schema.
Proof. exact uc_schema_pinned. Qed.
Print Assumptions C11_policy_uc_layout.
