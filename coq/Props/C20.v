(* C20 — text forms round-trip and reject corrupted identifiers. *)
From Coq Require Import List NArith Bool.
From Sia Require Import Prim.Tok Policy.Model Text.Hex Text.Currency Text.CurrencyProofs Text.PolicyText Text.PolicyTextProofs Text.Forms.
Import ListNotations.
Local Open Scope nat_scope.

(* hexadecimal identifiers: the rendering parses back; whatever parses as b is b's rendering up to the case of the
   hex letters and has exactly twice its length: wrong length, prefix or alphabet is rejected *)
Theorem C20_hex_roundtrip : forall k b, byte_ok b -> length b = k -> unmarshal_hex k (hex_encode b) = Some b.
Proof. exact unmarshal_hex_roundtrip. Qed.
Print Assumptions C20_hex_roundtrip.
Theorem C20_hex_exact : forall k s b, unmarshal_hex k s = Some b ->
  length b = k /\ length s = 2 * k /\ map lower s = hex_encode b.
Proof. exact unmarshal_hex_exact. Qed.
Print Assumptions C20_hex_exact.

(* checksummed addresses *)
Theorem C20_address_roundtrip : forall H a, H_ok H -> byte_ok a -> length a = 32 -> addr_parse H (addr_render H a) = Some a.
Proof. exact addr_roundtrip. Qed.
Print Assumptions C20_address_roundtrip.
Theorem C20_address_canonical : forall H s a, addr_parse H s = Some a -> map lower s = addr_render H a /\ length a = 32.
Proof. exact addr_parse_canonical. Qed.
Print Assumptions C20_address_canonical.
(* replacing any one character of an address string: rejected, or the same address (only the case of a hex letter
   changed), or two different addresses with the same 6-byte checksum are exhibited *)
Theorem C20_address_single_char : forall H a i c a', H_ok H -> byte_ok a -> length a = 32 ->
  addr_parse H (set_at i c (addr_render H a)) = Some a' -> a' = a \/ ChecksumCollision H.
Proof. exact addr_single_char. Qed.
Print Assumptions C20_address_single_char.
Theorem C20_address_altered : forall H a s' a', H_ok H -> byte_ok a -> length a = 32 ->
  (firstn 64 s' = firstn 64 (addr_render H a) \/ skipn 64 s' = skipn 64 (addr_render H a)) ->
  addr_parse H s' = Some a' -> a' = a \/ ChecksumCollision H.
Proof. exact addr_altered. Qed.
Print Assumptions C20_address_altered.

(* currencies: both text forms parse back to the same value, for every value of the type *)
Theorem C20_currency_string_roundtrip : forall c, (c <= MAXCUR)%N -> cur_parse (cur_render c) = POk c.
Proof. exact cur_roundtrip. Qed.
Print Assumptions C20_currency_string_roundtrip.
Theorem C20_currency_exact_roundtrip : forall c, (c <= MAXCUR)%N -> cur_parse (digits c) = POk c.
Proof. exact exact_roundtrip. Qed.
Print Assumptions C20_currency_exact_roundtrip.

(* spend policies: the string form parses back to the same policy, for every well-formed policy (any nesting and width)
   whose key algorithm specifiers print unquoted *)
Theorem C20_policy_string_roundtrip : forall p s, render p = Some s -> wfp p -> parse_spend_policy s = TOk p.
Proof. exact policy_text_roundtrip. Qed.
Print Assumptions C20_policy_string_roundtrip.

(* public keys ("ed25519:" + hex): the rendering parses back; whatever parses has the prefix and is the rendering of
   the key returned up to the case of the hex digits *)
Theorem C20_publickey_roundtrip : forall pk, byte_ok pk -> length pk = 32 -> pk_parse (pk_render pk) = Some pk.
Proof. exact pk_roundtrip. Qed.
Print Assumptions C20_publickey_roundtrip.

Theorem C20_publickey_canonical : forall s pk, pk_parse s = Some pk ->
  map lower (skipn 8 s) = hex_encode pk /\ firstn 8 s = (ed_prefix ++ [colon])%list /\ length pk = 32.
Proof. exact pk_parse_canonical. Qed.
Print Assumptions C20_publickey_canonical.

(* chain indices ("<decimal height>::<64 hex digits>") *)
Theorem C20_chainindex_roundtrip : forall h id, (h < 2 ^ 64)%N -> byte_ok id -> length id = 32 -> ci_parse (ci_render h id) = Some (h, id).
Proof. exact ci_roundtrip. Qed.
Print Assumptions C20_chainindex_roundtrip.
