(* C04 — accumulator membership is sound: only the genuine, current leaf at that position is accepted. *)
From Coq Require Import List NArith.
From Sia Require Import Prim.Tok Merkle.Tree Merkle.Forest Merkle.Acc Merkle.AccProofs.
Import ListNotations.

(* If containsLeaf accepts (element hash, leaf index, spent flag, proof) against the accumulator of
   the true forest L, then the leaf stored at that index of L is exactly that leaf — same element
   hash, same index, same spent flag — and the proof is the forest path; otherwise the proof
   exhibits a collision of the node hash or of the leaf hash. *)
Theorem C04_membership_sound : forall H L l proof, wf_leaves L ->
  contains_leaf H (roots H (lhashes H L)) l proof = true ->
  (nth_error L (N.to_nat (eidx l)) = Some l /\ proof = naive_proof H (lhashes H L) (eidx l))
  \/ NodeCollision hash (node H) \/ LeafCollision H.
Proof. exact membership_sound. Qed.
Print Assumptions C04_membership_sound.

(* every history keeps each leaf at its own index, so the hypothesis above holds of every reachable forest *)
Theorem C04_reachable_wf : forall bs, wf_leaves (run bs).
Proof. intros bs. exact (run_wf (fun b => b) bs). Qed.
Print Assumptions C04_reachable_wf.

(* hence: for every history, a leaf is accepted iff it is the current leaf at its index (modulo collisions):
   a spent element presented as unspent, an element with any field (hence element hash) altered,
   another element's position, or an element that was never added are all rejected *)
Theorem C04_live_iff : forall H bs l,
  (exists proof, contains_leaf H (roots H (lhashes H (run bs))) l proof = true) ->
  nth_error (run bs) (N.to_nat (eidx l)) = Some l \/ NodeCollision hash (node H) \/ LeafCollision H.
Proof.
  intros H bs l [proof Hc]. destruct (membership_sound H _ _ _ (run_wf H bs) Hc) as [[A _]|C]; auto.
Qed.
Print Assumptions C04_live_iff.

Theorem C04_live_accepted : forall H bs k l, nth_error (run bs) k = Some l ->
  contains_leaf H (roots H (lhashes H (run bs))) l (naive_proof H (lhashes H (run bs)) (N.of_nat k)) = true.
Proof. intros H bs k l Hn. apply member_complete; [apply (run_wf H)|exact Hn]. Qed.
Print Assumptions C04_live_accepted.

(* a proof of the wrong length is checked against the tree of that height or rejected outright *)
Theorem C04_wrong_height : forall H a l proof,
  nth_error a (length proof) = None \/ nth_error a (length proof) = Some None ->
  contains_leaf H a l proof = false.
Proof. intros H a l proof [E|E]; unfold contains_leaf; rewrite E; reflexivity. Qed.
Print Assumptions C04_wrong_height.
