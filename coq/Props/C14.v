(* C14 — spend policy verification matches the policy's meaning and address commitment.
   [sigok]/[preok] are arbitrary oracles for ed25519 verification and the SHA-256 hash lock. *)
From Coq Require Import List NArith ZArith Bool Lia.
From Sia Require Import Prim.Result Prim.Tok Policy.Model Policy.Proofs Policy.Sat.
Import ListNotations.

(* replacing any subset of a threshold's sub-policies by their opaque forms never changes the address *)
Theorem C14_opaque_address : forall H n ps ps',
  Forall2 (fun p p' => p' = p \/ p' = opaque H p) ps ps' ->
  address H (PThresh n ps') = address H (PThresh n ps).
Proof. exact opaque_address. Qed.
Print Assumptions C14_opaque_address.

(* ... while making that branch unusable *)
Theorem C14_opaque_unusable : forall height median sigok preok se sd a sg pr,
  verify_policy height median sigok preok se sd (POpaque a) sg pr = Err EOpaque.
Proof. exact opaque_unusable. Qed.
Print Assumptions C14_opaque_unusable.

(* height and time locks compare as specified: height >= h, median strictly after t *)
Theorem C14_above_iff : forall height median sigok preok se sd h s,
  verify height median sigok preok se sd (PAbove h) s = Ok s <-> (h <= height)%N.
Proof. exact above_iff. Qed.
Print Assumptions C14_above_iff.
Theorem C14_after_iff : forall height median sigok preok se sd t s,
  verify height median sigok preok se sd (PAfter t) s = Ok s <-> (t < median)%Z.
Proof. exact after_iff. Qed.
Print Assumptions C14_after_iff.
Theorem C14_uc_timelock : forall height median sigok preok se sd tl keys req s, (height < tl)%N ->
  verify height median sigok preok se sd (PUC tl keys req) s = Err EHeight.
Proof. exact uc_timelock. Qed.
Print Assumptions C14_uc_timelock.

(* each public-key leaf consumes exactly one valid signature, each hash leaf one correct preimage; corrupt ones reject *)
Theorem C14_pk_consumes_one : forall height median sigok preok se sd k sg rest pr tot, sigok k sg = true ->
  verify height median sigok preok se sd (PPK k) (mkSt (sg :: rest) pr tot) = Ok (mkSt rest pr tot).
Proof. exact pk_consumes_one. Qed.
Print Assumptions C14_pk_consumes_one.
Theorem C14_pk_corrupt_rejected : forall height median sigok preok se sd k sg rest pr tot, sigok k sg = false ->
  verify height median sigok preok se sd (PPK k) (mkSt (sg :: rest) pr tot) = Err ESig.
Proof. exact pk_corrupt. Qed.
Print Assumptions C14_pk_corrupt_rejected.
Theorem C14_hash_consumes_one : forall height median sigok preok se sd h x rest sg tot, preok h x = true ->
  verify height median sigok preok se sd (PHash h) (mkSt sg (x :: rest) tot) = Ok (mkSt sg rest tot).
Proof. exact hash_consumes_one. Qed.
Print Assumptions C14_hash_consumes_one.
Theorem C14_hash_corrupt_rejected : forall height median sigok preok se sd h x rest sg tot, preok h x = false ->
  verify height median sigok preok se sd (PHash h) (mkSt sg (x :: rest) tot) = Err EPre.
Proof. exact hash_corrupt. Qed.
Print Assumptions C14_hash_corrupt_rejected.

(* a threshold is met by exactly N revealed sub-policies, all others opaque *)
Theorem C14_threshold_exact : forall height median sigok preok se sd n ps s s',
  verify height median sigok preok se sd (PThresh n ps) s = Ok s' ->
  revealed ps = n /\ Forall (fun p => is_uc p = false) ps /\ (N.of_nat (length ps) <= 255)%N.
Proof. exact threshold_exact. Qed.
Print Assumptions C14_threshold_exact.

(* legacy unlock conditions need the required count of signatures, each against a distinct listed key *)
Theorem C14_uc_required_sigs : forall height median sigok preok se sd tl keys req s s',
  verify height median sigok preok se sd (PUC tl keys req) s = Ok s' ->
  (tl <= height)%N /\ exists used, sigs s = used ++ sigs s' /\ N.of_nat (length used) = req /\ (length used <= length keys)%nat.
Proof. exact uc_needs_required_sigs. Qed.
Print Assumptions C14_uc_required_sigs.

(* no witness may be left over *)
Theorem C14_no_leftover : forall height median sigok preok se sd p sg pr,
  verify_policy height median sigok preok se sd p sg pr = Ok tt ->
  exists s, verify height median sigok preok se sd p (mkSt sg pr 0) = Ok s /\ sigs s = [] /\ pres s = [].
Proof. exact no_leftover. Qed.
Print Assumptions C14_no_leftover.
Theorem C14_surplus_signature_rejected : forall height median sigok preok se sd p sg pr s x rest,
  verify height median sigok preok se sd p (mkSt sg pr 0) = Ok s -> sigs s = x :: rest ->
  verify_policy height median sigok preok se sd p sg pr = Err ESuperSig.
Proof. exact surplus_signature_rejected. Qed.
Print Assumptions C14_surplus_signature_rejected.
Theorem C14_surplus_preimage_rejected : forall height median sigok preok se sd p sg pr s x rest,
  verify height median sigok preok se sd p (mkSt sg pr 0) = Ok s -> sigs s = [] -> pres s = x :: rest ->
  verify_policy height median sigok preok se sd p sg pr = Err ESuperPre.
Proof. exact surplus_preimage_rejected. Qed.
Print Assumptions C14_surplus_preimage_rejected.

(* complexity limits reject rather than hang (verify is structurally recursive, hence total) *)
Theorem C14_limit_children : forall height median sigok preok se sd n ps s, (255 < N.of_nat (length ps))%N ->
  verify height median sigok preok se sd (PThresh n ps) s = Err EComplex.
Proof. exact limit_children. Qed.
Print Assumptions C14_limit_children.
Theorem C14_limit_total : forall height median sigok preok se sd n ps s, (1024 < total s + N.of_nat (length ps))%N ->
  verify height median sigok preok se sd (PThresh n ps) s = Err EComplex.
Proof. exact limit_total. Qed.
Print Assumptions C14_limit_total.

Example C14_nonvacuous :
  verify_policy 10 100 (fun k s => Model.bytes_eqb k s) (fun _ _ => false) [1%N] [2%N]
    (PThresh 1 [PPK [7%N]; POpaque [9%N]; POpaque [8%N]]) [[7%N]] [] = Ok tt.
Proof. vm_compute. reflexivity. Qed.

(* ---- the biconditional: Verify accepts exactly when the declarative meaning holds ---- *)
(* [sat p sg pr sg' pr']: p holds, consuming signatures and preimages from the front in order (Policy/Sat.v: time and
   height locks compare as specified, a key leaf takes one valid signature, a hash leaf one correct preimage, a
   threshold has exactly n revealed children that hold and all others opaque and no unlock-conditions child, legacy
   unlock conditions take the required number of listed keys in order); [cost] is the evaluator's complexity charge *)
Theorem C14_verify_iff_meaning : forall height median sigok preok se sd p sg pr,
  verify_policy height median sigok preok se sd p sg pr = Ok tt <->
  (sat height median sigok preok se sd p sg pr [] [] /\ (cost p <= 1024)%N).
Proof. exact verify_policy_iff. Qed.
Print Assumptions C14_verify_iff_meaning.

(* the same for every sub-evaluation: what is left of the witnesses and how much budget is spent *)
Theorem C14_verify_state_iff : forall height median sigok preok se sd p s s', (total s <= 1024)%N ->
  verify height median sigok preok se sd p s = Ok s' <->
  (sat height median sigok preok se sd p (sigs s) (pres s) (sigs s') (pres s') /\
   (total s + cost p <= 1024)%N /\ total s' = (total s + cost p)%N).
Proof. exact verify_iff. Qed.
Print Assumptions C14_verify_state_iff.

(* legacy unlock conditions: the walk succeeds exactly when [req] listed keys, in order, each take the next signature *)
Theorem C14_unlock_conditions_iff : forall sigok se sd keys req sg sg',
  uc_walk sigok se sd keys req sg = Ok (0%N, sg') <-> uc_match sigok se sd keys req sg sg'.
Proof. intros sigok se sd. exact (uc_walk_iff 0%N sigok sigok se sd). Qed.
Print Assumptions C14_unlock_conditions_iff.

(* the meaning is not vacuous: 2-of-3 with one branch opaque, a key leaf and a hash leaf *)
Example C14_meaning_nonvacuous : forall k h s x a, 
  sat 10%N 5%Z (fun _ _ => true) (fun _ _ => true) [] [] (PThresh 2 [PPK k; POpaque a; PHash h]) [s] [x] [] [].
Proof.
  intros. apply sat_thresh; [cbn; lia|].
  apply (sc_reveal 10%N 5%Z (fun _ _ => true) (fun _ _ => true) [] [] (PPK k) _ 1%N [s] [x] [] [x] [] []); try reflexivity; [constructor; reflexivity|].
  apply sc_opaque.
  apply (sc_reveal 10%N 5%Z (fun _ _ => true) (fun _ _ => true) [] [] (PHash h) _ 0%N [] [x] [] [] [] []); try reflexivity; [constructor; reflexivity|].
  constructor.
Qed.
