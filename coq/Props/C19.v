(* C19 — RPC framing accepts all valid messages and bounds reads; responses deliver errors as errors. *)
From Coq Require Import String.
From Coq Require Import List NArith Bool.
From Sia Require Import Prim.Tok Codec.Schema Codec.Shape Codec.Size Codec.Framing Gen.Schemas Gen.Limits.
Import ListNotations.
Local Open Scope nat_scope.
Local Open Scope list_scope.

(* every well-typed value within the per-collection limits encodes to at most maxsize bytes *)
Theorem C19_size_bound : forall (rvalid : string -> bytes -> Prop) s b v,
  wt rvalid s v -> within s b v -> (len (enc s v) <= maxsize s b)%N.
Proof. exact enc_size. Qed.
Print Assumptions C19_size_bound.

(* a message that fits the receiver's limit is decoded to the same object, whatever follows on the stream *)
Theorem C19_frame_accepts : forall (recog : string -> bytes -> option (bytes * bytes)) (rvalid : string -> bytes -> Prop),
  (forall name b rest, rvalid name b -> recog name (b ++ rest) = Some (b, rest)) ->
  (forall name b, rvalid name b -> 1 <= length b) ->
  forall maxLen s v rest, wf s -> wt rvalid s v -> length (enc s v) <= maxLen ->
  read_limited recog maxLen s (enc s v ++ rest) = Some (v, firstn (maxLen - length (enc s v)) rest).
Proof. exact frame_accepts. Qed.
Print Assumptions C19_frame_accepts.

(* the receiver's decoder never sees more than maxLen bytes, and what it returns does not depend on anything beyond them *)
Theorem C19_read_bounded : forall maxLen (stream : bytes), length (firstn maxLen stream) <= maxLen.
Proof. exact frame_bounded. Qed.
Print Assumptions C19_read_bounded.
Theorem C19_read_ignores_beyond : forall (recog : string -> bytes -> option (bytes * bytes)) maxLen s s1 s2, firstn maxLen s1 = firstn maxLen s2 ->
  read_limited recog maxLen s s1 = read_limited recog maxLen s s2.
Proof. exact frame_ignores_beyond. Qed.
Print Assumptions C19_read_ignores_beyond.

(* size bound and limit together *)
Theorem C19_sized_accepted : forall (recog : string -> bytes -> option (bytes * bytes)) (rvalid : string -> bytes -> Prop),
  (forall name b rest, rvalid name b -> recog name (b ++ rest) = Some (b, rest)) ->
  (forall name b, rvalid name b -> 1 <= length b) ->
  forall maxLen s b v rest, wf s -> wt rvalid s v -> within s b v ->
  (maxsize s b <= N.of_nat maxLen)%N ->
  read_limited recog maxLen s (enc s v ++ rest) = Some (v, firstn (maxLen - length (enc s v)) rest).
Proof. exact sized_accepted. Qed.
Print Assumptions C19_sized_accepted.

(* responses: flag byte + error or object; either is delivered as itself *)
Theorem C19_response_delivered : forall (recog : string -> bytes -> option (bytes * bytes)) (rvalid : string -> bytes -> Prop),
  (forall name b rest, rvalid name b -> recog name (b ++ rest) = Some (b, rest)) ->
  (forall name b, rvalid name b -> 1 <= length b) ->
  forall limit se so r rest, wf se -> wf so ->
  match r with inl e => wt rvalid se e | inr o => wt rvalid so o end ->
  length (enc_response se so r) <= limit ->
  read_response recog limit se so (enc_response se so r ++ rest) = Some (r, firstn (limit - length (enc_response se so r)) rest).
Proof. exact response_delivered. Qed.
Print Assumptions C19_response_delivered.

(* re-checked against /repo on every run: for every rhp/v4 RPC object with crisp protocol limits, the maximal size
   under those limits (from the regenerated shape) is within the limit its receiver applies (from the implementation's
   own maxLen() values), and an error with a description of up to ERRDESC bytes fits every response limit *)
Theorem C19_limits_accept_all : failing_objects = [].
Proof. exact limits_accept_all. Qed.
Print Assumptions C19_limits_accept_all.
Theorem C19_error_fits : match object_size "rhp/v4.RPCError" [ERRDESC] with Some sz => (sz <=? ERRMAX)%N | None => false end = true.
Proof. exact error_fits. Qed.
Print Assumptions C19_error_fits.
