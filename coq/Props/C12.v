(* C12 — IDs and signature hashes bind exactly the effect-bearing content. *)
From Coq Require Import String.
From Coq Require Import List NArith Bool.
From Sia Require Import Prim.Tok Codec.Shape Codec.Oblig Codec.Effects Gen.Schemas Hash.Ids.
Import ListNotations.

(* an identifier that hashes an injective encoding of the effect-bearing projection changes whenever
   that projection changes (or a collision of H is exhibited), and is unchanged when only the rest changes *)
Theorem C12_id_binds : forall (H : bytes -> bytes) (A : Type) (enc : A -> bytes) (prefix : bytes) (x y : A),
  (forall a b, enc a = enc b -> a = b) ->
  H (prefix ++ enc x)%list = H (prefix ++ enc y)%list -> x = y \/ Collision H.
Proof. exact (@id_binds). Qed.
Print Assumptions C12_id_binds.
Theorem C12_id_ignores : forall (H : bytes -> bytes) (A B : Type) (proj : A -> B) (encB : B -> bytes) (prefix : bytes) (x y : A),
  proj x = proj y -> H (prefix ++ encB (proj x))%list = H (prefix ++ encB (proj y))%list.
Proof. exact (@id_ignores). Qed.
Print Assumptions C12_id_ignores.

(* distinct kinds, parents and positions of derived IDs never coincide *)
Theorem C12_kinds_disjoint : forall H n1 n2 i1 i2 k1 k2, no_bar n1 -> no_bar n2 -> List.length i1 = List.length i2 ->
  (k1 < 2 ^ 64)%N -> (k2 < 2 ^ 64)%N ->
  derive H n1 (id_index_args i1 k1) = derive H n2 (id_index_args i2 k2) ->
  (n1 = n2 /\ i1 = i2 /\ k1 = k2) \/ Collision H.
Proof. exact derived_ids_distinct. Qed.
Print Assumptions C12_kinds_disjoint.
Theorem C12_purposes_disjoint : forall H n1 n2 a1 a2, no_bar n1 -> no_bar n2 ->
  derive H n1 a1 = derive H n2 a2 -> (n1 = n2 /\ a1 = a2) \/ Collision H.
Proof. exact derive_injective. Qed.
Print Assumptions C12_purposes_disjoint.

(* re-checked against /repo on every run: what the v2 semantic encoding writes and blanks, the v1 ID
   pre-image, and that every distinguisher is self-delimiting and distinct *)
Theorem C12_semantics_pinned :
  match find3 "types.V2TransactionSemantics" gen_written with
  | Some (w, nl) => strs_eqb w semantics_written && strs_eqb nl semantics_blanked
  | None => false
  end = true.
Proof. exact semantics_pinned. Qed.
Print Assumptions C12_semantics_pinned.
Theorem C12_distinguishers_wellformed : forallb (fun s => no_barb (bytes_of_string s)) distinguishers = true.
Proof. exact distinguishers_wellformed. Qed.
Print Assumptions C12_distinguishers_wellformed.
Theorem C12_distinguishers_distinct : pairwise_distinct distinguishers = true.
Proof. exact distinguishers_distinct. Qed.
Print Assumptions C12_distinguishers_distinct.
