(* C17 — RHP contract constructors conserve funds and yield consensus-valid contracts. *)
From Coq Require Import ZArith List Bool.
From Sia Require Import Prim.Result Prim.Tok Ledger.Types Ledger.Mid Ledger.Validate Rhp4.Model Rhp4.Proofs Rhp4.Renewal.
Import ListNotations.
Open Scope Z_scope.

(* PayWithContract: total kept, renter charged exactly the usage, exactly the reported collateral risked, missed
   host value never raised, total collateral untouched, result again a reachable contract *)
Theorem C17_pay_exact : forall fc u fc', Inv fc -> usage_nonneg u -> pay_with_contract fc u = Ok fc' ->
  exists cost, renter_cost u = Ok cost /\
    sco_value (c_renter fc') + sco_value (c_host fc') = sco_value (c_renter fc) + sco_value (c_host fc) /\
    sco_value (c_renter fc) - sco_value (c_renter fc') = cost /\
    cost = u_rpc u + u_storage u + u_egress u + u_ingress u + u_fund u /\
    c_missed_host fc - c_missed_host fc' = u_risked u /\
    c_missed_host fc' <= c_missed_host fc /\
    c_collateral fc' = c_collateral fc /\
    c_revnum fc' = w64 (c_revnum fc + 1) /\
    c_capacity fc' = c_capacity fc /\ c_filesize fc' = c_filesize fc /\
    c_proof_height fc' = c_proof_height fc /\ c_exp_height fc' = c_exp_height fc /\
    c_renter_key fc' = c_renter_key fc /\ c_host_key fc' = c_host_key fc /\
    Inv fc'.
Proof. exact pay_exact. Qed.
Print Assumptions C17_pay_exact.

(* insufficient funds fail cleanly: an error, never a panic, and exactly when funds or collateral do not suffice *)
Theorem C17_pay_fails_cleanly : forall fc u cost, Inv fc -> usage_nonneg u -> renter_cost u = Ok cost ->
  (sco_value (c_renter fc) < cost -> pay_with_contract fc u = err 1) /\
  (cost <= sco_value (c_renter fc) -> c_missed_host fc < u_risked u -> pay_with_contract fc u = err 2) /\
  (cost <= sco_value (c_renter fc) -> u_risked u <= c_missed_host fc -> exists fc', pay_with_contract fc u = Ok fc').
Proof. exact pay_clean. Qed.
Print Assumptions C17_pay_fails_cleanly.

(* every revision constructor's result, once signed, is accepted by the consensus revision rules iff its
   signatures verify under the contract's current keys *)
Theorem C17_append_accepted : forall net vt s m e p root appended rev u,
  Inv (v2_fc e) -> prices_nonneg p -> revisable s m e ->
  0 <= appended -> c_capacity (v2_fc e) + SECTOR * appended < W64 ->
  revise_append (v2_fc e) p root appended = Ok (rev, u) ->
  (forall a b c, validate_revision net vt s m e (fc_sign rev a b c) = check_sigs vt (fc_sign rev a b c) (c_renter_key (v2_fc e)) (c_host_key (v2_fc e))) /\
  money_result e rev u /\ Inv rev /\
  c_filesize rev = c_filesize (v2_fc e) + SECTOR * appended /\ c_filesize rev <= c_capacity rev.
Proof. exact revise_append_accepted. Qed.
Print Assumptions C17_append_accepted.
Theorem C17_free_accepted : forall net vt s m e p root deletions rev u,
  Inv (v2_fc e) -> prices_nonneg p -> revisable s m e ->
  0 <= deletions -> SECTOR * deletions <= c_filesize (v2_fc e) ->
  revise_free (v2_fc e) p root deletions = Ok (rev, u) ->
  (forall a b c, validate_revision net vt s m e (fc_sign rev a b c) = check_sigs vt (fc_sign rev a b c) (c_renter_key (v2_fc e)) (c_host_key (v2_fc e))) /\
  money_result e rev u /\ Inv rev /\ c_filesize rev = c_filesize (v2_fc e) - SECTOR * deletions.
Proof. exact revise_free_accepted. Qed.
Print Assumptions C17_free_accepted.
Theorem C17_roots_accepted : forall net vt s m e p n rev u, Inv (v2_fc e) -> prices_nonneg p -> revisable s m e ->
  revise_roots (v2_fc e) p n = Ok (rev, u) ->
  (forall a b c, validate_revision net vt s m e (fc_sign rev a b c) = check_sigs vt (fc_sign rev a b c) (c_renter_key (v2_fc e)) (c_host_key (v2_fc e))) /\
  money_result e rev u /\ Inv rev.
Proof. exact revise_roots_accepted. Qed.
Print Assumptions C17_roots_accepted.
Theorem C17_fund_accepted : forall net vt s m e amount rev u, Inv (v2_fc e) -> 0 <= amount -> revisable s m e ->
  revise_fund (v2_fc e) amount = Ok (rev, u) ->
  (forall a b c, validate_revision net vt s m e (fc_sign rev a b c) = check_sigs vt (fc_sign rev a b c) (c_renter_key (v2_fc e)) (c_host_key (v2_fc e))) /\
  money_result e rev u /\ Inv rev.
Proof. exact revise_fund_accepted. Qed.
Print Assumptions C17_fund_accepted.

(* over every history of revision requests: conservation, monotonicity, and the revision number cannot wrap *)
Theorem C17_history : forall p fc0 ops, prices_nonneg p -> Forall rop_ok ops -> Inv' fc0 ->
  let fc := fold_left (rstep p) ops fc0 in
  Inv' fc /\ c_revnum fc <= c_revnum fc0 + Z.of_nat (length ops) /\
  sco_value (c_renter fc) + sco_value (c_host fc) = sco_value (c_renter fc0) + sco_value (c_host fc0) /\
  c_collateral fc = c_collateral fc0 /\ c_missed_host fc <= c_missed_host fc0 /\
  sco_value (c_renter fc) <= sco_value (c_renter fc0).
Proof. exact history_invariant. Qed.
Print Assumptions C17_history.

(* NewContract: accepted by the contract rules once signed... (signature fields are what check_sigs reads),
   and ContractCost funds it, its tax and the fee exactly *)
Theorem C17_new_contract : forall vt s p allowance collateral ph ra ha rk hk fc u fee,
  prices_nonneg p -> 0 < allowance -> 0 <= collateral -> 0 <= ph -> child s <= ph -> ph + PROOF_WINDOW < W64 -> 0 <= fee ->
  allowance + (collateral + pr_contract p) + (allowance + (collateral + pr_contract p)) / 25 + fee < C128 ->
  new_contract p allowance collateral ph ra ha rk hk = Ok (fc, u) ->
  validate_contract vt s fc = check_sigs vt fc (c_renter_key fc) (c_host_key fc) /\ Inv fc /\
  exists rc hc tx, contract_cost fc fee = Ok (rc, hc) /\ v2_tax fc = Ok tx /\
    rc + hc = sco_value (c_renter fc) + sco_value (c_host fc) + tx + fee /\ hc = c_collateral fc.
Proof. exact new_contract_valid. Qed.
Print Assumptions C17_new_contract.

(* renewals and refreshes: exact split into final outputs and rollover, rollover within the new contract's cost,
   acceptance by the consensus renewal rules up to signatures, and the cost functions fund everything exactly *)
Theorem C17_renew : forall vt s fc p ha allowance collateral ph rn u fee,
  Inv fc -> prices_nonneg p -> 0 < allowance -> 0 <= collateral -> 0 <= fee ->
  0 <= ph -> child s <= ph -> ph + PROOF_WINDOW < W64 -> 0 <= c_filesize fc ->
  renew_contract fc p ha allowance collateral ph = Ok (rn, u) ->
  new_total rn + new_total rn / 25 + fee < C128 ->
  renewal_facts vt s fc rn fee (renewal_cost rn fee).
Proof. exact renew_contract_facts. Qed.
Print Assumptions C17_renew.
Theorem C17_refresh_partial : forall vt s fc p ha allowance collateral rn u fee,
  Inv fc -> prices_nonneg p -> 0 < allowance -> 0 <= collateral -> 0 <= fee ->
  child s <= c_proof_height fc -> c_proof_height fc < c_exp_height fc -> c_filesize fc <= c_capacity fc ->
  refresh_partial fc p ha allowance collateral = Ok (rn, u) ->
  new_total rn + new_total rn / 25 + fee < C128 ->
  renewal_facts vt s fc rn fee (refresh_cost p rn fee).
Proof. exact refresh_partial_facts. Qed.
Print Assumptions C17_refresh_partial.
Theorem C17_refresh_full : forall vt s fc p ha allowance collateral rn u fee,
  Inv fc -> prices_nonneg p -> 0 < allowance -> 0 <= collateral -> 0 <= fee ->
  child s <= c_proof_height fc -> c_proof_height fc < c_exp_height fc -> c_filesize fc <= c_capacity fc ->
  refresh_full fc p ha allowance collateral = Ok (rn, u) ->
  new_total rn + new_total rn / 25 + fee < C128 ->
  renewal_facts vt s fc rn fee (refresh_cost p rn fee).
Proof. exact refresh_full_facts. Qed.
Print Assumptions C17_refresh_full.

(* v1-era payouts satisfy the consensus tax equation payout = outputs + tax(payout) *)
Theorem C17_tax_inversion : forall target, 0 <= target ->
  tax_adjusted_payout target - fc_tax (tax_adjusted_payout target) = target.
Proof. exact tax_inversion. Qed.
Print Assumptions C17_tax_inversion.
