(* C08 — height- and time-dependent rules. Proved: whatever is accepted satisfies the rule (the gate is not
   early); that the same transaction is accepted exactly at the bound (not late) is exercised by the boundary
   probes of the correspondence at bound-1 / bound / bound+1. *)
From Coq Require Import ZArith List Bool.
From Sia Require Import Prim.Result Prim.Tok Policy.Model Policy.Proofs Ledger.Types Ledger.Mid Ledger.Validate Ledger.Apply Ledger.Proofs Ledger.Auth.
Import ListNotations.
Open Scope Z_scope.

Theorem C08_v1_not_after_require : forall H net vt se sd s m t ts,
  validate_txn1 H net vt se sd s m t ts = Ok tt -> child s < ln_v2_require net.
Proof. exact v1_not_after_require. Qed.
Print Assumptions C08_v1_not_after_require.

Theorem C08_v2_not_before_allow : forall H net vt pt se sd s m t,
  validate_txn2 H net vt pt se sd s m t = Ok tt -> ln_v2_allow net <= child s.
Proof. exact v2_not_before_allow. Qed.
Print Assumptions C08_v2_not_before_allow.

(* every accepted v2 input is mature at the child height *)
Theorem C08_v2_inputs_mature : forall H net vt pt se sd s m t, validate_v2_siacoins H net vt pt se sd s m t = Ok tt ->
  Forall (fun i => sce_maturity (p_val (i2_parent i)) <= child s) (t2_sci t).
Proof.
  intros H net vt pt se sd s m t Hv. destruct (v2_inputs_distinct_unspent_mature H net vt pt se sd s m t Hv) as [F _].
  eapply Forall_impl; [|exact F]. intros i (_ & A & _). exact A.
Qed.
Print Assumptions C08_v2_inputs_mature.

(* v2 contracts: a new contract or a revision is accepted only while its proof height is not in the past,
   and a revision only while the current contract's proof height is not in the past *)
Theorem C08_v2_contract_heights : forall vt s fc, validate_contract vt s fc = Ok tt ->
  child s <= c_proof_height fc /\ c_proof_height fc < c_exp_height fc.
Proof. intros vt s fc Hv. destruct (contract_wellformed vt s fc Hv) as (_ & A & B & _). auto. Qed.
Print Assumptions C08_v2_contract_heights.
Theorem C08_v2_revision_heights : forall net vt s m e rev, validate_revision net vt s m e rev = Ok tt ->
  exists cur, child s <= c_proof_height cur /\ child s <= c_proof_height rev /\ c_proof_height rev < c_exp_height rev.
Proof.
  intros net vt s m e rev Hv. destruct (revision_invariants net vt s m e rev Hv) as (cur & _ & _ & _ & _ & _ & _ & _ & A & B & C & _). eauto.
Qed.
Print Assumptions C08_v2_revision_heights.

(* policy locks compare the parent height (>=) and the median timestamp (strictly after): from C14 *)
Theorem C08_policy_locks : forall height median sigok preok se sd h t s,
  (verify height median sigok preok se sd (PAbove h) s = Ok s <-> (h <= height)%N) /\ (verify height median sigok preok se sd (PAfter t) s = Ok s <-> t < median).
Proof. intros. split; [apply above_iff|apply after_iff]. Qed.
Print Assumptions C08_policy_locks.

(* a v2 storage proof is accepted only from the proof height on and against the chain index element of exactly that
   height, which must be in the accumulator; an expiration only after the expiration height *)
Theorem C08_v2_resolution_heights : forall H vt s rs, validate_resolution H vt s rs = Ok tt ->
  let fc := v2_fc (p_val (rs_parent rs)) in
  match rs_res rs with
  | RProof sp => c_proof_height fc <= child s /\ snd (p_val (sp2_index sp)) = c_proof_height fc /\ fst (mem_ci s (sp2_index sp)) = true
  | RExpiration => c_exp_height fc < child s
  | RRenewal _ => True
  end.
Proof. exact resolution_heights. Qed.
Print Assumptions C08_v2_resolution_heights.
