(* C08 — height- and time-dependent rules. Proved: whatever is accepted satisfies the rule (the gate is not
   early), and a rule reports its error only when the height is on the wrong side of its bound (the gate is not
   late): every function of the validation path emits error codes of a known range only, so at the bound a
   transaction can only be rejected by another rule. The error codes are those the harness derives from the
   implementation's error text for every rejected block; the boundary probes of the correspondence at
   bound-1 / bound / bound+1 compare verdict and code. *)
From Coq Require Import ZArith List Bool.
From Sia Require Import Prim.Result Prim.Tok Policy.Model Policy.Proofs Ledger.Types Ledger.Mid Ledger.Validate Ledger.Apply Ledger.Proofs Ledger.Auth Ledger.Exact2 Ledger.Exact1 Ledger.BlockExact.
Import ListNotations.
Open Scope Z_scope.

Theorem C08_v1_not_after_require : forall H net vt se sd s m t ts,
  validate_txn1 H net vt se sd s m t ts = Ok tt -> child s < ln_v2_require net.
Proof. exact v1_not_after_require. Qed.
Print Assumptions C08_v1_not_after_require.

Theorem C08_v2_not_before_allow : forall H net vt pt se sd s m t,
  validate_txn2 H net vt pt se sd s m t = Ok tt -> ln_v2_allow net <= child s.
Proof. exact v2_not_before_allow. Qed.
Print Assumptions C08_v2_not_before_allow.

(* every accepted v2 input is mature at the child height *)
Theorem C08_v2_inputs_mature : forall H net vt pt se sd s m t, validate_v2_siacoins H net vt pt se sd s m t = Ok tt ->
  Forall (fun i => sce_maturity (p_val (i2_parent i)) <= child s) (t2_sci t).
Proof.
  intros H net vt pt se sd s m t Hv. destruct (v2_inputs_distinct_unspent_mature H net vt pt se sd s m t Hv) as [F _].
  eapply Forall_impl; [|exact F]. intros i (_ & A & _). exact A.
Qed.
Print Assumptions C08_v2_inputs_mature.

(* v2 contracts: a new contract or a revision is accepted only while its proof height is not in the past,
   and a revision only while the current contract's proof height is not in the past *)
Theorem C08_v2_contract_heights : forall vt s fc, validate_contract vt s fc = Ok tt ->
  child s <= c_proof_height fc /\ c_proof_height fc < c_exp_height fc.
Proof. intros vt s fc Hv. destruct (contract_wellformed vt s fc Hv) as (_ & A & B & _). auto. Qed.
Print Assumptions C08_v2_contract_heights.
Theorem C08_v2_revision_heights : forall net vt s m e rev, validate_revision net vt s m e rev = Ok tt ->
  exists cur, child s <= c_proof_height cur /\ child s <= c_proof_height rev /\ c_proof_height rev < c_exp_height rev.
Proof.
  intros net vt s m e rev Hv. destruct (revision_invariants net vt s m e rev Hv) as (cur & _ & _ & _ & _ & _ & _ & _ & A & B & C & _). eauto.
Qed.
Print Assumptions C08_v2_revision_heights.

(* policy locks compare the parent height (>=) and the median timestamp (strictly after): from C14 *)
Theorem C08_policy_locks : forall height median sigok preok se sd h t s,
  (verify height median sigok preok se sd (PAbove h) s = Ok s <-> (h <= height)%N) /\ (verify height median sigok preok se sd (PAfter t) s = Ok s <-> t < median).
Proof. intros. split; [apply above_iff|apply after_iff]. Qed.
Print Assumptions C08_policy_locks.

(* a v2 storage proof is accepted only from the proof height on and against the chain index element of exactly that
   height, which must be in the accumulator; an expiration only after the expiration height *)
Theorem C08_v2_resolution_heights : forall H vt s rs, validate_resolution H vt s rs = Ok tt ->
  let fc := v2_fc (p_val (rs_parent rs)) in
  match rs_res rs with
  | RProof sp => c_proof_height fc <= child s /\ snd (p_val (sp2_index sp)) = c_proof_height fc /\ fst (mem_ci s (sp2_index sp)) = true
  | RExpiration => c_exp_height fc < child s
  | RRenewal _ => True
  end.
Proof. exact resolution_heights. Qed.
Print Assumptions C08_v2_resolution_heights.

(* not late, v2 transactions: the code of a height rule is reported only when the height is on the wrong side of the bound.
   70 too early for v2; 76 immature input; 101 a contract formed (new, or the new contract of a renewal) whose proof height
   is past; 115 / 118 a revision of a contract (as presented / as it currently stands in the block) whose proof height is
   past; 124 a revision whose new proof height is past; 136 a storage proof before the proof height; 140 an expiration at
   or before the expiration height. *)
Theorem C08_v2_height_errors_exact : forall H net vt pt se sd s m t c, validate_txn2 H net vt pt se sd s m t = Err c ->
  70 <= c <= 143 /\
  (c = 70 -> child s < ln_v2_allow net) /\
  (c = 76 -> exists i, In i (t2_sci t) /\ child s < sce_maturity (p_val (i2_parent i))) /\
  (c = 101 -> exists fc, Formed t fc /\ c_proof_height fc < child s) /\
  (c = 115 -> exists rv, In rv (t2_rev t) /\ c_proof_height (v2_fc (p_val (r2_parent rv))) < child s) /\
  (c = 118 -> exists rv cur, In rv (t2_rev t) /\ current m (p_val (r2_parent rv)) = Ok cur /\ c_proof_height cur < child s) /\
  (c = 124 -> exists rv, In rv (t2_rev t) /\ c_proof_height (r2_rev rv) < child s) /\
  (c = 136 -> exists rs sp, In rs (t2_res t) /\ rs_res rs = RProof sp /\ child s < c_proof_height (v2_fc (p_val (rs_parent rs)))) /\
  (c = 140 -> exists rs, In rs (t2_res t) /\ rs_res rs = RExpiration /\ child s <= c_exp_height (v2_fc (p_val (rs_parent rs)))).
Proof. exact txn2_height_errors. Qed.
Print Assumptions C08_v2_height_errors_exact.

(* not late, v1 transactions: 20 v1 after the require height; 24 / 30 / 39 / 64 a timelock (siacoin input, siafund input,
   revision, signature) above the height; 28 immature input; 35 / 40 a contract or revision whose window start is past;
   44 a revision of a contract whose window has opened; 53 a storage proof before the block at the window start exists. *)
Theorem C08_v1_height_errors_exact : forall H net vt se sd s m t ts c, validate_txn1 H net vt se sd s m t ts = Err c ->
  20 <= c <= 68 /\
  (c = 20 -> ln_v2_require net <= child s) /\
  (c = 24 -> exists i, In i (t1_sci t) /\ child s < i1_timelock i) /\
  (c = 28 -> exists i p lf, In i (t1_sci t) /\ sc_element m ts (i1_parent i) = Some (p, lf) /\ child s < sce_maturity p) /\
  (c = 30 -> exists i, In i (t1_sfi t) /\ child s < f1_timelock i) /\
  (c = 35 -> exists x, In x (t1_fc t) /\ fc_wstart (snd (fst x)) < child s) /\
  (c = 39 -> exists rv, In rv (t1_rev t) /\ child s < r1_timelock rv) /\
  (c = 40 -> exists rv, In rv (t1_rev t) /\ fc_wstart (r1_fc rv) < child s) /\
  (c = 44 -> exists rv p lf, In rv (t1_rev t) /\ fc_element m ts (r1_parent rv) = Some (p, lf) /\ fc_wstart (fce_fc p) < child s) /\
  (c = 53 -> exists sp, In sp (t1_sp t) /\ sp_window_id m ts s (s1_parent sp) = None) /\
  (c = 64 -> exists g, In g (t1_sigs t) /\ child s < g_timelock g).
Proof. exact txn1_height_errors. Qed.
Print Assumptions C08_v1_height_errors_exact.

(* the two hardfork gates are exact: the code is reported if and only if the height is on the wrong side *)
Theorem C08_gates_exact : forall H net vt pt se sd s m,
  (forall t, validate_txn2 H net vt pt se sd s m t = Err 70 <-> child s < ln_v2_allow net) /\
  (forall t ts, validate_txn1 H net vt se sd s m t ts = Err 20 <-> ln_v2_require net <= child s).
Proof. exact gates_exact. Qed.
Print Assumptions C08_gates_exact.

(* the block level: application never reports an error (it can only panic) and the block-level checks use codes below 20,
   so a block is rejected with the code of a transaction rule only because one of its transactions is rejected with that
   code in the MidState the transactions before it produced; with the two theorems above, the height rule of that code is
   violated by that transaction *)
Theorem C08_block_error_from_transaction : forall H net vt pt se sd s b c,
  validate_block H net vt pt se sd s b = Err c -> 20 <= c ->
  (exists t ts m, In t (b_txns b) /\ validate_txn1 H net vt se sd s m t ts = Err c) \/
  (exists t m, In t (b_v2txns b) /\ validate_txn2 H net vt pt se sd s m t = Err c).
Proof. exact block_error_from_txn. Qed.
Print Assumptions C08_block_error_from_transaction.
