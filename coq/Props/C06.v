(* C06 — reverting is the exact inverse of applying. In the model a revert returns to the previous state by
   construction; the theorems say that the diff of an applied block records exactly what a store needs to
   undo it. The RevertUpdate diffs and proofs of the implementation are checked by the correspondence
   (store inverse after every revert, proofs equal to the pre-block proofs, byte-identical re-apply). *)
From Coq Require Import ZArith List Bool.
From Sia Require Import Prim.Result Prim.Tok Policy.Model Ledger.Types Ledger.Mid Ledger.Validate Ledger.Apply Ledger.Proofs Ledger.Revert Ledger.Persist Ledger.RevertOk Ledger.RevertOk1.
Import ListNotations.
Open Scope Z_scope.

(* a spent element is recorded with its own contents and leaf index: putting it back unspent restores the leaf list *)
Theorem C06_spend_then_restore : forall s p ls', fst (mem_sc s p) = true ->
  ls' = Mid.set_nth (Z.to_nat (p_leaf p)) {| l_elem := ESC (p_val p); l_spent := true |} (s_leaves s) ->
  Mid.set_nth (Z.to_nat (p_leaf p)) {| l_elem := ESC (p_val p); l_spent := false |} ls' = s_leaves s.
Proof. exact spend_then_restore. Qed.
Print Assumptions C06_spend_then_restore.

(* created elements are appended after all existing leaves: dropping them restores the old list *)
Theorem C06_created_leaves_truncate : forall ls added : list leaf, firstn (length ls) (ls ++ added) = ls.
Proof. exact appended_leaves_truncate. Qed.
Print Assumptions C06_created_leaves_truncate.

(* re-applying a block after a revert is the same function of (state, block): identical result *)
Theorem C06_reapply_identical : forall net s b r1 r2, apply_block net s b = r1 -> apply_block net s b = r2 -> r1 = r2.
Proof. intros; congruence. Qed.
Print Assumptions C06_reapply_identical.

(* ---- undoing a whole block on the element store ---- *)
(* any list: after rewriting positions, writing back at every rewritten position the value that stood there before
   restores the list, whatever the order and multiplicity of the writes *)
Theorem C06_write_back : forall ls news olds, map fst olds = map fst news ->
  Forall (fun o => fst o = UNASSIGNED \/ nth_error ls (Z.to_nat (fst o)) = Some (snd o)) olds ->
  write_all (write_all ls news) olds = ls.
Proof. exact write_back. Qed.
Print Assumptions C06_write_back.

(* the block: dropping the appended leaves and writing back, at the leaf index of every diff, the element the diff
   records (unspent, unrevised, unresolved) gives exactly the store before the block, provided each of those leaves held
   that element before the block (what validation checks of every presented element) *)
Theorem C06_revert_restores : forall net s b s' m, apply_block net s b = Ok (s', m) ->
  Forall (fun o => fst o = UNASSIGNED \/ nth_error (s_leaves s) (Z.to_nat (fst o)) = Some (snd o)) (old_updates s m b) ->
  revert_leaves s s' m b = s_leaves s.
Proof. exact revert_restores. Qed.
Print Assumptions C06_revert_restores.

(* for an accepted block (no v1 transactions, no expiring v1 contracts) the hypothesis above is established by validation:
   every diff with an assigned leaf records exactly the element that leaf held (a spent element and a revised or resolved
   contract are recorded as presented, and validation has compared the presented element, field by field, with the leaf),
   so undoing the block restores the element store -- no hypothesis about the diffs left *)
Theorem C06_revert_restores_accepted : forall H net vt pt se sd s b s' m,
  validate_block H net vt pt se sd s b = Ok tt -> apply_block net s b = Ok (s', m) ->
  b_txns b = [] -> b_expiring b = [] -> revert_leaves s s' m b = s_leaves s.
Proof. exact revert_restores_accepted. Qed.
Print Assumptions C06_revert_restores_accepted.

(* and for every accepted block of any era -- v1 transactions, v1 contracts revised, proven or expiring included (what a v1
   lookup returns is what the diff holds already, or a supplement element that validateSupplement has compared with its
   leaf) *)
Theorem C06_revert_restores_any_accepted_block : forall H net vt pt se sd s b s' m,
  validate_block H net vt pt se sd s b = Ok tt -> apply_block net s b = Ok (s', m) -> revert_leaves s s' m b = s_leaves s.
Proof. exact revert_restores_any. Qed.
Print Assumptions C06_revert_restores_any_accepted_block.
