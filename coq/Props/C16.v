(* C16 — RHP Merkle roots and proofs. First milestone: the accumulators used by the verifiers
   (proofAccumulator.insertNode at height 0, blake2b.Accumulator.AddLeaf) are the binary increment
   over a forest of perfect trees covering exactly the inserted leaves; proof completeness and
   soundness inside one perfect tree (shared with C05). The range/append/diff algorithms are
   executable in Merkle/Rhp.v and tied to the code by correspondence; their completeness and
   soundness theorems over the plain tree [mroot] are not yet proved (stated below as the
   checked, bounded obligations they currently are). *)
From Coq Require Import List NArith.
From Sia Require Import Prim.Tok Merkle.Tree Merkle.Forest Merkle.Rhp Merkle.RhpProofs Merkle.RhpRoot Merkle.RgComplete Merkle.RgSound Merkle.RgSound2 Merkle.RgAppend Merkle.RgGap Merkle.RgMulti Merkle.RgDiff2 Merkle.RgDiff3 Merkle.RgRpv1 Merkle.RgRpv2 Merkle.StorageProof Merkle.RgConv1 Merkle.RgConv2.
Import ListNotations.

Theorem C16_accumulator_is_forest : forall H L ds xs, Repr hash (node H) L ds ->
  Repr hash (node H) (L ++ xs) (fold_left (fun a h => insert_node H h 0 a) xs ds).
Proof. exact acc_digits_repr. Qed.
Print Assumptions C16_accumulator_is_forest.

Theorem C16_accumulator_count : forall H L ds, Repr hash (node H) L ds -> length L = value hash 0 ds.
Proof. exact acc_count. Qed.
Print Assumptions C16_accumulator_count.

(* inside one perfect tree: the builder's path verifies, and whatever verifies is the true leaf
   with the true siblings, or a node collision is exhibited *)
Theorem C16_tree_proof_complete : forall (node : hash -> hash -> hash) t p x, perfect hash t -> get hash t p = Some x ->
  proofRoot hash node x (rev p) (rev (sibs hash node t p)) = root hash node t.
Proof. exact (proof_complete hash). Qed.
Print Assumptions C16_tree_proof_complete.

Theorem C16_tree_proof_sound : forall (node : hash -> hash -> hash) t p x ps,
  perfect hash t -> length p = height hash t -> length ps = height hash t ->
  proofRoot hash node x (rev p) (rev ps) = root hash node t ->
  (get hash t p = Some x /\ ps = sibs hash node t p) \/ Tree.NodeCollision hash node.
Proof. exact (proof_sound hash (list_eq_dec N.eq_dec)). Qed.
Print Assumptions C16_tree_proof_sound.

(* the plain definition on small inputs agrees with the accumulator (kernel-computed, identity hash
   replaced by concatenation so that structure is visible): a finite check, not the general theorem *)
Example C16_acc_root_upto_9 : let H := fun b : bytes => b in
  forallb (fun n => let ls := map (fun i => [N.of_nat i]) (seq 0 n) in
     if list_eq_dec (list_eq_dec N.eq_dec) [pa_root H (fold_left (fun a h => insert_node H h 0 a) ls [])] [mroot H ls] then true else false)
    (seq 1 9) = true.
Proof. vm_compute. reflexivity. Qed.

(* the streaming accumulators compute the root of the plainly defined tree (split at the largest power of two strictly
   below the length), for every list of leaves: sectorAccumulator.appendNode / proofAccumulator.insertNode(_, 0) /
   blake2b.Accumulator.AddLeaf followed by root() *)
Theorem C16_streaming_root_is_plain_root : forall H (ls : list hash),
  pa_root H (fold_left (fun a h => insert_node H h 0 a) ls []) = mroot H ls.
Proof. exact streaming_root_is_plain_root. Qed.
Print Assumptions C16_streaming_root_is_plain_root.

(* any accumulator state that represents L (digit i = root of a perfect tree of height i, oldest leaves in the highest
   digit) has the plain root of L as its root *)
Theorem C16_forest_root_is_plain_root : forall H L ds, Repr hash (node H) L ds -> pa_root H ds = mroot H L.
Proof. exact repr_root. Qed.
Print Assumptions C16_forest_root_is_plain_root.

(* MetaRoot (accumulator up to the limit, recursive split above it) is the plain root for every list and limit >= 1 *)
Theorem C16_metaroot_is_plain_root : forall H fuel limit, (1 <= limit)%nat -> forall ls, (length ls <= fuel)%nat ->
  meta_root H fuel limit ls = mroot H ls.
Proof. exact meta_root_is_plain_root. Qed.
Print Assumptions C16_metaroot_is_plain_root.

(* a perfect tree's root is the plain root of its leaves (ties the proofs-in-a-perfect-tree theorems above to mroot) *)
Theorem C16_perfect_root_is_plain_root : forall H t, perfect hash t -> mroot H (leaves hash t) = root hash (node H) t.
Proof. exact perfect_root. Qed.
Print Assumptions C16_perfect_root_is_plain_root.

(* ---- sector-range proofs: completeness ---- *)
(* for every list of at most 2^30 sector roots and every non-empty range, the proof produced by BuildSectorRangeProof
   (greedy aligned subtrees left of the range, then right of it, the last one clipped at the end of the list) is accepted
   by VerifySectorRangeProof -- length check by the popcount formula included -- together with the covered roots, against
   the plainly defined root. (Above 2^30 roots the builder's MaxInt32 bound and the verifier's MaxUint64 bound part ways.) *)
Theorem C16_range_proof_complete : forall H (ls : list hash) start end_,
  let n := N.of_nat (length ls) in
  (0 < n <= 2 ^ 30)%N -> (start < end_)%N -> (end_ <= n)%N ->
  verify_range_proof H (build_range_proof H ls start end_) (slice ls start (end_ - start)) start end_ n (mroot H ls) = true.
Proof. exact range_proof_complete. Qed.
Print Assumptions C16_range_proof_complete.

(* ---- sector-range proofs: soundness ---- *)
(* whatever VerifySectorRangeProof accepts against the plain root of a list of at most 2^30 sector roots, for a non-empty
   range [start, end) within the list and as many covered roots as the range has, is the list's own roots for that range
   together with exactly the proof BuildSectorRangeProof produces -- or two different pairs of hashes with the same node
   hash are in hand. (For fixed n, start, end the verifier evaluates one fixed tree expression over proof hashes and roots;
   the argument runs the verifier once over pairs (submitted hash, honest hash) and tracks equality through every node.) *)
Theorem C16_range_proof_sound : forall H (ls : list hash) start end_ proof roots,
  (0 < N.of_nat (length ls) <= 2 ^ 30)%N -> (start < end_)%N -> (end_ <= N.of_nat (length ls))%N ->
  N.of_nat (length roots) = (end_ - start)%N ->
  verify_range_proof H proof roots start end_ (N.of_nat (length ls)) (mroot H ls) = true ->
  (roots = slice ls start (end_ - start) /\ proof = build_range_proof H ls start end_) \/ RgSound.NodeCollision H.
Proof. exact range_proof_sound. Qed.
Print Assumptions C16_range_proof_sound.

(* the collision disjunct is the same statement as in the perfect-tree theorems above *)
Theorem C16_range_collision_is_node_collision : forall H, RgSound.NodeCollision H <-> Tree.NodeCollision hash (node H).
Proof. exact range_collision_same. Qed.
Print Assumptions C16_range_collision_is_node_collision.

(* ---- append proofs ---- *)
(* rhp/v4 BuildAppendProof returns the digits of the accumulator over the existing roots (one subtree root per set bit of
   the count) and the plain root of existing ++ appended; VerifyAppendSectorsProof accepts them with the plain old root *)
Theorem C16_append_new_root_is_plain_root : forall H (ls app : list hash), snd (build_append_proof H ls app) = mroot H (ls ++ app).
Proof. exact build_append_root. Qed.
Print Assumptions C16_append_new_root_is_plain_root.

Theorem C16_append_sectors_complete : forall H (ls app : list hash),
  verify_append_sectors H (N.of_nat (length ls)) (fst (build_append_proof H ls app)) app (mroot H ls) (snd (build_append_proof H ls app)) = true.
Proof. exact append_sectors_complete. Qed.
Print Assumptions C16_append_sectors_complete.

(* whatever subtree roots are supplied -- wrong, too few (missing ones read as the zero hash) or too many (the rest is
   ignored) -- if VerifyAppendSectorsProof accepts against the plain root of the existing roots with the count held true,
   the new root it accepted is the plain root of existing ++ appended, or a node collision is exhibited: an altered subtree
   root, appended root, old root or new root is therefore rejected *)
Theorem C16_append_sectors_sound : forall H (ls app proof : list hash) (newRoot : hash),
  verify_append_sectors H (N.of_nat (length ls)) proof app (mroot H ls) newRoot = true ->
  newRoot = mroot H (ls ++ app) \/ RgSound.NodeCollision H.
Proof. exact append_sectors_sound. Qed.
Print Assumptions C16_append_sectors_sound.

(* rhp/v2 VerifyAppendProof (all 64 heights scanned, one appended root): the same two statements for counts below 2^64 *)
Theorem C16_append_v2_complete : forall H (ls : list hash) (x : hash), (N.of_nat (length ls) < 2 ^ 64)%N ->
  verify_append H (N.of_nat (length ls)) (somes (fold_left (fun a h => insert_node H h 0 a) ls [])) x (mroot H ls) (mroot H (ls ++ [x])) = true.
Proof. exact append_v2_complete. Qed.
Print Assumptions C16_append_v2_complete.

Theorem C16_append_v2_sound : forall H (ls proof : list hash) (x newRoot : hash), (N.of_nat (length ls) < 2 ^ 64)%N ->
  verify_append H (N.of_nat (length ls)) proof x (mroot H ls) newRoot = true ->
  newRoot = mroot H (ls ++ [x]) \/ RgSound.NodeCollision H.
Proof. exact append_v2_sound. Qed.
Print Assumptions C16_append_v2_sound.

(* ---- diff / free-sector proofs: the old-root half ---- *)
(* the greedy decomposition of a gap [i, j), j < 2^64, takes at most 128 steps: the potential phi drops at every step, so
   the model's fuel (200) never decides anything *)
Theorem C16_gap_potential_decreases : forall i j, (i < j)%N -> (j < 2 ^ 64)%N -> (i + next_subtree_size i j < j)%N ->
  (phi (i + next_subtree_size i j) j < phi i j)%N.
Proof. exact phi_step. Qed.
Print Assumptions C16_gap_potential_decreases.
Theorem C16_gap_potential_bound : forall i j, (j < 2 ^ 64)%N -> (phi i j <= 128)%N.
Proof. exact phi_bound. Qed.
Print Assumptions C16_gap_potential_bound.

(* sectorsChanged yields strictly increasing indices below the count *)
Theorem C16_sectors_changed_increasing : forall acts n, incr 0 (sectors_changed acts n) n.
Proof. exact (sectors_changed_incr (fun b => b)). Qed.
Print Assumptions C16_sectors_changed_increasing.

(* the multi-range verifier of VerifyDiffProof: the builder's gap hashes and the true leaves at any increasing index list
   are accepted against the plain root, for every list of fewer than 2^64 roots *)
Theorem C16_multi_complete : forall H (ls : list hash) idx, (N.of_nat (length ls) < 2 ^ 64)%N -> incr 0 idx (N.of_nat (length ls)) ->
  verify_multi H idx (build_gaps H FUEL ls 0 idx) (leaves_at ls idx) (N.of_nat (length ls)) (mroot H ls) = Some true.
Proof. exact multi_complete. Qed.
Print Assumptions C16_multi_complete.

(* ... and whatever it accepts against the plain root, with the count held true and any number of tree hashes offered, is
   the true leaves at the indices and exactly the builder's gap hashes, or a node collision is exhibited. This rests on the
   verifier marking a range that runs out of tree hashes (repaired defect 7283819); on the unmarked loop the statement is
   false, see the next example *)
Theorem C16_multi_sound : forall H (ls : list hash) idx th lh, (N.of_nat (length ls) < 2 ^ 64)%N -> incr 0 idx (N.of_nat (length ls)) ->
  length lh = length idx ->
  verify_multi H idx th lh (N.of_nat (length ls)) (mroot H ls) = Some true ->
  (lh = leaves_at ls idx /\ th = build_gaps H FUEL ls 0 idx) \/ RgSound.NodeCollision H.
Proof. exact multi_sound. Qed.
Print Assumptions C16_multi_sound.

Example C16_unmarked_loop_refuted : let Hid := fun b : bytes => b in
  let ls := [[1]; [2]; [3]; [4]]%N in
  exists th lh acc, multi_ns Hid FUEL [] th 0 [3%N] lh 4 = Some (acc, []) /\ pa_root Hid acc = mroot Hid ls /\ lh <> leaves_at ls [3%N] /\ length lh = 1%nat.
Proof. exact unmarked_loop_refuted. Qed.

(* VerifyDiffProof / VerifyFreeSectorsProof, first half: BuildDiffProof's hashes pass the old-root verification, and an
   accepted diff proof carries the true roots of the changed sectors and the builder's tree hashes (or a collision) *)
Theorem C16_diff_old_complete : forall H (acts : list action) (ls : list hash), (N.of_nat (length ls) < 2 ^ 64)%N ->
  verify_multi H (sectors_changed acts (N.of_nat (length ls))) (fst (build_diff_proof H acts ls)) (snd (build_diff_proof H acts ls))
    (N.of_nat (length ls)) (mroot H ls) = Some true.
Proof. exact diff_old_complete. Qed.
Print Assumptions C16_diff_old_complete.

Theorem C16_diff_old_sound : forall H (acts : list action) (ls th lh : list hash) (newRoot : hash) (appendRoots : list hash),
  (N.of_nat (length ls) < 2 ^ 64)%N ->
  verify_diff_proof H acts (N.of_nat (length ls)) th lh (mroot H ls) newRoot appendRoots = Some true ->
  (lh = snd (build_diff_proof H acts ls) /\ th = fst (build_diff_proof H acts ls)) \/ RgSound.NodeCollision H.
Proof. exact diff_old_sound. Qed.
Print Assumptions C16_diff_old_sound.

(* second half, reduced to the builder's side: the new root VerifyDiffProof accepts is determined by the actions, the old
   list and the appended roots (it is the root the verifier derives from BuildDiffProof's own output), or a collision is
   exhibited. That this root is the plain root of the list after the actions is tied by correspondence. *)
Theorem C16_diff_new_root_determined : forall H (acts : list action) (ls th lh : list hash) (newRoot : hash) (ar : list hash),
  (N.of_nat (length ls) < 2 ^ 64)%N ->
  verify_diff_proof H acts (N.of_nat (length ls)) th lh (mroot H ls) newRoot ar = Some true ->
  diff_new_root H acts ls ar = Some newRoot \/ RgSound.NodeCollision H.
Proof. exact diff_new_determined. Qed.
Print Assumptions C16_diff_new_root_determined.

(* ---- diff / free-sector proofs: the whole verifier ---- *)
(* [apply_acts] is what the actions do to the list of sector roots (append takes the next precomputed root, trim drops
   from the end, swap exchanges two roots; None when an action is out of range). For every action list that is in range,
   BuildDiffProof's output passes VerifyDiffProof with the plain roots of the old list and of the list after the actions *)
Theorem C16_diff_complete : forall H (acts : list action) (ls ar new : list hash),
  apply_acts acts ls ar = Some new -> (N.of_nat (length ls) < 2 ^ 64)%N -> (N.of_nat (length new) < 2 ^ 64)%N ->
  verify_diff_proof H acts (N.of_nat (length ls)) (fst (build_diff_proof H acts ls)) (snd (build_diff_proof H acts ls)) (mroot H ls) (mroot H new) ar = Some true.
Proof. exact diff_complete. Qed.
Print Assumptions C16_diff_complete.

(* ... and whatever VerifyDiffProof accepts against the plain old root (count held true) carries the plain root of the list
   after the actions as new root, the true roots of the changed sectors as leaf hashes and the builder's tree hashes -- or
   a node collision is exhibited. An altered tree hash, leaf hash, old root or new root, and a proof with fewer or more
   tree hashes, are therefore rejected. *)
Theorem C16_diff_sound : forall H (acts : list action) (ls th lh ar new : list hash) (newRoot : hash),
  apply_acts acts ls ar = Some new -> (N.of_nat (length ls) < 2 ^ 64)%N -> (N.of_nat (length new) < 2 ^ 64)%N ->
  verify_diff_proof H acts (N.of_nat (length ls)) th lh (mroot H ls) newRoot ar = Some true ->
  (newRoot = mroot H new /\ lh = snd (build_diff_proof H acts ls) /\ th = fst (build_diff_proof H acts ls)) \/ RgSound.NodeCollision H.
Proof. exact diff_sound. Qed.
Print Assumptions C16_diff_sound.

(* rhp/v4 BuildFreeSectorsProof / VerifyFreeSectorsProof: the same for "swap the i-th freed index with the i-th sector from
   the end, then trim" *)
Theorem C16_free_sectors_complete : forall H (freed : list N) (ls new : list hash),
  let acts := convert_free_actions freed (N.of_nat (length ls)) in
  apply_acts acts ls [] = Some new -> (N.of_nat (length ls) < 2 ^ 64)%N -> (N.of_nat (length new) < 2 ^ 64)%N ->
  verify_diff_proof H acts (N.of_nat (length ls)) (fst (build_diff_proof H acts ls)) (snd (build_diff_proof H acts ls)) (mroot H ls) (mroot H new) [] = Some true.
Proof. exact free_complete. Qed.
Print Assumptions C16_free_sectors_complete.

Theorem C16_free_sectors_sound : forall H (freed : list N) (ls th lh new : list hash) (newRoot : hash),
  let acts := convert_free_actions freed (N.of_nat (length ls)) in
  apply_acts acts ls [] = Some new -> (N.of_nat (length ls) < 2 ^ 64)%N -> (N.of_nat (length new) < 2 ^ 64)%N ->
  verify_diff_proof H acts (N.of_nat (length ls)) th lh (mroot H ls) newRoot [] = Some true ->
  (newRoot = mroot H new /\ lh = snd (build_diff_proof H acts ls) /\ th = fst (build_diff_proof H acts ls)) \/ RgSound.NodeCollision H.
Proof. exact free_sound. Qed.
Print Assumptions C16_free_sectors_sound.

Example C16_apply_acts_example : apply_acts [ASwap 1 3; ATrim 2; AAppend] [[1]; [2]; [3]; [4]; [5]]%N [[9%N]] = Some [[1]; [4]; [3]; [9]]%N.
Proof. exact apply_acts_example. Qed.

(* ---- single leaves of a sector (rhp/v4 BuildSectorProof / VerifyLeafProof, rhp/v2 BuildProof over one sector) ---- *)
(* these call the sector-range builder and verifier with the 65536 leaf hashes of a sector, so they are instances: the
   proof built for leaf i of any sector is accepted with that leaf's hash, and an accepted (leaf hash, proof) pair is the
   true leaf hash with the built proof, or a collision is exhibited *)
Theorem C16_leaf_proof_complete : forall H (ls : list hash) i, N.of_nat (length ls) = 65536%N -> (i < 65536)%N ->
  verify_range_proof H (build_range_proof H ls i (i + 1)) [nth (N.to_nat i) ls zero_hash] i (i + 1) 65536 (mroot H ls) = true.
Proof. exact leaf_proof_complete. Qed.
Print Assumptions C16_leaf_proof_complete.

Theorem C16_leaf_proof_sound : forall H (ls : list hash) i proof leaf, N.of_nat (length ls) = 65536%N -> (i < 65536)%N ->
  verify_range_proof H proof [leaf] i (i + 1) 65536 (mroot H ls) = true ->
  (leaf = nth (N.to_nat i) ls zero_hash /\ proof = build_range_proof H ls i (i + 1)) \/ RgSound.NodeCollision H.
Proof. exact leaf_proof_sound. Qed.
Print Assumptions C16_leaf_proof_sound.

(* ---- rhp/v2 RangeProofVerifier (streaming verification of a leaf range of one sector) ---- *)
(* inserting the root of an aligned block of 2^h hashes is inserting the hashes one by one, whatever the accumulator holds *)
Theorem C16_block_insert_is_leaf_inserts : forall H (h : nat) (l : list hash) ds, length l = Nat.pow 2 h -> lowfree h ds ->
  fold_left (fun a x => insert_node H x 0 a) l ds = insert_node H (mroot H l) h ds.
Proof. exact ins_block. Qed.
Print Assumptions C16_block_insert_is_leaf_inserts.

(* Verify over the subtree roots of the data read = VerifySectorRangeProof over the leaf hashes read, for every proof,
   honest or not, every range and every power-of-two leaf count up to 2^30 (a sector has 2^16) *)
Theorem C16_range_proof_verifier_is_range_verifier : forall H (k : N) (proof lv : list hash) s e root,
  (1 <= k)%N -> (k <= 30)%N -> (s < e)%N -> (e <= 2 ^ k)%N -> N.of_nat (length lv) = (e - s)%N ->
  rpv_verify H proof lv s e (2 ^ k) root = verify_range_proof H proof lv s e (2 ^ k) root.
Proof. exact rpv_is_range. Qed.
Print Assumptions C16_range_proof_verifier_is_range_verifier.

Theorem C16_range_proof_verifier_complete : forall H (k : N) (ls : list hash) s e,
  (1 <= k)%N -> (k <= 30)%N -> N.of_nat (length ls) = (2 ^ k)%N -> (s < e)%N -> (e <= 2 ^ k)%N ->
  rpv_verify H (build_range_proof H ls s e) (slice ls s (e - s)) s e (2 ^ k) (mroot H ls) = true.
Proof. exact rpv_complete. Qed.
Print Assumptions C16_range_proof_verifier_complete.

Theorem C16_range_proof_verifier_sound : forall H (k : N) (ls proof lv : list hash) s e,
  (1 <= k)%N -> (k <= 30)%N -> N.of_nat (length ls) = (2 ^ k)%N -> (s < e)%N -> (e <= 2 ^ k)%N ->
  N.of_nat (length lv) = (e - s)%N -> rpv_verify H proof lv s e (2 ^ k) (mroot H ls) = true ->
  (lv = slice ls s (e - s) /\ proof = build_range_proof H ls s e) \/ RgSound.NodeCollision H.
Proof. exact rpv_sound. Qed.
Print Assumptions C16_range_proof_verifier_sound.

(* ---- ConvertProofOrdering: from the RHP leaf proof to the consensus storage proof ---- *)
(* for a perfect tree of 2^a leaf hashes (a sector: a = 16) and any leaf i, reordering the left-to-right proof built by
   BuildSectorRangeProof / BuildSectorProof for [i, i+1) gives exactly the bottom-up sibling list of the plain tree -- the
   list the consensus storage-proof verifier accepts (C07_storage_proof_v2_complete) *)
Theorem C16_convert_proof_ordering : forall H (a : nat) (L : list hash) i, (1 <= a <= 30)%nat -> length L = Nat.pow 2 a -> (i < 2 ^ N.of_nat a)%N ->
  convert_proof_ordering (build_range_proof H L i (i + 1)) i = sp_prove H (length L) L (N.to_nat i).
Proof. exact convert_is_storage_proof. Qed.
Print Assumptions C16_convert_proof_ordering.
