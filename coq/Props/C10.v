(* C10 — untrusted input cannot crash a node. Decode half: the generic decoder (the model of
   types.Decoder over the generated shapes) is a total function into option — it has no panic site —
   and it never builds a slice or byte string with more elements than the input has bytes, because
   the length prefix is compared with the bytes remaining before anything is read. Validation half:
   see the ledger theorems, added with the ledger model. *)
From Coq Require Import String.
From Coq Require Import List NArith Bool.
From Sia Require Import Codec.Canonical Codec.PolicyWire Codec.PolicyBounds Prim.Tok Codec.Schema Codec.Shape Codec.Irregular Gen.Schemas Codec.Oblig.
From Sia Require Prim.Result Ledger.Types Ledger.Mid Ledger.Validate Ledger.Apply Ledger.VApply Ledger.Marks1 Ledger.Wk2 Ledger.Kinds.
Import ListNotations.

Theorem C10_slice_alloc_bound : forall recog s b l r,
  dec recog (SSlice s) b = Some (VList l, r) -> (List.length l + 8 <= List.length b)%nat.
Proof. exact slice_alloc_bound. Qed.
Print Assumptions C10_slice_alloc_bound.

Theorem C10_bytes_alloc_bound : forall recog b d r,
  dec recog SBytes b = Some (VBytes d, r) -> (List.length d + 8 <= List.length b)%nat.
Proof. exact bytes_alloc_bound. Qed.
Print Assumptions C10_bytes_alloc_bound.

(* every generated type's slices have elements of at least one byte, so the bound above limits the
   number of elements of every decoded collection by the input length (re-checked on every run) *)
Theorem C10_all_shapes_wellformed : forallb wf_ok gen_types = true.
Proof. exact all_wf. Qed.
Print Assumptions C10_all_shapes_wellformed.

(* the recursive policy decoder: every policy it returns nests at most 32 thresholds deep (hostile input cannot drive
   the recursion deeper), and has no more nodes than the input has bytes *)
Theorem C10_policy_depth_bounded : forall b p r, byte_okl b -> dec_pw max_policy_levels b = Some (p, r) -> (pw_depth p <= 32)%nat.
Proof. exact decoded_policy_depth. Qed.
Print Assumptions C10_policy_depth_bounded.

Theorem C10_policy_size_bounded : forall b p r, byte_okl b -> dec_pw max_policy_levels b = Some (p, r) ->
  (pw_nodes p + List.length r <= List.length b)%nat.
Proof. exact decoded_policy_size. Qed.
Print Assumptions C10_policy_size_bounded.

(* ---- validation half: the transaction phase of ApplyBlock cannot fail or panic on an accepted block ---- *)
(* every application ApplyBlock performs on the block's v1 and v2 transactions has already been performed, with the same
   MidState, by ValidateBlock; having accepted, it has seen each of them return Ok. (The remaining phases of ApplyBlock --
   miner payouts, Foundation subsidy, expiring v1 contracts -- are not covered by this statement.) *)
Theorem C10_accepted_transactions_apply : forall H net vt pt se sd s b,
  Ledger.Apply.validate_block H net vt pt se sd s b = Prim.Result.Ok tt ->
  exists m1 m2, Ledger.Apply.apply_txns1 net s (Ledger.Mid.new_mid s) (Ledger.Types.b_txns b) (Ledger.Types.b_supp b) = Prim.Result.Ok m1 /\
                Ledger.Apply.fold_r (Ledger.Apply.apply_txn2 net s) (Ledger.Types.b_v2txns b) m1 = Prim.Result.Ok m2.
Proof. intros H net vt pt se sd s b V. destruct (Ledger.VApply.accepted_transactions_apply H net vt pt se sd s b V) as (m1 & m2 & _ & A1 & _ & A2). exists m1, m2. split; assumption. Qed.
Print Assumptions C10_accepted_transactions_apply.

(* the whole of ApplyBlock: an accepted block is applied -- transactions, miner payouts, Foundation subsidy, expiring v1
   contracts -- with no error and no panic, provided its IDs name elements of one kind only (what the ID derivation, C12,
   delivers: then the MidState's shared slot map stays consistent and no record runs outside its slice) and the network's
   Foundation subsidy is computable at this height (a condition on the network parameters alone) *)
Theorem C10_accepted_block_applies : forall (kind_of : Ledger.Types.id -> Ledger.Marks1.kind) H net vt pt se sd s b,
  Ledger.Apply.validate_block H net vt pt se sd s b = Prim.Result.Ok tt -> Ledger.Wk2.KindsB kind_of b ->
  (exists o, Ledger.Validate.foundation_subsidy net s = Prim.Result.Ok o) ->
  exists s' m, Ledger.Apply.apply_block net s b = Prim.Result.Ok (s', m).
Proof. exact Ledger.Wk2.accepted_block_applies. Qed.
Print Assumptions C10_accepted_block_applies.

(* the same with the ID discipline as a decidable check of the block: every ID the block mentions is declared with the kind
   of element it names ([declsB]); if no ID is declared with two kinds the kind assignment exists *)
Theorem C10_accepted_consistent_block_applies : forall H net vt pt se sd s b,
  Ledger.Apply.validate_block H net vt pt se sd s b = Prim.Result.Ok tt -> Ledger.Kinds.consistent (Ledger.Kinds.declsB b) = true ->
  (exists o, Ledger.Validate.foundation_subsidy net s = Prim.Result.Ok o) ->
  exists s' m, Ledger.Apply.apply_block net s b = Prim.Result.Ok (s', m).
Proof. exact Ledger.Kinds.accepted_consistent_block_applies. Qed.
Print Assumptions C10_accepted_consistent_block_applies.
