(* C13 — difficulty retargeting: clamps per era, never zero, monotone cumulative work,
   inverse relation, header validation, asymmetric "sufficiently heavier". *)
From Coq Require Import ZArith List Bool.
From Sia Require Import Prim.Result Pow.Model Pow.Proofs Pow.Total.
Open Scope Z_scope.

Theorem C13_clamp_finalcut : forall net s ts d', 0 <= p_difficulty s ->
  adjust_difficulty_finalcut net s ts = Ok d' ->
  Z.abs (d' - p_difficulty s) <= Z.max (p_difficulty s / 250) 1 /\ 1 <= d'.
Proof. exact finalcut_clamp. Qed.
Print Assumptions C13_clamp_finalcut.

Theorem C13_clamp_v2 : forall net s ts d', 0 <= p_difficulty s ->
  adjust_difficulty_v2 net s ts = Ok d' ->
  p_difficulty s - p_difficulty s / 250 <= d' <= p_difficulty s + p_difficulty s / 250.
Proof. exact v2_clamp. Qed.
Print Assumptions C13_clamp_v2.

Theorem C13_never_zero_v2 : forall net s ts d', 1 <= p_difficulty s -> adjust_difficulty_v2 net s ts = Ok d' -> 1 <= d'.
Proof. exact v2_never_zero. Qed.
Print Assumptions C13_never_zero_v2.

Theorem C13_clamp_oak : forall net s ts tt r, 0 <= p_child_target s ->
  n_oak_height net < child_height s -> child_height s <> n_asic_height net ->
  adjust_target net s ts tt = Ok r ->
  int_to_target (p_child_target s * 1000 / 1004) <= r <= int_to_target (p_child_target s * 1004 / 1000).
Proof. exact oak_clamp. Qed.
Print Assumptions C13_clamp_oak.
(* the same without saturation in the statement: every representable target moves by at most x1004/1000 each way *)
Theorem C13_clamp_oak_exact : forall net s ts tt r, 0 <= p_child_target s <= maxT ->
  n_oak_height net < child_height s -> child_height s <> n_asic_height net ->
  adjust_target net s ts tt = Ok r ->
  p_child_target s * 1000 / 1004 <= r <= p_child_target s * 1004 / 1000 /\ r <= maxT.
Proof. exact oak_clamp_exact. Qed.
Print Assumptions C13_clamp_oak_exact.

Theorem C13_preoak_unchanged : forall net s ts tt r, child_height s <= n_oak_height net -> child_height s mod 500 <> 0 ->
  adjust_target net s ts tt = Ok r -> r = p_child_target s.
Proof. exact preoak_unchanged. Qed.
Print Assumptions C13_preoak_unchanged.

Theorem C13_clamp_preoak : forall net s ts tt r, 0 <= p_child_target s ->
  child_height s <= n_oak_height net -> child_height s mod 500 = 0 ->
  adjust_target net s ts tt = Ok r ->
  exists el ex, 0 < ex /\ 0 < el /\ 2 * ex <= 5 * el /\ 2 * el <= 5 * ex /\ r = int_to_target (p_child_target s * el / ex)
  \/ w64 (Z.quot (n_interval net) SEC * w64 (if 1000 >? child_height s then child_height s else 1000)) <= 0.
Proof. exact preoak_clamp. Qed.
Print Assumptions C13_clamp_preoak.

Theorem C13_work_strictly_increases_v2 : forall net s tw d, n_v2_allow net <= child_height s -> 1 <= p_difficulty s ->
  update_total_work net s = Ok (tw, d) -> p_total_work s < tw /\ d = maxT / tw.
Proof. exact total_work_increases. Qed.
Print Assumptions C13_work_strictly_increases_v2.

Theorem C13_inverse : forall net s ts tt d t, adjust_difficulty net s ts tt = Ok (d, t) ->
  (child_height s < n_v2_allow net -> d = maxT / t) /\ (n_v2_allow net <= child_height s -> t = maxT / d).
Proof. exact inverse_relation. Qed.
Print Assumptions C13_inverse.

Theorem C13_validate_header_iff : forall net s po ts nonce id m t,
  median_timestamp s = Ok m -> pow_target net s = Ok t -> nonce_factor net s <> 0 ->
  (validate_header net s po ts nonce id = Ok 0 <->
   po = true /\ m <= ts /\ nonce mod nonce_factor net s = 0 /\ id <= t).
Proof. exact validate_header_iff. Qed.
Print Assumptions C13_validate_header_iff.

Theorem C13_heavier_asymmetric : forall s t, 0 <= p_difficulty s -> 0 <= p_difficulty t ->
  sufficiently_heavier s t = Ok true -> sufficiently_heavier t s = Ok true -> False.
Proof. exact heavier_asymmetric. Qed.
Print Assumptions C13_heavier_asymmetric.

(* ---- applying headers never fails (one step, under the physical guards of Pow/Total.v) ---- *)
(* v2 eras: difficulty >= 1, Difficulty and TotalWork below 2^240, OakWork below 2^200, OakTime an int64, block interval
   between 3 ns and 2^44 ns; the next state keeps difficulty >= 1, OakWork >= 0 and adds the difficulty to TotalWork *)
Theorem C13_apply_header_never_fails_v2 : forall net s ts tt, n_v2_allow net <= child_height s -> guard_v2 net s ->
  exists s', apply_header net s false ts tt = Ok s' /\
    1 <= p_difficulty s' /\ p_total_work s' = p_total_work s + p_difficulty s /\ 0 <= p_oak_work s' /\
    - 2 ^ 63 <= p_oak_time s' < 2 ^ 63.
Proof. exact apply_header_total_v2. Qed.
Print Assumptions C13_apply_header_never_fails_v2.

(* target eras: the three targets between 2^64 and 2^256-1, interval between 1 s and 2^44 ns, not the genesis
   application; for every block and target timestamp *)
Theorem C13_apply_header_never_fails_legacy : forall net s ts tt, child_height s < n_v2_allow net -> guard_legacy net s ->
  exists s', apply_header net s false ts tt = Ok s'.
Proof. exact apply_header_total_legacy. Qed.
Print Assumptions C13_apply_header_never_fails_legacy.

(* the new target of the target eras is never zero *)
Theorem C13_target_never_zero : forall net s ts tt, guard_legacy net s -> exists t, adjust_target net s ts tt = Ok t /\ 1 <= t.
Proof. exact adjust_target_total. Qed.
Print Assumptions C13_target_never_zero.

Theorem C13_guards_satisfiable : guard_v2 ex_net (ex_state 150) /\ guard_legacy ex_net (ex_state 50).
Proof. exact (conj guard_v2_holds guard_legacy_holds). Qed.
Print Assumptions C13_guards_satisfiable.
