(* C09 — deterministic, side-effect free. In the model validation and application are functions of
   (state, block): determinism and the transaction-by-transaction structure are definitional; what the
   implementation adds — in-place proof updates, shared slices, goroutines — is exercised by the
   correspondence (inputs compared before/after every call, repeated and concurrent calls under the race
   detector, decoded copies). *)
From Coq Require Import ZArith List Bool.
From Sia Require Import Prim.Result Prim.Tok Policy.Model Ledger.Types Ledger.Mid Ledger.Validate Ledger.Apply Ledger.Proofs Ledger.Spends Ledger.VApply.
Import ListNotations.
Open Scope Z_scope.

(* block validation is the fold of per-transaction validate-then-apply over the evolving MidState *)
Theorem C09_validate_is_txn_by_txn : forall H net vt pt se sd s b,
  validate_block H net vt pt se sd s b =
  (do _ <- validate_orphan net s b;
   do _ <- validate_supplement net s b;
   if b_is_v2 b && negb (b_commit_ok b) then err 18
   else
   do m <- validate_txns1 H net vt se sd s (new_mid s) (b_txns b) (b_supp b);
   do _ <- fold_r (fun m t => do _ <- validate_txn2 H net vt pt se sd s m t; apply_txn2 net s m t) (b_v2txns b) m;
   Ok tt).
Proof. reflexivity. Qed.
Print Assumptions C09_validate_is_txn_by_txn.

(* spending records the presented element unchanged (validation has shown it equal to the stored leaf) *)
Theorem C09_spend_records_presented : forall m e lf txid m', spend_sce m e lf txid = Ok m' ->
  exists k, nth_error (m_sces m') k = Some {| d_sce := e; d_sc_leaf := lf; d_sc_created := d_sc_created (nth k (m_sces m) dummy_sced); d_sc_spent := true |}.
Proof. exact spend_records_presented. Qed.
Print Assumptions C09_spend_records_presented.

(* what ValidateBlock has executed, ApplyBlock executes again: an accepted block's v1 and v2 transactions apply in
   ApplyBlock's order and reach exactly the MidState validation reached -- the state reached depends only on the parent
   state and the block *)
Theorem C09_application_repeats_validation : forall H net vt pt se sd s b, validate_block H net vt pt se sd s b = Ok tt ->
  exists m1 m2, validate_txns1 H net vt se sd s (new_mid s) (b_txns b) (b_supp b) = Ok m1 /\
                apply_txns1 net s (new_mid s) (b_txns b) (b_supp b) = Ok m1 /\
                fold_r (vstep H net vt pt se sd s) (b_v2txns b) m1 = Ok m2 /\
                fold_r (apply_txn2 net s) (b_v2txns b) m1 = Ok m2.
Proof. exact accepted_transactions_apply. Qed.
Print Assumptions C09_application_repeats_validation.
