(* C15 — Currency arithmetic is exact 128-bit arithmetic with faithful overflow reporting.
   Statements only; every theorem is closed by [exact] of a lemma proved elsewhere. *)
From Coq Require Import ZArith.
From Sia Require Import Prim.Result Currency.Model Currency.Proofs Currency.Div.
Open Scope Z_scope.

Theorem C15_add : forall a b, wfc a -> wfc b ->
  wfc (fst (add_wo a b)) /\
  val (fst (add_wo a b)) = (val a + val b) mod (W * W) /\
  (snd (add_wo a b) = true <-> W * W <= val a + val b).
Proof. exact add_exact. Qed.
Print Assumptions C15_add.

Theorem C15_sub : forall a b, wfc a -> wfc b ->
  wfc (fst (sub_wu a b)) /\
  val (fst (sub_wu a b)) = (val a - val b) mod (W * W) /\
  (snd (sub_wu a b) = true <-> val a < val b).
Proof. exact sub_exact. Qed.
Print Assumptions C15_sub.

Theorem C15_mul : forall a b, wfc a -> wfc b ->
  wfc (fst (mul_wo a b)) /\
  val (fst (mul_wo a b)) = (val a * val b) mod (W * W) /\
  (snd (mul_wo a b) = true <-> W * W <= val a * val b).
Proof. exact mul_exact. Qed.
Print Assumptions C15_mul.

Theorem C15_mul64 : forall a v, wfc a -> 0 <= v < W ->
  wfc (fst (mul64_wo a v)) /\
  val (fst (mul64_wo a v)) = (val a * v) mod (W * W) /\
  (snd (mul64_wo a v) = true <-> W * W <= val a * v).
Proof. exact mul64_exact. Qed.
Print Assumptions C15_mul64.

Theorem C15_cmp : forall a b, wfc a -> wfc b ->
  cmp a b = match Z.compare (val a) (val b) with Eq => 0 | Lt => -1 | Gt => 1 end.
Proof. exact cmp_exact. Qed.
Print Assumptions C15_cmp.

(* the panicking forms panic exactly when the exact result does not fit *)
Theorem C15_add_panics_iff : forall a b, wfc a -> wfc b ->
  (val a + val b < W * W -> exists r, add a b = Ok r /\ wfc r /\ val r = val a + val b) /\
  (W * W <= val a + val b -> add a b = Panic POverflow).
Proof. exact add_checked. Qed.
Print Assumptions C15_add_panics_iff.

Theorem C15_sub_panics_iff : forall a b, wfc a -> wfc b ->
  (val b <= val a -> exists r, sub a b = Ok r /\ wfc r /\ val r = val a - val b) /\
  (val a < val b -> sub a b = Panic PUnderflow).
Proof. exact sub_checked. Qed.
Print Assumptions C15_sub_panics_iff.

Theorem C15_mul_panics_iff : forall a b, wfc a -> wfc b ->
  (val a * val b < W * W -> exists r, mul a b = Ok r /\ wfc r /\ val r = val a * val b) /\
  (W * W <= val a * val b -> mul a b = Panic POverflow).
Proof. exact mul_checked. Qed.
Print Assumptions C15_mul_panics_iff.

Theorem C15_mul64_panics_iff : forall a v, wfc a -> 0 <= v < W ->
  (val a * v < W * W -> exists r, mul_64 a v = Ok r /\ wfc r /\ val r = val a * v) /\
  (W * W <= val a * v -> mul_64 a v = Panic POverflow).
Proof. exact mul64_checked. Qed.
Print Assumptions C15_mul64_panics_iff.

Theorem C15_quorem64 : forall c v, wfc c -> 0 < v < W ->
  exists q r, quorem64 c v = Ok (q, r) /\ wfc q /\ val q = val c / v /\ r = val c mod v.
Proof. exact quorem64_exact. Qed.
Print Assumptions C15_quorem64.

Theorem C15_quorem64_zero : forall c, quorem64 c 0 = Panic PDivZero.
Proof. exact quorem64_zero. Qed.
Print Assumptions C15_quorem64_zero.

(* hypotheses are satisfiable at the boundary values the property names *)
Example C15_nonvacuous :
  wfc (mkCur (2^64-1) (2^64-1)) /\ wfc (mkCur 0 (2^63)) /\ wfc (mkCur 1 0) /\
  snd (add_wo (mkCur (2^64-1) (2^64-1)) (mkCur 1 0)) = true /\
  snd (mul_wo (mkCur 0 (2^63)) (mkCur 2 0)) = true /\
  snd (mul_wo (mkCur (2^64-1) 0) (mkCur (2^64-1) 0)) = false.
Proof. unfold wfc; cbn [lo hi]. repeat split; try reflexivity; try (vm_compute; congruence). Qed.

(* Div / quoRem by a 128-bit divisor (the trial-quotient algorithm for divisors above 64 bits included): exact quotient
   and remainder for every dividend and every non-zero divisor, no primitive panics; division by zero panics *)
Theorem C15_quorem : forall c v, wfc c -> wfc v -> val v <> 0 ->
  exists q r, quorem c v = Ok (q, r) /\ wfc q /\ wfc r /\ val q = val c / val v /\ val r = val c mod val v.
Proof. exact quorem_exact. Qed.
Print Assumptions C15_quorem.

Theorem C15_quorem_zero : forall c v, val v = 0 -> wfc v -> quorem c v = Panic PDivZero.
Proof. exact quorem_zero. Qed.
Print Assumptions C15_quorem_zero.

Theorem C15_div : forall c v, wfc c -> wfc v -> val v <> 0 -> exists q, div c v = Ok q /\ wfc q /\ val q = val c / val v.
Proof. exact div_exact. Qed.
Print Assumptions C15_div.
