(* Compact block relay (gateway/outline.go): a block outline keeps every transaction's hash and optionally
   its body; Complete fills the missing bodies from a candidate pool keyed by hash. *)
From Coq Require Import List Bool.
Import ListNotations.

Section Outline.
Variable T : Type.                 (* a transaction body (v1 or v2) *)
Variable K : Type.                 (* its full hash *)
Variable K_eqb : K -> K -> bool.
Variable K_eqb_ok : forall a b, K_eqb a b = true <-> a = b.
Variable h : T -> K.               (* MerkleLeafHash *)

Record otxn := { o_hash : K; o_txn : option T }.
Definition memb (x : K) (l : list K) : bool := existsb (K_eqb x) l.

(* OutlineBlock b omitted *)
Definition outline (b : list T) (omit : list K) : list otxn :=
  map (fun t => {| o_hash := h t; o_txn := if memb (h t) omit then None else Some t |}) b.
(* the pool is a Go map keyed by hash: a later entry replaces an earlier one *)
Fixpoint lookup (pool : list T) (x : K) : option T :=
  match pool with
  | [] => None
  | t :: r => match lookup r x with Some t' => Some t' | None => if K_eqb (h t) x then Some t else None end
  end.
Definition complete (o : list otxn) (pool : list T) : list otxn :=
  map (fun e => match o_txn e with Some _ => e | None => {| o_hash := o_hash e; o_txn := lookup pool (o_hash e) |} end) o.
Definition block_of (o : list otxn) : list T := flat_map (fun e => match o_txn e with Some t => [t] | None => [] end) o.
Definition missing (o : list otxn) : list K := flat_map (fun e => match o_txn e with Some _ => [] | None => [o_hash e] end) o.
Definition hashes (o : list otxn) : list K := map o_hash o.

Definition Collision : Prop := exists a b : T, a <> b /\ h a = h b.

(* the outline has the block's leaf hashes, whatever is omitted: same commitment, same block ID *)
Theorem outline_hashes b omit : hashes (outline b omit) = map h b.
Proof. unfold hashes, outline. rewrite map_map. reflexivity. Qed.
Theorem complete_hashes o pool : hashes (complete o pool) = hashes o.
Proof. unfold hashes, complete. rewrite map_map. apply map_ext. intros e. destruct (o_txn e); reflexivity. Qed.

Lemma lookup_hash pool x t : lookup pool x = Some t -> h t = x /\ In t pool.
Proof.
  induction pool as [|a r IH]; cbn [lookup]; [discriminate|].
  destruct (lookup r x) as [t'|] eqn:E.
  - intros [= <-]. destruct (IH eq_refl). split; auto. now right.
  - destruct (K_eqb (h a) x) eqn:Q; [|discriminate]. intros [= <-]. apply K_eqb_ok in Q. split; auto. now left.
Qed.
Lemma lookup_none pool x : lookup pool x = None -> ~ In x (map h pool).
Proof.
  induction pool as [|a r IH]; cbn [lookup map]; [tauto|].
  destruct (lookup r x) eqn:E; [discriminate|].
  destruct (K_eqb (h a) x) eqn:Q; [discriminate|]. intros _ [A|B].
  - apply K_eqb_ok in A. congruence.
  - now apply IH.
Qed.
Lemma lookup_some pool x : In x (map h pool) -> exists t, lookup pool x = Some t.
Proof.
  intros I. destruct (lookup pool x) eqn:E; [eauto|]. apply lookup_none in E. tauto.
Qed.

(* what Complete reports as missing is exactly: omitted and not offered *)
Theorem missing_exact b omit pool :
  missing (complete (outline b omit) pool) =
  filter (fun x => memb x omit && negb (memb x (map h pool))) (map h b).
Proof.
  induction b as [|t b IH]; [reflexivity|].
  cbn [outline map complete missing flat_map filter] in *. cbn [o_txn o_hash].
  destruct (memb (h t) omit) eqn:M; cbn [o_txn o_hash andb].
  - destruct (lookup pool (h t)) eqn:L.
    + destruct (lookup_hash _ _ _ L) as [Hh Hin].
      assert (X : memb (h t) (map h pool) = true).
      { unfold memb. apply existsb_exists. exists (h t). split; [|apply K_eqb_ok; reflexivity]. rewrite <- Hh. now apply in_map. }
      rewrite X. cbn [negb app]. exact IH.
    + assert (X : memb (h t) (map h pool) = false).
      { apply lookup_none in L. unfold memb. destruct (existsb _ _) eqn:Q; [|reflexivity].
        apply existsb_exists in Q. destruct Q as (y & Iy & Ey). apply K_eqb_ok in Ey. subst. tauto. }
      rewrite X. cbn [negb app]. f_equal. exact IH.
  - cbn [app]. exact IH.
Qed.

Definition oelt (t : T) (omit : list K) : otxn := {| o_hash := h t; o_txn := if memb (h t) omit then None else Some t |}.
Definition celt (e : otxn) (pool : list T) : otxn :=
  match o_txn e with Some _ => e | None => {| o_hash := o_hash e; o_txn := lookup pool (o_hash e) |} end.
Lemma outline_cons t b omit : outline (t :: b) omit = oelt t omit :: outline b omit.
Proof. reflexivity. Qed.
Lemma complete_cons e o pool : complete (e :: o) pool = celt e pool :: complete o pool.
Proof. reflexivity. Qed.
Lemma block_of_cons e o : block_of (e :: o) = match o_txn e with Some t => [t] | None => [] end ++ block_of o.
Proof. reflexivity. Qed.
Lemma missing_cons e o : missing (e :: o) = match o_txn e with Some _ => [] | None => [o_hash e] end ++ missing o.
Proof. reflexivity. Qed.

(* a pool containing (at least) every omitted transaction, in any order and with any extras, restores the block *)
Theorem complete_restores (T_eq_dec : forall a b : T, {a = b} + {a <> b}) b omit pool :
  (forall t, In t b -> memb (h t) omit = true -> In t pool) ->
  (block_of (complete (outline b omit) pool) = b /\ missing (complete (outline b omit) pool) = []) \/ Collision.
Proof.
  induction b as [|t b IH]; intros Hp; [left; split; reflexivity|].
  destruct IH as [[IH1 IH2]|C]; [intros u Iu; apply Hp; now right | | right; exact C].
  rewrite outline_cons, complete_cons, block_of_cons, missing_cons, IH1, IH2. unfold celt, oelt. cbn [o_txn o_hash].
  destruct (memb (h t) omit) eqn:M; cbn [o_txn o_hash].
  - destruct (lookup_some pool (h t)) as [t' L]; [apply in_map; apply Hp; [now left | exact M]|].
    rewrite L. destruct (lookup_hash _ _ _ L) as [Hh _].
    destruct (T_eq_dec t' t) as [->|Ne].
    + left. split; reflexivity.
    + right. exists t', t. split; assumption.
  - left. split; reflexivity.
Qed.
End Outline.
