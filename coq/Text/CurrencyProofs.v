From Coq Require Import List NArith Lia Bool PeanoNat ZifyN ZifyNat ZifyBool.
From Sia Require Import Prim.Tok.
From Sia Require Import Text.Currency.
Import ListNotations.
Local Open Scope N_scope.

Lemma fold_dec b : forall x, fold_left (fun a c => 10 * a + (c - 48)) b x = x * 10 ^ N.of_nat (length b) + dec_val b.
Proof.
  unfold dec_val. induction b as [|c b IH]; intros x; cbn [fold_left length].
  - cbn. lia.
  - rewrite IH. rewrite (IH (10 * 0 + (c - 48))). rewrite Nat2N.inj_succ, N.pow_succ_r'. lia.
Qed.
Lemma dec_val_app a b : dec_val (a ++ b) = dec_val a * 10 ^ N.of_nat (length b) + dec_val b.
Proof. unfold dec_val at 1. rewrite fold_left_app. apply fold_dec. Qed.
Lemma dec_val_zeros k : dec_val (repeat 48 k) = 0.
Proof. induction k as [|k IH]; [reflexivity|]. change (repeat 48 (S k)) with ([48] ++ repeat 48 k). rewrite dec_val_app, IH. cbn. lia. Qed.

Lemma dec_val_single c : dec_val [c] = c - 48.
Proof. unfold dec_val. cbn [fold_left]. lia. Qed.

Definition digs (l : bytes) : Prop := Forall (fun c => is_digit c = true) l.
Lemma digs_all l : digs l -> all_digits l = true.
Proof. unfold all_digits, digs. intros D. apply forallb_forall. apply Forall_forall. exact D. Qed.

Lemma digits_fuel_spec f : forall n acc, n < 10 ^ N.of_nat f -> digs acc -> (0 < f)%nat ->
  digs (digits_fuel f n acc) /\ dec_val (digits_fuel f n acc) = n * 10 ^ N.of_nat (length acc) + dec_val acc /\
  (length acc < length (digits_fuel f n acc))%nat /\
  exists pre, digits_fuel f n acc = pre ++ acc /\ (n <> 0 -> exists d r, pre = d :: r /\ d <> 48).
Proof.
  induction f as [|f IH]; intros n acc L D F; [lia|].
  cbn [digits_fuel]. destruct (n <? 10) eqn:E.
  - assert (DD : digs ((48 + n) :: acc)) by (constructor; [unfold is_digit; lia | exact D]).
    split; [exact DD|]. split.
    + change ((48 + n) :: acc) with ([48 + n] ++ acc). rewrite dec_val_app, dec_val_single. lia.
    + split; [cbn [length]; lia|]. exists [48 + n]. split; [reflexivity|]. intros NZ. exists (48 + n), []. split; [reflexivity | lia].
  - assert (F0 : (0 < f)%nat).
    { destruct f; [|lia]. cbn in L. lia. }
    assert (L' : n / 10 < 10 ^ N.of_nat f).
    { rewrite Nat2N.inj_succ, N.pow_succ_r' in L. apply N.div_lt_upper_bound; lia. }
    assert (D' : digs ((48 + n mod 10) :: acc)).
    { constructor; [|exact D]. pose proof (N.mod_lt n 10 ltac:(lia)). unfold is_digit. lia. }
    destruct (IH (n / 10) ((48 + n mod 10) :: acc) L' D' F0) as (A & B & C & pre & P & Q).
    split; [exact A|]. split.
    + rewrite B. cbn [length]. rewrite Nat2N.inj_succ, N.pow_succ_r'.
      change ((48 + n mod 10) :: acc) with ([48 + n mod 10] ++ acc). rewrite dec_val_app, dec_val_single.
      pose proof (N.div_mod n 10 ltac:(lia)). pose proof (N.mod_lt n 10 ltac:(lia)).
      generalize dependent (10 ^ N.of_nat (length acc)). intros p. intros. nia.
    + split; [cbn [length] in C; lia|]. exists (pre ++ [48 + n mod 10]). split.
      * rewrite P. rewrite <- app_assoc. reflexivity.
      * intros NZ. assert (NZ' : n / 10 <> 0) by (intros Z; apply N.div_small_iff in Z; lia).
        destruct (Q NZ') as (d & r & -> & Hd). exists d, (r ++ [48 + n mod 10]). split; [reflexivity | exact Hd].
Qed.

Lemma digits_spec n : n <= MAXCUR -> digs (digits n) /\ dec_val (digits n) = n /\ digits n <> [] /\
  (n <> 0 -> exists d r, digits n = d :: r /\ d <> 48).
Proof.
  intros L. unfold digits.
  assert (B40 : MAXCUR < 10 ^ N.of_nat 40) by (apply N.ltb_lt; vm_compute; reflexivity).
  destruct (digits_fuel_spec 40 n [] ltac:(lia) ltac:(constructor) ltac:(lia)) as (A & B & C & pre & P & Q).
  split; [exact A|]. split.
  - rewrite B. change (length (@nil N)) with 0%nat. change (dec_val []) with 0. change (10 ^ N.of_nat 0) with 1. lia.
  - split.
    + intros Z. rewrite Z in C. cbn [length] in C. lia.
    + intros NZ. destruct (Q NZ) as (d & r & -> & Hd). exists d, r. rewrite P, app_nil_r. auto.
Qed.

(* ---- splitting the numeric part from the unit ---- *)
Lemma span_all p a b : Forall (fun c => p c = true) a -> span p (a ++ b) = (a ++ fst (span p b), snd (span p b)).
Proof.
  induction 1 as [|x a Hx _ IH]; cbn [app span].
  - destruct (span p b); reflexivity.
  - rewrite Hx, IH. reflexivity.
Qed.
Lemma span_stop p x r : p x = false -> span p (x :: r) = ([], x :: r).
Proof. intros E. cbn [span]. rewrite E. reflexivity. Qed.

Lemma parse_split num x us : is_num x = true -> Forall (fun c => is_num c = false) us ->
  cur_parse ((num ++ [x]) ++ us) = cur_parse_split (num ++ [x]) (trim_spaces us).
Proof.
  intros Hx Hu. unfold cur_parse. rewrite rev_app_distr, rev_app_distr. cbn [rev app].
  rewrite span_all.
  - rewrite span_stop by (rewrite Hx; reflexivity). cbn [fst snd]. rewrite app_nil_r, rev_involutive.
    change (x :: rev num) with ([x] ++ rev num). rewrite <- (rev_involutive num) at 2.
    replace (rev ([x] ++ rev num)) with (rev (rev num) ++ [x]) by (rewrite rev_app_distr; reflexivity).
    rewrite rev_involutive. reflexivity.
  - apply Forall_rev. eapply Forall_impl; [|exact Hu]. cbn. intros c ->. reflexivity.
Qed.

Lemma digs_not_sign d r : digs (d :: r) -> strip_sign (d :: r) = (false, d :: r).
Proof.
  intros D. inversion D as [|? ? Hd _]; subst. unfold is_digit in Hd. unfold strip_sign.
  destruct d as [|p]; [lia|]. do 6 (destruct p as [p|p|]; try reflexivity; try lia).
Qed.

Lemma finish_ok v : v <= MAXCUR -> finish false v = POk v.
Proof. intros L. unfold finish. cbn [andb]. destruct (MAXCUR <? v) eqn:E; [lia | reflexivity]. Qed.

(* integers: the "H" suffix or none *)
Lemma parse_int d u : digs d -> d <> [] -> dec_val d <= MAXCUR -> (u = [] \/ u = [72]) ->
  cur_parse_split d u = POk (dec_val d).
Proof.
  intros D NE L U. destruct d as [|d0 r]; [congruence|]. unfold cur_parse_split.
  assert (Um : (match u with [] => true | [72] => true | _ => false end) = true) by (destruct U as [->| ->]; reflexivity).
  rewrite Um. rewrite (digs_not_sign _ _ D). rewrite (digs_all _ D). apply finish_ok. exact L.
Qed.

Lemma span_digits a rest : digs a -> (match rest with [] => True | c :: _ => is_digit c = false end) ->
  span is_digit (a ++ rest) = (a, rest).
Proof.
  intros D R. rewrite span_all by exact D. destruct rest as [|c rest']; cbn [span fst snd].
  - rewrite app_nil_r. reflexivity.
  - rewrite R. cbn [fst snd]. rewrite app_nil_r. reflexivity.
Qed.

Lemma unit_exp_len u e : unit_exp u = Some e -> length u = 2%nat.
Proof.
  unfold unit_exp. repeat (destruct (list_eq_dec N.eq_dec u _) as [->|]; [reflexivity|]). discriminate.
Qed.

(* a mantissa, an optional fraction, a unit *)
Lemma parse_unit mant frac u e : digs mant -> mant <> [] -> digs frac -> unit_exp u = Some e ->
  N.of_nat (length frac) <= e -> dec_val (mant ++ frac) * 10 ^ (e - N.of_nat (length frac)) <= MAXCUR ->
  cur_parse_split (mant ++ match frac with [] => [] | _ => 46 :: frac end) u =
  POk (dec_val (mant ++ frac) * 10 ^ (e - N.of_nat (length frac))).
Proof.
  intros Dm NE Df Ue Le Lv. destruct mant as [|m0 mr]; [congruence|].
  unfold cur_parse_split. cbn [app].
  assert (Un : (match u with [] => true | [72] => true | _ => false end) = false).
  { pose proof (unit_exp_len _ _ Ue) as L2. destruct u as [|a [|b [|c r]]]; try discriminate L2. destruct a as [|p]; [reflexivity|]. do 7 (destruct p as [p|p|]; try reflexivity). }
  rewrite Un.
  assert (SS : strip_sign (m0 :: mr ++ match frac with [] => [] | _ :: _ => 46 :: frac end) =
               (false, m0 :: mr ++ match frac with [] => [] | _ :: _ => 46 :: frac end)).
  { inversion Dm as [|? ? Hd _]; subst. unfold is_digit in Hd. unfold strip_sign.
    destruct m0 as [|p]; [lia|]. do 6 (destruct p as [p|p|]; try reflexivity; try lia). }
  rewrite SS.
  change (m0 :: mr ++ match frac with [] => [] | _ :: _ => 46 :: frac end) with ((m0 :: mr) ++ match frac with [] => [] | _ :: _ => 46 :: frac end).
  rewrite (span_digits (m0 :: mr) _ Dm) by (destruct frac; [exact I | reflexivity]).
  assert (FP : (match (match frac with [] => [] | _ :: _ => 46 :: frac end) with 46 :: f => Some f | [] => Some [] | _ => None end) = Some frac)
    by (destruct frac; reflexivity).
  rewrite FP. rewrite (digs_all _ Df). cbn [negb app].
  rewrite Ue. assert (LE : (N.of_nat (length frac) <=? e) = true) by lia. rewrite LE.
  apply finish_ok. exact Lv.
Qed.

Lemma trim_rev_spec r : exists k, r = repeat 48 k ++ trim_zeros_rev r.
Proof.
  induction r as [|x r [k IH]]; [exists 0%nat; reflexivity|].
  destruct (N.eq_dec x 48) as [->|Ne].
  - exists (S k). cbn [trim_zeros_rev repeat app]. rewrite <- IH. reflexivity.
  - exists 0%nat. cbn [repeat app]. destruct x as [|p]; [reflexivity|].
    do 6 (destruct p as [p|p|]; try reflexivity). congruence.
Qed.
Lemma rev_repeat {A} (x : A) k : rev (repeat x k) = repeat x k.
Proof.
  induction k as [|k IH]; [reflexivity|]. cbn [repeat rev]. rewrite IH.
  clear IH. induction k as [|k IH]; [reflexivity|]. cbn [repeat app]. rewrite IH. reflexivity.
Qed.
Lemma trim_spec l : digs l -> exists k, l = trim_trailing_zeros l ++ repeat 48 k /\ digs (trim_trailing_zeros l).
Proof.
  intros D. unfold trim_trailing_zeros. destruct (trim_rev_spec (rev l)) as [k E]. exists k.
  assert (L : l = rev (trim_zeros_rev (rev l)) ++ repeat 48 k).
  { rewrite <- (rev_involutive l) at 1. rewrite E at 1. rewrite rev_app_distr, rev_repeat. reflexivity. }
  split; [exact L|]. rewrite L in D. apply Forall_app in D. apply D.
Qed.

Lemma unit_name_exp u : 4 <= u <= 12 -> unit_exp (unit_name (u - 4)) = Some (u * 3) /\
  Forall (fun c => is_num c = false) (32 :: unit_name (u - 4)) /\ trim_spaces (32 :: unit_name (u - 4)) = unit_name (u - 4).
Proof.
  intros R. assert (C : u = 4 \/ u = 5 \/ u = 6 \/ u = 7 \/ u = 8 \/ u = 9 \/ u = 10 \/ u = 11 \/ u = 12) by lia.
  repeat (destruct C as [->|C]; [vm_compute; repeat split; repeat constructor|]). subst. vm_compute. repeat split; repeat constructor.
Qed.

Lemma last_digit s : digs s -> s <> [] -> exists pre x, s = pre ++ [x] /\ is_num x = true.
Proof.
  intros D NE. destruct (exists_last NE) as (pre & x & ->). exists pre, x. split; [reflexivity|].
  apply Forall_app in D. destruct D as [_ Dx]. inversion Dx; subst. unfold is_num. rewrite H1. reflexivity.
Qed.

(* ParseCurrency(c.String()) == c, for every Currency value *)
Theorem cur_roundtrip c : c <= MAXCUR -> cur_parse (cur_render c) = POk c.
Proof.
  intros L. unfold cur_render. destruct (c =? 0) eqn:Z.
  { assert (c = 0) by lia. subst. vm_compute. reflexivity. }
  destruct (digits_spec c L) as (D & V & NE & _).
  set (s := digits c) in *.
  set (u0 := (N.of_nat (length s) - 1) / 3).
  destruct (u0 <? 4) eqn:U4.
  - (* hastings *)
    destruct (last_digit s D NE) as (pre & x & Es & Hx).
    rewrite Es. rewrite parse_split; [|exact Hx | repeat constructor].
    rewrite <- Es. change (trim_spaces [32; 72]) with [72].
    rewrite parse_int; auto; rewrite V; auto.
  - (* with a unit *)
    set (u := N.min u0 12).
    assert (Ur : 4 <= u <= 12) by (subst u; lia).
    assert (Lu : (N.to_nat (u * 3) < length s)%nat).
    { subst u u0. pose proof (N.div_mod (N.of_nat (length s) - 1) 3 ltac:(lia)).
      pose proof (N.mod_lt (N.of_nat (length s) - 1) 3 ltac:(lia)).
      assert (length s <> 0)%nat by (destruct s; [congruence | cbn; lia]). lia. }
    set (k := (length s - N.to_nat (u * 3))%nat).
    assert (Ds : digs (firstn k s) /\ digs (skipn k s)) by (rewrite <- (firstn_skipn k s) in D; apply Forall_app in D; exact D).
    destruct Ds as [Dm Dk].
    destruct (trim_spec _ Dk) as (z & Ez & Df).
    set (frac := trim_trailing_zeros (skipn k s)) in *.
    assert (Lk : length (skipn k s) = N.to_nat (u * 3)) by (rewrite skipn_length; subst k; lia).
    assert (Lf : (length frac + z)%nat = N.to_nat (u * 3)) by (rewrite <- Lk, Ez, app_length, repeat_length; reflexivity).
    assert (NEm : firstn k s <> []).
    { intros E. assert (length (firstn k s) = 0%nat) by (rewrite E; reflexivity). rewrite firstn_length in H. subst k. lia. }
    destruct (unit_name_exp u Ur) as (Ue & Un & Ut).
    (* the rendered string is (number) ++ (" " ++ unit) with the number ending in a digit *)
    set (num := firstn k s ++ match frac with [] => [] | _ :: _ => 46 :: frac end).
    assert (Hl : exists pre x, num = pre ++ [x] /\ is_num x = true).
    { destruct frac as [|f0 fr] eqn:Ef.
      - subst num. rewrite app_nil_r. apply last_digit; auto.
      - destruct (last_digit (f0 :: fr) Df ltac:(congruence)) as (pre & x & E & Hx).
        exists (firstn k s ++ 46 :: pre), x. split; [|exact Hx]. subst num. rewrite E. rewrite <- app_assoc. reflexivity. }
    destruct Hl as (pre & x & En & Hx).
    replace (firstn k s ++ match frac with [] => [] | _ :: _ => 46 :: frac end ++ 32 :: unit_name (u - 4))
      with (num ++ 32 :: unit_name (u - 4)) by (subst num; rewrite <- app_assoc; reflexivity).
    rewrite En. rewrite parse_split; [|exact Hx | exact Un]. rewrite <- En, Ut. subst num.
    assert (VAL : dec_val (firstn k s ++ frac) * 10 ^ (u * 3 - N.of_nat (length frac)) = c).
    { rewrite <- V. transitivity (dec_val ((firstn k s ++ frac) ++ repeat 48 z)).
      - rewrite (dec_val_app (firstn k s ++ frac) (repeat 48 z)), dec_val_zeros, repeat_length.
        replace (u * 3 - N.of_nat (length frac)) with (N.of_nat z) by lia. lia.
      - rewrite <- app_assoc, <- Ez, firstn_skipn. reflexivity. }
    rewrite (parse_unit (firstn k s) frac (unit_name (u - 4)) (u * 3)); auto; try lia.
    + rewrite VAL. reflexivity.
Qed.

(* ParseCurrency(c.ExactString()) == c: the JSON / MarshalText form *)
Theorem exact_roundtrip c : c <= MAXCUR -> cur_parse (digits c) = POk c.
Proof.
  intros L. destruct (digits_spec c L) as (D & V & NE & _).
  destruct (last_digit _ D NE) as (pre & x & Es & Hx).
  rewrite <- (app_nil_r (digits c)). rewrite Es. rewrite parse_split; [|exact Hx | constructor].
  rewrite <- Es. change (trim_spaces []) with (@nil N). rewrite parse_int; auto; rewrite V; auto.
Qed.
