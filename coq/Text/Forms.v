(* More text forms of types/types.go: PublicKey ("ed25519:" + hex) and ChainIndex ("<height>::<id hex>"). *)
From Coq Require Import List NArith Lia Bool PeanoNat ZifyN ZifyNat ZifyBool.
From Sia Require Import Prim.Tok Text.Hex Text.Currency Text.CurrencyProofs.
Import ListNotations.
Local Open Scope N_scope.

Definition colon : N := 58.
(* bytes.IndexByte *)
Fixpoint index_byte (c : N) (s : bytes) : option nat :=
  match s with [] => None | x :: r => if x =? c then Some 0%nat else option_map S (index_byte c r) end.
Lemma index_byte_app c a r : Forall (fun x => x <> c) a -> index_byte c (a ++ c :: r) = Some (length a).
Proof.
  induction a as [|x a IH]; intros F; cbn [app index_byte length]; [rewrite N.eqb_refl; reflexivity|].
  inversion F; subst. destruct (N.eqb_spec x c); [contradiction|]. rewrite IH by assumption. reflexivity.
Qed.

(* ---- PublicKey ---- *)
Definition ed_prefix : bytes := [101; 100; 50; 53; 53; 49; 57].      (* "ed25519" *)
Definition pk_render (pk : bytes) : bytes := ed_prefix ++ colon :: hex_encode pk.
Definition pk_parse (s : bytes) : option bytes :=
  match index_byte colon s with
  | None => None
  | Some i => if beqb (firstn i s) ed_prefix then unmarshal_hex 32 (skipn (S i) s) else None
  end.
Theorem pk_roundtrip pk : byte_ok pk -> length pk = 32%nat -> pk_parse (pk_render pk) = Some pk.
Proof.
  intros Hb Hl. unfold pk_parse, pk_render.
  rewrite (index_byte_app colon ed_prefix (hex_encode pk)) by (repeat constructor; discriminate).
  change (length ed_prefix) with 7%nat. cbn [firstn skipn app ed_prefix]. unfold beqb.
  destruct (list_eq_dec N.eq_dec [101; 100; 50; 53; 53; 49; 57] [101; 100; 50; 53; 53; 49; 57]); [|contradiction].
  apply unmarshal_hex_roundtrip; assumption.
Qed.
(* whatever parses is the rendering of the key returned, up to the case of the hex digits *)
Theorem pk_parse_canonical s pk : pk_parse s = Some pk -> map lower (skipn 8 s) = hex_encode pk /\ firstn 8 s = ed_prefix ++ [colon] /\ length pk = 32%nat.
Proof.
  unfold pk_parse. destruct (index_byte colon s) as [i|] eqn:I; [|discriminate].
  destruct (beqb (firstn i s) ed_prefix) eqn:B; [|discriminate]. intros U.
  unfold beqb in B. destruct (list_eq_dec N.eq_dec (firstn i s) ed_prefix) as [E|]; [|discriminate].
  assert (Li : i = 7%nat).
  { assert (L : length (firstn i s) = 7%nat) by (rewrite E; reflexivity). rewrite firstn_length in L.
    assert (i <= length s)%nat. { clear - I. revert i I. induction s as [|x r IH]; intros i I; cbn in I; [discriminate|]. destruct (x =? colon); [inversion I; lia|]. destruct (index_byte colon r); [|discriminate]. inversion I. specialize (IH _ eq_refl). cbn. lia. }
    lia. }
  subst i. destruct (unmarshal_hex_exact 32 _ _ U) as (A & B' & C). split; [exact C|]. split; [|exact A].
  (* the byte at position 7 is the colon *)
  assert (Hc : nth_error s 7 = Some colon).
  { clear - I. revert I. generalize 7%nat as i. induction s as [|x r IH]; intros i I; cbn in I; [discriminate|].
    destruct (N.eqb_spec x colon); [inversion I; subst; reflexivity|]. destruct (index_byte colon r) eqn:R; [|discriminate]. inversion I; subst. cbn. apply IH. reflexivity. }
  do 8 (destruct s as [|? s]; [cbn in E, Hc; try discriminate|]). cbn in E, Hc |- *. inversion E; subst. inversion Hc; subst. reflexivity.
Qed.

(* ---- ChainIndex: decimal height, "::", 64 hex digits ---- *)
(* strconv.ParseUint(s, 10, 64): digits only, at least one, value below 2^64 *)
Definition parse_uint64 (s : bytes) : option N :=
  match s with
  | [] => None
  | _ => if all_digits s then (if dec_val s <? 2 ^ 64 then Some (dec_val s) else None) else None
  end.
(* bytes.Split(b, "::") yielding exactly two parts: one separator, found left to right *)
Definition starts_colon (r : bytes) : bool := match r with y :: _ => y =? colon | [] => false end.
Fixpoint split2 (s : bytes) : option (bytes * bytes) :=
  match s with
  | [] => None
  | x :: r => if (x =? colon) && starts_colon r then Some ([], tl r) else option_map (fun p => (x :: fst p, snd p)) (split2 r)
  end.
Fixpoint has_sep (s : bytes) : bool :=
  match s with x :: r => ((x =? colon) && starts_colon r) || has_sep r | [] => false end.
Definition ci_render (h : N) (id : bytes) : bytes := digits h ++ colon :: colon :: hex_encode id.
Definition ci_parse (s : bytes) : option (N * bytes) :=
  match split2 s with
  | None => None
  | Some (a, b) =>
    if has_sep b then None
    else match parse_uint64 a with
         | None => None
         | Some h => if (length b <=? 64)%nat then
                       match hex_decode b with Some id => if (length id <? 32)%nat then None else Some (h, id) | None => None end
                     else None
         end
  end.

Lemma split2_digits a r : Forall (fun x => x <> colon) a -> split2 (a ++ colon :: colon :: r) = Some (a, r).
Proof.
  induction a as [|x a IH]; intros F; cbn [app].
  - cbn. reflexivity.
  - inversion F; subst. cbn [split2]. destruct (N.eqb_spec x colon); [contradiction|]. cbn [andb]. rewrite IH by assumption. reflexivity.
Qed.
Lemma no_sep s : Forall (fun x => x <> colon) s -> has_sep s = false.
Proof.
  induction s as [|x r IH]; intros F; [reflexivity|]. inversion F; subst. cbn [has_sep].
  destruct (N.eqb_spec x colon); [contradiction|]. cbn [andb orb]. apply IH. assumption.
Qed.
Lemma hexdigit_not_colon d : d < 16 -> hexdigit d <> colon.
Proof. intros Hd. unfold hexdigit, colon. destruct (d <? 10) eqn:E; lia. Qed.
Lemma hex_no_colon b : byte_ok b -> Forall (fun x => x <> colon) (hex_encode b).
Proof.
  induction 1 as [|x b Hx _ IH]; [constructor|]. cbn [hex_encode flat_map app]. constructor; [|constructor; [|exact IH]]; apply hexdigit_not_colon.
  - apply N.div_lt_upper_bound; lia.
  - apply N.mod_lt. lia.
Qed.
Lemma digs_no_colon s : digs s -> Forall (fun x => x <> colon) s.
Proof. intros D. eapply Forall_impl; [|exact D]. cbv beta. unfold is_digit, colon. intros c Hc. lia. Qed.

Theorem ci_roundtrip h id : h < 2 ^ 64 -> byte_ok id -> length id = 32%nat -> ci_parse (ci_render h id) = Some (h, id).
Proof.
  intros Hh Hb Hl. unfold ci_parse, ci_render.
  assert (HM : h <= MAXCUR) by (unfold MAXCUR; lia).
  destruct (digits_spec h HM) as (Dg & Dv & Dn & _).
  rewrite split2_digits by (apply digs_no_colon; exact Dg).
  rewrite (no_sep _ (hex_no_colon id Hb)).
  assert (PU : parse_uint64 (digits h) = Some h).
  { unfold parse_uint64. destruct (digits h) as [|d0 dr] eqn:Ed; [contradiction|].
    rewrite (digs_all _ Dg), Dv. destruct (N.ltb_spec h (2 ^ 64)); [reflexivity | lia]. }
  rewrite PU.
  rewrite (hex_encode_length (fun x => x)), Hl. cbn [Nat.leb Nat.mul]. rewrite (hex_roundtrip id Hb), Hl. reflexivity.
Qed.
