(* Spend policy text form (types/policy.go: SpendPolicy.String, ParseSpendPolicy). Strings are lists of byte codes.
   Quoted specifiers (strconv.Quote / Unquote) are outside the model and reported as such. *)
From Coq Require Import List NArith ZArith Lia Bool.
From Sia Require Import Prim.Tok Policy.Model Text.Hex Text.Currency.
Import ListNotations.
Local Open Scope N_scope.

Inductive tres (A : Type) := TOk (a : A) | TErr | TUn.
Arguments TOk {A} a. Arguments TErr {A}. Arguments TUn {A}.
Definition tbind {A B} (r : tres A) (f : A -> tres B) : tres B := match r with TOk a => f a | TErr => TErr | TUn => TUn end.
Notation "'dot' x <- r ; k" := (tbind r (fun x => k)) (at level 200, x pattern, r at level 100, k at level 200).

(* ---- rendering ---- *)
Definition str (l : list N) : bytes := l.
Definition render_int (z : Z) : bytes := if (z <? 0)%Z then 45 :: digits (Z.to_N (- z)) else digits (Z.to_N z).
Definition is_alnum (c : N) : bool := ((48 <=? c) && (c <=? 57)) || ((65 <=? c) && (c <=? 90)) || ((97 <=? c) && (c <=? 122)).
Fixpoint trim_zeros_right_rev (l : bytes) : bytes := match l with 0 :: r => trim_zeros_right_rev r | _ => l end.
Definition spec_text (sp : bytes) : bytes := rev (trim_zeros_right_rev (rev sp)).
Definition hex0x (b : bytes) : bytes := 48 :: 120 :: hex_encode b.
Fixpoint join (sep : N) (l : list bytes) : bytes :=
  match l with [] => [] | [x] => x | x :: r => x ++ sep :: join sep r end.
Definition render_key (k : bytes * bytes) : option bytes :=
  let t := spec_text (fst k) in
  if forallb is_alnum t then Some (t ++ 58 :: hex_encode (snd k)) else None.
Fixpoint all_some {A} (l : list (option A)) : option (list A) :=
  match l with [] => Some [] | Some x :: r => option_map (cons x) (all_some r) | None :: _ => None end.

Fixpoint render (p : policy) : option bytes :=
  match p with
  | PAbove h => Some (str [97; 98; 111; 118; 101; 40] ++ digits h ++ [41])
  | PAfter t => Some (str [97; 102; 116; 101; 114; 40] ++ render_int t ++ [41])
  | PPK k => Some (str [112; 107; 40] ++ hex0x k ++ [41])
  | PHash h => Some (str [104; 40] ++ hex0x h ++ [41])
  | POpaque a => Some (str [111; 112; 97; 113; 117; 101; 40] ++ hex0x a ++ [41])
  | PThresh n ps =>
      match all_some (map render ps) with
      | Some rs => Some (str [116; 104; 114; 101; 115; 104; 40] ++ digits n ++ [44; 91] ++ join 44 rs ++ [93; 41])
      | None => None
      end
  | PUC tl keys req =>
      match all_some (map render_key keys) with
      | Some ks => Some (str [117; 99; 40] ++ digits tl ++ [44; 91] ++ join 44 ks ++ [93; 44] ++ digits req ++ [41])
      | None => None
      end
  end.

(* ---- parsing ---- *)
Definition is_space (c : N) : bool := (c =? 32) || ((9 <=? c) && (c <=? 13)).
Definition trim (s : bytes) : bytes :=
  let l := snd (span is_space s) in rev (snd (span is_space (rev l))).
Definition is_delim (c : N) : bool := (c =? 40) || (c =? 41) || (c =? 44) || (c =? 91) || (c =? 93).
(* nextToken: (token, rest) *)
Definition next_token (s : bytes) : bytes * bytes :=
  let s := trim s in
  let (t, r) := span (fun c => negb (is_delim c)) s in
  match r with [] => ([], s) | _ => (trim t, r) end.
Definition consume (b : N) (s : bytes) : tres bytes :=
  match trim s with [] => TErr | c :: r => if c =? b then TOk r else TErr end.
Definition peek (s : bytes) : N * bytes := let s := trim s in (match s with [] => 0 | c :: _ => c end, s).

Definition parse_uint (bits : N) (t : bytes) : tres N :=
  match t with
  | [] => TErr
  | _ => if all_digits t then (if dec_val t <? 2 ^ bits then TOk (dec_val t) else TErr) else TErr
  end.
Definition parse_int64 (t : bytes) : tres Z :=
  let (neg, d) := strip_sign t in
  match d with
  | [] => TErr
  | _ => if all_digits d then
           let v := Z.of_N (dec_val d) in
           if neg then (if (v <=? 2 ^ 63)%Z then TOk (- v)%Z else TErr) else (if (v <? 2 ^ 63)%Z then TOk v else TErr)
         else TErr
  end.
Definition parse_hex32 (t : bytes) : tres bytes :=
  if negb (Nat.eqb (length t) 66) then TErr
  else match t with
       | 48 :: 120 :: h => match hex_decode h with Some b => TOk b | None => TErr end
       | _ => TErr
       end.
Fixpoint last_index (c : N) (l : bytes) (i : nat) (found : option nat) : option nat :=
  match l with [] => found | x :: r => last_index c r (S i) (if x =? c then Some i else found) end.
Definition pad16 (b : bytes) : bytes := b ++ repeat 0 (16 - length b).
Definition parse_key (t : bytes) : tres (bytes * bytes) :=
  match last_index 58 t 0%nat None with
  | None => TErr
  | Some i =>
    let alg := firstn i t in
    let key := skipn (S i) t in
    match alg with
    | 34 :: _ => TUn                       (* quoted specifier *)
    | _ => if (16 <? length alg)%nat then TErr
           else match hex_decode key with Some k => TOk (pad16 alg, k) | None => TErr end
    end
  end.

Definition is_tok (t : bytes) (name : list N) : bool := if list_eq_dec N.eq_dec t name then true else false.

(* "[" item { "," item } [ "," ] "]" as the Go loops read it: for peek() != ']' { item; if peek() != ']' { consume(',') } } *)
Fixpoint list_loop {A} (item : bytes -> tres (A * bytes)) (k : nat) (s : bytes) (acc : list A) : tres (list A * bytes) :=
  match k with
  | O => TErr
  | S k =>
    let (c, s) := peek s in
    if c =? 93 then TOk (rev acc, s)
    else dot q <- item s;
         let (c2, s2) := peek (snd q) in
         if c2 =? 93 then list_loop item k s2 (fst q :: acc)
         else dot s3 <- consume 44 s2; list_loop item k s3 (fst q :: acc)
  end.
Definition key_item (s : bytes) : tres ((bytes * bytes) * bytes) :=
  let (t, s1) := next_token s in dot q <- parse_key t; TOk (q, s1).

Fixpoint parse_policy (fuel : nat) (s : bytes) : tres (policy * bytes) :=
  match fuel with
  | O => TErr
  | S f =>
    let (typ, s) := next_token s in
    dot s <- consume 40 s;
    dot ps <-
      (if is_tok typ [97; 98; 111; 118; 101] then
         let (t, s) := next_token s in dot v <- parse_uint 64 t; TOk (PAbove v, s)
       else if is_tok typ [97; 102; 116; 101; 114] then
         let (t, s) := next_token s in dot v <- parse_int64 t; TOk (PAfter v, s)
       else if is_tok typ [112; 107] then
         let (t, s) := next_token s in dot v <- parse_hex32 t; TOk (PPK v, s)
       else if is_tok typ [104] then
         let (t, s) := next_token s in dot v <- parse_hex32 t; TOk (PHash v, s)
       else if is_tok typ [111; 112; 97; 113; 117; 101] then
         let (t, s) := next_token s in dot v <- parse_hex32 t; TOk (POpaque v, s)
       else if is_tok typ [116; 104; 114; 101; 115; 104] then
         let (t, s) := next_token s in
         dot n <- parse_uint 8 t;
         dot s <- consume 44 s;
         dot s <- consume 91 s;
         dot r <- list_loop (parse_policy f) (S (length s)) s [];
         dot s <- consume 93 (snd r);
         TOk (PThresh n (fst r), s)
       else if is_tok typ [117; 99] then
         let (t, s) := next_token s in
         dot tl <- parse_uint 64 t;
         dot s <- consume 44 s;
         dot s <- consume 91 s;
         dot r <- list_loop key_item (S (length s)) s [];
         dot s <- consume 93 (snd r);
         dot s <- consume 44 s;
         let (t, s) := next_token s in
         dot req <- parse_uint 64 t;
         TOk (PUC tl (fst r) req, s)
       else TErr);
    dot s <- consume 41 (snd ps);
    TOk (fst ps, s)
  end.

Definition parse_spend_policy (s : bytes) : tres policy :=
  dot r <- parse_policy (S (length s)) s;
  match snd r with [] => TOk (fst r) | _ => TErr end.
