(* Currency text forms (types/currency.go): ExactString / MarshalText (decimal digits), String (decimal with a
   unit suffix), ParseCurrency. Strings are lists of byte codes. *)
From Coq Require Import List NArith Lia Bool PeanoNat ZifyN ZifyNat ZifyBool.
From Sia Require Import Prim.Tok.
Import ListNotations.
Local Open Scope N_scope.

Definition MAXCUR : N := 2 ^ 128 - 1.
Definition is_digit (c : N) : bool := (48 <=? c) && (c <=? 57).
Definition is_num (c : N) : bool := is_digit c || (c =? 46).

(* decimal rendering, most significant digit first, no leading zeros ("0" for zero) *)
Fixpoint digits_fuel (fuel : nat) (n : N) (acc : bytes) : bytes :=
  match fuel with
  | O => acc
  | S f => if n <? 10 then (48 + n) :: acc else digits_fuel f (n / 10) ((48 + n mod 10) :: acc)
  end.
Definition digits (n : N) : bytes := digits_fuel 40 n [].
Definition dec_val (l : bytes) : N := fold_left (fun a c => 10 * a + (c - 48)) l 0.

(* Currency.String *)
Definition unit_name (k : N) : bytes :=
  match k with
  | 0 => [112; 83] | 1 => [110; 83] | 2 => [117; 83] | 3 => [109; 83] | 4 => [83; 67]
  | 5 => [75; 83] | 6 => [77; 83] | 7 => [71; 83] | _ => [84; 83]
  end.
Fixpoint trim_zeros_rev (l : bytes) : bytes := match l with 48 :: r => trim_zeros_rev r | _ => l end.
Definition trim_trailing_zeros (l : bytes) : bytes := rev (trim_zeros_rev (rev l)).
Definition cur_render (c : N) : bytes :=
  if c =? 0 then [48; 32; 83; 67]
  else
    let s := digits c in
    let u := (N.of_nat (length s) - 1) / 3 in
    if u <? 4 then s ++ [32; 72]
    else
      let u := N.min u 12 in
      let k := (length s - N.to_nat (u * 3))%nat in
      let mant := firstn k s in
      let frac := trim_trailing_zeros (skipn k s) in
      mant ++ (match frac with [] => [] | _ => 46 :: frac end) ++ 32 :: unit_name (u - 4).

(* ParseCurrency, for numeric parts of the form [+-]digits[.digits] (big.Rat also accepts exponents and
   fractions: those are outside this model and reported as such) *)
Fixpoint span (p : N -> bool) (l : bytes) : bytes * bytes :=
  match l with
  | x :: r => if p x then let (a, b) := span p r in (x :: a, b) else ([], l)
  | [] => ([], [])
  end.
Definition trim_spaces (l : bytes) : bytes :=
  let l1 := snd (span (fun c => c =? 32) l) in
  rev (snd (span (fun c => c =? 32) (rev l1))).
Definition unit_exp (u : bytes) : option N :=
  if list_eq_dec N.eq_dec u [112; 83] then Some 12 else if list_eq_dec N.eq_dec u [110; 83] then Some 15
  else if list_eq_dec N.eq_dec u [117; 83] then Some 18 else if list_eq_dec N.eq_dec u [109; 83] then Some 21
  else if list_eq_dec N.eq_dec u [83; 67] then Some 24 else if list_eq_dec N.eq_dec u [75; 83] then Some 27
  else if list_eq_dec N.eq_dec u [77; 83] then Some 30 else if list_eq_dec N.eq_dec u [71; 83] then Some 33
  else if list_eq_dec N.eq_dec u [84; 83] then Some 36 else None.

Inductive cur_res := POk (v : N) | PErr | PUnmodelled.
Definition all_digits (l : bytes) : bool := forallb is_digit l.
Definition strip_sign (l : bytes) : bool * bytes :=
  match l with 43 :: r => (false, r) | 45 :: r => (true, r) | _ => (false, l) end.
Definition finish (neg : bool) (v : N) : cur_res :=
  if neg && negb (v =? 0) then PErr else if MAXCUR <? v then PErr else POk v.
Definition cur_parse_split (n unit : bytes) : cur_res :=
  match n with
  | [] => PErr
  | _ =>
    if (match unit with [] => true | [72] => true | _ => false end) then
      (* parseHastings: an integer *)
      let (neg, d) := strip_sign n in
      match d with
      | [] => PErr
      | _ => if all_digits d then finish neg (dec_val d) else if existsb (fun c => c =? 46) d then PErr else PUnmodelled
      end
    else
      let (neg, d) := strip_sign n in
      let (ip, rest) := span is_digit d in
      let fp := match rest with 46 :: f => Some f | [] => Some [] | _ => None end in
      match fp with
      | None => PUnmodelled
      | Some f =>
        if negb (all_digits f) then (if existsb (fun c => c =? 46) f then PErr else PUnmodelled)
        else match ip ++ f with
             | [] => PErr
             | _ =>
               match unit_exp unit with
               | None => PErr
               | Some e =>
                 let v := dec_val (ip ++ f) in
                 let fl := N.of_nat (length f) in
                 if fl <=? e then finish neg (v * 10 ^ (e - fl))
                 else if v mod 10 ^ (fl - e) =? 0 then finish neg (v / 10 ^ (fl - e)) else PErr
               end
             end
      end
  end.
(* n = s[:i] up to and including the last digit or '.', unit = the rest, trimmed *)
Definition cur_parse (s : bytes) : cur_res :=
  let (u_rev, n_rev) := span (fun c => negb (is_num c)) (rev s) in
  cur_parse_split (rev n_rev) (trim_spaces (rev u_rev)).
