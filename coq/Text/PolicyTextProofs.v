From Coq Require Import List NArith ZArith Lia Bool PeanoNat ZifyN ZifyNat ZifyBool.
From Sia Require Import Prim.Tok Policy.Model Text.Hex Text.Currency Text.CurrencyProofs.
From Sia Require Import Text.PolicyText.
Import ListNotations.
Local Open Scope N_scope.

Definition nosp (s : bytes) : Prop := Forall (fun c => is_space c = false) s.
Definition nodelim (s : bytes) : Prop := Forall (fun c => is_delim c = false) s.

Lemma span_none p s : (match s with [] => True | c :: _ => p c = false end) -> span p s = ([], s).
Proof. destruct s as [|c r]; [reflexivity|]. intros E. cbn [span]. rewrite E. reflexivity. Qed.
Lemma trim_nosp s : nosp s -> trim s = s.
Proof.
  intros N. unfold trim. rewrite (span_none is_space s) by (destruct N; auto). cbn [snd].
  assert (R : nosp (rev s)) by (apply Forall_rev; exact N).
  rewrite (span_none is_space (rev s)) by (destruct R; auto). cbn [snd]. apply rev_involutive.
Qed.
Lemma nosp_app a b : nosp a -> nosp b -> nosp (a ++ b).
Proof. intros A B'. apply Forall_app; split; assumption. Qed.
Lemma nosp_cons c s : is_space c = false -> nosp s -> nosp (c :: s).
Proof. intros. constructor; assumption. Qed.

Lemma span_all p a b : Forall (fun c => p c = true) a -> span p (a ++ b) = (a ++ fst (span p b), snd (span p b)).
Proof.
  induction 1 as [|x a Hx _ IH]; cbn [app span].
  - destruct (span p b); reflexivity.
  - rewrite Hx, IH. reflexivity.
Qed.

(* the next token of "t d rest" is t *)
Lemma next_token_ok t d rest : nosp t -> nodelim t -> is_delim d = true -> nosp (d :: rest) ->
  next_token (t ++ d :: rest) = (t, d :: rest).
Proof.
  intros Nt Dt Hd Nr. unfold next_token.
  rewrite trim_nosp by (apply nosp_app; assumption).
  rewrite span_all by (eapply Forall_impl; [|exact Dt]; cbn; intros c ->; reflexivity).
  cbn [span]. rewrite Hd. cbn [negb fst snd]. rewrite app_nil_r. rewrite trim_nosp by exact Nt. reflexivity.
Qed.
Lemma consume_ok d rest : nosp (d :: rest) -> consume d (d :: rest) = TOk rest.
Proof. intros N. unfold consume. rewrite trim_nosp by exact N. rewrite N.eqb_refl. reflexivity. Qed.
Lemma peek_ok c rest : nosp (c :: rest) -> peek (c :: rest) = (c, c :: rest).
Proof. intros N. unfold peek. rewrite trim_nosp by exact N. reflexivity. Qed.

(* numbers *)
Lemma digits_nice n : n <= MAXCUR -> nosp (digits n) /\ nodelim (digits n) /\ digits n <> [] /\ all_digits (digits n) = true /\ dec_val (digits n) = n.
Proof.
  intros L. destruct (digits_spec n L) as (D & V & NE & _).
  assert (forall c, is_digit c = true -> is_space c = false /\ is_delim c = false).
  { intros c Hc. unfold is_digit, is_space, is_delim in *. lia. }
  repeat split; auto.
  - eapply Forall_impl; [|exact D]. cbn. intros c Hc. apply H; exact Hc.
  - eapply Forall_impl; [|exact D]. cbn. intros c Hc. apply H; exact Hc.
  - apply digs_all. exact D.
Qed.
Lemma parse_uint_ok bits n : n < 2 ^ bits -> bits <= 64 -> parse_uint bits (digits n) = TOk n.
Proof.
  intros L B. assert (M : n <= MAXCUR).
  { unfold MAXCUR. assert (2 ^ bits <= 2 ^ 64) by (apply N.pow_le_mono_r; lia). assert (2 ^ 64 < 2 ^ 128) by (apply N.pow_lt_mono_r; lia). lia. }
  destruct (digits_nice n M) as (_ & _ & NE & AD & DV). unfold parse_uint.
  destruct (digits n) as [|d0 r] eqn:E; [congruence|]. rewrite AD, DV.
  assert (X : (n <? 2 ^ bits) = true) by lia. rewrite X. reflexivity.
Qed.

Lemma strip_sign_digits d : digs d -> strip_sign d = (false, d).
Proof.
  intros D. destruct d as [|c r]; [reflexivity|]. inversion D as [|? ? Hc _]; subst. unfold is_digit in Hc. unfold strip_sign.
  destruct c as [|p]; [lia|]. do 6 (destruct p as [p|p|]; try reflexivity; try lia).
Qed.
Lemma parse_int64_ok z : (- 2 ^ 63 <= z < 2 ^ 63)%Z -> parse_int64 (render_int z) = TOk z.
Proof.
  intros R. unfold render_int, parse_int64. destruct (z <? 0)%Z eqn:E.
  - assert (M : Z.to_N (- z) <= MAXCUR) by (unfold MAXCUR; lia).
    destruct (digits_spec _ M) as (D & V & NE & _).
    cbn [strip_sign]. destruct (digits (Z.to_N (- z))) as [|d0 r] eqn:Ed; [congruence|].
    rewrite (digs_all _ D), V. rewrite Z2N.id by lia.
    assert (X : (- z <=? 2 ^ 63)%Z = true) by lia. rewrite X. f_equal. lia.
  - assert (M : Z.to_N z <= MAXCUR) by (unfold MAXCUR; lia).
    destruct (digits_spec _ M) as (D & V & NE & _).
    rewrite (strip_sign_digits _ D). destruct (digits (Z.to_N z)) as [|d0 r] eqn:Ed; [congruence|].
    rewrite (digs_all _ D), V. rewrite Z2N.id by lia.
    assert (X : (z <? 2 ^ 63)%Z = true) by lia. rewrite X. reflexivity.
Qed.
Lemma render_int_nice z : (- 2 ^ 63 <= z < 2 ^ 63)%Z -> nosp (render_int z) /\ nodelim (render_int z).
Proof.
  intros R. unfold render_int. destruct (z <? 0)%Z.
  - destruct (digits_nice (Z.to_N (- z)) ltac:(unfold MAXCUR; lia)) as (A & B & _). split; constructor; auto.
  - destruct (digits_nice (Z.to_N z) ltac:(unfold MAXCUR; lia)) as (A & B & _). split; auto.
Qed.

(* hex *)
Lemma hexdigit_nice d : d < 16 -> is_space (hexdigit d) = false /\ is_delim (hexdigit d) = false /\ hexdigit d <> 58 /\ hexdigit d <> 34.
Proof. intros L. unfold hexdigit, is_space, is_delim. destruct (d <? 10) eqn:E; lia. Qed.
Lemma hex_nice b : byte_ok b -> nosp (hex_encode b) /\ nodelim (hex_encode b) /\ ~ In 58 (hex_encode b).
Proof.
  induction 1 as [|x b Hx _ (A & B & C)]; [repeat split; try constructor; intros []|].
  cbn [hex_encode flat_map app]. fold (hex_encode b).
  destruct (hexdigit_nice (x / 16) ltac:(apply N.div_lt_upper_bound; lia)) as (a1 & a2 & a3 & _).
  destruct (hexdigit_nice (x mod 16) ltac:(apply N.mod_lt; lia)) as (b1 & b2 & b3 & _).
  repeat split; try (repeat constructor; assumption).
  intros [I|[I|I]]; try congruence.
Qed.
Lemma parse_hex32_ok b : byte_ok b -> length b = 32%nat -> parse_hex32 (hex0x b) = TOk b.
Proof.
  intros O L. unfold parse_hex32, hex0x. cbn [length]. rewrite (hex_encode_length (fun x => x)), L. cbn [Nat.eqb Nat.mul Nat.add negb].
  rewrite (hex_roundtrip b O). reflexivity.
Qed.
Lemma hex0x_nice b : byte_ok b -> nosp (hex0x b) /\ nodelim (hex0x b).
Proof. intros O. destruct (hex_nice b O) as (A & B & _). unfold hex0x. split; repeat constructor; auto. Qed.

(* ---- lists ---- *)
Lemma join_cons2 sep x y r : join sep (x :: y :: r) = x ++ sep :: join sep (y :: r).
Proof. reflexivity. Qed.

Section Loop.
Context {A : Type}.
Variable item : bytes -> tres (A * bytes).
(* R x r: r is the rendering of x, parsed back by item whatever follows, and it starts with a visible character other than ']' *)
Definition item_ok (x : A) (r : bytes) : Prop :=
  (forall d rest, is_delim d = true -> nosp (d :: rest) -> item (r ++ d :: rest) = TOk (x, d :: rest)) /\ nosp r /\
  (exists c t, r = c :: t /\ c <> 93).

Lemma list_loop_ok xs rs : Forall2 item_ok xs rs -> forall tail acc k, nosp tail -> (length xs < k)%nat ->
  list_loop item k (join 44 rs ++ 93 :: tail) acc = TOk (rev acc ++ xs, 93 :: tail).
Proof.
  induction 1 as [|x r xs rs Hx Hrest IH]; intros tail acc k Nt Lk.
  - destruct k; [lia|]. cbn [join app list_loop]. rewrite peek_ok by (apply nosp_cons; [reflexivity | exact Nt]).
    rewrite N.eqb_refl, app_nil_r. reflexivity.
  - destruct Hx as (Hi & Hn & (c & t & Hr & Hc)). subst r. destruct k as [|k]; [cbn in Lk; lia|]. cbn [length] in Lk.
    assert (N93 : nosp (93 :: tail)) by (apply nosp_cons; [reflexivity | exact Nt]).
    assert (E : (c =? 93) = false) by lia.
    destruct rs as [|r2 rs'].
    + (* last item *)
      inversion Hrest; subst. cbn [join list_loop].
      rewrite <- app_comm_cons. rewrite peek_ok by (rewrite app_comm_cons; apply nosp_app; [exact Hn | exact N93]).
      rewrite E. rewrite app_comm_cons, (Hi 93 tail eq_refl N93). cbn [tbind fst snd].
      rewrite peek_ok by exact N93. rewrite N.eqb_refl.
      destruct k; [lia|]. cbn [list_loop]. rewrite peek_ok by exact N93. rewrite N.eqb_refl.
      cbn [rev]. reflexivity.
    + (* more items follow *)
      rewrite join_cons2. cbn [list_loop]. rewrite <- app_assoc. rewrite <- (app_comm_cons _ _ 44).
      set (more := join 44 (r2 :: rs') ++ 93 :: tail).
      assert (Nm : nosp (44 :: more)).
      { apply nosp_cons; [reflexivity|]. subst more. apply nosp_app; [|exact N93].
        clear - Hrest. revert Hrest. generalize (r2 :: rs'). intros l F. induction F as [|y ry ys rys Hy0 _ IHF]; [constructor|]. destruct Hy0 as (_ & Hy & _).
        destruct rys as [|r3 rys']; [cbn [join]; exact Hy|]. rewrite join_cons2. apply nosp_app; [exact Hy|]. apply nosp_cons; [reflexivity | exact IHF]. }
      rewrite <- app_comm_cons. rewrite peek_ok by (rewrite app_comm_cons; apply nosp_app; assumption).
      rewrite E. rewrite app_comm_cons, (Hi 44 more eq_refl Nm). cbn [tbind fst snd].
      rewrite peek_ok by exact Nm. cbn [N.eqb Pos.eqb]. rewrite consume_ok by exact Nm. cbn [tbind].
      subst more. rewrite (IH tail (x :: acc) k Nt ltac:(lia)). cbn [rev]. rewrite <- app_assoc. reflexivity.
Qed.
End Loop.

(* ---- unlock keys ---- *)
Definition wfkey (k : bytes * bytes) : Prop :=
  byte_ok (snd k) /\ forallb is_alnum (spec_text (fst k)) = true /\ fst k = pad16 (spec_text (fst k)) /\ (length (spec_text (fst k)) <= 16)%nat.

Lemma alnum_nice t : forallb is_alnum t = true -> nosp t /\ nodelim t /\ ~ In 58 t /\ (match t with 34 :: _ => False | _ => True end).
Proof.
  intros A. rewrite forallb_forall in A.
  assert (G : forall c, In c t -> is_space c = false /\ is_delim c = false /\ c <> 58 /\ c <> 34).
  { intros c I. specialize (A c I). unfold is_alnum, is_space, is_delim in *. lia. }
  repeat split.
  - apply Forall_forall. intros c I. apply G; exact I.
  - apply Forall_forall. intros c I. apply G; exact I.
  - intros I. destruct (G 58 I) as (_ & _ & X & _). congruence.
  - destruct t as [|c r]; [exact I|]. destruct (G c (or_introl eq_refl)) as (_ & _ & _ & X).
    destruct (N.eq_dec c 34) as [->|Ne]; [congruence|].
    destruct c as [|p]; [exact I|]. do 6 (destruct p as [p|p|]; try exact I). congruence.
Qed.

Lemma last_index_app t r i0 found : ~ In 58 r ->
  last_index 58 (t ++ 58 :: r) i0 found = Some (i0 + length t)%nat.
Proof.
  revert i0 found. induction t as [|x t IH]; intros i0 found NI.
  - cbn [app last_index length]. rewrite N.eqb_refl. rewrite Nat.add_0_r.
    clear - NI. revert NI. generalize (Some i0). generalize (S i0). induction r as [|y r IH]; intros j f NI; [reflexivity|].
    cbn [last_index]. destruct (N.eqb_spec y 58) as [->|]; [exfalso; apply NI; left; reflexivity|]. apply IH. intros I. apply NI. right. exact I.
  - cbn [app last_index length]. rewrite IH by exact NI. f_equal. lia.
Qed.

Lemma parse_key_ok k t : wfkey k -> render_key k = Some t -> parse_key t = TOk k /\ nosp t /\ nodelim t /\ (exists c r, t = c :: r /\ c <> 93).
Proof.
  intros (Ok & Al & Pad & Len) R. unfold render_key in R. rewrite Al in R. injection R as <-.
  destruct (alnum_nice _ Al) as (Ns & Nd & N58 & N34). destruct (hex_nice _ Ok) as (Hs & Hd & H58).
  set (sp := spec_text (fst k)) in *.
  split; [|split; [|split]].
  - unfold parse_key. rewrite (last_index_app sp (hex_encode (snd k)) 0 None H58). cbn [Nat.add].
    rewrite firstn_app, Nat.sub_diag, firstn_O, app_nil_r, firstn_all.
    replace (skipn (S (length sp)) (sp ++ 58 :: hex_encode (snd k))) with (hex_encode (snd k)).
    2:{ change (sp ++ 58 :: hex_encode (snd k)) with (sp ++ [58] ++ hex_encode (snd k)). rewrite app_assoc.
        rewrite skipn_app. rewrite skipn_all2 by (rewrite app_length; cbn; lia). rewrite app_length. cbn [length app].
        replace (S (length sp) - (length sp + 1))%nat with 0%nat by lia. reflexivity. }
    assert (L16 : (16 <? length sp)%nat = false) by (apply Nat.ltb_ge; exact Len). rewrite L16.
    rewrite (hex_roundtrip _ Ok). rewrite <- Pad.
    destruct sp as [|c r]; [destruct k; reflexivity|].
    destruct c as [|p]; [destruct k; reflexivity|].
    do 6 (destruct p as [p|p|]; try (destruct k; reflexivity)). contradiction.
  - apply nosp_app; [exact Ns|]. apply nosp_cons; [reflexivity | exact Hs].
  - apply Forall_app. split; [exact Nd|]. constructor; [reflexivity | exact Hd].
  - destruct sp as [|c r]; [exists 58, (hex_encode (snd k)); split; [reflexivity | discriminate]|].
    exists c, (r ++ 58 :: hex_encode (snd k)). split; [reflexivity|].
    inversion Nd as [|? ? Hc _]; subst. unfold is_delim in Hc. lia.
Qed.

Lemma key_item_ok k t : wfkey k -> render_key k = Some t -> item_ok key_item k t.
Proof.
  intros W R. destruct (parse_key_ok k t W R) as (P & Ns & Nd & Hd). split; [|split; assumption].
  intros d rest Dd Nr. unfold key_item. rewrite (next_token_ok t d rest Ns Nd Dd Nr). rewrite P. reflexivity.
Qed.

(* ---- policies ---- *)
Fixpoint psize (p : policy) : nat :=
  match p with
  | PThresh _ ps => S ((fix go (l : list policy) : nat := match l with [] => 0%nat | q :: r => (psize q + go r)%nat end) ps)
  | _ => 1%nat
  end.
Fixpoint wfp (p : policy) : Prop :=
  match p with
  | PAbove h => h < 2 ^ 64
  | PAfter t => (- 2 ^ 63 <= t < 2 ^ 63)%Z
  | PPK k | PHash k | POpaque k => byte_ok k /\ length k = 32%nat
  | PThresh n ps => n < 256 /\ (fix all (l : list policy) : Prop := match l with [] => True | q :: r => wfp q /\ all r end) ps
  | PUC tl keys req => tl < 2 ^ 64 /\ req < 2 ^ 64 /\ Forall wfkey keys
  end.

Lemma all_some_forall2 {A B} (f : A -> option B) xs ys : all_some (map f xs) = Some ys -> Forall2 (fun x y => f x = Some y) xs ys.
Proof.
  revert ys. induction xs as [|x xs IH]; intros ys E; cbn [map all_some] in E.
  - injection E as <-. constructor.
  - destruct (f x) as [y|] eqn:Fx; [|discriminate]. destruct (all_some (map f xs)) as [ys'|]; [|discriminate].
    injection E as <-. constructor; [exact Fx | apply IH; reflexivity].
Qed.

Ltac simpl_tok :=
  repeat match goal with |- context [is_tok ?a ?b] =>
    let v := eval vm_compute in (is_tok a b) in change (is_tok a b) with v end; cbv iota.

Lemma tok_nice t : forallb (fun c => (97 <=? c) && (c <=? 122)) t = true -> nosp t /\ nodelim t.
Proof.
  intros A. rewrite forallb_forall in A. split; apply Forall_forall; intros c I; specialize (A c I); unfold is_space, is_delim; lia.
Qed.

Lemma join_nosp {A} (item : bytes -> tres (A * bytes)) xs rs : Forall2 (item_ok item) xs rs ->
  nosp (join 44 rs) /\ (length xs <= length (join 44 rs))%nat.
Proof.
  induction 1 as [|x r xs rs Hx Hrest IH]; [split; [constructor | cbn; lia]|].
  destruct Hx as (_ & Hn & (c & t & -> & _)). destruct IH as [IH1 IH2].
  destruct rs as [|r2 rs'].
  - inversion Hrest; subst. cbn [join length]. split; [exact Hn | cbn; lia].
  - rewrite join_cons2. split.
    + apply nosp_app; [exact Hn|]. apply nosp_cons; [reflexivity | exact IH1].
    + rewrite app_length. cbn [length] in *. lia.
Qed.

(* a rendered policy is parsed back, whatever follows it *)
Theorem parse_render fuel : forall p s, render p = Some s -> wfp p -> (psize p <= fuel)%nat ->
  (forall rest, nosp rest -> parse_policy fuel (s ++ rest) = TOk (p, rest)) /\ nosp s /\ (exists c t, s = c :: t /\ c <> 93).
Proof.
  induction fuel as [|f IH]; intros p s R W Sz; [destruct p; cbn in Sz; lia|].
  destruct p as [h|t|k|k|n ps|a|tl keys req]; cbn [render] in R.
  - (* above *)
    injection R as <-. cbn [wfp] in W.
    destruct (digits_nice h ltac:(unfold MAXCUR; lia)) as (Ns & Nd & _).
    assert (Nall : nosp (str [97; 98; 111; 118; 101; 40] ++ digits h ++ [41])).
    { apply nosp_app; [repeat constructor|]. apply nosp_app; [exact Ns | repeat constructor]. }
    split; [|split; [exact Nall | eexists _, _; split; [reflexivity | discriminate]]].
    intros rest Nr. cbn [parse_policy].
    match goal with |- context [next_token ?S] =>
      replace S with ([97; 98; 111; 118; 101] ++ 40 :: digits h ++ 41 :: rest) by (unfold str; cbn [app]; rewrite <- app_assoc; reflexivity) end.
    destruct (tok_nice [97; 98; 111; 118; 101] eq_refl) as [T1 T2].
    assert (N2 : nosp (40 :: digits h ++ 41 :: rest)).
    { apply nosp_cons; [reflexivity|]. apply nosp_app; [exact Ns|]. apply nosp_cons; [reflexivity | exact Nr]. }
    rewrite (next_token_ok _ 40 _ T1 T2 eq_refl N2). rewrite consume_ok by exact N2. cbn [tbind]. simpl_tok.
    inversion N2 as [|? ? _ N3]; subst.
    rewrite (next_token_ok (digits h) 41 rest Ns Nd eq_refl ltac:(apply nosp_cons; [reflexivity | exact Nr])).
    rewrite parse_uint_ok by lia. cbn [tbind fst snd]. rewrite consume_ok by (apply nosp_cons; [reflexivity | exact Nr]). reflexivity.
  - (* after *)
    injection R as <-. cbn [wfp] in W.
    destruct (render_int_nice t W) as (Ns & Nd).
    assert (Nall : nosp (str [97; 102; 116; 101; 114; 40] ++ render_int t ++ [41])).
    { apply nosp_app; [repeat constructor|]. apply nosp_app; [exact Ns | repeat constructor]. }
    split; [|split; [exact Nall | eexists _, _; split; [reflexivity | discriminate]]].
    intros rest Nr. cbn [parse_policy].
    match goal with |- context [next_token ?S] =>
      replace S with ([97; 102; 116; 101; 114] ++ 40 :: render_int t ++ 41 :: rest) by (unfold str; cbn [app]; rewrite <- app_assoc; reflexivity) end.
    destruct (tok_nice [97; 102; 116; 101; 114] eq_refl) as [T1 T2].
    assert (N2 : nosp (40 :: render_int t ++ 41 :: rest)).
    { apply nosp_cons; [reflexivity|]. apply nosp_app; [exact Ns|]. apply nosp_cons; [reflexivity | exact Nr]. }
    rewrite (next_token_ok _ 40 _ T1 T2 eq_refl N2). rewrite consume_ok by exact N2. cbn [tbind]. simpl_tok.
    rewrite (next_token_ok (render_int t) 41 rest Ns Nd eq_refl ltac:(apply nosp_cons; [reflexivity | exact Nr])).
    rewrite parse_int64_ok by exact W. cbn [tbind fst snd]. rewrite consume_ok by (apply nosp_cons; [reflexivity | exact Nr]). reflexivity.
  - (* pk *)
    injection R as <-. cbn [wfp] in W. destruct W as [Ok Lk].
    destruct (hex0x_nice k Ok) as (Ns & Nd).
    assert (Nall : nosp (str [112; 107; 40] ++ hex0x k ++ [41])).
    { apply nosp_app; [repeat constructor|]. apply nosp_app; [exact Ns | repeat constructor]. }
    split; [|split; [exact Nall | eexists _, _; split; [reflexivity | discriminate]]].
    intros rest Nr. cbn [parse_policy].
    match goal with |- context [next_token ?S] =>
      replace S with ([112; 107] ++ 40 :: hex0x k ++ 41 :: rest) by (unfold str; cbn [app]; rewrite <- app_assoc; reflexivity) end.
    destruct (tok_nice [112; 107] eq_refl) as [T1 T2].
    assert (N2 : nosp (40 :: hex0x k ++ 41 :: rest)).
    { apply nosp_cons; [reflexivity|]. apply nosp_app; [exact Ns|]. apply nosp_cons; [reflexivity | exact Nr]. }
    rewrite (next_token_ok _ 40 _ T1 T2 eq_refl N2). rewrite consume_ok by exact N2. cbn [tbind]. simpl_tok.
    rewrite (next_token_ok (hex0x k) 41 rest Ns Nd eq_refl ltac:(apply nosp_cons; [reflexivity | exact Nr])).
    rewrite parse_hex32_ok by assumption. cbn [tbind fst snd]. rewrite consume_ok by (apply nosp_cons; [reflexivity | exact Nr]). reflexivity.
  - (* h *)
    injection R as <-. cbn [wfp] in W. destruct W as [Ok Lk].
    destruct (hex0x_nice k Ok) as (Ns & Nd).
    assert (Nall : nosp (str [104; 40] ++ hex0x k ++ [41])).
    { apply nosp_app; [repeat constructor|]. apply nosp_app; [exact Ns | repeat constructor]. }
    split; [|split; [exact Nall | eexists _, _; split; [reflexivity | discriminate]]].
    intros rest Nr. cbn [parse_policy].
    match goal with |- context [next_token ?S] =>
      replace S with ([104] ++ 40 :: hex0x k ++ 41 :: rest) by (unfold str; cbn [app]; rewrite <- app_assoc; reflexivity) end.
    destruct (tok_nice [104] eq_refl) as [T1 T2].
    assert (N2 : nosp (40 :: hex0x k ++ 41 :: rest)).
    { apply nosp_cons; [reflexivity|]. apply nosp_app; [exact Ns|]. apply nosp_cons; [reflexivity | exact Nr]. }
    rewrite (next_token_ok _ 40 _ T1 T2 eq_refl N2). rewrite consume_ok by exact N2. cbn [tbind]. simpl_tok.
    rewrite (next_token_ok (hex0x k) 41 rest Ns Nd eq_refl ltac:(apply nosp_cons; [reflexivity | exact Nr])).
    rewrite parse_hex32_ok by assumption. cbn [tbind fst snd]. rewrite consume_ok by (apply nosp_cons; [reflexivity | exact Nr]). reflexivity.
  - (* thresh *)
    destruct (all_some (map render ps)) as [rs|] eqn:AS; [|discriminate]. injection R as <-.
    cbn [wfp] in W. destruct W as [Wn Wps]. cbn [psize] in Sz.
    pose proof (all_some_forall2 render ps rs AS) as F2.
    assert (IT : Forall2 (item_ok (parse_policy f)) ps rs).
    { clear AS. revert Wps Sz. induction F2 as [|q r qs rs' Hq _ IHF]; intros Wps Sz; [constructor|].
      destruct Wps as [Wq Wqs].
      destruct (IH q r Hq Wq ltac:(lia)) as (P1 & P2 & P3).
      constructor; [|apply IHF; [exact Wqs | lia]].
      split; [|split; assumption]. intros d rest Dd Nr. apply P1. exact Nr. }
    destruct (join_nosp _ ps rs IT) as [Nj Lj].
    destruct (digits_nice n ltac:(unfold MAXCUR; lia)) as (Ns & Nd & _).
    assert (Nall : nosp (str [116; 104; 114; 101; 115; 104; 40] ++ digits n ++ [44; 91] ++ join 44 rs ++ [93; 41])).
    { apply nosp_app; [repeat constructor|]. apply nosp_app; [exact Ns|]. apply nosp_app; [repeat constructor|].
      apply nosp_app; [exact Nj | repeat constructor]. }
    split; [|split; [exact Nall | eexists _, _; split; [reflexivity | discriminate]]].
    intros rest Nr. cbn [parse_policy].
    match goal with |- context [next_token ?S] =>
      replace S with ([116; 104; 114; 101; 115; 104] ++ 40 :: digits n ++ 44 :: 91 :: join 44 rs ++ 93 :: 41 :: rest)
        by (unfold str; cbn [app]; rewrite <- app_assoc; cbn [app]; rewrite <- app_assoc; reflexivity) end.
    destruct (tok_nice [116; 104; 114; 101; 115; 104] eq_refl) as [T1 T2].
    assert (N5 : nosp (41 :: rest)) by (apply nosp_cons; [reflexivity | exact Nr]).
    assert (N4 : nosp (93 :: 41 :: rest)) by (apply nosp_cons; [reflexivity | exact N5]).
    assert (N3 : nosp (join 44 rs ++ 93 :: 41 :: rest)) by (apply nosp_app; assumption).
    assert (N2b : nosp (91 :: join 44 rs ++ 93 :: 41 :: rest)) by (apply nosp_cons; [reflexivity | exact N3]).
    assert (N2a : nosp (44 :: 91 :: join 44 rs ++ 93 :: 41 :: rest)) by (apply nosp_cons; [reflexivity | exact N2b]).
    assert (N2 : nosp (40 :: digits n ++ 44 :: 91 :: join 44 rs ++ 93 :: 41 :: rest)).
    { apply nosp_cons; [reflexivity|]. apply nosp_app; assumption. }
    rewrite (next_token_ok _ 40 _ T1 T2 eq_refl N2). rewrite consume_ok by exact N2. cbn [tbind]. simpl_tok.
    rewrite (next_token_ok (digits n) 44 _ Ns Nd eq_refl N2a).
    rewrite parse_uint_ok by lia. cbn [tbind]. rewrite consume_ok by exact N2a. cbn [tbind]. rewrite consume_ok by exact N2b. cbn [tbind].
    rewrite (list_loop_ok (parse_policy f) ps rs IT (41 :: rest) [] _ N5) by (rewrite app_length; lia).
    cbn [tbind fst snd rev app]. rewrite consume_ok by exact N4. cbn [tbind fst snd]. rewrite consume_ok by exact N5. reflexivity.
  - (* opaque *)
    injection R as <-. cbn [wfp] in W. destruct W as [Ok Lk].
    destruct (hex0x_nice a Ok) as (Ns & Nd).
    assert (Nall : nosp (str [111; 112; 97; 113; 117; 101; 40] ++ hex0x a ++ [41])).
    { apply nosp_app; [repeat constructor|]. apply nosp_app; [exact Ns | repeat constructor]. }
    split; [|split; [exact Nall | eexists _, _; split; [reflexivity | discriminate]]].
    intros rest Nr. cbn [parse_policy].
    match goal with |- context [next_token ?S] =>
      replace S with ([111; 112; 97; 113; 117; 101] ++ 40 :: hex0x a ++ 41 :: rest) by (unfold str; cbn [app]; rewrite <- app_assoc; reflexivity) end.
    destruct (tok_nice [111; 112; 97; 113; 117; 101] eq_refl) as [T1 T2].
    assert (N2 : nosp (40 :: hex0x a ++ 41 :: rest)).
    { apply nosp_cons; [reflexivity|]. apply nosp_app; [exact Ns|]. apply nosp_cons; [reflexivity | exact Nr]. }
    rewrite (next_token_ok _ 40 _ T1 T2 eq_refl N2). rewrite consume_ok by exact N2. cbn [tbind]. simpl_tok.
    rewrite (next_token_ok (hex0x a) 41 rest Ns Nd eq_refl ltac:(apply nosp_cons; [reflexivity | exact Nr])).
    rewrite parse_hex32_ok by assumption. cbn [tbind fst snd]. rewrite consume_ok by (apply nosp_cons; [reflexivity | exact Nr]). reflexivity.
  - (* uc *)
    destruct (all_some (map render_key keys)) as [ks|] eqn:AS; [|discriminate]. injection R as <-.
    cbn [wfp] in W. destruct W as (Wt & Wr & Wk).
    pose proof (all_some_forall2 render_key keys ks AS) as F2.
    assert (IT : Forall2 (item_ok key_item) keys ks).
    { clear AS Sz. revert Wk. induction F2 as [|q r qs rs' Hq _ IHF]; intros Wk; [constructor|].
      inversion Wk as [|? ? Wq Wqs]; subst. constructor; [apply key_item_ok; assumption | apply IHF; exact Wqs]. }
    destruct (join_nosp _ keys ks IT) as [Nj Lj].
    destruct (digits_nice tl ltac:(unfold MAXCUR; lia)) as (Ns & Nd & _).
    destruct (digits_nice req ltac:(unfold MAXCUR; lia)) as (Ns' & Nd' & _).
    assert (Nall : nosp (str [117; 99; 40] ++ digits tl ++ [44; 91] ++ join 44 ks ++ [93; 44] ++ digits req ++ [41])).
    { apply nosp_app; [repeat constructor|]. apply nosp_app; [exact Ns|]. apply nosp_app; [repeat constructor|].
      apply nosp_app; [exact Nj|]. apply nosp_app; [repeat constructor|]. apply nosp_app; [exact Ns' | repeat constructor]. }
    split; [|split; [exact Nall | eexists _, _; split; [reflexivity | discriminate]]].
    intros rest Nr. cbn [parse_policy].
    match goal with |- context [next_token ?S] =>
      replace S with ([117; 99] ++ 40 :: digits tl ++ 44 :: 91 :: join 44 ks ++ 93 :: 44 :: digits req ++ 41 :: rest)
        by (unfold str; cbn [app]; rewrite <- app_assoc; cbn [app]; rewrite <- app_assoc; cbn [app]; rewrite <- app_assoc; reflexivity) end.
    destruct (tok_nice [117; 99] eq_refl) as [T1 T2].
    assert (N7 : nosp (41 :: rest)) by (apply nosp_cons; [reflexivity | exact Nr]).
    assert (N6 : nosp (44 :: digits req ++ 41 :: rest)) by (apply nosp_cons; [reflexivity | apply nosp_app; assumption]).
    assert (N5 : nosp (93 :: 44 :: digits req ++ 41 :: rest)) by (apply nosp_cons; [reflexivity | exact N6]).
    assert (N3 : nosp (join 44 ks ++ 93 :: 44 :: digits req ++ 41 :: rest)) by (apply nosp_app; assumption).
    assert (N2b : nosp (91 :: join 44 ks ++ 93 :: 44 :: digits req ++ 41 :: rest)) by (apply nosp_cons; [reflexivity | exact N3]).
    assert (N2a : nosp (44 :: 91 :: join 44 ks ++ 93 :: 44 :: digits req ++ 41 :: rest)) by (apply nosp_cons; [reflexivity | exact N2b]).
    assert (N2 : nosp (40 :: digits tl ++ 44 :: 91 :: join 44 ks ++ 93 :: 44 :: digits req ++ 41 :: rest)).
    { apply nosp_cons; [reflexivity|]. apply nosp_app; assumption. }
    rewrite (next_token_ok _ 40 _ T1 T2 eq_refl N2). rewrite consume_ok by exact N2. cbn [tbind]. simpl_tok.
    rewrite (next_token_ok (digits tl) 44 _ Ns Nd eq_refl N2a).
    rewrite parse_uint_ok by lia. cbn [tbind]. rewrite consume_ok by exact N2a. cbn [tbind]. rewrite consume_ok by exact N2b. cbn [tbind].
    rewrite (list_loop_ok key_item keys ks IT (44 :: digits req ++ 41 :: rest) [] _ N6) by (rewrite app_length; lia).
    cbn [tbind fst snd rev app]. rewrite consume_ok by exact N5. cbn [tbind]. rewrite consume_ok by exact N6. cbn [tbind].
    rewrite (next_token_ok (digits req) 41 rest Ns' Nd' eq_refl N7).
    rewrite parse_uint_ok by lia. cbn [tbind fst snd]. rewrite consume_ok by exact N7. reflexivity.
Qed.

Lemma join_length_ge rs : (fold_right (fun r a => length r + a) 0 rs <= length (join 44 rs))%nat.
Proof.
  induction rs as [|r rs IH]; [cbn; lia|]. destruct rs as [|r2 rs']; [cbn; lia|].
  rewrite join_cons2, app_length. cbn [fold_right] in *. change (length (44 :: join 44 (r2 :: rs'))) with (S (length (join 44 (r2 :: rs')))). lia.
Qed.
Lemma psize_le_length n : forall p s, (psize p <= n)%nat -> render p = Some s -> (psize p <= length s)%nat.
Proof.
  induction n as [|n IH]; intros p s Sz R; [destruct p; cbn in Sz; lia|].
  destruct p as [h|t|k|k|m ps|a|tl keys req]; cbn [render] in R.
  1-4,6: (injection R as <-; cbn [psize]; unfold str; cbn [app length]; lia).
  - destruct (all_some (map render ps)) as [rs|] eqn:AS; [|discriminate]. injection R as <-.
    pose proof (all_some_forall2 render ps rs AS) as F2. cbn [psize] in *.
    assert (G : ((fix go (l : list policy) : nat := match l with [] => 0 | q :: r => psize q + go r end) ps
                 <= fold_right (fun r a => length r + a) 0 rs)%nat).
    { clear AS. revert Sz. induction F2 as [|q r qs rs' Hq _ IHF]; intros Sz; [cbn; lia|].
      cbn [fold_right]. pose proof (IH q r ltac:(lia) Hq). specialize (IHF ltac:(lia)). lia. }
    pose proof (join_length_ge rs) as Hj. unfold str. cbn [app length]. repeat (rewrite app_length; cbn [length]).
    match type of G with (?X <= _)%nat => set (xx := X) in * end. clearbody xx. clear - G Hj. lia.
  - destruct (all_some (map render_key keys)) as [ks|]; [|discriminate]. injection R as <-.
    cbn [psize]. unfold str. cbn [app length]. lia.
Qed.

(* ParseSpendPolicy(p.String()) == p for every well-formed policy whose key algorithms print unquoted *)
Theorem policy_text_roundtrip p s : render p = Some s -> wfp p -> parse_spend_policy s = TOk p.
Proof.
  intros R W. unfold parse_spend_policy.
  destruct (parse_render (S (length s)) p s R W) as (P & _ & _).
  - pose proof (psize_le_length (psize p) p s (Nat.le_refl _) R). lia.
  - rewrite <- (app_nil_r s) at 2. rewrite (P [] ltac:(constructor)). reflexivity.
Qed.
