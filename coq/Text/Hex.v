(* Hexadecimal text forms (types/types.go: hex.EncodeToString / unmarshalHex) and the checksummed address string.
   Strings are lists of byte codes. *)
From Coq Require Import List NArith Lia Bool PeanoNat Wf_nat ZifyN ZifyNat ZifyBool.
From Sia Require Import Prim.Tok.
Import ListNotations.
Local Open Scope N_scope.

Definition hexdigit (d : N) : N := if d <? 10 then 48 + d else 87 + d.
Definition hexval (c : N) : option N :=
  if (48 <=? c) && (c <=? 57) then Some (c - 48)
  else if (97 <=? c) && (c <=? 102) then Some (c - 87)
  else if (65 <=? c) && (c <=? 70) then Some (c - 55)
  else None.
Definition lower (c : N) : N := if (65 <=? c) && (c <=? 90) then c + 32 else c.

Definition hex_encode (b : bytes) : bytes := flat_map (fun x => [hexdigit (x / 16); hexdigit (x mod 16)]) b.
Fixpoint hex_decode (s : bytes) : option bytes :=
  match s with
  | [] => Some []
  | [_] => None
  | c1 :: c2 :: r =>
    match hexval c1, hexval c2, hex_decode r with
    | Some h, Some l, Some t => Some (h * 16 + l :: t)
    | _, _, _ => None
    end
  end.

Definition byte_ok (b : bytes) : Prop := Forall (fun x => x < 256) b.

Lemma hexval_digit d : d < 16 -> hexval (hexdigit d) = Some d.
Proof.
  intros L. unfold hexdigit, hexval. destruct (d <? 10) eqn:E.
  - assert (A : (48 <=? 48 + d) && (48 + d <=? 57) = true) by lia. rewrite A. f_equal. lia.
  - assert (A : (48 <=? 87 + d) && (87 + d <=? 57) = false) by lia. rewrite A.
    assert (B : (97 <=? 87 + d) && (87 + d <=? 102) = true) by lia. rewrite B. f_equal. lia.
Qed.
Lemma hexval_lower c v : hexval c = Some v -> hexdigit v = lower c /\ v < 16.
Proof.
  unfold hexval, hexdigit, lower.
  destruct ((48 <=? c) && (c <=? 57)) eqn:A; [intros [= <-]|].
  { assert (c - 48 <? 10 = true) by lia. rewrite H. assert ((65 <=? c) && (c <=? 90) = false) by lia. rewrite H0. lia. }
  destruct ((97 <=? c) && (c <=? 102)) eqn:B; [intros [= <-]|].
  { assert (c - 87 <? 10 = false) by lia. rewrite H. assert ((65 <=? c) && (c <=? 90) = false) by lia. rewrite H0. lia. }
  destruct ((65 <=? c) && (c <=? 70)) eqn:C; [intros [= <-]|discriminate].
  assert (c - 55 <? 10 = false) by lia. rewrite H. assert ((65 <=? c) && (c <=? 90) = true) by lia. rewrite H0. lia.
Qed.

Lemma decode_cons c1 c2 r : hex_decode (c1 :: c2 :: r) =
  match hexval c1, hexval c2, hex_decode r with Some h, Some l, Some t => Some (h * 16 + l :: t) | _, _, _ => None end.
Proof. reflexivity. Qed.

(* decoding the canonical rendering gives the bytes back *)
Theorem hex_roundtrip b : byte_ok b -> hex_decode (hex_encode b) = Some b.
Proof.
  induction 1 as [|x b Hx _ IH]; [reflexivity|].
  cbn [hex_encode flat_map app]. fold (hex_encode b). rewrite decode_cons.
  rewrite !hexval_digit, IH by (try apply N.div_lt_upper_bound; try apply N.mod_lt; lia).
  f_equal. f_equal. pose proof (N.div_mod x 16). lia.
Qed.

(* whatever decodes to b is the canonical rendering of b up to the case of the letters, and has twice its length *)
Theorem hex_decode_canonical : forall s b, hex_decode s = Some b -> map lower s = hex_encode b /\ length s = (2 * length b)%nat /\ byte_ok b.
Proof.
  assert (G : forall n s, (length s <= n)%nat -> forall b, hex_decode s = Some b ->
                map lower s = hex_encode b /\ length s = (2 * length b)%nat /\ byte_ok b).
  { induction n as [|n IH]; intros s Ln b D.
    - destruct s; [|cbn in Ln; lia]. inversion D. repeat split; constructor.
    - destruct s as [|c1 [|c2 r]].
      + inversion D. repeat split; constructor.
      + discriminate D.
      + rewrite decode_cons in D.
        destruct (hexval c1) as [h|] eqn:H1; [|discriminate]. destruct (hexval c2) as [l|] eqn:H2; [|discriminate].
        destruct (hex_decode r) as [t|] eqn:Hr; [|discriminate]. injection D as <-.
        destruct (IH r ltac:(cbn in Ln; lia) t Hr) as (M & L & O).
        destruct (hexval_lower _ _ H1) as [E1 B1]. destruct (hexval_lower _ _ H2) as [E2 B2].
        cbn [map hex_encode flat_map app length]. fold (hex_encode t). rewrite M.
        assert (Q : (h * 16 + l) / 16 = h) by (symmetry; apply (N.div_unique (h * 16 + l) 16 h l); lia).
        assert (R : (h * 16 + l) mod 16 = l) by (symmetry; apply (N.mod_unique (h * 16 + l) 16 h l); lia).
        rewrite Q, R, E1, E2. repeat split; [lia | constructor; [lia | exact O]]. }
  intros s b D. exact (G (length s) s (Nat.le_refl _) b D).
Qed.

(* unmarshalHex into a k-byte identifier: exactly 2k hex characters *)
Definition unmarshal_hex (k : nat) (s : bytes) : option bytes :=
  if (2 * k <? length s)%nat then None
  else match hex_decode s with
       | Some b => if (length b <? k)%nat then None else Some b
       | None => None
       end.
Theorem unmarshal_hex_exact k s b : unmarshal_hex k s = Some b ->
  length b = k /\ length s = (2 * k)%nat /\ map lower s = hex_encode b.
Proof.
  unfold unmarshal_hex. destruct (2 * k <? length s)%nat eqn:A; [discriminate|].
  destruct (hex_decode s) as [b'|] eqn:D; [|discriminate].
  destruct (length b' <? k)%nat eqn:B; [discriminate|]. intros [= <-].
  destruct (hex_decode_canonical _ _ D) as (M & L & _). repeat split; auto; lia.
Qed.
Theorem unmarshal_hex_roundtrip k b : byte_ok b -> length b = k -> unmarshal_hex k (hex_encode b) = Some b.
Proof.
  intros O L. unfold unmarshal_hex. rewrite (hex_roundtrip b O).
  destruct (hex_decode_canonical _ _ (hex_roundtrip b O)) as (_ & Ls & _). rewrite Ls, L.
  assert ((2 * k <? 2 * k)%nat = false) by lia. assert ((k <? k)%nat = false) by lia. rewrite H, H0. reflexivity.
Qed.

(* ---- checksummed address strings ---- *)
Section Address.
Variable H : bytes -> bytes.           (* BLAKE2b-256 *)
Definition checksum (a : bytes) : bytes := firstn 6 (H a).
Definition addr_render (a : bytes) : bytes := hex_encode (a ++ checksum a).
Definition beqb (a b : bytes) : bool := if list_eq_dec N.eq_dec a b then true else false.
Definition addr_parse (s : bytes) : option bytes :=
  if negb (length s =? 76)%nat then None
  else match hex_decode s with
       | Some wc => let a := firstn 32 wc in
                    if beqb (checksum a) (skipn 32 wc) then Some a else None
       | None => None
       end.

Definition H_ok : Prop := forall x, length (H x) = 32%nat /\ byte_ok (H x).
Definition ChecksumCollision : Prop := exists a a', a <> a' /\ checksum a = checksum a'.

Lemma hex_encode_length b : length (hex_encode b) = (2 * length b)%nat.
Proof. induction b as [|x b IH]; cbn [hex_encode flat_map app length]; [reflexivity|]. fold (hex_encode b). lia. Qed.
Lemma byte_ok_firstn n b : byte_ok b -> byte_ok (firstn n b).
Proof. intros O. revert n. induction O as [|x b Hx _ IH]; intros k; destruct k; cbn [firstn]; try constructor; auto. apply IH. Qed.

Theorem addr_roundtrip a : H_ok -> byte_ok a -> length a = 32%nat -> addr_parse (addr_render a) = Some a.
Proof.
  intros HO O L. unfold addr_parse, addr_render.
  destruct (HO a) as [HL HB].
  assert (CL : length (checksum a) = 6%nat) by (unfold checksum; rewrite firstn_length; lia).
  rewrite hex_encode_length, app_length, L, CL. cbn [Nat.eqb negb Nat.mul Nat.add].
  rewrite hex_roundtrip by (apply Forall_app; split; [exact O | apply byte_ok_firstn; exact HB]).
  rewrite firstn_app, L, Nat.sub_diag, firstn_O, app_nil_r, firstn_all2 by lia.
  rewrite skipn_app, L, Nat.sub_diag, skipn_O, skipn_all2 by lia. cbn [app].
  unfold beqb. destruct (list_eq_dec N.eq_dec (checksum a) (checksum a)); [reflexivity | congruence].
Qed.

(* whatever string is accepted for an address is that address's own rendering, up to the case of hex letters *)
Theorem addr_parse_canonical s a : addr_parse s = Some a -> map lower s = addr_render a /\ length a = 32%nat.
Proof.
  unfold addr_parse. destruct (length s =? 76)%nat eqn:L; cbn [negb]; [|discriminate].
  destruct (hex_decode s) as [wc|] eqn:D; [|discriminate].
  unfold beqb. destruct (list_eq_dec N.eq_dec (checksum (firstn 32 wc)) (skipn 32 wc)) as [E|]; [|discriminate].
  intros Q. assert (Qa : firstn 32 wc = a) by congruence. clear Q. subst a. destruct (hex_decode_canonical _ _ D) as (M & Ls & _).
  apply Nat.eqb_eq in L. split.
  - unfold addr_render. rewrite E, firstn_skipn. exact M.
  - rewrite firstn_length. lia.
Qed.

(* two different addresses whose renderings agree on the last 12 characters have colliding checksums *)
Lemma hex_encode_app a b : hex_encode (a ++ b) = hex_encode a ++ hex_encode b.
Proof. unfold hex_encode. apply flat_map_app. Qed.
Lemma hex_encode_inj a b : byte_ok a -> byte_ok b -> hex_encode a = hex_encode b -> a = b.
Proof.
  intros A B E. assert (Some a = Some b) by (rewrite <- (hex_roundtrip a A), <- (hex_roundtrip b B), E; reflexivity). congruence.
Qed.

Lemma lower_hexdigit d : d < 16 -> lower (hexdigit d) = hexdigit d.
Proof.
  intros L. unfold lower, hexdigit. destruct (d <? 10) eqn:E.
  - assert (A : (65 <=? 48 + d) && (48 + d <=? 90) = false) by lia. rewrite A. reflexivity.
  - assert (A : (65 <=? 87 + d) && (87 + d <=? 90) = false) by lia. rewrite A. reflexivity.
Qed.
Lemma lower_canonical b : byte_ok b -> map lower (hex_encode b) = hex_encode b.
Proof.
  induction 1 as [|x b Hx _ IH]; [reflexivity|]. cbn [hex_encode flat_map app map]. fold (hex_encode b). rewrite IH.
  rewrite !lower_hexdigit by (try apply N.div_lt_upper_bound; try apply N.mod_lt; lia). reflexivity.
Qed.

Fixpoint set_at {A} (i : nat) (c : A) (s : list A) : list A :=
  match s with
  | [] => []
  | x :: r => match i with O => c :: r | S i => x :: set_at i c r end
  end.
Lemma firstn_set_at {A} n i (c : A) s : (n <= i)%nat -> firstn n (set_at i c s) = firstn n s.
Proof.
  revert n i. induction s as [|x r IH]; intros n i L; [destruct i; reflexivity|].
  destruct i; [assert (n = 0%nat) by lia; subst; reflexivity|].
  destruct n; [reflexivity|]. cbn [set_at firstn]. rewrite IH by lia. reflexivity.
Qed.
Lemma skipn_set_at {A} n i (c : A) s : (i < n)%nat -> skipn n (set_at i c s) = skipn n s.
Proof.
  revert n i. induction s as [|x r IH]; intros n i L; [destruct i; reflexivity|].
  destruct n; [lia|]. destruct i; [reflexivity|]. cbn [set_at skipn]. apply IH. lia.
Qed.
Lemma set_at_length {A} i (c : A) s : length (set_at i c s) = length s.
Proof. revert i. induction s as [|x r IH]; intros i; [destruct i; reflexivity|]. destruct i; cbn [set_at length]; [reflexivity|]. rewrite IH. reflexivity. Qed.

(* a string that keeps either the address part or the checksum part of an address's rendering is either rejected,
   or accepted as that same address, or exhibits two addresses with the same checksum *)
Theorem addr_altered a s' a' : H_ok -> byte_ok a -> length a = 32%nat ->
  (firstn 64 s' = firstn 64 (addr_render a) \/ skipn 64 s' = skipn 64 (addr_render a)) ->
  addr_parse s' = Some a' -> a' = a \/ ChecksumCollision.
Proof.
  intros HO O L Keep P.
  destruct (list_eq_dec N.eq_dec a' a) as [|Ne]; [left; assumption | right].
  pose proof P as P0. unfold addr_parse in P0.
  destruct (length s' =? 76)%nat eqn:L76; cbn [negb] in P0; [|discriminate].
  destruct (hex_decode s') as [wc|] eqn:D; [|discriminate].
  unfold beqb in P0. destruct (list_eq_dec N.eq_dec (checksum (firstn 32 wc)) (skipn 32 wc)) as [E|]; [|discriminate].
  assert (Ea : firstn 32 wc = a') by congruence. clear P0.
  destruct (hex_decode_canonical _ _ D) as (M & Ls & Ow).
  assert (Oa' : byte_ok a') by (subst a'; apply byte_ok_firstn; exact Ow).
  destruct (addr_parse_canonical _ _ P) as (M' & L').
  destruct (HO a) as [HL HB]. destruct (HO a') as [HL' HB'].
  assert (Oc : byte_ok (checksum a)) by (apply byte_ok_firstn; exact HB).
  assert (Oc' : byte_ok (checksum a')) by (apply byte_ok_firstn; exact HB').
  unfold addr_render in *. rewrite !hex_encode_app in *.
  assert (LA : length (hex_encode a) = 64%nat) by (rewrite hex_encode_length, L; reflexivity).
  assert (LA' : length (hex_encode a') = 64%nat) by (rewrite hex_encode_length, L'; reflexivity).
  exists a', a. split; [exact Ne|].
  destruct Keep as [K|K].
  - (* the address part is untouched: then it is the same address *)
    exfalso. apply Ne. apply hex_encode_inj; auto.
    assert (F : firstn 64 (map lower s') = firstn 64 (hex_encode a' ++ hex_encode (checksum a'))) by (rewrite M'; reflexivity).
    rewrite firstn_map, K in F. rewrite !firstn_app, LA, LA', Nat.sub_diag, !firstn_O, !app_nil_r in F.
    rewrite !firstn_all2 in F by lia. rewrite lower_canonical in F by exact O. symmetry. exact F.
  - (* the checksum part is untouched: equal checksums *)
    apply hex_encode_inj; auto.
    assert (F : skipn 64 (map lower s') = skipn 64 (hex_encode a' ++ hex_encode (checksum a'))) by (rewrite M'; reflexivity).
    rewrite skipn_map, K in F. rewrite !skipn_app, LA, LA', Nat.sub_diag, !skipn_O in F.
    rewrite !skipn_all2 in F by lia. cbn [app] in F. rewrite lower_canonical in F by exact Oc. symmetry. exact F.
Qed.

(* replacing any single character of an address string *)
Corollary addr_single_char a i c a' : H_ok -> byte_ok a -> length a = 32%nat ->
  addr_parse (set_at i c (addr_render a)) = Some a' -> a' = a \/ ChecksumCollision.
Proof.
  intros HO O L P. apply (addr_altered a (set_at i c (addr_render a)) a' HO O L); [|exact P].
  destruct (Nat.le_gt_cases 64 i) as [G|G].
  - left. apply firstn_set_at. exact G.
  - right. apply skipn_set_at. exact G.
Qed.
End Address.
