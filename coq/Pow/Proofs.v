From Coq Require Import ZArith List Bool Lia ZifyBool.
From Sia Require Import Prim.Result Pow.Model.
Import ListNotations.
Open Scope Z_scope.
Ltac Zify.zify_post_hook ::= Z.div_mod_to_equations.

Lemma M256_pos : 0 < M256. Proof. reflexivity. Qed.

Ltac unbind Hadj :=
  repeat match type of Hadj with
  | bind ?r _ = Ok _ => let x := fresh "x" in let E := fresh "E" in destruct r as [x| |] eqn:E; cbn [bind] in Hadj; [|discriminate Hadj|discriminate Hadj]
  end.

Lemma wadd_ok a b r : wadd a b = Ok r -> r = a + b /\ a + b < M256.
Proof. unfold wadd. destruct (Z.leb_spec M256 (a + b)); intros E; inversion E. split; [reflexivity|lia]. Qed.
Lemma wsub_ok a b r : wsub a b = Ok r -> r = a - b /\ b <= a.
Proof. unfold wsub. destruct (Z.ltb_spec a b); intros E; inversion E. split; [reflexivity|lia]. Qed.
Lemma wdiv64_ok a v r : wdiv64 a v = Ok r -> r = a / v /\ v <> 0.
Proof. unfold wdiv64. destruct (Z.eqb_spec v 0); intros E; inversion E. split; [reflexivity|assumption]. Qed.
Lemma inv_ok n r : inv_target n = Ok r -> r = maxT / n /\ n <> 0.
Proof. unfold inv_target. destruct (Z.eqb_spec n 0); intros E; inversion E. split; [reflexivity|assumption]. Qed.

(* final-cut era: |D' - D| <= max(D/250, 1) and D' >= 1 *)
Theorem finalcut_clamp net s ts d' : 0 <= p_difficulty s ->
  adjust_difficulty_finalcut net s ts = Ok d' ->
  Z.abs (d' - p_difficulty s) <= Z.max (p_difficulty s / 250) 1 /\ 1 <= d'.
Proof.
  intros Hd. unfold adjust_difficulty_finalcut. intros Hadj. unbind Hadj.
  apply wdiv64_ok in E3. destruct E3 as [-> _].
  apply wadd_ok in E4. destruct E4 as [-> _].
  apply wsub_ok in E5. destruct E5 as [-> Hle].
  inversion Hadj; subst d'. clear Hadj.
  set (D := p_difficulty s) in *. set (A := Z.max (D / 250) 1) in *.
  assert (1 <= A) by (unfold A; lia).
  lia.
Qed.

(* v2 era: D - D/250 <= D' <= D + D/250 *)
Theorem v2_clamp net s ts d' : 0 <= p_difficulty s ->
  adjust_difficulty_v2 net s ts = Ok d' ->
  p_difficulty s - p_difficulty s / 250 <= d' <= p_difficulty s + p_difficulty s / 250.
Proof.
  intros Hd. unfold adjust_difficulty_v2. intros Hadj. unbind Hadj.
  apply wdiv64_ok in E1. destruct E1 as [-> _].
  apply wsub_ok in E2. destruct E2 as [-> Hle].
  set (D := p_difficulty s) in *.
  destruct (Z.ltb_spec x0 (D - D / 250)).
  - inversion Hadj; subst. lia.
  - unbind Hadj. apply wadd_ok in E1. destruct E1 as [-> _].
    destruct (Z.ltb_spec (D + D / 250) x0); inversion Hadj; subst; lia.
Qed.

Theorem v2_never_zero net s ts d' : 1 <= p_difficulty s -> adjust_difficulty_v2 net s ts = Ok d' -> 1 <= d'.
Proof. intros Hd Hadj. apply v2_clamp in Hadj; lia. Qed.

(* cumulative work strictly increases once v2 rules are active *)
Theorem total_work_increases net s tw d : n_v2_allow net <= child_height s -> 1 <= p_difficulty s ->
  update_total_work net s = Ok (tw, d) -> p_total_work s < tw /\ d = maxT / tw.
Proof.
  intros Hh Hd. unfold update_total_work. destruct (Z.ltb_spec (child_height s) (n_v2_allow net)); [lia|].
  intros Hadj. unbind Hadj. apply wadd_ok in E. destruct E as [-> _]. apply inv_ok in E0. destruct E0 as [-> _].
  inversion Hadj; subst. split; [lia|reflexivity].
Qed.

(* target and difficulty are each other's floored inverse in the direction of the era *)
Theorem inverse_relation net s ts tt d t : adjust_difficulty net s ts tt = Ok (d, t) ->
  (child_height s < n_v2_allow net -> d = maxT / t) /\ (n_v2_allow net <= child_height s -> t = maxT / d).
Proof.
  unfold adjust_difficulty. destruct (Z.ltb_spec (child_height s) (n_v2_allow net)).
  - intros Hadj. unbind Hadj. apply inv_ok in E0. destruct E0 as [-> _]. inversion Hadj; subst. split; [reflexivity|lia].
  - destruct (Z.ltb_spec (child_height s) (n_v2_final net)); intros Hadj; unbind Hadj;
      apply inv_ok in E0; destruct E0 as [-> _]; inversion Hadj; subst; (split; [lia|reflexivity]).
Qed.

(* "sufficiently heavier" is asymmetric *)
Theorem heavier_asymmetric s t : 0 <= p_difficulty s -> 0 <= p_difficulty t ->
  sufficiently_heavier s t = Ok true -> sufficiently_heavier t s = Ok true -> False.
Proof.
  intros Hs Ht. unfold sufficiently_heavier. intros H1 H2. unbind H1. unbind H2.
  apply wdiv64_ok in E, E1. destruct E as [-> _], E1 as [-> _].
  apply wadd_ok in E0, E2. destruct E0 as [-> _], E2 as [-> _].
  inversion H1 as [A]; inversion H2 as [B]. clear H1 H2.
  apply Z.ltb_lt in A, B.
  assert (0 <= p_difficulty t / 5) by (apply Z.div_pos; lia).
  assert (0 <= p_difficulty s / 5) by (apply Z.div_pos; lia). lia.
Qed.

(* Oak era (not at the ASIC reset): the new target stays within x1004/1000 each way *)
Lemma itt_mono a b : a <= b -> int_to_target a <= int_to_target b.
Proof.
  unfold int_to_target, maxT, M256. intros Hadj.
  destruct (Z.leb_spec (2 ^ 256) a); destruct (Z.leb_spec (2 ^ 256) b); lia.
Qed.

Theorem oak_clamp net s ts tt r : 0 <= p_child_target s ->
  n_oak_height net < child_height s -> child_height s <> n_asic_height net ->
  adjust_target net s ts tt = Ok r ->
  int_to_target (p_child_target s * 1000 / 1004) <= r <= int_to_target (p_child_target s * 1004 / 1000).
Proof.
  intros Ht Hh Hn. unfold adjust_target.
  destruct (Z.leb_spec (child_height s) (n_oak_height net)); [lia|].
  destruct (p_oak_target s =? 0); [discriminate|].
  destruct (Z.eqb_spec (child_height s) (n_asic_height net)); [contradiction|].
  unfold mul_target_frac. cbn [Z.eqb bind].
  assert (Hm : int_to_target (p_child_target s * 1000 / 1004) <= int_to_target (p_child_target s * 1004 / 1000)).
  { apply itt_mono. set (T := p_child_target s) in *. lia. }
  match goal with |- Ok (if _ then _ else if _ then _ else ?x) = Ok r -> _ => set (NT := x) end.
  clearbody NT.
  destruct (cmp_work NT (int_to_target (p_child_target s * 1004 / 1000)) <? 0) eqn:C1;
    [|destruct (0 <? cmp_work NT (int_to_target (p_child_target s * 1000 / 1004))) eqn:C2];
    intros E; inversion E; subst r; clear E.
  - clear - Hm. split; [exact Hm|apply Z.le_refl].
  - clear - Hm. split; [apply Z.le_refl|exact Hm].
  - unfold cmp_work in C1, C2.
    destruct (Z.compare_spec (int_to_target (p_child_target s * 1004 / 1000)) NT) as [A|A|A];
    destruct (Z.compare_spec (int_to_target (p_child_target s * 1000 / 1004)) NT) as [B|B|B]; simpl in C1, C2; try discriminate;
    clear - A B Hm; split; try (rewrite <- ?A, <- ?B; first [apply Z.le_refl|exact Hm]); try (apply Z.lt_le_incl; assumption); try (rewrite <- A; apply Z.le_refl); try (rewrite B; apply Z.le_refl).
Qed.


(* int_to_target is min(., maxT) on non-negative values: saturation never moves a target upwards, and a target that
   fits is kept *)
Lemma itt_min x : 0 <= x -> int_to_target x = Z.min x maxT.
Proof. unfold int_to_target, maxT, M256. intros Hx. destruct (Z.leb_spec (2 ^ 256) x); lia. Qed.

(* the clamp itself, with no saturation left in the statement: for every representable target, the next target is
   between t*1000/1004 and t*1004/1000 (and never above the maximum) *)
Theorem oak_clamp_exact net s ts tt r : 0 <= p_child_target s <= maxT ->
  n_oak_height net < child_height s -> child_height s <> n_asic_height net ->
  adjust_target net s ts tt = Ok r ->
  p_child_target s * 1000 / 1004 <= r <= p_child_target s * 1004 / 1000 /\ r <= maxT.
Proof.
  intros [Ht Hm] Hh Hn E. destruct (oak_clamp net s ts tt r Ht Hh Hn E) as [L U].
  set (T := p_child_target s) in *.
  assert (A : 0 <= T * 1000 / 1004) by (apply Z.div_pos; lia).
  assert (B : 0 <= T * 1004 / 1000) by (apply Z.div_pos; lia).
  rewrite (itt_min _ A) in L. rewrite (itt_min _ B) in U.
  assert (C : T * 1000 / 1004 <= T) by (apply Z.div_le_upper_bound; lia).
  lia.
Qed.

(* before the Oak fork: unchanged except every 500 blocks *)
Theorem preoak_unchanged net s ts tt r : child_height s <= n_oak_height net -> child_height s mod 500 <> 0 ->
  adjust_target net s ts tt = Ok r -> r = p_child_target s.
Proof.
  intros Hh Hm. unfold adjust_target. destruct (Z.leb_spec (child_height s) (n_oak_height net)); [|lia].
  destruct (Z.eqb_spec (child_height s mod 500) 0); [contradiction|]. simpl. congruence.
Qed.

(* ... and then by a factor within [0.4, 2.5] *)
Theorem preoak_clamp net s ts tt r : 0 <= p_child_target s ->
  child_height s <= n_oak_height net -> child_height s mod 500 = 0 ->
  adjust_target net s ts tt = Ok r ->
  exists el ex, 0 < ex /\ 0 < el /\ 2 * ex <= 5 * el /\ 2 * el <= 5 * ex /\ r = int_to_target (p_child_target s * el / ex)
  \/ (* degenerate: zero or negative expected time (BlockInterval below one second) *)
     w64 (Z.quot (n_interval net) SEC * w64 (if 1000 >? child_height s then child_height s else 1000)) <= 0.
Proof.
  intros Ht Hh Hm. unfold adjust_target. destruct (Z.leb_spec (child_height s) (n_oak_height net)); [|lia].
  rewrite Hm. cbn [Z.eqb negb].
  set (elapsed := Z.quot (tsub ts tt) SEC).
  set (expected := w64 (Z.quot (n_interval net) SEC * w64 (if 1000 >? child_height s then child_height s else 1000))).
  destruct (Z.leb_spec expected 0) as [Hle|Hpos]; [intros _; exists 0, 0; right; exact Hle|].
  intros E.
  assert (G : exists el ex, 0 < ex /\ 0 < el /\ 2 * ex <= 5 * el /\ 2 * el <= 5 * ex /\ r = int_to_target (p_child_target s * el / ex)).
  { revert E.
    destruct (Z.eqb_spec elapsed 0) as [E0|E0].
    - destruct (Z.ltb_spec 0 expected); [|lia]. unfold mul_target_frac; simpl. intros E; inversion E. exists 10, 25. repeat split; lia.
    - destruct (Z.ltb_spec 0 elapsed).
      + destruct (Z.ltb_spec (5 * elapsed) (2 * expected)).
        * unfold mul_target_frac; simpl. intros E; inversion E. exists 10, 25. repeat split; lia.
        * destruct (Z.ltb_spec (5 * expected) (2 * elapsed)).
          -- unfold mul_target_frac; simpl. intros E; inversion E. exists 25, 10. repeat split; lia.
          -- unfold mul_target_frac. destruct (Z.eqb_spec expected 0); [lia|]. intros E; inversion E.
             exists elapsed, expected. repeat split; lia.
      + destruct (Z.ltb_spec (2 * expected) (5 * elapsed)); [lia|].
        destruct (Z.ltb_spec (2 * elapsed) (5 * expected)); [|lia].
        unfold mul_target_frac; simpl. intros E; inversion E. exists 25, 10. repeat split; lia. }
  destruct G as (el & ex & G). exists el, ex. left. exact G.
Qed.

(* ValidateHeader accepts exactly when the four conditions hold *)
Theorem validate_header_iff net s po ts nonce id m t :
  median_timestamp s = Ok m -> pow_target net s = Ok t -> nonce_factor net s <> 0 ->
  (validate_header net s po ts nonce id = Ok 0 <->
   po = true /\ m <= ts /\ nonce mod nonce_factor net s = 0 /\ id <= t).
Proof.
  intros Hm Ht Hn. unfold validate_header. rewrite Hm, Ht. cbn [bind].
  destruct po; cbn [negb]; [|split; [discriminate|intros (A & _); discriminate]].
  destruct (Z.ltb_spec ts m); [split; [discriminate|intros (_ & A & _); lia]|].
  destruct (Z.eqb_spec (nonce_factor net s) 0); [contradiction|].
  destruct (Z.eqb_spec (nonce mod nonce_factor net s) 0); cbn [negb]; [|split; [discriminate|intros (_ & _ & A & _); contradiction]].
  unfold cmp_work. destruct (Z.compare_spec t id); simpl; split; intros A; try discriminate; try (repeat split; auto; lia);
    destruct A as (_ & _ & _ & A); lia.
Qed.
