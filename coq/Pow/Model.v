(* Proof-of-work state transition: consensus/application.go (Work arithmetic, updateTotalWork,
   updateOak*, adjustTarget, adjustDifficultyV2, adjustDifficultyFinalCut, ApplyHeader) and
   consensus/state.go / validation.go (medianTimestamp, PoWTarget, NonceFactor, ValidateHeader,
   SufficientlyHeavierThan). 256-bit quantities are Z with the Go panics explicit; time.Duration is
   Z nanoseconds with int64 wrap-around ([w64]) written where Go's int64 arithmetic can wrap, and
   Time.Sub saturating; timestamps are Z nanoseconds since the epoch. *)
From Coq Require Import ZArith List Bool.
From Sia Require Import Prim.Result.
Import ListNotations.
Open Scope Z_scope.

Definition M256 : Z := 2 ^ 256.
Definition maxT : Z := M256 - 1.
Definition U64 : Z := 2 ^ 64.
Definition SEC : Z := 1000000000.
Definition w64 (x : Z) : Z := (x + 2 ^ 63) mod U64 - 2 ^ 63.      (* int64 wrap *)
Definition u64 (x : Z) : Z := x mod U64.                           (* uint64(x) *)
Definition sat64 (x : Z) : Z := Z.max (- 2 ^ 63) (Z.min (2 ^ 63 - 1) x).
Definition tsub (a b : Z) : Z := sat64 (a - b).                    (* Time.Sub, nanoseconds *)
Definition R := res unit.

(* Work *)
Definition wadd (a b : Z) : R Z := if M256 <=? a + b then Panic POverflow else Ok (a + b).
Definition wsub (a b : Z) : R Z := if a <? b then Panic PUnderflow else Ok (a - b).
Definition wmul64 (a v : Z) : R Z := if M256 <=? a * v then Panic POverflow else Ok (a * v).
Definition wdiv64 (a v : Z) : R Z := if v =? 0 then Panic PDivZero else Ok (a / v).
Definition inv_target (n : Z) : R Z := if n =? 0 then Panic PDivZero else Ok (maxT / n).
Definition int_to_target (i : Z) : Z := if 2 ^ 256 <=? i then maxT else i.   (* BitLen() > 256 *)
Definition add_target (x y : Z) : R Z := if x + y =? 0 then Panic PDivZero else Ok (int_to_target ((x * y) / (x + y))).
Definition mul_target_frac (x n d : Z) : R Z := if d =? 0 then Panic PDivZero else Ok (int_to_target ((x * n) / d)).

Record network := {
  n_interval : Z;           (* BlockInterval, ns *)
  n_oak_height : Z; n_oak_fix : Z; n_oak_genesis : Z;   (* genesis timestamp ns *)
  n_asic_height : Z; n_asic_oaktime : Z; n_asic_oaktarget : Z; n_asic_nonce : Z;
  n_v2_allow : Z; n_v2_final : Z
}.

Record pstate := {
  p_height : Z;               (* Index.Height as uint64 *)
  p_prev : list Z;            (* PrevTimestamps, 11 entries, most recent first, ns *)
  p_depth : Z; p_child_target : Z; p_oak_target : Z;
  p_total_work : Z; p_difficulty : Z; p_oak_work : Z;
  p_oak_time : Z              (* ns *)
}.

Definition child_height (s : pstate) : Z := u64 (p_height s + 1).

Definition update_total_work (net : network) (s : pstate) : R (Z * Z) :=
  if child_height s <? n_v2_allow net then
    do depth <- add_target (p_depth s) (p_child_target s);
    do w <- inv_target depth; Ok (w, depth)
  else
    do tw <- wadd (p_total_work s) (p_difficulty s);
    do d <- inv_target tw; Ok (tw, d).

Definition update_oak_time (net : network) (s : pstate) (block_ts parent_ts : Z) : Z :=
  if child_height s =? u64 (n_asic_height net - 1) then n_asic_oaktime net
  else
    let prev := if child_height s =? u64 (n_oak_height net - 1)
                then w64 (n_interval net * w64 (child_height s)) else p_oak_time s in
    let decayed := w64 (Z.quot (w64 (Z.quot prev SEC * 995)) 1000 * SEC) in
    w64 (decayed + tsub block_ts parent_ts).

Definition update_oak_target (net : network) (s : pstate) : R Z :=
  if child_height s =? u64 (n_asic_height net - 1) then Ok (n_asic_oaktarget net)
  else do m <- mul_target_frac (p_oak_target s) 1000 995; add_target m (p_child_target s).

Definition update_oak_work (net : network) (s : pstate) : R (Z * Z) :=
  if child_height s <? n_v2_allow net then
    do t <- update_oak_target net s; do w <- inv_target t; Ok (w, t)
  else
    do d <- wdiv64 (p_oak_work s) 200;
    do a <- wsub (p_oak_work s) d;
    do w <- wadd a (p_difficulty s);
    do t <- inv_target w; Ok (w, t).

Definition cmp_work (a b : Z) : Z := (* BlockID.CmpWork: larger ID = less work *)
  match Z.compare b a with Lt => -1 | Eq => 0 | Gt => 1 end.

Definition adjust_target (net : network) (s : pstate) (block_ts target_ts : Z) : R Z :=
  let interval := Z.quot (n_interval net) SEC in
  if child_height s <=? n_oak_height net then
    if negb (child_height s mod 500 =? 0) then Ok (p_child_target s)
    else
      let depth := if 1000 >? child_height s then child_height s else 1000 in
      let elapsed := Z.quot (tsub block_ts target_ts) SEC in
      let expected := w64 (interval * w64 depth) in
      (* float64(expected)/float64(elapsed) against 2.5 and 0.4, as exact rationals *)
      let gt25 := if elapsed =? 0 then 0 <? expected
                  else if 0 <? elapsed then 5 * elapsed <? 2 * expected else 2 * expected <? 5 * elapsed in
      let lt04 := if elapsed =? 0 then expected <? 0
                  else if 0 <? elapsed then 5 * expected <? 2 * elapsed else 2 * elapsed <? 5 * expected in
      let '(ex, el) := if gt25 then (25, 10) else if lt04 then (10, 25) else (expected, elapsed) in
      mul_target_frac (p_child_target s) el ex
  else
    let oak_total := Z.quot (p_oak_time s) SEC in
    let delta :=
      if p_height s <? n_oak_fix net then w64 (w64 (interval * w64 (p_height s)) - oak_total)
      else w64 (w64 (interval * w64 (p_height s)) - w64 (Z.quot (hd 0 (p_prev s)) SEC - Z.quot (n_oak_genesis net) SEC)) in
    let shift := w64 (delta * delta) in
    let shift := if delta <? 0 then w64 (- shift) else shift in
    let shift := w64 (shift * 10) in
    let shift := Z.quot shift (10000 * 10000) in
    let tbt := w64 (interval + shift) in
    let tbt := if tbt <? Z.quot interval 3 then Z.quot interval 3
               else if w64 (interval * 3) <? tbt then w64 (interval * 3) else tbt in
    let oak_total := if oak_total <=? 0 then 1 else oak_total in
    let tbt := if tbt =? 0 then 1 else tbt in
    if p_oak_target s =? 0 then Panic PDivZero else
    let eh := maxT / p_oak_target s in
    let eh := eh / oak_total in
    let eh := eh * tbt in
    let eh := if eh =? 0 then 1 else eh in
    (* big.Int.Div is Euclidean; a negative hashrate (tbt < 0) cannot arise for interval >= 3 s *)
    let new_target := int_to_target (maxT / eh) in
    if child_height s =? n_asic_height net then Ok new_target
    else
      do min_t <- mul_target_frac (p_child_target s) 1004 1000;
      do max_t <- mul_target_frac (p_child_target s) 1000 1004;
      Ok (if cmp_work new_target min_t <? 0 then min_t
          else if 0 <? cmp_work new_target max_t then max_t else new_target).

Definition adjust_difficulty_v2 (net : network) (s : pstate) (block_ts : Z) : R Z :=
  let interval := n_interval net in
  let expected := w64 (interval * w64 (child_height s)) in
  let actual := tsub block_ts (n_oak_genesis net) in
  let delta := w64 (expected - actual) in
  let shift := w64 (w64 (10 * Z.quot delta 10000) * Z.quot delta 10000) in
  let shift := if delta <? 0 then w64 (- shift) else shift in
  let tbt := w64 (interval + shift) in
  let tbt := if tbt <? Z.quot interval 3 then Z.quot interval 3
             else if w64 (interval * 3) <? tbt then w64 (interval * 3) else tbt in
  let oak_time := if p_oak_time s <=? SEC then SEC else p_oak_time s in
  do eh <- wdiv64 (p_oak_work s) (u64 (Z.quot oak_time SEC));
  do nd <- wmul64 eh (u64 (Z.quot tbt SEC));
  do max_adj <- wdiv64 (p_difficulty s) 250;
  do min_d <- wsub (p_difficulty s) max_adj;
  if nd <? min_d then Ok min_d
  else do max_d <- wadd (p_difficulty s) max_adj;
       if max_d <? nd then Ok max_d else Ok nd.

Definition adjust_difficulty_finalcut (net : network) (s : pstate) (block_ts : Z) : R Z :=
  let interval := n_interval net in
  let expected := w64 (interval * w64 (child_height s)) in
  let actual := tsub block_ts (n_oak_genesis net) in
  let shift := Z.quot (w64 (expected - actual)) 1000 in
  let ti := w64 (interval + shift) in
  let ti := Z.min ti (w64 (interval * 3)) in
  let ti := Z.max ti (Z.quot interval 3) in
  do a <- wmul64 (p_oak_work s) (u64 ti);
  do b <- wmul64 1 (u64 (Z.quot (p_oak_time s) 2));
  do c <- wadd a b;
  do nd <- wdiv64 c (u64 (Z.max (p_oak_time s) 1));
  do q <- wdiv64 (p_difficulty s) 250;
  let max_adj := Z.max q 1 in
  do up <- wadd (p_difficulty s) max_adj;
  let nd := Z.min nd up in
  do dn <- wsub (p_difficulty s) max_adj;
  let nd := Z.max nd dn in
  Ok (Z.max nd 1).

Definition adjust_difficulty (net : network) (s : pstate) (block_ts target_ts : Z) : R (Z * Z) :=
  if child_height s <? n_v2_allow net then
    do t <- adjust_target net s block_ts target_ts; do w <- inv_target t; Ok (w, t)
  else if child_height s <? n_v2_final net then
    do d <- adjust_difficulty_v2 net s block_ts; do t <- inv_target d; Ok (d, t)
  else
    do d <- adjust_difficulty_finalcut net s block_ts; do t <- inv_target d; Ok (d, t).

Definition shift_prev (ts : Z) (prev : list Z) : list Z := ts :: removelast prev.

(* ApplyHeader; [genesis] = (bh.ParentID == BlockID{}) *)
Definition apply_header (net : network) (s : pstate) (genesis : bool) (ts target_ts : Z) : R pstate :=
  do next <-
    (if genesis then
       let ot := update_oak_time net s ts ts in
       do ow <- update_oak_work net s;
       Ok {| p_height := 0; p_prev := p_prev s; p_depth := p_depth s; p_child_target := p_child_target s;
             p_oak_target := snd ow; p_total_work := p_total_work s; p_difficulty := p_difficulty s;
             p_oak_work := fst ow; p_oak_time := ot |}
     else
       do tw <- update_total_work net s;
       do dt <- adjust_difficulty net s ts target_ts;
       let ot := update_oak_time net s ts (hd 0 (p_prev s)) in
       do ow <- update_oak_work net s;
       Ok {| p_height := u64 (p_height s + 1); p_prev := p_prev s; p_depth := snd tw; p_child_target := snd dt;
             p_oak_target := snd ow; p_total_work := fst tw; p_difficulty := fst dt;
             p_oak_work := fst ow; p_oak_time := ot |});
  let prev := shift_prev ts (p_prev s) in
  if n_v2_final net <=? p_height next then
    Ok {| p_height := p_height next; p_prev := prev; p_depth := 0; p_child_target := 0; p_oak_target := 0;
          p_total_work := p_total_work next; p_difficulty := p_difficulty next;
          p_oak_work := p_oak_work next; p_oak_time := p_oak_time next |}
  else
    Ok {| p_height := p_height next; p_prev := prev; p_depth := p_depth next; p_child_target := p_child_target next;
          p_oak_target := p_oak_target next; p_total_work := p_total_work next; p_difficulty := p_difficulty next;
          p_oak_work := p_oak_work next; p_oak_time := p_oak_time next |}.

(* medianTimestamp: sort the first numTimestamps entries *)
Fixpoint insert_sorted (x : Z) (l : list Z) : list Z :=
  match l with [] => [x] | y :: r => if x <=? y then x :: l else y :: insert_sorted x r end.
Definition sort (l : list Z) : list Z := fold_right insert_sorted [] l.
Definition num_timestamps (s : pstate) : nat :=
  if child_height s <? 11 then Z.to_nat (child_height s) else 11%nat.
Definition median_timestamp (s : pstate) : R Z :=
  let ts := sort (firstn (num_timestamps s) (p_prev s)) in
  let n := length ts in
  if Nat.eqb n 0 then Panic PIndex          (* ts[len/2-1] with len 0: index out of range *)
  else if Nat.odd n then Ok (nth (n / 2) ts 0)
  else let l := nth (n / 2 - 1) ts 0 in let r := nth (n / 2) ts 0 in Ok (l + Z.quot (tsub r l) 2).

Definition pow_target (net : network) (s : pstate) : R Z :=
  if child_height s <? n_v2_final net then Ok (p_child_target s) else inv_target (p_difficulty s).
Definition nonce_factor (net : network) (s : pstate) : Z :=
  if child_height s <? n_asic_height net then 1 else n_asic_nonce net.

(* ValidateHeader: 0 ok, 1 wrong parent, 2 too far in the past, 3 nonce, 4 insufficient work *)
Definition validate_header (net : network) (s : pstate) (parent_ok : bool) (ts nonce id : Z) : R Z :=
  if negb parent_ok then Ok 1
  else do m <- median_timestamp s;
    if ts <? m then Ok 2
    else if nonce_factor net s =? 0 then Panic PDivZero
    else if negb (nonce mod nonce_factor net s =? 0) then Ok 3
    else do t <- pow_target net s;
      if cmp_work id t <? 0 then Ok 4 else Ok 0.

Definition sufficiently_heavier (s t : pstate) : R bool :=
  do d <- wdiv64 (p_difficulty t) 5; do x <- wadd (p_total_work t) d; Ok (x <? p_total_work s).
