(* ApplyHeader never fails, one step at a time, under explicit physical guards on the state:
   the v2 eras (difficulty arithmetic). *)
From Coq Require Import ZArith List Bool Lia ZifyBool.
From Sia Require Import Prim.Result Pow.Model Pow.Proofs.
Import ListNotations.
Open Scope Z_scope.
Ltac Zify.zify_post_hook ::= Z.div_mod_to_equations.

Lemma wadd_total a b : a + b < M256 -> wadd a b = Ok (a + b).
Proof. intros L. unfold wadd. destruct (Z.leb_spec M256 (a + b)); [lia | reflexivity]. Qed.
Lemma wsub_total a b : b <= a -> wsub a b = Ok (a - b).
Proof. intros L. unfold wsub. destruct (Z.ltb_spec a b); [lia | reflexivity]. Qed.
Lemma wmul64_total a v : a * v < M256 -> wmul64 a v = Ok (a * v).
Proof. intros L. unfold wmul64. destruct (Z.leb_spec M256 (a * v)); [lia | reflexivity]. Qed.
Lemma wdiv64_total a v : v <> 0 -> wdiv64 a v = Ok (a / v).
Proof. intros L. unfold wdiv64. destruct (Z.eqb_spec v 0); [contradiction | reflexivity]. Qed.
Lemma inv_total n : n <> 0 -> inv_target n = Ok (maxT / n).
Proof. intros L. unfold inv_target. destruct (Z.eqb_spec n 0); [contradiction | reflexivity]. Qed.

Lemma w64_range x : - 2 ^ 63 <= w64 x < 2 ^ 63.
Proof. unfold w64, U64. pose proof (Z.mod_pos_bound (x + 2 ^ 63) (2 ^ 64) ltac:(lia)). lia. Qed.
Lemma w64_id x : - 2 ^ 63 <= x < 2 ^ 63 -> w64 x = x.
Proof. intros H. unfold w64, U64. rewrite Z.mod_small; lia. Qed.
Lemma u64_id x : 0 <= x < 2 ^ 64 -> u64 x = x.
Proof. intros H. unfold u64, U64. apply Z.mod_small. lia. Qed.

(* the physical guard of the v2 eras: difficulty at least 1, the three work quantities far below 2^256, the block
   interval between 3 ns and 2^44 ns (4.8 hours), OakTime an int64 *)
Record guard_v2 (net : network) (s : pstate) : Prop := {
  g_diff : 1 <= p_difficulty s < 2 ^ 240;
  g_total : 0 <= p_total_work s < 2 ^ 240;
  g_oakw : 0 <= p_oak_work s < 2 ^ 200;
  g_oakt : - 2 ^ 63 <= p_oak_time s < 2 ^ 63;
  g_int : 3 <= n_interval net < 2 ^ 44;
  g_asic : - 2 ^ 63 <= n_asic_oaktime net < 2 ^ 63      (* a time.Duration *)
}.

Lemma M256_val : M256 = 2 ^ 256. Proof. reflexivity. Qed.

Theorem update_total_work_total net s : n_v2_allow net <= child_height s -> guard_v2 net s ->
  exists tw d, update_total_work net s = Ok (tw, d) /\ tw = p_total_work s + p_difficulty s.
Proof.
  intros Hh [Gd Gt _ _ _ _]. unfold update_total_work. destruct (Z.ltb_spec (child_height s) (n_v2_allow net)); [lia|].
  rewrite wadd_total by (rewrite M256_val; lia). cbn [bind]. rewrite inv_total by lia. cbn [bind]. eauto.
Qed.

Theorem update_oak_work_total net s : n_v2_allow net <= child_height s -> guard_v2 net s ->
  exists w t, update_oak_work net s = Ok (w, t) /\ w = p_oak_work s - p_oak_work s / 200 + p_difficulty s.
Proof.
  intros Hh [Gd _ Go _ _ _]. unfold update_oak_work. destruct (Z.ltb_spec (child_height s) (n_v2_allow net)); [lia|].
  rewrite wdiv64_total by lia. cbn [bind]. rewrite wsub_total by lia. cbn [bind].
  rewrite wadd_total by (rewrite M256_val; lia). cbn [bind]. rewrite inv_total by lia. cbn [bind]. eauto.
Qed.

(* the clamped target block time of both v2 formulas lies in [interval/3, 3*interval] *)
Lemma clamp3 I x : 3 <= I < 2 ^ 44 ->
  let t := if x <? Z.quot I 3 then Z.quot I 3 else if w64 (I * 3) <? x then w64 (I * 3) else x in
  1 <= t <= 3 * I.
Proof.
  intros HI. rewrite (w64_id (I * 3)) by lia. rewrite Z.quot_div_nonneg by lia. cbv zeta.
  destruct (Z.ltb_spec x (I / 3)); [|destruct (Z.ltb_spec (I * 3) x)]; lia.
Qed.

Theorem adjust_v2_total net s ts : guard_v2 net s -> exists d, adjust_difficulty_v2 net s ts = Ok d /\ 1 <= d.
Proof.
  intros G. pose proof G as [Gd _ Go Gt Gi _]. unfold adjust_difficulty_v2.
  set (tbt := if _ <? Z.quot (n_interval net) 3 then _ else _).
  assert (Ht : 1 <= tbt <= 3 * n_interval net) by (apply clamp3; exact Gi).
  set (ot := if p_oak_time s <=? SEC then SEC else p_oak_time s).
  assert (Ho : SEC <= ot < 2 ^ 63) by (unfold ot, SEC in *; destruct (Z.leb_spec (p_oak_time s) 1000000000); lia).
  assert (Q1 : 1 <= Z.quot ot SEC < 2 ^ 63) by (rewrite Z.quot_div_nonneg by (unfold SEC in *; lia); unfold SEC in *; lia).
  assert (Q2 : 0 <= Z.quot tbt SEC < 2 ^ 46) by (rewrite Z.quot_div_nonneg by (unfold SEC in *; lia); unfold SEC in *; lia).
  rewrite (u64_id (Z.quot ot SEC)) by lia. rewrite wdiv64_total by lia. cbn [bind].
  rewrite (u64_id (Z.quot tbt SEC)) by lia.
  assert (E1 : 0 <= p_oak_work s / Z.quot ot SEC <= p_oak_work s) by (split; [apply Z.div_pos; lia | apply Z.div_le_upper_bound; nia]).
  rewrite wmul64_total by (rewrite M256_val; nia). cbn [bind].
  rewrite wdiv64_total by lia. cbn [bind]. rewrite wsub_total by lia. cbn [bind].
  set (nd := p_oak_work s / Z.quot ot SEC * Z.quot tbt SEC). set (D := p_difficulty s) in *.
  destruct (Z.ltb_spec nd (D - D / 250)).
  - eexists. split; [reflexivity | lia].
  - rewrite wadd_total by (rewrite M256_val; lia). cbn [bind].
    destruct (Z.ltb_spec (D + D / 250) nd); eexists; (split; [reflexivity | lia]).
Qed.

Theorem adjust_finalcut_total net s ts : guard_v2 net s -> exists d, adjust_difficulty_finalcut net s ts = Ok d /\ 1 <= d.
Proof.
  intros G. pose proof G as [Gd _ Go Gt Gi _]. unfold adjust_difficulty_finalcut.
  rewrite (w64_id (n_interval net * 3)) by lia. rewrite (Z.quot_div_nonneg (n_interval net) 3) by lia.
  set (ti := Z.max (Z.min _ (n_interval net * 3)) (n_interval net / 3)).
  assert (Ht : 1 <= ti <= 3 * n_interval net) by (unfold ti; lia).
  rewrite (u64_id ti) by lia. rewrite wmul64_total by (rewrite M256_val; nia). cbn [bind].
  assert (Q : 0 <= u64 (Z.quot (p_oak_time s) 2) < 2 ^ 64) by (unfold u64, U64; apply Z.mod_pos_bound; lia).
  rewrite wmul64_total by (rewrite M256_val; lia). cbn [bind].
  rewrite wadd_total by (rewrite M256_val; nia). cbn [bind].
  rewrite (u64_id (Z.max (p_oak_time s) 1)) by lia. rewrite wdiv64_total by lia. cbn [bind].
  rewrite wdiv64_total by lia. cbn [bind]. rewrite wadd_total by (rewrite M256_val; lia). cbn [bind].
  rewrite wsub_total by lia. cbn [bind]. eexists. split; [reflexivity | lia].
Qed.

(* ApplyHeader on a non-genesis header in the v2 eras never fails, and keeps difficulty >= 1, the work counters
   non-negative and cumulative work strictly increasing *)
Theorem apply_header_total_v2 net s ts tt : n_v2_allow net <= child_height s -> guard_v2 net s ->
  exists s', apply_header net s false ts tt = Ok s' /\
    1 <= p_difficulty s' /\ p_total_work s' = p_total_work s + p_difficulty s /\ 0 <= p_oak_work s' /\
    - 2 ^ 63 <= p_oak_time s' < 2 ^ 63.
Proof.
  intros Hh G. unfold apply_header.
  destruct (update_total_work_total net s Hh G) as (tw & dp & E1 & Etw). rewrite E1. cbn [bind].
  assert (AD : exists d t, adjust_difficulty net s ts tt = Ok (d, t) /\ 1 <= d).
  { unfold adjust_difficulty. destruct (Z.ltb_spec (child_height s) (n_v2_allow net)); [lia|].
    destruct (child_height s <? n_v2_final net).
    - destruct (adjust_v2_total net s ts G) as (d & E & D1). rewrite E. cbn [bind]. rewrite inv_total by lia. cbn [bind]. eauto.
    - destruct (adjust_finalcut_total net s ts G) as (d & E & D1). rewrite E. cbn [bind]. rewrite inv_total by lia. cbn [bind]. eauto. }
  destruct AD as (d & t & E2 & D1). rewrite E2. cbn [bind].
  destruct (update_oak_work_total net s Hh G) as (w & t' & E3 & Ew). rewrite E3. cbn [bind fst snd p_height].
  pose proof G as [Gd _ Go _ _ Ga].
  assert (OT : - 2 ^ 63 <= update_oak_time net s ts (hd 0 (p_prev s)) < 2 ^ 63).
  { unfold update_oak_time. destruct (_ =? _); [exact Ga | apply w64_range]. }
  destruct (n_v2_final net <=? u64 (p_height s + 1)); eexists; (split; [reflexivity|]); cbn [p_difficulty p_total_work p_oak_work p_oak_time];
    (split; [exact D1|]); (split; [exact Etw|]); (split; [subst w; lia | exact OT]).
Qed.

(* ---- the target eras (before v2) ---- *)
Record guard_legacy (net : network) (s : pstate) : Prop := {
  l_depth : 2 ^ 64 <= p_depth s <= maxT;
  l_child : 2 ^ 64 <= p_child_target s <= maxT;
  l_oak : 2 ^ 64 <= p_oak_target s <= maxT;
  l_int : SEC <= n_interval net < 2 ^ 44;       (* at least one second *)
  l_height : 1 <= child_height s;               (* not the genesis application *)
  l_asic_target : 1 <= n_asic_oaktarget net;
  l_asic_time : - 2 ^ 63 <= n_asic_oaktime net < 2 ^ 63
}.

Lemma itt_pos x : 1 <= x -> 1 <= int_to_target x.
Proof. intros Hx. unfold int_to_target. destruct (2 ^ 256 <=? x); [unfold maxT, M256; lia | lia]. Qed.
Lemma maxT_val : maxT = 2 ^ 256 - 1. Proof. reflexivity. Qed.

Lemma add_target_total x y : 2 ^ 63 <= x -> 2 ^ 63 <= y -> exists t, add_target x y = Ok t /\ 2 ^ 62 <= t.
Proof.
  intros Hx Hy. unfold add_target. destruct (Z.eqb_spec (x + y) 0); [lia|]. eexists. split; [reflexivity|].
  assert (Q : 2 ^ 62 <= x * y / (x + y)).
  { apply Z.div_le_lower_bound; [lia|]. nia. }
  unfold int_to_target. destruct (2 ^ 256 <=? x * y / (x + y)); [rewrite maxT_val; lia | exact Q].
Qed.
Lemma mul_frac_total x n d : 0 < d -> exists t, mul_target_frac x n d = Ok t /\ t = int_to_target (x * n / d).
Proof. intros Hd. unfold mul_target_frac. destruct (Z.eqb_spec d 0); [lia|]. eauto. Qed.

Theorem update_total_work_legacy net s : child_height s < n_v2_allow net -> guard_legacy net s ->
  exists w d, update_total_work net s = Ok (w, d) /\ 2 ^ 62 <= d.
Proof.
  intros Hh [Gd Gc _ _ _ _ _]. unfold update_total_work. destruct (Z.ltb_spec (child_height s) (n_v2_allow net)); [|lia].
  destruct (add_target_total (p_depth s) (p_child_target s) ltac:(lia) ltac:(lia)) as (t & E & T). rewrite E. cbn [bind].
  rewrite inv_total by lia. cbn [bind]. eauto.
Qed.

Theorem update_oak_work_legacy net s : child_height s < n_v2_allow net -> guard_legacy net s ->
  exists w t, update_oak_work net s = Ok (w, t) /\ 1 <= t.
Proof.
  intros Hh [_ Gc Go _ _ Ga _]. unfold update_oak_work, update_oak_target. destruct (Z.ltb_spec (child_height s) (n_v2_allow net)); [|lia].
  destruct (_ =? _).
  - cbn [bind]. rewrite inv_total by lia. cbn [bind]. eauto.
  - destruct (mul_frac_total (p_oak_target s) 1000 995 ltac:(lia)) as (m & E & M). rewrite E. cbn [bind].
    assert (Hm : 2 ^ 63 <= m).
    { subst m. unfold int_to_target. destruct (2 ^ 256 <=? _); [rewrite maxT_val; lia|]. apply Z.div_le_lower_bound; lia. }
    destruct (add_target_total m (p_child_target s) Hm ltac:(lia)) as (t & E2 & T). rewrite E2. cbn [bind].
    rewrite inv_total by lia. cbn [bind]. exists (maxT / t), t. split; [reflexivity | lia].
Qed.

Theorem adjust_target_total net s ts tt : guard_legacy net s -> exists t, adjust_target net s ts tt = Ok t /\ 1 <= t.
Proof.
  intros [_ Gc Go Gi Gh _ _]. unfold adjust_target.
  assert (SECv : SEC = 1000000000) by reflexivity.
  set (I := Z.quot (n_interval net) SEC).
  assert (HI : 1 <= I < 2 ^ 44) by (unfold I; rewrite Z.quot_div_nonneg by lia; rewrite SECv in *; lia).
  set (ch := child_height s) in *.
  destruct (ch <=? n_oak_height net).
  - (* before the Oak fork *)
    destruct (negb (ch mod 500 =? 0)); [eexists; split; [reflexivity | lia]|].
    set (depth := if 1000 >? ch then ch else 1000).
    assert (Hd : 1 <= depth <= 1000) by (unfold depth; destruct (Z.gtb_spec 1000 ch); lia).
    rewrite (w64_id depth) by lia. rewrite (w64_id (I * depth)) by nia.
    set (ex := I * depth). assert (Hex : 1 <= ex) by (unfold ex; nia).
    generalize (Z.quot (tsub ts tt) SEC) as el. intros el.
    destruct (Z.eqb_spec el 0) as [->|NZ].
    + (* no time elapsed: the ratio is infinite, clamped to 2.5 *)
      destruct (Z.ltb_spec 0 ex); [|lia].
      destruct (mul_frac_total (p_child_target s) 10 25 ltac:(lia)) as (t & E & T). rewrite E. eexists. split; [reflexivity|].
      subst t. apply itt_pos. apply Z.div_le_lower_bound; lia.
    + destruct (Z.ltb_spec 0 el) as [P|N].
      * destruct (Z.ltb_spec (5 * el) (2 * ex)).
        -- destruct (mul_frac_total (p_child_target s) 10 25 ltac:(lia)) as (t & E & T). rewrite E. eexists. split; [reflexivity|].
           subst t. apply itt_pos. apply Z.div_le_lower_bound; lia.
        -- destruct (Z.ltb_spec (5 * ex) (2 * el)).
           ++ destruct (mul_frac_total (p_child_target s) 25 10 ltac:(lia)) as (t & E & T). rewrite E. eexists. split; [reflexivity|].
              subst t. apply itt_pos. apply Z.div_le_lower_bound; lia.
           ++ destruct (mul_frac_total (p_child_target s) el ex ltac:(lia)) as (t & E & T). rewrite E. eexists. split; [reflexivity|].
              subst t. apply itt_pos. apply Z.div_le_lower_bound; [lia|]. nia.
      * destruct (Z.ltb_spec (2 * ex) (5 * el)); [lia|].
        destruct (Z.ltb_spec (2 * el) (5 * ex)); [|lia].
        destruct (mul_frac_total (p_child_target s) 25 10 ltac:(lia)) as (t & E & T). rewrite E. eexists. split; [reflexivity|].
        subst t. apply itt_pos. apply Z.div_le_lower_bound; lia.
  - (* Oak era *)
    cbv zeta. destruct (Z.eqb_spec (p_oak_target s) 0); [lia|].
    destruct (mul_frac_total (p_child_target s) 1004 1000 ltac:(lia)) as (mn & E1 & T1). rewrite E1.
    destruct (mul_frac_total (p_child_target s) 1000 1004 ltac:(lia)) as (mx & E2 & T2). rewrite E2. cbn [bind].
    assert (Hmn : 1 <= mn) by (subst mn; apply itt_pos; apply Z.div_le_lower_bound; lia).
    assert (Hmx : 1 <= mx) by (subst mx; apply itt_pos; apply Z.div_le_lower_bound; lia).
    rewrite (w64_id (I * 3)) by lia. rewrite (Z.quot_div_nonneg I 3) by lia.
    match goal with |- context [int_to_target (maxT / ?e)] => set (eh := e) end.
    assert (Heh : 1 <= eh <= 2 ^ 240).
    { unfold eh. match goal with |- context [if ?x =? 0 then 1 else ?x] => set (e0 := x) end.
      assert (B : 0 <= e0 <= 2 ^ 240).
      { unfold e0.
        match goal with |- context [maxT / p_oak_target s / ?ot * ?tb] => set (otot := ot); set (tbt := tb) end.
        assert (Hot : 1 <= otot) by (unfold otot; match goal with |- context [if ?c then 1 else _] => destruct c eqn:Ec end; lia).
        assert (Htb : 1 <= tbt <= 2 ^ 46).
        { unfold tbt. match goal with |- context [if ?x =? 0 then 1 else ?x] => set (t0 := x) end.
          assert (0 <= t0 <= 2 ^ 46).
          { unfold t0. match goal with |- context [if ?x <? I / 3 then _ else _] => generalize x end. intros x.
            destruct (Z.ltb_spec x (I / 3)); [lia|]. destruct (Z.ltb_spec (I * 3) x); lia. }
          destruct (Z.eqb_spec t0 0); lia. }
        assert (Q1 : 0 <= maxT / p_oak_target s <= 2 ^ 192).
        { split; [apply Z.div_pos; rewrite ?maxT_val; lia|]. apply Z.div_le_upper_bound; [lia|]. rewrite maxT_val. nia. }
        assert (Q2 : 0 <= maxT / p_oak_target s / otot <= 2 ^ 192).
        { split; [apply Z.div_pos; lia|]. apply Z.div_le_upper_bound; [lia|]. nia. }
        nia. }
      destruct (Z.eqb_spec e0 0); lia. }
    clearbody eh.
    assert (Hnew : 1 <= int_to_target (maxT / eh)).
    { apply itt_pos. apply Z.div_le_lower_bound; [lia|]. rewrite maxT_val. lia. }
    destruct (ch =? n_asic_height net); [eexists; split; [reflexivity | exact Hnew]|].
    destruct (_ <? 0); [eexists; split; [reflexivity | exact Hmn]|].
    destruct (0 <? _); eexists; (split; [reflexivity | assumption]).
Qed.

(* ApplyHeader on a non-genesis header before v2 never fails *)
Theorem apply_header_total_legacy net s ts tt : child_height s < n_v2_allow net -> guard_legacy net s ->
  exists s', apply_header net s false ts tt = Ok s'.
Proof.
  intros Hh G. unfold apply_header.
  destruct (update_total_work_legacy net s Hh G) as (w & d & E1 & _). rewrite E1. cbn [bind].
  assert (AD : exists d t, adjust_difficulty net s ts tt = Ok (d, t)).
  { unfold adjust_difficulty. destruct (Z.ltb_spec (child_height s) (n_v2_allow net)); [|lia].
    destruct (adjust_target_total net s ts tt G) as (t & E & T). rewrite E. cbn [bind]. rewrite inv_total by lia. cbn [bind]. eauto. }
  destruct AD as (d' & t & E2). rewrite E2. cbn [bind].
  destruct (update_oak_work_legacy net s Hh G) as (w' & t' & E3 & _). rewrite E3. cbn [bind].
  destruct (_ <=? _); eexists; reflexivity.
Qed.

(* the guards are satisfiable *)
Definition ex_net : network := {| n_interval := 600 * SEC; n_oak_height := 10; n_oak_fix := 20; n_oak_genesis := 0;
  n_asic_height := 30; n_asic_oaktime := 120000 * SEC; n_asic_oaktarget := 2 ^ 200; n_asic_nonce := 1009; n_v2_allow := 100; n_v2_final := 200 |}.
Definition ex_state (h : Z) : pstate := {| p_height := h; p_prev := repeat 0 11; p_depth := 2 ^ 180; p_child_target := 2 ^ 190; p_oak_target := 2 ^ 185;
  p_total_work := 2 ^ 70; p_difficulty := 2 ^ 60; p_oak_work := 2 ^ 68; p_oak_time := 120000 * SEC |}.
Example guard_v2_holds : guard_v2 ex_net (ex_state 150).
Proof. constructor; cbn; unfold SEC; lia. Qed.
Example guard_legacy_holds : guard_legacy ex_net (ex_state 50).
Proof. constructor; cbn; unfold SEC, maxT, M256, child_height, u64, U64; cbn; lia. Qed.
