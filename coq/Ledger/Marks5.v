(* C02: the same for siafund elements -- the diff of a consumed siafund element stays in place. *)
From Coq Require Import ZArith List Bool Lia.
From Sia Require Import Prim.Result Prim.Tok Policy.Model Ledger.Types Ledger.Mid Ledger.Validate Ledger.Apply Ledger.Proofs Ledger.Spends Ledger.Persist.
From Sia Require Import Ledger.Marks1.
Import ListNotations.
Open Scope Z_scope.

Section MarksSF.
Variable kind_of : id -> kind.
Notation WK := (WK kind_of).
Notation entry_id := Marks1.entry_id.
(* the consumed element we follow *)
Variable id0 : id.
Variable lf0 : Z.
Hypothesis K0 : kind_of id0 = KSF.
Definition Tr (m : mid) : Prop :=
  exists k d, elem_idx m id0 = Some k /\ nth_error (m_sfes m) k = Some d /\ d_sf_leaf d = lf0 /\ d_sf_spent d = true.
Definition Good (m : mid) : Prop := WK m /\ (is_spent m id0 = true -> Tr m).

Lemma is_spent_cons m' m i tx : m_spends m' = (i, tx) :: m_spends m -> i <> id0 -> is_spent m' id0 = is_spent m id0.
Proof. intros E Ne. unfold is_spent, spent_in. rewrite E. cbn [assoc]. rewrite beq_false by congruence. reflexivity. Qed.
Lemma is_spent_same m' m : m_spends m' = m_spends m -> is_spent m' id0 = is_spent m id0.
Proof. intros E. unfold is_spent, spent_in. rewrite E. reflexivity. Qed.

(* ---- a record into the siafund slice ---- *)
Lemma rec_sf3 m i k fresh d sp : Good m -> kind_of i = KSF -> slot m i (m_sfes m) = Ok (k, fresh) -> sfe_id (d_sfe d) = i ->
  let m' := with_sfes m (put k fresh d (m_sfes m)) (els m i k fresh) sp in
  WK m' /\ (i <> id0 -> Tr m -> Tr m') /\ (i = id0 -> d_sf_leaf d = lf0 -> d_sf_spent d = true -> Tr m').
Proof.
  intros [W T] Ki Sl Ed m'. destruct (slot_cases _ _ _ _ _ Sl) as [(F & En & Ek)|(F & Es & Lk)].
  - (* fresh slot *)
    assert (PC : (fresh = true /\ k = length (m_sfes m)) \/ (fresh = false /\ (k < length (m_sfes m))%nat)) by (left; auto).
    assert (EI : forall j, elem_idx m' j = if beq j i then Some k else elem_idx m j) by (intros j; apply elem_idx_els; left; exact F).
    split; [|split].
    + intros j kj Ej. rewrite EI in Ej. destruct (beq j i) eqn:B.
      * apply beq_eq in B. subst j. inversion Ej; subst kj. rewrite Ki. unfold entry_id, m'. cbn [m_sfes with_sfes]. rewrite (put_same _ _ _ _ PC). cbn. rewrite Ed. reflexivity.
      * specialize (W j kj Ej). destruct (kind_of j) eqn:Kj; unfold entry_id in *; unfold m'; cbn [m_sces m_sfes m_fces m_v2fces m_aes with_sfes]; try exact W.
        rewrite (put_other _ _ _ _ _ PC); [exact W|]. intros ->. subst k. rewrite (proj2 (nth_error_None _ _) (Nat.le_refl _)) in W. discriminate.
    + intros Ne (k0 & d0 & E0 & N0 & L0 & S0). exists k0, d0. rewrite EI, (beq_false id0 i) by congruence. split; [exact E0|]. split; [|auto].
      unfold m'. cbn [m_sfes with_sfes]. rewrite (put_other _ _ _ _ _ PC); [exact N0|]. intros ->. subst k.
      rewrite (proj2 (nth_error_None _ _) (Nat.le_refl _)) in N0. discriminate.
    + intros -> Ld Sd. exists k, d. rewrite EI, beq_refl. split; [reflexivity|]. split; [|auto]. unfold m'. cbn [m_sfes with_sfes]. apply put_same. exact PC.
  - (* the slot the ID already has *)
    assert (PC : (fresh = true /\ k = length (m_sfes m)) \/ (fresh = false /\ (k < length (m_sfes m))%nat)) by (right; auto).
    assert (EI : forall j, elem_idx m' j = elem_idx m j).
    { intros j. unfold m'. cbn [m_elements with_sfes]. unfold elem_idx at 1. change (assoc j (els m i k fresh) = elem_idx m j).
      rewrite elem_idx_els by (right; exact Es). destruct (beq j i) eqn:B; [apply beq_eq in B; subst; symmetry; exact Es | reflexivity]. }
    pose proof (W i k Es) as Wi. rewrite Ki in Wi. cbn [entry_id] in Wi.
    split; [|split].
    + intros j kj Ej. rewrite EI in Ej. specialize (W j kj Ej). destruct (kind_of j) eqn:Kj; unfold entry_id in *; unfold m'; cbn [m_sces m_sfes m_fces m_v2fces m_aes with_sfes]; try exact W.
      destruct (Nat.eq_dec kj k) as [->|Nk]; [|rewrite (put_other _ _ _ _ _ PC) by exact Nk; exact W].
      rewrite (put_same _ _ _ _ PC). cbn. rewrite Ed. rewrite Wi in W. exact W.
    + intros Ne (k0 & d0 & E0 & N0 & L0 & S0). exists k0, d0. rewrite EI. split; [exact E0|]. split; [|auto].
      unfold m'. cbn [m_sfes with_sfes]. rewrite (put_other _ _ _ _ _ PC); [exact N0|]. intros ->.
      pose proof (W id0 k E0) as W0. rewrite K0 in W0. cbn [entry_id] in W0. rewrite Wi in W0. inversion W0. contradiction.
    + intros -> Ld Sd. exists k, d. rewrite EI. split; [exact Es|]. split; [|auto]. unfold m'. cbn [m_sfes with_sfes]. apply put_same. exact PC.
Qed.

(* ---- a record into the KSC slice ---- *)
Lemma rec_sc_o m i k fresh (d : sced) sp  : Good m -> kind_of i = KSC -> slot m i (m_sces m) = Ok (k, fresh) -> (fun d => sce_id (d_sce d)) d = i ->
  let m' := with_sces m (put k fresh d (m_sces m)) (els m i k fresh) sp  in
  WK m' /\ (Tr m -> Tr m').
Proof.
  intros [W T] Ki Sl Ed m'. assert (Ne0 : i <> id0) by (intros ->; rewrite K0 in Ki; discriminate).
  destruct (slot_cases _ _ _ _ _ Sl) as [(F & En & Ek)|(F & Es & Lk)].
  - assert (PC : (fresh = true /\ k = length (m_sces m)) \/ (fresh = false /\ (k < length (m_sces m))%nat)) by (left; auto).
    assert (EI : forall j, elem_idx m' j = if beq j i then Some k else elem_idx m j) by (intros j; apply elem_idx_els; left; exact F).
    split.
    + intros j kj Ej. rewrite EI in Ej. destruct (beq j i) eqn:B.
      * apply beq_eq in B. subst j. inversion Ej; subst kj. rewrite Ki. unfold entry_id, m'. cbn [m_sces with_sces]. rewrite (put_same _ _ _ _ PC). cbn. rewrite Ed. reflexivity.
      * specialize (W j kj Ej). destruct (kind_of j) eqn:Kj; unfold entry_id in *; unfold m'; cbn [m_sces m_sfes m_fces m_v2fces m_aes with_sces]; try exact W.
        rewrite (put_other _ _ _ _ _ PC); [exact W|]. intros ->. subst k. rewrite (proj2 (nth_error_None _ _) (Nat.le_refl _)) in W. discriminate.
    + intros (k0 & d0 & E0 & N0 & L0 & S0). exists k0, d0. rewrite EI, (beq_false id0 i) by congruence. split; [exact E0|]. split; [exact N0 | auto].
  - assert (PC : (fresh = true /\ k = length (m_sces m)) \/ (fresh = false /\ (k < length (m_sces m))%nat)) by (right; auto).
    assert (EI : forall j, elem_idx m' j = elem_idx m j).
    { intros j. unfold m'. cbn [m_elements with_sces]. unfold elem_idx at 1. change (assoc j (els m i k fresh) = elem_idx m j).
      rewrite elem_idx_els by (right; exact Es). destruct (beq j i) eqn:B; [apply beq_eq in B; subst; symmetry; exact Es | reflexivity]. }
    pose proof (W i k Es) as Wi. rewrite Ki in Wi. cbn [entry_id] in Wi.
    split.
    + intros j kj Ej. rewrite EI in Ej. specialize (W j kj Ej). destruct (kind_of j) eqn:Kj; unfold entry_id in *; unfold m'; cbn [m_sces m_sfes m_fces m_v2fces m_aes with_sces]; try exact W.
      destruct (Nat.eq_dec kj k) as [->|Nk]; [|rewrite (put_other _ _ _ _ _ PC) by exact Nk; exact W].
      rewrite (put_same _ _ _ _ PC). cbn. rewrite Ed. rewrite Wi in W. exact W.
    + intros (k0 & d0 & E0 & N0 & L0 & S0). exists k0, d0. rewrite EI. split; [exact E0|]. split; [exact N0 | auto].
Qed.

(* ---- a record into the KV2 slice ---- *)
Lemma rec_v2_o m i k fresh (d : v2fced) sp pool : Good m -> kind_of i = KV2 -> slot m i (m_v2fces m) = Ok (k, fresh) -> (fun d => v2_id (d_v2 d)) d = i ->
  let m' := with_v2fces m (put k fresh d (m_v2fces m)) (els m i k fresh) sp pool in
  WK m' /\ (Tr m -> Tr m').
Proof.
  intros [W T] Ki Sl Ed m'. assert (Ne0 : i <> id0) by (intros ->; rewrite K0 in Ki; discriminate).
  destruct (slot_cases _ _ _ _ _ Sl) as [(F & En & Ek)|(F & Es & Lk)].
  - assert (PC : (fresh = true /\ k = length (m_v2fces m)) \/ (fresh = false /\ (k < length (m_v2fces m))%nat)) by (left; auto).
    assert (EI : forall j, elem_idx m' j = if beq j i then Some k else elem_idx m j) by (intros j; apply elem_idx_els; left; exact F).
    split.
    + intros j kj Ej. rewrite EI in Ej. destruct (beq j i) eqn:B.
      * apply beq_eq in B. subst j. inversion Ej; subst kj. rewrite Ki. unfold entry_id, m'. cbn [m_v2fces with_v2fces]. rewrite (put_same _ _ _ _ PC). cbn. rewrite Ed. reflexivity.
      * specialize (W j kj Ej). destruct (kind_of j) eqn:Kj; unfold entry_id in *; unfold m'; cbn [m_sces m_sfes m_fces m_v2fces m_aes with_v2fces]; try exact W.
        rewrite (put_other _ _ _ _ _ PC); [exact W|]. intros ->. subst k. rewrite (proj2 (nth_error_None _ _) (Nat.le_refl _)) in W. discriminate.
    + intros (k0 & d0 & E0 & N0 & L0 & S0). exists k0, d0. rewrite EI, (beq_false id0 i) by congruence. split; [exact E0|]. split; [exact N0 | auto].
  - assert (PC : (fresh = true /\ k = length (m_v2fces m)) \/ (fresh = false /\ (k < length (m_v2fces m))%nat)) by (right; auto).
    assert (EI : forall j, elem_idx m' j = elem_idx m j).
    { intros j. unfold m'. cbn [m_elements with_v2fces]. unfold elem_idx at 1. change (assoc j (els m i k fresh) = elem_idx m j).
      rewrite elem_idx_els by (right; exact Es). destruct (beq j i) eqn:B; [apply beq_eq in B; subst; symmetry; exact Es | reflexivity]. }
    pose proof (W i k Es) as Wi. rewrite Ki in Wi. cbn [entry_id] in Wi.
    split.
    + intros j kj Ej. rewrite EI in Ej. specialize (W j kj Ej). destruct (kind_of j) eqn:Kj; unfold entry_id in *; unfold m'; cbn [m_sces m_sfes m_fces m_v2fces m_aes with_v2fces]; try exact W.
      destruct (Nat.eq_dec kj k) as [->|Nk]; [|rewrite (put_other _ _ _ _ _ PC) by exact Nk; exact W].
      rewrite (put_same _ _ _ _ PC). cbn. rewrite Ed. rewrite Wi in W. exact W.
    + intros (k0 & d0 & E0 & N0 & L0 & S0). exists k0, d0. rewrite EI. split; [exact E0|]. split; [exact N0 | auto].
Qed.

End MarksSF.
