(* C10: an accepted block whose IDs name elements of one kind only is applied without error or panic. *)
From Coq Require Import ZArith List Bool Lia.
From Sia Require Import Prim.Result Prim.Tok Policy.Model Ledger.Types Ledger.Mid Ledger.Validate Ledger.Apply Ledger.Proofs Ledger.Spends Ledger.Persist Ledger.VApply Ledger.Marks1.
From Sia Require Import Ledger.Wk1.
Import ListNotations.
Open Scope Z_scope.

Section Wk2.
Variable kind_of : id -> kind.
Notation WK := (Marks1.WK kind_of).

(* ---- every primitive keeps the slot map consistent ---- *)
Lemma spend_sce_wk m e lf tx m' : kind_of (sce_id e) = KSC -> spend_sce m e lf tx = Ok m' -> WK m -> WK m'.
Proof. unfold spend_sce. intros K E W. apply bind_ok in E. destruct E as ([k f] & Sl & E). inversion E; subst m'. apply (wk_sc kind_of m _ k f _ _ W K Sl); reflexivity. Qed.
Lemma create_sce_wk m i o mt m' : kind_of i = KSC -> create_sce m i o mt = Ok m' -> WK m -> WK m'.
Proof. unfold create_sce. intros K E W. apply bind_ok in E. destruct E as ([k f] & Sl & E). inversion E; subst m'. apply (wk_sc kind_of m _ k f _ _ W K Sl); reflexivity. Qed.
Lemma spend_sfe_wk m e lf tx m' : kind_of (sfe_id e) = KSF -> spend_sfe m e lf tx = Ok m' -> WK m -> WK m'.
Proof. unfold spend_sfe. intros K E W. apply bind_ok in E. destruct E as ([k f] & Sl & E). inversion E; subst m'. apply (wk_sf kind_of m _ k f _ _ W K Sl); reflexivity. Qed.
Lemma create_sfe_wk m i v a m' : kind_of i = KSF -> create_sfe m i v a = Ok m' -> WK m -> WK m'.
Proof. unfold create_sfe. intros K E W. apply bind_ok in E. destruct E as ([k f] & Sl & E). inversion E; subst m'. apply (wk_sf kind_of m _ k f _ _ W K Sl); reflexivity. Qed.
Lemma create_fce_wk m i fc tax m' : kind_of i = KFC -> create_fce m i fc tax = Ok m' -> WK m -> WK m'.
Proof.
  unfold create_fce. intros K E W. apply bind_ok in E. destruct E as ([k f] & Sl & E). apply bind_ok in E. destruct E as (pool & _ & E). inversion E; subst m'.
  apply (wk_fc kind_of m _ k f _ _ _ W K Sl); reflexivity.
Qed.
Lemma resolve_fce_wk m e lf valid tx m' : kind_of (fce_id e) = KFC -> resolve_fce m e lf valid tx = Ok m' -> WK m -> WK m'.
Proof.
  unfold resolve_fce. intros K E W. apply bind_ok in E. destruct E as ([k f] & Sl & E). inversion E; subst m'. clear E.
  apply (wk_fc kind_of m (fce_id e) k f _ _ _ W K Sl). cbn.
  destruct (slot_cases _ _ _ _ _ Sl) as [(F & En & Ek)|(F & Es & Lk)].
  - subst k. rewrite nth_overflow by lia. reflexivity.
  - pose proof (W _ _ Es) as Wi. rewrite K in Wi. cbn [Marks1.entry_id] in Wi. destruct (nth_error (m_fces m) k) as [x|] eqn:N; [|discriminate].
    rewrite (nth_error_nth _ _ dummy_fced N). destruct (d_fc_created x || _); [cbn in Wi; congruence | reflexivity].
Qed.
Lemma revise_fce_wk m e lf rev m' : kind_of (fce_id e) = KFC -> revise_fce m e lf rev = Ok m' -> WK m -> WK m'.
Proof.
  unfold revise_fce. intros K E W. apply bind_ok in E. destruct E as ([k f] & Sl & E). inversion E; subst m'. clear E.
  apply (wk_fc kind_of m (fce_id e) k f _ _ _ W K Sl).
  destruct (slot_cases _ _ _ _ _ Sl) as [(F & En & Ek)|(F & Es & Lk)].
  - subst k. rewrite nth_overflow by lia. reflexivity.
  - pose proof (W _ _ Es) as Wi. rewrite K in Wi. cbn [Marks1.entry_id] in Wi. destruct (nth_error (m_fces m) k) as [x|] eqn:N; [|discriminate].
    rewrite (nth_error_nth _ _ dummy_fced N). destruct (d_fc_created x); [cbn in *; congruence|]. destruct (d_fc_rev x); [cbn in *; congruence | reflexivity].
Qed.
Lemma create_v2_wk m i fc m' : kind_of i = KV2 -> create_v2 m i fc = Ok m' -> WK m -> WK m'.
Proof.
  unfold create_v2. intros K E W. apply bind_ok in E. destruct E as ([k f] & Sl & E).
  apply bind_ok in E. destruct E as (tax & _ & E). apply bind_ok in E. destruct E as (pool & _ & E). inversion E; subst m'.
  apply (wk_v2 kind_of m _ k f _ _ _ W K Sl); reflexivity.
Qed.
Lemma resolve_v2_wk m e lf kd tx m' : kind_of (v2_id e) = KV2 -> resolve_v2 m e lf kd tx = Ok m' -> WK m -> WK m'.
Proof.
  unfold resolve_v2. intros K E W. apply bind_ok in E. destruct E as ([k f] & Sl & E).
  destruct (d_v2_created (nth k (m_v2fces m) dummy_v2fced)); [discriminate|]. inversion E; subst m'. apply (wk_v2 kind_of m _ k f _ _ _ W K Sl); reflexivity.
Qed.
Lemma revise_v2_wk m e lf rev m' : kind_of (v2_id e) = KV2 -> revise_v2 m e lf rev = Ok m' -> WK m -> WK m'.
Proof.
  unfold revise_v2. intros K E W. apply bind_ok in E. destruct E as ([k f] & Sl & E). inversion E; subst m'. clear E.
  apply (wk_v2 kind_of m (v2_id e) k f _ _ _ W K Sl).
  destruct (slot_cases _ _ _ _ _ Sl) as [(F & En & Ek)|(F & Es & Lk)].
  - subst k. rewrite nth_overflow by lia. reflexivity.
  - pose proof (W _ _ Es) as Wi. rewrite K in Wi. cbn [Marks1.entry_id] in Wi. destruct (nth_error (m_v2fces m) k) as [x|] eqn:N; [|discriminate].
    rewrite (nth_error_nth _ _ dummy_v2fced N). destruct (d_v2_created x); [cbn in *; congruence|]. destruct (d_v2_rev x); [cbn in *; congruence | reflexivity].
Qed.
Lemma create_att_wk m i : kind_of i = KAT -> WK m -> WK (create_att m i).
Proof.
  intros Ki W j kj Ej. change ((if beq j i then Some (length (m_aes m)) else elem_idx m j) = Some kj) in Ej. destruct (beq j i) eqn:B.
  - apply beq_eq in B. subst j. inversion Ej; subst kj. rewrite Ki. cbn [Marks1.entry_id create_att m_aes]. rewrite nth_error_app2 by lia. rewrite Nat.sub_diag. reflexivity.
  - specialize (W j kj Ej). destruct (kind_of j) eqn:Kj; cbn [Marks1.entry_id create_att m_sces m_sfes m_fces m_v2fces m_aes] in *; try exact W.
    rewrite nth_error_app1; [exact W | apply nth_error_Some; congruence].
Qed.

Lemma fold_wk {A} (P : A -> Prop) (f : mid -> A -> R mid) :
  (forall m x m', P x -> f m x = Ok m' -> WK m -> WK m') -> forall l m m', Forall P l -> fold_r f l m = Ok m' -> WK m -> WK m'.
Proof.
  intros Hf. induction l as [|x r IH]; intros m m' F E I; cbn [fold_r] in E; [inversion E; subst; exact I|].
  inversion F; subst. apply bind_ok in E. destruct E as (m1 & E1 & E). apply (IH m1 m'); [assumption | exact E | eapply Hf; eassumption].
Qed.

(* ---- kinds of the IDs a v2 transaction touches ---- *)
Definition Kinds2 (t : txn2) : Prop :=
  Forall (fun i => kind_of (sce_id (p_val (i2_parent i))) = KSC) (t2_sci t) /\
  Forall (fun x : id * sco => kind_of (fst x) = KSC) (t2_sco t) /\
  Forall (fun i => kind_of (sfe_id (p_val (f2_parent i))) = KSF /\ kind_of (f2_claim_id i) = KSC) (t2_sfi t) /\
  Forall (fun x : id * (Z * bytes) => kind_of (fst x) = KSF) (t2_sfo t) /\
  Forall (fun x : id * fc2 => kind_of (fst x) = KV2) (t2_fc t) /\
  Forall (fun rv => kind_of (v2_id (p_val (r2_parent rv))) = KV2) (t2_rev t) /\
  Forall (fun rs => kind_of (v2_id (p_val (rs_parent rs))) = KV2 /\ kind_of (rs_renter_id rs) = KSC /\ kind_of (rs_host_id rs) = KSC /\
                    (forall rn, rs_res rs = RRenewal rn -> kind_of (rn_new_id rn) = KV2)) (t2_res t) /\
  Forall (fun a => kind_of (at_id a) = KAT) (t2_att t).
Lemma apply_txn2_wk net s m t m' : Kinds2 t -> apply_txn2 net s m t = Ok m' -> WK m -> WK m'.
Proof.
  intros (O1 & O2 & O3 & O4 & O5 & O6 & O7 & O8) E W. unfold Apply.apply_txn2 in E.
  apply bind_ok in E. destruct E as (m1 & E1 & E). apply bind_ok in E. destruct E as (m2 & E2 & E).
  apply bind_ok in E. destruct E as (m3 & E3 & E). apply bind_ok in E. destruct E as (m4 & E4 & E).
  apply bind_ok in E. destruct E as (m5 & E5 & E). apply bind_ok in E. destruct E as (m6 & E6 & E).
  apply bind_ok in E. destruct E as (m7 & E7 & E).
  assert (W1 : WK m1) by (refine (fold_wk _ _ _ _ _ _ O1 E1 W); intros ? ? ? Kx Ex; exact (spend_sce_wk _ _ _ _ _ Kx Ex)).
  assert (W2 : WK m2) by (refine (fold_wk _ _ _ _ _ _ O2 E2 W1); intros ? ? ? Kx Ex; exact (create_sce_wk _ _ _ _ _ Kx Ex)).
  assert (W3 : WK m3).
  { refine (fold_wk _ _ _ _ _ _ O3 E3 W2). intros m0 x m0' (Kp & Kc) Ex W0.
    apply bind_ok in Ex. destruct Ex as (ma & Ea & Ex). apply bind_ok in Ex. destruct Ex as (c & _ & Ex).
    apply (create_sce_wk _ _ _ _ _ Kc Ex). apply (spend_sfe_wk _ _ _ _ _ Kp Ea). exact W0. }
  assert (W4 : WK m4) by (refine (fold_wk _ _ _ _ _ _ O4 E4 W3); intros ? ? ? Kx Ex; exact (create_sfe_wk _ _ _ _ _ Kx Ex)).
  assert (W5 : WK m5) by (refine (fold_wk _ _ _ _ _ _ O5 E5 W4); intros ? ? ? Kx Ex; exact (create_v2_wk _ _ _ _ Kx Ex)).
  assert (W6 : WK m6) by (refine (fold_wk _ _ _ _ _ _ O6 E6 W5); intros ? ? ? Kx Ex; exact (revise_v2_wk _ _ _ _ _ Kx Ex)).
  assert (W7 : WK m7).
  { refine (fold_wk _ _ _ _ _ _ O7 E7 W6). intros m0 rs m0' (Kp & Kr & Kh & Kn) Ex W0. cbv zeta in Ex.
    apply bind_ok in Ex. destruct Ex as (ma & Ea & Ex). apply bind_ok in Ex. destruct Ex as (mb & Eb & Ex).
    assert (Wb : WK mb).
    { destruct (rs_res rs) as [rn| |] eqn:Er; [apply (create_v2_wk _ _ _ _ (Kn rn eq_refl) Eb) | inversion Eb; subst mb | inversion Eb; subst mb]; apply (resolve_v2_wk _ _ _ _ _ _ Kp Ea W0). }
    destruct (match rs_res rs with RRenewal rn => (rn_final_renter rn, rn_final_host rn) | RProof _ => (c_renter (v2_fc (p_val (rs_parent rs))), c_host (v2_fc (p_val (rs_parent rs))))
              | RExpiration => (c_renter (v2_fc (p_val (rs_parent rs))), missed_host_output (v2_fc (p_val (rs_parent rs)))) end) as [renter host].
    apply bind_ok in Ex. destruct Ex as (mc & Ec & Ex). apply (create_sce_wk _ _ _ _ _ Kh Ex). apply (create_sce_wk _ _ _ _ _ Kr Ec). exact Wb. }
  assert (W8 : WK (fold_left (fun m a => create_att m (at_id a)) (t2_att t) m7)).
  { clear E. revert W7 O8. generalize m7. induction (t2_att t) as [|a l IHl]; intros m0 W0 O; cbn [fold_left]; [exact W0|].
    apply IHl; [apply create_att_wk; [exact (Forall_inv O) | exact W0] | exact (Forall_inv_tail O)]. }
  destruct (t2_new_foundation t); inversion E; subst m'; exact W8.
Qed.

(* ---- a v1 transaction: the element a lookup returns carries the ID asked for ---- *)
Lemma sc_element_id m ts i e lf : sc_element m ts i = Some (e, lf) -> sce_id e = i.
Proof.
  unfold sc_element. intros E.
  assert (FB : option_map (fun p : pres sce => (p_val p, p_leaf p)) (find_pres sce_id i (u_sci ts)) = Some (e, lf) -> sce_id e = i).
  { unfold find_pres. destruct (find (fun p => beq (sce_id (p_val p)) i) (u_sci ts)) as [p|] eqn:F; [|discriminate]. cbn. intros Ep. inversion Ep; subst.
    apply find_some in F. apply beq_eq. exact (proj2 F). }
  destruct (elem_idx m i) as [k|]; [|exact (FB E)]. destruct (nth_error (m_sces m) k) as [d|]; [|exact (FB E)].
  destruct (beq (sce_id (d_sce d)) i) eqn:B; [|exact (FB E)]. inversion E; subst. apply beq_eq. exact B.
Qed.
Lemma sf_element_id m ts i e lf : sf_element m ts i = Some (e, lf) -> sfe_id e = i.
Proof.
  unfold sf_element. intros E.
  assert (FB : option_map (fun p : pres sfe => (p_val p, p_leaf p)) (find_pres sfe_id i (u_sfi ts)) = Some (e, lf) -> sfe_id e = i).
  { unfold find_pres. destruct (find (fun p => beq (sfe_id (p_val p)) i) (u_sfi ts)) as [p|] eqn:F; [|discriminate]. cbn. intros Ep. inversion Ep; subst.
    apply find_some in F. apply beq_eq. exact (proj2 F). }
  destruct (elem_idx m i) as [k|]; [|exact (FB E)]. destruct (nth_error (m_sfes m) k) as [d|]; [|exact (FB E)].
  destruct (beq (sfe_id (d_sfe d)) i) eqn:B; [|exact (FB E)]. inversion E; subst. apply beq_eq. exact B.
Qed.
Lemma fc_element_id m ts i e lf : fc_element m ts i = Some (e, lf) -> fce_id e = i.
Proof.
  unfold fc_element. intros E.
  assert (FB : forall e lf,
    match find_pres fce_id i (u_rev ts) with
    | Some p => Some (p_val p, p_leaf p)
    | None => match find (fun s0 => beq (fce_id (p_val (ss_fc s0))) i) (u_sp ts) with Some s0 => Some (p_val (ss_fc s0), p_leaf (ss_fc s0)) | None => None end
    end = Some (e, lf) -> fce_id e = i).
  { intros e1 lf1 F. unfold find_pres in F. destruct (find (fun p => beq (fce_id (p_val p)) i) (u_rev ts)) as [p|] eqn:F1.
    - inversion F; subst. apply find_some in F1. apply beq_eq. exact (proj2 F1).
    - destruct (find (fun s0 => beq (fce_id (p_val (ss_fc s0))) i) (u_sp ts)) as [x|] eqn:F2; [|discriminate].
      inversion F; subst. apply find_some in F2. apply beq_eq. exact (proj2 F2). }
  destruct (elem_idx m i) as [k|]; [|exact (FB e lf E)]. destruct (nth_error (m_fces m) k) as [d|]; [|exact (FB e lf E)].
  destruct (beq (fce_id (d_fce d)) i) eqn:B; [|exact (FB e lf E)]. apply beq_eq in B.
  destruct (d_fc_rev d); injection E as Ee El; rewrite <- Ee; cbn [fce_id]; exact B.
Qed.

Definition Kinds1 (t : txn1) : Prop :=
  Forall (fun i => kind_of (i1_parent i) = KSC) (t1_sci t) /\
  Forall (fun x : id * sco => kind_of (fst x) = KSC) (t1_sco t) /\
  Forall (fun i => kind_of (f1_parent i) = KSF /\ kind_of (f1_claim_id i) = KSC) (t1_sfi t) /\
  Forall (fun x : id * (Z * bytes) => kind_of (fst x) = KSF) (t1_sfo t) /\
  Forall (fun x : id * fc1 * Z => kind_of (fst (fst x)) = KFC) (t1_fc t) /\
  Forall (fun rv => kind_of (r1_parent rv) = KFC) (t1_rev t) /\
  Forall (fun sp => kind_of (s1_parent sp) = KFC /\ Forall (fun i => kind_of i = KSC) (s1_valid_ids sp)) (t1_sp t).

Lemma combine_kinds {B} ids (l : list B) : Forall (fun i => kind_of i = KSC) ids -> Forall (fun io : id * B => kind_of (fst io) = KSC) (combine ids l).
Proof.
  revert l. induction ids as [|i r IH]; intros l F; [constructor|]. destruct l as [|y l]; [constructor|]. cbn [combine].
  constructor; [exact (Forall_inv F) | apply IH; exact (Forall_inv_tail F)].
Qed.

Lemma apply_txn1_wk net s m t ts m' : Kinds1 t -> apply_txn1 net s m t ts = Ok m' -> WK m -> WK m'.
Proof.
  intros (O1 & O2 & O3 & O4 & O5 & O6 & O7) E W. unfold Apply.apply_txn1 in E.
  apply bind_ok in E. destruct E as (m1 & E1 & E). apply bind_ok in E. destruct E as (m2 & E2 & E).
  apply bind_ok in E. destruct E as (m3 & E3 & E). apply bind_ok in E. destruct E as (m4 & E4 & E).
  apply bind_ok in E. destruct E as (m5 & E5 & E). apply bind_ok in E. destruct E as (m6 & E6 & E).
  apply bind_ok in E. destruct E as (m7 & E7 & E).
  assert (W1 : WK m1).
  { refine (fold_wk _ _ _ _ _ _ O1 E1 W). intros m0 x m0' Kx Ex W0.
    destruct (sc_element m0 ts (i1_parent x)) as [[e lf]|] eqn:Se; [|discriminate]. apply (spend_sce_wk _ _ _ _ _ ltac:(rewrite (sc_element_id _ _ _ _ _ Se); exact Kx) Ex W0). }
  assert (W2 : WK m2) by (refine (fold_wk _ _ _ _ _ _ O2 E2 W1); intros ? ? ? Kx Ex; exact (create_sce_wk _ _ _ _ _ Kx Ex)).
  assert (W3 : WK m3).
  { refine (fold_wk _ _ _ _ _ _ O3 E3 W2). intros m0 x m0' (Kp & Kc) Ex W0.
    destruct (sf_element m0 ts (f1_parent x)) as [[e lf]|] eqn:Se; [|discriminate].
    apply bind_ok in Ex. destruct Ex as (c & _ & Ex). apply bind_ok in Ex. destruct Ex as (ma & Ea & Ex).
    apply (create_sce_wk _ _ _ _ _ Kc Ex). apply (spend_sfe_wk _ _ _ _ _ ltac:(rewrite (sf_element_id _ _ _ _ _ Se); exact Kp) Ea W0). }
  assert (W4 : WK m4) by (refine (fold_wk _ _ _ _ _ _ O4 E4 W3); intros ? ? ? Kx Ex; exact (create_sfe_wk _ _ _ _ _ Kx Ex)).
  assert (W5 : WK m5).
  { refine (fold_wk _ _ _ _ _ _ O5 E5 W4). intros m0 [[i fc] tx] m0' Kx Ex. exact (create_fce_wk _ _ _ _ _ Kx Ex). }
  assert (W6 : WK m6).
  { refine (fold_wk _ _ _ _ _ _ O6 E6 W5). intros m0 rv m0' Kx Ex W0.
    destruct (fc_element m0 ts (r1_parent rv)) as [[e lf]|] eqn:Fe; [|discriminate]. apply (revise_fce_wk _ _ _ _ _ ltac:(rewrite (fc_element_id _ _ _ _ _ Fe); exact Kx) Ex W0). }
  assert (W7 : WK m7).
  { refine (fold_wk _ _ _ _ _ _ O7 E7 W6). intros m0 sp m0' (Kx & Kv) Ex W0.
    destruct (fc_element m0 ts (s1_parent sp)) as [[e lf]|] eqn:Fe; [|discriminate].
    apply bind_ok in Ex. destruct Ex as (ma & Ea & Ex).
    refine (fold_wk _ _ _ _ _ _ (combine_kinds _ _ Kv) Ex (resolve_fce_wk _ _ _ _ _ _ ltac:(rewrite (fc_element_id _ _ _ _ _ Fe); exact Kx) Ea W0)).
    intros ? ? ? Ky Ey. exact (create_sce_wk _ _ _ _ _ Ky Ey). }
  destruct (ln_foundation_height net <=? s_height s); inversion E; subst m'; [|exact W7].
  clear E. revert W7. generalize m7. induction (t1_arb t) as [|a l IHl]; intros m0 W0; cbn [fold_left]; [exact W0|]. apply IHl. destruct a; exact W0.
Qed.
Lemma apply_txns1_wk net s : forall ts us m m', Forall Kinds1 ts -> apply_txns1 net s m ts us = Ok m' -> WK m -> WK m'.
Proof.
  induction ts as [|t r IH]; intros us m m' K E W; cbn [apply_txns1] in E; [inversion E; subst; exact W|].
  destruct us as [|u ur]; [discriminate|]. apply bind_ok in E. destruct E as (m1 & E1 & E).
  apply (IH ur m1 m' (Forall_inv_tail K) E). exact (apply_txn1_wk net s m t u m1 (Forall_inv K) E1 W).
Qed.

(* ---- the block ---- *)
Definition KindsB (b : lblock) : Prop :=
  Forall Kinds1 (b_txns b) /\ Forall Kinds2 (b_v2txns b) /\
  Forall (fun p : id * sco => kind_of (fst p) = KSC) (b_payouts b) /\ kind_of (b_foundation_id b) = KSC /\
  Forall (fun pe : pres fce1 * list id => kind_of (fce_id (p_val (fst pe))) = KFC /\ Forall (fun i => kind_of i = KSC) (snd pe)) (b_expiring b).

(* folds of creations never fail under the invariant *)
Lemma create_sce_ok m i o mt : WK m -> kind_of i = KSC -> exists m', create_sce m i o mt = Ok m'.
Proof. intros W K. unfold create_sce. destruct (slot_ok_sc kind_of m i W K) as (k & f & Sl). rewrite Sl. cbn [bind]. eexists. reflexivity. Qed.
Lemma creates_ok {B} (g : B -> id) (o : B -> sco) mt l : forall m, WK m -> Forall (fun x => kind_of (g x) = KSC) l ->
  exists m', fold_r (fun m x => create_sce m (g x) (o x) mt) l m = Ok m' /\ WK m'.
Proof.
  induction l as [|x r IH]; intros m W F; cbn [fold_r]; [eexists; split; [reflexivity | exact W]|].
  destruct (create_sce_ok m (g x) (o x) mt W (Forall_inv F)) as (m1 & E1). rewrite E1. cbn [bind].
  apply IH; [exact (create_sce_wk _ _ _ _ _ (Forall_inv F) E1 W) | exact (Forall_inv_tail F)].
Qed.
Lemma resolve_fce_ok m e lf valid tx : WK m -> kind_of (fce_id e) = KFC -> exists m', resolve_fce m e lf valid tx = Ok m'.
Proof. intros W K. unfold resolve_fce. destruct (slot_ok_fc kind_of m (fce_id e) W K) as (k & f & Sl). rewrite Sl. cbn [bind]. eexists. reflexivity. Qed.

(* an accepted block whose IDs respect the kinds, on a network whose Foundation subsidy is computable, is applied: no error,
   no panic *)
Theorem accepted_block_applies H net vt pt se sd s b : validate_block H net vt pt se sd s b = Ok tt -> KindsB b ->
  (exists o, foundation_subsidy net s = Ok o) -> exists s' m, apply_block net s b = Ok (s', m).
Proof.
  intros V (K1 & K2 & Kp & Kf & Kx) (sub & Es).
  destruct (accepted_transactions_apply H net vt pt se sd s b V) as (m1 & m2 & _ & A1 & _ & A2).
  assert (Sup : (ln_v2_require net <=? child s) && (negb (length (b_supp b) =? 0)%nat || negb (length (b_expiring b) =? 0)%nat) = false).
  { unfold validate_block in V. apply bind_ok in V. destruct V as (? & _ & V). apply bind_ok in V. destruct V as ([] & Vs & _).
    unfold validate_supplement in Vs. destruct ((ln_v2_require net <=? child s) && _); [discriminate | reflexivity]. }
  pose proof (apply_txns1_wk net s _ _ _ _ K1 A1 (wk_new kind_of s)) as W1.
  assert (W2 : WK m2) by (refine (fold_wk _ _ _ _ _ _ K2 A2 W1); intros ? ? ? Kt Ex; exact (apply_txn2_wk net s _ _ _ Kt Ex)).
  destruct (creates_ok (fun p : id * sco => fst p) (fun p => snd p) (maturity_height net s) (b_payouts b) m2 W2 Kp) as (m3 & E3 & W3).
  assert (E4 : exists m4, match sub with Some o => create_sce m3 (b_foundation_id b) o (maturity_height net s) | None => Ok m3 end = Ok m4 /\ WK m4).
  { destruct sub as [o|]; [|eexists; split; [reflexivity | exact W3]]. destruct (create_sce_ok m3 (b_foundation_id b) o (maturity_height net s) W3 Kf) as (m4 & E4).
    exists m4. split; [exact E4 | exact (create_sce_wk _ _ _ _ _ Kf E4 W3)]. }
  destruct E4 as (m4 & E4 & W4).
  assert (E5 : exists m5, fold_r (fun m (pe : pres fce1 * list id) =>
            let '(p, ids) := pe in
            if is_spent m (fce_id (p_val p)) then Ok m
            else do m1 <- resolve_fce m (p_val p) (p_leaf p) false (b_id b);
                 fold_r (fun m io => create_sce m (fst io) (snd io) (maturity_height net s)) (combine ids (fc_missed (fce_fc (p_val p)))) m1)
         (b_expiring b) m4 = Ok m5).
  { clear E4 Sup. revert m4 W4. induction (b_expiring b) as [|[p ids] r IH]; intros m4 W4; cbn [fold_r]; [eexists; reflexivity|].
    destruct (Forall_inv Kx) as [Kc Ki]. cbn [fst snd] in Kc, Ki. cbv beta iota.
    match goal with |- exists m5, (do m' <- ?X; _) = _ => assert (Step : exists mx, X = Ok mx /\ WK mx) end.
    { destruct (is_spent m4 (fce_id (p_val p))); [eexists; split; [reflexivity | exact W4]|].
      destruct (resolve_fce_ok m4 (p_val p) (p_leaf p) false (b_id b) W4 Kc) as (ma & Ea). rewrite Ea. cbn [bind].
      apply (creates_ok (fun io : id * sco => fst io) (fun io => snd io) (maturity_height net s) _ ma (resolve_fce_wk _ _ _ _ _ _ Kc Ea W4)).
      apply combine_kinds. exact Ki. }
    destruct Step as (mx & Ex & Wx). destruct (IH (Forall_inv_tail Kx) mx Wx) as (m5 & E5). exists m5. rewrite Ex. cbn [bind]. exact E5. }
  destruct E5 as (m5 & E5).
  unfold apply_block, mid_apply_block. rewrite Sup, A1. cbn [bind]. rewrite A2. cbn [bind]. rewrite E3. cbn [bind]. rewrite Es. cbn [bind].
  destruct sub as [o|]; [rewrite E4 | injection E4 as E4; subst m4]; cbn [bind]; rewrite E5; cbn [bind]; eexists; eexists; reflexivity.
Qed.
End Wk2.
