(* MidState of consensus/state.go + application.go: the per-lblock bookkeeping, exactly as coded:
   one [elements] map from ID to slice index shared by all element kinds, the [spends] map, and the
   four diff slices. Out-of-range slice accesses are panics. *)
From Coq Require Import ZArith List Bool.
From Sia Require Import Prim.Result Prim.Tok Ledger.Types.
Import ListNotations.
Open Scope Z_scope.

Definition R := res Z.
Definition err {A} (c : Z) : R A := Err c.

(* checked 128-bit currency arithmetic (types.Currency.Add/Sub/Mul64/Div64) on Z *)
Definition cadd (a b : Z) : R Z := if C128 <=? a + b then Panic POverflow else Ok (a + b).
Definition csub (a b : Z) : R Z := if a <? b then Panic PUnderflow else Ok (a - b).
Definition cmul64 (a v : Z) : R Z := if C128 <=? a * v then Panic POverflow else Ok (a * v).
Definition cdiv64 (a v : Z) : R Z := if v =? 0 then Panic PDivZero else Ok (a / v).
Fixpoint csum (l : list Z) (acc : Z) : R Z :=
  match l with [] => Ok acc | x :: r => do a <- cadd acc x; csum r a end.

Record sced := { d_sce : sce; d_sc_leaf : Z; d_sc_created : bool; d_sc_spent : bool }.
Record sfed := { d_sfe : sfe; d_sf_leaf : Z; d_sf_created : bool; d_sf_spent : bool }.
Record fced := { d_fce : fce1; d_fc_leaf : Z; d_fc_created : bool; d_fc_rev : option fc1; d_fc_resolved : bool; d_fc_valid : bool }.
Record v2fced := { d_v2 : fce2; d_v2_leaf : Z; d_v2_created : bool; d_v2_rev : option fc2; d_v2_res : option Z }.

Record mid := { m_elements : list (id * nat); m_spends : list (id * id); m_pool : Z;
                m_fsub : bytes; m_fmgmt : bytes;
                m_sces : list sced; m_sfes : list sfed; m_fces : list fced; m_v2fces : list v2fced; m_aes : list id }.

Definition new_mid (s : lstate) : mid :=
  {| m_elements := []; m_spends := []; m_pool := s_pool s; m_fsub := s_found_subsidy s; m_fmgmt := s_found_mgmt s;
     m_sces := []; m_sfes := []; m_fces := []; m_v2fces := []; m_aes := [] |}.

Fixpoint assoc {A} (k : id) (l : list (id * A)) : option A :=
  match l with [] => None | (k', v) :: r => if beq k k' then Some v else assoc k r end.
Definition elem_idx (m : mid) (i : id) : option nat := assoc i (m_elements m).
Definition spent_in (m : mid) (i : id) : option id := assoc i (m_spends m).
Definition is_spent (m : mid) (i : id) : bool := match spent_in m i with Some _ => true | None => false end.

Fixpoint set_nth {A} (k : nat) (x : A) (l : list A) : list A :=
  match k, l with
  | O, _ :: r => x :: r
  | S k', y :: r => y :: set_nth k' x r
  | _, [] => []
  end.

(* record*Element: reuse the slot the shared map points to, else append *)
Definition with_sces (m : mid) (l : list sced) (el : list (id * nat)) (sp : list (id * id)) : mid :=
  {| m_elements := el; m_spends := sp; m_pool := m_pool m; m_fsub := m_fsub m; m_fmgmt := m_fmgmt m;
     m_sces := l; m_sfes := m_sfes m; m_fces := m_fces m; m_v2fces := m_v2fces m; m_aes := m_aes m |}.
Definition with_sfes (m : mid) (l : list sfed) (el : list (id * nat)) (sp : list (id * id)) : mid :=
  {| m_elements := el; m_spends := sp; m_pool := m_pool m; m_fsub := m_fsub m; m_fmgmt := m_fmgmt m;
     m_sces := m_sces m; m_sfes := l; m_fces := m_fces m; m_v2fces := m_v2fces m; m_aes := m_aes m |}.
Definition with_fces (m : mid) (l : list fced) (el : list (id * nat)) (sp : list (id * id)) (pool : Z) : mid :=
  {| m_elements := el; m_spends := sp; m_pool := pool; m_fsub := m_fsub m; m_fmgmt := m_fmgmt m;
     m_sces := m_sces m; m_sfes := m_sfes m; m_fces := l; m_v2fces := m_v2fces m; m_aes := m_aes m |}.
Definition with_v2fces (m : mid) (l : list v2fced) (el : list (id * nat)) (sp : list (id * id)) (pool : Z) : mid :=
  {| m_elements := el; m_spends := sp; m_pool := pool; m_fsub := m_fsub m; m_fmgmt := m_fmgmt m;
     m_sces := m_sces m; m_sfes := m_sfes m; m_fces := m_fces m; m_v2fces := l; m_aes := m_aes m |}.
Definition with_foundation (m : mid) (sub mg : bytes) : mid :=
  {| m_elements := m_elements m; m_spends := m_spends m; m_pool := m_pool m; m_fsub := sub; m_fmgmt := mg;
     m_sces := m_sces m; m_sfes := m_sfes m; m_fces := m_fces m; m_v2fces := m_v2fces m; m_aes := m_aes m |}.

(* slot to write for [i]: Some existing index (panic if outside the slice) or a fresh one *)
Definition slot {A} (m : mid) (i : id) (l : list A) : R (nat * bool) :=
  match elem_idx m i with
  | Some k => if (k <? length l)%nat then Ok (k, false) else Panic PIndex
  | None => Ok (length l, true)
  end.
Definition put {A} (k : nat) (fresh : bool) (x : A) (l : list A) : list A :=
  if fresh then l ++ [x] else set_nth k x l.
Definition els (m : mid) (i : id) (k : nat) (fresh : bool) : list (id * nat) :=
  if fresh then (i, k) :: m_elements m else m_elements m.

Definition dummy_sced := {| d_sce := {| sce_id := []; sce_out := {| sco_value := 0; sco_addr := [] |}; sce_maturity := 0 |}; d_sc_leaf := 0; d_sc_created := false; d_sc_spent := false |}.
Definition dummy_sfed := {| d_sfe := {| sfe_id := []; sfe_value := 0; sfe_addr := []; sfe_claim := 0 |}; d_sf_leaf := 0; d_sf_created := false; d_sf_spent := false |}.

(* createSiacoinElement / createImmatureSiacoinElement *)
Definition create_sce (m : mid) (i : id) (o : sco) (maturity : Z) : R mid :=
  do kf <- slot m i (m_sces m);
  let '(k, fresh) := kf in
  let old := nth k (m_sces m) dummy_sced in
  let d := {| d_sce := {| sce_id := i; sce_out := o; sce_maturity := maturity |}; d_sc_leaf := UNASSIGNED;
              d_sc_created := true; d_sc_spent := d_sc_spent old |} in
  Ok (with_sces m (put k fresh d (m_sces m)) (els m i k fresh) (m_spends m)).
(* spendSiacoinElement *)
Definition spend_sce (m : mid) (e : sce) (lf : Z) (txid : id) : R mid :=
  do kf <- slot m (sce_id e) (m_sces m);
  let '(k, fresh) := kf in
  let old := nth k (m_sces m) dummy_sced in
  let d := {| d_sce := e; d_sc_leaf := lf; d_sc_created := d_sc_created old; d_sc_spent := true |} in
  Ok (with_sces m (put k fresh d (m_sces m)) (els m (sce_id e) k fresh) ((sce_id e, txid) :: m_spends m)).

Definition create_sfe (m : mid) (i : id) (v : Z) (a : bytes) : R mid :=
  do kf <- slot m i (m_sfes m);
  let '(k, fresh) := kf in
  let old := nth k (m_sfes m) dummy_sfed in
  let d := {| d_sfe := {| sfe_id := i; sfe_value := v; sfe_addr := a; sfe_claim := m_pool m |}; d_sf_leaf := UNASSIGNED;
              d_sf_created := true; d_sf_spent := d_sf_spent old |} in
  Ok (with_sfes m (put k fresh d (m_sfes m)) (els m i k fresh) (m_spends m)).
Definition spend_sfe (m : mid) (e : sfe) (lf : Z) (txid : id) : R mid :=
  do kf <- slot m (sfe_id e) (m_sfes m);
  let '(k, fresh) := kf in
  let old := nth k (m_sfes m) dummy_sfed in
  let d := {| d_sfe := e; d_sf_leaf := lf; d_sf_created := d_sf_created old; d_sf_spent := true |} in
  Ok (with_sfes m (put k fresh d (m_sfes m)) (els m (sfe_id e) k fresh) ((sfe_id e, txid) :: m_spends m)).

Definition empty_fc1 := {| fc_filesize := 0; fc_root := []; fc_wstart := 0; fc_wend := 0; fc_payout := 0; fc_valid := []; fc_missed := []; fc_uh := []; fc_revnum := 0 |}.
Definition dummy_fced := {| d_fce := {| fce_id := []; fce_fc := empty_fc1 |}; d_fc_leaf := 0; d_fc_created := false; d_fc_rev := None; d_fc_resolved := false; d_fc_valid := false |}.

Definition create_fce (m : mid) (i : id) (fc : fc1) (tax : Z) : R mid :=
  do kf <- slot m i (m_fces m);
  let '(k, fresh) := kf in
  let old := nth k (m_fces m) dummy_fced in
  let d := {| d_fce := {| fce_id := i; fce_fc := fc |}; d_fc_leaf := UNASSIGNED; d_fc_created := true;
              d_fc_rev := d_fc_rev old; d_fc_resolved := d_fc_resolved old; d_fc_valid := d_fc_valid old |} in
  do pool <- cadd (m_pool m) tax;
  Ok (with_fces m (put k fresh d (m_fces m)) (els m i k fresh) (m_spends m) pool).

Definition with_payout (fc : fc1) (p : Z) : fc1 :=
  {| fc_filesize := fc_filesize fc; fc_root := fc_root fc; fc_wstart := fc_wstart fc; fc_wend := fc_wend fc; fc_payout := p;
     fc_valid := fc_valid fc; fc_missed := fc_missed fc; fc_uh := fc_uh fc; fc_revnum := fc_revnum fc |}.

(* reviseFileContractElement *)
Definition revise_fce (m : mid) (e : fce1) (lf : Z) (rev : fc1) : R mid :=
  let rev := with_payout rev (fc_payout (fce_fc e)) in
  do kf <- slot m (fce_id e) (m_fces m);
  let '(k, fresh) := kf in
  let old := nth k (m_fces m) dummy_fced in
  let d :=
    if d_fc_created old then
      {| d_fce := {| fce_id := fce_id (d_fce old); fce_fc := rev |}; d_fc_leaf := d_fc_leaf old; d_fc_created := true;
         d_fc_rev := d_fc_rev old; d_fc_resolved := d_fc_resolved old; d_fc_valid := d_fc_valid old |}
    else match d_fc_rev old with
    | Some _ => {| d_fce := d_fce old; d_fc_leaf := d_fc_leaf old; d_fc_created := false; d_fc_rev := Some rev;
                   d_fc_resolved := d_fc_resolved old; d_fc_valid := d_fc_valid old |}
    | None => {| d_fce := e; d_fc_leaf := lf; d_fc_created := false; d_fc_rev := Some rev;
                 d_fc_resolved := d_fc_resolved old; d_fc_valid := d_fc_valid old |}
    end in
  Ok (with_fces m (put k fresh d (m_fces m)) (els m (fce_id e) k fresh) (m_spends m) (m_pool m)).

(* resolveFileContractElement *)
Definition resolve_fce (m : mid) (e : fce1) (lf : Z) (valid : bool) (txid : id) : R mid :=
  do kf <- slot m (fce_id e) (m_fces m);
  let '(k, fresh) := kf in
  let old := nth k (m_fces m) dummy_fced in
  let keep := d_fc_created old || match d_fc_rev old with Some _ => true | None => false end in
  let d := {| d_fce := if keep then d_fce old else e; d_fc_leaf := if keep then d_fc_leaf old else lf;
              d_fc_created := d_fc_created old; d_fc_rev := d_fc_rev old; d_fc_resolved := true; d_fc_valid := valid |} in
  Ok (with_fces m (put k fresh d (m_fces m)) (els m (fce_id e) k fresh) ((fce_id e, txid) :: m_spends m) (m_pool m)).

Definition dummy_sco := {| sco_value := 0; sco_addr := [] |}.
Definition empty_fc2 := {| c_capacity := 0; c_filesize := 0; c_root := []; c_proof_height := 0; c_exp_height := 0;
  c_renter := dummy_sco; c_host := dummy_sco; c_missed_host := 0; c_collateral := 0; c_renter_key := []; c_host_key := [];
  c_revnum := 0; c_renter_sig := []; c_host_sig := []; c_sighash := []; c_tax := 0 |}.
Definition dummy_v2fced := {| d_v2 := {| v2_id := []; v2_fc := empty_fc2 |}; d_v2_leaf := 0; d_v2_created := false; d_v2_rev := None; d_v2_res := None |}.

Definition v2_tax (fc : fc2) : R Z := do s <- cadd (sco_value (c_renter fc)) (sco_value (c_host fc)); cdiv64 s 25.

Definition create_v2 (m : mid) (i : id) (fc : fc2) : R mid :=
  do kf <- slot m i (m_v2fces m);
  let '(k, fresh) := kf in
  let old := nth k (m_v2fces m) dummy_v2fced in
  let d := {| d_v2 := {| v2_id := i; v2_fc := fc |}; d_v2_leaf := UNASSIGNED; d_v2_created := true;
              d_v2_rev := d_v2_rev old; d_v2_res := d_v2_res old |} in
  do tax <- v2_tax fc;
  do pool <- cadd (m_pool m) tax;
  Ok (with_v2fces m (put k fresh d (m_v2fces m)) (els m i k fresh) (m_spends m) pool).

Definition revise_v2 (m : mid) (e : fce2) (lf : Z) (rev : fc2) : R mid :=
  do kf <- slot m (v2_id e) (m_v2fces m);
  let '(k, fresh) := kf in
  let old := nth k (m_v2fces m) dummy_v2fced in
  let d :=
    if d_v2_created old then
      {| d_v2 := {| v2_id := v2_id (d_v2 old); v2_fc := rev |}; d_v2_leaf := d_v2_leaf old; d_v2_created := true;
         d_v2_rev := d_v2_rev old; d_v2_res := d_v2_res old |}
    else match d_v2_rev old with
    | Some _ => {| d_v2 := d_v2 old; d_v2_leaf := d_v2_leaf old; d_v2_created := false; d_v2_rev := Some rev; d_v2_res := d_v2_res old |}
    | None => {| d_v2 := e; d_v2_leaf := lf; d_v2_created := false; d_v2_rev := Some rev; d_v2_res := d_v2_res old |}
    end in
  Ok (with_v2fces m (put k fresh d (m_v2fces m)) (els m (v2_id e) k fresh) (m_spends m) (m_pool m)).

Definition resolve_v2 (m : mid) (e : fce2) (lf : Z) (kind : Z) (txid : id) : R mid :=
  do kf <- slot m (v2_id e) (m_v2fces m);
  let '(k, fresh) := kf in
  let old := nth k (m_v2fces m) dummy_v2fced in
  if d_v2_created old then Panic PMissing     (* "resolved a newly-created v2 contract" *)
  else
  let d := {| d_v2 := e; d_v2_leaf := lf; d_v2_created := false; d_v2_rev := d_v2_rev old; d_v2_res := Some kind |} in
  Ok (with_v2fces m (put k fresh d (m_v2fces m)) (els m (v2_id e) k fresh) ((v2_id e, txid) :: m_spends m) (m_pool m)).

Definition create_att (m : mid) (i : id) : mid :=
  {| m_elements := (i, length (m_aes m)) :: m_elements m; m_spends := m_spends m; m_pool := m_pool m; m_fsub := m_fsub m; m_fmgmt := m_fmgmt m;
     m_sces := m_sces m; m_sfes := m_sfes m; m_fces := m_fces m; m_v2fces := m_v2fces m; m_aes := m_aes m ++ [i] |}.

(* ---- v1 lookups (MidState.siacoinElement etc., with the kind/ID check) ---- *)
Definition find_pres {A} (f : A -> id) (i : id) (l : list (pres A)) : option (pres A) :=
  find (fun p => beq (f (p_val p)) i) l.

Definition sc_element (m : mid) (ts : supp1) (i : id) : option (sce * Z) :=
  match elem_idx m i with
  | Some k => match nth_error (m_sces m) k with
              | Some d => if beq (sce_id (d_sce d)) i then Some (d_sce d, d_sc_leaf d) else
                          option_map (fun p => (p_val p, p_leaf p)) (find_pres sce_id i (u_sci ts))
              | None => option_map (fun p => (p_val p, p_leaf p)) (find_pres sce_id i (u_sci ts))
              end
  | None => option_map (fun p => (p_val p, p_leaf p)) (find_pres sce_id i (u_sci ts))
  end.
Definition sf_element (m : mid) (ts : supp1) (i : id) : option (sfe * Z) :=
  let fallback := option_map (fun p => (p_val p, p_leaf p)) (find_pres sfe_id i (u_sfi ts)) in
  match elem_idx m i with
  | Some k => match nth_error (m_sfes m) k with
              | Some d => if beq (sfe_id (d_sfe d)) i then Some (d_sfe d, d_sf_leaf d) else fallback
              | None => fallback
              end
  | None => fallback
  end.
Definition fc_element (m : mid) (ts : supp1) (i : id) : option (fce1 * Z) :=
  let fallback :=
    match find_pres fce_id i (u_rev ts) with
    | Some p => Some (p_val p, p_leaf p)
    | None => match find (fun s => beq (fce_id (p_val (ss_fc s))) i) (u_sp ts) with
              | Some s => Some (p_val (ss_fc s), p_leaf (ss_fc s))
              | None => None
              end
    end in
  match elem_idx m i with
  | Some k => match nth_error (m_fces m) k with
              | Some d => if beq (fce_id (d_fce d)) i then
                            match d_fc_rev d with
                            | Some r => Some ({| fce_id := fce_id (d_fce d); fce_fc := r |}, d_fc_leaf d)
                            | None => Some (d_fce d, d_fc_leaf d)
                            end
                          else fallback
              | None => fallback
              end
  | None => fallback
  end.
Definition sp_window_id (m : mid) (ts : supp1) (s : lstate) (i : id) : option id :=
  let fallback := option_map ss_window (find (fun x => beq (fce_id (p_val (ss_fc x))) i) (u_sp ts)) in
  match elem_idx m i with
  | Some k => match nth_error (m_fces m) k with
              | Some d => if beq (fce_id (d_fce d)) i && (fc_wstart (fce_fc (d_fce d)) =? (s_height s + 1) mod 2 ^ 64)
                          then Some (s_index_id s) else fallback
              | None => fallback
              end
  | None => fallback
  end.
