(* C02: resolved v2 contracts (primitives and one transaction). *)
From Coq Require Import ZArith List Bool Lia.
From Sia Require Import Prim.Result Prim.Tok Policy.Model Ledger.Types Ledger.Mid Ledger.Validate Ledger.Apply Ledger.Proofs Ledger.Spends Ledger.Persist.
From Sia Require Import Ledger.Marks1 Ledger.Marks2 Ledger.Marks8.
Import ListNotations.
Open Scope Z_scope.

Section Marks9.
Variable kind_of : id -> kind.
Variable id0 : id.
Variable lf0 : Z.
Hypothesis K0 : kind_of id0 = KV2.
Notation Good := (Marks8.Good kind_of id0 lf0).
Notation Tr := (Marks8.Tr id0 lf0).
Notation U := (Marks8.U kind_of).
Definition G (m : mid) : Prop := Good m /\ U m.

Lemma kind_ne i k : kind_of i = k -> k <> KV2 -> i <> id0.
Proof. intros Ki Nk ->. rewrite K0 in Ki. congruence. Qed.

Lemma spend_sce_g m e lf tx m' : kind_of (sce_id e) = KSC -> spend_sce m e lf tx = Ok m' -> G m -> G m'.
Proof.
  unfold spend_sce. intros Ke E [Gm Um]. apply bind_ok in E. destruct E as ([k fresh] & Sl & E). inversion E; subst m'. clear E.
  destruct (rec_sc_o kind_of id0 lf0 K0 m (sce_id e) k fresh
              {| d_sce := e; d_sc_leaf := lf; d_sc_created := d_sc_created (nth k (m_sces m) dummy_sced); d_sc_spent := true |}
              ((sce_id e, tx) :: m_spends m) Gm Ke Sl eq_refl) as (W' & T1).
  split; [|apply u_other_sc; [exact Um | exact Ke | exact (slot_hc _ _ _ _ _ Sl)]].
  split; [exact W'|]. intros Sp. apply T1. destruct Gm as [_ T]. apply T. rewrite <- Sp. symmetry.
  apply (Marks8.is_spent_cons id0 _ m (sce_id e) tx); [reflexivity | apply (kind_ne _ _ Ke); discriminate].
Qed.
Lemma create_sce_g m i o mt m' : kind_of i = KSC -> create_sce m i o mt = Ok m' -> G m -> G m'.
Proof.
  unfold create_sce. intros Ki E [Gm Um]. apply bind_ok in E. destruct E as ([k fresh] & Sl & E). inversion E; subst m'. clear E.
  destruct (rec_sc_o kind_of id0 lf0 K0 m i k fresh
              {| d_sce := {| sce_id := i; sce_out := o; sce_maturity := mt |}; d_sc_leaf := UNASSIGNED; d_sc_created := true; d_sc_spent := d_sc_spent (nth k (m_sces m) dummy_sced) |}
              (m_spends m) Gm Ki Sl eq_refl) as (W' & T1).
  split; [|apply u_other_sc; [exact Um | exact Ki | exact (slot_hc _ _ _ _ _ Sl)]].
  split; [exact W'|]. intros Sp. apply T1. destruct Gm as [_ T]. apply T. rewrite <- Sp. symmetry. apply Marks8.is_spent_same. reflexivity.
Qed.
Lemma spend_sfe_g m e lf tx m' : kind_of (sfe_id e) = KSF -> spend_sfe m e lf tx = Ok m' -> G m -> G m'.
Proof.
  unfold spend_sfe. intros Ke E [Gm Um]. apply bind_ok in E. destruct E as ([k fresh] & Sl & E). inversion E; subst m'. clear E.
  destruct (rec_sf_o kind_of id0 lf0 K0 m (sfe_id e) k fresh
              {| d_sfe := e; d_sf_leaf := lf; d_sf_created := d_sf_created (nth k (m_sfes m) dummy_sfed); d_sf_spent := true |}
              ((sfe_id e, tx) :: m_spends m) Gm Ke Sl eq_refl) as (W' & T1).
  split; [|apply u_other_sf; [exact Um | exact Ke | exact (slot_hc _ _ _ _ _ Sl)]].
  split; [exact W'|]. intros Sp. apply T1. destruct Gm as [_ T]. apply T. rewrite <- Sp. symmetry.
  apply (Marks8.is_spent_cons id0 _ m (sfe_id e) tx); [reflexivity | apply (kind_ne _ _ Ke); discriminate].
Qed.
Lemma create_sfe_g m i v a m' : kind_of i = KSF -> create_sfe m i v a = Ok m' -> G m -> G m'.
Proof.
  unfold create_sfe. intros Ki E [Gm Um]. apply bind_ok in E. destruct E as ([k fresh] & Sl & E). inversion E; subst m'. clear E.
  destruct (rec_sf_o kind_of id0 lf0 K0 m i k fresh
              {| d_sfe := {| sfe_id := i; sfe_value := v; sfe_addr := a; sfe_claim := m_pool m |}; d_sf_leaf := UNASSIGNED; d_sf_created := true; d_sf_spent := d_sf_spent (nth k (m_sfes m) dummy_sfed) |}
              (m_spends m) Gm Ki Sl eq_refl) as (W' & T1).
  split; [|apply u_other_sf; [exact Um | exact Ki | exact (slot_hc _ _ _ _ _ Sl)]].
  split; [exact W'|]. intros Sp. apply T1. destruct Gm as [_ T]. apply T. rewrite <- Sp. symmetry. apply Marks8.is_spent_same. reflexivity.
Qed.
Lemma create_v2_g m i fc m' : kind_of i = KV2 -> i <> id0 -> create_v2 m i fc = Ok m' -> G m -> G m'.
Proof.
  unfold create_v2. intros Ki Ne E [Gm Um]. apply bind_ok in E. destruct E as ([k fresh] & Sl & E).
  apply bind_ok in E. destruct E as (tax & _ & E). apply bind_ok in E. destruct E as (pool & _ & E). inversion E; subst m'. clear E.
  set (dd := {| d_v2 := {| v2_id := i; v2_fc := fc |}; d_v2_leaf := UNASSIGNED; d_v2_created := true; d_v2_rev := d_v2_rev (nth k (m_v2fces m) dummy_v2fced); d_v2_res := d_v2_res (nth k (m_v2fces m) dummy_v2fced) |}).
  destruct (rec_v23 kind_of id0 lf0 K0 m i k fresh dd (m_spends m) pool Gm Ki Sl eq_refl) as (W' & T1 & _).
  split; [|apply (u_v2 kind_of m i k fresh dd _ _ Um Ki Sl eq_refl)].
  split; [exact W'|]. intros Sp. apply T1; [exact Ne|]. destruct Gm as [_ T]. apply T. rewrite <- Sp. symmetry. apply Marks8.is_spent_same. reflexivity.
Qed.
Lemma resolve_v2_g m e lf kd tx m' : kind_of (v2_id e) = KV2 -> (v2_id e = id0 -> lf = lf0) -> resolve_v2 m e lf kd tx = Ok m' -> G m -> G m'.
Proof.
  unfold resolve_v2. intros Ke El E [Gm Um]. apply bind_ok in E. destruct E as ([k fresh] & Sl & E).
  destruct (d_v2_created (nth k (m_v2fces m) dummy_v2fced)); [discriminate|]. inversion E; subst m'. clear E.
  set (dd := {| d_v2 := e; d_v2_leaf := lf; d_v2_created := false; d_v2_rev := d_v2_rev (nth k (m_v2fces m) dummy_v2fced); d_v2_res := Some kd |}).
  destruct (rec_v23 kind_of id0 lf0 K0 m (v2_id e) k fresh dd ((v2_id e, tx) :: m_spends m) (m_pool m) Gm Ke Sl eq_refl) as (W' & T1 & T2).
  split; [|apply (u_v2 kind_of m (v2_id e) k fresh dd _ _ Um Ke Sl eq_refl)].
  split; [exact W'|]. intros Sp. destruct (list_eq_dec N.eq_dec (v2_id e) id0) as [Eq|Ne].
  - apply T2; [exact Eq | apply El; exact Eq | discriminate].
  - apply T1; [exact Ne|]. destruct Gm as [_ T]. apply T. rewrite <- Sp. symmetry. apply (Marks8.is_spent_cons id0 _ m (v2_id e) tx); [reflexivity | exact Ne].
Qed.
Lemma revise_v2_g m e lf rev m' : kind_of (v2_id e) = KV2 -> (v2_id e = id0 -> lf = lf0) -> revise_v2 m e lf rev = Ok m' -> G m -> G m'.
Proof.
  unfold revise_v2. intros Ke El E [Gm Um]. apply bind_ok in E. destruct E as ([k fresh] & Sl & E). inversion E; subst m'. clear E.
  set (old := nth k (m_v2fces m) dummy_v2fced) in *.
  match goal with |- G (with_v2fces _ (put _ _ ?d _) _ _ _) => set (dd := d) end.
  assert (Ed : v2_id (d_v2 dd) = v2_id e).
  { destruct (slot_cases _ _ _ _ _ Sl) as [(F & En & Ek)|(F & Es & Lk)].
    - unfold dd, old. subst k. rewrite nth_overflow by lia. reflexivity.
    - destruct Gm as [W _]. pose proof (W (v2_id e) k Es) as Wi. rewrite Ke in Wi. cbn [Marks1.entry_id] in Wi.
      destruct (nth_error (m_v2fces m) k) as [x|] eqn:N; [|discriminate]. assert (Wx : v2_id (d_v2 x) = v2_id e) by (cbn in Wi; congruence). clear Wi.
      assert (old = x) by (unfold old; apply nth_error_nth; exact N). subst x.
      unfold dd. destruct (d_v2_created old); [cbn; exact Wx|]. destruct (d_v2_rev old); [exact Wx | reflexivity]. }
  destruct (rec_v23 kind_of id0 lf0 K0 m (v2_id e) k fresh dd (m_spends m) (m_pool m) Gm Ke Sl Ed) as (W' & T1 & T2).
  split; [|apply (u_v2 kind_of m (v2_id e) k fresh dd _ _ Um Ke Sl Ed)].
  split; [exact W'|]. intros Sp.
  assert (Sp0 : is_spent m id0 = true) by (rewrite <- Sp; symmetry; apply Marks8.is_spent_same; reflexivity).
  destruct Gm as [W T]. pose proof (T Sp0) as Tm.
  destruct (list_eq_dec N.eq_dec (v2_id e) id0) as [Eq|Ne]; [|apply T1; assumption].
  destruct Tm as (k0 & d0 & E0 & N0 & L0 & R0).
  destruct (slot_cases _ _ _ _ _ Sl) as [(F & En & Ek)|(F & Es & Lk)]; [rewrite Eq in En; congruence|].
  rewrite Eq in Es. rewrite E0 in Es. inversion Es; subst k0.
  assert (old = d0) by (unfold old; apply nth_error_nth; exact N0).
  apply T2; [exact Eq | |].
  - unfold dd. rewrite H. destruct (d_v2_created d0); [exact L0|]. destruct (d_v2_rev d0); [exact L0 | apply El; exact Eq].
  - unfold dd. rewrite H. destruct (d_v2_created d0); [exact R0|]. destruct (d_v2_rev d0); exact R0.
Qed.
Lemma create_att_g m i : kind_of i = KAT -> G m -> G (create_att m i).
Proof.
  intros Ki [[W T] Um]. assert (Ne : i <> id0) by (apply (kind_ne _ _ Ki); discriminate).
  assert (EI : forall j, elem_idx (create_att m i) j = if beq j i then Some (length (m_aes m)) else elem_idx m j) by (intros j; reflexivity).
  split; [|apply u_att; assumption]. split.
  - intros j kj Ej. rewrite EI in Ej. destruct (beq j i) eqn:B.
    + apply beq_eq in B. subst j. inversion Ej; subst kj. rewrite Ki. cbn [Marks1.entry_id create_att m_aes]. rewrite nth_error_app2 by lia. rewrite Nat.sub_diag. reflexivity.
    + specialize (W j kj Ej). destruct (kind_of j) eqn:Kj; cbn [Marks1.entry_id create_att m_sces m_sfes m_fces m_v2fces m_aes] in *; try exact W.
      rewrite nth_error_app1; [exact W | apply nth_error_Some; congruence].
  - intros Sp. destruct (T Sp) as (k0 & d0 & E0 & N0 & L0 & S0). exists k0, d0. rewrite EI, (beq_false id0 i) by congruence. auto.
Qed.

Definition TxOK (t : txn2) : Prop :=
  Forall (fun i => kind_of (sce_id (p_val (i2_parent i))) = KSC) (t2_sci t) /\
  Forall (fun x : id * sco => kind_of (fst x) = KSC) (t2_sco t) /\
  Forall (fun i => kind_of (sfe_id (p_val (f2_parent i))) = KSF /\ kind_of (f2_claim_id i) = KSC) (t2_sfi t) /\
  Forall (fun x : id * (Z * bytes) => kind_of (fst x) = KSF) (t2_sfo t) /\
  Forall (fun x : id * fc2 => kind_of (fst x) = KV2 /\ fst x <> id0) (t2_fc t) /\
  Forall (fun rv => kind_of (v2_id (p_val (r2_parent rv))) = KV2 /\ (v2_id (p_val (r2_parent rv)) = id0 -> p_leaf (r2_parent rv) = lf0)) (t2_rev t) /\
  Forall (fun rs => kind_of (v2_id (p_val (rs_parent rs))) = KV2 /\ (v2_id (p_val (rs_parent rs)) = id0 -> p_leaf (rs_parent rs) = lf0) /\
                    kind_of (rs_renter_id rs) = KSC /\ kind_of (rs_host_id rs) = KSC /\
                    (forall rn, rs_res rs = RRenewal rn -> kind_of (rn_new_id rn) = KV2 /\ rn_new_id rn <> id0)) (t2_res t) /\
  Forall (fun a => kind_of (at_id a) = KAT) (t2_att t).

Lemma apply_txn2_g net s m t m' : TxOK t -> apply_txn2 net s m t = Ok m' -> G m -> G m'.
Proof.
  intros (O1 & O2 & O3 & O4 & O5 & O6 & O7 & O8) E Gm. unfold Apply.apply_txn2 in E.
  apply bind_ok in E. destruct E as (m1 & E1 & E). apply bind_ok in E. destruct E as (m2 & E2 & E).
  apply bind_ok in E. destruct E as (m3 & E3 & E). apply bind_ok in E. destruct E as (m4 & E4 & E).
  apply bind_ok in E. destruct E as (m5 & E5 & E). apply bind_ok in E. destruct E as (m6 & E6 & E).
  apply bind_ok in E. destruct E as (m7 & E7 & E).
  assert (G1 : G m1) by (refine (fold_r_gen _ _ _ _ _ _ _ O1 E1 Gm); intros ? ? ? Kx Ex; exact (spend_sce_g _ _ _ _ _ Kx Ex)).
  assert (G2 : G m2) by (refine (fold_r_gen _ _ _ _ _ _ _ O2 E2 G1); intros ? ? ? Kx Ex; exact (create_sce_g _ _ _ _ _ Kx Ex)).
  assert (G3 : G m3).
  { refine (fold_r_gen _ _ _ _ _ _ _ O3 E3 G2). intros m0 x m0' (Kp & Kc) Ex G0.
    apply bind_ok in Ex. destruct Ex as (ma & Ea & Ex). apply bind_ok in Ex. destruct Ex as (c & _ & Ex).
    apply (create_sce_g _ _ _ _ _ Kc Ex). apply (spend_sfe_g _ _ _ _ _ Kp Ea). exact G0. }
  assert (G4 : G m4) by (refine (fold_r_gen _ _ _ _ _ _ _ O4 E4 G3); intros ? ? ? Kx Ex; exact (create_sfe_g _ _ _ _ _ Kx Ex)).
  assert (G5 : G m5) by (refine (fold_r_gen _ _ _ _ _ _ _ O5 E5 G4); intros ? ? ? [Kx Nx] Ex; exact (create_v2_g _ _ _ _ Kx Nx Ex)).
  assert (G6 : G m6) by (refine (fold_r_gen _ _ _ _ _ _ _ O6 E6 G5); intros ? ? ? [Kx Lx] Ex; exact (revise_v2_g _ _ _ _ _ Kx Lx Ex)).
  assert (G7 : G m7).
  { refine (fold_r_gen _ _ _ _ _ _ _ O7 E7 G6). intros m0 rs m0' (Kp & Lp & Kr & Kh & Kn) Ex G0. cbv zeta in Ex.
    apply bind_ok in Ex. destruct Ex as (ma & Ea & Ex). apply bind_ok in Ex. destruct Ex as (mb & Eb & Ex).
    assert (Gb : G mb).
    { destruct (rs_res rs) as [rn| |] eqn:Er; [destruct (Kn rn eq_refl) as [Kn1 Kn2]; apply (create_v2_g _ _ _ _ Kn1 Kn2 Eb) | inversion Eb; subst mb | inversion Eb; subst mb];
        apply (resolve_v2_g _ _ _ _ _ _ Kp Lp Ea G0). }
    destruct (match rs_res rs with RRenewal rn => (rn_final_renter rn, rn_final_host rn) | RProof _ => (c_renter (v2_fc (p_val (rs_parent rs))), c_host (v2_fc (p_val (rs_parent rs))))
              | RExpiration => (c_renter (v2_fc (p_val (rs_parent rs))), missed_host_output (v2_fc (p_val (rs_parent rs)))) end) as [renter host].
    apply bind_ok in Ex. destruct Ex as (mc & Ec & Ex). apply (create_sce_g _ _ _ _ _ Kh Ex). apply (create_sce_g _ _ _ _ _ Kr Ec). exact Gb. }
  assert (G8 : G (fold_left (fun m a => create_att m (at_id a)) (t2_att t) m7)).
  { clear E. revert G7 O8. generalize m7. induction (t2_att t) as [|a l IHl]; intros m0 G0 O; cbn [fold_left]; [exact G0|].
    apply IHl; [apply create_att_g; [exact (Forall_inv O) | exact G0] | exact (Forall_inv_tail O)]. }
  destruct (t2_new_foundation t); inversion E; subst m'; exact G8.
Qed.
End Marks9.
