(* v1 signatures: what validateSignatures guarantees (C03). *)
From Coq Require Import ZArith List Bool Lia.
From Sia Require Import Prim.Result Prim.Tok Policy.Model Ledger.Types Ledger.Mid Ledger.Validate Ledger.Apply Ledger.Proofs.
Import ListNotations.
Open Scope Z_scope.

Section V1Sigs.
Variable H : bytes -> bytes.
Variable net : lnetwork.
Variable vt : vtab.
Variable se sd : bytes.

(* the signature loop, named *)
Section Loop.
Variable s : lstate.
Fixpoint sig_loop (l : list sig1) (m : list sigent) : R (list sigent) :=
  match l with
  | [] => Ok m
  | g :: r =>
    match find (fun e => beq (se_id e) (g_parent g)) m with
    | None => err 61
    | Some e =>
      if Z.of_nat (length (se_keys e)) <=? g_keyidx g then err 62
      else if (se_need e =? 0) || nth (Z.to_nat (g_keyidx g)) (se_used e) false then err 63
      else if child s <? g_timelock g then err 64
      else if negb (g_covered_ok g) then err 65
      else
        let m' := upd_ent m (g_parent g) (fun e => {| se_id := se_id e; se_need := (se_need e - 1) mod 2 ^ 64; se_keys := se_keys e;
                                                      se_used := set_nth (Z.to_nat (g_keyidx g)) true (se_used e) |}) in
        let '(alg, key) := nth (Z.to_nat (g_keyidx g)) (se_keys e) ([], []) in
        if beq alg sd then
          if vlookup vt (key32 key) (g_sighash g) (sig64 (g_sig g)) then sig_loop r m' else err 66
        else if beq alg se then err 67
        else sig_loop r m'
    end
  end.
End Loop.

(* the static part of the table: which parents are listed, with which keys *)
Definition statics (m : list sigent) : list (id * list (bytes * bytes)) := map (fun e => (se_id e, se_keys e)) m.
Lemma upd_ent_statics m i f : (forall e, se_id (f e) = se_id e /\ se_keys (f e) = se_keys e) -> statics (upd_ent m i f) = statics m.
Proof.
  intros Hf. induction m as [|e r IH]; [reflexivity|]. cbn [upd_ent]. destruct (beq (se_id e) i); cbn [statics map].
  - destruct (Hf e) as [A B]. rewrite A, B. reflexivity.
  - fold (statics (upd_ent r i f)). fold (statics r). rewrite IH. reflexivity.
Qed.
Lemma find_statics m i e : find (fun e => beq (se_id e) i) m = Some e -> In (i, se_keys e) (statics m).
Proof.
  intros F. apply find_some in F. destruct F as [Hin B]. apply beq_eq in B. subst i.
  unfold statics. apply in_map_iff. exists e. split; [reflexivity | exact Hin].
Qed.

(* every signature of an accepted v1 transaction names a listed parent and one of its keys, respects its own timelock,
   covers existing fields, and -- when the key is an ed25519 key -- verifies under that key; entropy keys never sign *)
Definition sig_ok (s : lstate) (st : list (id * list (bytes * bytes))) (g : sig1) : Prop :=
  exists keys, In (g_parent g, keys) st /\ g_keyidx g < Z.of_nat (length keys) /\ g_timelock g <= child s /\ g_covered_ok g = true /\
    (beq (fst (nth (Z.to_nat (g_keyidx g)) keys ([], []))) sd = true ->
       vlookup vt (key32 (snd (nth (Z.to_nat (g_keyidx g)) keys ([], [])))) (g_sighash g) (sig64 (g_sig g)) = true) /\
    (beq (fst (nth (Z.to_nat (g_keyidx g)) keys ([], []))) sd = false -> beq (fst (nth (Z.to_nat (g_keyidx g)) keys ([], []))) se = false).

Lemma sig_loop_ok s l : forall m m', sig_loop s l m = Ok m' -> Forall (sig_ok s (statics m)) l /\ statics m' = statics m.
Proof.
  induction l as [|g r IH]; intros m m' E; cbn [sig_loop] in E; [inversion E; subst; split; [constructor | reflexivity]|].
  destruct (find (fun e => beq (se_id e) (g_parent g)) m) as [e|] eqn:F; [|discriminate].
  destruct (Z.leb_spec (Z.of_nat (length (se_keys e))) (g_keyidx g)); [discriminate|].
  destruct ((se_need e =? 0) || nth (Z.to_nat (g_keyidx g)) (se_used e) false); [discriminate|].
  destruct (Z.ltb_spec (child s) (g_timelock g)); [discriminate|].
  destruct (g_covered_ok g) eqn:Cov; [|discriminate]. cbn [negb] in E. cbv zeta in E.
  set (m1 := upd_ent m (g_parent g) _) in E.
  assert (S1 : statics m1 = statics m) by (apply upd_ent_statics; intros e0; split; reflexivity).
  destruct (nth (Z.to_nat (g_keyidx g)) (se_keys e) ([], [])) as [alg key] eqn:Nk.
  assert (Ok1 : forall m', sig_loop s r m1 = Ok m' ->
            (beq alg sd = true -> vlookup vt (key32 key) (g_sighash g) (sig64 (g_sig g)) = true) -> (beq alg sd = false -> beq alg se = false) ->
            Forall (sig_ok s (statics m)) (g :: r) /\ statics m' = statics m).
  { intros m2 E2 A B. destruct (IH _ _ E2) as [Fr Sr]. rewrite S1 in Fr, Sr. split; [|exact Sr]. constructor; [|exact Fr].
    exists (se_keys e). split; [apply find_statics; exact F|]. split; [lia|]. split; [lia|]. split; [exact Cov|]. rewrite Nk. cbn [fst snd]. split; assumption. }
  destruct (beq alg sd) eqn:Bd.
  - destruct (vlookup vt (key32 key) (g_sighash g) (sig64 (g_sig g))) eqn:V; [|discriminate]. apply (Ok1 _ E); [intros _; reflexivity | discriminate].
  - destruct (beq alg se) eqn:Be; [discriminate|]. apply (Ok1 _ E); [discriminate | intros _; reflexivity].
Qed.

Theorem v1_signatures_ok s t : validate_signatures vt se sd s t = Ok tt ->
  exists table, Forall (sig_ok s table) (t1_sigs t) /\
    (* the table lists exactly the inputs and revisions of the transaction, each once *)
    map fst table = map i1_parent (t1_sci t) ++ map f1_parent (t1_sfi t) ++ map r1_parent (t1_rev t).
Proof.
  unfold validate_signatures. intros Hv. apply bind_ok in Hv. destruct Hv as (m1 & A1 & Hv). apply bind_ok in Hv. destruct Hv as (m2 & A2 & Hv).
  apply bind_ok in Hv. destruct Hv as (m3 & A3 & Hv). apply bind_ok in Hv. destruct Hv as (mf & L & _).
  change (sig_loop s (t1_sigs t) m3 = Ok mf) in L.
  destruct (sig_loop_ok s _ _ _ L) as [F _]. exists (statics m3). split; [exact F|].
  assert (G : forall A (f : A -> id * list (bytes * bytes) * Z) code l m m', add_entries f code l m = Ok m' -> map fst (statics m') = map fst (statics m) ++ map (fun x => fst (fst (f x))) l).
  { intros A f code l. induction l as [|x l IHl]; intros m m' E; cbn [add_entries] in E; [inversion E; subst; rewrite app_nil_r; reflexivity|].
    destruct (f x) as [[i k] n] eqn:Fx. unfold add_entry in E. destruct (existsb _ m); [discriminate|]. rewrite (IHl _ _ E).
    unfold statics. rewrite !map_map, map_app. cbn [map]. rewrite Fx. cbn [fst]. rewrite <- app_assoc. reflexivity. }
  rewrite (G _ _ _ _ _ _ A3), (G _ _ _ _ _ _ A2), (G _ _ _ _ _ _ A1). cbn [statics map app]. rewrite <- app_assoc. reflexivity.
Qed.
End V1Sigs.
