(* C02: the hypotheses of the marking theorems for siafund elements and resolved v2 contracts as decidable checks of the block. *)
From Coq Require Import ZArith List Bool Lia.
From Sia Require Import Prim.Result Prim.Tok Policy.Model Ledger.Types Ledger.Mid Ledger.Validate Ledger.Apply Ledger.Proofs Ledger.Persist Ledger.Marks1 Ledger.Marks5 Ledger.Marks6 Ledger.Marks7 Ledger.Marks8 Ledger.Marks9 Ledger.Marks10 Ledger.Wk2 Ledger.Kinds.
Import ListNotations.
Open Scope Z_scope.

(* for every parent of [ps] with an assigned leaf: nothing is created under its ID, and every parent of [qs] with the same ID
   presents the same leaf *)
Definition fresh_gen (ps qs : list (id * Z)) (created : list id) : bool :=
  forallb (fun p => (snd p =? UNASSIGNED) ||
                    (negb (existsb (beq (fst p)) created) &&
                     forallb (fun q => negb (beq (fst q) (fst p)) || (snd q =? snd p)) qs)) ps.
Lemma fresh_gen_spec ps qs created i lf : fresh_gen ps qs created = true -> In (i, lf) ps -> lf <> UNASSIGNED ->
  (forall c, In c created -> c <> i) /\ (forall j l, In (j, l) qs -> j = i -> l = lf).
Proof.
  intros F Hp Nun. unfold fresh_gen in F. rewrite forallb_forall in F. specialize (F _ Hp). cbn [fst snd] in F.
  destruct (Z.eqb_spec lf UNASSIGNED); [contradiction|]. cbn [orb] in F. apply andb_true_iff in F. destruct F as [F1 F2]. split.
  - intros c Hc E. apply negb_true_iff in F1.
    assert (X : existsb (beq i) created = true) by (apply existsb_exists; exists c; split; [exact Hc | rewrite E; apply beq_refl]). congruence.
  - intros j l Hq E. rewrite forallb_forall in F2. specialize (F2 _ Hq). cbn [fst snd] in F2. rewrite E, beq_refl in F2. cbn in F2. apply Z.eqb_eq. exact F2.
Qed.

(* ---- siafund elements ---- *)
Definition sf_created2 (t : txn2) : list id := map (fun x : id * (Z * bytes) => fst x) (t2_sfo t).
Definition sf_createdB (b : lblock) : list id := flat_map sf_created2 (b_v2txns b).
Definition sf_parents2 (t : txn2) : list (id * Z) := map (fun i => (sfe_id (p_val (f2_parent i)), p_leaf (f2_parent i))) (t2_sfi t).
Definition sf_parentsB (b : lblock) : list (id * Z) := flat_map sf_parents2 (b_v2txns b).
Definition fresh_sf (b : lblock) : bool := fresh_gen (sf_parentsB b) (sf_parentsB b) (sf_createdB b).

(* ---- v2 contracts ---- *)
Definition v2_created2 (t : txn2) : list id :=
  map (fun x : id * fc2 => fst x) (t2_fc t) ++ flat_map (fun rs => match rs_res rs with RRenewal rn => [rn_new_id rn] | _ => [] end) (t2_res t).
Definition v2_createdB (b : lblock) : list id := flat_map v2_created2 (b_v2txns b).
Definition v2_res_parents2 (t : txn2) : list (id * Z) := map (fun rs => (v2_id (p_val (rs_parent rs)), p_leaf (rs_parent rs))) (t2_res t).
Definition v2_rev_parents2 (t : txn2) : list (id * Z) := map (fun rv => (v2_id (p_val (r2_parent rv)), p_leaf (r2_parent rv))) (t2_rev t).
Definition v2_res_parentsB (b : lblock) : list (id * Z) := flat_map v2_res_parents2 (b_v2txns b).
Definition v2_all_parentsB (b : lblock) : list (id * Z) := flat_map (fun t => v2_rev_parents2 t ++ v2_res_parents2 t) (b_v2txns b).
Definition fresh_v2 (b : lblock) : bool := fresh_gen (v2_res_parentsB b) (v2_all_parentsB b) (v2_createdB b).

Section FreshSF.
Variable b : lblock.
Hypothesis C : consistent (declsB b) = true.
Hypothesis F : fresh_sf b = true.
Notation kf := (kind_from (declsB b)).
Variables (t0 : txn2) (i0 : sfi2).
Hypothesis Ht0 : In t0 (b_v2txns b).
Hypothesis Hi0 : In i0 (t2_sfi t0).
Notation id0 := (sfe_id (p_val (f2_parent i0))).
Notation lf0 := (p_leaf (f2_parent i0)).
Hypothesis Nun : lf0 <> UNASSIGNED.

Lemma sf_parent0 : In (id0, lf0) (sf_parentsB b).
Proof. unfold sf_parentsB. apply in_flat_map. exists t0. split; [exact Ht0|]. unfold sf_parents2. apply in_map_iff. exists i0. split; [reflexivity | exact Hi0]. Qed.
Lemma sf_kind0 : kf id0 = KSF.
Proof. destruct (kinds2 b C t0 Ht0) as (_ & _ & K3 & _). rewrite Forall_forall in K3. exact (proj1 (K3 i0 Hi0)). Qed.
Lemma sf_txok t : In t (b_v2txns b) -> Marks6.TxOK kf id0 lf0 t.
Proof.
  intros Ht. destruct (kinds2 b C t Ht) as (K1 & K2 & K3 & K4 & K5 & K6 & K7 & K8).
  destruct (fresh_gen_spec _ _ _ _ _ F sf_parent0 Nun) as [Cr Sm].
  unfold Marks6.TxOK. repeat split; try assumption.
  - rewrite Forall_forall in *. intros i Hi. destruct (K3 i Hi) as [A B]. split; [exact A|]. split; [|exact B].
    intros E. apply (Sm _ _ ltac:(unfold sf_parentsB; apply in_flat_map; exists t; split; [exact Ht | unfold sf_parents2; apply in_map_iff; exists i; split; [reflexivity | exact Hi]]) E).
  - rewrite Forall_forall in *. intros x Hx. split; [exact (K4 x Hx)|]. apply Cr. unfold sf_createdB. apply in_flat_map. exists t. split; [exact Ht|].
    unfold sf_created2. apply in_map_iff. exists x. auto.
Qed.
End FreshSF.

Theorem consumed_sf_marked_checked H net vt pt se sd s b s' m t0 i0 :
  validate_block H net vt pt se sd s b = Ok tt -> apply_block net s b = Ok (s', m) -> b_txns b = [] -> b_expiring b = [] ->
  consistent (declsB b) = true -> fresh_sf b = true ->
  In t0 (b_v2txns b) -> In i0 (t2_sfi t0) -> p_leaf (f2_parent i0) <> UNASSIGNED ->
  SpentAt (s_leaves s') (Z.to_nat (p_leaf (f2_parent i0))).
Proof.
  intros V A T0 X0 C F Ht0 Hi0 Nun. destruct (consistent_kinds b C) as (_ & _ & Kp & Kf & _).
  apply (consumed_sf_leaf_marked H net vt pt se sd s (kind_from (declsB b)) (sfe_id (p_val (f2_parent i0))) (p_leaf (f2_parent i0))
           (sf_kind0 b C t0 i0 Ht0 Hi0) b s' m t0 i0 V A T0 X0); try assumption; try reflexivity.
  apply Forall_forall. intros t Ht. exact (sf_txok b C F t0 i0 Ht0 Hi0 Nun t Ht).
Qed.

Section FreshV2.
Variable b : lblock.
Hypothesis C : consistent (declsB b) = true.
Hypothesis F : fresh_v2 b = true.
Notation kf := (kind_from (declsB b)).
Variables (t0 : txn2) (rs0 : res2).
Hypothesis Ht0 : In t0 (b_v2txns b).
Hypothesis Hi0 : In rs0 (t2_res t0).
Notation id0 := (v2_id (p_val (rs_parent rs0))).
Notation lf0 := (p_leaf (rs_parent rs0)).
Hypothesis Nun : lf0 <> UNASSIGNED.

Lemma v2_parent0 : In (id0, lf0) (v2_res_parentsB b).
Proof. unfold v2_res_parentsB. apply in_flat_map. exists t0. split; [exact Ht0|]. unfold v2_res_parents2. apply in_map_iff. exists rs0. split; [reflexivity | exact Hi0]. Qed.
Lemma v2_kind0 : kf id0 = KV2.
Proof. destruct (kinds2 b C t0 Ht0) as (_ & _ & _ & _ & _ & _ & K7 & _). rewrite Forall_forall in K7. exact (proj1 (K7 rs0 Hi0)). Qed.
Lemma v2_txok t : In t (b_v2txns b) -> Marks9.TxOK kf id0 lf0 t.
Proof.
  intros Ht. destruct (kinds2 b C t Ht) as (K1 & K2 & K3 & K4 & K5 & K6 & K7 & K8).
  destruct (fresh_gen_spec _ _ _ _ _ F v2_parent0 Nun) as [Cr Sm].
  assert (Cr' : forall c, In c (v2_created2 t) -> c <> id0).
  { intros c Hc. apply Cr. unfold v2_createdB. apply in_flat_map. exists t. split; assumption. }
  assert (Sm' : forall j l, In (j, l) (v2_rev_parents2 t ++ v2_res_parents2 t) -> j = id0 -> l = lf0).
  { intros j l Hq. apply Sm. unfold v2_all_parentsB. apply in_flat_map. exists t. split; assumption. }
  unfold Marks9.TxOK. repeat split; try assumption.
  - rewrite Forall_forall in *. intros x Hx. split; [exact (K5 x Hx)|]. apply Cr'. unfold v2_created2. apply in_or_app. left. apply in_map_iff. exists x. auto.
  - rewrite Forall_forall in *. intros rv Hrv. split; [exact (K6 rv Hrv)|]. intros E. apply (Sm' _ _ ltac:(apply in_or_app; left; unfold v2_rev_parents2; apply in_map_iff; exists rv; split; [reflexivity | exact Hrv]) E).
  - rewrite Forall_forall in *. intros rs Hrs. destruct (K7 rs Hrs) as (A & B & D & E). split; [exact A|].
    split; [intros E'; apply (Sm' _ _ ltac:(apply in_or_app; right; unfold v2_res_parents2; apply in_map_iff; exists rs; split; [reflexivity | exact Hrs]) E')|].
    split; [exact B|]. split; [exact D|]. intros rn Er. split; [exact (E rn Er)|].
    apply Cr'. unfold v2_created2. apply in_or_app. right. apply in_flat_map. exists rs. split; [exact Hrs|]. rewrite Er. left. reflexivity.
Qed.
End FreshV2.

Theorem resolved_marked_checked H net vt pt se sd s b s' m t0 rs0 :
  validate_block H net vt pt se sd s b = Ok tt -> apply_block net s b = Ok (s', m) -> b_txns b = [] -> b_expiring b = [] ->
  consistent (declsB b) = true -> fresh_v2 b = true ->
  In t0 (b_v2txns b) -> In rs0 (t2_res t0) -> p_leaf (rs_parent rs0) <> UNASSIGNED ->
  SpentAt (s_leaves s') (Z.to_nat (p_leaf (rs_parent rs0))).
Proof.
  intros V A T0 X0 C F Ht0 Hi0 Nun. destruct (consistent_kinds b C) as (_ & _ & Kp & Kf & _).
  apply (resolved_leaf_marked H net vt pt se sd s (kind_from (declsB b)) (v2_id (p_val (rs_parent rs0))) (p_leaf (rs_parent rs0))
           (v2_kind0 b C t0 rs0 Ht0 Hi0) b s' m t0 rs0 V A T0 X0); try assumption; try reflexivity.
  apply Forall_forall. intros t Ht. exact (v2_txok b C F t0 rs0 Ht0 Hi0 Nun t Ht).
Qed.
Print Assumptions consumed_sf_marked_checked.
Print Assumptions resolved_marked_checked.
