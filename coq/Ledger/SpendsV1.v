(* v1 transactions in the same picture: a block that mixes v1 and v2 transactions spends no siacoin element twice. *)
From Coq Require Import ZArith List Bool Lia.
From Sia Require Import Prim.Result Prim.Tok Policy.Model Ledger.Types Ledger.Mid Ledger.Validate Ledger.Apply Ledger.Proofs Ledger.Spends.
Import ListNotations.
Open Scope Z_scope.

Lemma find_pres_id {A} (f : A -> id) i l p : find_pres f i l = Some p -> f (p_val p) = i.
Proof. unfold find_pres. intros E. apply find_some in E. destruct E as [_ B]. apply beq_eq. exact B. Qed.
Lemma sc_element_id m ts i e lf : sc_element m ts i = Some (e, lf) -> sce_id e = i.
Proof.
  unfold sc_element. intros E.
  assert (F : option_map (fun p => (p_val p, p_leaf p)) (find_pres sce_id i (u_sci ts)) = Some (e, lf) -> sce_id e = i).
  { destruct (find_pres sce_id i (u_sci ts)) as [p|] eqn:Fp; [|discriminate]. cbn. intros X. inversion X; subst. eapply find_pres_id; exact Fp. }
  destruct (elem_idx m i) as [k|]; [|exact (F E)].
  destruct (nth_error (m_sces m) k) as [d|]; [|exact (F E)].
  destruct (beq (sce_id (d_sce d)) i) eqn:B; [|exact (F E)]. inversion E; subst. apply beq_eq. exact B.
Qed.

Section Block1.
Variable H : bytes -> bytes.
Variable net : lnetwork.
Variable vt : vtab.
Variable pt : ptab.
Variable se sd : bytes.

Definition v1_sci_ids (t : txn1) : list id := map i1_parent (t1_sci t).

(* validation: the inputs are not entered yet ... *)
Lemma in_sci1_fresh s m ts l : forall acc r, in_sci1 s m ts l acc = Ok r -> Forall (fun i => is_spent m (i1_parent i) = false) l.
Proof.
  induction l as [|i l IH]; intros acc r E; [constructor|]. cbn [in_sci1] in E.
  destruct (child s <? i1_timelock i); [discriminate|]. destruct (is_spent m (i1_parent i)) eqn:Sp; [discriminate|].
  destruct (sc_element m ts (i1_parent i)) as [[p lf]|]; [|discriminate].
  destruct (negb (beq (i1_uh i) (sco_addr (sce_out p)))); [discriminate|]. destruct (child s <? sce_maturity p); [discriminate|].
  apply bind_ok in E. destruct E as (a & _ & E). constructor; [exact Sp | eapply IH; exact E].
Qed.
(* ... and pairwise distinct (the signature table refuses a second entry for one parent) *)
Lemma add_entries_nodup {A} (f : A -> id * list (bytes * bytes) * Z) code l : forall m m', add_entries f code l m = Ok m' ->
  NoDup (map (fun x => fst (fst (f x))) l) /\ (forall x, In x l -> ~ In (fst (fst (f x))) (map se_id m)) /\
  (forall i, In i (map se_id m) -> In i (map se_id m')).
Proof.
  induction l as [|x l IH]; intros m m' E; cbn [add_entries] in E.
  - inversion E; subst. split; [constructor|]. split; [intros ? []|auto].
  - destruct (f x) as [[i k] n] eqn:Fx. unfold add_entry in E. destruct (existsb (fun e => beq (se_id e) i) m) eqn:Ex; [discriminate|].
    destruct (IH _ _ E) as (ND & NI & Mono). cbn [map]. rewrite Fx. cbn [fst].
    assert (Ni : ~ In i (map se_id m)).
    { intros Hin. apply in_map_iff in Hin. destruct Hin as (e & Ee & He).
      assert (existsb (fun e => beq (se_id e) i) m = true) by (apply existsb_exists; exists e; split; [exact He | rewrite Ee; apply beq_refl]). congruence. }
    split; [|split].
    + constructor; [|exact ND]. intros Hin. apply in_map_iff in Hin. destruct Hin as (y & Ey & Hy).
      apply (NI y Hy). rewrite Ey. rewrite map_app. apply in_or_app. right. left. reflexivity.
    + intros y [<-|Hy]; [rewrite Fx; exact Ni|]. intros Hin. apply (NI y Hy). rewrite map_app. apply in_or_app. left. exact Hin.
    + intros j Hj. apply Mono. rewrite map_app. apply in_or_app. left. exact Hj.
Qed.

Theorem validate_txn1_fresh s m t ts : validate_txn1 H net vt se sd s m t ts = Ok tt ->
  Forall (fun i => is_spent m i = false) (v1_sci_ids t) /\ NoDup (v1_sci_ids t).
Proof.
  unfold validate_txn1. intros Hv. destruct (ln_v2_require net <=? child s); [discriminate|].
  apply bind_ok in Hv. destruct Hv as (? & _ & Hv). destruct (MAXW <? t1_weight t); [discriminate|].
  apply bind_ok in Hv. destruct Hv as (? & _ & Hv). apply bind_ok in Hv. destruct Hv as (? & Hsc & Hv).
  apply bind_ok in Hv. destruct Hv as (? & _ & Hv). apply bind_ok in Hv. destruct Hv as (? & _ & Hv). apply bind_ok in Hv. destruct Hv as (? & _ & Hsig).
  split.
  - unfold validate_siacoins in Hsc. apply bind_ok in Hsc. destruct Hsc as (insum & Hin & _).
    unfold v1_sci_ids. apply Forall_map. exact (in_sci1_fresh s m ts _ _ _ Hin).
  - unfold validate_signatures in Hsig. apply bind_ok in Hsig. destruct Hsig as (m1 & A & _).
    destruct (add_entries_nodup _ _ _ _ _ A) as (ND & _). unfold v1_sci_ids. exact ND.
Qed.

(* applying a v1 transaction enters every siacoin input and forgets nothing *)
Lemma create_fce_sp m i fc tax m' : create_fce m i fc tax = Ok m' -> m_spends m' = m_spends m.
Proof. unfold create_fce. intros Hh. apply bind_ok in Hh. destruct Hh as ([k fr] & _ & Hh). apply bind_ok in Hh. destruct Hh as (pool & _ & Hh). inversion Hh; subst. reflexivity. Qed.
Lemma revise_fce_sp m e lf rev m' : revise_fce m e lf rev = Ok m' -> m_spends m' = m_spends m.
Proof. unfold revise_fce. intros Hh. apply bind_ok in Hh. destruct Hh as ([k fr] & _ & Hh). inversion Hh; subst. reflexivity. Qed.
Lemma resolve_fce_ext m e lf v tx m' : resolve_fce m e lf v tx = Ok m' -> ext m m'.
Proof. unfold resolve_fce. intros Hh. apply bind_ok in Hh. destruct Hh as ([k fr] & _ & Hh). inversion Hh; subst. exists [(fce_id e, tx)]. reflexivity. Qed.

Lemma step1_sci ts tx m i m' :
  (match sc_element m ts (i1_parent i) with None => Panic PMissing | Some (e, lf) => spend_sce m e lf tx end) = Ok m' ->
  ext m m' /\ is_spent m' (i1_parent i) = true.
Proof.
  destruct (sc_element m ts (i1_parent i)) as [[e lf]|] eqn:Q; [|discriminate]. intros Hs.
  pose proof (spend_sce_sp _ _ _ _ _ Hs) as Sp. rewrite (sc_element_id _ _ _ _ _ Q) in Sp.
  split; [eapply ext_cons; exact Sp | eapply spent_head; exact Sp].
Qed.
Lemma step1_sfi s ts tx m i m' :
  (match sf_element m ts (f1_parent i) with
   | None => Panic PMissing
   | Some (e, lf) => do c <- claim_portion (m_pool m) (sfe_claim e) (sfe_value e);
                     do m1 <- spend_sfe m e lf tx;
                     create_sce m1 (f1_claim_id i) {| sco_value := c; sco_addr := f1_claim_addr i |} (maturity_height net s)
   end) = Ok m' -> ext m m'.
Proof.
  destruct (sf_element m ts (f1_parent i)) as [[e lf]|]; [|discriminate]. intros Hs.
  apply bind_ok in Hs. destruct Hs as (c & _ & Hs). apply bind_ok in Hs. destruct Hs as (m1 & A & Hs).
  eapply ext_trans; [eapply ext_cons; eapply spend_sfe_sp; exact A | apply ext_eq; eapply create_sce_sp; exact Hs].
Qed.
Lemma step1_sp s ts tx m sp m' :
  (match fc_element m ts (s1_parent sp) with
   | None => Panic PMissing
   | Some (e, lf) => do m1 <- resolve_fce m e lf true tx;
                     fold_r (fun m io => create_sce m (fst io) (snd io) (maturity_height net s)) (combine (s1_valid_ids sp) (fc_valid (fce_fc e))) m1
   end) = Ok m' -> ext m m'.
Proof.
  destruct (fc_element m ts (s1_parent sp)) as [[e lf]|]; [|discriminate]. intros Hs.
  apply bind_ok in Hs. destruct Hs as (m1 & A & Hs).
  eapply ext_trans; [eapply resolve_fce_ext; exact A|].
  eapply (fold_r_ext _ _ (fun m0 x0 m1' Hc => ext_eq _ _ (create_sce_sp _ _ _ _ _ Hc))); exact Hs.
Qed.

Theorem apply_txn1_spends s m t ts m' : apply_txn1 net s m t ts = Ok m' ->
  ext m m' /\ Forall (fun i => is_spent m' i = true) (v1_sci_ids t).
Proof.
  unfold apply_txn1. intros E.
  apply bind_ok in E. destruct E as (m1 & E1 & E). apply bind_ok in E. destruct E as (m2 & E2 & E).
  apply bind_ok in E. destruct E as (m3 & E3 & E). apply bind_ok in E. destruct E as (m4 & E4 & E).
  apply bind_ok in E. destruct E as (m5 & E5 & E). apply bind_ok in E. destruct E as (m6 & E6 & E).
  apply bind_ok in E. destruct E as (m7 & E7 & E).
  destruct (fold_r_entered _ i1_parent (t1_sci t) (fun m0 x0 m1' => step1_sci ts (t1_id t) m0 x0 m1') _ _ E1) as [X1 F1].
  pose proof (fold_r_ext _ (t1_sco t) (fun m0 x0 m1' Hs => ext_eq _ _ (create_sce_sp _ _ _ _ _ Hs)) _ _ E2) as X2.
  pose proof (fold_r_ext _ (t1_sfi t) (fun m0 x0 m1' => step1_sfi s ts (t1_id t) m0 x0 m1') _ _ E3) as X3.
  pose proof (fold_r_ext _ (t1_sfo t) (fun m0 x0 m1' Hs => ext_eq _ _ (create_sfe_sp _ _ _ _ _ Hs)) _ _ E4) as X4.
  assert (X5 : ext m4 m5).
  { eapply (fold_r_ext _ (t1_fc t)); [|exact E5]. intros m0 [[i fc] tx] m1' Hs. cbv beta iota in Hs. apply ext_eq. eapply create_fce_sp; exact Hs. }
  assert (X6 : ext m5 m6).
  { eapply (fold_r_ext _ (t1_rev t)); [|exact E6]. intros m0 rv m1' Hs. cbv beta in Hs. destruct (fc_element m0 ts (r1_parent rv)) as [[e lf]|]; [|discriminate].
    apply ext_eq. eapply revise_fce_sp; exact Hs. }
  pose proof (fold_r_ext _ (t1_sp t) (fun m0 x0 m1' => step1_sp s ts (t1_id t) m0 x0 m1') _ _ E7) as X7.
  assert (X8 : ext m7 m').
  { destruct (ln_foundation_height net <=? s_height s).
    - assert (Em : m' = fold_left (fun m0 a0 => match a0 with ArbUpdate p f => with_foundation m0 p f | ArbBadUpdate => m0 | ArbOther => m0 end) (t1_arb t) m7) by (inversion E; reflexivity).
      rewrite Em. clear Em E. apply ext_eq. generalize m7. induction (t1_arb t) as [|a0 l IHl]; intros m0; cbn [fold_left]; [reflexivity|].
      rewrite IHl. destruct a0; reflexivity.
    - inversion E; subst. apply ext_refl. }
  assert (T1 : ext m1 m').
  { eapply ext_trans; [exact X2|]. eapply ext_trans; [exact X3|]. eapply ext_trans; [exact X4|]. eapply ext_trans; [exact X5|].
    eapply ext_trans; [exact X6|]. eapply ext_trans; [exact X7 | exact X8]. }
  split; [eapply ext_trans; [exact X1 | exact T1]|].
  unfold v1_sci_ids. apply Forall_map. eapply Forall_impl; [|exact F1]. cbv beta. intros i Hs. eapply spent_mono; [exact T1 | exact Hs].
Qed.

(* the v1 part of block validation: validate, then apply, transaction by transaction *)
Lemma validate_txns1_spends s : forall txs us m m', validate_txns1 H net vt se sd s m txs us = Ok m' ->
  ext m m' /\ NoDup (flat_map v1_sci_ids txs) /\ Forall (fun i => is_spent m i = false) (flat_map v1_sci_ids txs) /\
  Forall (fun i => is_spent m' i = true) (flat_map v1_sci_ids txs).
Proof.
  induction txs as [|t r IH]; intros us m m' E; cbn [validate_txns1 flat_map] in *.
  - inversion E; subst. split; [apply ext_refl|]. repeat split; constructor.
  - destruct us as [|u ur]; [discriminate|].
    apply bind_ok in E. destruct E as ([] & V & E). apply bind_ok in E. destruct E as (m1 & A & E).
    destruct (validate_txn1_fresh s m t u V) as [F0 N0]. destruct (apply_txn1_spends s m t u m1 A) as [X S1].
    destruct (IH _ _ _ E) as (Xr & Nr & Fr & Sr).
    assert (Fr' : Forall (fun i => is_spent m i = false) (flat_map v1_sci_ids r)).
    { eapply Forall_impl; [|exact Fr]. cbv beta. intros i Hi. destruct (is_spent m i) eqn:Es; [|reflexivity].
      rewrite (spent_mono m m1 i X Es) in Hi. discriminate. }
    split; [eapply ext_trans; eassumption|]. split; [|split].
    + apply NoDup_app_iff'; auto. intros i Hin1 Hin2.
      pose proof (proj1 (Forall_forall _ _) S1 i Hin1). pose proof (proj1 (Forall_forall _ _) Fr i Hin2). congruence.
    + apply Forall_app; split; assumption.
    + apply Forall_app; split; [|exact Sr]. eapply Forall_impl; [|exact S1]. cbv beta. intros i Hi. eapply spent_mono; eassumption.
Qed.

(* a block mixing v1 and v2 transactions spends no siacoin element twice, in either kind of transaction *)
Theorem mixed_block_no_double_spend s b : validate_block H net vt pt se sd s b = Ok tt ->
  NoDup (flat_map v1_sci_ids (b_txns b) ++ flat_map sci_ids (b_v2txns b)).
Proof.
  unfold validate_block. intros Hv. apply bind_ok in Hv. destruct Hv as (? & _ & Hv). apply bind_ok in Hv. destruct Hv as (? & _ & Hv).
  destruct (b_is_v2 b && negb (b_commit_ok b)); [discriminate|].
  apply bind_ok in Hv. destruct Hv as (m1 & H1 & Hv). apply bind_ok in Hv. destruct Hv as (m2 & Hf & _).
  change (fold_r (vstep H net vt pt se sd s) (b_v2txns b) m1 = Ok m2) in Hf.
  destruct (validate_txns1_spends s _ _ _ _ H1) as (_ & N1 & _ & S1).
  destruct (block_no_double_spend H net vt pt se sd s sci_ids) with (txns := b_v2txns b) (m := m1) (m' := m2) as [N2 F2]; [| |exact Hf|].
  - intros m t V. destruct (validate_txn2_fresh H net vt pt se sd s m t V) as (A & B & _). split; assumption.
  - intros m t m' A. destruct (apply_txn2_spends net s m t m' A) as [X F]. split; [exact X | exact (proj1 (proj1 (Forall_app _ _ _) F))].
  - apply NoDup_app_iff'; auto. intros i Hin1 Hin2.
    pose proof (proj1 (Forall_forall _ _) S1 i Hin1). pose proof (proj1 (Forall_forall _ _) F2 i Hin2). congruence.
Qed.
End Block1.
