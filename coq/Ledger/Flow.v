(* Value flow of an accepted v2 transaction (consensus/validation.go validateV2Siacoins + validateV2FileContracts):
   what is spent and released equals what is created, locked, taxed, paid as fee and forfeited. *)
From Coq Require Import ZArith List Bool Lia.
From Sia Require Import Prim.Result Prim.Tok Ledger.Types Ledger.Mid Ledger.Validate.
Import ListNotations.
Open Scope Z_scope.

Section Flow.
Variable H : bytes -> bytes.
Variable net : lnetwork.
Variable vt : vtab.
Variable pt : ptab.
Variable se sd : bytes.
Notation validate_v2_siacoins := (validate_v2_siacoins H net vt pt se sd).
Notation check_resolutions := (check_resolutions H vt).
Notation validate_resolution := (validate_resolution H vt).
Notation validate_renewal := (validate_renewal vt).

Definition zsum (l : list Z) : Z := fold_right Z.add 0 l.
Definition locked (fc : fc2) : Z := sco_value (c_renter fc) + sco_value (c_host fc).
Definition tax_of (fc : fc2) : Z := locked fc / 25.

Definition sum_sci (t : txn2) : Z := zsum (map (fun i => sco_value (sce_out (p_val (i2_parent i)))) (t2_sci t)).
Definition sum_sco (t : txn2) : Z := zsum (map (fun x => sco_value (snd x)) (t2_sco t)).
Definition sum_fc (t : txn2) : Z := zsum (map (fun x => locked (snd x) + tax_of (snd x)) (t2_fc t)).
Definition released (rs : res2) : Z := locked (v2_fc (p_val (rs_parent rs))).
Definition paid_out (rs : res2) : Z :=
  let fc := v2_fc (p_val (rs_parent rs)) in
  match rs_res rs with
  | RRenewal rn => sco_value (rn_final_renter rn) + sco_value (rn_final_host rn)
  | RProof _ => locked fc
  | RExpiration => sco_value (c_renter fc) + c_missed_host fc
  end.
Definition relocked (rs : res2) : Z :=
  match rs_res rs with RRenewal rn => locked (rn_new rn) + tax_of (rn_new rn) | _ => 0 end.
Definition rolled (rs : res2) : Z :=
  match rs_res rs with RRenewal rn => rn_renter_rollover rn + rn_host_rollover rn | _ => 0 end.
(* the host value a missed contract does not pay out (negative exactly when the missed value exceeds the host value) *)
Definition forfeited (rs : res2) : Z :=
  let fc := v2_fc (p_val (rs_parent rs)) in
  match rs_res rs with RExpiration => sco_value (c_host fc) - c_missed_host fc | _ => 0 end.

Lemma cadd_ok a b c : cadd a b = Ok c -> c = a + b.
Proof. unfold cadd. destruct (C128 <=? a + b); intros Q; inversion Q. reflexivity. Qed.
Lemma tax_ok fc tx : v2_tax fc = Ok tx -> tx = tax_of fc.
Proof.
  unfold v2_tax, tax_of, locked. intros E. apply bind_ok in E. destruct E as (x & E1 & E2). apply cadd_ok in E1. subst x.
  unfold cdiv64 in E2. cbn [Z.eqb] in E2. inversion E2. reflexivity.
Qed.

Lemma csum_ok l : forall acc r, csum l acc = Ok r -> r = acc + zsum l.
Proof.
  induction l as [|x l IH]; intros acc r E; cbn [csum zsum fold_right] in *.
  - inversion E. lia.
  - apply bind_ok in E. destruct E as (a & E1 & E2). apply cadd_ok in E1. subst a. apply IH in E2. unfold zsum in E2. lia.
Qed.
Lemma out_sco_ok l : forall acc r, out_sco l acc = Ok r -> r = acc + zsum (map (fun x => sco_value (snd x)) l).
Proof.
  induction l as [|[i o] l IH]; intros acc r E; cbn [out_sco map zsum fold_right snd] in *.
  - inversion E. lia.
  - destruct (sco_value o =? 0); [discriminate|]. apply bind_ok in E. destruct E as (a & E1 & E2). apply cadd_ok in E1. subst a.
    apply IH in E2. unfold zsum in E2. lia.
Qed.
Lemma out_fc_ok l : forall acc r, out_fc l acc = Ok r -> r = acc + zsum (map (fun x => locked (snd x) + tax_of (snd x)) l).
Proof.
  induction l as [|[i fc] l IH]; intros acc r E; cbn [out_fc map zsum fold_right snd] in *.
  - inversion E. lia.
  - apply bind_ok in E. destruct E as (a & E1 & E). apply bind_ok in E. destruct E as (b & E2 & E).
    apply bind_ok in E. destruct E as (tx & E3 & E). apply bind_ok in E. destruct E as (c & E4 & E).
    apply cadd_ok in E1, E2, E4. apply tax_ok in E3. subst. apply IH in E. unfold zsum in E. unfold locked. unfold locked in E. lia.
Qed.
Lemma io_res_ok l : forall io r, io_res l io = Ok r ->
  fst r = fst io + zsum (map rolled l) /\ snd r = snd io + zsum (map relocked l).
Proof.
  induction l as [|rs l IH]; intros io r E; cbn [io_res map zsum fold_right] in *.
  - inversion E. lia.
  - unfold rolled at 1, relocked at 1. destruct (rs_res rs) as [rn|sp|].
    + apply bind_ok in E. destruct E as (i1 & E1 & E). apply bind_ok in E. destruct E as (i2 & E2 & E).
      apply bind_ok in E. destruct E as (a & E3 & E). apply bind_ok in E. destruct E as (b & E4 & E).
      apply bind_ok in E. destruct E as (tx & E5 & E). apply bind_ok in E. destruct E as (c & E6 & E).
      apply cadd_ok in E1, E2, E3, E4, E6. apply tax_ok in E5. subst. apply IH in E. cbn [fst snd] in E.
      unfold zsum in E. unfold locked. lia.
    + apply IH in E. unfold zsum in E. lia.
    + apply IH in E. unfold zsum in E. lia.
Qed.

(* what validateV2Siacoins' final comparison says *)
Lemma siacoins_balance s m t : validate_v2_siacoins s m t = Ok tt ->
  sum_sci t + zsum (map rolled (t2_res t)) = sum_sco t + sum_fc t + zsum (map relocked (t2_res t)) + t2_fee t.
Proof.
  intros E. unfold Validate.validate_v2_siacoins in E.
  apply bind_ok in E. destruct E as (u & _ & E). apply bind_ok in E. destruct E as (insum & E1 & E).
  apply bind_ok in E. destruct E as (o1 & E2 & E). apply bind_ok in E. destruct E as (o2 & E3 & E).
  apply bind_ok in E. destruct E as (io & E4 & E). apply bind_ok in E. destruct E as (o & E5 & E).
  destruct (fst io =? o) eqn:Q; [|discriminate]. apply Z.eqb_eq in Q.
  apply csum_ok in E1. apply out_sco_ok in E2. apply out_fc_ok in E3. apply io_res_ok in E4. destruct E4 as [E4a E4b].
  apply cadd_ok in E5. cbn [fst snd] in *. unfold sum_sci, sum_sco, sum_fc. lia.
Qed.

(* each accepted resolution releases exactly what it pays out, rolls over and forfeits *)
Lemma renewal_split s fc rn : validate_renewal s fc rn = Ok tt ->
  sco_value (rn_final_renter rn) + rn_renter_rollover rn + sco_value (rn_final_host rn) + rn_host_rollover rn = locked fc.
Proof.
  unfold Validate.validate_renewal, locked. intros E.
  destruct (negb (beq (c_renter_key fc) (c_renter_key (rn_new rn)))); [discriminate|].
  destruct (negb (beq (c_host_key fc) (c_host_key (rn_new rn)))); [discriminate|].
  apply bind_ok in E. destruct E as (a & E1 & E). apply bind_ok in E. destruct E as (b & E2 & E).
  apply bind_ok in E. destruct E as (total & E3 & E). apply bind_ok in E. destruct E as (ex & E4 & E).
  destruct (total =? ex) eqn:Q; cbn [negb] in E; [|discriminate]. apply Z.eqb_eq in Q.
  apply cadd_ok in E1, E2, E3, E4. lia.
Qed.
Lemma resolution_split s rs : validate_resolution s rs = Ok tt -> released rs = paid_out rs + rolled rs + forfeited rs.
Proof.
  unfold Validate.validate_resolution, released, paid_out, rolled, forfeited. intros E.
  destruct (rs_res rs) as [rn|sp|].
  - apply renewal_split in E. lia.
  - unfold locked. lia.
  - unfold locked. lia.
Qed.
Lemma check_resolutions_all s m revised l : forall resolved, check_resolutions s m revised l resolved = Ok tt ->
  Forall (fun rs => validate_resolution s rs = Ok tt) l.
Proof.
  induction l as [|rs l IH]; intros resolved E; [constructor|]. cbn [Validate.check_resolutions] in E.
  apply bind_ok in E. destruct E as (u & _ & E). apply bind_ok in E. destruct E as (u' & E1 & E). destruct u'.
  constructor; [exact E1 | eapply IH; exact E].
Qed.

(* the flow identity of an accepted v2 transaction *)
Theorem v2_value_flow s m t revised resolved :
  validate_v2_siacoins s m t = Ok tt -> check_resolutions s m revised (t2_res t) resolved = Ok tt ->
  sum_sci t + zsum (map released (t2_res t)) =
  sum_sco t + sum_fc t + zsum (map relocked (t2_res t)) + t2_fee t + zsum (map paid_out (t2_res t)) + zsum (map forfeited (t2_res t)).
Proof.
  intros E1 E2. pose proof (siacoins_balance s m t E1) as Bal. pose proof (check_resolutions_all s m revised _ resolved E2) as F.
  assert (Sp : zsum (map released (t2_res t)) = zsum (map paid_out (t2_res t)) + zsum (map rolled (t2_res t)) + zsum (map forfeited (t2_res t))).
  { clear - F. induction F as [|rs l Hrs _ IH]; [reflexivity|]. cbn [map zsum fold_right]. apply resolution_split in Hrs. unfold zsum in IH. lia. }
  lia.
Qed.
End Flow.

(* ---- v1 transactions (validateSiacoins): the values of the outputs an accepted transaction spends, as validation
   resolves them (from the block's own earlier transactions or from the supplement), equal its new outputs, the
   payouts of the contracts it forms, and its miner fees ---- *)
Section FlowV1.
Definition spent_value (m : mid) (ts : supp1) (i : sci1) : Z :=
  match sc_element m ts (i1_parent i) with Some (p, _) => sco_value (sce_out p) | None => 0 end.

Lemma in_sci1_ok s m ts l : forall acc r, in_sci1 s m ts l acc = Ok r -> r = acc + zsum (map (spent_value m ts) l).
Proof.
  induction l as [|i l IH]; intros acc r E; cbn [in_sci1 map zsum fold_right] in *.
  - inversion E. lia.
  - destruct (child s <? i1_timelock i); [discriminate|]. destruct (is_spent m (i1_parent i)); [discriminate|].
    unfold spent_value at 1. destruct (sc_element m ts (i1_parent i)) as [[p lf]|]; [|discriminate].
    destruct (negb (beq (i1_uh i) (sco_addr (sce_out p)))); [discriminate|]. destruct (child s <? sce_maturity p); [discriminate|].
    apply bind_ok in E. destruct E as (a & E1 & E2). apply cadd_ok in E1. subst a. apply IH in E2. unfold zsum in E2. lia.
Qed.
Lemma out_fees_ok l : forall acc r, out_fees l acc = Ok r -> r = acc + zsum l.
Proof.
  induction l as [|f l IH]; intros acc r E; cbn [out_fees zsum fold_right] in *.
  - inversion E. lia.
  - destruct (C128 <=? acc + f); [discriminate|]. apply IH in E. unfold zsum in E. lia.
Qed.

Theorem v1_value_flow s m t ts : validate_siacoins s m t ts = Ok tt ->
  zsum (map (spent_value m ts) (t1_sci t)) =
  zsum (map (fun x => sco_value (snd x)) (t1_sco t)) + zsum (map (fun x => fc_payout (snd (fst x))) (t1_fc t)) + zsum (t1_fees t).
Proof.
  unfold validate_siacoins. intros E.
  apply bind_ok in E. destruct E as (insum & E1 & E). apply bind_ok in E. destruct E as (o1 & E2 & E).
  apply bind_ok in E. destruct E as (o2 & E3 & E). apply bind_ok in E. destruct E as (o3 & E4 & E).
  destruct (insum =? o3) eqn:Q; [|discriminate]. apply Z.eqb_eq in Q.
  apply in_sci1_ok in E1. apply csum_ok in E2. apply csum_ok in E3. apply out_fees_ok in E4. lia.
Qed.
End FlowV1.
