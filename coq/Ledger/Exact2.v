(* C08, the other direction: a height rule of the v2 transaction path reports its error only when the height is on the wrong
   side of the bound. Every function of the path emits error codes of a known range only, so the code of a height rule can
   come from the site of that rule alone. *)
From Coq Require Import ZArith List Bool Lia.
From Sia Require Import Prim.Result Prim.Tok Policy.Model Ledger.Types Ledger.Mid Ledger.Validate.
Import ListNotations.
Open Scope Z_scope.

Lemma bind_err {A B} (a : R A) (f : A -> R B) c : (do x <- a; f x) = Err c -> a = Err c \/ exists x, a = Ok x /\ f x = Err c.
Proof. destruct a as [x|e|p]; cbn; intros E; [right; eauto | left; injection E as ->; reflexivity | discriminate]. Qed.

Lemma cadd_ne a b c : cadd a b <> Err c.
Proof. unfold cadd. destruct (C128 <=? a + b); discriminate. Qed.
Lemma cdiv64_ne a b c : cdiv64 a b <> Err c.
Proof. unfold cdiv64. destruct (b =? 0); discriminate. Qed.
Lemma v2_tax_ne fc c : v2_tax fc <> Err c.
Proof. unfold v2_tax. intros E. apply bind_err in E. destruct E as [E | (x & _ & E)]; [exact (cadd_ne _ _ _ E) | exact (cdiv64_ne _ _ _ E)]. Qed.
Lemma csum_ne l : forall acc c, csum l acc <> Err c.
Proof. induction l as [|x l IH]; intros acc c E; cbn [csum] in E; [discriminate|]. apply bind_err in E. destruct E as [E | (y & _ & E)]; [exact (cadd_ne _ _ _ E) | exact (IH _ _ E)]. Qed.

(* split a hypothesis [H : e = Err c] along binds, conditionals and matches down to the calls that produced the error *)
Ltac split_err H :=
  repeat match type of H with
  | Ok _ = Err _ => discriminate H
  | Panic _ = Err _ => discriminate H
  | cadd _ _ = Err _ => exfalso; exact (cadd_ne _ _ _ H)
  | v2_tax _ = Err _ => exfalso; exact (v2_tax_ne _ _ H)
  | csum _ _ = Err _ => exfalso; exact (csum_ne _ _ _ H)
  | err _ = Err _ => unfold err in H
  | bind ?a _ = Err _ => let x := fresh "x" in let Ex := fresh "Ex" in apply bind_err in H; destruct H as [H | (x & Ex & H)]
  | (if ?b then _ else _) = Err _ => let B := fresh "B" in destruct b eqn:B
  | (let '(_, _) := ?p in _) = Err _ => destruct p
  end.
Ltac dif H := match type of H with (if ?b then _ else _) = _ => destruct b end.
Ltac code H := injection H as H; subst; lia.

Section Exact2.
Variable H : bytes -> bytes.
Variable net : lnetwork.
Variable vt : vtab.
Variable pt : ptab.
Variable se sd : bytes.
Notation validate_policy := (validate_policy H vt pt se sd).
Notation validate_ephemeral_sc := (validate_ephemeral_sc net).
Notation validate_ephemeral_sf := (validate_ephemeral_sf net).
Notation validate_v2_siacoins := (validate_v2_siacoins H net vt pt se sd).
Notation validate_v2_siafunds := (validate_v2_siafunds H net vt pt se sd).
Notation check_sigs := (check_sigs vt).
Notation validate_contract := (validate_contract vt).
Notation validate_revision := (validate_revision net vt).
Notation validate_renewal := (validate_renewal vt).
Notation validate_resolution := (validate_resolution H vt).
Notation check_resolutions := (check_resolutions H vt).
Notation validate_v2_contracts := (validate_v2_contracts H net vt).
Notation validate_attestations := (validate_attestations vt).
Notation validate_txn2 := (validate_txn2 H net vt pt se sd).

(* ---- the codes each function can report ---- *)
Lemma overflow_codes t c : validate_v2_overflow t = Err c -> c = 71.
Proof. unfold validate_v2_overflow. cbv zeta. intros E. split_err E. code E. Qed.
Lemma policy_codes s sh sp a e1 e2 c : validate_policy s sh sp a e1 e2 = Err c -> c = e1 \/ c = e2.
Proof.
  unfold Validate.validate_policy. intros E. split_err E; [code E|].
  destruct (verify_policy _ _ _ _ _ _ _ _ _); [discriminate | code E | discriminate].
Qed.
Lemma eph_sc_codes s m p c : validate_ephemeral_sc s m p = Err c -> 77 <= c <= 79.
Proof.
  unfold Validate.validate_ephemeral_sc. intros E. destruct (elem_idx m _); [|code E]. destruct (nth_error _ _); [|code E].
  split_err E; code E.
Qed.
Lemma out_sco_codes l : forall acc c, out_sco l acc = Err c -> c = 84.
Proof. induction l as [|[i o] l IH]; intros acc c E; cbn [out_sco] in E; [discriminate|]. split_err E; [code E | exact (IH _ _ E)]. Qed.
Lemma out_fc_ne l : forall acc c, out_fc l acc <> Err c.
Proof. induction l as [|[i fc] l IH]; intros acc c E; cbn [out_fc] in E; [discriminate|]. split_err E. exact (IH _ _ E). Qed.
Lemma io_res_ne l : forall io c, io_res l io <> Err c.
Proof.
  induction l as [|rs l IH]; intros io c E; cbn [io_res] in E; [discriminate|].
  destruct (rs_res rs); try exact (IH _ _ E). split_err E. exact (IH _ _ E).
Qed.

(* ---- siacoin inputs: code 76 is the maturity rule ---- *)
Definition sci_loop (s : lstate) (m : mid) (sighash : bytes) :=
  fix go (l : list sci2) (seen : list id) : R unit :=
    match l with
    | [] => Ok tt
    | i :: r =>
      let p := i2_parent i in
      let pid := sce_id (p_val p) in
      if is_spent m pid then err 74
      else if existsb (beq pid) seen then err 75
      else if child s <? sce_maturity (p_val p) then err 76
      else
        do _ <- (if p_leaf p =? UNASSIGNED then validate_ephemeral_sc s m p
                 else let '(u, sp) := mem_sc s p in if u then Ok tt else if sp then err 80 else err 81);
        do _ <- validate_policy s sighash (i2_policy i) (sco_addr (sce_out (p_val p))) 82 83;
        go r (pid :: seen)
    end.
Lemma sci_loop_err s m sh l : forall seen c, sci_loop s m sh l seen = Err c ->
  74 <= c <= 83 /\ (c = 76 -> exists i, In i l /\ child s < sce_maturity (p_val (i2_parent i))).
Proof.
  induction l as [|i r IH]; intros seen c E; cbn [sci_loop] in E; [discriminate|]. cbv zeta in E.
  dif E; [split; [code E | intros ->; discriminate E]|].
  dif E; [split; [code E | intros ->; discriminate E]|].
  destruct (Z.ltb_spec (child s) (sce_maturity (p_val (i2_parent i)))) as [Lt|Ge].
  - split; [code E|]. intros _. exists i. split; [left; reflexivity | exact Lt].
  - apply bind_err in E. destruct E as [E | ([] & _ & E)].
    + assert (R : 77 <= c <= 81).
      { destruct (p_leaf (i2_parent i) =? UNASSIGNED); [pose proof (eph_sc_codes _ _ _ _ E); lia|]. destruct (mem_sc s (i2_parent i)) as [u sp]. destruct u; [discriminate|]. destruct sp; code E. }
      split; [lia | intros ->; lia].
    + apply bind_err in E. destruct E as [E | ([] & _ & E)].
      * apply policy_codes in E. split; [lia | intros ->; lia].
      * destruct (IH _ _ E) as [R1 R2]. split; [exact R1|]. intros Ec. destruct (R2 Ec) as (j & Hj & Lj). exists j. split; [right; exact Hj | exact Lj].
Qed.
Lemma siacoins_err s m t c : validate_v2_siacoins s m t = Err c ->
  74 <= c <= 85 /\ (c = 76 -> exists i, In i (t2_sci t) /\ child s < sce_maturity (p_val (i2_parent i))).
Proof.
  unfold Validate.validate_v2_siacoins. intros E. apply bind_err in E. destruct E as [E | ([] & _ & E)].
  - change (sci_loop s m (t2_sighash t) (t2_sci t) [] = Err c) in E. destruct (sci_loop_err _ _ _ _ _ _ E) as [R1 R2]. split; [lia | exact R2].
  - assert (R : c = 84 \/ c = 85).
    { apply bind_err in E. destruct E as [E | (x1 & _ & E)]; [exfalso; exact (csum_ne _ _ _ E)|].
      apply bind_err in E. destruct E as [E | (x2 & _ & E)]; [left; exact (out_sco_codes _ _ _ E)|].
      apply bind_err in E. destruct E as [E | (x3 & _ & E)]; [exfalso; exact (out_fc_ne _ _ _ E)|].
      apply bind_err in E. destruct E as [E | (x4 & _ & E)]; [exfalso; exact (io_res_ne _ _ _ E)|].
      apply bind_err in E. destruct E as [E | (x5 & _ & E)]; [exfalso; exact (cadd_ne _ _ _ E)|].
      destruct (fst x4 =? x5); [discriminate | right; code E]. }
    split; [lia | intros ->; lia].
Qed.

(* ---- siafund inputs: no height rule except the ephemeral gate ---- *)
Lemma eph_sf_codes s m p c : validate_ephemeral_sf s m p = Err c -> 88 <= c <= 89.
Proof.
  unfold Validate.validate_ephemeral_sf. intros E. destruct (elem_idx m _); [|code E]. destruct (nth_error _ _); [|code E].
  split_err E; code E.
Qed.
Lemma siafunds_codes s m t c : validate_v2_siafunds s m t = Err c -> 86 <= c <= 95.
Proof.
  unfold Validate.validate_v2_siafunds. intros E. apply bind_err in E. destruct E as [E | ([] & _ & E)].
  - revert E. generalize (@nil id) as seen. induction (t2_sfi t) as [|i r IH]; intros seen E; [discriminate|]. cbv beta iota zeta fix in E.
    dif E; [code E|]. dif E; [code E|].
    apply bind_err in E. destruct E as [E | ([] & _ & E)].
    + destruct (p_leaf (f2_parent i) =? UNASSIGNED); [pose proof (eph_sf_codes _ _ _ _ E); lia|]. destruct (mem_sf s (f2_parent i)) as [u sp]. destruct u; [discriminate|]. destruct sp; code E.
    + apply bind_err in E. destruct E as [E | ([] & _ & E)]; [apply policy_codes in E; lia | exact (IH _ E)].
  - cbv zeta in E. apply bind_err in E. destruct E as [E | (x & _ & E)].
    + revert E. generalize 0 at 2 as acc. induction (t2_sfo t) as [|[i [v a]] r IH]; intros acc E; [discriminate|]. cbv beta iota zeta fix in E.
      destruct (v =? 0); [code E | exact (IH _ E)].
    + destruct (_ =? x); [discriminate | code E].
Qed.

(* ---- contracts ---- *)
Lemma sigs_codes fc rk hk c : check_sigs fc rk hk = Err c -> 106 <= c <= 107.
Proof. unfold Validate.check_sigs. intros E. split_err E; code E. Qed.
Lemma contract_err s fc c : validate_contract s fc = Err c -> 100 <= c <= 107 /\ (c = 101 -> c_proof_height fc < child s).
Proof.
  unfold Validate.validate_contract. intros E. dif E; [split; [code E | intros ->; discriminate E]|].
  destruct (Z.ltb_spec (c_proof_height fc) (child s)) as [Lt|Ge]; [split; [code E | intros _; exact Lt]|].
  assert (R : 102 <= c <= 107) by (split_err E; try code E; apply sigs_codes in E; lia). split; [lia | intros ->; lia].
Qed.
(* the contract a revision is checked against: the latest revision of the block, or the presented one *)
Definition current (m : mid) (e : fce2) : R fc2 :=
  match elem_idx m (v2_id e) with
  | Some i => match nth_error (m_v2fces m) i with
              | Some d => match d_v2_rev d with Some r => Ok r | None => Ok (v2_fc e) end
              | None => Panic PIndex
              end
  | None => Ok (v2_fc e)
  end.
Lemma revision_err s m e rev c : validate_revision s m e rev = Err c ->
  (106 <= c <= 107 \/ 116 <= c <= 125) /\
  (c = 118 -> exists cur, current m e = Ok cur /\ c_proof_height cur < child s) /\
  (c = 124 -> c_proof_height rev < child s).
Proof.
  unfold Validate.validate_revision. fold (current m e). intros E.
  apply bind_err in E. destruct E as [E | (cur & Ec & E)].
  { exfalso. unfold current in E. destruct (elem_idx m _); [|discriminate]. destruct (nth_error _ _); [|discriminate]. destruct (d_v2_rev _); discriminate. }
  apply bind_err in E. destruct E as [E | (cs & _ & E)]; [exfalso; exact (cadd_ne _ _ _ E)|].
  apply bind_err in E. destruct E as [E | (rs & _ & E)]; [exfalso; exact (cadd_ne _ _ _ E)|].
  dif E; [split; [code E | split; intros ->; discriminate E]|].
  dif E; [split; [code E | split; intros ->; discriminate E]|].
  destruct (Z.ltb_spec (c_proof_height cur) (child s)) as [Lt|Ge]; [split; [code E | split; [intros _; exists cur; split; [exact Ec | exact Lt] | intros ->; discriminate E]]|].
  dif E; [split; [code E | split; intros ->; discriminate E]|].
  dif E; [split; [code E | split; intros ->; discriminate E]|].
  dif E; [split; [code E | split; intros ->; discriminate E]|].
  dif E; [split; [code E | split; intros ->; discriminate E]|].
  dif E; [split; [code E | split; intros ->; discriminate E]|].
  destruct (Z.ltb_spec (c_proof_height rev) (child s)) as [Lt2|Ge2]; [split; [code E | split; [intros ->; discriminate E | intros _; exact Lt2]]|].
  assert (R : c = 125 \/ 106 <= c <= 107) by (split_err E; [left; code E | right; exact (sigs_codes _ _ _ _ E)]).
  split; [lia | split; intros ->; lia].
Qed.
Lemma renewal_err s fc rn c : validate_renewal s fc rn = Err c ->
  (100 <= c <= 107 \/ 130 <= c <= 135) /\ (c = 101 -> c_proof_height (rn_new rn) < child s).
Proof.
  unfold Validate.validate_renewal. intros E. split_err E; try (split; [code E | intros ->; discriminate E]).
  destruct (contract_err _ _ _ E) as [R1 R2]. split; [lia | exact R2].
Qed.
Lemma parent2_codes s m p rv rs c : validate_parent2 s m p rv rs = Err c -> 110 <= c <= 114.
Proof. unfold validate_parent2. cbv zeta. intros E. split_err E; code E. Qed.
Lemma resolution_err s rs c : validate_resolution s rs = Err c ->
  (100 <= c <= 107 \/ 130 <= c <= 140) /\
  (c = 101 -> exists rn, rs_res rs = RRenewal rn /\ c_proof_height (rn_new rn) < child s) /\
  (c = 136 -> exists sp, rs_res rs = RProof sp /\ child s < c_proof_height (v2_fc (p_val (rs_parent rs)))) /\
  (c = 140 -> rs_res rs = RExpiration /\ child s <= c_exp_height (v2_fc (p_val (rs_parent rs)))).
Proof.
  unfold Validate.validate_resolution. cbv zeta. intros E. destruct (rs_res rs) as [rn|sp|] eqn:Er.
  - destruct (renewal_err _ _ _ _ E) as [R1 R2]. split; [lia|]. split; [intros Ec; exists rn; split; [reflexivity | exact (R2 Ec)]|]. split; intros ->; lia.
  - destruct (Z.ltb_spec (child s) (c_proof_height (v2_fc (p_val (rs_parent rs))))) as [Lt|Ge].
    + split; [code E|]. split; [intros ->; discriminate E|]. split; [intros _; exists sp; split; [reflexivity | exact Lt] | intros ->; discriminate E].
    + assert (R : 137 <= c <= 139) by (split_err E; code E). split; [lia|]. split; [|split]; intros ->; lia.
  - destruct (Z.leb_spec (child s) (c_exp_height (v2_fc (p_val (rs_parent rs))))) as [Le|Gt]; [|discriminate].
    split; [code E|]. split; [intros ->; discriminate E|]. split; [intros ->; discriminate E | intros _; split; [reflexivity | exact Le]].
Qed.

Definition RenewalOf (l : list res2) (fc : fc2) : Prop := exists rs rn, In rs l /\ rs_res rs = RRenewal rn /\ fc = rn_new rn.
Lemma check_resolutions_err s m revised l : forall resolved c, check_resolutions s m revised l resolved = Err c ->
  (100 <= c <= 114 \/ 130 <= c <= 140) /\
  (c = 101 -> exists fc, RenewalOf l fc /\ c_proof_height fc < child s) /\
  (c = 136 -> exists rs sp, In rs l /\ rs_res rs = RProof sp /\ child s < c_proof_height (v2_fc (p_val (rs_parent rs)))) /\
  (c = 140 -> exists rs, In rs l /\ rs_res rs = RExpiration /\ child s <= c_exp_height (v2_fc (p_val (rs_parent rs)))).
Proof.
  induction l as [|rs r IH]; intros resolved c E; cbn [Validate.check_resolutions] in E; [discriminate|].
  apply bind_err in E. destruct E as [E | ([] & _ & E)].
  { apply parent2_codes in E. split; [lia|]. split; [|split]; intros ->; lia. }
  apply bind_err in E. destruct E as [E | ([] & _ & E)].
  - destruct (resolution_err _ _ _ E) as (R0 & R1 & R2 & R3). split; [lia|]. split; [|split].
    + intros Ec. destruct (R1 Ec) as (rn & Ern & Lt). exists (rn_new rn). split; [exists rs, rn; split; [left; reflexivity | split; [exact Ern | reflexivity]] | exact Lt].
    + intros Ec. destruct (R2 Ec) as (sp & Esp & Lt). exists rs, sp. split; [left; reflexivity | split; assumption].
    + intros Ec. destruct (R3 Ec) as (Ex & Le). exists rs. split; [left; reflexivity | split; assumption].
  - destruct (IH _ _ E) as (R0 & R1 & R2 & R3). split; [exact R0|]. split; [|split].
    + intros Ec. destruct (R1 Ec) as (fc & (rs' & rn & Hin & Ern & Efc) & Lt). exists fc. split; [exists rs', rn; split; [right; exact Hin | split; assumption] | exact Lt].
    + intros Ec. destruct (R2 Ec) as (rs' & sp & Hin & Esp & Lt). exists rs', sp. split; [right; exact Hin | split; assumption].
    + intros Ec. destruct (R3 Ec) as (rs' & Hin & Ex & Le). exists rs'. split; [right; exact Hin | split; assumption].
Qed.

Definition fc_loop (s : lstate) := fix go (l : list (id * fc2)) : R unit := match l with [] => Ok tt | (_, fc) :: r => do _ <- validate_contract s fc; go r end.
Lemma fc_loop_err s l c : fc_loop s l = Err c -> 100 <= c <= 107 /\ (c = 101 -> exists x, In x l /\ c_proof_height (snd x) < child s).
Proof.
  induction l as [|[i fc] r IH]; intros E; cbn [fc_loop] in E; [discriminate|]. apply bind_err in E. destruct E as [E | ([] & _ & E)].
  - destruct (contract_err _ _ _ E) as [R1 R2]. split; [exact R1|]. intros Ec. exists (i, fc). split; [left; reflexivity | exact (R2 Ec)].
  - destruct (IH E) as [R1 R2]. split; [exact R1|]. intros Ec. destruct (R2 Ec) as (x & Hx & Lt). exists x. split; [right; exact Hx | exact Lt].
Qed.
Definition rev_loop (s : lstate) (m : mid) :=
  fix go (l : list rev2) (revised : list id) : R (list id) :=
    match l with
    | [] => Ok revised
    | rv :: r =>
      do _ <- validate_parent2 s m (r2_parent rv) revised [];
      if c_proof_height (v2_fc (p_val (r2_parent rv))) <? child s then err 115
      else do _ <- validate_revision s m (p_val (r2_parent rv)) (r2_rev rv);
        go r (v2_id (p_val (r2_parent rv)) :: revised)
    end.
Lemma rev_loop_err s m l : forall revised c, rev_loop s m l revised = Err c ->
  (106 <= c <= 107 \/ 110 <= c <= 125) /\
  (c = 115 -> exists rv, In rv l /\ c_proof_height (v2_fc (p_val (r2_parent rv))) < child s) /\
  (c = 118 -> exists rv cur, In rv l /\ current m (p_val (r2_parent rv)) = Ok cur /\ c_proof_height cur < child s) /\
  (c = 124 -> exists rv, In rv l /\ c_proof_height (r2_rev rv) < child s).
Proof.
  induction l as [|rv r IH]; intros revised c E; cbn [rev_loop] in E; [discriminate|].
  apply bind_err in E. destruct E as [E | ([] & _ & E)].
  { apply parent2_codes in E. split; [lia|]. split; [|split]; intros ->; lia. }
  destruct (Z.ltb_spec (c_proof_height (v2_fc (p_val (r2_parent rv)))) (child s)) as [Lt|Ge].
  { split; [code E|]. split; [intros _; exists rv; split; [left; reflexivity | exact Lt]|]. split; intros ->; discriminate E. }
  apply bind_err in E. destruct E as [E | ([] & _ & E)].
  - destruct (revision_err _ _ _ _ _ E) as (R0 & R1 & R2). split; [lia|]. split; [intros ->; lia|]. split.
    + intros Ec. destruct (R1 Ec) as (cur & Ecur & Lt). exists rv, cur. split; [left; reflexivity | split; assumption].
    + intros Ec. exists rv. split; [left; reflexivity | exact (R2 Ec)].
  - destruct (IH _ _ E) as (R0 & R1 & R2 & R3). split; [exact R0|]. split; [|split].
    + intros Ec. destruct (R1 Ec) as (rv' & Hin & Lt). exists rv'. split; [right; exact Hin | exact Lt].
    + intros Ec. destruct (R2 Ec) as (rv' & cur & Hin & Ecur & Lt). exists rv', cur. split; [right; exact Hin | split; assumption].
    + intros Ec. destruct (R3 Ec) as (rv' & Hin & Lt). exists rv'. split; [right; exact Hin | exact Lt].
Qed.

(* a contract formed by the transaction: a new contract or the new contract of a renewal *)
Definition Formed (t : txn2) (fc : fc2) : Prop := (exists x, In x (t2_fc t) /\ fc = snd x) \/ RenewalOf (t2_res t) fc.
Lemma contracts_err s m t c : validate_v2_contracts s m t = Err c ->
  100 <= c <= 140 /\
  (c = 101 -> exists fc, Formed t fc /\ c_proof_height fc < child s) /\
  (c = 115 -> exists rv, In rv (t2_rev t) /\ c_proof_height (v2_fc (p_val (r2_parent rv))) < child s) /\
  (c = 118 -> exists rv cur, In rv (t2_rev t) /\ current m (p_val (r2_parent rv)) = Ok cur /\ c_proof_height cur < child s) /\
  (c = 124 -> exists rv, In rv (t2_rev t) /\ c_proof_height (r2_rev rv) < child s) /\
  (c = 136 -> exists rs sp, In rs (t2_res t) /\ rs_res rs = RProof sp /\ child s < c_proof_height (v2_fc (p_val (rs_parent rs)))) /\
  (c = 140 -> exists rs, In rs (t2_res t) /\ rs_res rs = RExpiration /\ child s <= c_exp_height (v2_fc (p_val (rs_parent rs)))).
Proof.
  unfold Validate.validate_v2_contracts. intros E. apply bind_err in E. destruct E as [E | ([] & _ & E)].
  { change (fc_loop s (t2_fc t) = Err c) in E. destruct (fc_loop_err _ _ _ E) as [R0 R1]. split; [lia|].
    split; [intros Ec; destruct (R1 Ec) as (x & Hx & Lt); exists (snd x); split; [left; exists x; split; [exact Hx | reflexivity] | exact Lt]|].
    repeat split; intros ->; lia. }
  apply bind_err in E. destruct E as [E | (revised & _ & E)].
  { change (rev_loop s m (t2_rev t) [] = Err c) in E. destruct (rev_loop_err _ _ _ _ _ E) as (R0 & R1 & R2 & R3). split; [lia|].
    split; [intros ->; lia|]. split; [exact R1|]. split; [exact R2|]. split; [exact R3|]. split; intros ->; lia. }
  destruct (check_resolutions_err _ _ _ _ _ _ E) as (R0 & R1 & R2 & R3). split; [lia|].
  split; [intros Ec; destruct (R1 Ec) as (fc & Hf & Lt); exists fc; split; [right; exact Hf | exact Lt]|].
  split; [intros ->; lia|]. split; [intros ->; lia|]. split; [intros ->; lia|]. split; [exact R2 | exact R3].
Qed.

Lemma attestations_codes t c : validate_attestations t = Err c -> 141 <= c <= 142.
Proof.
  unfold Validate.validate_attestations. induction (t2_att t) as [|a r IH]; intros E; [discriminate|]. cbv beta iota zeta fix in E.
  dif E; [code E|]. dif E; [code E | exact (IH E)].
Qed.
Lemma foundation_codes s t c : validate_foundation_update s t = Err c -> c = 143.
Proof. unfold validate_foundation_update. intros E. destruct (t2_new_foundation t); [|discriminate]. dif E; [discriminate | code E]. Qed.

(* ---- the transaction ---- *)
Theorem txn2_height_errors s m t c : validate_txn2 s m t = Err c ->
  70 <= c <= 143 /\
  (c = 70 -> child s < ln_v2_allow net) /\
  (c = 76 -> exists i, In i (t2_sci t) /\ child s < sce_maturity (p_val (i2_parent i))) /\
  (c = 101 -> exists fc, Formed t fc /\ c_proof_height fc < child s) /\
  (c = 115 -> exists rv, In rv (t2_rev t) /\ c_proof_height (v2_fc (p_val (r2_parent rv))) < child s) /\
  (c = 118 -> exists rv cur, In rv (t2_rev t) /\ current m (p_val (r2_parent rv)) = Ok cur /\ c_proof_height cur < child s) /\
  (c = 124 -> exists rv, In rv (t2_rev t) /\ c_proof_height (r2_rev rv) < child s) /\
  (c = 136 -> exists rs sp, In rs (t2_res t) /\ rs_res rs = RProof sp /\ child s < c_proof_height (v2_fc (p_val (rs_parent rs)))) /\
  (c = 140 -> exists rs, In rs (t2_res t) /\ rs_res rs = RExpiration /\ child s <= c_exp_height (v2_fc (p_val (rs_parent rs)))).
Proof.
  unfold Validate.validate_txn2. intros E.
  destruct (Z.ltb_spec (child s) (ln_v2_allow net)) as [Lt|Ge].
  { split; [code E|]. split; [intros _; exact Lt|]. repeat split; intros ->; discriminate E. }
  apply bind_err in E. destruct E as [E | ([] & _ & E)].
  { apply overflow_codes in E. split; [lia|]. repeat split; intros ->; lia. }
  dif E; [split; [code E | repeat split; intros ->; discriminate E]|].
  dif E; [split; [code E | repeat split; intros ->; discriminate E]|].
  apply bind_err in E. destruct E as [E | ([] & _ & E)].
  { destruct (siacoins_err _ _ _ _ E) as [R0 R1]. split; [lia|]. split; [intros ->; lia|]. split; [exact R1|]. repeat split; intros ->; lia. }
  apply bind_err in E. destruct E as [E | ([] & _ & E)].
  { apply siafunds_codes in E. split; [lia|]. repeat split; intros ->; lia. }
  apply bind_err in E. destruct E as [E | ([] & _ & E)].
  { destruct (contracts_err _ _ _ _ E) as (R0 & R1 & R2 & R3 & R4 & R5 & R6). split; [lia|]. split; [intros ->; lia|]. split; [intros ->; lia|].
    repeat split; assumption. }
  apply bind_err in E. destruct E as [E | ([] & _ & E)].
  { apply attestations_codes in E. split; [lia|]. repeat split; intros ->; lia. }
  apply foundation_codes in E. split; [lia|]. repeat split; intros ->; lia.
Qed.
End Exact2.
Print Assumptions txn2_height_errors.
