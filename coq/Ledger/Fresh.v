(* C02: the hypotheses of the marking theorem for siacoin elements as decidable checks of the block. *)
From Coq Require Import ZArith List Bool Lia.
From Sia Require Import Prim.Result Prim.Tok Policy.Model Ledger.Types Ledger.Mid Ledger.Validate Ledger.Apply Ledger.Proofs Ledger.Persist Ledger.Marks1 Ledger.Marks2 Ledger.Marks3 Ledger.Wk2 Ledger.Kinds.
Import ListNotations.
Open Scope Z_scope.

(* siacoin elements the v2 transactions and the block itself create, and the siacoin parents the v2 transactions consume *)
Definition sc_created2 (t : txn2) : list id :=
  map (fun x : id * sco => fst x) (t2_sco t) ++ map f2_claim_id (t2_sfi t) ++ flat_map (fun rs => [rs_renter_id rs; rs_host_id rs]) (t2_res t).
Definition sc_createdB (b : lblock) : list id := flat_map sc_created2 (b_v2txns b) ++ map (fun p : id * sco => fst p) (b_payouts b) ++ [b_foundation_id b].
Definition sc_parents2 (t : txn2) : list (id * Z) := map (fun i => (sce_id (p_val (i2_parent i)), p_leaf (i2_parent i))) (t2_sci t).
Definition sc_parentsB (b : lblock) : list (id * Z) := flat_map sc_parents2 (b_v2txns b).
(* for every consumed element with an assigned leaf (not created in this block): nothing is created under its ID, and inputs
   with the same parent ID present the same leaf *)
Definition fresh_sc (b : lblock) : bool :=
  forallb (fun p => (snd p =? UNASSIGNED) ||
                    (negb (existsb (beq (fst p)) (sc_createdB b)) &&
                     forallb (fun q => negb (beq (fst q) (fst p)) || (snd q =? snd p)) (sc_parentsB b))) (sc_parentsB b).

Section FreshSC.
Variable b : lblock.
Hypothesis C : consistent (declsB b) = true.
Hypothesis F : fresh_sc b = true.
Notation kf := (kind_from (declsB b)).
Variables (t0 : txn2) (i0 : sci2).
Hypothesis Ht0 : In t0 (b_v2txns b).
Hypothesis Hi0 : In i0 (t2_sci t0).
Notation id0 := (sce_id (p_val (i2_parent i0))).
Notation lf0 := (p_leaf (i2_parent i0)).

Lemma parent0 : In (id0, lf0) (sc_parentsB b).
Proof. unfold sc_parentsB. apply in_flat_map. exists t0. split; [exact Ht0|]. unfold sc_parents2. apply in_map_iff. exists i0. split; [reflexivity | exact Hi0]. Qed.
Hypothesis Nun : lf0 <> UNASSIGNED.
Lemma fresh0 : negb (existsb (beq id0) (sc_createdB b)) = true /\ forallb (fun q => negb (beq (fst q) id0) || (snd q =? lf0)) (sc_parentsB b) = true.
Proof.
  unfold fresh_sc in F. rewrite forallb_forall in F. specialize (F _ parent0). cbn [fst snd] in F.
  destruct (Z.eqb_spec lf0 UNASSIGNED); [contradiction|]. cbn [orb] in F. apply andb_true_iff in F. exact F.
Qed.
Lemma not_created c : In c (sc_createdB b) -> c <> id0.
Proof.
  intros Hc E. destruct fresh0 as [F1 _]. apply negb_true_iff in F1.
  assert (X : existsb (beq id0) (sc_createdB b) = true) by (apply existsb_exists; exists c; split; [exact Hc | rewrite E; apply beq_refl]). congruence.
Qed.
Lemma same_leaf i lf : In (i, lf) (sc_parentsB b) -> i = id0 -> lf = lf0.
Proof.
  intros Hp E. destruct fresh0 as [_ F2]. rewrite forallb_forall in F2. specialize (F2 _ Hp). cbn [fst snd] in F2. rewrite E, beq_refl in F2. cbn in F2. apply Z.eqb_eq. exact F2.
Qed.
Lemma kind0 : kf id0 = KSC.
Proof. destruct (kinds2 b C t0 Ht0) as (K1 & _). rewrite Forall_forall in K1. exact (K1 i0 Hi0). Qed.

Lemma txok t : In t (b_v2txns b) -> Marks2.TxOK kf id0 lf0 t.
Proof.
  intros Ht. destruct (kinds2 b C t Ht) as (K1 & K2 & K3 & K4 & K5 & K6 & K7 & K8).
  assert (Cr : forall c, In c (sc_created2 t) -> c <> id0).
  { intros c Hc. apply not_created. unfold sc_createdB. apply in_or_app. left. apply in_flat_map. exists t. split; assumption. }
  unfold Marks2.TxOK. repeat split; try assumption.
  - rewrite Forall_forall in *. intros i Hi. split; [exact (K1 i Hi)|]. intros E. apply (same_leaf _ _ ltac:(unfold sc_parentsB; apply in_flat_map; exists t; split; [exact Ht | unfold sc_parents2; apply in_map_iff; exists i; split; [reflexivity | exact Hi]]) E).
  - rewrite Forall_forall in *. intros x Hx. split; [exact (K2 x Hx)|]. apply Cr. unfold sc_created2. apply in_or_app. left. apply in_map_iff. exists x. auto.
  - rewrite Forall_forall in *. intros x Hx. destruct (K3 x Hx) as [A B]. split; [exact A|]. split; [exact B|]. apply Cr. unfold sc_created2. apply in_or_app. right. apply in_or_app. left. apply in_map_iff. exists x. auto.
  - rewrite Forall_forall in *. intros rs Hrs. destruct (K7 rs Hrs) as (A & B & D & E). split; [exact A|]. split; [exact B|].
    split; [apply Cr; unfold sc_created2; do 2 (apply in_or_app; right); apply in_flat_map; exists rs; split; [exact Hrs | left; reflexivity]|].
    split; [exact D|]. split; [apply Cr; unfold sc_created2; do 2 (apply in_or_app; right); apply in_flat_map; exists rs; split; [exact Hrs | right; left; reflexivity] | exact E].
Qed.
Lemma payouts_ok : Forall (fun p : id * sco => kf (fst p) = KSC /\ fst p <> id0) (b_payouts b).
Proof.
  destruct (consistent_kinds b C) as (_ & _ & Kp & _). rewrite Forall_forall in *. intros p Hp. split; [exact (Kp p Hp)|].
  apply not_created. unfold sc_createdB. apply in_or_app. right. apply in_or_app. left. apply in_map_iff. exists p. auto.
Qed.
Lemma foundation_ok : kf (b_foundation_id b) = KSC /\ b_foundation_id b <> id0.
Proof.
  destruct (consistent_kinds b C) as (_ & _ & _ & Kf & _). split; [exact Kf|]. apply not_created. unfold sc_createdB. do 2 (apply in_or_app; right). left. reflexivity.
Qed.
End FreshSC.

(* the marking theorem with checks in place of hypotheses: an accepted v2-only block that passes the two checks marks the
   leaf of every siacoin input it consumes *)
Theorem consumed_marked_checked H net vt pt se sd s b s' m t0 i0 :
  validate_block H net vt pt se sd s b = Ok tt -> apply_block net s b = Ok (s', m) -> b_txns b = [] -> b_expiring b = [] ->
  consistent (declsB b) = true -> fresh_sc b = true ->
  In t0 (b_v2txns b) -> In i0 (t2_sci t0) -> p_leaf (i2_parent i0) <> UNASSIGNED ->
  SpentAt (s_leaves s') (Z.to_nat (p_leaf (i2_parent i0))).
Proof.
  intros V A T0 X0 C F Ht0 Hi0 Nun.
  apply (consumed_leaf_marked H net vt pt se sd s (kind_from (declsB b)) (sce_id (p_val (i2_parent i0))) (p_leaf (i2_parent i0))
           (kind0 b C t0 i0 Ht0 Hi0) b s' m t0 i0 V A T0 X0); try assumption; try reflexivity.
  - apply Forall_forall. intros t Ht. exact (txok b C F t0 i0 Ht0 Hi0 Nun t Ht).
  - exact (payouts_ok b C F t0 i0 Ht0 Hi0 Nun).
  - exact (proj1 (foundation_ok b C F t0 i0 Ht0 Hi0 Nun)).
  - exact (proj2 (foundation_ok b C F t0 i0 Ht0 Hi0 Nun)).
Qed.
