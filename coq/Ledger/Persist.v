(* C02 over histories: a leaf that is marked spent stays marked spent through every accepted v2-only block, so no later
   block of the chain is accepted with an input that points at it. *)
From Coq Require Import ZArith List Bool Lia.
From Sia Require Import Prim.Result Prim.Tok Policy.Model Ledger.Types Ledger.Mid Ledger.Validate Ledger.Apply Ledger.Proofs Ledger.Spends.
Import ListNotations.
Open Scope Z_scope.

(* ---- lists ---- *)
Lemma set_nth_forall {A} (P : A -> Prop) (x : A) : forall k l, Forall P l -> P x -> Forall P (set_nth k x l).
Proof.
  induction k as [|k IH]; intros l F Px; destruct l as [|y r]; cbn [set_nth]; try constructor; inversion F; subst; auto.
Qed.
Lemma put_forall {A} (P : A -> Prop) k fresh (x : A) l : Forall P l -> P x -> Forall P (put k fresh x l).
Proof. intros F Px. unfold put. destruct fresh; [apply Forall_app; split; [exact F | constructor; [exact Px | constructor]] | apply set_nth_forall; assumption]. Qed.
Lemma nth_forall {A} (P : A -> Prop) (l : list A) k d : Forall P l -> (k < length l)%nat -> P (nth k l d).
Proof. intros F L. rewrite Forall_forall in F. apply F. apply nth_In. exact L. Qed.
Lemma slot_old {A} m i (l : list A) k : slot m i l = Ok (k, false) -> (k < length l)%nat.
Proof.
  unfold slot. destruct (elem_idx m i) as [k'|]; [|intros E; inversion E].
  destruct (Nat.ltb_spec k' (length l)); [intros E; inversion E; subst; assumption | discriminate].
Qed.
Lemma set_nth_same {A} (x : A) : forall k l, (k < length l)%nat -> nth_error (set_nth k x l) k = Some x.
Proof. induction k as [|k IH]; intros [|y r] L; cbn in *; try lia; [reflexivity | apply IH; lia]. Qed.
Lemma set_nth_other {A} (x : A) : forall k l j, j <> k -> nth_error (set_nth k x l) j = nth_error l j.
Proof.
  induction k as [|k IH]; intros [|y r] j Ne; cbn [set_nth]; try reflexivity.
  - destruct j; [contradiction | reflexivity].
  - destruct j; [reflexivity|]. cbn [nth_error]. apply IH. lia.
Qed.
Lemma set_nth_length {A} (x : A) : forall k l, length (set_nth k x l) = length l.
Proof. induction k as [|k IH]; intros [|y r]; cbn; auto. Qed.

Section Persist.
Variable H : bytes -> bytes.
Variable net : lnetwork.
Variable vt : vtab.
Variable pt : ptab.
Variable se sd : bytes.
Variable s : lstate.
Notation apply_txn2 := (apply_txn2 net).
Notation validate_txn2 := (validate_txn2 H net vt pt se sd).

(* the leaf a v2 contract diff points at is an unresolved v2 contract leaf of the parent state *)
Definition live_v2 (j : Z) : Prop := exists e, nth_error (s_leaves s) (Z.to_nat j) = Some {| l_elem := EV2 e; l_spent := false |}.

Definition Psc (d : sced) : Prop := d_sc_leaf d = UNASSIGNED \/ d_sc_spent d = true.
Definition Psf (d : sfed) : Prop := d_sf_leaf d = UNASSIGNED \/ d_sf_spent d = true.
Definition Pv2 (d : v2fced) : Prop := d_v2_leaf d = UNASSIGNED \/ d_v2_res d <> None \/ live_v2 (d_v2_leaf d).
Definition Inv (m : mid) : Prop := Forall Psc (m_sces m) /\ Forall Psf (m_sfes m) /\ m_fces m = [] /\ Forall Pv2 (m_v2fces m).

Lemma inv_new : Inv (new_mid s).
Proof. unfold Inv, new_mid. cbn. repeat split; constructor. Qed.

(* ---- every primitive keeps the invariant ---- *)
Lemma create_sce_inv m i o mt m' : create_sce m i o mt = Ok m' -> Inv m -> Inv m'.
Proof.
  unfold create_sce. intros E (I1 & I2 & I3 & I4). apply bind_ok in E. destruct E as ([k fresh] & _ & E). inversion E; subst. clear E.
  unfold Inv, with_sces. cbn. repeat split; try assumption. apply put_forall; [exact I1|]. left. reflexivity.
Qed.
Lemma spend_sce_inv m e lf tx m' : spend_sce m e lf tx = Ok m' -> Inv m -> Inv m'.
Proof.
  unfold spend_sce. intros E (I1 & I2 & I3 & I4). apply bind_ok in E. destruct E as ([k fresh] & _ & E). inversion E; subst. clear E.
  unfold Inv, with_sces. cbn. repeat split; try assumption. apply put_forall; [exact I1|]. right. reflexivity.
Qed.
Lemma create_sfe_inv m i v a m' : create_sfe m i v a = Ok m' -> Inv m -> Inv m'.
Proof.
  unfold create_sfe. intros E (I1 & I2 & I3 & I4). apply bind_ok in E. destruct E as ([k fresh] & _ & E). inversion E; subst. clear E.
  unfold Inv, with_sfes. cbn. repeat split; try assumption. apply put_forall; [exact I2|]. left. reflexivity.
Qed.
Lemma spend_sfe_inv m e lf tx m' : spend_sfe m e lf tx = Ok m' -> Inv m -> Inv m'.
Proof.
  unfold spend_sfe. intros E (I1 & I2 & I3 & I4). apply bind_ok in E. destruct E as ([k fresh] & _ & E). inversion E; subst. clear E.
  unfold Inv, with_sfes. cbn. repeat split; try assumption. apply put_forall; [exact I2|]. right. reflexivity.
Qed.
Lemma create_v2_inv m i fc m' : create_v2 m i fc = Ok m' -> Inv m -> Inv m'.
Proof.
  unfold create_v2. intros E (I1 & I2 & I3 & I4). apply bind_ok in E. destruct E as ([k fresh] & _ & E).
  apply bind_ok in E. destruct E as (tax & _ & E). apply bind_ok in E. destruct E as (pool & _ & E). inversion E; subst. clear E.
  unfold Inv, with_v2fces. cbn. repeat split; try assumption. apply put_forall; [exact I4|]. left. reflexivity.
Qed.
Lemma resolve_v2_inv m e lf kind tx m' : resolve_v2 m e lf kind tx = Ok m' -> Inv m -> Inv m'.
Proof.
  unfold resolve_v2. intros E (I1 & I2 & I3 & I4). apply bind_ok in E. destruct E as ([k fresh] & _ & E).
  destruct (d_v2_created (nth k (m_v2fces m) dummy_v2fced)); [discriminate|]. inversion E; subst. clear E.
  unfold Inv, with_v2fces. cbn. repeat split; try assumption. apply put_forall; [exact I4|]. right. left. cbn. discriminate.
Qed.
Lemma revise_v2_inv m e lf rev m' : live_v2 lf -> revise_v2 m e lf rev = Ok m' -> Inv m -> Inv m'.
Proof.
  unfold revise_v2. intros Lv E (I1 & I2 & I3 & I4). apply bind_ok in E. destruct E as ([k fresh] & Sl & E). inversion E; subst. clear E.
  unfold Inv, with_v2fces. cbn. repeat split; try assumption. apply put_forall; [exact I4|].
  destruct fresh.
  - (* a fresh slot: the old entry is the dummy, the diff records the presented leaf *)
    assert (k = length (m_v2fces m)) by (unfold slot in Sl; destruct (elem_idx m (v2_id e)) as [k'|]; [destruct (k' <? length (m_v2fces m))%nat; inversion Sl | inversion Sl; reflexivity]).
    subst k. rewrite nth_overflow by lia. cbn. right. right. exact Lv.
  - pose proof (nth_forall Pv2 _ k dummy_v2fced I4 (slot_old _ _ _ _ Sl)) as Po. set (old := nth k (m_v2fces m) dummy_v2fced) in *.
    destruct (d_v2_created old); [exact Po|]. destruct (d_v2_rev old); [exact Po|]. cbn. unfold Pv2 in *. cbn.
    right. destruct Po as [Po|[Po|Po]]; [right; exact Lv | left; exact Po | right; exact Lv].
Qed.
Lemma create_att_inv m i : Inv m -> Inv (create_att m i).
Proof. intros I. exact I. Qed.
Lemma with_foundation_inv m a b : Inv m -> Inv (with_foundation m a b).
Proof. intros I. exact I. Qed.

Lemma fold_r_inv {A} (P : A -> Prop) (f : mid -> A -> R mid) :
  (forall m x m', P x -> f m x = Ok m' -> Inv m -> Inv m') -> forall l m m', Forall P l -> fold_r f l m = Ok m' -> Inv m -> Inv m'.
Proof.
  intros Hf. induction l as [|x r IH]; intros m m' F E I; cbn [fold_r] in E; [inversion E; subst; exact I|].
  inversion F; subst. apply bind_ok in E. destruct E as (m1 & E1 & E). apply (IH m1 m'); [assumption | exact E | eapply Hf; eassumption].
Qed.
Lemma Forall_true {A} (l : list A) : Forall (fun _ => True) l.
Proof. induction l; constructor; auto. Qed.

(* ---- one transaction ---- *)
Lemma apply_txn2_inv m t m' : Forall (fun rv => live_v2 (p_leaf (r2_parent rv))) (t2_rev t) -> apply_txn2 s m t = Ok m' -> Inv m -> Inv m'.
Proof.
  intros Lv E I. unfold Apply.apply_txn2 in E.
  apply bind_ok in E. destruct E as (m1 & E1 & E). apply bind_ok in E. destruct E as (m2 & E2 & E).
  apply bind_ok in E. destruct E as (m3 & E3 & E). apply bind_ok in E. destruct E as (m4 & E4 & E).
  apply bind_ok in E. destruct E as (m5 & E5 & E). apply bind_ok in E. destruct E as (m6 & E6 & E).
  apply bind_ok in E. destruct E as (m7 & E7 & E).
  assert (I1 : Inv m1) by (refine (fold_r_inv (fun _ => True) _ _ _ _ _ (Forall_true _) E1 I); intros ? ? ? _ Ex; exact (spend_sce_inv _ _ _ _ _ Ex)).
  assert (I2 : Inv m2) by (refine (fold_r_inv (fun _ => True) _ _ _ _ _ (Forall_true _) E2 I1); intros ? ? ? _ Ex; exact (create_sce_inv _ _ _ _ _ Ex)).
  assert (I3 : Inv m3).
  { refine (fold_r_inv (fun _ => True) _ _ _ _ _ (Forall_true _) E3 I2). intros m0 x m0' _ Ex I0.
    apply bind_ok in Ex. destruct Ex as (ma & Ea & Ex). apply bind_ok in Ex. destruct Ex as (c & _ & Ex).
    apply (create_sce_inv _ _ _ _ _ Ex). apply (spend_sfe_inv _ _ _ _ _ Ea). exact I0. }
  assert (I4 : Inv m4) by (refine (fold_r_inv (fun _ => True) _ _ _ _ _ (Forall_true _) E4 I3); intros ? ? ? _ Ex; exact (create_sfe_inv _ _ _ _ _ Ex)).
  assert (I5 : Inv m5) by (refine (fold_r_inv (fun _ => True) _ _ _ _ _ (Forall_true _) E5 I4); intros ? ? ? _ Ex; exact (create_v2_inv _ _ _ _ Ex)).
  assert (I6 : Inv m6) by (refine (fold_r_inv _ _ _ _ _ _ Lv E6 I5); intros m0 rv m0' Lx Ex; apply (revise_v2_inv _ _ _ _ _ Lx Ex)).
  assert (I7 : Inv m7).
  { refine (fold_r_inv (fun _ => True) _ _ _ _ _ (Forall_true _) E7 I6). intros m0 rs m0' _ Ex I0. cbv zeta in Ex.
    apply bind_ok in Ex. destruct Ex as (ma & Ea & Ex). apply bind_ok in Ex. destruct Ex as (mb & Eb & Ex).
    assert (Ib : Inv mb).
    { destruct (rs_res rs); [apply (create_v2_inv _ _ _ _ Eb) | inversion Eb; subst | inversion Eb; subst]; apply (resolve_v2_inv _ _ _ _ _ _ Ea I0). }
    destruct (match rs_res rs with RRenewal rn => (rn_final_renter rn, rn_final_host rn) | RProof _ => (c_renter (v2_fc (p_val (rs_parent rs))), c_host (v2_fc (p_val (rs_parent rs))))
              | RExpiration => (c_renter (v2_fc (p_val (rs_parent rs))), missed_host_output (v2_fc (p_val (rs_parent rs)))) end) as [renter host].
    apply bind_ok in Ex. destruct Ex as (mc & Ec & Ex). apply (create_sce_inv _ _ _ _ _ Ex). apply (create_sce_inv _ _ _ _ _ Ec). exact Ib. }
  assert (I8 : Inv (fold_left (fun m a => create_att m (at_id a)) (t2_att t) m7)).
  { clear E. revert I7. generalize m7. induction (t2_att t) as [|a l IHl]; intros m0 I0; cbn [fold_left]; [exact I0|]. apply IHl. exact I0. }
  destruct (t2_new_foundation t); inversion E; subst; exact I8.
Qed.

(* ---- validation: every revised contract is presented as a live leaf of the parent state ---- *)
Lemma mem_v2_live p : fst (mem_v2 s p) = true -> live_v2 (p_leaf p).
Proof.
  unfold mem_v2, mem_gen, leaf_at, live_v2.
  destruct ((0 <=? p_leaf p) && (p_leaf p <? Z.of_nat (length (s_leaves s)))); [|cbn; discriminate].
  destruct (nth_error (s_leaves s) (Z.to_nat (p_leaf p))) as [[el sp]|]; [|cbn; discriminate].
  destruct (p_proof_ok p); [|cbn; discriminate]. cbn [andb l_elem l_spent].
  destruct el; try (cbn; discriminate). destruct (fce2_eqb e (p_val p)); [|cbn; discriminate].
  cbn [fst]. destruct sp; [discriminate|]. intros _. exists e. reflexivity.
Qed.
Lemma parent2_live m p revised resolved : validate_parent2 s m p revised resolved = Ok tt -> live_v2 (p_leaf p).
Proof.
  unfold validate_parent2. destruct (is_spent m (v2_id (p_val p))); [discriminate|].
  destruct (existsb (beq (v2_id (p_val p))) revised); [discriminate|]. destruct (existsb (beq (v2_id (p_val p))) resolved); [discriminate|].
  intros E. apply mem_v2_live. destruct (mem_v2 s p) as [u sp]. destruct u; [reflexivity|]. destruct sp; discriminate.
Qed.
Lemma validate_rev_live m t : validate_txn2 s m t = Ok tt -> Forall (fun rv => live_v2 (p_leaf (r2_parent rv))) (t2_rev t).
Proof.
  unfold Validate.validate_txn2. intros Hv. destruct (child s <? ln_v2_allow net); [discriminate|].
  apply bind_ok in Hv. destruct Hv as (? & _ & Hv). destruct (t2_weight t =? 0); [discriminate|]. destruct (MAXW <? t2_weight t); [discriminate|].
  apply bind_ok in Hv. destruct Hv as (? & _ & Hv). apply bind_ok in Hv. destruct Hv as (? & _ & Hv). apply bind_ok in Hv. destruct Hv as (? & Hfc & _).
  unfold validate_v2_contracts in Hfc. apply bind_ok in Hfc. destruct Hfc as (? & _ & Hfc). apply bind_ok in Hfc. destruct Hfc as (revised & Hr & _).
  revert Hr.
  assert (G : forall l revised0 out,
    (fix go (l : list rev2) (revised : list id) {struct l} : R (list id) :=
       match l with
       | [] => Ok revised
       | rv :: r =>
         do _ <- validate_parent2 s m (r2_parent rv) revised [];
         if c_proof_height (v2_fc (p_val (r2_parent rv))) <? child s then err 115
         else do _ <- validate_revision net vt s m (p_val (r2_parent rv)) (r2_rev rv);
           go r (v2_id (p_val (r2_parent rv)) :: revised)
       end) l revised0 = Ok out -> Forall (fun rv => live_v2 (p_leaf (r2_parent rv))) l).
  { induction l as [|rv r IH]; intros revised0 out Hr; [constructor|].
    apply bind_ok in Hr. destruct Hr as ([] & Hp & Hr). destruct (c_proof_height (v2_fc (p_val (r2_parent rv))) <? child s); [discriminate|].
    apply bind_ok in Hr. destruct Hr as (? & _ & Hr). constructor; [eapply parent2_live; exact Hp | eapply IH; exact Hr]. }
  intros Hr. exact (G _ _ _ Hr).
Qed.

Lemma check_res_live m revised l : forall resolved, check_resolutions H vt s m revised l resolved = Ok tt ->
  Forall (fun rs => live_v2 (p_leaf (rs_parent rs))) l.
Proof.
  induction l as [|rs r IH]; intros resolved Hc; [constructor|]. cbn [check_resolutions] in Hc.
  apply bind_ok in Hc. destruct Hc as ([] & Hp & Hc). apply bind_ok in Hc. destruct Hc as (? & _ & Hc).
  constructor; [eapply parent2_live; exact Hp | eapply IH; exact Hc].
Qed.
Lemma validate_res_live m t : validate_txn2 s m t = Ok tt -> Forall (fun rs => live_v2 (p_leaf (rs_parent rs))) (t2_res t).
Proof.
  unfold Validate.validate_txn2. intros Hv. destruct (child s <? ln_v2_allow net); [discriminate|].
  apply bind_ok in Hv. destruct Hv as (? & _ & Hv). destruct (t2_weight t =? 0); [discriminate|]. destruct (MAXW <? t2_weight t); [discriminate|].
  apply bind_ok in Hv. destruct Hv as (? & _ & Hv). apply bind_ok in Hv. destruct Hv as (? & _ & Hv). apply bind_ok in Hv. destruct Hv as ([] & Hfc & _).
  unfold validate_v2_contracts in Hfc. apply bind_ok in Hfc. destruct Hfc as (? & _ & Hfc). apply bind_ok in Hfc. destruct Hfc as (revised & _ & Hfc).
  eapply check_res_live. exact Hfc.
Qed.

Lemma mem_sf_unspent p : fst (mem_sf s p) = true -> exists e, nth_error (s_leaves s) (Z.to_nat (p_leaf p)) = Some {| l_elem := e; l_spent := false |}.
Proof.
  unfold mem_sf, mem_gen, leaf_at.
  destruct ((0 <=? p_leaf p) && (p_leaf p <? Z.of_nat (length (s_leaves s)))); [|cbn; discriminate].
  destruct (nth_error (s_leaves s) (Z.to_nat (p_leaf p))) as [[el sp]|]; [|cbn; discriminate].
  destruct (p_proof_ok p && _); [|cbn; discriminate]. cbn [fst l_spent]. destruct sp; [discriminate|]. intros _. exists el. reflexivity.
Qed.
Lemma sfi_mem m t : validate_v2_siafunds H net vt pt se sd s m t = Ok tt ->
  Forall (fun i => p_leaf (f2_parent i) <> UNASSIGNED -> fst (mem_sf s (f2_parent i)) = true) (t2_sfi t).
Proof.
  unfold validate_v2_siafunds. intros Hv. apply bind_ok in Hv. destruct Hv as ([] & Hl & _). revert Hl.
  assert (G : forall l seen,
    (fix go (l : list sfi2) (seen : list id) {struct l} : R unit :=
       match l with
       | [] => Ok tt
       | i :: r =>
         let p := f2_parent i in
         let pid := sfe_id (p_val p) in
         if is_spent m pid then err 86
         else if existsb (beq pid) seen then err 87
         else
           do _ <- (if p_leaf p =? UNASSIGNED then validate_ephemeral_sf net s m p
                    else let '(u, sp) := mem_sf s p in if u then Ok tt else if sp then err 90 else err 91);
           do _ <- validate_policy H vt pt se sd s (t2_sighash t) (f2_policy i) (sfe_addr (p_val p)) 92 93;
           go r (pid :: seen)
       end) l seen = Ok tt ->
    Forall (fun i => p_leaf (f2_parent i) <> UNASSIGNED -> fst (mem_sf s (f2_parent i)) = true) l).
  { induction l as [|i r IH]; intros seen Hg; [constructor|].
    cbv zeta in Hg. destruct (is_spent m (sfe_id (p_val (f2_parent i)))); [discriminate|].
    destruct (existsb (beq (sfe_id (p_val (f2_parent i)))) seen); [discriminate|].
    apply bind_ok in Hg. destruct Hg as (? & Hm & Hg). apply bind_ok in Hg. destruct Hg as (? & _ & Hg).
    constructor; [|eapply IH; exact Hg]. intros Ne. destruct (Z.eqb_spec (p_leaf (f2_parent i)) UNASSIGNED); [contradiction|].
    destruct (mem_sf s (f2_parent i)) as [u sp]. destruct u; [reflexivity|]. destruct sp; discriminate. }
  intros Hl. exact (G _ _ Hl).
Qed.
Lemma validate_sfi_mem m t : validate_txn2 s m t = Ok tt ->
  Forall (fun i => p_leaf (f2_parent i) <> UNASSIGNED -> fst (mem_sf s (f2_parent i)) = true) (t2_sfi t).
Proof.
  unfold Validate.validate_txn2. intros Hv. destruct (child s <? ln_v2_allow net); [discriminate|].
  apply bind_ok in Hv. destruct Hv as (? & _ & Hv). destruct (t2_weight t =? 0); [discriminate|]. destruct (MAXW <? t2_weight t); [discriminate|].
  apply bind_ok in Hv. destruct Hv as (? & _ & Hv). apply bind_ok in Hv. destruct Hv as ([] & Hsf & _). apply sfi_mem in Hsf. exact Hsf.
Qed.

(* ---- the transactions of a block ---- *)
Lemma block_inv txns : forall m m', fold_r (vstep H net vt pt se sd s) txns m = Ok m' -> Inv m ->
  fold_r (apply_txn2 s) txns m = Ok m' /\ Inv m'.
Proof.
  induction txns as [|t r IH]; intros m m' E I; cbn [fold_r] in *; [inversion E; subst; split; [reflexivity | exact I]|].
  apply bind_ok in E. destruct E as (m1 & E1 & E). unfold vstep in E1. apply bind_ok in E1. destruct E1 as ([] & V & A).
  rewrite A. cbn [bind]. apply (IH m1 m' E). apply (apply_txn2_inv m t m1 (validate_rev_live m t V) A I).
Qed.

(* ---- the state update ---- *)
Definition SpentAt (ls : list leaf) (k : nat) : Prop := exists lf, nth_error ls k = Some lf /\ l_spent lf = true.

Lemma apply_leaves_spent ls ups k : SpentAt ls k ->
  (forall u, In u ups -> fst u <> UNASSIGNED -> Z.to_nat (fst u) = k -> l_spent (snd u) = true) ->
  SpentAt (apply_leaves ls ups) k.
Proof.
  intros S0 Hu. unfold apply_leaves.
  assert (F : SpentAt (fold_left (fun ls u => if fst u =? UNASSIGNED then ls else Mid.set_nth (Z.to_nat (fst u)) (snd u) ls) ups ls) k).
  { revert ls S0. induction ups as [|u r IH]; intros ls S0; cbn [fold_left]; [exact S0|].
    apply IH; [intros u' Hin; apply Hu; right; exact Hin|].
    destruct (Z.eqb_spec (fst u) UNASSIGNED) as [|Ne]; [exact S0|].
    destruct S0 as (lf & N0 & Sp). destruct (Nat.eq_dec (Z.to_nat (fst u)) k) as [Ek|Nk].
    - exists (snd u). split; [rewrite Ek; apply set_nth_same; apply nth_error_Some; congruence | apply Hu; [left; reflexivity | exact Ne | exact Ek]].
    - exists lf. split; [rewrite set_nth_other by congruence; exact N0 | exact Sp]. }
  destruct F as (lf & N0 & Sp). exists lf. split; [|exact Sp]. rewrite nth_error_app1; [exact N0 | apply nth_error_Some; congruence].
Qed.

Lemma leaf_updates_spent m b k : Inv m -> SpentAt (s_leaves s) k ->
  forall u, In u (leaf_updates s m b) -> fst u <> UNASSIGNED -> Z.to_nat (fst u) = k -> l_spent (snd u) = true.
Proof.
  intros (I1 & I2 & I3 & I4) (lf & N0 & Sp) u Hin Ne Ek. unfold leaf_updates in Hin. rewrite I3 in Hin. cbn [map app] in Hin.
  rewrite !in_app_iff in Hin. destruct Hin as [Hin|[Hin|[Hin|[Hin|Hin]]]].
  - apply in_map_iff in Hin. destruct Hin as (d & <- & Hd). cbn [fst snd l_spent] in *. rewrite Forall_forall in I1. destruct (I1 d Hd) as [U|T]; [contradiction | exact T].
  - apply in_map_iff in Hin. destruct Hin as (d & <- & Hd). cbn [fst snd l_spent] in *. rewrite Forall_forall in I2. destruct (I2 d Hd) as [U|T]; [contradiction | exact T].
  - apply in_map_iff in Hin. destruct Hin as (d & <- & Hd). cbn [fst snd l_spent] in *. rewrite Forall_forall in I4. destruct (I4 d Hd) as [U|[T|(e & Lv)]]; [contradiction | destruct (d_v2_res d); [reflexivity | contradiction] |].
    rewrite Ek in Lv. rewrite N0 in Lv. inversion Lv; subst. cbn in Sp. discriminate.
  - apply in_map_iff in Hin. destruct Hin as (i & <- & _). cbn [fst] in Ne. contradiction.
  - destruct Hin as [<-|[]]. cbn [fst] in Ne. contradiction.
Qed.

(* an accepted block without v1 transactions and without expiring v1 contracts (every block from the height at which v2
   is required) leaves every spent leaf spent *)
Theorem spent_persist b s' m : validate_block H net vt pt se sd s b = Ok tt -> apply_block net s b = Ok (s', m) ->
  b_txns b = [] -> b_expiring b = [] -> forall k, SpentAt (s_leaves s) k -> SpentAt (s_leaves s') k.
Proof.
  intros V A T0 X0 k Sk.
  unfold validate_block in V. apply bind_ok in V. destruct V as (? & _ & V). apply bind_ok in V. destruct V as (? & _ & V).
  destruct (b_is_v2 b && negb (b_commit_ok b)); [discriminate|]. rewrite T0 in V. cbn [validate_txns1] in V.
  apply bind_ok in V. destruct V as (m0 & E0 & V). inversion E0; subst m0. clear E0. apply bind_ok in V. destruct V as (m2 & Hf & _).
  change (fold_r (vstep H net vt pt se sd s) (b_v2txns b) (new_mid s) = Ok m2) in Hf.
  destruct (block_inv _ _ _ Hf inv_new) as [Ap I2].
  unfold apply_block in A. apply bind_ok in A. destruct A as (mf & Am & A). inversion A; subst s' m. clear A. cbn [s_leaves].
  unfold mid_apply_block in Am. destruct ((ln_v2_require net <=? child s) && _); [discriminate|]. rewrite T0, X0 in Am. cbn [apply_txns1 bind] in Am.
  rewrite Ap in Am. cbn [bind] in Am. apply bind_ok in Am. destruct Am as (m3 & E3 & Am). apply bind_ok in Am. destruct Am as (sub & _ & Am).
  apply bind_ok in Am. destruct Am as (m4 & E4 & Am). cbn [fold_r] in Am. inversion Am; subst mf. clear Am.
  assert (I3 : Inv m3) by (refine (fold_r_inv (fun _ => True) _ _ _ _ _ (Forall_true _) E3 I2); intros ? ? ? _ Ex; exact (create_sce_inv _ _ _ _ _ Ex)).
  assert (I4 : Inv m4) by (destruct sub; [apply (create_sce_inv _ _ _ _ _ E4 I3) | inversion E4; subst; exact I3]).
  apply apply_leaves_spent; [exact Sk|]. apply leaf_updates_spent; assumption.
Qed.
End Persist.

(* from the height at which v2 is required, every accepted and applied block is of that kind *)
Lemma era_v2_only (H : bytes -> bytes) net vt pt se sd s b s' m :
  validate_block H net vt pt se sd s b = Ok tt -> apply_block net s b = Ok (s', m) -> ln_v2_require net <= child s ->
  b_txns b = [] /\ b_expiring b = [].
Proof.
  intros V A Rq. split.
  - unfold validate_block in V. apply bind_ok in V. destruct V as (? & _ & V). apply bind_ok in V. destruct V as (? & _ & V).
    destruct (b_is_v2 b && negb (b_commit_ok b)); [discriminate|]. apply bind_ok in V. destruct V as (m0 & E0 & _).
    destruct (b_txns b) as [|t r]; [reflexivity|]. exfalso. cbn [validate_txns1] in E0. destruct (b_supp b) as [|u ur]; [discriminate|].
    apply bind_ok in E0. destruct E0 as ([] & V1 & _). pose proof (v1_not_after_require H net vt se sd s _ t u V1). lia.
  - unfold apply_block in A. apply bind_ok in A. destruct A as (mf & Am & _). unfold mid_apply_block in Am.
    destruct (Z.leb_spec (ln_v2_require net) (child s)); [|lia]. cbn [andb] in Am.
    destruct (b_expiring b) as [|x r]; [reflexivity|]. exfalso. cbn [length Nat.eqb negb] in Am. rewrite orb_true_r in Am. discriminate.
Qed.

(* ---- chains ---- *)
Section Chain.
Variable H : bytes -> bytes.
Variable net : lnetwork.
Variable vt : vtab.
Variable pt : ptab.
Variable se sd : bytes.

Inductive chain : lstate -> list lblock -> lstate -> Prop :=
| chain_nil s : chain s [] s
| chain_cons s b s1 m bs s' : validate_block H net vt pt se sd s b = Ok tt -> apply_block net s b = Ok (s1, m) ->
    b_txns b = [] -> b_expiring b = [] -> chain s1 bs s' -> chain s (b :: bs) s'.

Theorem chain_spent_persist s bs s' : chain s bs s' -> forall k, SpentAt (s_leaves s) k -> SpentAt (s_leaves s') k.
Proof.
  induction 1 as [|s b s1 m bs s' V A T X C IH]; intros k Sk; [exact Sk|]. apply IH. eapply spent_persist; eassumption.
Qed.

(* a leaf marked spent at some point of an accepted chain is refused as a siacoin input parent by every later block *)
Theorem chain_no_respend s bs s' k : chain s bs s' -> SpentAt (s_leaves s) k ->
  forall m t, validate_txn2 H net vt pt se sd s' m t = Ok tt ->
  forall i, In i (t2_sci t) -> p_leaf (i2_parent i) <> UNASSIGNED -> Z.to_nat (p_leaf (i2_parent i)) <> k.
Proof.
  intros C Sk m t V i Hin Ne Ek. pose proof (chain_spent_persist _ _ _ C k Sk) as (lf & N0 & Sp).
  unfold Validate.validate_txn2 in V. destruct (child s' <? ln_v2_allow net); [discriminate|].
  apply bind_ok in V. destruct V as (? & _ & V). destruct (t2_weight t =? 0); [discriminate|]. destruct (MAXW <? t2_weight t); [discriminate|].
  apply bind_ok in V. destruct V as ([] & Hsc & _).
  destruct (v2_inputs_distinct_unspent_mature H net vt pt se sd s' m t Hsc) as [F _]. rewrite Forall_forall in F.
  destruct (F i Hin) as (_ & _ & Mem & _). specialize (Mem Ne). apply mem_sc_sound in Mem. destruct Mem as [_ Mem].
  rewrite Ek, N0 in Mem. inversion Mem; subst. cbn in Sp. discriminate.
Qed.

(* ... and as the parent of a contract revision or resolution *)
Theorem chain_no_rerevise s bs s' k : chain s bs s' -> SpentAt (s_leaves s) k ->
  forall m t, validate_txn2 H net vt pt se sd s' m t = Ok tt ->
  (forall rv, In rv (t2_rev t) -> Z.to_nat (p_leaf (r2_parent rv)) <> k) /\
  (forall rs, In rs (t2_res t) -> Z.to_nat (p_leaf (rs_parent rs)) <> k).
Proof.
  intros C Sk m t V. pose proof (chain_spent_persist _ _ _ C k Sk) as (lf & N0 & Sp).
  pose proof (validate_rev_live H net vt pt se sd s' m t V) as F1. pose proof (validate_res_live H net vt pt se sd s' m t V) as F2.
  rewrite Forall_forall in F1, F2. split.
  - intros rv Hin Ek. destruct (F1 rv Hin) as (e & Lv). rewrite Ek, N0 in Lv. inversion Lv; subst. cbn in Sp. discriminate.
  - intros rs Hin Ek. destruct (F2 rs Hin) as (e & Lv). rewrite Ek, N0 in Lv. inversion Lv; subst. cbn in Sp. discriminate.
Qed.

(* ... and as the parent of a siafund input *)
Theorem chain_no_respend_sf s bs s' k : chain s bs s' -> SpentAt (s_leaves s) k ->
  forall m t, validate_txn2 H net vt pt se sd s' m t = Ok tt ->
  forall i, In i (t2_sfi t) -> p_leaf (f2_parent i) <> UNASSIGNED -> Z.to_nat (p_leaf (f2_parent i)) <> k.
Proof.
  intros C Sk m t V i Hin Ne Ek. pose proof (chain_spent_persist _ _ _ C k Sk) as (lf & N0 & Sp).
  pose proof (validate_sfi_mem H net vt pt se sd s' m t V) as F. rewrite Forall_forall in F.
  destruct (mem_sf_unspent s' _ (F i Hin Ne)) as (e & Lv). rewrite Ek, N0 in Lv. inversion Lv; subst. cbn in Sp. discriminate.
Qed.
End Chain.

(* the premises are satisfiable: a state at height 10 with one spent siacoin leaf, extended by an empty v2 block *)
Example chain_nonvacuous :
  let net := {| ln_v2_allow := 0; ln_v2_require := 0; ln_v2_final := 0; ln_v2_ephemeral := 0; ln_maturity_delay := 144; ln_tax_height := 0;
                ln_sp_height := 0; ln_foundation_height := 0; ln_devaddr_height := 0; ln_devaddr_old := []; ln_devaddr_new := [];
                ln_initial_coinbase := 300000 * 10 ^ 24; ln_min_coinbase := 30000 * 10 ^ 24; ln_blocks_per_month := 4380; ln_blocks_per_year := 52560 |} in
  let e := {| sce_id := [1%N]; sce_out := {| sco_value := 5; sco_addr := [] |}; sce_maturity := 0 |} in
  let s := {| s_height := 10; s_index_id := []; s_pool := 0; s_found_subsidy := void_addr; s_found_mgmt := void_addr; s_median := 0;
              s_leaves := [{| l_elem := ESC e; l_spent := true |}] |} in
  let b := {| b_id := [7%N]; b_is_v2 := true; b_v2_height := 11; b_commit_ok := true; b_header_code := 0;
              b_payouts := [([9%N], {| sco_value := 300000 * 10 ^ 24 - 11 * 10 ^ 24; sco_addr := [] |})]; b_foundation_id := [8%N];
              b_txns := []; b_v2txns := []; b_supp := []; b_expiring := []; b_next_median := 0 |} in
  exists s', chain (fun x => x) net [] [] [] [] s [b] s' /\ SpentAt (s_leaves s) 0 /\ SpentAt (s_leaves s') 0 /\ length (s_leaves s') = 3%nat.
Proof.
  cbv zeta. eexists. split; [|split; [|split]].
  - eapply chain_cons; [vm_compute; reflexivity | vm_compute; reflexivity | reflexivity | reflexivity | apply chain_nil].
  - eexists. split; reflexivity.
  - eexists. split; reflexivity.
  - reflexivity.
Qed.
