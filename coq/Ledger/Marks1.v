(* C02: applying an accepted block marks the siacoin leaves it consumed as spent. The MidState records every element in a
   slot found through one map from IDs to slice indices shared by all kinds; the statement therefore needs what the ID
   derivation (C12) provides: an ID names elements of one kind only, and no element is created under the ID of an element
   the block consumes. This file: the slot map stays consistent, and the diff of a consumed element stays in place. *)
From Coq Require Import ZArith List Bool Lia.
From Sia Require Import Prim.Result Prim.Tok Policy.Model Ledger.Types Ledger.Mid Ledger.Validate Ledger.Apply Ledger.Proofs Ledger.Spends Ledger.Persist.
Import ListNotations.
Open Scope Z_scope.

Inductive kind := KSC | KSF | KFC | KV2 | KAT.
Lemma kind_dec (a b : kind) : {a = b} + {a <> b}. Proof. decide equality. Qed.

Lemma beq_neq a b : beq a b = false -> a <> b.
Proof. intros E Eq. subst. rewrite beq_refl in E. discriminate. Qed.
Lemma beq_false a b : a <> b -> beq a b = false.
Proof. intros Ne. destruct (beq a b) eqn:E; [apply beq_eq in E; contradiction | reflexivity]. Qed.

(* ---- slots ---- *)
Lemma slot_cases {A} m i (l : list A) k fresh : slot m i l = Ok (k, fresh) ->
  (fresh = true /\ elem_idx m i = None /\ k = length l) \/ (fresh = false /\ elem_idx m i = Some k /\ (k < length l)%nat).
Proof.
  unfold slot. destruct (elem_idx m i) as [k'|].
  - destruct (Nat.ltb_spec k' (length l)); [|discriminate]. intros E. inversion E; subst. right. auto.
  - intros E. inversion E; subst. left. auto.
Qed.
Lemma put_same {A} k fresh (d : A) l : (fresh = true /\ k = length l) \/ (fresh = false /\ (k < length l)%nat) -> nth_error (put k fresh d l) k = Some d.
Proof.
  intros [[-> ->]|[-> L]]; unfold put.
  - rewrite nth_error_app2 by lia. rewrite Nat.sub_diag. reflexivity.
  - apply set_nth_same. exact L.
Qed.
Lemma put_other {A} k fresh (d : A) l j : (fresh = true /\ k = length l) \/ (fresh = false /\ (k < length l)%nat) -> j <> k -> nth_error (put k fresh d l) j = nth_error l j.
Proof.
  intros [[-> ->]|[-> L]] Ne; unfold put.
  - destruct (Nat.lt_ge_cases j (length l)) as [Lt|Ge]; [apply nth_error_app1; exact Lt|].
    rewrite nth_error_app2 by lia. destruct (j - length l)%nat as [|q] eqn:Eq; [lia|]. cbn. destruct q; symmetry; apply nth_error_None; lia.
  - apply set_nth_other. exact Ne.
Qed.
Lemma elem_idx_els m i k fresh j : (fresh = true \/ elem_idx m i = Some k) ->
  assoc j (els m i k fresh) = if beq j i then Some k else elem_idx m j.
Proof.
  intros Hc. unfold els, elem_idx. destruct fresh; cbn [assoc]; [reflexivity|].
  destruct Hc as [|Hc]; [discriminate|]. destruct (beq j i) eqn:E; [apply beq_eq in E; subst; exact Hc | reflexivity].
Qed.

Section Marks.
Variable kind_of : id -> kind.

Definition entry_id (m : mid) (kd : kind) (k : nat) : option id :=
  match kd with
  | KSC => option_map (fun d => sce_id (d_sce d)) (nth_error (m_sces m) k)
  | KSF => option_map (fun d => sfe_id (d_sfe d)) (nth_error (m_sfes m) k)
  | KFC => option_map (fun d => fce_id (d_fce d)) (nth_error (m_fces m) k)
  | KV2 => option_map (fun d => v2_id (d_v2 d)) (nth_error (m_v2fces m) k)
  | KAT => nth_error (m_aes m) k
  end.
(* the shared map points every recorded ID at the entry of its kind that carries it *)
Definition WK (m : mid) : Prop := forall i k, elem_idx m i = Some k -> entry_id m (kind_of i) k = Some i.

Lemma wk_new s : WK (new_mid s).
Proof. intros i k E. unfold elem_idx, new_mid in E. cbn in E. discriminate. Qed.

(* the consumed element we follow *)
Variable id0 : id.
Variable lf0 : Z.
Hypothesis K0 : kind_of id0 = KSC.
Definition Tr (m : mid) : Prop :=
  exists k d, elem_idx m id0 = Some k /\ nth_error (m_sces m) k = Some d /\ d_sc_leaf d = lf0 /\ d_sc_spent d = true.
Definition Good (m : mid) : Prop := WK m /\ (is_spent m id0 = true -> Tr m).

Lemma is_spent_cons m' m i tx : m_spends m' = (i, tx) :: m_spends m -> i <> id0 -> is_spent m' id0 = is_spent m id0.
Proof. intros E Ne. unfold is_spent, spent_in. rewrite E. cbn [assoc]. rewrite beq_false by congruence. reflexivity. Qed.
Lemma is_spent_same m' m : m_spends m' = m_spends m -> is_spent m' id0 = is_spent m id0.
Proof. intros E. unfold is_spent, spent_in. rewrite E. reflexivity. Qed.

(* ---- a record into the siacoin slice ---- *)
Lemma rec_sc m i k fresh d sp : Good m -> kind_of i = KSC -> slot m i (m_sces m) = Ok (k, fresh) -> sce_id (d_sce d) = i ->
  let m' := with_sces m (put k fresh d (m_sces m)) (els m i k fresh) sp in
  WK m' /\ (i <> id0 -> Tr m -> Tr m') /\ (i = id0 -> d_sc_leaf d = lf0 -> d_sc_spent d = true -> Tr m').
Proof.
  intros [W T] Ki Sl Ed m'. destruct (slot_cases _ _ _ _ _ Sl) as [(F & En & Ek)|(F & Es & Lk)].
  - (* fresh slot *)
    assert (PC : (fresh = true /\ k = length (m_sces m)) \/ (fresh = false /\ (k < length (m_sces m))%nat)) by (left; auto).
    assert (EI : forall j, elem_idx m' j = if beq j i then Some k else elem_idx m j) by (intros j; apply elem_idx_els; left; exact F).
    split; [|split].
    + intros j kj Ej. rewrite EI in Ej. destruct (beq j i) eqn:B.
      * apply beq_eq in B. subst j. inversion Ej; subst kj. rewrite Ki. unfold entry_id, m'. cbn [m_sces with_sces]. rewrite (put_same _ _ _ _ PC). cbn. rewrite Ed. reflexivity.
      * specialize (W j kj Ej). destruct (kind_of j) eqn:Kj; unfold entry_id in *; unfold m'; cbn [m_sces m_sfes m_fces m_v2fces m_aes with_sces]; try exact W.
        rewrite (put_other _ _ _ _ _ PC); [exact W|]. intros ->. subst k. rewrite (proj2 (nth_error_None _ _) (Nat.le_refl _)) in W. discriminate.
    + intros Ne (k0 & d0 & E0 & N0 & L0 & S0). exists k0, d0. rewrite EI, (beq_false id0 i) by congruence. split; [exact E0|]. split; [|auto].
      unfold m'. cbn [m_sces with_sces]. rewrite (put_other _ _ _ _ _ PC); [exact N0|]. intros ->. subst k.
      rewrite (proj2 (nth_error_None _ _) (Nat.le_refl _)) in N0. discriminate.
    + intros -> Ld Sd. exists k, d. rewrite EI, beq_refl. split; [reflexivity|]. split; [|auto]. unfold m'. cbn [m_sces with_sces]. apply put_same. exact PC.
  - (* the slot the ID already has *)
    assert (PC : (fresh = true /\ k = length (m_sces m)) \/ (fresh = false /\ (k < length (m_sces m))%nat)) by (right; auto).
    assert (EI : forall j, elem_idx m' j = elem_idx m j).
    { intros j. unfold m'. cbn [m_elements with_sces]. unfold elem_idx at 1. change (assoc j (els m i k fresh) = elem_idx m j).
      rewrite elem_idx_els by (right; exact Es). destruct (beq j i) eqn:B; [apply beq_eq in B; subst; symmetry; exact Es | reflexivity]. }
    pose proof (W i k Es) as Wi. rewrite Ki in Wi. cbn [entry_id] in Wi.
    split; [|split].
    + intros j kj Ej. rewrite EI in Ej. specialize (W j kj Ej). destruct (kind_of j) eqn:Kj; unfold entry_id in *; unfold m'; cbn [m_sces m_sfes m_fces m_v2fces m_aes with_sces]; try exact W.
      destruct (Nat.eq_dec kj k) as [->|Nk]; [|rewrite (put_other _ _ _ _ _ PC) by exact Nk; exact W].
      rewrite (put_same _ _ _ _ PC). cbn. rewrite Ed. rewrite Wi in W. exact W.
    + intros Ne (k0 & d0 & E0 & N0 & L0 & S0). exists k0, d0. rewrite EI. split; [exact E0|]. split; [|auto].
      unfold m'. cbn [m_sces with_sces]. rewrite (put_other _ _ _ _ _ PC); [exact N0|]. intros ->.
      pose proof (W id0 k E0) as W0. rewrite K0 in W0. cbn [entry_id] in W0. rewrite Wi in W0. inversion W0. contradiction.
    + intros -> Ld Sd. exists k, d. rewrite EI. split; [exact Es|]. split; [|auto]. unfold m'. cbn [m_sces with_sces]. apply put_same. exact PC.
Qed.

(* ---- a record into the KSF slice ---- *)
Lemma rec_sf m i k fresh (d : sfed) sp  : Good m -> kind_of i = KSF -> slot m i (m_sfes m) = Ok (k, fresh) -> (fun d => sfe_id (d_sfe d)) d = i ->
  let m' := with_sfes m (put k fresh d (m_sfes m)) (els m i k fresh) sp  in
  WK m' /\ (Tr m -> Tr m').
Proof.
  intros [W T] Ki Sl Ed m'. assert (Ne0 : i <> id0) by (intros ->; rewrite K0 in Ki; discriminate).
  destruct (slot_cases _ _ _ _ _ Sl) as [(F & En & Ek)|(F & Es & Lk)].
  - assert (PC : (fresh = true /\ k = length (m_sfes m)) \/ (fresh = false /\ (k < length (m_sfes m))%nat)) by (left; auto).
    assert (EI : forall j, elem_idx m' j = if beq j i then Some k else elem_idx m j) by (intros j; apply elem_idx_els; left; exact F).
    split.
    + intros j kj Ej. rewrite EI in Ej. destruct (beq j i) eqn:B.
      * apply beq_eq in B. subst j. inversion Ej; subst kj. rewrite Ki. unfold entry_id, m'. cbn [m_sfes with_sfes]. rewrite (put_same _ _ _ _ PC). cbn. rewrite Ed. reflexivity.
      * specialize (W j kj Ej). destruct (kind_of j) eqn:Kj; unfold entry_id in *; unfold m'; cbn [m_sces m_sfes m_fces m_v2fces m_aes with_sfes]; try exact W.
        rewrite (put_other _ _ _ _ _ PC); [exact W|]. intros ->. subst k. rewrite (proj2 (nth_error_None _ _) (Nat.le_refl _)) in W. discriminate.
    + intros (k0 & d0 & E0 & N0 & L0 & S0). exists k0, d0. rewrite EI, (beq_false id0 i) by congruence. split; [exact E0|]. split; [exact N0 | auto].
  - assert (PC : (fresh = true /\ k = length (m_sfes m)) \/ (fresh = false /\ (k < length (m_sfes m))%nat)) by (right; auto).
    assert (EI : forall j, elem_idx m' j = elem_idx m j).
    { intros j. unfold m'. cbn [m_elements with_sfes]. unfold elem_idx at 1. change (assoc j (els m i k fresh) = elem_idx m j).
      rewrite elem_idx_els by (right; exact Es). destruct (beq j i) eqn:B; [apply beq_eq in B; subst; symmetry; exact Es | reflexivity]. }
    pose proof (W i k Es) as Wi. rewrite Ki in Wi. cbn [entry_id] in Wi.
    split.
    + intros j kj Ej. rewrite EI in Ej. specialize (W j kj Ej). destruct (kind_of j) eqn:Kj; unfold entry_id in *; unfold m'; cbn [m_sces m_sfes m_fces m_v2fces m_aes with_sfes]; try exact W.
      destruct (Nat.eq_dec kj k) as [->|Nk]; [|rewrite (put_other _ _ _ _ _ PC) by exact Nk; exact W].
      rewrite (put_same _ _ _ _ PC). cbn. rewrite Ed. rewrite Wi in W. exact W.
    + intros (k0 & d0 & E0 & N0 & L0 & S0). exists k0, d0. rewrite EI. split; [exact E0|]. split; [exact N0 | auto].
Qed.

(* ---- a record into the KV2 slice ---- *)
Lemma rec_v2 m i k fresh (d : v2fced) sp pool : Good m -> kind_of i = KV2 -> slot m i (m_v2fces m) = Ok (k, fresh) -> (fun d => v2_id (d_v2 d)) d = i ->
  let m' := with_v2fces m (put k fresh d (m_v2fces m)) (els m i k fresh) sp pool in
  WK m' /\ (Tr m -> Tr m').
Proof.
  intros [W T] Ki Sl Ed m'. assert (Ne0 : i <> id0) by (intros ->; rewrite K0 in Ki; discriminate).
  destruct (slot_cases _ _ _ _ _ Sl) as [(F & En & Ek)|(F & Es & Lk)].
  - assert (PC : (fresh = true /\ k = length (m_v2fces m)) \/ (fresh = false /\ (k < length (m_v2fces m))%nat)) by (left; auto).
    assert (EI : forall j, elem_idx m' j = if beq j i then Some k else elem_idx m j) by (intros j; apply elem_idx_els; left; exact F).
    split.
    + intros j kj Ej. rewrite EI in Ej. destruct (beq j i) eqn:B.
      * apply beq_eq in B. subst j. inversion Ej; subst kj. rewrite Ki. unfold entry_id, m'. cbn [m_v2fces with_v2fces]. rewrite (put_same _ _ _ _ PC). cbn. rewrite Ed. reflexivity.
      * specialize (W j kj Ej). destruct (kind_of j) eqn:Kj; unfold entry_id in *; unfold m'; cbn [m_sces m_sfes m_fces m_v2fces m_aes with_v2fces]; try exact W.
        rewrite (put_other _ _ _ _ _ PC); [exact W|]. intros ->. subst k. rewrite (proj2 (nth_error_None _ _) (Nat.le_refl _)) in W. discriminate.
    + intros (k0 & d0 & E0 & N0 & L0 & S0). exists k0, d0. rewrite EI, (beq_false id0 i) by congruence. split; [exact E0|]. split; [exact N0 | auto].
  - assert (PC : (fresh = true /\ k = length (m_v2fces m)) \/ (fresh = false /\ (k < length (m_v2fces m))%nat)) by (right; auto).
    assert (EI : forall j, elem_idx m' j = elem_idx m j).
    { intros j. unfold m'. cbn [m_elements with_v2fces]. unfold elem_idx at 1. change (assoc j (els m i k fresh) = elem_idx m j).
      rewrite elem_idx_els by (right; exact Es). destruct (beq j i) eqn:B; [apply beq_eq in B; subst; symmetry; exact Es | reflexivity]. }
    pose proof (W i k Es) as Wi. rewrite Ki in Wi. cbn [entry_id] in Wi.
    split.
    + intros j kj Ej. rewrite EI in Ej. specialize (W j kj Ej). destruct (kind_of j) eqn:Kj; unfold entry_id in *; unfold m'; cbn [m_sces m_sfes m_fces m_v2fces m_aes with_v2fces]; try exact W.
      destruct (Nat.eq_dec kj k) as [->|Nk]; [|rewrite (put_other _ _ _ _ _ PC) by exact Nk; exact W].
      rewrite (put_same _ _ _ _ PC). cbn. rewrite Ed. rewrite Wi in W. exact W.
    + intros (k0 & d0 & E0 & N0 & L0 & S0). exists k0, d0. rewrite EI. split; [exact E0|]. split; [exact N0 | auto].
Qed.

End Marks.
