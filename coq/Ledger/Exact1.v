(* C08, the other direction for v1 transactions: the error code of a height or time rule is reported only when the height
   is on the wrong side of the bound. *)
From Coq Require Import ZArith List Bool Lia.
From Sia Require Import Prim.Result Prim.Tok Policy.Model Ledger.Types Ledger.Mid Ledger.Validate.
From Sia Require Import Ledger.Exact2.
Import ListNotations.
Open Scope Z_scope.

Lemma sum_scos_ne l c : sum_scos l <> Err c.
Proof. unfold sum_scos. apply csum_ne. Qed.
Lemma sum_eq_ne a b c : sum_eq a b <> Err c.
Proof.
  unfold sum_eq. intros E. apply bind_err in E. destruct E as [E | (x & _ & E)]; [exact (sum_scos_ne _ _ E)|].
  apply bind_err in E. destruct E as [E | (y & _ & E)]; [exact (sum_scos_ne _ _ E) | discriminate].
Qed.

Section Exact1.
Variable H : bytes -> bytes.
Variable net : lnetwork.
Variable vt : vtab.
Variable se sd : bytes.
Notation validate_siafunds := (validate_siafunds net).
Notation validate_file_contracts := (validate_file_contracts H net).
Notation validate_arbitrary := (validate_arbitrary net).
Notation validate_signatures := (validate_signatures vt se sd).
Notation validate_txn1 := (validate_txn1 H net vt se sd).

Lemma overflow1_codes t c : validate_currency_overflow t = Err c -> c = 21.
Proof. unfold validate_currency_overflow. cbv zeta. intros E. dif E; [code E | discriminate]. Qed.
Lemma minimum_codes t c : validate_minimum_values t = Err c -> c = 23.
Proof. unfold validate_minimum_values. intros E. dif E; [code E | discriminate]. Qed.

(* siacoin inputs: 24 is the timelock of the unlock conditions, 28 the maturity of the parent *)
Lemma in_sci1_err s m ts l : forall acc c, in_sci1 s m ts l acc = Err c ->
  24 <= c <= 28 /\
  (c = 24 -> exists i, In i l /\ child s < i1_timelock i) /\
  (c = 28 -> exists i p lf, In i l /\ sc_element m ts (i1_parent i) = Some (p, lf) /\ child s < sce_maturity p).
Proof.
  induction l as [|i r IH]; intros acc c E; cbn [in_sci1] in E; [discriminate|].
  destruct (Z.ltb_spec (child s) (i1_timelock i)) as [Lt|Ge].
  { split; [code E|]. split; [intros _; exists i; split; [left; reflexivity | exact Lt] | intros ->; discriminate E]. }
  dif E; [split; [code E | split; intros ->; discriminate E]|].
  destruct (sc_element m ts (i1_parent i)) as [[p lf]|] eqn:El; [|split; [code E | split; intros ->; discriminate E]].
  dif E; [split; [code E | split; intros ->; discriminate E]|].
  destruct (Z.ltb_spec (child s) (sce_maturity p)) as [Lt2|Ge2].
  { split; [code E|]. split; [intros ->; discriminate E | intros _; exists i, p, lf; split; [left; reflexivity | split; [exact El | exact Lt2]]]. }
  apply bind_err in E. destruct E as [E | (a & _ & E)]; [exfalso; exact (cadd_ne _ _ _ E)|].
  destruct (IH _ _ E) as (R0 & R1 & R2). split; [exact R0|]. split.
  - intros Ec. destruct (R1 Ec) as (j & Hj & Lj). exists j. split; [right; exact Hj | exact Lj].
  - intros Ec. destruct (R2 Ec) as (j & q & lq & Hj & Eq & Lj). exists j, q, lq. split; [right; exact Hj | split; assumption].
Qed.
Lemma out_fees_codes l : forall acc c, out_fees l acc = Err c -> c = 21.
Proof. induction l as [|f r IH]; intros acc c E; cbn [out_fees] in E; [discriminate|]. dif E; [code E | exact (IH _ _ E)]. Qed.
Lemma siacoins1_err s m t ts c : validate_siacoins s m t ts = Err c ->
  (c = 21 \/ 24 <= c <= 29) /\
  (c = 24 -> exists i, In i (t1_sci t) /\ child s < i1_timelock i) /\
  (c = 28 -> exists i p lf, In i (t1_sci t) /\ sc_element m ts (i1_parent i) = Some (p, lf) /\ child s < sce_maturity p).
Proof.
  unfold validate_siacoins. intros E. apply bind_err in E. destruct E as [E | (x & _ & E)].
  { destruct (in_sci1_err _ _ _ _ _ _ E) as (R0 & R1 & R2). split; [lia|]. split; assumption. }
  assert (R : c = 21 \/ c = 29).
  { apply bind_err in E. destruct E as [E | (x1 & _ & E)]; [exfalso; exact (csum_ne _ _ _ E)|].
    apply bind_err in E. destruct E as [E | (x2 & _ & E)]; [exfalso; exact (csum_ne _ _ _ E)|].
    apply bind_err in E. destruct E as [E | (x3 & _ & E)]; [left; exact (out_fees_codes _ _ _ E)|].
    dif E; [discriminate | right; code E]. }
  split; [lia|]. split; intros ->; lia.
Qed.

(* siafund inputs: 30 is the timelock *)
Lemma siafunds1_err s m t ts c : validate_siafunds s m t ts = Err c ->
  30 <= c <= 34 /\ (c = 30 -> exists i, In i (t1_sfi t) /\ child s < f1_timelock i).
Proof.
  unfold Validate.validate_siafunds. intros E. apply bind_err in E. destruct E as [E | (x & _ & E)].
  - revert E. generalize 0 as acc. induction (t1_sfi t) as [|i r IH]; intros acc E; [discriminate|]. cbv beta iota zeta fix in E.
    destruct (Z.ltb_spec (child s) (f1_timelock i)) as [Lt|Ge].
    { split; [code E|]. intros _. exists i. split; [left; reflexivity | exact Lt]. }
    dif E; [split; [code E | intros ->; discriminate E]|].
    destruct (sf_element m ts (f1_parent i)) as [[p lf]|]; [|split; [code E | intros ->; discriminate E]].
    dif E; [split; [code E | intros ->; discriminate E]|].
    destruct (IH _ E) as [R0 R1]. split; [exact R0|]. intros Ec. destruct (R1 Ec) as (j & Hj & Lj). exists j. split; [right; exact Hj | exact Lj].
  - cbv zeta in E. dif E; [discriminate|]. split; [code E | intros ->; discriminate E].
Qed.

(* contracts: 35 a new contract whose window has begun, 39 the timelock of a revision, 40 a revision whose new window has
   begun, 44 a revision of a contract whose window has begun *)
Definition fc1_loop (s : lstate) :=
  fix go (l : list (id * fc1 * Z)) : R unit :=
     match l with
     | [] => Ok tt
     | (_, fc, _) :: r =>
       if fc_wstart fc <? child s then err 35
       else if fc_wend fc <=? fc_wstart fc then err 36
       else do v <- sum_scos (fc_valid fc); do ms <- sum_scos (fc_missed fc);
         if negb (v =? ms) then err 37
         else do vt <- cadd v (fc_tax net s (fc_payout fc));
           if negb (fc_payout fc =? vt) then err 38 else go r
     end.
Lemma fc1_loop_err s l c : fc1_loop s l = Err c -> 35 <= c <= 38 /\ (c = 35 -> exists x, In x l /\ fc_wstart (snd (fst x)) < child s).
Proof.
  induction l as [|[[i fc] z] r IH]; intros E; cbn [fc1_loop] in E; [discriminate|].
  destruct (Z.ltb_spec (fc_wstart fc) (child s)) as [Lt|Ge].
  { split; [code E|]. intros _. exists (i, fc, z). split; [left; reflexivity | exact Lt]. }
  dif E; [split; [code E | intros ->; discriminate E]|].
  apply bind_err in E. destruct E as [E | (v & _ & E)]; [exfalso; exact (sum_scos_ne _ _ E)|].
  apply bind_err in E. destruct E as [E | (ms & _ & E)]; [exfalso; exact (sum_scos_ne _ _ E)|].
  dif E; [split; [code E | intros ->; discriminate E]|].
  apply bind_err in E. destruct E as [E | (v' & _ & E)]; [exfalso; exact (cadd_ne _ _ _ E)|].
  dif E; [split; [code E | intros ->; discriminate E]|].
  destruct (IH E) as [R0 R1]. split; [exact R0|]. intros Ec. destruct (R1 Ec) as (x & Hx & Lx). exists x. split; [right; exact Hx | exact Lx].
Qed.
Definition rev1_loop (s : lstate) (m : mid) (ts : supp1) :=
  fix go (l : list rev1) : R unit :=
     match l with
     | [] => Ok tt
     | rv :: r =>
       let fc := r1_fc rv in
       if child s <? r1_timelock rv then err 39
       else if fc_wstart fc <? child s then err 40
       else if fc_wend fc <=? fc_wstart fc then err 41
       else if is_spent m (r1_parent rv) then err 42
       else match fc_element m ts (r1_parent rv) with
       | None => err 43
       | Some (p, _) =>
         let pfc := fce_fc p in
         if fc_wstart pfc <? child s then err 44
         else if fc_revnum fc <=? fc_revnum pfc then err 45
         else if negb (beq (r1_uh rv) (fc_uh pfc)) then err 46
         else do e1 <- sum_eq (fc_valid fc) (fc_valid pfc);
           if negb e1 then err 47
           else do e2 <- sum_eq (fc_missed fc) (fc_missed pfc);
             if negb e2 then err 48 else go r
       end
     end.
Lemma rev1_loop_err s m ts l c : rev1_loop s m ts l = Err c ->
  39 <= c <= 48 /\
  (c = 39 -> exists rv, In rv l /\ child s < r1_timelock rv) /\
  (c = 40 -> exists rv, In rv l /\ fc_wstart (r1_fc rv) < child s) /\
  (c = 44 -> exists rv p lf, In rv l /\ fc_element m ts (r1_parent rv) = Some (p, lf) /\ fc_wstart (fce_fc p) < child s).
Proof.
  induction l as [|rv r IH]; intros E; cbn [rev1_loop] in E; [discriminate|]. cbv zeta in E.
  destruct (Z.ltb_spec (child s) (r1_timelock rv)) as [L1|G1].
  { split; [code E|]. split; [intros _; exists rv; split; [left; reflexivity | exact L1]|]. split; intros ->; discriminate E. }
  destruct (Z.ltb_spec (fc_wstart (r1_fc rv)) (child s)) as [L2|G2].
  { split; [code E|]. split; [intros ->; discriminate E|]. split; [intros _; exists rv; split; [left; reflexivity | exact L2] | intros ->; discriminate E]. }
  dif E; [split; [code E | repeat split; intros ->; discriminate E]|].
  dif E; [split; [code E | repeat split; intros ->; discriminate E]|].
  destruct (fc_element m ts (r1_parent rv)) as [[p lf]|] eqn:El; [|split; [code E | repeat split; intros ->; discriminate E]].
  destruct (Z.ltb_spec (fc_wstart (fce_fc p)) (child s)) as [L3|G3].
  { split; [code E|]. split; [intros ->; discriminate E|]. split; [intros ->; discriminate E|]. intros _. exists rv, p, lf. split; [left; reflexivity | split; [exact El | exact L3]]. }
  dif E; [split; [code E | repeat split; intros ->; discriminate E]|].
  dif E; [split; [code E | repeat split; intros ->; discriminate E]|].
  apply bind_err in E. destruct E as [E | (e1 & _ & E)]; [exfalso; exact (sum_eq_ne _ _ _ E)|].
  dif E; [split; [code E | repeat split; intros ->; discriminate E]|].
  apply bind_err in E. destruct E as [E | (e2 & _ & E)]; [exfalso; exact (sum_eq_ne _ _ _ E)|].
  dif E; [split; [code E | repeat split; intros ->; discriminate E]|].
  destruct (IH E) as (R0 & R1 & R2 & R3). split; [exact R0|]. split; [|split].
  - intros Ec. destruct (R1 Ec) as (x & Hx & Lx). exists x. split; [right; exact Hx | exact Lx].
  - intros Ec. destruct (R2 Ec) as (x & Hx & Lx). exists x. split; [right; exact Hx | exact Lx].
  - intros Ec. destruct (R3 Ec) as (x & q & lq & Hx & Eq & Lx). exists x, q, lq. split; [right; exact Hx | split; assumption].
Qed.
(* storage proofs: 53 is a proof presented before the block at the window start exists *)
Lemma sp_loops_err s m ts (l : list sp1) c :
  (fix go (l : list sp1) : R unit :=
     match l with
     | [] => Ok tt
     | sp :: r =>
       if is_spent m (s1_parent sp) then err 51
       else match fc_element m ts (s1_parent sp) with
       | None => err 52
       | Some (p, _) =>
         let fc := fce_fc p in
         match sp_window_id m ts s (s1_parent sp) with
         | None => err 53
         | Some w =>
           let li := sp_leaf_index H (fc_filesize fc) w (s1_parent sp) in
           match sp_leaf_era net s li (fc_filesize fc) (s1_leaf sp) with
           | None => go r
           | Some leaf => if beq (sp_root_v1 H li (fc_filesize fc) leaf (s1_proof sp)) (fc_root fc) then go r else err 54
           end
         end
       end
     end) l = Err c ->
  51 <= c <= 54 /\ (c = 53 -> exists sp, In sp l /\ sp_window_id m ts s (s1_parent sp) = None).
Proof.
  induction l as [|sp r IH]; intros E; [discriminate|]. cbv beta iota zeta fix in E.
  dif E; [split; [code E | intros ->; discriminate E]|].
  destruct (fc_element m ts (s1_parent sp)) as [[p lf]|]; [|split; [code E | intros ->; discriminate E]].
  cbv beta iota zeta in E.
  destruct (sp_window_id m ts s (s1_parent sp)) as [w|] eqn:Ew; [|split; [code E | intros _; exists sp; split; [left; reflexivity | exact Ew]]].
  destruct (sp_leaf_era _ _ _ _ _) as [leaf|].
  - dif E; [|split; [code E | intros ->; discriminate E]].
    destruct (IH E) as [R0 R1]. split; [exact R0|]. intros Ec. destruct (R1 Ec) as (x & Hx & Lx). exists x. split; [right; exact Hx | exact Lx].
  - destruct (IH E) as [R0 R1]. split; [exact R0|]. intros Ec. destruct (R1 Ec) as (x & Hx & Lx). exists x. split; [right; exact Hx | exact Lx].
Qed.
Lemma file_contracts1_err s m t ts c : validate_file_contracts s m t ts = Err c ->
  35 <= c <= 54 /\
  (c = 35 -> exists x, In x (t1_fc t) /\ fc_wstart (snd (fst x)) < child s) /\
  (c = 39 -> exists rv, In rv (t1_rev t) /\ child s < r1_timelock rv) /\
  (c = 40 -> exists rv, In rv (t1_rev t) /\ fc_wstart (r1_fc rv) < child s) /\
  (c = 44 -> exists rv p lf, In rv (t1_rev t) /\ fc_element m ts (r1_parent rv) = Some (p, lf) /\ fc_wstart (fce_fc p) < child s) /\
  (c = 53 -> exists sp, In sp (t1_sp t) /\ sp_window_id m ts s (s1_parent sp) = None).
Proof.
  unfold Validate.validate_file_contracts. intros E. apply bind_err in E. destruct E as [E | ([] & _ & E)].
  { change (fc1_loop s (t1_fc t) = Err c) in E. destruct (fc1_loop_err _ _ _ E) as [R0 R1]. split; [lia|]. split; [exact R1|]. repeat split; intros ->; lia. }
  apply bind_err in E. destruct E as [E | ([] & _ & E)].
  { change (rev1_loop s m ts (t1_rev t) = Err c) in E. destruct (rev1_loop_err _ _ _ _ _ E) as (R0 & R1 & R2 & R3). split; [lia|].
    split; [intros ->; lia|]. split; [exact R1|]. split; [exact R2|]. split; [exact R3 | intros ->; lia]. }
  dif E; [split; [code E | repeat split; intros ->; discriminate E]|].
  apply bind_err in E. destruct E as [E | ([] & _ & E)].
  { assert (R : c = 50). { revert E. induction (t1_sp t) as [|x r IH]; intros E; [discriminate|]. cbv beta iota zeta fix in E. dif E; [code E | exact (IH E)]. }
    split; [lia|]. repeat split; intros ->; lia. }
  destruct (sp_loops_err _ _ _ _ _ E) as [R0 R1]. split; [lia|]. repeat split; try (intros ->; lia). exact R1.
Qed.

Lemma arbitrary_codes s t c : validate_arbitrary s t = Err c -> 55 <= c <= 57.
Proof.
  unfold Validate.validate_arbitrary. intros E. dif E; [discriminate|].
  revert E. induction (t1_arb t) as [|a r IH]; intros E; [discriminate|]. cbv beta iota zeta fix in E.
  destruct a as [| |p f]; [exact (IH E) | code E|]. dif E; [code E|]. dif E; [exact (IH E) | code E].
Qed.

(* signatures: 64 is the timelock of a signature *)
Lemma add_entries_codes {A} (f : A -> id * list (bytes * bytes) * Z) code l : forall m c, add_entries f code l m = Err c -> c = code.
Proof.
  induction l as [|x r IH]; intros m c E; cbn [add_entries] in E; [discriminate|]. destruct (f x) as [[i k] n].
  destruct (add_entry m i k n); [exact (IH _ _ E) | code E].
Qed.
Lemma signatures_err s t c : validate_signatures s t = Err c ->
  58 <= c <= 68 /\ (c = 64 -> exists g, In g (t1_sigs t) /\ child s < g_timelock g).
Proof.
  unfold Validate.validate_signatures. intros E.
  apply bind_err in E. destruct E as [E | (m1 & _ & E)]; [apply add_entries_codes in E; split; [lia | intros ->; lia]|].
  apply bind_err in E. destruct E as [E | (m2 & _ & E)]; [apply add_entries_codes in E; split; [lia | intros ->; lia]|].
  apply bind_err in E. destruct E as [E | (m3 & _ & E)]; [apply add_entries_codes in E; split; [lia | intros ->; lia]|].
  apply bind_err in E. destruct E as [E | (mf & _ & E)].
  - revert E. generalize m3 as m. induction (t1_sigs t) as [|g r IH]; intros m E; [discriminate|]. cbv beta iota zeta fix in E.
    destruct (find _ m) as [e|]; [|split; [code E | intros ->; discriminate E]].
    dif E; [split; [code E | intros ->; discriminate E]|].
    dif E; [split; [code E | intros ->; discriminate E]|].
    destruct (Z.ltb_spec (child s) (g_timelock g)) as [Lt|Ge].
    { split; [code E|]. intros _. exists g. split; [left; reflexivity | exact Lt]. }
    dif E; [split; [code E | intros ->; discriminate E]|].
    destruct (nth _ (se_keys e) _) as [alg key].
    assert (K : forall P : Prop, (58 <= c <= 68 /\ (c = 64 -> exists g0, In g0 r /\ child s < g_timelock g0)) -> 58 <= c <= 68 /\ (c = 64 -> exists g0, In g0 (g :: r) /\ child s < g_timelock g0)).
    { intros _ [R0 R1]. split; [exact R0|]. intros Ec. destruct (R1 Ec) as (x & Hx & Lx). exists x. split; [right; exact Hx | exact Lx]. }
    dif E; [dif E; [exact (K True (IH _ E)) | split; [code E | intros ->; discriminate E]]|].
    dif E; [split; [code E | intros ->; discriminate E] | exact (K True (IH _ E))].
  - dif E; [|discriminate]. split; [code E | intros ->; discriminate E].
Qed.

(* ---- the transaction ---- *)
Theorem txn1_height_errors s m t ts c : validate_txn1 s m t ts = Err c ->
  20 <= c <= 68 /\
  (c = 20 -> ln_v2_require net <= child s) /\
  (c = 24 -> exists i, In i (t1_sci t) /\ child s < i1_timelock i) /\
  (c = 28 -> exists i p lf, In i (t1_sci t) /\ sc_element m ts (i1_parent i) = Some (p, lf) /\ child s < sce_maturity p) /\
  (c = 30 -> exists i, In i (t1_sfi t) /\ child s < f1_timelock i) /\
  (c = 35 -> exists x, In x (t1_fc t) /\ fc_wstart (snd (fst x)) < child s) /\
  (c = 39 -> exists rv, In rv (t1_rev t) /\ child s < r1_timelock rv) /\
  (c = 40 -> exists rv, In rv (t1_rev t) /\ fc_wstart (r1_fc rv) < child s) /\
  (c = 44 -> exists rv p lf, In rv (t1_rev t) /\ fc_element m ts (r1_parent rv) = Some (p, lf) /\ fc_wstart (fce_fc p) < child s) /\
  (c = 53 -> exists sp, In sp (t1_sp t) /\ sp_window_id m ts s (s1_parent sp) = None) /\
  (c = 64 -> exists g, In g (t1_sigs t) /\ child s < g_timelock g).
Proof.
  unfold Validate.validate_txn1. intros E.
  destruct (Z.leb_spec (ln_v2_require net) (child s)) as [Le|Gt].
  { split; [code E|]. split; [intros _; exact Le|]. repeat split; intros ->; discriminate E. }
  apply bind_err in E. destruct E as [E | ([] & _ & E)].
  { apply overflow1_codes in E. split; [lia|]. repeat split; intros ->; lia. }
  dif E; [split; [code E | repeat split; intros ->; discriminate E]|].
  apply bind_err in E. destruct E as [E | ([] & _ & E)].
  { apply minimum_codes in E. split; [lia|]. repeat split; intros ->; lia. }
  apply bind_err in E. destruct E as [E | ([] & _ & E)].
  { destruct (siacoins1_err _ _ _ _ _ E) as (R0 & R1 & R2). split; [lia|]. split; [intros ->; lia|]. split; [exact R1|]. split; [exact R2|]. repeat split; intros ->; lia. }
  apply bind_err in E. destruct E as [E | ([] & _ & E)].
  { destruct (siafunds1_err _ _ _ _ _ E) as (R0 & R1). split; [lia|]. split; [intros ->; lia|]. split; [intros ->; lia|]. split; [intros ->; lia|]. split; [exact R1|]. repeat split; intros ->; lia. }
  apply bind_err in E. destruct E as [E | ([] & _ & E)].
  { destruct (file_contracts1_err _ _ _ _ _ E) as (R0 & R1 & R2 & R3 & R4 & R5). split; [lia|]. split; [intros ->; lia|]. split; [intros ->; lia|]. split; [intros ->; lia|]. split; [intros ->; lia|].
    split; [exact R1|]. split; [exact R2|]. split; [exact R3|]. split; [exact R4|]. split; [exact R5 | intros ->; lia]. }
  apply bind_err in E. destruct E as [E | ([] & _ & E)].
  { apply arbitrary_codes in E. split; [lia|]. repeat split; intros ->; lia. }
  destruct (signatures_err _ _ _ E) as [R0 R1]. split; [lia|]. repeat split; try (intros ->; lia). exact R1.
Qed.
End Exact1.

(* the two hardfork gates are exact *)
Theorem gates_exact H net vt pt se sd s m :
  (forall t, validate_txn2 H net vt pt se sd s m t = Err 70 <-> child s < ln_v2_allow net) /\
  (forall t ts, validate_txn1 H net vt se sd s m t ts = Err 20 <-> ln_v2_require net <= child s).
Proof.
  split.
  - intros t. split.
    + intros E. exact (proj1 (proj2 (txn2_height_errors H net vt pt se sd s m t 70 E)) eq_refl).
    + intros L. unfold validate_txn2. destruct (Z.ltb_spec (child s) (ln_v2_allow net)); [reflexivity | contradiction (Z.lt_irrefl (child s)); eapply Z.lt_le_trans; eassumption].
  - intros t ts. split.
    + intros E. exact (proj1 (proj2 (txn1_height_errors H net vt se sd s m t ts 20 E)) eq_refl).
    + intros L. unfold validate_txn1. destruct (Z.leb_spec (ln_v2_require net) (child s)); [reflexivity | contradiction (Z.lt_irrefl (child s)); eapply Z.lt_le_trans; eassumption].
Qed.

Print Assumptions txn1_height_errors.
