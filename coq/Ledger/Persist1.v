(* C02 over histories, all eras: a leaf that is marked spent stays marked spent through every accepted block -- with v1
   transactions, v1 contracts and expiring contracts as well. *)
From Coq Require Import ZArith List Bool Lia.
From Sia Require Import Prim.Result Prim.Tok Policy.Model Ledger.Types Ledger.Mid Ledger.Validate Ledger.Apply Ledger.Proofs Ledger.Spends Ledger.Persist Ledger.VApply.
Import ListNotations.
Open Scope Z_scope.

Section Persist1.
Variable H : bytes -> bytes.
Variable net : lnetwork.
Variable vt : vtab.
Variable pt : ptab.
Variable se sd : bytes.
Variable s : lstate.

Definition live_fc (j : Z) : Prop := exists e, nth_error (s_leaves s) (Z.to_nat j) = Some {| l_elem := EFC e; l_spent := false |}.
(* a v1 contract diff is a creation, a revision or a resolution; with an assigned leaf it is resolved or points at a live
   v1 contract leaf *)
Definition Pfc (d : fced) : Prop :=
  (d_fc_created d = true \/ d_fc_rev d <> None \/ d_fc_resolved d = true) /\
  (d_fc_leaf d = UNASSIGNED \/ d_fc_resolved d = true \/ live_fc (d_fc_leaf d)).
Definition Inv1 (m : mid) : Prop :=
  Forall (Psc) (m_sces m) /\ Forall (Psf) (m_sfes m) /\ Forall Pfc (m_fces m) /\ Forall (Pv2 s) (m_v2fces m).

Lemma inv1_new : Inv1 (new_mid s).
Proof. unfold Inv1, new_mid. cbn. repeat split; constructor. Qed.

(* ---- primitives ---- *)
Lemma create_sce_i m i o mt m' : create_sce m i o mt = Ok m' -> Inv1 m -> Inv1 m'.
Proof.
  unfold create_sce. intros E (I1 & I2 & I3 & I4). apply bind_ok in E. destruct E as ([k fresh] & _ & E). inversion E; subst. clear E.
  unfold Inv1, with_sces. cbn. repeat split; try assumption. apply put_forall; [exact I1|]. left. reflexivity.
Qed.
Lemma spend_sce_i m e lf tx m' : spend_sce m e lf tx = Ok m' -> Inv1 m -> Inv1 m'.
Proof.
  unfold spend_sce. intros E (I1 & I2 & I3 & I4). apply bind_ok in E. destruct E as ([k fresh] & _ & E). inversion E; subst. clear E.
  unfold Inv1, with_sces. cbn. repeat split; try assumption. apply put_forall; [exact I1|]. right. reflexivity.
Qed.
Lemma create_sfe_i m i v a m' : create_sfe m i v a = Ok m' -> Inv1 m -> Inv1 m'.
Proof.
  unfold create_sfe. intros E (I1 & I2 & I3 & I4). apply bind_ok in E. destruct E as ([k fresh] & _ & E). inversion E; subst. clear E.
  unfold Inv1, with_sfes. cbn. repeat split; try assumption. apply put_forall; [exact I2|]. left. reflexivity.
Qed.
Lemma spend_sfe_i m e lf tx m' : spend_sfe m e lf tx = Ok m' -> Inv1 m -> Inv1 m'.
Proof.
  unfold spend_sfe. intros E (I1 & I2 & I3 & I4). apply bind_ok in E. destruct E as ([k fresh] & _ & E). inversion E; subst. clear E.
  unfold Inv1, with_sfes. cbn. repeat split; try assumption. apply put_forall; [exact I2|]. right. reflexivity.
Qed.
Lemma create_fce_i m i fc tax m' : create_fce m i fc tax = Ok m' -> Inv1 m -> Inv1 m'.
Proof.
  unfold create_fce. intros E (I1 & I2 & I3 & I4). apply bind_ok in E. destruct E as ([k fresh] & _ & E).
  apply bind_ok in E. destruct E as (pool & _ & E). inversion E; subst. clear E.
  unfold Inv1, with_fces. cbn. repeat split; try assumption. apply put_forall; [exact I3|]. split; left; reflexivity.
Qed.
Lemma resolve_fce_i m e lf valid tx m' : resolve_fce m e lf valid tx = Ok m' -> Inv1 m -> Inv1 m'.
Proof.
  unfold resolve_fce. intros E (I1 & I2 & I3 & I4). apply bind_ok in E. destruct E as ([k fresh] & _ & E). inversion E; subst. clear E.
  unfold Inv1, with_fces. cbn. repeat split; try assumption. apply put_forall; [exact I3|]. split; right; [right|left]; reflexivity.
Qed.
Lemma revise_fce_i m e lf rev m' : (elem_idx m (fce_id e) = None -> live_fc lf) -> revise_fce m e lf rev = Ok m' -> Inv1 m -> Inv1 m'.
Proof.
  unfold revise_fce. intros Lv E (I1 & I2 & I3 & I4). apply bind_ok in E. destruct E as ([k fresh] & Sl & E). inversion E; subst m'. clear E.
  unfold Inv1, with_fces. cbn. repeat split; try assumption. apply put_forall; [exact I3|].
  destruct fresh.
  - assert (Ef : elem_idx m (fce_id e) = None /\ k = length (m_fces m)).
    { unfold slot in Sl. destruct (elem_idx m (fce_id e)) as [k'|]; [destruct (k' <? length (m_fces m))%nat; inversion Sl | inversion Sl; auto]. }
    destruct Ef as [En ->]. rewrite nth_overflow by lia. cbn. split; [right; left; discriminate | right; right; apply Lv; exact En].
  - pose proof (nth_forall Pfc _ k dummy_fced I3 (slot_old _ _ _ _ Sl)) as Po. set (old := nth k (m_fces m) dummy_fced) in *.
    destruct Po as [Pa Pb]. destruct (d_fc_created old) eqn:Cr.
    + split; [left; reflexivity | exact Pb].
    + destruct (d_fc_rev old) eqn:Rv.
      * split; [right; left; discriminate | exact Pb].
      * cbn. destruct Pa as [C|[R|Rs]]; [congruence | congruence|]. split; [right; left; discriminate | right; left; exact Rs].
Qed.
Lemma create_v2_i m i fc m' : create_v2 m i fc = Ok m' -> Inv1 m -> Inv1 m'.
Proof.
  unfold create_v2. intros E (I1 & I2 & I3 & I4). apply bind_ok in E. destruct E as ([k fresh] & _ & E).
  apply bind_ok in E. destruct E as (tax & _ & E). apply bind_ok in E. destruct E as (pool & _ & E). inversion E; subst. clear E.
  unfold Inv1, with_v2fces. cbn. repeat split; try assumption. apply put_forall; [exact I4|]. left. reflexivity.
Qed.
Lemma resolve_v2_i m e lf kind tx m' : resolve_v2 m e lf kind tx = Ok m' -> Inv1 m -> Inv1 m'.
Proof.
  unfold resolve_v2. intros E (I1 & I2 & I3 & I4). apply bind_ok in E. destruct E as ([k fresh] & _ & E).
  destruct (d_v2_created (nth k (m_v2fces m) dummy_v2fced)); [discriminate|]. inversion E; subst. clear E.
  unfold Inv1, with_v2fces. cbn. repeat split; try assumption. apply put_forall; [exact I4|]. right. left. cbn. discriminate.
Qed.
Lemma revise_v2_i m e lf rev m' : live_v2 s lf -> revise_v2 m e lf rev = Ok m' -> Inv1 m -> Inv1 m'.
Proof.
  unfold revise_v2. intros Lv E (I1 & I2 & I3 & I4). apply bind_ok in E. destruct E as ([k fresh] & Sl & E). inversion E; subst. clear E.
  unfold Inv1, with_v2fces. cbn. repeat split; try assumption. apply put_forall; [exact I4|].
  destruct fresh.
  - assert (k = length (m_v2fces m)) by (unfold slot in Sl; destruct (elem_idx m (v2_id e)) as [k'|]; [destruct (k' <? length (m_v2fces m))%nat; inversion Sl | inversion Sl; reflexivity]).
    subst k. rewrite nth_overflow by lia. cbn. right. right. exact Lv.
  - pose proof (nth_forall (Pv2 s) _ k dummy_v2fced I4 (slot_old _ _ _ _ Sl)) as Po. set (old := nth k (m_v2fces m) dummy_v2fced) in *.
    destruct (d_v2_created old); [exact Po|]. destruct (d_v2_rev old); [exact Po|]. cbn. unfold Pv2 in *. cbn.
    right. destruct Po as [Po|[Po|Po]]; [right; exact Lv | left; exact Po | right; exact Lv].
Qed.

Lemma fold_i {A} (P : A -> Prop) (f : mid -> A -> R mid) :
  (forall m x m', P x -> f m x = Ok m' -> Inv1 m -> Inv1 m') -> forall l m m', Forall P l -> fold_r f l m = Ok m' -> Inv1 m -> Inv1 m'.
Proof.
  intros Hf. induction l as [|x r IH]; intros m m' F E I; cbn [fold_r] in E; [inversion E; subst; exact I|].
  inversion F; subst. apply bind_ok in E. destruct E as (m1 & E1 & E). apply (IH m1 m'); [assumption | exact E | eapply Hf; eassumption].
Qed.

(* ---- a v2 transaction ---- *)
Lemma apply_txn2_i m t m' : Forall (fun rv => live_v2 s (p_leaf (r2_parent rv))) (t2_rev t) -> apply_txn2 net s m t = Ok m' -> Inv1 m -> Inv1 m'.
Proof.
  intros Lv E I. unfold Apply.apply_txn2 in E.
  apply bind_ok in E. destruct E as (m1 & E1 & E). apply bind_ok in E. destruct E as (m2 & E2 & E).
  apply bind_ok in E. destruct E as (m3 & E3 & E). apply bind_ok in E. destruct E as (m4 & E4 & E).
  apply bind_ok in E. destruct E as (m5 & E5 & E). apply bind_ok in E. destruct E as (m6 & E6 & E).
  apply bind_ok in E. destruct E as (m7 & E7 & E).
  assert (I1 : Inv1 m1) by (refine (fold_i (fun _ => True) _ _ _ _ _ (Forall_true _) E1 I); intros ? ? ? _ Ex; exact (spend_sce_i _ _ _ _ _ Ex)).
  assert (I2 : Inv1 m2) by (refine (fold_i (fun _ => True) _ _ _ _ _ (Forall_true _) E2 I1); intros ? ? ? _ Ex; exact (create_sce_i _ _ _ _ _ Ex)).
  assert (I3 : Inv1 m3).
  { refine (fold_i (fun _ => True) _ _ _ _ _ (Forall_true _) E3 I2). intros m0 x m0' _ Ex I0.
    apply bind_ok in Ex. destruct Ex as (ma & Ea & Ex). apply bind_ok in Ex. destruct Ex as (c & _ & Ex).
    apply (create_sce_i _ _ _ _ _ Ex). apply (spend_sfe_i _ _ _ _ _ Ea). exact I0. }
  assert (I4 : Inv1 m4) by (refine (fold_i (fun _ => True) _ _ _ _ _ (Forall_true _) E4 I3); intros ? ? ? _ Ex; exact (create_sfe_i _ _ _ _ _ Ex)).
  assert (I5 : Inv1 m5) by (refine (fold_i (fun _ => True) _ _ _ _ _ (Forall_true _) E5 I4); intros ? ? ? _ Ex; exact (create_v2_i _ _ _ _ Ex)).
  assert (I6 : Inv1 m6) by (refine (fold_i _ _ _ _ _ _ Lv E6 I5); intros m0 rv m0' Lx Ex; exact (revise_v2_i _ _ _ _ _ Lx Ex)).
  assert (I7 : Inv1 m7).
  { refine (fold_i (fun _ => True) _ _ _ _ _ (Forall_true _) E7 I6). intros m0 rs m0' _ Ex I0. cbv zeta in Ex.
    apply bind_ok in Ex. destruct Ex as (ma & Ea & Ex). apply bind_ok in Ex. destruct Ex as (mb & Eb & Ex).
    assert (Ib : Inv1 mb).
    { destruct (rs_res rs); [apply (create_v2_i _ _ _ _ Eb) | inversion Eb; subst mb | inversion Eb; subst mb]; apply (resolve_v2_i _ _ _ _ _ _ Ea I0). }
    destruct (match rs_res rs with RRenewal rn => (rn_final_renter rn, rn_final_host rn) | RProof _ => (c_renter (v2_fc (p_val (rs_parent rs))), c_host (v2_fc (p_val (rs_parent rs))))
              | RExpiration => (c_renter (v2_fc (p_val (rs_parent rs))), missed_host_output (v2_fc (p_val (rs_parent rs)))) end) as [renter host].
    apply bind_ok in Ex. destruct Ex as (mc & Ec & Ex). apply (create_sce_i _ _ _ _ _ Ex). apply (create_sce_i _ _ _ _ _ Ec). exact Ib. }
  assert (I8 : Inv1 (fold_left (fun m a => create_att m (at_id a)) (t2_att t) m7)).
  { clear E. revert I7. generalize m7. induction (t2_att t) as [|a l IHl]; intros m0 I0; cbn [fold_left]; [exact I0|]. apply IHl. exact I0. }
  destruct (t2_new_foundation t); inversion E; subst m'; exact I8.
Qed.

(* ---- a v1 transaction ---- *)
(* its supplement has been checked against the store *)
Definition SuppOK (u : supp1) : Prop :=
  Forall (fun p => fst (mem_fc s p) = true) (u_rev u) /\ Forall (fun x => fst (mem_fc s (ss_fc x)) = true) (u_sp u).
Lemma mem_fc_live p : fst (mem_fc s p) = true -> live_fc (p_leaf p).
Proof.
  unfold mem_fc, mem_gen, leaf_at, live_fc.
  destruct ((0 <=? p_leaf p) && (p_leaf p <? Z.of_nat (length (s_leaves s)))); [|cbn; discriminate].
  destruct (nth_error (s_leaves s) (Z.to_nat (p_leaf p))) as [[el sp]|]; [|cbn; discriminate].
  destruct (p_proof_ok p); [|cbn; discriminate]. cbn [andb l_elem l_spent].
  destruct el; try (cbn; discriminate). destruct (fce1_eqb e (p_val p)); [|cbn; discriminate].
  cbn [fst]. destruct sp; [discriminate|]. intros _. exists e. reflexivity.
Qed.
(* an element looked up for an ID the MidState does not know comes from the supplement *)
Lemma fc_element_spec m ts i e lf : SuppOK ts -> fc_element m ts i = Some (e, lf) -> fce_id e = i /\ (elem_idx m i = None -> live_fc lf).
Proof.
  intros [Sr Ss] E. unfold fc_element in E.
  assert (FB : forall e lf,
    match find_pres fce_id i (u_rev ts) with
    | Some p => Some (p_val p, p_leaf p)
    | None => match find (fun s0 => beq (fce_id (p_val (ss_fc s0))) i) (u_sp ts) with Some s0 => Some (p_val (ss_fc s0), p_leaf (ss_fc s0)) | None => None end
    end = Some (e, lf) -> fce_id e = i /\ live_fc lf).
  { intros e1 lf1 F. unfold find_pres in F. destruct (find (fun p => beq (fce_id (p_val p)) i) (u_rev ts)) as [p|] eqn:F1.
    - inversion F; subst. apply find_some in F1. destruct F1 as [Hin B]. rewrite Forall_forall in Sr. split; [apply beq_eq; exact B | apply mem_fc_live; apply Sr; exact Hin].
    - destruct (find (fun s0 => beq (fce_id (p_val (ss_fc s0))) i) (u_sp ts)) as [x|] eqn:F2; [|discriminate].
      inversion F; subst. apply find_some in F2. destruct F2 as [Hin B]. rewrite Forall_forall in Ss. split; [apply beq_eq; exact B | apply mem_fc_live; apply (Ss x Hin)]. }
  destruct (elem_idx m i) as [k|] eqn:Ei.
  - destruct (nth_error (m_fces m) k) as [d|].
    + destruct (beq (fce_id (d_fce d)) i) eqn:B.
      * apply beq_eq in B. split; [|discriminate]. destruct (d_fc_rev d); injection E as Ee El; rewrite <- Ee; cbn [fce_id]; exact B.
      * destruct (FB e lf E) as [A _]. split; [exact A | discriminate].
    + destruct (FB e lf E) as [A _]. split; [exact A | discriminate].
  - destruct (FB e lf E) as [A L]. split; [exact A | intros _; exact L].
Qed.

Lemma apply_txn1_i m t ts m' : SuppOK ts -> apply_txn1 net s m t ts = Ok m' -> Inv1 m -> Inv1 m'.
Proof.
  intros So E I. unfold Apply.apply_txn1 in E.
  apply bind_ok in E. destruct E as (m1 & E1 & E). apply bind_ok in E. destruct E as (m2 & E2 & E).
  apply bind_ok in E. destruct E as (m3 & E3 & E). apply bind_ok in E. destruct E as (m4 & E4 & E).
  apply bind_ok in E. destruct E as (m5 & E5 & E). apply bind_ok in E. destruct E as (m6 & E6 & E).
  apply bind_ok in E. destruct E as (m7 & E7 & E).
  assert (I1 : Inv1 m1).
  { refine (fold_i (fun _ => True) _ _ _ _ _ (Forall_true _) E1 I). intros m0 x m0' _ Ex I0.
    destruct (sc_element m0 ts (i1_parent x)) as [[e lf]|]; [exact (spend_sce_i _ _ _ _ _ Ex I0) | discriminate]. }
  assert (I2 : Inv1 m2) by (refine (fold_i (fun _ => True) _ _ _ _ _ (Forall_true _) E2 I1); intros ? ? ? _ Ex; exact (create_sce_i _ _ _ _ _ Ex)).
  assert (I3 : Inv1 m3).
  { refine (fold_i (fun _ => True) _ _ _ _ _ (Forall_true _) E3 I2). intros m0 x m0' _ Ex I0.
    destruct (sf_element m0 ts (f1_parent x)) as [[e lf]|]; [|discriminate].
    apply bind_ok in Ex. destruct Ex as (c & _ & Ex). apply bind_ok in Ex. destruct Ex as (ma & Ea & Ex).
    apply (create_sce_i _ _ _ _ _ Ex). apply (spend_sfe_i _ _ _ _ _ Ea). exact I0. }
  assert (I4 : Inv1 m4) by (refine (fold_i (fun _ => True) _ _ _ _ _ (Forall_true _) E4 I3); intros ? ? ? _ Ex; exact (create_sfe_i _ _ _ _ _ Ex)).
  assert (I5 : Inv1 m5).
  { refine (fold_i (fun _ => True) _ _ _ _ _ (Forall_true _) E5 I4). intros m0 [[i fc] tx] m0' _ Ex. exact (create_fce_i _ _ _ _ _ Ex). }
  assert (I6 : Inv1 m6).
  { refine (fold_i (fun _ => True) _ _ _ _ _ (Forall_true _) E6 I5). intros m0 rv m0' _ Ex I0.
    destruct (fc_element m0 ts (r1_parent rv)) as [[e lf]|] eqn:Fe; [|discriminate].
    destruct (fc_element_spec m0 ts _ e lf So Fe) as [Ei Lv]. apply (revise_fce_i _ _ _ _ _ ltac:(rewrite Ei; exact Lv) Ex I0). }
  assert (I7 : Inv1 m7).
  { refine (fold_i (fun _ => True) _ _ _ _ _ (Forall_true _) E7 I6). intros m0 sp m0' _ Ex I0.
    destruct (fc_element m0 ts (s1_parent sp)) as [[e lf]|]; [|discriminate].
    apply bind_ok in Ex. destruct Ex as (ma & Ea & Ex).
    refine (fold_i (fun _ => True) _ _ _ _ _ (Forall_true _) Ex (resolve_fce_i _ _ _ _ _ _ Ea I0)). intros ? ? ? _ Ey. exact (create_sce_i _ _ _ _ _ Ey). }
  destruct (ln_foundation_height net <=? s_height s); inversion E; subst m'; [|exact I7].
  clear E. revert I7. generalize m7. induction (t1_arb t) as [|a l IHl]; intros m0 I0; cbn [fold_left]; [exact I0|]. apply IHl. destruct a; exact I0.
Qed.

Lemma apply_txns1_i : forall ts us m m', Forall SuppOK us -> apply_txns1 net s m ts us = Ok m' -> Inv1 m -> Inv1 m'.
Proof.
  induction ts as [|t r IH]; intros us m m' So E I; cbn [apply_txns1] in E; [inversion E; subst; exact I|].
  destruct us as [|u ur]; [discriminate|]. apply bind_ok in E. destruct E as (m1 & E1 & E).
  apply (IH ur m1 m' (Forall_inv_tail So) E). exact (apply_txn1_i m t u m1 (Forall_inv So) E1 I).
Qed.

Lemma block2_i txns : forall m m', fold_r (vstep H net vt pt se sd s) txns m = Ok m' -> Inv1 m -> Inv1 m'.
Proof.
  induction txns as [|t r IH]; intros m m' E I; cbn [fold_r] in *; [inversion E; subst; exact I|].
  apply bind_ok in E. destruct E as (m1 & E1 & E). unfold vstep in E1. apply bind_ok in E1. destruct E1 as ([] & V & A).
  apply (IH m1 m' E). exact (apply_txn2_i m t m1 (validate_rev_live H net vt pt se sd s m t V) A I).
Qed.

(* ---- what validate_supplement establishes ---- *)
Lemma first_err_all {A} (f : A -> bool) code l : first_err f code l = Ok tt -> Forall (fun x => f x = true) l.
Proof. induction l as [|x r IH]; intros E; [constructor|]. cbn [first_err] in E. destruct (f x) eqn:Fx; [|discriminate]. constructor; [exact Fx | apply IH; exact E]. Qed.
Lemma supplement_ok b : validate_supplement net s b = Ok tt ->
  Forall SuppOK (b_supp b) /\ Forall (fun p : pres fce1 * list id => live_fc (p_leaf (fst p))) (b_expiring b).
Proof.
  unfold validate_supplement. destruct ((ln_v2_require net <=? child s) && _); [discriminate|]. destruct (negb _); [discriminate|].
  intros E. apply bind_ok in E. destruct E as ([] & Es & Ee). split.
  - revert Es. induction (b_supp b) as [|u r IH]; intros Es; [constructor|].
    apply bind_ok in Es. destruct Es as ([] & _ & Es). apply bind_ok in Es. destruct Es as ([] & _ & Es).
    apply bind_ok in Es. destruct Es as ([] & E3 & Es). apply bind_ok in Es. destruct Es as ([] & E4 & Es).
    constructor; [split; [exact (first_err_all _ _ _ E3) | exact (first_err_all _ _ _ E4)] | apply IH; exact Es].
  - apply first_err_all in Ee. eapply Forall_impl; [|exact Ee]. cbv beta. intros p Hp. apply mem_fc_live. exact Hp.
Qed.

Lemma supplement_inputs_ok b : validate_supplement net s b = Ok tt ->
  Forall (fun u => Forall (fun p => fst (mem_sc s p) = true) (u_sci u) /\ Forall (fun p => fst (mem_sf s p) = true) (u_sfi u)) (b_supp b).
Proof.
  unfold validate_supplement. destruct ((ln_v2_require net <=? child s) && _); [discriminate|]. destruct (negb _); [discriminate|].
  intros E. apply bind_ok in E. destruct E as ([] & Es & _).
  revert Es. induction (b_supp b) as [|u r IH]; intros Es; [constructor|].
  apply bind_ok in Es. destruct Es as ([] & E1 & Es). apply bind_ok in Es. destruct Es as ([] & E2 & Es).
  apply bind_ok in Es. destruct Es as ([] & _ & Es). apply bind_ok in Es. destruct Es as ([] & _ & Es).
  constructor; [split; [exact (first_err_all _ _ _ E1) | exact (first_err_all _ _ _ E2)] | apply IH; exact Es].
Qed.

(* ---- the state update ---- *)
Lemma leaf_updates_spent1 m b k : Inv1 m -> SpentAt (s_leaves s) k ->
  forall u, In u (leaf_updates s m b) -> fst u <> UNASSIGNED -> Z.to_nat (fst u) = k -> l_spent (snd u) = true.
Proof.
  intros (I1 & I2 & I3 & I4) (lf & N0 & Sp) u Hin Ne Ek. unfold leaf_updates in Hin.
  rewrite !in_app_iff in Hin. destruct Hin as [Hin|[Hin|[Hin|[Hin|[Hin|Hin]]]]].
  - apply in_map_iff in Hin. destruct Hin as (d & <- & Hd). cbn [fst snd l_spent] in *. rewrite Forall_forall in I1. destruct (I1 d Hd) as [Un|T]; [contradiction | exact T].
  - apply in_map_iff in Hin. destruct Hin as (d & <- & Hd). cbn [fst snd l_spent] in *. rewrite Forall_forall in I2. destruct (I2 d Hd) as [Un|T]; [contradiction | exact T].
  - apply in_map_iff in Hin. destruct Hin as (d & <- & Hd). cbn [fst snd l_spent] in *. rewrite Forall_forall in I3. destruct (I3 d Hd) as [_ [Un|[T|(e & Lv)]]]; [contradiction | exact T|].
    rewrite Ek in Lv. rewrite N0 in Lv. inversion Lv; subst. cbn in Sp. discriminate.
  - apply in_map_iff in Hin. destruct Hin as (d & <- & Hd). cbn [fst snd l_spent] in *. rewrite Forall_forall in I4. destruct (I4 d Hd) as [Un|[T|(e & Lv)]]; [contradiction | destruct (d_v2_res d); [reflexivity | contradiction] |].
    rewrite Ek in Lv. rewrite N0 in Lv. inversion Lv; subst. cbn in Sp. discriminate.
  - apply in_map_iff in Hin. destruct Hin as (i & <- & _). cbn [fst] in Ne. contradiction.
  - destruct Hin as [<-|[]]. cbn [fst] in Ne. contradiction.
Qed.

(* every accepted block, of any era, leaves every spent leaf spent *)
Theorem spent_persist_all b s' m : validate_block H net vt pt se sd s b = Ok tt -> apply_block net s b = Ok (s', m) ->
  forall k, SpentAt (s_leaves s) k -> SpentAt (s_leaves s') k.
Proof.
  intros V A k Sk.
  destruct (accepted_transactions_apply H net vt pt se sd s b V) as (m1 & m2 & _ & A1 & V2 & A2).
  assert (So : Forall SuppOK (b_supp b) /\ Forall (fun p : pres fce1 * list id => live_fc (p_leaf (fst p))) (b_expiring b)).
  { unfold validate_block in V. apply bind_ok in V. destruct V as (? & _ & V). apply bind_ok in V. destruct V as ([] & Vs & _). exact (supplement_ok b Vs). }
  destruct So as [So _].
  pose proof (apply_txns1_i _ _ _ _ So A1 inv1_new) as I1. pose proof (block2_i _ _ _ V2 I1) as I2.
  unfold apply_block in A. apply bind_ok in A. destruct A as (mf & Am & A). inversion A; subst s' m. clear A. cbn [s_leaves].
  unfold mid_apply_block in Am. destruct ((ln_v2_require net <=? child s) && _); [discriminate|].
  rewrite A1 in Am. cbn [bind] in Am. rewrite A2 in Am. cbn [bind] in Am.
  apply bind_ok in Am. destruct Am as (m3 & E3 & Am). apply bind_ok in Am. destruct Am as (sub & _ & Am). apply bind_ok in Am. destruct Am as (m4 & E4 & Am).
  assert (I3 : Inv1 m3) by (refine (fold_i (fun _ => True) _ _ _ _ _ (Forall_true _) E3 I2); intros ? ? ? _ Ex; exact (create_sce_i _ _ _ _ _ Ex)).
  assert (I4 : Inv1 m4) by (destruct sub; [apply (create_sce_i _ _ _ _ _ E4 I3) | inversion E4; subst; exact I3]).
  assert (I5 : Inv1 mf).
  { refine (fold_i (fun _ => True) _ _ _ _ _ (Forall_true _) Am I4). intros m0 [p ids] m0' _ Ex I0.
    destruct (is_spent m0 (fce_id (p_val p))); [inversion Ex; subst; exact I0|].
    apply bind_ok in Ex. destruct Ex as (ma & Ea & Ex).
    refine (fold_i (fun _ => True) _ _ _ _ _ (Forall_true _) Ex (resolve_fce_i _ _ _ _ _ _ Ea I0)). intros ? ? ? _ Ey. exact (create_sce_i _ _ _ _ _ Ey). }
  apply apply_leaves_spent; [exact Sk|]. apply leaf_updates_spent1; assumption.
Qed.
End Persist1.

(* ---- chains of any accepted blocks ---- *)
Section ChainAll.
Variable H : bytes -> bytes.
Variable net : lnetwork.
Variable vt : vtab.
Variable pt : ptab.
Variable se sd : bytes.

Inductive chain_all : lstate -> list lblock -> lstate -> Prop :=
| chain_all_nil s : chain_all s [] s
| chain_all_cons s b s1 m bs s' : validate_block H net vt pt se sd s b = Ok tt -> apply_block net s b = Ok (s1, m) ->
    chain_all s1 bs s' -> chain_all s (b :: bs) s'.

Theorem chain_all_spent_persist s bs s' : chain_all s bs s' -> forall k, SpentAt (s_leaves s) k -> SpentAt (s_leaves s') k.
Proof. induction 1 as [|s b s1 m bs s' V A C IH]; intros k Sk; [exact Sk|]. apply IH. eapply spent_persist_all; eassumption. Qed.

(* over any accepted history, of any mix of eras: a leaf once marked spent is never again accepted as the parent of a v2
   siacoin input, siafund input, revision or resolution *)
Theorem chain_all_no_reuse s bs s' k : chain_all s bs s' -> SpentAt (s_leaves s) k ->
  forall m t, validate_txn2 H net vt pt se sd s' m t = Ok tt ->
  (forall i, In i (t2_sci t) -> p_leaf (i2_parent i) <> UNASSIGNED -> Z.to_nat (p_leaf (i2_parent i)) <> k) /\
  (forall i, In i (t2_sfi t) -> p_leaf (f2_parent i) <> UNASSIGNED -> Z.to_nat (p_leaf (f2_parent i)) <> k) /\
  (forall rv, In rv (t2_rev t) -> Z.to_nat (p_leaf (r2_parent rv)) <> k) /\
  (forall rs, In rs (t2_res t) -> Z.to_nat (p_leaf (rs_parent rs)) <> k).
Proof.
  intros C Sk m t V. pose proof (chain_all_spent_persist _ _ _ C k Sk) as Sk'.
  assert (C0 : chain H net vt pt se sd s' [] s') by constructor.
  split; [|split].
  - exact (chain_no_respend H net vt pt se sd s' [] s' k C0 Sk' m t V).
  - exact (chain_no_respend_sf H net vt pt se sd s' [] s' k C0 Sk' m t V).
  - exact (chain_no_rerevise H net vt pt se sd s' [] s' k C0 Sk' m t V).
Qed.

(* ... nor, in a block with v1 transactions, as a supplement element: siacoin or siafund parent, revised, proven or expiring
   v1 contract *)
Theorem chain_all_no_reuse_v1 s bs s' k : chain_all s bs s' -> SpentAt (s_leaves s) k ->
  forall b, validate_block H net vt pt se sd s' b = Ok tt ->
  (forall u p, In u (b_supp b) -> In p (u_sci u) -> Z.to_nat (p_leaf p) <> k) /\
  (forall u p, In u (b_supp b) -> In p (u_sfi u) -> Z.to_nat (p_leaf p) <> k) /\
  (forall u p, In u (b_supp b) -> In p (u_rev u) -> Z.to_nat (p_leaf p) <> k) /\
  (forall u x, In u (b_supp b) -> In x (u_sp u) -> Z.to_nat (p_leaf (ss_fc x)) <> k) /\
  (forall p, In p (b_expiring b) -> Z.to_nat (p_leaf (fst p)) <> k).
Proof.
  intros C Sk b V. destruct (chain_all_spent_persist _ _ _ C k Sk) as (lf & N0 & Sp).
  unfold validate_block in V. apply bind_ok in V. destruct V as (? & _ & V). apply bind_ok in V. destruct V as ([] & Vs & _).
  pose proof (supplement_inputs_ok net s' b Vs) as F1. destruct (supplement_ok net s' b Vs) as [F2 F3].
  rewrite Forall_forall in F1, F2, F3.
  split; [|split; [|split; [|split]]].
  - intros u p Hu Hp Ek. destruct (F1 u Hu) as [A _]. rewrite Forall_forall in A. pose proof (mem_sc_sound s' p (A p Hp)) as [_ M]. rewrite Ek, N0 in M. inversion M; subst. cbn in Sp. discriminate.
  - intros u p Hu Hp Ek. destruct (F1 u Hu) as [_ A]. rewrite Forall_forall in A. destruct (mem_sf_unspent s' p (A p Hp)) as (e & M). rewrite Ek, N0 in M. inversion M; subst. cbn in Sp. discriminate.
  - intros u p Hu Hp Ek. destruct (F2 u Hu) as [A _]. rewrite Forall_forall in A. destruct (mem_fc_live s' p (A p Hp)) as (e & M). rewrite Ek, N0 in M. inversion M; subst. cbn in Sp. discriminate.
  - intros u y Hu Hy Ek. destruct (F2 u Hu) as [_ A]. rewrite Forall_forall in A. destruct (mem_fc_live s' _ (A y Hy)) as (e & M). rewrite Ek, N0 in M. inversion M; subst. cbn in Sp. discriminate.
  - intros p Hp Ek. destruct (F3 p Hp) as (e & M). rewrite Ek, N0 in M. inversion M; subst. cbn in Sp. discriminate.
Qed.
End ChainAll.
