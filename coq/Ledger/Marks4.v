(* C02 over histories, assembled: an element consumed by an accepted block is never consumed again by a later block. *)
From Coq Require Import ZArith List Bool Lia.
From Sia Require Import Prim.Result Prim.Tok Policy.Model Ledger.Types Ledger.Mid Ledger.Validate Ledger.Apply Ledger.Proofs Ledger.Spends Ledger.Persist.
From Sia Require Import Ledger.Marks1 Ledger.Marks2 Ledger.Marks3.
Import ListNotations.
Open Scope Z_scope.

Section Never.
Variable H : bytes -> bytes.
Variable net : lnetwork.
Variable vt : vtab.
Variable pt : ptab.
Variable se sd : bytes.

(* block b consumes the siacoin element with ID id0 at leaf lf0 in state s; later, after any accepted chain of v2-only
   blocks, no accepted transaction has a siacoin input, siafund input, revision or resolution whose parent is that leaf *)
Theorem consumed_never_again (kind_of : id -> kind) (id0 : id) (lf0 : Z) s b s1 m t0 i0 bs s' :
  kind_of id0 = KSC ->
  validate_block H net vt pt se sd s b = Ok tt -> apply_block net s b = Ok (s1, m) -> b_txns b = [] -> b_expiring b = [] ->
  Forall (TxOK kind_of id0 lf0) (b_v2txns b) ->
  Forall (fun p : id * sco => kind_of (fst p) = KSC /\ fst p <> id0) (b_payouts b) -> kind_of (b_foundation_id b) = KSC -> b_foundation_id b <> id0 ->
  In t0 (b_v2txns b) -> In i0 (t2_sci t0) -> sce_id (p_val (i2_parent i0)) = id0 -> p_leaf (i2_parent i0) = lf0 -> lf0 <> UNASSIGNED ->
  chain H net vt pt se sd s1 bs s' ->
  forall mm t, validate_txn2 H net vt pt se sd s' mm t = Ok tt ->
    (forall i, In i (t2_sci t) -> p_leaf (i2_parent i) <> UNASSIGNED -> Z.to_nat (p_leaf (i2_parent i)) <> Z.to_nat lf0) /\
    (forall i, In i (t2_sfi t) -> p_leaf (f2_parent i) <> UNASSIGNED -> Z.to_nat (p_leaf (f2_parent i)) <> Z.to_nat lf0) /\
    (forall rv, In rv (t2_rev t) -> Z.to_nat (p_leaf (r2_parent rv)) <> Z.to_nat lf0) /\
    (forall rs, In rs (t2_res t) -> Z.to_nat (p_leaf (rs_parent rs)) <> Z.to_nat lf0).
Proof.
  intros K0 V A T0 X0 Otx Opay Kf Nf Ht0 Hi0 Eid Elf Nun C mm t Vt.
  pose proof (consumed_leaf_marked H net vt pt se sd s kind_of id0 lf0 K0 b s1 m t0 i0 V A T0 X0 Otx Opay Kf Nf Ht0 Hi0 Eid Elf Nun) as S1.
  split; [|split].
  - exact (chain_no_respend H net vt pt se sd s1 bs s' _ C S1 mm t Vt).
  - exact (chain_no_respend_sf H net vt pt se sd s1 bs s' _ C S1 mm t Vt).
  - exact (chain_no_rerevise H net vt pt se sd s1 bs s' _ C S1 mm t Vt).
Qed.
End Never.

(* the premises are satisfiable: a state with one unspent siacoin leaf, a v2 block whose only transaction spends it *)
Example consumed_example :
  let Hid := fun x : bytes => x in
  let net := {| ln_v2_allow := 0; ln_v2_require := 0; ln_v2_final := 0; ln_v2_ephemeral := 0; ln_maturity_delay := 144; ln_tax_height := 0;
                ln_sp_height := 0; ln_foundation_height := 0; ln_devaddr_height := 0; ln_devaddr_old := []; ln_devaddr_new := [];
                ln_initial_coinbase := 300000 * 10 ^ 24; ln_min_coinbase := 30000 * 10 ^ 24; ln_blocks_per_month := 4380; ln_blocks_per_year := 52560 |} in
  let pol := PAbove 0 in
  let e0 := {| sce_id := [1%N]; sce_out := {| sco_value := 5; sco_addr := address Hid pol |}; sce_maturity := 0 |} in
  let s := {| s_height := 10; s_index_id := []; s_pool := 0; s_found_subsidy := void_addr; s_found_mgmt := void_addr; s_median := 0;
              s_leaves := [{| l_elem := ESC e0; l_spent := false |}] |} in
  let i0 := {| i2_parent := {| p_leaf := 0; p_proof_ok := true; p_val := e0 |}; i2_policy := {| sp_policy := pol; sp_sigs := []; sp_pres := [] |} |} in
  let t0 := {| t2_id := [3%N]; t2_weight := 100; t2_sighash := [4%N]; t2_sci := [i0]; t2_sco := [([2%N], {| sco_value := 5; sco_addr := [] |})];
               t2_sfi := []; t2_sfo := []; t2_fc := []; t2_rev := []; t2_res := []; t2_att := []; t2_new_foundation := None; t2_fee := 0 |} in
  let b := {| b_id := [7%N]; b_is_v2 := true; b_v2_height := 11; b_commit_ok := true; b_header_code := 0;
              b_payouts := [([9%N], {| sco_value := 300000 * 10 ^ 24 - 11 * 10 ^ 24; sco_addr := [] |})]; b_foundation_id := [8%N];
              b_txns := []; b_v2txns := [t0]; b_supp := []; b_expiring := []; b_next_median := 0 |} in
  validate_block Hid net [] [] [] [] s b = Ok tt /\
  exists s1 m, apply_block net s b = Ok (s1, m) /\ SpentAt (s_leaves s1) 0 /\ Forall (TxOK (fun _ => KSC) [1%N] 0) (b_v2txns b).
Proof.
  cbv zeta. split; [vm_compute; reflexivity|]. eexists. eexists. split; [vm_compute; reflexivity|]. split.
  - eexists. split; reflexivity.
  - constructor; [|constructor]. unfold TxOK. cbn. repeat split; repeat constructor; try discriminate; try reflexivity.
Qed.
