(* C02: the same for resolved v2 contracts -- the diff of a resolved contract stays in place, and it is the only diff that
   points at the contract's leaf. *)
From Coq Require Import ZArith List Bool Lia.
From Sia Require Import Prim.Result Prim.Tok Policy.Model Ledger.Types Ledger.Mid Ledger.Validate Ledger.Apply Ledger.Proofs Ledger.Spends Ledger.Persist.
From Sia Require Import Ledger.Marks1.
Import ListNotations.
Open Scope Z_scope.

Section MarksV2.
Variable kind_of : id -> kind.
Notation WK := (WK kind_of).
Notation entry_id := Marks1.entry_id.
(* the consumed element we follow *)
Variable id0 : id.
Variable lf0 : Z.
Hypothesis K0 : kind_of id0 = KV2.
Definition Tr (m : mid) : Prop :=
  exists k d, elem_idx m id0 = Some k /\ nth_error (m_v2fces m) k = Some d /\ d_v2_leaf d = lf0 /\ d_v2_res d <> None.
Definition Good (m : mid) : Prop := WK m /\ (is_spent m id0 = true -> Tr m).

Lemma is_spent_cons m' m i tx : m_spends m' = (i, tx) :: m_spends m -> i <> id0 -> is_spent m' id0 = is_spent m id0.
Proof. intros E Ne. unfold is_spent, spent_in. rewrite E. cbn [assoc]. rewrite beq_false by congruence. reflexivity. Qed.
Lemma is_spent_same m' m : m_spends m' = m_spends m -> is_spent m' id0 = is_spent m id0.
Proof. intros E. unfold is_spent, spent_in. rewrite E. reflexivity. Qed.

(* ---- a record into the v2 contract slice ---- *)
Lemma rec_v23 m i k fresh d sp pool : Good m -> kind_of i = KV2 -> slot m i (m_v2fces m) = Ok (k, fresh) -> v2_id (d_v2 d) = i ->
  let m' := with_v2fces m (put k fresh d (m_v2fces m)) (els m i k fresh) sp pool in
  WK m' /\ (i <> id0 -> Tr m -> Tr m') /\ (i = id0 -> d_v2_leaf d = lf0 -> d_v2_res d <> None -> Tr m').
Proof.
  intros [W T] Ki Sl Ed m'. destruct (slot_cases _ _ _ _ _ Sl) as [(F & En & Ek)|(F & Es & Lk)].
  - (* fresh slot *)
    assert (PC : (fresh = true /\ k = length (m_v2fces m)) \/ (fresh = false /\ (k < length (m_v2fces m))%nat)) by (left; auto).
    assert (EI : forall j, elem_idx m' j = if beq j i then Some k else elem_idx m j) by (intros j; apply elem_idx_els; left; exact F).
    split; [|split].
    + intros j kj Ej. rewrite EI in Ej. destruct (beq j i) eqn:B.
      * apply beq_eq in B. subst j. inversion Ej; subst kj. rewrite Ki. unfold entry_id, m'. cbn [m_v2fces with_v2fces]. rewrite (put_same _ _ _ _ PC). cbn. rewrite Ed. reflexivity.
      * specialize (W j kj Ej). destruct (kind_of j) eqn:Kj; unfold entry_id in *; unfold m'; cbn [m_sces m_sfes m_fces m_v2fces m_aes with_v2fces]; try exact W.
        rewrite (put_other _ _ _ _ _ PC); [exact W|]. intros ->. subst k. rewrite (proj2 (nth_error_None _ _) (Nat.le_refl _)) in W. discriminate.
    + intros Ne (k0 & d0 & E0 & N0 & L0 & S0). exists k0, d0. rewrite EI, (beq_false id0 i) by congruence. split; [exact E0|]. split; [|auto].
      unfold m'. cbn [m_v2fces with_v2fces]. rewrite (put_other _ _ _ _ _ PC); [exact N0|]. intros ->. subst k.
      rewrite (proj2 (nth_error_None _ _) (Nat.le_refl _)) in N0. discriminate.
    + intros -> Ld Sd. exists k, d. rewrite EI, beq_refl. split; [reflexivity|]. split; [|auto]. unfold m'. cbn [m_v2fces with_v2fces]. apply put_same. exact PC.
  - (* the slot the ID already has *)
    assert (PC : (fresh = true /\ k = length (m_v2fces m)) \/ (fresh = false /\ (k < length (m_v2fces m))%nat)) by (right; auto).
    assert (EI : forall j, elem_idx m' j = elem_idx m j).
    { intros j. unfold m'. cbn [m_elements with_v2fces]. unfold elem_idx at 1. change (assoc j (els m i k fresh) = elem_idx m j).
      rewrite elem_idx_els by (right; exact Es). destruct (beq j i) eqn:B; [apply beq_eq in B; subst; symmetry; exact Es | reflexivity]. }
    pose proof (W i k Es) as Wi. rewrite Ki in Wi. cbn [entry_id] in Wi.
    split; [|split].
    + intros j kj Ej. rewrite EI in Ej. specialize (W j kj Ej). destruct (kind_of j) eqn:Kj; unfold entry_id in *; unfold m'; cbn [m_sces m_sfes m_fces m_v2fces m_aes with_v2fces]; try exact W.
      destruct (Nat.eq_dec kj k) as [->|Nk]; [|rewrite (put_other _ _ _ _ _ PC) by exact Nk; exact W].
      rewrite (put_same _ _ _ _ PC). cbn. rewrite Ed. rewrite Wi in W. exact W.
    + intros Ne (k0 & d0 & E0 & N0 & L0 & S0). exists k0, d0. rewrite EI. split; [exact E0|]. split; [|auto].
      unfold m'. cbn [m_v2fces with_v2fces]. rewrite (put_other _ _ _ _ _ PC); [exact N0|]. intros ->.
      pose proof (W id0 k E0) as W0. rewrite K0 in W0. cbn [entry_id] in W0. rewrite Wi in W0. inversion W0. contradiction.
    + intros -> Ld Sd. exists k, d. rewrite EI. split; [exact Es|]. split; [|auto]. unfold m'. cbn [m_v2fces with_v2fces]. apply put_same. exact PC.
Qed.

(* ---- a record into the KSC slice ---- *)
Lemma rec_sc_o m i k fresh (d : sced) sp  : Good m -> kind_of i = KSC -> slot m i (m_sces m) = Ok (k, fresh) -> (fun d => sce_id (d_sce d)) d = i ->
  let m' := with_sces m (put k fresh d (m_sces m)) (els m i k fresh) sp  in
  WK m' /\ (Tr m -> Tr m').
Proof.
  intros [W T] Ki Sl Ed m'. assert (Ne0 : i <> id0) by (intros ->; rewrite K0 in Ki; discriminate).
  destruct (slot_cases _ _ _ _ _ Sl) as [(F & En & Ek)|(F & Es & Lk)].
  - assert (PC : (fresh = true /\ k = length (m_sces m)) \/ (fresh = false /\ (k < length (m_sces m))%nat)) by (left; auto).
    assert (EI : forall j, elem_idx m' j = if beq j i then Some k else elem_idx m j) by (intros j; apply elem_idx_els; left; exact F).
    split.
    + intros j kj Ej. rewrite EI in Ej. destruct (beq j i) eqn:B.
      * apply beq_eq in B. subst j. inversion Ej; subst kj. rewrite Ki. unfold entry_id, m'. cbn [m_sces with_sces]. rewrite (put_same _ _ _ _ PC). cbn. rewrite Ed. reflexivity.
      * specialize (W j kj Ej). destruct (kind_of j) eqn:Kj; unfold entry_id in *; unfold m'; cbn [m_sces m_sfes m_fces m_v2fces m_aes with_sces]; try exact W.
        rewrite (put_other _ _ _ _ _ PC); [exact W|]. intros ->. subst k. rewrite (proj2 (nth_error_None _ _) (Nat.le_refl _)) in W. discriminate.
    + intros (k0 & d0 & E0 & N0 & L0 & S0). exists k0, d0. rewrite EI, (beq_false id0 i) by congruence. split; [exact E0|]. split; [exact N0 | auto].
  - assert (PC : (fresh = true /\ k = length (m_sces m)) \/ (fresh = false /\ (k < length (m_sces m))%nat)) by (right; auto).
    assert (EI : forall j, elem_idx m' j = elem_idx m j).
    { intros j. unfold m'. cbn [m_elements with_sces]. unfold elem_idx at 1. change (assoc j (els m i k fresh) = elem_idx m j).
      rewrite elem_idx_els by (right; exact Es). destruct (beq j i) eqn:B; [apply beq_eq in B; subst; symmetry; exact Es | reflexivity]. }
    pose proof (W i k Es) as Wi. rewrite Ki in Wi. cbn [entry_id] in Wi.
    split.
    + intros j kj Ej. rewrite EI in Ej. specialize (W j kj Ej). destruct (kind_of j) eqn:Kj; unfold entry_id in *; unfold m'; cbn [m_sces m_sfes m_fces m_v2fces m_aes with_sces]; try exact W.
      destruct (Nat.eq_dec kj k) as [->|Nk]; [|rewrite (put_other _ _ _ _ _ PC) by exact Nk; exact W].
      rewrite (put_same _ _ _ _ PC). cbn. rewrite Ed. rewrite Wi in W. exact W.
    + intros (k0 & d0 & E0 & N0 & L0 & S0). exists k0, d0. rewrite EI. split; [exact E0|]. split; [exact N0 | auto].
Qed.

(* ---- a record into the KSF slice ---- *)
Lemma rec_sf_o m i k fresh (d : sfed) sp  : Good m -> kind_of i = KSF -> slot m i (m_sfes m) = Ok (k, fresh) -> (fun d => sfe_id (d_sfe d)) d = i ->
  let m' := with_sfes m (put k fresh d (m_sfes m)) (els m i k fresh) sp  in
  WK m' /\ (Tr m -> Tr m').
Proof.
  intros [W T] Ki Sl Ed m'. assert (Ne0 : i <> id0) by (intros ->; rewrite K0 in Ki; discriminate).
  destruct (slot_cases _ _ _ _ _ Sl) as [(F & En & Ek)|(F & Es & Lk)].
  - assert (PC : (fresh = true /\ k = length (m_sfes m)) \/ (fresh = false /\ (k < length (m_sfes m))%nat)) by (left; auto).
    assert (EI : forall j, elem_idx m' j = if beq j i then Some k else elem_idx m j) by (intros j; apply elem_idx_els; left; exact F).
    split.
    + intros j kj Ej. rewrite EI in Ej. destruct (beq j i) eqn:B.
      * apply beq_eq in B. subst j. inversion Ej; subst kj. rewrite Ki. unfold entry_id, m'. cbn [m_sfes with_sfes]. rewrite (put_same _ _ _ _ PC). cbn. rewrite Ed. reflexivity.
      * specialize (W j kj Ej). destruct (kind_of j) eqn:Kj; unfold entry_id in *; unfold m'; cbn [m_sces m_sfes m_fces m_v2fces m_aes with_sfes]; try exact W.
        rewrite (put_other _ _ _ _ _ PC); [exact W|]. intros ->. subst k. rewrite (proj2 (nth_error_None _ _) (Nat.le_refl _)) in W. discriminate.
    + intros (k0 & d0 & E0 & N0 & L0 & S0). exists k0, d0. rewrite EI, (beq_false id0 i) by congruence. split; [exact E0|]. split; [exact N0 | auto].
  - assert (PC : (fresh = true /\ k = length (m_sfes m)) \/ (fresh = false /\ (k < length (m_sfes m))%nat)) by (right; auto).
    assert (EI : forall j, elem_idx m' j = elem_idx m j).
    { intros j. unfold m'. cbn [m_elements with_sfes]. unfold elem_idx at 1. change (assoc j (els m i k fresh) = elem_idx m j).
      rewrite elem_idx_els by (right; exact Es). destruct (beq j i) eqn:B; [apply beq_eq in B; subst; symmetry; exact Es | reflexivity]. }
    pose proof (W i k Es) as Wi. rewrite Ki in Wi. cbn [entry_id] in Wi.
    split.
    + intros j kj Ej. rewrite EI in Ej. specialize (W j kj Ej). destruct (kind_of j) eqn:Kj; unfold entry_id in *; unfold m'; cbn [m_sces m_sfes m_fces m_v2fces m_aes with_sfes]; try exact W.
      destruct (Nat.eq_dec kj k) as [->|Nk]; [|rewrite (put_other _ _ _ _ _ PC) by exact Nk; exact W].
      rewrite (put_same _ _ _ _ PC). cbn. rewrite Ed. rewrite Wi in W. exact W.
    + intros (k0 & d0 & E0 & N0 & L0 & S0). exists k0, d0. rewrite EI. split; [exact E0|]. split; [exact N0 | auto].
Qed.


(* ---- the converse for the v2 contract slice: every entry is registered under its own ID, at its own index ---- *)
Definition U (m : mid) : Prop := forall k d, nth_error (m_v2fces m) k = Some d -> elem_idx m (v2_id (d_v2 d)) = Some k /\ kind_of (v2_id (d_v2 d)) = KV2.
Lemma u_new s : U (new_mid s).
Proof. intros k d N. unfold new_mid in N. cbn in N. destruct k; discriminate. Qed.
Lemma u_other_sc m i k fresh d sp : U m -> kind_of i = KSC -> (fresh = true \/ elem_idx m i = Some k) ->
  U (with_sces m (put k fresh d (m_sces m)) (els m i k fresh) sp).
Proof.
  intros Um Ki Hc k' d' N'. cbn [m_v2fces with_sces] in N'. destruct (Um k' d' N') as [E' K']. split; [|exact K'].
  change (assoc (v2_id (d_v2 d')) (els m i k fresh) = Some k'). rewrite elem_idx_els by exact Hc.
  destruct (beq (v2_id (d_v2 d')) i) eqn:B; [apply beq_eq in B; rewrite B in K'; congruence | exact E'].
Qed.
Lemma u_other_sf m i k fresh d sp : U m -> kind_of i = KSF -> (fresh = true \/ elem_idx m i = Some k) ->
  U (with_sfes m (put k fresh d (m_sfes m)) (els m i k fresh) sp).
Proof.
  intros Um Ki Hc k' d' N'. cbn [m_v2fces with_sfes] in N'. destruct (Um k' d' N') as [E' K']. split; [|exact K'].
  change (assoc (v2_id (d_v2 d')) (els m i k fresh) = Some k'). rewrite elem_idx_els by exact Hc.
  destruct (beq (v2_id (d_v2 d')) i) eqn:B; [apply beq_eq in B; rewrite B in K'; congruence | exact E'].
Qed.
Lemma slot_hc {A} m i (l : list A) k fresh : slot m i l = Ok (k, fresh) -> fresh = true \/ elem_idx m i = Some k.
Proof. intros Sl. destruct (slot_cases _ _ _ _ _ Sl) as [(F & _)|(_ & Es & _)]; [left; exact F | right; exact Es]. Qed.
Lemma u_att m i : U m -> kind_of i = KAT -> U (create_att m i).
Proof.
  intros Um Ki k' d' N'. cbn [m_v2fces create_att] in N'. destruct (Um k' d' N') as [E' K']. split; [|exact K'].
  change ((if beq (v2_id (d_v2 d')) i then Some (length (m_aes m)) else elem_idx m (v2_id (d_v2 d'))) = Some k').
  destruct (beq (v2_id (d_v2 d')) i) eqn:B; [apply beq_eq in B; rewrite B in K'; congruence | exact E'].
Qed.
Lemma u_v2 m i k fresh d sp pool : U m -> kind_of i = KV2 -> slot m i (m_v2fces m) = Ok (k, fresh) -> v2_id (d_v2 d) = i ->
  U (with_v2fces m (put k fresh d (m_v2fces m)) (els m i k fresh) sp pool).
Proof.
  intros Um Ki Sl Ed k' d' N'. cbn [m_v2fces with_v2fces] in N'.
  change (assoc (v2_id (d_v2 d')) (els m i k fresh) = Some k' /\ kind_of (v2_id (d_v2 d')) = KV2). rewrite elem_idx_els by (exact (slot_hc _ _ _ _ _ Sl)).
  destruct (slot_cases _ _ _ _ _ Sl) as [(F & En & Ek)|(F & Es & Lk)].
  - assert (PC : (fresh = true /\ k = length (m_v2fces m)) \/ (fresh = false /\ (k < length (m_v2fces m))%nat)) by (left; auto).
    destruct (Nat.eq_dec k' k) as [->|Nk].
    + rewrite (put_same _ _ _ _ PC) in N'. inversion N'; subst d'. rewrite Ed, beq_refl. split; [reflexivity | exact Ki].
    + rewrite (put_other _ _ _ _ _ PC) in N' by exact Nk. destruct (Um k' d' N') as [E' K']. split; [|exact K'].
      destruct (beq (v2_id (d_v2 d')) i) eqn:B; [apply beq_eq in B; rewrite B in E'; congruence | exact E'].
  - assert (PC : (fresh = true /\ k = length (m_v2fces m)) \/ (fresh = false /\ (k < length (m_v2fces m))%nat)) by (right; auto).
    destruct (Nat.eq_dec k' k) as [->|Nk].
    + rewrite (put_same _ _ _ _ PC) in N'. inversion N'; subst d'. rewrite Ed, beq_refl. split; [reflexivity | exact Ki].
    + rewrite (put_other _ _ _ _ _ PC) in N' by exact Nk. destruct (Um k' d' N') as [E' K']. split; [|exact K'].
      destruct (beq (v2_id (d_v2 d')) i) eqn:B; [apply beq_eq in B; rewrite B in E'; rewrite Es in E'; congruence | exact E'].
Qed.
End MarksV2.
