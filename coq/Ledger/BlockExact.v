(* C08 at the level of the block: application never reports an error (it can only panic), so a block is rejected with a
   transaction-level code only because one of its transactions is rejected with that code in the MidState reached. *)
From Coq Require Import ZArith List Bool Lia.
From Sia Require Import Prim.Result Prim.Tok Policy.Model Ledger.Types Ledger.Mid Ledger.Validate Ledger.Apply Ledger.Exact2 Ledger.Exact1.
Import ListNotations.
Open Scope Z_scope.

Lemma slot_ne {A} m i (l : list A) c : slot m i l = Err c -> False.
Proof. unfold slot. destruct (elem_idx m i); [destruct (_ <? _)%nat|]; discriminate. Qed.
Lemma cadd_ne' a b c : cadd a b = Err c -> False. Proof. exact (cadd_ne a b c). Qed.
Lemma csub_ne a b c : csub a b = Err c -> False. Proof. unfold csub. destruct (a <? b); discriminate. Qed.
Lemma cmul64_ne a b c : cmul64 a b = Err c -> False. Proof. unfold cmul64. destruct (C128 <=? a * b); discriminate. Qed.
Lemma cdiv64_ne' a b c : cdiv64 a b = Err c -> False. Proof. exact (cdiv64_ne a b c). Qed.
Lemma v2_tax_ne' fc c : v2_tax fc = Err c -> False. Proof. exact (v2_tax_ne fc c). Qed.
#[export] Hint Resolve slot_ne cadd_ne' csub_ne cmul64_ne cdiv64_ne' v2_tax_ne' : noerr.

Ltac ne E := split_err E; try discriminate E; try (exfalso; eauto with noerr; fail).

Lemma create_sce_ne m i o mt c : create_sce m i o mt = Err c -> False.
Proof. unfold create_sce. intros E. ne E; try (destruct x; ne E). Qed.
Lemma spend_sce_ne m e lf tx c : spend_sce m e lf tx = Err c -> False.
Proof. unfold spend_sce. intros E. ne E; try (destruct x; ne E). Qed.
Lemma create_sfe_ne m i v a c : create_sfe m i v a = Err c -> False.
Proof. unfold create_sfe. intros E. ne E; try (destruct x; ne E). Qed.
Lemma spend_sfe_ne m e lf tx c : spend_sfe m e lf tx = Err c -> False.
Proof. unfold spend_sfe. intros E. ne E; try (destruct x; ne E). Qed.
Lemma create_fce_ne m i fc tax c : create_fce m i fc tax = Err c -> False.
Proof. unfold create_fce. intros E. ne E; try (destruct x; ne E). Qed.
Lemma revise_fce_ne m e lf rev c : revise_fce m e lf rev = Err c -> False.
Proof. unfold revise_fce. cbv zeta. intros E. ne E; try (destruct x; ne E). Qed.
Lemma resolve_fce_ne m e lf v tx c : resolve_fce m e lf v tx = Err c -> False.
Proof. unfold resolve_fce. intros E. ne E; try (destruct x; ne E). Qed.
Lemma create_v2_ne m i fc c : create_v2 m i fc = Err c -> False.
Proof. unfold create_v2. intros E. ne E; try (destruct x; ne E). Qed.
Lemma revise_v2_ne m e lf rev c : revise_v2 m e lf rev = Err c -> False.
Proof. unfold revise_v2. intros E. ne E; try (destruct x; ne E). Qed.
Lemma resolve_v2_ne m e lf k tx c : resolve_v2 m e lf k tx = Err c -> False.
Proof. unfold resolve_v2. intros E. ne E; try (destruct x; ne E). Qed.
#[export] Hint Resolve create_sce_ne spend_sce_ne create_sfe_ne spend_sfe_ne create_fce_ne revise_fce_ne resolve_fce_ne create_v2_ne revise_v2_ne resolve_v2_ne : noerr.

Lemma fold_r_ne {A} (f : mid -> A -> R mid) c : (forall m x, f m x = Err c -> False) -> forall l m, fold_r f l m = Err c -> False.
Proof. intros F. induction l as [|x l IH]; intros m E; cbn [fold_r] in E; [discriminate|]. apply bind_err in E. destruct E as [E | (m' & _ & E)]; [exact (F _ _ E) | exact (IH _ E)]. Qed.
Lemma claim_ne a b v c : claim_portion a b v = Err c -> False.
Proof. unfold claim_portion. intros E. ne E. Qed.
#[export] Hint Resolve claim_ne : noerr.

Section BlockExact.
Variable H : bytes -> bytes.
Variable net : lnetwork.
Variable vt : vtab.
Variable pt : ptab.
Variable se sd : bytes.

Lemma apply_txn1_ne s m t ts c : apply_txn1 net s m t ts = Err c -> False.
Proof.
  unfold apply_txn1. cbv zeta. intros E.
  apply bind_err in E. destruct E as [E | (m1 & _ & E)].
  { revert E. apply fold_r_ne. intros m0 i E. destruct (sc_element m0 ts (i1_parent i)) as [[e lf]|]; [eauto with noerr | discriminate]. }
  apply bind_err in E. destruct E as [E | (m2 & _ & E)]; [revert E; apply fold_r_ne; intros; eauto with noerr|].
  apply bind_err in E. destruct E as [E | (m3 & _ & E)].
  { revert E. apply fold_r_ne. intros m0 i E. destruct (sf_element m0 ts (f1_parent i)) as [[e lf]|]; [|discriminate]. ne E. }
  apply bind_err in E. destruct E as [E | (m4 & _ & E)]; [revert E; apply fold_r_ne; intros; eauto with noerr|].
  apply bind_err in E. destruct E as [E | (m5 & _ & E)]; [revert E; apply fold_r_ne; intros m0 [[i fc] z] E; eauto with noerr|].
  apply bind_err in E. destruct E as [E | (m6 & _ & E)].
  { revert E. apply fold_r_ne. intros m0 rv E. destruct (fc_element m0 ts (r1_parent rv)) as [[e lf]|]; [eauto with noerr | discriminate]. }
  apply bind_err in E. destruct E as [E | (m7 & _ & E)].
  { revert E. apply fold_r_ne. intros m0 sp E. destruct (fc_element m0 ts (s1_parent sp)) as [[e lf]|]; [|discriminate].
    apply bind_err in E. destruct E as [E | (m' & _ & E)]; [eauto with noerr|]. revert E. apply fold_r_ne. intros; eauto with noerr. }
  destruct (ln_foundation_height net <=? s_height s); discriminate.
Qed.
Lemma apply_txn2_ne s m t c : apply_txn2 net s m t = Err c -> False.
Proof.
  unfold apply_txn2. cbv zeta. intros E.
  apply bind_err in E. destruct E as [E | (m1 & _ & E)]; [revert E; apply fold_r_ne; intros; eauto with noerr|].
  apply bind_err in E. destruct E as [E | (m2 & _ & E)]; [revert E; apply fold_r_ne; intros; eauto with noerr|].
  apply bind_err in E. destruct E as [E | (m3 & _ & E)]; [revert E; apply fold_r_ne; intros m0 i E; ne E|].
  apply bind_err in E. destruct E as [E | (m4 & _ & E)]; [revert E; apply fold_r_ne; intros; eauto with noerr|].
  apply bind_err in E. destruct E as [E | (m5 & _ & E)]; [revert E; apply fold_r_ne; intros; eauto with noerr|].
  apply bind_err in E. destruct E as [E | (m6 & _ & E)]; [revert E; apply fold_r_ne; intros; eauto with noerr|].
  apply bind_err in E. destruct E as [E | (m7 & _ & E)].
  { revert E. apply fold_r_ne. intros m0 rs E.
    apply bind_err in E. destruct E as [E | (ma & _ & E)]; [eauto with noerr|].
    apply bind_err in E. destruct E as [E | (mb & _ & E)]; [destruct (rs_res rs); [eauto with noerr | discriminate | discriminate]|].
    destruct (match rs_res rs with RRenewal rn => _ | RProof _ => _ | RExpiration => _ end) as [renter host].
    apply bind_err in E. destruct E as [E | (mc & _ & E)]; eauto with noerr. }
  destruct (t2_new_foundation t); discriminate.
Qed.

(* a block is rejected with a code of the transaction range only because a transaction of it is rejected with that code,
   in the MidState the transactions before it have produced *)
Theorem block_error_from_txn s b c : validate_block H net vt pt se sd s b = Err c -> 20 <= c ->
  (exists t ts m, In t (b_txns b) /\ validate_txn1 H net vt se sd s m t ts = Err c) \/
  (exists t m, In t (b_v2txns b) /\ validate_txn2 H net vt pt se sd s m t = Err c).
Proof.
  unfold validate_block. intros E Cge.
  apply bind_err in E. destruct E as [E | ([] & _ & E)].
  { exfalso. assert (R : 1 <= c <= 10); [|lia]. unfold validate_orphan in E. cbv zeta in E. dif E; [code E|].
    apply bind_err in E. destruct E as [E | ([] & _ & E)]; [|dif E; [code E|]; dif E; [code E | discriminate]].
    unfold validate_miner_payouts in E. apply bind_err in E. destruct E as [E | (e1 & _ & E)].
    { revert E. generalize (block_reward net s) as acc. induction (flat_map t1_fees (b_txns b)) as [|f r IH]; intros acc E; cbn [fees_sum] in E; [discriminate|].
      dif E; [code E|]. dif E; [code E | exact (IH _ E)]. }
    apply bind_err in E. destruct E as [E | (e2 & _ & E)].
    { destruct (b_is_v2 b); [|discriminate]. apply bind_err in E. destruct E as [E | (x & _ & E)]; [|dif E; [code E | discriminate]].
      revert E. generalize e1 as acc. induction (map t2_fee (b_v2txns b)) as [|f r IH]; intros acc E; cbn [v2fees_sum] in E; [discriminate|]. dif E; [code E | exact (IH _ E)]. }
    apply bind_err in E. destruct E as [E | (sm & _ & E)]; [|dif E; [discriminate | code E]].
    revert E. generalize 0 as acc. induction (map _ (b_payouts b)) as [|p r IH]; intros acc E; cbn [payouts_sum] in E; [discriminate|].
    dif E; [code E|]. dif E; [code E | exact (IH _ E)]. }
  apply bind_err in E. destruct E as [E | ([] & _ & E)].
  { exfalso. assert (R : 11 <= c <= 17); [|lia]. unfold validate_supplement in E. dif E; [code E|]. dif E; [code E|].
    assert (FE : forall A (f : A -> bool) k l, first_err f k l = Err c -> c = k).
    { intros A f k l. induction l as [|x r IH]; intros E0; cbn [first_err] in E0; [discriminate|]. destruct (f x); [exact (IH E0) | code E0]. }
    apply bind_err in E. destruct E as [E | ([] & _ & E)]; [|apply FE in E; lia].
    revert E. induction (b_supp b) as [|u r IH]; intros E; [discriminate|]. cbv beta iota zeta fix in E.
    apply bind_err in E. destruct E as [E | ([] & _ & E)]; [apply FE in E; lia|].
    apply bind_err in E. destruct E as [E | ([] & _ & E)]; [apply FE in E; lia|].
    apply bind_err in E. destruct E as [E | ([] & _ & E)]; [apply FE in E; lia|].
    apply bind_err in E. destruct E as [E | ([] & _ & E)]; [apply FE in E; lia | exact (IH E)]. }
  dif E; [exfalso; injection E as E; lia|].
  apply bind_err in E. destruct E as [E | (m1 & _ & E)].
  - left. revert E. generalize (new_mid s) as m. generalize (b_supp b) as us. induction (b_txns b) as [|t r IH]; intros us m E; cbn [validate_txns1] in E; [discriminate|].
    destruct us as [|u ur]; [discriminate|]. apply bind_err in E. destruct E as [E | ([] & _ & E)].
    + exists t, u, m. split; [left; reflexivity | exact E].
    + apply bind_err in E. destruct E as [E | (m' & _ & E)]; [exfalso; exact (apply_txn1_ne _ _ _ _ _ E)|].
      destruct (IH _ _ E) as (t' & ts' & mm & Hin & Ev). exists t', ts', mm. split; [right; exact Hin | exact Ev].
  - right. apply bind_err in E. destruct E as [E | (m2 & _ & E)]; [|discriminate].
    revert E. generalize m1 as m. induction (b_v2txns b) as [|t r IH]; intros m E; cbn [fold_r] in E; [discriminate|].
    apply bind_err in E. destruct E as [E | (m' & _ & E)].
    + apply bind_err in E. destruct E as [E | ([] & _ & E)]; [exists t, m; split; [left; reflexivity | exact E] | exfalso; exact (apply_txn2_ne _ _ _ _ E)].
    + destruct (IH _ E) as (t' & mm & Hin & Ev). exists t', mm. split; [right; exact Hin | exact Ev].
Qed.
End BlockExact.
Print Assumptions block_error_from_txn.
