(* siafund inputs across v1 and v2 transactions of a block *)
From Coq Require Import ZArith List Bool Lia.
From Sia Require Import Prim.Result Prim.Tok Policy.Model Ledger.Types Ledger.Mid Ledger.Validate Ledger.Apply Ledger.Proofs Ledger.Spends Ledger.SpendsV1.
Import ListNotations.
Open Scope Z_scope.

Lemma sf_element_id m ts i e lf : sf_element m ts i = Some (e, lf) -> sfe_id e = i.
Proof.
  unfold sf_element. intros E.
  assert (F : option_map (fun p => (p_val p, p_leaf p)) (find_pres sfe_id i (u_sfi ts)) = Some (e, lf) -> sfe_id e = i).
  { destruct (find_pres sfe_id i (u_sfi ts)) as [p|] eqn:Fp; [|discriminate]. cbn. intros X. inversion X; subst. eapply find_pres_id; exact Fp. }
  destruct (elem_idx m i) as [k|]; [|exact (F E)].
  destruct (nth_error (m_sfes m) k) as [d|]; [|exact (F E)].
  destruct (beq (sfe_id (d_sfe d)) i) eqn:B; [|exact (F E)]. inversion E; subst. apply beq_eq. exact B.
Qed.

Section Block1b.
Variable H : bytes -> bytes.
Variable net : lnetwork.
Variable vt : vtab.
Variable pt : ptab.
Variable se sd : bytes.

Definition v1_sfi_ids (t : txn1) : list id := map f1_parent (t1_sfi t).

Lemma v1_sfi_fresh s m t ts : validate_txn1 H net vt se sd s m t ts = Ok tt ->
  Forall (fun i => is_spent m i = false) (v1_sfi_ids t) /\ NoDup (v1_sfi_ids t).
Proof.
  unfold validate_txn1. intros Hv. destruct (ln_v2_require net <=? child s); [discriminate|].
  apply bind_ok in Hv. destruct Hv as (? & _ & Hv). destruct (MAXW <? t1_weight t); [discriminate|].
  apply bind_ok in Hv. destruct Hv as (? & _ & Hv). apply bind_ok in Hv. destruct Hv as (? & _ & Hv).
  apply bind_ok in Hv. destruct Hv as (? & Hsf & Hv). apply bind_ok in Hv. destruct Hv as (? & _ & Hv). apply bind_ok in Hv. destruct Hv as (? & _ & Hsig).
  split.
  - unfold validate_siafunds in Hsf. apply bind_ok in Hsf. destruct Hsf as (insum & Hin & _). revert Hin. unfold v1_sfi_ids.
    generalize 0 as acc. generalize insum. induction (t1_sfi t) as [|i l IH]; intros r acc E; [constructor|]. 
    destruct (child s <? f1_timelock i); [discriminate|]. destruct (is_spent m (f1_parent i)) eqn:Sp; [discriminate|].
    destruct (sf_element m ts (f1_parent i)) as [[p lf]|]; [|discriminate].
    match type of E with (if ?c then _ else _) = _ => destruct c; [discriminate|] end.
    cbn [map]. constructor; [exact Sp | eapply IH; exact E].
  - unfold validate_signatures in Hsig. apply bind_ok in Hsig. destruct Hsig as (m1 & A1 & Hsig). apply bind_ok in Hsig. destruct Hsig as (m2 & A2 & _).
    destruct (add_entries_nodup _ _ _ _ _ A2) as (ND & _). unfold v1_sfi_ids. exact ND.
Qed.

Lemma step1_sfi_entered s ts tx m i m' :
  (match sf_element m ts (f1_parent i) with
   | None => Panic PMissing
   | Some (e, lf) => do c <- claim_portion (m_pool m) (sfe_claim e) (sfe_value e);
                     do m1 <- spend_sfe m e lf tx;
                     create_sce m1 (f1_claim_id i) {| sco_value := c; sco_addr := f1_claim_addr i |} (maturity_height net s)
   end) = Ok m' -> ext m m' /\ is_spent m' (f1_parent i) = true.
Proof.
  destruct (sf_element m ts (f1_parent i)) as [[e lf]|] eqn:Q; [|discriminate]. intros Hs.
  apply bind_ok in Hs. destruct Hs as (c & _ & Hs). apply bind_ok in Hs. destruct Hs as (m1 & A & Hs).
  pose proof (spend_sfe_sp _ _ _ _ _ A) as Sp. rewrite (sf_element_id _ _ _ _ _ Q) in Sp. pose proof (create_sce_sp _ _ _ _ _ Hs) as Sc.
  split; [eapply ext_trans; [eapply ext_cons; exact Sp | apply ext_eq; exact Sc]|].
  unfold is_spent, spent_in. rewrite Sc, Sp. cbn [assoc]. rewrite beq_refl. reflexivity.
Qed.

Theorem apply_txn1_spends_sf s m t ts m' : apply_txn1 net s m t ts = Ok m' ->
  ext m m' /\ Forall (fun i => is_spent m' i = true) (v1_sfi_ids t).
Proof.
  unfold apply_txn1. intros E.
  apply bind_ok in E. destruct E as (m1 & E1 & E). apply bind_ok in E. destruct E as (m2 & E2 & E).
  apply bind_ok in E. destruct E as (m3 & E3 & E). apply bind_ok in E. destruct E as (m4 & E4 & E).
  apply bind_ok in E. destruct E as (m5 & E5 & E). apply bind_ok in E. destruct E as (m6 & E6 & E).
  apply bind_ok in E. destruct E as (m7 & E7 & E).
  pose proof (fold_r_ext _ (t1_sci t) (fun m0 x0 m1' Hs => proj1 (step1_sci ts (t1_id t) m0 x0 m1' Hs)) _ _ E1) as X1.
  pose proof (fold_r_ext _ (t1_sco t) (fun m0 x0 m1' Hs => ext_eq _ _ (create_sce_sp _ _ _ _ _ Hs)) _ _ E2) as X2.
  destruct (fold_r_entered _ f1_parent (t1_sfi t) (fun m0 x0 m1' => step1_sfi_entered s ts (t1_id t) m0 x0 m1') _ _ E3) as [X3 F3].
  pose proof (fold_r_ext _ (t1_sfo t) (fun m0 x0 m1' Hs => ext_eq _ _ (create_sfe_sp _ _ _ _ _ Hs)) _ _ E4) as X4.
  assert (X5 : ext m4 m5).
  { eapply (fold_r_ext _ (t1_fc t)); [|exact E5]. intros m0 [[i fc] tx] m1' Hs. cbv beta iota in Hs. apply ext_eq. eapply create_fce_sp; exact Hs. }
  assert (X6 : ext m5 m6).
  { eapply (fold_r_ext _ (t1_rev t)); [|exact E6]. intros m0 rv m1' Hs. cbv beta in Hs. destruct (fc_element m0 ts (r1_parent rv)) as [[e lf]|]; [|discriminate].
    apply ext_eq. eapply revise_fce_sp; exact Hs. }
  pose proof (fold_r_ext _ (t1_sp t) (fun m0 x0 m1' => step1_sp net s ts (t1_id t) m0 x0 m1') _ _ E7) as X7.
  assert (X8 : ext m7 m').
  { destruct (ln_foundation_height net <=? s_height s).
    - assert (Em : m' = fold_left (fun m0 a0 => match a0 with ArbUpdate p f => with_foundation m0 p f | ArbBadUpdate => m0 | ArbOther => m0 end) (t1_arb t) m7) by (inversion E; reflexivity).
      rewrite Em. clear Em E. apply ext_eq. generalize m7. induction (t1_arb t) as [|a0 l IHl]; intros m0; cbn [fold_left]; [reflexivity|].
      rewrite IHl. destruct a0; reflexivity.
    - inversion E; subst. apply ext_refl. }
  assert (T3 : ext m3 m').
  { eapply ext_trans; [exact X4|]. eapply ext_trans; [exact X5|]. eapply ext_trans; [exact X6|]. eapply ext_trans; [exact X7 | exact X8]. }
  split; [eapply ext_trans; [exact X1|]; eapply ext_trans; [exact X2|]; eapply ext_trans; [exact X3 | exact T3]|].
  unfold v1_sfi_ids. apply Forall_map. eapply Forall_impl; [|exact F3]. cbv beta. intros i Hs. eapply spent_mono; [exact T3 | exact Hs].
Qed.

(* the v1 part of a block for any selector of consumed elements that validation keeps fresh and application enters *)
Lemma txns1_generic s (sel : txn1 -> list id) :
  (forall m t ts, validate_txn1 H net vt se sd s m t ts = Ok tt -> Forall (fun i => is_spent m i = false) (sel t) /\ NoDup (sel t)) ->
  (forall m t ts m', apply_txn1 net s m t ts = Ok m' -> ext m m' /\ Forall (fun i => is_spent m' i = true) (sel t)) ->
  forall txs us m m', validate_txns1 H net vt se sd s m txs us = Ok m' ->
  ext m m' /\ NoDup (flat_map sel txs) /\ Forall (fun i => is_spent m' i = true) (flat_map sel txs).
Proof.
  intros Hval Happ. induction txs as [|t r IH]; intros us m m' E; cbn [validate_txns1 flat_map] in *.
  - inversion E; subst. split; [apply ext_refl|]. split; constructor.
  - destruct us as [|u ur]; [discriminate|].
    apply bind_ok in E. destruct E as ([] & V & E). apply bind_ok in E. destruct E as (m1 & A & E).
    destruct (Hval m t u V) as [F0 N0]. destruct (Happ m t u m1 A) as [X S1].
    (* freshness of the rest w.r.t. m1 comes from validating each of them against a later state *)
    assert (Rest : forall txs us m m', validate_txns1 H net vt se sd s m txs us = Ok m' -> Forall (fun i => is_spent m i = false) (flat_map sel txs)).
    { clear - Hval Happ. induction txs as [|t r IHr]; intros us m m' E; cbn [validate_txns1 flat_map] in *; [constructor|].
      destruct us as [|u ur]; [discriminate|]. apply bind_ok in E. destruct E as ([] & V & E). apply bind_ok in E. destruct E as (m1 & A & E).
      destruct (Hval m t u V) as [F0 _]. destruct (Happ m t u m1 A) as [X _]. apply Forall_app. split; [exact F0|].
      eapply Forall_impl; [|exact (IHr _ _ _ E)]. cbv beta. intros i Hi. destruct (is_spent m i) eqn:Es; [|reflexivity].
      rewrite (spent_mono m m1 i X Es) in Hi. discriminate. }
    destruct (IH _ _ _ E) as (Xr & Nr & Sr). pose proof (Rest _ _ _ _ E) as Fr.
    split; [eapply ext_trans; eassumption|]. split.
    + apply NoDup_app_iff'; auto. intros i Hin1 Hin2.
      pose proof (proj1 (Forall_forall _ _) S1 i Hin1). pose proof (proj1 (Forall_forall _ _) Fr i Hin2). congruence.
    + apply Forall_app; split; [|exact Sr]. eapply Forall_impl; [|exact S1]. cbv beta. intros i Hi. eapply spent_mono; eassumption.
Qed.

(* no siafund element is spent twice across the v1 and v2 transactions of a block *)
Theorem mixed_block_no_double_spend_sf s b : validate_block H net vt pt se sd s b = Ok tt ->
  NoDup (flat_map v1_sfi_ids (b_txns b) ++ flat_map sfi_ids (b_v2txns b)).
Proof.
  unfold validate_block. intros Hv. apply bind_ok in Hv. destruct Hv as (? & _ & Hv). apply bind_ok in Hv. destruct Hv as (? & _ & Hv).
  destruct (b_is_v2 b && negb (b_commit_ok b)); [discriminate|].
  apply bind_ok in Hv. destruct Hv as (m1 & H1 & Hv). apply bind_ok in Hv. destruct Hv as (m2 & Hf & _).
  change (fold_r (vstep H net vt pt se sd s) (b_v2txns b) m1 = Ok m2) in Hf.
  destruct (txns1_generic s v1_sfi_ids (fun m t ts V => v1_sfi_fresh s m t ts V) (fun m t ts m' A => apply_txn1_spends_sf s m t ts m' A) _ _ _ _ H1) as (_ & N1 & S1).
  destruct (block_no_double_spend H net vt pt se sd s sfi_ids) with (txns := b_v2txns b) (m := m1) (m' := m2) as [N2 F2]; [| |exact Hf|].
  - intros m t V. destruct (validate_txn2_fresh H net vt pt se sd s m t V) as (_ & _ & A & B & _). split; assumption.
  - intros m t m' A. destruct (apply_txn2_spends net s m t m' A) as [X F]. split; [exact X|].
    exact (proj1 (proj1 (Forall_app _ _ _) (proj2 (proj1 (Forall_app _ _ _) F)))).
  - apply NoDup_app_iff'; auto. intros i Hin1 Hin2.
    pose proof (proj1 (Forall_forall _ _) S1 i Hin1). pose proof (proj1 (Forall_forall _ _) F2 i Hin2). congruence.
Qed.
End Block1b.
