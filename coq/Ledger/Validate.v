(* consensus/validation.go, function by function, over the MidState model. Error codes name the
   first failing check (the harness maps the implementation's error strings to the same codes). *)
From Coq Require Import ZArith List Bool.
From Sia Require Import Prim.Result Prim.Tok Policy.Model Ledger.Types Ledger.Mid.
Import ListNotations.
Open Scope Z_scope.

Section Validate.
Variable H : bytes -> bytes.
Variable net : lnetwork.
Variable vt : vtab.      (* valid (key, sighash, signature) triples *)
Variable pt : ptab.      (* valid (hash, preimage) pairs *)
Variable spec_entropy spec_ed25519 : bytes.

Definition child (s : lstate) : Z := (s_height s + 1) mod 2 ^ 64.
Definition MAXW : Z := 2000000.

Definition block_reward (s : lstate) : Z :=
  (* Siacoins(uint32(childHeight)) subtracted from the initial coinbase, floored at the minimum *)
  let sub := (child s mod 2 ^ 32) * 10 ^ 24 in
  if ln_initial_coinbase net <? sub then ln_min_coinbase net
  else let r := ln_initial_coinbase net - sub in if r <? ln_min_coinbase net then ln_min_coinbase net else r.

(* FoundationSubsidy: 30000 SC per lblock, paid monthly (first payment: a year) *)
Definition foundation_subsidy (s : lstate) : R (option sco) :=
  if beq (s_found_subsidy s) void_addr then Ok None
  else if ln_blocks_per_month net =? 0 then Panic PDivZero
  else if (child s <? ln_foundation_height net) || negb (((child s - ln_foundation_height net) mod 2 ^ 64) mod ln_blocks_per_month net =? 0) then Ok None
  else if child s =? ln_foundation_height net then
    do v <- cmul64 (30000 * 10 ^ 24) (ln_blocks_per_year net); Ok (Some {| sco_value := v; sco_addr := s_found_subsidy s |})
  else do v <- cmul64 (30000 * 10 ^ 24) (ln_blocks_per_month net); Ok (Some {| sco_value := v; sco_addr := s_found_subsidy s |}).

(* FileContractTax: 3.9%, rounded down to a multiple of the siafund count; before the tax fork the
   rate is the binary64 nearest to 0.039 taken as an exact rational *)
Definition F039_NUM : Z := 5620492334958379.
Definition F039_DEN : Z := 2 ^ 57.
Definition fc_tax (s : lstate) (payout : Z) : Z :=
  let i := if child s <? ln_tax_height net then (payout * F039_NUM) / F039_DEN else (payout * 39) / 1000 in
  (i - i mod 10000) mod C128.

(* ---- membership against the true element store ---- *)
Definition leaf_at (s : lstate) (i : Z) : option leaf :=
  if (0 <=? i) && (i <? Z.of_nat (length (s_leaves s))) then nth_error (s_leaves s) (Z.to_nat i) else None.
Definition mem_gen {A} (s : lstate) (p : pres A) (same : elem -> bool) : bool * bool :=   (* (unspent, spent) *)
  match leaf_at s (p_leaf p) with
  | Some l => if p_proof_ok p && same (l_elem l) then (negb (l_spent l), l_spent l) else (false, false)
  | None => (false, false)
  end.
Definition mem_sc s (p : pres sce) := mem_gen s p (fun e => match e with ESC x => sce_eqb x (p_val p) | _ => false end).
Definition mem_sf s (p : pres sfe) := mem_gen s p (fun e => match e with ESF x => sfe_eqb x (p_val p) | _ => false end).
Definition mem_fc s (p : pres fce1) := mem_gen s p (fun e => match e with EFC x => fce1_eqb x (p_val p) | _ => false end).
Definition mem_v2 s (p : pres fce2) := mem_gen s p (fun e => match e with EV2 x => fce2_eqb x (p_val p) | _ => false end).
Definition mem_ci s (p : pres (id * Z)) :=
  mem_gen s p (fun e => match e with ECI i h => beq i (fst (p_val p)) && (h =? snd (p_val p)) | _ => false end).

(* ---- ValidateOrphan (weight, miner payouts, header, v2 height) ---- *)
Fixpoint fees_sum (fees : list Z) (acc : Z) : R Z :=      (* AddWithOverflow with explicit errors *)
  match fees with
  | [] => Ok acc
  | f :: r => if f =? 0 then err 2 else if C128 <=? acc + f then err 3 else fees_sum r (acc + f)
  end.
Fixpoint v2fees_sum (fees : list Z) (acc : Z) : R Z :=
  match fees with [] => Ok acc | f :: r => if C128 <=? acc + f then err 4 else v2fees_sum r (acc + f) end.
Fixpoint payouts_sum (ps : list Z) (acc : Z) : R Z :=
  match ps with
  | [] => Ok acc
  | p :: r => if p =? 0 then err 6 else if C128 <=? acc + p then err 7 else payouts_sum r (acc + p)
  end.
Definition validate_miner_payouts (s : lstate) (b : lblock) : R unit :=
  do e1 <- fees_sum (flat_map t1_fees (b_txns b)) (block_reward s);
  do e2 <- (if b_is_v2 b then
              do x <- v2fees_sum (map t2_fee (b_v2txns b)) e1;
              if negb (length (b_payouts b) =? 1)%nat then err 5 else Ok x
            else Ok e1);
  do sum <- payouts_sum (map (fun p => sco_value (snd p)) (b_payouts b)) 0;
  if sum =? e2 then Ok tt else err 8.

Definition validate_orphan (s : lstate) (b : lblock) : R unit :=
  (* weight: uint64 sum, wraps *)
  let w := fold_left (fun a x => (a + x) mod 2 ^ 64) (map t1_weight (b_txns b) ++ map t2_weight (b_v2txns b)) 0 in
  if MAXW <? w then err 1
  else do _ <- validate_miner_payouts s b;
  if negb (b_header_code b =? 0) then err 9
  else if b_is_v2 b && negb (b_v2_height b =? child s) then err 10
  else Ok tt.

(* ---- validateSupplement ---- *)
Fixpoint first_err {A} (f : A -> bool) (code : Z) (l : list A) : R unit :=
  match l with [] => Ok tt | x :: r => if f x then first_err f code r else err code end.
Definition validate_supplement (s : lstate) (b : lblock) : R unit :=
  if (ln_v2_require net <=? child s) && (negb (length (b_supp b) =? 0)%nat || negb (length (b_expiring b) =? 0)%nat) then err 11
  else if negb (length (b_supp b) =? length (b_txns b))%nat then err 12
  else
    do _ <- (fix go (l : list supp1) : R unit :=
               match l with
               | [] => Ok tt
               | u :: r =>
                 do _ <- first_err (fun p => fst (mem_sc s p)) 13 (u_sci u);
                 do _ <- first_err (fun p => fst (mem_sf s p)) 14 (u_sfi u);
                 do _ <- first_err (fun p => fst (mem_fc s p)) 15 (u_rev u);
                 do _ <- first_err (fun x => fst (mem_fc s (ss_fc x))) 16 (u_sp u);
                 go r
               end) (b_supp b);
    first_err (fun p => fst (mem_fc s (fst p))) 17 (b_expiring b).

(* ---- v1 transactions ---- *)
Definition sum_scos (l : list sco) : R Z := csum (map sco_value l) 0.

(* validateCurrencyOverflow: the running sum saturates at the first overflow *)
Definition validate_currency_overflow (t : txn1) : R unit :=
  let vals := map (fun x => sco_value (snd x)) (t1_sco t)
              ++ flat_map (fun x => let fc := snd (fst x) in fc_payout fc :: map sco_value (fc_valid fc) ++ map sco_value (fc_missed fc)) (t1_fc t)
              ++ flat_map (fun r => map sco_value (fc_valid (r1_fc r)) ++ map sco_value (fc_missed (r1_fc r))) (t1_rev t) in
  let ov := (fix go (l : list Z) (acc : Z) : bool := match l with [] => false | x :: r => if C128 <=? acc + x then true else go r (acc + x) end) vals 0 in
  let sfov := existsb (fun x => 10000 <? fst (snd x)) (t1_sfo t) in
  if ov || sfov then err 21 else Ok tt.

Definition validate_minimum_values (t : txn1) : R unit :=
  if existsb (fun x => sco_value (snd x) =? 0) (t1_sco t) || existsb (fun x => fc_payout (snd (fst x)) =? 0) (t1_fc t)
     || existsb (fun x => fst (snd x) =? 0) (t1_sfo t) || existsb (fun f => f =? 0) (t1_fees t)
  then err 23 else Ok tt.

(* the accumulation loops of validateSiacoins *)
Fixpoint in_sci1 (s : lstate) (m : mid) (ts : supp1) (l : list sci1) (acc : Z) : R Z :=
  match l with
  | [] => Ok acc
  | i :: r =>
    if child s <? i1_timelock i then err 24
    else if is_spent m (i1_parent i) then err 25
    else match sc_element m ts (i1_parent i) with
    | None => err 26
    | Some (p, _) =>
      if negb (beq (i1_uh i) (sco_addr (sce_out p))) then err 27
      else if child s <? sce_maturity p then err 28
      else do a <- cadd acc (sco_value (sce_out p)); in_sci1 s m ts r a
    end
  end.
Fixpoint out_fees (l : list Z) (acc : Z) : R Z :=
  match l with [] => Ok acc | f :: r => if C128 <=? acc + f then err 21 else out_fees r (acc + f) end.

Definition validate_siacoins (s : lstate) (m : mid) (t : txn1) (ts : supp1) : R unit :=
  do insum <- in_sci1 s m ts (t1_sci t) 0;
  do o1 <- csum (map (fun x => sco_value (snd x)) (t1_sco t)) 0;
  do o2 <- csum (map (fun x => fc_payout (snd (fst x))) (t1_fc t)) o1;
  do o3 <- out_fees (t1_fees t) o2;
  if insum =? o3 then Ok tt else err 29.

Definition validate_siafunds (s : lstate) (m : mid) (t : txn1) (ts : supp1) : R unit :=
  do insum <-
    (fix go (l : list sfi1) (acc : Z) : R Z :=
       match l with
       | [] => Ok acc
       | i :: r =>
         if child s <? f1_timelock i then err 30
         else if is_spent m (f1_parent i) then err 31
         else match sf_element m ts (f1_parent i) with
         | None => err 32
         | Some (p, _) =>
           if negb (beq (f1_uh i) (sfe_addr p))
              && negb ((ln_devaddr_height net <=? child s) && beq (sfe_addr p) (ln_devaddr_old net) && beq (f1_uh i) (ln_devaddr_new net))
           then err 33
           else go r ((acc + sfe_value p) mod 2 ^ 64)
         end
       end) (t1_sfi t) 0;
  let outsum := fold_left (fun a x => (a + fst (snd x)) mod 2 ^ 64) (t1_sfo t) 0 in
  if insum =? outsum then Ok tt else err 34.

(* v1 storage proofs *)
Definition last_leaf_index (filesize : Z) : Z :=
  if negb (filesize mod 64 =? 0) then filesize / 64 else (filesize / 64 - 1) mod 2 ^ 64.
Definition bitlen (x : Z) : Z := if x =? 0 then 0 else Z.log2 x + 1.
Definition node (l r : bytes) : bytes := H (1%N :: l ++ r).
Definition sp_leaf_era (s : lstate) (leaf_index filesize : Z) (leaf : bytes) : option bytes :=
  if child s <? ln_tax_height net then Some leaf
  else if child s <? ln_sp_height net then
    if leaf_index =? last_leaf_index filesize then Some (firstn (Z.to_nat (filesize mod 64)) leaf) else Some leaf
  else if filesize =? 0 then None
  else if (leaf_index =? last_leaf_index filesize) && negb (filesize mod 64 =? 0) then Some (firstn (Z.to_nat (filesize mod 64)) leaf)
  else Some leaf.
Definition pad64 (l : bytes) : bytes := firstn 64 (l ++ repeat 0%N 64).
Definition sp_root_v1 (leaf_index filesize : Z) (leaf : bytes) (proof : list bytes) : bytes :=
  let root := H (0%N :: pad64 leaf) in
  let sth := bitlen (Z.lxor leaf_index (last_leaf_index filesize)) in
  fst (fold_left (fun (acc : bytes * Z) h =>
         let '(root, i) := acc in
         (if Z.testbit leaf_index i || (sth <=? i) then node h root else node root h, i + 1)) proof (root, 0)).
Fixpoint be_words (l : bytes) : list Z :=       (* big-endian uint64 words of the 32-byte seed *)
  match l with
  | a :: b :: c :: d :: e :: f :: g :: h :: r =>
    (fold_left (fun acc x => acc * 256 + Z.of_N x) [a; b; c; d; e; f; g; h] 0) :: be_words r
  | _ => []
  end.
Definition sp_leaf_index (filesize : Z) (window fcid : id) : Z :=
  let n := filesize / 64 + (if filesize mod 64 =? 0 then 0 else 1) in
  if n =? 0 then 0
  else fold_left (fun r w => (r * 2 ^ 64 + w) mod n) (be_words (H (window ++ fcid))) 0.

Definition sum_eq (a b : list sco) : R bool := do x <- sum_scos a; do y <- sum_scos b; Ok (x =? y).

Definition validate_file_contracts (s : lstate) (m : mid) (t : txn1) (ts : supp1) : R unit :=
  do _ <- (fix go (l : list (id * fc1 * Z)) : R unit :=
     match l with
     | [] => Ok tt
     | (_, fc, _) :: r =>
       if fc_wstart fc <? child s then err 35
       else if fc_wend fc <=? fc_wstart fc then err 36
       else do v <- sum_scos (fc_valid fc); do ms <- sum_scos (fc_missed fc);
         if negb (v =? ms) then err 37
         else do vt <- cadd v (fc_tax s (fc_payout fc));
           if negb (fc_payout fc =? vt) then err 38 else go r
     end) (t1_fc t);
  do _ <- (fix go (l : list rev1) : R unit :=
     match l with
     | [] => Ok tt
     | rv :: r =>
       let fc := r1_fc rv in
       if child s <? r1_timelock rv then err 39
       else if fc_wstart fc <? child s then err 40
       else if fc_wend fc <=? fc_wstart fc then err 41
       else if is_spent m (r1_parent rv) then err 42
       else match fc_element m ts (r1_parent rv) with
       | None => err 43
       | Some (p, _) =>
         let pfc := fce_fc p in
         if fc_wstart pfc <? child s then err 44
         else if fc_revnum fc <=? fc_revnum pfc then err 45
         else if negb (beq (r1_uh rv) (fc_uh pfc)) then err 46
         else do e1 <- sum_eq (fc_valid fc) (fc_valid pfc);
           if negb e1 then err 47
           else do e2 <- sum_eq (fc_missed fc) (fc_missed pfc);
             if negb e2 then err 48 else go r
       end
     end) (t1_rev t);
  if negb (length (t1_sp t) =? 0)%nat
     && (negb (length (t1_sco t) =? 0)%nat || negb (length (t1_sfo t) =? 0)%nat || negb (length (t1_fc t) =? 0)%nat || negb (length (t1_rev t) =? 0)%nat)
  then err 49
  else
  do _ <- (fix dup (l : list sp1) : R unit :=
     match l with
     | [] => Ok tt
     | x :: r => if existsb (fun y => beq (s1_parent x) (s1_parent y)) r then err 50 else dup r
     end) (t1_sp t);
  (fix go (l : list sp1) : R unit :=
     match l with
     | [] => Ok tt
     | sp :: r =>
       if is_spent m (s1_parent sp) then err 51
       else match fc_element m ts (s1_parent sp) with
       | None => err 52
       | Some (p, _) =>
         let fc := fce_fc p in
         match sp_window_id m ts s (s1_parent sp) with
         | None => err 53
         | Some w =>
           let li := sp_leaf_index (fc_filesize fc) w (s1_parent sp) in
           match sp_leaf_era s li (fc_filesize fc) (s1_leaf sp) with
           | None => go r
           | Some leaf => if beq (sp_root_v1 li (fc_filesize fc) leaf (s1_proof sp)) (fc_root fc) then go r else err 54
           end
         end
       end
     end) (t1_sp t).

Definition validate_arbitrary (s : lstate) (t : txn1) : R unit :=
  if child s <? ln_foundation_height net then Ok tt
  else
  (fix go (l : list arb) : R unit :=
     match l with
     | [] => Ok tt
     | ArbOther :: r => go r
     | ArbBadUpdate :: _ => err 55
     | ArbUpdate p f :: r =>
       if beq p void_addr || beq f void_addr then err 56
       else
         let signed :=
           existsb (fun i => (beq (i1_uh i) (s_found_subsidy s) || beq (i1_uh i) (s_found_mgmt s))
                             && existsb (fun g => beq (g_parent g) (i1_parent i) && g_whole g) (t1_sigs t)) (t1_sci t) in
         if signed then go r else err 57
     end) (t1_arb t).

(* validateSignatures *)
Record sigent := { se_id : id; se_need : Z; se_keys : list (bytes * bytes); se_used : list bool }.
Definition add_entry (m : list sigent) (i : id) (keys : list (bytes * bytes)) (need : Z) : option (list sigent) :=
  if existsb (fun e => beq (se_id e) i) m then None
  else Some (m ++ [{| se_id := i; se_need := need; se_keys := keys; se_used := map (fun _ => false) keys |}]).
Fixpoint add_entries {A} (f : A -> id * list (bytes * bytes) * Z) (code : Z) (l : list A) (m : list sigent) : R (list sigent) :=
  match l with
  | [] => Ok m
  | x :: r => let '(i, k, n) := f x in match add_entry m i k n with None => err code | Some m' => add_entries f code r m' end
  end.
Definition key32 (k : bytes) : bytes := firstn 32 (k ++ repeat 0%N 32).
Definition sig64 (k : bytes) : bytes := firstn 64 (k ++ repeat 0%N 64).
Fixpoint upd_ent (m : list sigent) (i : id) (f : sigent -> sigent) : list sigent :=
  match m with [] => [] | e :: r => if beq (se_id e) i then f e :: r else e :: upd_ent r i f end.

Definition validate_signatures (s : lstate) (t : txn1) : R unit :=
  do m1 <- add_entries (fun i => (i1_parent i, i1_keys i, i1_need i)) 58 (t1_sci t) [];
  do m2 <- add_entries (fun i => (f1_parent i, f1_keys i, f1_need i)) 59 (t1_sfi t) m1;
  do m3 <- add_entries (fun i => (r1_parent i, r1_keys i, r1_need i)) 60 (t1_rev t) m2;
  do mf <-
    (fix go (l : list sig1) (m : list sigent) : R (list sigent) :=
       match l with
       | [] => Ok m
       | g :: r =>
         match find (fun e => beq (se_id e) (g_parent g)) m with
         | None => err 61
         | Some e =>
           if Z.of_nat (length (se_keys e)) <=? g_keyidx g then err 62
           else if (se_need e =? 0) || nth (Z.to_nat (g_keyidx g)) (se_used e) false then err 63
           else if child s <? g_timelock g then err 64
           else if negb (g_covered_ok g) then err 65
           else
             let m' := upd_ent m (g_parent g) (fun e => {| se_id := se_id e; se_need := (se_need e - 1) mod 2 ^ 64; se_keys := se_keys e;
                                                           se_used := set_nth (Z.to_nat (g_keyidx g)) true (se_used e) |}) in
             let '(alg, key) := nth (Z.to_nat (g_keyidx g)) (se_keys e) ([], []) in
             if beq alg spec_ed25519 then
               if vlookup vt (key32 key) (g_sighash g) (sig64 (g_sig g)) then go r m' else err 66
             else if beq alg spec_entropy then err 67
             else go r m'
         end
       end) (t1_sigs t) m3;
  if existsb (fun e => 0 <? se_need e) mf then err 68 else Ok tt.

Definition validate_txn1 (s : lstate) (m : mid) (t : txn1) (ts : supp1) : R unit :=
  if ln_v2_require net <=? child s then err 20
  else do _ <- validate_currency_overflow t;
  if MAXW <? t1_weight t then err 22
  else do _ <- validate_minimum_values t;
  do _ <- validate_siacoins s m t ts;
  do _ <- validate_siafunds s m t ts;
  do _ <- validate_file_contracts s m t ts;
  do _ <- validate_arbitrary s t;
  validate_signatures s t.

(* ---- v2 transactions ---- *)
Definition add_sat (acc : Z * bool) (x : Z) : Z * bool :=
  let '(sum, ov) := acc in if ov then acc else if C128 <=? sum + x then (sum, true) else (sum + x, false).
Definition add_contract (acc : Z * bool) (fc : fc2) : Z * bool :=
  let a := fold_left add_sat [sco_value (c_renter fc); sco_value (c_host fc); c_missed_host fc; c_collateral fc] acc in
  if C128 <=? sco_value (c_renter fc) + sco_value (c_host fc) then (fst a, true)
  else add_sat a ((sco_value (c_renter fc) + sco_value (c_host fc)) / 25).
Definition validate_v2_overflow (t : txn2) : R unit :=
  let a := fold_left add_sat (map (fun x => sco_value (snd x)) (t2_sco t)) (0, false) in
  let a := (fst a, snd a || existsb (fun x => 10000 <? fst (snd x)) (t2_sfo t)) in
  let a := fold_left add_contract (map snd (t2_fc t)) a in
  let a := fold_left add_contract (map r2_rev (t2_rev t)) a in
  let a := fold_left (fun a rs => match rs_res rs with
             | RRenewal r => fold_left add_sat [sco_value (rn_final_renter r); sco_value (rn_final_host r); rn_renter_rollover r; rn_host_rollover r] (add_contract a (rn_new r))
             | _ => a end) (t2_res t) a in
  let a := add_sat a (t2_fee t) in
  if snd a then err 71 else Ok tt.

Definition validate_policy (s : lstate) (sighash : bytes) (sp : satisfied) (parent_addr : bytes) (e_addr e_fail : Z) : R unit :=
  if negb (beq (address H (sp_policy sp)) parent_addr) then err e_addr
  else match verify_policy (Z.to_N (s_height s)) (s_median s) (fun k sg => vlookup vt k sighash sg) (plookup pt) spec_entropy spec_ed25519
                           (sp_policy sp) (sp_sigs sp) (sp_pres sp) with
       | Ok _ => Ok tt
       | Err _ => err e_fail
       | Panic p => Panic p
       end.

Definition validate_ephemeral_sc (s : lstate) (m : mid) (p : pres sce) : R unit :=
  match elem_idx m (sce_id (p_val p)) with
  | None => err 77
  | Some j =>
    match nth_error (m_sces m) j with
    | None => err 77
    | Some d =>
      if negb (d_sc_created d) then err 77
      else if child s <? ln_v2_ephemeral net then Ok tt
      else if negb (beq (sce_id (p_val p)) (sce_id (d_sce d))) then err 77
      else if negb (sco_eqb (sce_out (p_val p)) (sce_out (d_sce d))) then err 78
      else if negb (sce_maturity (p_val p) =? sce_maturity (d_sce d)) then err 79
      else Ok tt
    end
  end.

(* the three accumulation loops of validateV2Siacoins *)
Fixpoint out_sco (l : list (id * sco)) (acc : Z) : R Z :=
  match l with [] => Ok acc | (_, o) :: r => if sco_value o =? 0 then err 84 else do a <- cadd acc (sco_value o); out_sco r a end.
Fixpoint out_fc (l : list (id * fc2)) (acc : Z) : R Z :=
  match l with
  | [] => Ok acc
  | (_, fc) :: r => do a <- cadd acc (sco_value (c_renter fc)); do b <- cadd a (sco_value (c_host fc)); do tx <- v2_tax fc; do c <- cadd b tx; out_fc r c
  end.
Fixpoint io_res (l : list res2) (io : Z * Z) : R (Z * Z) :=
  match l with
  | [] => Ok io
  | rs :: r =>
    match rs_res rs with
    | RRenewal rn =>
      do i1 <- cadd (fst io) (rn_renter_rollover rn); do i2 <- cadd i1 (rn_host_rollover rn);
      let fc := rn_new rn in
      do a <- cadd (snd io) (sco_value (c_renter fc)); do b <- cadd a (sco_value (c_host fc)); do tx <- v2_tax fc; do c <- cadd b tx;
      io_res r (i2, c)
    | _ => io_res r io
    end
  end.

Definition validate_v2_siacoins (s : lstate) (m : mid) (t : txn2) : R unit :=
  do _ <-
    (fix go (l : list sci2) (seen : list id) : R unit :=
       match l with
       | [] => Ok tt
       | i :: r =>
         let p := i2_parent i in
         let pid := sce_id (p_val p) in
         if is_spent m pid then err 74
         else if existsb (beq pid) seen then err 75
         else if child s <? sce_maturity (p_val p) then err 76
         else
           do _ <- (if p_leaf p =? UNASSIGNED then validate_ephemeral_sc s m p
                    else let '(u, sp) := mem_sc s p in if u then Ok tt else if sp then err 80 else err 81);
           do _ <- validate_policy s (t2_sighash t) (i2_policy i) (sco_addr (sce_out (p_val p))) 82 83;
           go r (pid :: seen)
       end) (t2_sci t) [];
  do insum <- csum (map (fun i => sco_value (sce_out (p_val (i2_parent i)))) (t2_sci t)) 0;
  do outsum <- out_sco (t2_sco t) 0;
  do outsum <- out_fc (t2_fc t) outsum;
  do io <- io_res (t2_res t) (insum, outsum);
  do o <- cadd (snd io) (t2_fee t);
  if fst io =? o then Ok tt else err 85.

Definition validate_ephemeral_sf (s : lstate) (m : mid) (p : pres sfe) : R unit :=
  match elem_idx m (sfe_id (p_val p)) with
  | None => err 88
  | Some j =>
    match nth_error (m_sfes m) j with
    | None => err 88
    | Some d => if negb (d_sf_created d) then err 88 else if ln_v2_ephemeral net <=? child s then err 89 else Ok tt
    end
  end.

Definition validate_v2_siafunds (s : lstate) (m : mid) (t : txn2) : R unit :=
  do _ <-
    (fix go (l : list sfi2) (seen : list id) : R unit :=
       match l with
       | [] => Ok tt
       | i :: r =>
         let p := f2_parent i in
         let pid := sfe_id (p_val p) in
         if is_spent m pid then err 86
         else if existsb (beq pid) seen then err 87
         else
           do _ <- (if p_leaf p =? UNASSIGNED then validate_ephemeral_sf s m p
                    else let '(u, sp) := mem_sf s p in if u then Ok tt else if sp then err 90 else err 91);
           do _ <- validate_policy s (t2_sighash t) (f2_policy i) (sfe_addr (p_val p)) 92 93;
           go r (pid :: seen)
       end) (t2_sfi t) [];
  let insum := fold_left (fun a i => (a + sfe_value (p_val (f2_parent i))) mod 2 ^ 64) (t2_sfi t) 0 in
  do outsum <- (fix go (l : list (id * (Z * bytes))) (acc : Z) : R Z :=
                  match l with [] => Ok acc | (_, (v, _)) :: r => if v =? 0 then err 94 else go r ((acc + v) mod 2 ^ 64) end) (t2_sfo t) 0;
  if insum =? outsum then Ok tt else err 95.

Definition check_sigs (fc : fc2) (renter host : bytes) : R unit :=
  if negb (vlookup vt renter (c_sighash fc) (c_renter_sig fc)) then err 106
  else if negb (vlookup vt host (c_sighash fc) (c_host_sig fc)) then err 107 else Ok tt.

Definition validate_contract (s : lstate) (fc : fc2) : R unit :=
  if c_capacity fc <? c_filesize fc then err 100
  else if c_proof_height fc <? child s then err 101
  else if c_exp_height fc <=? c_proof_height fc then err 102
  else if (sco_value (c_renter fc) =? 0) && (sco_value (c_host fc) =? 0) then err 103
  else if sco_value (c_host fc) <? c_missed_host fc then err 104
  else if sco_value (c_host fc) <? c_collateral fc then err 105
  else check_sigs fc (c_renter_key fc) (c_host_key fc).

Definition validate_revision (s : lstate) (m : mid) (e : fce2) (rev : fc2) : R unit :=
  do cur <- match elem_idx m (v2_id e) with
            | Some i => match nth_error (m_v2fces m) i with
                        | Some d => match d_v2_rev d with Some r => Ok r | None => Ok (v2_fc e) end
                        | None => Panic PIndex
                        end
            | None => Ok (v2_fc e)
            end;
  do cs <- cadd (sco_value (c_renter cur)) (sco_value (c_host cur));
  do rs <- cadd (sco_value (c_renter rev)) (sco_value (c_host rev));
  if c_capacity rev <? c_capacity cur then err 116
  else if c_capacity rev <? c_filesize rev then err 117
  else if c_proof_height cur <? child s then err 118
  else if c_revnum rev <=? c_revnum cur then err 119
  else if negb (rs =? cs) then err 120
  else if c_missed_host cur <? c_missed_host rev then err 121
  else if (ln_v2_ephemeral net <=? child s) && (sco_value (c_host rev) <? c_missed_host rev) then err 122
  else if negb (c_collateral rev =? c_collateral cur) then err 123
  else if c_proof_height rev <? child s then err 124
  else if c_exp_height rev <=? c_proof_height rev then err 125
  else check_sigs rev (c_renter_key cur) (c_host_key cur).

(* v2 storage proof root (consensus/merkle.go storageProofRoot) *)
Definition sp_root_v2 (leaf_hash : bytes) (leaf_index filesize : Z) (proof : list bytes) : bytes :=
  let last := (if filesize mod 64 =? 0 then (filesize / 64 - 1) mod 2 ^ 64 else filesize / 64) in
  let sth := Z.to_nat (bitlen (Z.lxor leaf_index last)) in
  if (length proof <? sth)%nat then repeat 0%N 32
  else
    let low := firstn sth proof in let high := skipn sth proof in
    let root := fst (fold_left (fun (acc : bytes * Z) h => let '(root, i) := acc in
                        (if Z.testbit leaf_index i then node h root else node root h, i + 1)) low (leaf_hash, 0)) in
    fold_left (fun root h => node h root) high root.

(* the renewal branch of validateV2FileContracts *)
Definition validate_renewal (s : lstate) (fc : fc2) (rn : renewal) : R unit :=
  if negb (beq (c_renter_key fc) (c_renter_key (rn_new rn))) then err 130
  else if negb (beq (c_host_key fc) (c_host_key (rn_new rn))) then err 131
  else
    do a <- cadd (sco_value (rn_final_renter rn)) (rn_renter_rollover rn);
    do b <- cadd a (sco_value (rn_final_host rn));
    do total <- cadd b (rn_host_rollover rn);
    do existing <- cadd (sco_value (c_renter fc)) (sco_value (c_host fc));
    if negb (total =? existing) then err 132
    else
      do c1 <- cadd (sco_value (c_renter (rn_new rn))) (sco_value (c_host (rn_new rn)));
      do tx <- v2_tax (rn_new rn);
      do cost <- cadd c1 tx;
      do roll <- cadd (rn_renter_rollover rn) (rn_host_rollover rn);
      if cost <? roll then err 133
      else do _ <- validate_contract s (rn_new rn);
        if negb (vlookup vt (c_renter_key fc) (rn_sighash rn) (rn_renter_sig rn)) then err 134
        else if negb (vlookup vt (c_host_key fc) (rn_sighash rn) (rn_host_sig rn)) then err 135
        else Ok tt.

Definition validate_parent2 (s : lstate) (m : mid) (p : pres fce2) (revised resolved : list id) : R unit :=
  let i := v2_id (p_val p) in
  if is_spent m i then err 110
  else if existsb (beq i) revised then err 111
  else if existsb (beq i) resolved then err 112
  else let '(u, sp) := mem_v2 s p in if u then Ok tt else if sp then err 113 else err 114.
(* one resolution against the contract as presented *)
Definition validate_resolution (s : lstate) (rs : res2) : R unit :=
  let fc := v2_fc (p_val (rs_parent rs)) in
  match rs_res rs with
  | RRenewal rn => validate_renewal s fc rn
  | RProof sp =>
    if child s <? c_proof_height fc then err 136
    else if negb (snd (p_val (sp2_index sp)) =? c_proof_height fc) then err 137
    else if negb (fst (mem_ci s (sp2_index sp))) then err 138
    else
      let li := sp_leaf_index (c_filesize fc) (fst (p_val (sp2_index sp))) (v2_id (p_val (rs_parent rs))) in
      if beq (sp_root_v2 (H (0%N :: pad64 (sp2_leaf sp))) li (c_filesize fc) (sp2_proof sp)) (c_root fc) then Ok tt else err 139
  | RExpiration => if child s <=? c_exp_height fc then err 140 else Ok tt
  end.
Fixpoint check_resolutions (s : lstate) (m : mid) (revised : list id) (l : list res2) (resolved : list id) : R unit :=
  match l with
  | [] => Ok tt
  | rs :: r =>
    do _ <- validate_parent2 s m (rs_parent rs) revised resolved;
    do _ <- validate_resolution s rs;
    check_resolutions s m revised r (v2_id (p_val (rs_parent rs)) :: resolved)
  end.

Definition validate_v2_contracts (s : lstate) (m : mid) (t : txn2) : R unit :=
  do _ <- (fix go (l : list (id * fc2)) : R unit := match l with [] => Ok tt | (_, fc) :: r => do _ <- validate_contract s fc; go r end) (t2_fc t);
  do revised <-
    (fix go (l : list rev2) (revised : list id) : R (list id) :=
       match l with
       | [] => Ok revised
       | rv :: r =>
         do _ <- validate_parent2 s m (r2_parent rv) revised [];
         if c_proof_height (v2_fc (p_val (r2_parent rv))) <? child s then err 115
         else do _ <- validate_revision s m (p_val (r2_parent rv)) (r2_rev rv);
           go r (v2_id (p_val (r2_parent rv)) :: revised)
       end) (t2_rev t) [];
  check_resolutions s m revised (t2_res t) [].

Definition validate_attestations (t : txn2) : R unit :=
  (fix go (l : list att) : R unit :=
     match l with
     | [] => Ok tt
     | a :: r => if at_key_empty a then err 141
                 else if negb (vlookup vt (at_pubkey a) (at_sighash a) (at_sig a)) then err 142 else go r
     end) (t2_att t).

Definition validate_foundation_update (s : lstate) (t : txn2) : R unit :=
  match t2_new_foundation t with
  | None => Ok tt
  | Some _ => if existsb (fun i => beq (sco_addr (sce_out (p_val (i2_parent i)))) (s_found_mgmt s)) (t2_sci t) then Ok tt else err 143
  end.

Definition validate_txn2 (s : lstate) (m : mid) (t : txn2) : R unit :=
  if child s <? ln_v2_allow net then err 70
  else do _ <- validate_v2_overflow t;
  if t2_weight t =? 0 then err 72
  else if MAXW <? t2_weight t then err 73
  else do _ <- validate_v2_siacoins s m t;
  do _ <- validate_v2_siafunds s m t;
  do _ <- validate_v2_contracts s m t;
  do _ <- validate_attestations t;
  validate_foundation_update s t.
End Validate.
