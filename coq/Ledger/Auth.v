(* More of what an accepted v2 transaction guarantees: attestations, renewals, Foundation updates (C03) and the
   resolution height rules (C08). *)
From Coq Require Import ZArith List Bool Lia.
From Sia Require Import Prim.Result Prim.Tok Policy.Model Ledger.Types Ledger.Mid Ledger.Validate Ledger.Apply Ledger.Proofs.
Import ListNotations.
Open Scope Z_scope.

Section Auth.
Variable H : bytes -> bytes.
Variable net : lnetwork.
Variable vt : vtab.
Variable pt : ptab.
Variable se sd : bytes.

(* every attestation of an accepted transaction has a key and is signed by it *)
Theorem attestations_signed t : validate_attestations vt t = Ok tt ->
  Forall (fun a => at_key_empty a = false /\ vlookup vt (at_pubkey a) (at_sighash a) (at_sig a) = true) (t2_att t).
Proof.
  unfold validate_attestations. induction (t2_att t) as [|a r IH]; intros Hv; [constructor|].
  simpl in Hv. destruct (at_key_empty a) eqn:Ek; [discriminate|].
  destruct (vlookup vt (at_pubkey a) (at_sighash a) (at_sig a)) eqn:Es; simpl in Hv; [|discriminate].
  constructor; [split; [exact Ek | exact Es] | apply IH; exact Hv].
Qed.

(* a renewal keeps both keys, is signed by both keys of the contract being renewed, conserves the contract's value and
   its new contract is itself well formed and signed *)
Theorem renewal_authorised s fc rn : validate_renewal vt s fc rn = Ok tt ->
  c_renter_key (rn_new rn) = c_renter_key fc /\ c_host_key (rn_new rn) = c_host_key fc /\
  vlookup vt (c_renter_key fc) (rn_sighash rn) (rn_renter_sig rn) = true /\
  vlookup vt (c_host_key fc) (rn_sighash rn) (rn_host_sig rn) = true /\
  sco_value (rn_final_renter rn) + rn_renter_rollover rn + sco_value (rn_final_host rn) + rn_host_rollover rn
    = sco_value (c_renter fc) + sco_value (c_host fc) /\
  validate_contract vt s (rn_new rn) = Ok tt.
Proof.
  unfold validate_renewal. intros Hv.
  destruct (beq (c_renter_key fc) (c_renter_key (rn_new rn))) eqn:K1; [|discriminate].
  destruct (beq (c_host_key fc) (c_host_key (rn_new rn))) eqn:K2; [|discriminate]. cbn [negb] in Hv.
  apply beq_eq in K1. apply beq_eq in K2.
  apply bind_ok in Hv. destruct Hv as (a & A & Hv). apply bind_ok in Hv. destruct Hv as (b & B & Hv).
  apply bind_ok in Hv. destruct Hv as (total & T & Hv). apply bind_ok in Hv. destruct Hv as (existing & X & Hv).
  destruct (Z.eqb_spec total existing) as [Eq|]; [|discriminate]. cbn [negb] in Hv.
  apply bind_ok in Hv. destruct Hv as (c1 & _ & Hv). apply bind_ok in Hv. destruct Hv as (tx & _ & Hv).
  apply bind_ok in Hv. destruct Hv as (cost & _ & Hv). apply bind_ok in Hv. destruct Hv as (roll & _ & Hv).
  destruct (cost <? roll); [discriminate|]. apply bind_ok in Hv. destruct Hv as ([] & VC & Hv).
  destruct (vlookup vt (c_renter_key fc) (rn_sighash rn) (rn_renter_sig rn)) eqn:S1; [|discriminate].
  destruct (vlookup vt (c_host_key fc) (rn_sighash rn) (rn_host_sig rn)) eqn:S2; [|discriminate].
  apply cadd_ok in A. apply cadd_ok in B. apply cadd_ok in T. apply cadd_ok in X.
  repeat split; auto; lia.
Qed.

(* the Foundation addresses change only in a transaction that spends an output of the current management address
   (whose policy validation is C03_v2_input_authorised) *)
Theorem foundation_update_authorised s t a : validate_foundation_update s t = Ok tt -> t2_new_foundation t = Some a ->
  exists i, In i (t2_sci t) /\ sco_addr (sce_out (p_val (i2_parent i))) = s_found_mgmt s.
Proof.
  unfold validate_foundation_update. intros Hv E. rewrite E in Hv.
  destruct (existsb _ (t2_sci t)) eqn:Ex; [|discriminate]. apply existsb_exists in Ex. destruct Ex as (i & Hin & Hb).
  exists i. split; [exact Hin | apply beq_eq; exact Hb].
Qed.

(* C08: the height rule of each resolution kind *)
Theorem resolution_heights s rs : validate_resolution H vt s rs = Ok tt ->
  let fc := v2_fc (p_val (rs_parent rs)) in
  match rs_res rs with
  | RProof sp => c_proof_height fc <= child s /\ snd (p_val (sp2_index sp)) = c_proof_height fc /\ fst (mem_ci s (sp2_index sp)) = true
  | RExpiration => c_exp_height fc < child s
  | RRenewal _ => True
  end.
Proof.
  unfold validate_resolution. cbv zeta. destruct (rs_res rs) as [rn|sp|]; intros Hv; [exact I| |].
  - destruct (Z.ltb_spec (child s) (c_proof_height (v2_fc (p_val (rs_parent rs))))); [discriminate|].
    destruct (Z.eqb_spec (snd (p_val (sp2_index sp))) (c_proof_height (v2_fc (p_val (rs_parent rs))))); [|discriminate]. cbn [negb] in Hv.
    destruct (fst (mem_ci s (sp2_index sp))); [|discriminate]. repeat split; auto.
  - destruct (Z.leb_spec (child s) (c_exp_height (v2_fc (p_val (rs_parent rs))))); [discriminate | lia].
Qed.
End Auth.
