(* C01: an accepted transaction neither creates nor destroys siafunds. The implementation adds the values as uint64, so the
   statement is the equality of the two sums modulo 2^64, and the plain equality when neither sum reaches 2^64 (the values
   of all siafund elements of a chain add up to the 10000 of the genesis allocation). *)
From Coq Require Import ZArith List Bool Lia.
From Sia Require Import Prim.Result Prim.Tok Policy.Model Ledger.Types Ledger.Mid Ledger.Validate Ledger.Proofs.
Import ListNotations.
Open Scope Z_scope.

Lemma fold_mod_sum {A} (f : A -> Z) l : forall acc, fold_left (fun a x => (a + f x) mod 2 ^ 64) l acc mod 2 ^ 64 = (acc + zsum (map f l)) mod 2 ^ 64.
Proof.
  induction l as [|x l IH]; intros acc; cbn [fold_left map zsum fold_right].
  - rewrite Z.add_0_r. reflexivity.
  - rewrite IH. rewrite Zplus_mod_idemp_l. f_equal. unfold zsum. lia.
Qed.
Lemma fold_mod_range {A} (f : A -> Z) l : forall acc, 0 <= acc < 2 ^ 64 -> 0 <= fold_left (fun a x => (a + f x) mod 2 ^ 64) l acc < 2 ^ 64.
Proof.
  induction l as [|x l IH]; intros acc B; cbn [fold_left]; [exact B|]. apply IH. apply Z.mod_pos_bound. reflexivity.
Qed.

Section FlowSF.
Variable H : bytes -> bytes.
Variable net : lnetwork.
Variable vt : vtab.
Variable pt : ptab.
Variable se sd : bytes.

Definition sf_in2 (t : txn2) : Z := zsum (map (fun i => sfe_value (p_val (f2_parent i))) (t2_sfi t)).
Definition sf_out2 (t : txn2) : Z := zsum (map (fun x : id * (Z * bytes) => fst (snd x)) (t2_sfo t)).

Lemma sfo_loop_ok (l : list (id * (Z * bytes))) : forall acc r,
  (fix go (l : list (id * (Z * bytes))) (acc : Z) : R Z :=
     match l with [] => Ok acc | (_, (v, _)) :: r => if v =? 0 then err 94 else go r ((acc + v) mod 2 ^ 64) end) l acc = Ok r ->
  r = fold_left (fun a (x : id * (Z * bytes)) => (a + fst (snd x)) mod 2 ^ 64) l acc /\ Forall (fun x : id * (Z * bytes) => fst (snd x) <> 0) l.
Proof.
  induction l as [|[i [v a]] l IH]; intros acc r E.
  - inversion E. split; [reflexivity | constructor].
  - cbv beta iota zeta fix in E. destruct (Z.eqb_spec v 0) as [|Nz]; [discriminate|]. destruct (IH _ _ E) as [E1 F]. split; [exact E1|]. constructor; [exact Nz | exact F].
Qed.

Theorem v2_siafunds_balance s m t : validate_v2_siafunds H net vt pt se sd s m t = Ok tt ->
  sf_in2 t mod 2 ^ 64 = sf_out2 t mod 2 ^ 64 /\ Forall (fun x : id * (Z * bytes) => fst (snd x) <> 0) (t2_sfo t).
Proof.
  unfold validate_v2_siafunds. intros E. apply bind_ok in E. destruct E as ([] & _ & E). cbv zeta in E.
  apply bind_ok in E. destruct E as (o & Eo & E). destruct (sfo_loop_ok _ _ _ Eo) as [-> F].
  match type of E with (if ?a =? ?b then _ else _) = _ => destruct (Z.eqb_spec a b) as [Eq|]; [|discriminate] end.
  split; [|exact F]. apply (f_equal (fun z => z mod 2 ^ 64)) in Eq.
  rewrite (fold_mod_sum (fun i => sfe_value (p_val (f2_parent i)))) in Eq. rewrite (fold_mod_sum (fun x : id * (Z * bytes) => fst (snd x))) in Eq. exact Eq.
Qed.
Corollary v2_siafunds_balance_exact s m t : validate_v2_siafunds H net vt pt se sd s m t = Ok tt ->
  0 <= sf_in2 t < 2 ^ 64 -> 0 <= sf_out2 t < 2 ^ 64 -> sf_in2 t = sf_out2 t.
Proof. intros E Bi Bo. destruct (v2_siafunds_balance s m t E) as [Eq _]. rewrite !Z.mod_small in Eq by assumption. exact Eq. Qed.

(* v1: the values are those of the parents the transaction's inputs resolve to *)
Definition sf_value1 (m : mid) (ts : supp1) (i : sfi1) : Z := match sf_element m ts (f1_parent i) with Some (p, _) => sfe_value p | None => 0 end.
Definition sf_in1 (m : mid) (ts : supp1) (t : txn1) : Z := zsum (map (sf_value1 m ts) (t1_sfi t)).
Definition sf_out1 (t : txn1) : Z := zsum (map (fun x : id * (Z * bytes) => fst (snd x)) (t1_sfo t)).
Theorem v1_siafunds_balance s m t ts : validate_siafunds net s m t ts = Ok tt -> sf_in1 m ts t mod 2 ^ 64 = sf_out1 t mod 2 ^ 64.
Proof.
  unfold validate_siafunds. intros E. apply bind_ok in E. destruct E as (insum & Ei & E). cbv zeta in E.
  match type of E with (if ?a =? ?b then _ else _) = _ => destruct (Z.eqb_spec a b) as [Eq|]; [|discriminate] end.
  assert (G : forall l acc r,
    (fix go (l : list sfi1) (acc : Z) : R Z :=
       match l with
       | [] => Ok acc
       | i :: r =>
         if child s <? f1_timelock i then err 30
         else if is_spent m (f1_parent i) then err 31
         else match sf_element m ts (f1_parent i) with
         | None => err 32
         | Some (p, _) =>
           if negb (beq (f1_uh i) (sfe_addr p))
              && negb ((ln_devaddr_height net <=? child s) && beq (sfe_addr p) (ln_devaddr_old net) && beq (f1_uh i) (ln_devaddr_new net))
           then err 33
           else go r ((acc + sfe_value p) mod 2 ^ 64)
         end
       end) l acc = Ok r -> r = fold_left (fun a i => (a + sf_value1 m ts i) mod 2 ^ 64) l acc).
  { induction l as [|i l IH]; intros acc r E0; [inversion E0; reflexivity|]. cbv beta iota zeta fix in E0.
    destruct (child s <? f1_timelock i); [discriminate|]. destruct (is_spent m (f1_parent i)); [discriminate|].
    cbn [fold_left]. unfold sf_value1 at 2. destruct (sf_element m ts (f1_parent i)) as [[p lf]|]; [|discriminate].
    match type of E0 with (if ?b then _ else _) = _ => destruct b; [discriminate|] end. exact (IH _ _ E0). }
  apply G in Ei. subst insum. apply (f_equal (fun z => z mod 2 ^ 64)) in Eq.
  rewrite (fold_mod_sum (sf_value1 m ts)) in Eq. rewrite (fold_mod_sum (fun x : id * (Z * bytes) => fst (snd x))) in Eq. exact Eq.
Qed.
End FlowSF.
Print Assumptions v2_siafunds_balance.
Print Assumptions v1_siafunds_balance.
