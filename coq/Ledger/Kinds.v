(* C10: the ID discipline as a decidable check of the block. Every ID the block mentions is declared with the kind of
   element it names; the check is that no ID is declared with two kinds. If it passes, the kind assignment exists. *)
From Coq Require Import ZArith List Bool Lia.
From Sia Require Import Prim.Result Prim.Tok Policy.Model Ledger.Types Ledger.Mid Ledger.Validate Ledger.Apply Ledger.Proofs Ledger.Marks1 Ledger.Wk2.
Import ListNotations.
Open Scope Z_scope.

Definition kind_eqb (a b : kind) : bool :=
  match a, b with KSC, KSC | KSF, KSF | KFC, KFC | KV2, KV2 | KAT, KAT => true | _, _ => false end.
Lemma kind_eqb_eq a b : kind_eqb a b = true -> a = b.
Proof. destruct a, b; cbn; intros E; try discriminate; reflexivity. Qed.

Definition decl := (id * kind)%type.
Definition decls1 (t : txn1) : list decl :=
  map (fun i => (i1_parent i, KSC)) (t1_sci t) ++ map (fun x : id * sco => (fst x, KSC)) (t1_sco t)
  ++ flat_map (fun i => [(f1_parent i, KSF); (f1_claim_id i, KSC)]) (t1_sfi t) ++ map (fun x : id * (Z * bytes) => (fst x, KSF)) (t1_sfo t)
  ++ map (fun x : id * fc1 * Z => (fst (fst x), KFC)) (t1_fc t) ++ map (fun rv => (r1_parent rv, KFC)) (t1_rev t)
  ++ flat_map (fun sp => (s1_parent sp, KFC) :: map (fun i => (i, KSC)) (s1_valid_ids sp)) (t1_sp t).
Definition decls2 (t : txn2) : list decl :=
  map (fun i => (sce_id (p_val (i2_parent i)), KSC)) (t2_sci t) ++ map (fun x : id * sco => (fst x, KSC)) (t2_sco t)
  ++ flat_map (fun i => [(sfe_id (p_val (f2_parent i)), KSF); (f2_claim_id i, KSC)]) (t2_sfi t) ++ map (fun x : id * (Z * bytes) => (fst x, KSF)) (t2_sfo t)
  ++ map (fun x : id * fc2 => (fst x, KV2)) (t2_fc t) ++ map (fun rv => (v2_id (p_val (r2_parent rv)), KV2)) (t2_rev t)
  ++ flat_map (fun rs => (v2_id (p_val (rs_parent rs)), KV2) :: (rs_renter_id rs, KSC) :: (rs_host_id rs, KSC)
                         :: match rs_res rs with RRenewal rn => [(rn_new_id rn, KV2)] | _ => [] end) (t2_res t)
  ++ map (fun a => (at_id a, KAT)) (t2_att t).
Definition declsB (b : lblock) : list decl :=
  flat_map decls1 (b_txns b) ++ flat_map decls2 (b_v2txns b) ++ map (fun p : id * sco => (fst p, KSC)) (b_payouts b) ++ [(b_foundation_id b, KSC)]
  ++ flat_map (fun pe : pres fce1 * list id => (fce_id (p_val (fst pe)), KFC) :: map (fun i => (i, KSC)) (snd pe)) (b_expiring b).

(* no ID is declared with two kinds *)
Definition consistent (l : list decl) : bool :=
  forallb (fun p => forallb (fun q => negb (beq (fst p) (fst q)) || kind_eqb (snd p) (snd q)) l) l.
Definition kind_from (l : list decl) (i : id) : kind :=
  match find (fun p => beq (fst p) i) l with Some p => snd p | None => KAT end.

Lemma kind_from_decl l i k : consistent l = true -> In (i, k) l -> kind_from l i = k.
Proof.
  intros C Hin. unfold kind_from. destruct (find (fun p => beq (fst p) i) l) as [p|] eqn:F.
  - apply find_some in F. destruct F as [Hp B]. apply beq_eq in B. unfold consistent in C. rewrite forallb_forall in C.
    specialize (C p Hp). rewrite forallb_forall in C. specialize (C (i, k) Hin). cbn [fst snd] in C. rewrite B, beq_refl in C. cbn in C. apply kind_eqb_eq. exact C.
  - exfalso. pose proof (find_none _ _ F (i, k) Hin) as N. cbn in N. rewrite beq_refl in N. discriminate.
Qed.

Lemma in_app3 {A} (x : A) a b c : In x b -> In x (a ++ b ++ c).
Proof. intros Hx. apply in_or_app. right. apply in_or_app. left. exact Hx. Qed.

Section Check.
Variable b : lblock.
Hypothesis C : consistent (declsB b) = true.
Notation kf := (kind_from (declsB b)).
Lemma kd i k : In (i, k) (declsB b) -> kf i = k.
Proof. apply kind_from_decl. exact C. Qed.

Lemma kinds1 t : In t (b_txns b) -> Kinds1 kf t.
Proof.
  intros Ht. assert (D : forall d, In d (decls1 t) -> In d (declsB b)).
  { intros d Hd. unfold declsB. apply in_or_app. left. apply in_flat_map. exists t. split; assumption. }
  unfold Kinds1, decls1 in *. repeat split; apply Forall_forall; intros x Hx.
  - apply kd, D. apply in_or_app. left. apply in_map_iff. exists x. split; [reflexivity | exact Hx].
  - apply kd, D. apply in_or_app. right. apply in_or_app. left. apply in_map_iff. exists x. split; [reflexivity | exact Hx].
  - split; apply kd, D; do 2 (apply in_or_app; right); apply in_or_app; left; apply in_flat_map; exists x; (split; [exact Hx|]); cbn; auto.
  - apply kd, D. do 3 (apply in_or_app; right). apply in_or_app. left. apply in_map_iff. exists x. split; [reflexivity | exact Hx].
  - apply kd, D. do 4 (apply in_or_app; right). apply in_or_app. left. apply in_map_iff. exists x. split; [reflexivity | exact Hx].
  - apply kd, D. do 5 (apply in_or_app; right). apply in_or_app. left. apply in_map_iff. exists x. split; [reflexivity | exact Hx].
  - split.
    + apply kd, D. do 6 (apply in_or_app; right). apply in_flat_map. exists x. split; [exact Hx | left; reflexivity].
    + apply Forall_forall. intros i Hi. apply kd, D. do 6 (apply in_or_app; right). apply in_flat_map. exists x. split; [exact Hx | right; apply in_map_iff; exists i; auto].
Qed.
Lemma kinds2 t : In t (b_v2txns b) -> Kinds2 kf t.
Proof.
  intros Ht. assert (D : forall d, In d (decls2 t) -> In d (declsB b)).
  { intros d Hd. unfold declsB. apply in_or_app. right. apply in_or_app. left. apply in_flat_map. exists t. split; assumption. }
  unfold Kinds2, decls2 in *. repeat split; apply Forall_forall; intros x Hx.
  - apply kd, D. apply in_or_app. left. apply in_map_iff. exists x. split; [reflexivity | exact Hx].
  - apply kd, D. apply in_or_app. right. apply in_or_app. left. apply in_map_iff. exists x. split; [reflexivity | exact Hx].
  - split; apply kd, D; do 2 (apply in_or_app; right); apply in_or_app; left; apply in_flat_map; exists x; (split; [exact Hx|]); cbn; auto.
  - apply kd, D. do 3 (apply in_or_app; right). apply in_or_app. left. apply in_map_iff. exists x. split; [reflexivity | exact Hx].
  - apply kd, D. do 4 (apply in_or_app; right). apply in_or_app. left. apply in_map_iff. exists x. split; [reflexivity | exact Hx].
  - apply kd, D. do 5 (apply in_or_app; right). apply in_or_app. left. apply in_map_iff. exists x. split; [reflexivity | exact Hx].
  - assert (R : forall d, In d ((v2_id (p_val (rs_parent x)), KV2) :: (rs_renter_id x, KSC) :: (rs_host_id x, KSC) :: match rs_res x with RRenewal rn => [(rn_new_id rn, KV2)] | _ => [] end) -> kf (fst d) = snd d).
    { intros [i k] Hd. apply kd, D. do 6 (apply in_or_app; right). apply in_or_app. left. apply in_flat_map. exists x. split; [exact Hx | exact Hd]. }
    split; [exact (R (_, _) (or_introl eq_refl))|]. split; [exact (R (_, _) (or_intror (or_introl eq_refl)))|]. split; [exact (R (_, _) (or_intror (or_intror (or_introl eq_refl))))|].
    intros rn Er. apply (R (rn_new_id rn, KV2)). do 3 right. rewrite Er. left. reflexivity.
  - apply kd, D. do 7 (apply in_or_app; right). apply in_map_iff. exists x. split; [reflexivity | exact Hx].
Qed.

Theorem consistent_kinds : KindsB kf b.
Proof.
  unfold KindsB. split; [apply Forall_forall; exact kinds1|]. split; [apply Forall_forall; exact kinds2|]. split; [|split].
  - apply Forall_forall. intros p Hp. apply kd. unfold declsB. do 2 (apply in_or_app; right). apply in_or_app. left. apply in_map_iff. exists p. auto.
  - apply kd. unfold declsB. do 3 (apply in_or_app; right). apply in_or_app. left. left. reflexivity.
  - apply Forall_forall. intros pe Hp. split.
    + apply kd. unfold declsB. do 4 (apply in_or_app; right). apply in_flat_map. exists pe. split; [exact Hp | left; reflexivity].
    + apply Forall_forall. intros i Hi. apply kd. unfold declsB. do 4 (apply in_or_app; right). apply in_flat_map. exists pe. split; [exact Hp | right; apply in_map_iff; exists i; auto].
Qed.
End Check.

(* the C10 statement with the check in place of the abstract kind assignment *)
Theorem accepted_consistent_block_applies H net vt pt se sd s b : validate_block H net vt pt se sd s b = Ok tt ->
  consistent (declsB b) = true -> (exists o, foundation_subsidy net s = Ok o) -> exists s' m, apply_block net s b = Ok (s', m).
Proof. intros V C S. exact (accepted_block_applies (kind_from (declsB b)) H net vt pt se sd s b V (consistent_kinds b C) S). Qed.

(* the check passes on a concrete block (one v2 transaction spending a siacoin element, a miner payout) *)
Example consistent_example :
  let e0 := {| sce_id := [1%N]; sce_out := {| sco_value := 5; sco_addr := [] |}; sce_maturity := 0 |} in
  let i0 := {| i2_parent := {| p_leaf := 0; p_proof_ok := true; p_val := e0 |}; i2_policy := {| sp_policy := PAbove 0; sp_sigs := []; sp_pres := [] |} |} in
  let t0 := {| t2_id := [3%N]; t2_weight := 100; t2_sighash := [4%N]; t2_sci := [i0]; t2_sco := [([2%N], {| sco_value := 5; sco_addr := [] |})];
               t2_sfi := []; t2_sfo := []; t2_fc := []; t2_rev := []; t2_res := []; t2_att := []; t2_new_foundation := None; t2_fee := 0 |} in
  let b := {| b_id := [7%N]; b_is_v2 := true; b_v2_height := 11; b_commit_ok := true; b_header_code := 0;
              b_payouts := [([9%N], {| sco_value := 1; sco_addr := [] |})]; b_foundation_id := [8%N];
              b_txns := []; b_v2txns := [t0]; b_supp := []; b_expiring := []; b_next_median := 0 |} in
  consistent (declsB b) = true.
Proof. vm_compute. reflexivity. Qed.
