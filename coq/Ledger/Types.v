(* Ledger model: data. IDs, sighashes and signature checks that the implementation obtains by
   hashing and Ed25519 are supplied with the lblock (computed by the implementation's own functions;
   what they bind is the subject of C12); everything that *decides* — sums, heights, lookups,
   double-spend bookkeeping, membership against the true element store, payouts — is modelled. *)
From Coq Require Import ZArith List Bool.
From Sia Require Import Prim.Result Prim.Tok Policy.Model.
Import ListNotations.
Open Scope Z_scope.

Definition id := bytes.
Definition UNASSIGNED : Z := 10101010101010101010.   (* types.UnassignedLeafIndex *)
Definition C128 : Z := 2 ^ 128.

Record sco := { sco_value : Z; sco_addr : bytes }.
Record sce := { sce_id : id; sce_out : sco; sce_maturity : Z }.
Record sfe := { sfe_id : id; sfe_value : Z; sfe_addr : bytes; sfe_claim : Z }.
Record fc1 := { fc_filesize : Z; fc_root : bytes; fc_wstart : Z; fc_wend : Z; fc_payout : Z;
                fc_valid : list sco; fc_missed : list sco; fc_uh : bytes; fc_revnum : Z }.
Record fce1 := { fce_id : id; fce_fc : fc1 }.
Record fc2 := { c_capacity : Z; c_filesize : Z; c_root : bytes; c_proof_height : Z; c_exp_height : Z;
                c_renter : sco; c_host : sco; c_missed_host : Z; c_collateral : Z;
                c_renter_key : bytes; c_host_key : bytes; c_revnum : Z;
                c_renter_sig : bytes; c_host_sig : bytes;
                c_sighash : bytes (* ContractSigHash, supplied *) ; c_tax : Z (* informational *) }.
Record fce2 := { v2_id : id; v2_fc : fc2 }.

(* an element as presented to validation: leaf index and whether the attached proof is the
   element's current accumulator proof (the harness knows; the accumulator itself is C04/C05) *)
Record pres (A : Type) := { p_leaf : Z; p_proof_ok : bool; p_val : A }.
Arguments p_leaf {A}. Arguments p_proof_ok {A}. Arguments p_val {A}.

(* the true element store: every leaf ever added, with its current contents *)
Inductive elem :=
| ESC (e : sce) | ESF (e : sfe) | EFC (e : fce1) | EV2 (e : fce2) | ECI (i : id) (h : Z) | EAT (i : id).
Record leaf := { l_elem : elem; l_spent : bool }.

(* ---- v1 transactions ---- *)
Record sci1 := { i1_parent : id; i1_timelock : Z; i1_uh : bytes (* UnlockHash of the claimed conditions *);
                 i1_keys : list (bytes * bytes); i1_need : Z }.
Record sfi1 := { f1_parent : id; f1_timelock : Z; f1_uh : bytes; f1_keys : list (bytes * bytes); f1_need : Z;
                 f1_claim_addr : bytes; f1_claim_id : id }.
Record rev1 := { r1_parent : id; r1_timelock : Z; r1_uh : bytes; r1_keys : list (bytes * bytes); r1_need : Z; r1_fc : fc1 }.
Record sp1 := { s1_parent : id; s1_leaf : bytes; s1_proof : list bytes; s1_valid_ids : list id }.
Record sig1 := { g_parent : id; g_keyidx : Z; g_timelock : Z; g_whole : bool; g_covered_ok : bool;
                 g_sig : bytes; g_sighash : bytes }.
(* arbitrary data entries that start with the Foundation specifier: decode result supplied *)
Inductive arb := ArbOther | ArbBadUpdate | ArbUpdate (primary failsafe : bytes).
Record txn1 := { t1_id : id; t1_weight : Z;
                 t1_sci : list sci1; t1_sco : list (id * sco);
                 t1_sfi : list sfi1; t1_sfo : list (id * (Z * bytes));
                 t1_fc : list (id * fc1 * Z (* tax, computed *)); t1_rev : list rev1; t1_sp : list sp1;
                 t1_fees : list Z; t1_arb : list arb; t1_sigs : list sig1 }.
Record spsupp := { ss_fc : pres fce1; ss_window : id }.
Record supp1 := { u_sci : list (pres sce); u_sfi : list (pres sfe); u_rev : list (pres fce1); u_sp : list spsupp }.

(* ---- v2 transactions ---- *)
Record satisfied := { sp_policy : policy; sp_sigs : list bytes; sp_pres : list bytes }.
Record sci2 := { i2_parent : pres sce; i2_policy : satisfied }.
Record sfi2 := { f2_parent : pres sfe; f2_claim_addr : bytes; f2_claim_id : id; f2_policy : satisfied }.
Record rev2 := { r2_parent : pres fce2; r2_rev : fc2 }.
Record renewal := { rn_final_renter : sco; rn_final_host : sco; rn_renter_rollover : Z; rn_host_rollover : Z;
                    rn_new : fc2; rn_renter_sig : bytes; rn_host_sig : bytes; rn_sighash : bytes; rn_new_id : id }.
Record sproof2 := { sp2_index : pres (id * Z); sp2_leaf : bytes; sp2_proof : list bytes }.
Inductive resolution := RRenewal (r : renewal) | RProof (p : sproof2) | RExpiration.
Record res2 := { rs_parent : pres fce2; rs_res : resolution; rs_renter_id : id; rs_host_id : id }.
Record att := { at_id : id; at_key_empty : bool; at_pubkey : bytes; at_sig : bytes; at_sighash : bytes }.
Record txn2 := { t2_id : id; t2_weight : Z; t2_sighash : bytes;
                 t2_sci : list sci2; t2_sco : list (id * sco);
                 t2_sfi : list sfi2; t2_sfo : list (id * (Z * bytes));
                 t2_fc : list (id * fc2); t2_rev : list rev2; t2_res : list res2;
                 t2_att : list att; t2_new_foundation : option bytes; t2_fee : Z }.

Record lblock := { b_id : id; b_is_v2 : bool; b_v2_height : Z; b_commit_ok : bool; b_header_code : Z;
                  b_payouts : list (id * sco); b_foundation_id : id;
                  b_txns : list txn1; b_v2txns : list txn2;
                  b_supp : list supp1; b_expiring : list (pres fce1 * list id); b_next_median : Z }.

Record lnetwork := { ln_v2_allow : Z; ln_v2_require : Z; ln_v2_final : Z; ln_v2_ephemeral : Z;
                    ln_maturity_delay : Z; ln_tax_height : Z; ln_sp_height : Z; ln_foundation_height : Z;
                    ln_devaddr_height : Z; ln_devaddr_old : bytes; ln_devaddr_new : bytes;
                    ln_initial_coinbase : Z; ln_min_coinbase : Z; ln_blocks_per_month : Z; ln_blocks_per_year : Z }.

Record lstate := { s_height : Z (* Index.Height, uint64 *); s_index_id : id; s_pool : Z;
                   s_found_subsidy : bytes; s_found_mgmt : bytes; s_median : Z (* medianTimestamp, seconds *);
                   s_leaves : list leaf }.

(* signature oracle: (key, sighash, signature) triples for which the real VerifyHash returned true *)
Definition vtab := list (bytes * bytes * bytes).
Definition beq (a b : bytes) : bool := if list_eq_dec N.eq_dec a b then true else false.
Definition vlookup (t : vtab) (k h s : bytes) : bool :=
  existsb (fun x => let '(k', h', s') := x in beq k k' && beq h h' && beq s s') t.
(* preimage oracle for hash locks: (hash, preimage) pairs for which sha256 matches *)
Definition ptab := list (bytes * bytes).
Definition plookup (t : ptab) (h p : bytes) : bool := existsb (fun x => beq (fst x) h && beq (snd x) p) t.

Definition void_addr : bytes := repeat 0%N 32.
Definition sco_eqb (a b : sco) : bool := (sco_value a =? sco_value b) && beq (sco_addr a) (sco_addr b).
Fixpoint list_eqb {A} (f : A -> A -> bool) (a b : list A) : bool :=
  match a, b with [], [] => true | x :: ra, y :: rb => f x y && list_eqb f ra rb | _, _ => false end.
Definition sce_eqb (a b : sce) : bool := beq (sce_id a) (sce_id b) && sco_eqb (sce_out a) (sce_out b) && (sce_maturity a =? sce_maturity b).
Definition sfe_eqb (a b : sfe) : bool :=
  beq (sfe_id a) (sfe_id b) && (sfe_value a =? sfe_value b) && beq (sfe_addr a) (sfe_addr b) && (sfe_claim a =? sfe_claim b).
Definition fc1_eqb (a b : fc1) : bool :=
  (fc_filesize a =? fc_filesize b) && beq (fc_root a) (fc_root b) && (fc_wstart a =? fc_wstart b) && (fc_wend a =? fc_wend b)
  && (fc_payout a =? fc_payout b) && list_eqb sco_eqb (fc_valid a) (fc_valid b) && list_eqb sco_eqb (fc_missed a) (fc_missed b)
  && beq (fc_uh a) (fc_uh b) && (fc_revnum a =? fc_revnum b).
Definition fce1_eqb (a b : fce1) : bool := beq (fce_id a) (fce_id b) && fc1_eqb (fce_fc a) (fce_fc b).
Definition fc2_eqb (a b : fc2) : bool :=
  (c_capacity a =? c_capacity b) && (c_filesize a =? c_filesize b) && beq (c_root a) (c_root b)
  && (c_proof_height a =? c_proof_height b) && (c_exp_height a =? c_exp_height b)
  && sco_eqb (c_renter a) (c_renter b) && sco_eqb (c_host a) (c_host b)
  && (c_missed_host a =? c_missed_host b) && (c_collateral a =? c_collateral b)
  && beq (c_renter_key a) (c_renter_key b) && beq (c_host_key a) (c_host_key b) && (c_revnum a =? c_revnum b)
  && beq (c_renter_sig a) (c_renter_sig b) && beq (c_host_sig a) (c_host_sig b)
  && beq (c_sighash a) (c_sighash b) && (c_tax a =? c_tax b).   (* supplied values: functions of the fields above *)
Definition fce2_eqb (a b : fce2) : bool := beq (v2_id a) (v2_id b) && fc2_eqb (v2_fc a) (v2_fc b).
