(* C10: on a block whose IDs name elements of one kind only, the MidState's shared slot map stays consistent, so no record
   ever runs outside its slice: the out-of-range panic of record*Element is unreachable. *)
From Coq Require Import ZArith List Bool Lia.
From Sia Require Import Prim.Result Prim.Tok Policy.Model Ledger.Types Ledger.Mid Ledger.Validate Ledger.Apply Ledger.Proofs Ledger.Spends Ledger.Persist Ledger.Marks1.
Import ListNotations.
Open Scope Z_scope.

Section Wk.
Variable kind_of : id -> kind.
Notation WK := (Marks1.WK kind_of).
Notation entry_id := Marks1.entry_id.

Lemma wk_sc m i k fresh (d : sced) sp  : WK m -> kind_of i = KSC -> slot m i (m_sces m) = Ok (k, fresh) -> (fun d => sce_id (d_sce d)) d = i ->
  WK (with_sces m (put k fresh d (m_sces m)) (els m i k fresh) sp ).
Proof.
  intros W Ki Sl Ed. set (m' := with_sces m (put k fresh d (m_sces m)) (els m i k fresh) sp ).
  destruct (slot_cases _ _ _ _ _ Sl) as [(F & En & Ek)|(F & Es & Lk)].
  - assert (PC : (fresh = true /\ k = length (m_sces m)) \/ (fresh = false /\ (k < length (m_sces m))%nat)) by (left; auto).
    assert (EI : forall j, elem_idx m' j = if beq j i then Some k else elem_idx m j) by (intros j; apply elem_idx_els; left; exact F).
    intros j kj Ej. rewrite EI in Ej. destruct (beq j i) eqn:B.
    + apply beq_eq in B. subst j. inversion Ej; subst kj. rewrite Ki. unfold entry_id, m'. cbn [m_sces with_sces]. rewrite (put_same _ _ _ _ PC). cbn. rewrite Ed. reflexivity.
    + specialize (W j kj Ej). destruct (kind_of j) eqn:Kj; unfold entry_id in *; unfold m'; cbn [m_sces m_sfes m_fces m_v2fces m_aes with_sces]; try exact W.
      rewrite (put_other _ _ _ _ _ PC); [exact W|]. intros ->. subst k. rewrite (proj2 (nth_error_None _ _) (Nat.le_refl _)) in W. discriminate.
  - assert (PC : (fresh = true /\ k = length (m_sces m)) \/ (fresh = false /\ (k < length (m_sces m))%nat)) by (right; auto).
    assert (EI : forall j, elem_idx m' j = elem_idx m j).
    { intros j. unfold m'. cbn [m_elements with_sces]. unfold elem_idx at 1. change (assoc j (els m i k fresh) = elem_idx m j).
      rewrite elem_idx_els by (right; exact Es). destruct (beq j i) eqn:B; [apply beq_eq in B; subst; symmetry; exact Es | reflexivity]. }
    pose proof (W i k Es) as Wi. rewrite Ki in Wi. cbn [entry_id] in Wi.
    intros j kj Ej. rewrite EI in Ej. specialize (W j kj Ej). destruct (kind_of j) eqn:Kj; unfold entry_id in *; unfold m'; cbn [m_sces m_sfes m_fces m_v2fces m_aes with_sces]; try exact W.
    destruct (Nat.eq_dec kj k) as [->|Nk]; [|rewrite (put_other _ _ _ _ _ PC) by exact Nk; exact W].
    rewrite (put_same _ _ _ _ PC). cbn. rewrite Ed. rewrite Wi in W. exact W.
Qed.
(* under the invariant a slot lookup for an ID of this kind never runs outside the slice *)
Lemma slot_ok_sc m i : WK m -> kind_of i = KSC -> exists k fresh, slot m i (m_sces m) = Ok (k, fresh).
Proof.
  intros W Ki. unfold slot. destruct (elem_idx m i) as [k|] eqn:E; [|eexists; eexists; reflexivity].
  pose proof (W i k E) as Wi. rewrite Ki in Wi. cbn [entry_id] in Wi. destruct (nth_error (m_sces m) k) eqn:N; [|discriminate].
  assert (k < length (m_sces m))%nat by (apply nth_error_Some; congruence). destruct (Nat.ltb_spec k (length (m_sces m))); [|lia]. eexists; eexists; reflexivity.
Qed.

Lemma wk_sf m i k fresh (d : sfed) sp  : WK m -> kind_of i = KSF -> slot m i (m_sfes m) = Ok (k, fresh) -> (fun d => sfe_id (d_sfe d)) d = i ->
  WK (with_sfes m (put k fresh d (m_sfes m)) (els m i k fresh) sp ).
Proof.
  intros W Ki Sl Ed. set (m' := with_sfes m (put k fresh d (m_sfes m)) (els m i k fresh) sp ).
  destruct (slot_cases _ _ _ _ _ Sl) as [(F & En & Ek)|(F & Es & Lk)].
  - assert (PC : (fresh = true /\ k = length (m_sfes m)) \/ (fresh = false /\ (k < length (m_sfes m))%nat)) by (left; auto).
    assert (EI : forall j, elem_idx m' j = if beq j i then Some k else elem_idx m j) by (intros j; apply elem_idx_els; left; exact F).
    intros j kj Ej. rewrite EI in Ej. destruct (beq j i) eqn:B.
    + apply beq_eq in B. subst j. inversion Ej; subst kj. rewrite Ki. unfold entry_id, m'. cbn [m_sfes with_sfes]. rewrite (put_same _ _ _ _ PC). cbn. rewrite Ed. reflexivity.
    + specialize (W j kj Ej). destruct (kind_of j) eqn:Kj; unfold entry_id in *; unfold m'; cbn [m_sces m_sfes m_fces m_v2fces m_aes with_sfes]; try exact W.
      rewrite (put_other _ _ _ _ _ PC); [exact W|]. intros ->. subst k. rewrite (proj2 (nth_error_None _ _) (Nat.le_refl _)) in W. discriminate.
  - assert (PC : (fresh = true /\ k = length (m_sfes m)) \/ (fresh = false /\ (k < length (m_sfes m))%nat)) by (right; auto).
    assert (EI : forall j, elem_idx m' j = elem_idx m j).
    { intros j. unfold m'. cbn [m_elements with_sfes]. unfold elem_idx at 1. change (assoc j (els m i k fresh) = elem_idx m j).
      rewrite elem_idx_els by (right; exact Es). destruct (beq j i) eqn:B; [apply beq_eq in B; subst; symmetry; exact Es | reflexivity]. }
    pose proof (W i k Es) as Wi. rewrite Ki in Wi. cbn [entry_id] in Wi.
    intros j kj Ej. rewrite EI in Ej. specialize (W j kj Ej). destruct (kind_of j) eqn:Kj; unfold entry_id in *; unfold m'; cbn [m_sces m_sfes m_fces m_v2fces m_aes with_sfes]; try exact W.
    destruct (Nat.eq_dec kj k) as [->|Nk]; [|rewrite (put_other _ _ _ _ _ PC) by exact Nk; exact W].
    rewrite (put_same _ _ _ _ PC). cbn. rewrite Ed. rewrite Wi in W. exact W.
Qed.
(* under the invariant a slot lookup for an ID of this kind never runs outside the slice *)
Lemma slot_ok_sf m i : WK m -> kind_of i = KSF -> exists k fresh, slot m i (m_sfes m) = Ok (k, fresh).
Proof.
  intros W Ki. unfold slot. destruct (elem_idx m i) as [k|] eqn:E; [|eexists; eexists; reflexivity].
  pose proof (W i k E) as Wi. rewrite Ki in Wi. cbn [entry_id] in Wi. destruct (nth_error (m_sfes m) k) eqn:N; [|discriminate].
  assert (k < length (m_sfes m))%nat by (apply nth_error_Some; congruence). destruct (Nat.ltb_spec k (length (m_sfes m))); [|lia]. eexists; eexists; reflexivity.
Qed.

Lemma wk_fc m i k fresh (d : fced) sp pool : WK m -> kind_of i = KFC -> slot m i (m_fces m) = Ok (k, fresh) -> (fun d => fce_id (d_fce d)) d = i ->
  WK (with_fces m (put k fresh d (m_fces m)) (els m i k fresh) sp pool).
Proof.
  intros W Ki Sl Ed. set (m' := with_fces m (put k fresh d (m_fces m)) (els m i k fresh) sp pool).
  destruct (slot_cases _ _ _ _ _ Sl) as [(F & En & Ek)|(F & Es & Lk)].
  - assert (PC : (fresh = true /\ k = length (m_fces m)) \/ (fresh = false /\ (k < length (m_fces m))%nat)) by (left; auto).
    assert (EI : forall j, elem_idx m' j = if beq j i then Some k else elem_idx m j) by (intros j; apply elem_idx_els; left; exact F).
    intros j kj Ej. rewrite EI in Ej. destruct (beq j i) eqn:B.
    + apply beq_eq in B. subst j. inversion Ej; subst kj. rewrite Ki. unfold entry_id, m'. cbn [m_fces with_fces]. rewrite (put_same _ _ _ _ PC). cbn. rewrite Ed. reflexivity.
    + specialize (W j kj Ej). destruct (kind_of j) eqn:Kj; unfold entry_id in *; unfold m'; cbn [m_sces m_sfes m_fces m_v2fces m_aes with_fces]; try exact W.
      rewrite (put_other _ _ _ _ _ PC); [exact W|]. intros ->. subst k. rewrite (proj2 (nth_error_None _ _) (Nat.le_refl _)) in W. discriminate.
  - assert (PC : (fresh = true /\ k = length (m_fces m)) \/ (fresh = false /\ (k < length (m_fces m))%nat)) by (right; auto).
    assert (EI : forall j, elem_idx m' j = elem_idx m j).
    { intros j. unfold m'. cbn [m_elements with_fces]. unfold elem_idx at 1. change (assoc j (els m i k fresh) = elem_idx m j).
      rewrite elem_idx_els by (right; exact Es). destruct (beq j i) eqn:B; [apply beq_eq in B; subst; symmetry; exact Es | reflexivity]. }
    pose proof (W i k Es) as Wi. rewrite Ki in Wi. cbn [entry_id] in Wi.
    intros j kj Ej. rewrite EI in Ej. specialize (W j kj Ej). destruct (kind_of j) eqn:Kj; unfold entry_id in *; unfold m'; cbn [m_sces m_sfes m_fces m_v2fces m_aes with_fces]; try exact W.
    destruct (Nat.eq_dec kj k) as [->|Nk]; [|rewrite (put_other _ _ _ _ _ PC) by exact Nk; exact W].
    rewrite (put_same _ _ _ _ PC). cbn. rewrite Ed. rewrite Wi in W. exact W.
Qed.
(* under the invariant a slot lookup for an ID of this kind never runs outside the slice *)
Lemma slot_ok_fc m i : WK m -> kind_of i = KFC -> exists k fresh, slot m i (m_fces m) = Ok (k, fresh).
Proof.
  intros W Ki. unfold slot. destruct (elem_idx m i) as [k|] eqn:E; [|eexists; eexists; reflexivity].
  pose proof (W i k E) as Wi. rewrite Ki in Wi. cbn [entry_id] in Wi. destruct (nth_error (m_fces m) k) eqn:N; [|discriminate].
  assert (k < length (m_fces m))%nat by (apply nth_error_Some; congruence). destruct (Nat.ltb_spec k (length (m_fces m))); [|lia]. eexists; eexists; reflexivity.
Qed.

Lemma wk_v2 m i k fresh (d : v2fced) sp pool : WK m -> kind_of i = KV2 -> slot m i (m_v2fces m) = Ok (k, fresh) -> (fun d => v2_id (d_v2 d)) d = i ->
  WK (with_v2fces m (put k fresh d (m_v2fces m)) (els m i k fresh) sp pool).
Proof.
  intros W Ki Sl Ed. set (m' := with_v2fces m (put k fresh d (m_v2fces m)) (els m i k fresh) sp pool).
  destruct (slot_cases _ _ _ _ _ Sl) as [(F & En & Ek)|(F & Es & Lk)].
  - assert (PC : (fresh = true /\ k = length (m_v2fces m)) \/ (fresh = false /\ (k < length (m_v2fces m))%nat)) by (left; auto).
    assert (EI : forall j, elem_idx m' j = if beq j i then Some k else elem_idx m j) by (intros j; apply elem_idx_els; left; exact F).
    intros j kj Ej. rewrite EI in Ej. destruct (beq j i) eqn:B.
    + apply beq_eq in B. subst j. inversion Ej; subst kj. rewrite Ki. unfold entry_id, m'. cbn [m_v2fces with_v2fces]. rewrite (put_same _ _ _ _ PC). cbn. rewrite Ed. reflexivity.
    + specialize (W j kj Ej). destruct (kind_of j) eqn:Kj; unfold entry_id in *; unfold m'; cbn [m_sces m_sfes m_fces m_v2fces m_aes with_v2fces]; try exact W.
      rewrite (put_other _ _ _ _ _ PC); [exact W|]. intros ->. subst k. rewrite (proj2 (nth_error_None _ _) (Nat.le_refl _)) in W. discriminate.
  - assert (PC : (fresh = true /\ k = length (m_v2fces m)) \/ (fresh = false /\ (k < length (m_v2fces m))%nat)) by (right; auto).
    assert (EI : forall j, elem_idx m' j = elem_idx m j).
    { intros j. unfold m'. cbn [m_elements with_v2fces]. unfold elem_idx at 1. change (assoc j (els m i k fresh) = elem_idx m j).
      rewrite elem_idx_els by (right; exact Es). destruct (beq j i) eqn:B; [apply beq_eq in B; subst; symmetry; exact Es | reflexivity]. }
    pose proof (W i k Es) as Wi. rewrite Ki in Wi. cbn [entry_id] in Wi.
    intros j kj Ej. rewrite EI in Ej. specialize (W j kj Ej). destruct (kind_of j) eqn:Kj; unfold entry_id in *; unfold m'; cbn [m_sces m_sfes m_fces m_v2fces m_aes with_v2fces]; try exact W.
    destruct (Nat.eq_dec kj k) as [->|Nk]; [|rewrite (put_other _ _ _ _ _ PC) by exact Nk; exact W].
    rewrite (put_same _ _ _ _ PC). cbn. rewrite Ed. rewrite Wi in W. exact W.
Qed.
(* under the invariant a slot lookup for an ID of this kind never runs outside the slice *)
Lemma slot_ok_v2 m i : WK m -> kind_of i = KV2 -> exists k fresh, slot m i (m_v2fces m) = Ok (k, fresh).
Proof.
  intros W Ki. unfold slot. destruct (elem_idx m i) as [k|] eqn:E; [|eexists; eexists; reflexivity].
  pose proof (W i k E) as Wi. rewrite Ki in Wi. cbn [entry_id] in Wi. destruct (nth_error (m_v2fces m) k) eqn:N; [|discriminate].
  assert (k < length (m_v2fces m))%nat by (apply nth_error_Some; congruence). destruct (Nat.ltb_spec k (length (m_v2fces m))); [|lia]. eexists; eexists; reflexivity.
Qed.
End Wk.
