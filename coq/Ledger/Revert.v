(* Undoing a block on the element store: the diffs of ApplyBlock carry, for every leaf they rewrite, the element as it
   stood before the block; a store that writes those back (unspent / unresolved / unrevised) at the recorded leaf
   indices and drops the appended leaves is exactly the store before the block. *)
From Coq Require Import ZArith List Bool Lia.
From Sia Require Import Prim.Result Prim.Tok Policy.Model Ledger.Types Ledger.Mid Ledger.Validate Ledger.Apply.
Import ListNotations.
Open Scope Z_scope.

(* ---- rewriting positions of a list and writing the old values back ---- *)
Lemma set_nth_length {A} k (x : A) l : length (Mid.set_nth k x l) = length l.
Proof. revert k. induction l as [|y l IH]; intros [|k]; cbn; auto. Qed.
Lemma nth_set_nth_eq {A} k (x : A) l : (k < length l)%nat -> nth_error (Mid.set_nth k x l) k = Some x.
Proof. revert k. induction l as [|y l IH]; intros [|k] Hk; cbn in *; try lia; [reflexivity | apply IH; lia]. Qed.
Lemma nth_set_nth_neq {A} k j (x : A) l : k <> j -> nth_error (Mid.set_nth k x l) j = nth_error l j.
Proof. revert k j. induction l as [|y l IH]; intros [|k] [|j] Hn; cbn; try reflexivity; try lia. apply IH. lia. Qed.
Lemma set_nth_same {A} k (x : A) l : nth_error l k = Some x -> Mid.set_nth k x l = l.
Proof. revert k. induction l as [|y l IH]; intros [|k] E; cbn in *; try discriminate; [inversion E; reflexivity | f_equal; apply IH; exact E]. Qed.

Definition assigned (u : Z * leaf) : bool := negb (fst u =? UNASSIGNED).
Definition write_all (ls : list leaf) (ups : list (Z * leaf)) : list leaf :=
  fold_left (fun ls u => if fst u =? UNASSIGNED then ls else Mid.set_nth (Z.to_nat (fst u)) (snd u) ls) ups ls.

Lemma write_all_cons ls u ups : write_all ls (u :: ups) = write_all (if fst u =? UNASSIGNED then ls else Mid.set_nth (Z.to_nat (fst u)) (snd u) ls) ups.
Proof. reflexivity. Qed.
Lemma write_all_length ups : forall ls, length (write_all ls ups) = length ls.
Proof. induction ups as [|u ups IH]; intros ls; [reflexivity|]. rewrite write_all_cons. destruct (fst u =? UNASSIGNED); rewrite IH; [reflexivity | apply set_nth_length]. Qed.
(* positions no update names are untouched *)
Lemma write_all_other ups : forall ls j, (forall u, In u ups -> fst u = UNASSIGNED \/ Z.to_nat (fst u) <> j) -> nth_error (write_all ls ups) j = nth_error ls j.
Proof.
  induction ups as [|u ups IH]; intros ls j Hn; [reflexivity|]. rewrite write_all_cons.
  destruct (Z.eqb_spec (fst u) UNASSIGNED) as [E|NE].
  - apply IH. intros v Hv. apply Hn. right. exact Hv.
  - rewrite IH by (intros v Hv; apply Hn; right; exact Hv). apply nth_set_nth_neq.
    destruct (Hn u (or_introl eq_refl)) as [E|N]; [contradiction | exact N].
Qed.

(* writing back, at every rewritten position, the leaf that stood there before gives the original list *)
Theorem write_back ls news olds :
  map fst olds = map fst news ->
  Forall (fun o => fst o = UNASSIGNED \/ nth_error ls (Z.to_nat (fst o)) = Some (snd o)) olds ->
  write_all (write_all ls news) olds = ls.
Proof.
  intros Hidx Hold.
  set (W := write_all ls news).
  assert (LW : length W = length ls) by apply write_all_length.
  (* pointwise *)
  assert (P : forall j, nth_error (write_all W olds) j = nth_error ls j).
  { intros j.
    (* is j named by an assigned update? *)
    destruct (existsb (fun o => assigned o && (Z.to_nat (fst o) =? j)%nat) olds) eqn:Ex.
    - apply existsb_exists in Ex. destruct Ex as (o & Hin & Hb). apply andb_true_iff in Hb. destruct Hb as [Ha Hj].
      apply Nat.eqb_eq in Hj. unfold assigned in Ha. apply negb_true_iff in Ha. apply Z.eqb_neq in Ha.
      destruct (proj1 (Forall_forall _ _) Hold o Hin) as [E|Ho]; [contradiction|]. rewrite Hj in Ho.
      (* after all write-backs position j holds ls[j]: every write-back to j writes ls[j] *)
      assert (G : forall os l0, (forall o', In o' os -> fst o' = UNASSIGNED \/ nth_error ls (Z.to_nat (fst o')) = Some (snd o')) ->
                 length l0 = length ls ->
                 (nth_error l0 j = nth_error ls j \/ exists o', In o' os /\ fst o' <> UNASSIGNED /\ Z.to_nat (fst o') = j) ->
                 nth_error (write_all l0 os) j = nth_error ls j).
      { induction os as [|o' os IHo]; intros l0 Ho' Ll [A|(o2 & I2 & N2 & J2)]; [exact A | contradiction | rewrite write_all_cons | rewrite write_all_cons].
        - destruct (Z.eqb_spec (fst o') UNASSIGNED); [apply IHo; auto; intros; apply Ho'; right; assumption|].
          apply IHo; [intros; apply Ho'; right; assumption | rewrite set_nth_length; exact Ll|]. left.
          destruct (Nat.eq_dec (Z.to_nat (fst o')) j) as [Ej|Nj].
          + destruct (Ho' o' (or_introl eq_refl)) as [E|Hv]; [contradiction|]. rewrite Ej in *. rewrite nth_set_nth_eq; [symmetry; exact Hv|].
            rewrite Ll. apply nth_error_Some. rewrite Hv. discriminate.
          + rewrite nth_set_nth_neq by exact Nj. exact A.
        - destruct (Z.eqb_spec (fst o') UNASSIGNED) as [E|NE].
          + apply IHo; [intros; apply Ho'; right; assumption | exact Ll|]. right.
            destruct I2 as [->|I2]; [contradiction|]. exists o2. auto.
          + apply IHo; [intros; apply Ho'; right; assumption | rewrite set_nth_length; exact Ll|].
            destruct (Nat.eq_dec (Z.to_nat (fst o')) j) as [Ej|Nj].
            * left. destruct (Ho' o' (or_introl eq_refl)) as [E|Hv]; [contradiction|]. rewrite Ej in *. rewrite nth_set_nth_eq; [symmetry; exact Hv|].
              rewrite Ll. apply nth_error_Some. rewrite Hv. discriminate.
            * destruct I2 as [->|I2]; [contradiction|]. right. exists o2. auto. }
      apply G; [intros o' Ho'; exact (proj1 (Forall_forall _ _) Hold o' Ho') | exact LW|]. right. exists o. auto.
    - (* j is not rewritten at all *)
      assert (No : forall u, In u olds -> fst u = UNASSIGNED \/ Z.to_nat (fst u) <> j).
      { intros u Hu. destruct (Z.eqb_spec (fst u) UNASSIGNED) as [E|NE]; [left; exact E|]. right. intros Ej.
        assert (existsb (fun o => assigned o && (Z.to_nat (fst o) =? j)%nat) olds = true).
        { apply existsb_exists. exists u. split; [exact Hu|]. unfold assigned. apply andb_true_iff. split; [apply negb_true_iff, Z.eqb_neq; exact NE | apply Nat.eqb_eq; exact Ej]. }
        congruence. }
      rewrite (write_all_other olds W j No). unfold W. apply write_all_other.
      intros u Hu. apply in_map with (f := fst) in Hu. rewrite <- Hidx in Hu. apply in_map_iff in Hu. destruct Hu as (o & Eo & Ho).
      rewrite <- Eo. apply No. exact Ho. }
  (* equal lengths and pointwise equal *)
  assert (LL : length (write_all W olds) = length ls) by (rewrite write_all_length; exact LW).
  revert LL P. generalize (write_all W olds) as a. clear. intros a. revert ls.
  induction a as [|x a IH]; intros [|y ls] LL P; cbn in LL; try lia; [reflexivity|].
  pose proof (P 0%nat) as P0. cbn in P0. inversion P0; subst. f_equal. apply IH; [lia|]. intros j. exact (P (S j)).
Qed.

(* ---- the block level ---- *)
Section Revert.
Variable net : lnetwork.

(* the leaf each diff found before the block (what a store must put back); created elements have no earlier leaf *)
Definition old_updates (s : lstate) (m : mid) (b : lblock) : list (Z * leaf) :=
  map (fun d => (d_sc_leaf d, {| l_elem := ESC (d_sce d); l_spent := false |})) (m_sces m)
  ++ map (fun d => (d_sf_leaf d, {| l_elem := ESF (d_sfe d); l_spent := false |})) (m_sfes m)
  ++ map (fun d => (d_fc_leaf d, {| l_elem := EFC (d_fce d); l_spent := false |})) (m_fces m)
  ++ map (fun d => (d_v2_leaf d, {| l_elem := EV2 (d_v2 d); l_spent := false |})) (m_v2fces m)
  ++ map (fun i => (UNASSIGNED, {| l_elem := EAT i; l_spent := false |})) (m_aes m)
  ++ [(UNASSIGNED, {| l_elem := ECI (b_id b) (child s); l_spent := false |})].

Lemma same_indices s m b : map fst (old_updates s m b) = map fst (leaf_updates s m b).
Proof. unfold old_updates, leaf_updates. rewrite !map_app, !map_map. reflexivity. Qed.

Definition revert_leaves (s : lstate) (s' : lstate) (m : mid) (b : lblock) : list leaf :=
  write_all (firstn (length (s_leaves s)) (s_leaves s')) (old_updates s m b).

(* if every leaf a diff points at held, before the block, the element the diff records (unspent) -- which is what
   validation checks of every presented element against the store -- then undoing the block restores the store *)
Theorem revert_restores s b s' m : apply_block net s b = Ok (s', m) ->
  Forall (fun o => fst o = UNASSIGNED \/ nth_error (s_leaves s) (Z.to_nat (fst o)) = Some (snd o)) (old_updates s m b) ->
  revert_leaves s s' m b = s_leaves s.
Proof.
  unfold apply_block. intros E Hold. apply bind_ok in E. destruct E as (m0 & Em & E). inversion E; subst m0 s'. clear E. cbn [s_leaves].
  unfold revert_leaves, apply_leaves.
  change (fold_left (fun ls u => if fst u =? UNASSIGNED then ls else Mid.set_nth (Z.to_nat (fst u)) (snd u) ls) (leaf_updates s m b) (s_leaves s))
    with (write_all (s_leaves s) (leaf_updates s m b)). cbn [s_leaves].
  rewrite firstn_app, write_all_length, Nat.sub_diag, firstn_all2 by (rewrite write_all_length; lia). cbn [firstn]. rewrite app_nil_r.
  apply write_back; [apply same_indices | exact Hold].
Qed.
End Revert.
