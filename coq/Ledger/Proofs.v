(* Theorems about the ledger model: what an accepted transaction / block guarantees. *)
From Coq Require Import ZArith List Bool Lia.
From Sia Require Import Prim.Result Prim.Tok Policy.Model Ledger.Types Ledger.Mid Ledger.Validate Ledger.Apply.
Import ListNotations.
Open Scope Z_scope.

Lemma beq_eq a b : beq a b = true -> a = b.
Proof. unfold beq. destruct (list_eq_dec N.eq_dec a b); congruence. Qed.
Lemma beq_refl a : beq a a = true.
Proof. unfold beq. destruct (list_eq_dec N.eq_dec a a); congruence. Qed.

Lemma cadd_ok a b r : cadd a b = Ok r -> r = a + b /\ a + b < C128.
Proof. unfold cadd. destruct (Z.leb_spec C128 (a + b)); intros E; inversion E; lia. Qed.
Lemma csub_ok a b r : csub a b = Ok r -> r = a - b /\ b <= a.
Proof. unfold csub. destruct (Z.ltb_spec a b); intros E; inversion E; lia. Qed.
Lemma cdiv64_ok a v r : cdiv64 a v = Ok r -> r = a / v /\ v <> 0.
Proof. unfold cdiv64. destruct (Z.eqb_spec v 0); intros E; inversion E; auto. Qed.

Definition zsum (l : list Z) : Z := fold_right Z.add 0 l.
Lemma csum_ok l acc r : csum l acc = Ok r -> r = acc + zsum l.
Proof.
  revert acc. induction l as [|x l IH]; intros acc; simpl.
  - intros E; inversion E; lia.
  - destruct (cadd acc x) as [a| |] eqn:E; simpl; try discriminate. intros Hr.
    apply cadd_ok in E. destruct E as [-> _]. apply IH in Hr. lia.
Qed.

Ltac unbind H :=
  repeat match type of H with
  | bind ?r _ = Ok _ => let x := fresh "x" in let E := fresh "E" in destruct r as [x| |] eqn:E; cbn [bind] in H; [|discriminate H|discriminate H]
  end.

Section Props.
Variable H : bytes -> bytes.
Variable net : lnetwork.
Variable vt : vtab.
Variable pt : ptab.
Variable se sd : bytes.

(* ================= C01: fees reappear exactly in the miner payout ================= *)
Lemma fees_sum_ok fees acc r : fees_sum fees acc = Ok r -> r = acc + zsum fees.
Proof.
  revert acc. induction fees as [|f fs IH]; intros acc; simpl.
  - intros E; inversion E; lia.
  - destruct (f =? 0); [discriminate|]. destruct (C128 <=? acc + f); [discriminate|]. intros E. apply IH in E. lia.
Qed.
Lemma v2fees_sum_ok fees acc r : v2fees_sum fees acc = Ok r -> r = acc + zsum fees.
Proof.
  revert acc. induction fees as [|f fs IH]; intros acc; simpl.
  - intros E; inversion E; lia.
  - destruct (C128 <=? acc + f); [discriminate|]. intros E. apply IH in E. lia.
Qed.
Lemma payouts_sum_ok ps acc r : payouts_sum ps acc = Ok r -> r = acc + zsum ps.
Proof.
  revert acc. induction ps as [|f fs IH]; intros acc; simpl.
  - intros E; inversion E; lia.
  - destruct (f =? 0); [discriminate|]. destruct (C128 <=? acc + f); [discriminate|]. intros E. apply IH in E. lia.
Qed.

Theorem miner_payout_exact s b : validate_miner_payouts net s b = Ok tt ->
  zsum (map (fun p => sco_value (snd p)) (b_payouts b)) =
  block_reward net s + zsum (flat_map t1_fees (b_txns b)) + (if b_is_v2 b then zsum (map t2_fee (b_v2txns b)) else 0).
Proof.
  unfold validate_miner_payouts. intros Hv. unbind Hv.
  apply fees_sum_ok in E. subst x.
  apply payouts_sum_ok in E1. subst x1.
  destruct (Z.eqb_spec (0 + zsum (map (fun p => sco_value (snd p)) (b_payouts b))) x0) as [Heq|]; [|discriminate].
  destruct (b_is_v2 b).
  - unbind E0. apply v2fees_sum_ok in E. subst x.
    destruct (negb (length (b_payouts b) =? 1)%nat); [discriminate|]. inversion E0; subst. lia.
  - inversion E0; subst. lia.
Qed.

(* ================= C07 / C01: v2 revisions keep the total, never lower the revision number,
   never raise the host's missed value, never touch total collateral or lower capacity ================= *)
Theorem revision_invariants s m e rev : validate_revision net vt s m e rev = Ok tt ->
  exists cur,
    (cur = v2_fc e \/ exists i d, elem_idx m (v2_id e) = Some i /\ nth_error (m_v2fces m) i = Some d /\ d_v2_rev d = Some cur) /\
    sco_value (c_renter rev) + sco_value (c_host rev) = sco_value (c_renter cur) + sco_value (c_host cur) /\
    c_revnum cur < c_revnum rev /\
    c_missed_host rev <= c_missed_host cur /\
    c_collateral rev = c_collateral cur /\
    c_capacity cur <= c_capacity rev /\ c_filesize rev <= c_capacity rev /\
    child s <= c_proof_height cur /\ child s <= c_proof_height rev /\ c_proof_height rev < c_exp_height rev /\
    (* signed by the keys of the contract as it currently stands *)
    vlookup vt (c_renter_key cur) (c_sighash rev) (c_renter_sig rev) = true /\
    vlookup vt (c_host_key cur) (c_sighash rev) (c_host_sig rev) = true.
Proof.
  unfold validate_revision. intros Hv. unbind Hv.
  apply cadd_ok in E0, E1. destruct E0 as [-> _], E1 as [-> _].
  exists x. split.
  { destruct (elem_idx m (v2_id e)) as [i|] eqn:Ei.
    - destruct (nth_error (m_v2fces m) i) as [d|] eqn:Ed; [|discriminate].
      destruct (d_v2_rev d) as [r|] eqn:Er; inversion E; subst; [right; eauto|left; reflexivity].
    - inversion E; left; reflexivity. }
  revert Hv.
  destruct (Z.ltb_spec (c_capacity rev) (c_capacity x)); [discriminate|].
  destruct (Z.ltb_spec (c_capacity rev) (c_filesize rev)); [discriminate|].
  destruct (Z.ltb_spec (c_proof_height x) (child s)); [discriminate|].
  destruct (Z.leb_spec (c_revnum rev) (c_revnum x)); [discriminate|].
  destruct (Z.eqb_spec (sco_value (c_renter rev) + sco_value (c_host rev)) (sco_value (c_renter x) + sco_value (c_host x))); [|discriminate]. cbn [negb].
  destruct (Z.ltb_spec (c_missed_host x) (c_missed_host rev)); [discriminate|].
  destruct ((ln_v2_ephemeral net <=? child s) && (sco_value (c_host rev) <? c_missed_host rev)); [discriminate|].
  destruct (Z.eqb_spec (c_collateral rev) (c_collateral x)); [|discriminate]. cbn [negb].
  destruct (Z.ltb_spec (c_proof_height rev) (child s)); [discriminate|].
  destruct (Z.leb_spec (c_exp_height rev) (c_proof_height rev)); [discriminate|].
  unfold check_sigs.
  destruct (vlookup vt (c_renter_key x) (c_sighash rev) (c_renter_sig rev)) eqn:V1; [|discriminate]. cbn [negb].
  destruct (vlookup vt (c_host_key x) (c_sighash rev) (c_host_sig rev)) eqn:V2; [|discriminate].
  intros _. repeat split; try lia; auto.
Qed.

(* a new v2 contract is well formed and signed by its own keys *)
Theorem contract_wellformed s fc : validate_contract vt s fc = Ok tt ->
  c_filesize fc <= c_capacity fc /\ child s <= c_proof_height fc /\ c_proof_height fc < c_exp_height fc /\
  c_missed_host fc <= sco_value (c_host fc) /\ c_collateral fc <= sco_value (c_host fc) /\
  vlookup vt (c_renter_key fc) (c_sighash fc) (c_renter_sig fc) = true /\
  vlookup vt (c_host_key fc) (c_sighash fc) (c_host_sig fc) = true.
Proof.
  unfold validate_contract.
  destruct (Z.ltb_spec (c_capacity fc) (c_filesize fc)); [discriminate|].
  destruct (Z.ltb_spec (c_proof_height fc) (child s)); [discriminate|].
  destruct (Z.leb_spec (c_exp_height fc) (c_proof_height fc)); [discriminate|].
  destruct ((sco_value (c_renter fc) =? 0) && (sco_value (c_host fc) =? 0)); [discriminate|].
  destruct (Z.ltb_spec (sco_value (c_host fc)) (c_missed_host fc)); [discriminate|].
  destruct (Z.ltb_spec (sco_value (c_host fc)) (c_collateral fc)); [discriminate|].
  unfold check_sigs.
  destruct (vlookup vt (c_renter_key fc) (c_sighash fc) (c_renter_sig fc)); [|discriminate]. cbn [negb].
  destruct (vlookup vt (c_host_key fc) (c_sighash fc) (c_host_sig fc)); [|discriminate].
  intros _. repeat split; lia.
Qed.

(* ================= C03 / C14: a v2 spend is authorised by a policy that hashes to the parent address ================= *)
Theorem policy_authorises s sighash sp addr e1 e2 : validate_policy H vt pt se sd s sighash sp addr e1 e2 = Ok tt ->
  address H (sp_policy sp) = addr /\
  verify_policy (Z.to_N (s_height s)) (s_median s) (fun k sg => vlookup vt k sighash sg) (plookup pt) se sd
                (sp_policy sp) (sp_sigs sp) (sp_pres sp) = Ok tt.
Proof.
  unfold validate_policy. destruct (beq (address H (sp_policy sp)) addr) eqn:Ea; [|discriminate]. cbn [negb].
  apply beq_eq in Ea.
  destruct (verify_policy _ _ _ _ _ _ _ _ _) as [[]| |] eqn:Ev; try discriminate. auto.
Qed.

(* ================= C04 / C02: membership against the store accepts only the current, unspent leaf ================= *)
Lemma sce_eqb_eq a b : sce_eqb a b = true -> a = b.
Proof.
  unfold sce_eqb, sco_eqb. destruct a as [ai [av aa] am], b as [bi [bv ba] bm]; cbn [sce_id sce_out sce_maturity sco_value sco_addr].
  intros E. apply andb_true_iff in E. destruct E as [E E3]. apply andb_true_iff in E. destruct E as [E1 E2].
  apply andb_true_iff in E2. destruct E2 as [E2 E4].
  apply beq_eq in E1, E4. apply Z.eqb_eq in E2, E3. subst. reflexivity.
Qed.

Theorem mem_sc_sound s p : fst (mem_sc s p) = true ->
  p_proof_ok p = true /\ nth_error (s_leaves s) (Z.to_nat (p_leaf p)) = Some {| l_elem := ESC (p_val p); l_spent := false |}.
Proof.
  unfold mem_sc, mem_gen, leaf_at.
  destruct ((0 <=? p_leaf p) && (p_leaf p <? Z.of_nat (length (s_leaves s)))); [|simpl; discriminate].
  destruct (nth_error (s_leaves s) (Z.to_nat (p_leaf p))) as [[el sp]|]; [|simpl; discriminate].
  destruct (p_proof_ok p); [|simpl; discriminate]. cbn [andb l_elem l_spent].
  destruct el; try (simpl; discriminate).
  destruct (sce_eqb e (p_val p)) eqn:E; [|simpl; discriminate]. apply sce_eqb_eq in E. subst e.
  cbn [fst]. destruct sp; [discriminate|]. auto.
Qed.

Theorem mem_spent_rejected s p e : nth_error (s_leaves s) (Z.to_nat (p_leaf p)) = Some {| l_elem := e; l_spent := true |} ->
  fst (mem_sc s p) = false.
Proof.
  intros Hn. unfold mem_sc, mem_gen, leaf_at.
  destruct ((0 <=? p_leaf p) && (p_leaf p <? Z.of_nat (length (s_leaves s)))); [|reflexivity].
  rewrite Hn. destruct (p_proof_ok p && _); reflexivity.
Qed.

(* ================= C02: no element is used twice inside a v2 transaction, nor after an earlier use in the block ================= *)
Definition sci_loop (s : lstate) (m : mid) (sighash : bytes) :=
  fix go (l : list sci2) (seen : list id) : R unit :=
    match l with
    | [] => Ok tt
    | i :: r =>
      let p := i2_parent i in
      let pid := sce_id (p_val p) in
      if is_spent m pid then err 74
      else if existsb (beq pid) seen then err 75
      else if child s <? sce_maturity (p_val p) then err 76
      else
        do _ <- (if p_leaf p =? UNASSIGNED then validate_ephemeral_sc net s m p
                 else let '(u, sp) := mem_sc s p in if u then Ok tt else if sp then err 80 else err 81);
        do _ <- validate_policy H vt pt se sd s sighash (i2_policy i) (sco_addr (sce_out (p_val p))) 82 83;
        go r (pid :: seen)
    end.

Lemma sci_loop_ok s m sh l seen : sci_loop s m sh l seen = Ok tt ->
  Forall (fun i =>
    is_spent m (sce_id (p_val (i2_parent i))) = false /\
    sce_maturity (p_val (i2_parent i)) <= child s /\
    (p_leaf (i2_parent i) <> UNASSIGNED -> fst (mem_sc s (i2_parent i)) = true) /\
    address H (sp_policy (i2_policy i)) = sco_addr (sce_out (p_val (i2_parent i)))) l /\
  NoDup (map (fun i => sce_id (p_val (i2_parent i))) l) /\
  (forall i, In i l -> ~ In (sce_id (p_val (i2_parent i))) seen).
Proof.
  revert seen. induction l as [|i r IH]; intros seen; cbn [sci_loop].
  - intros _. repeat split; [constructor|constructor|intros ? []].
  - destruct (is_spent m (sce_id (p_val (i2_parent i)))) eqn:Esp; [discriminate|].
    destruct (existsb (beq (sce_id (p_val (i2_parent i)))) seen) eqn:Eex; [discriminate|].
    destruct (Z.ltb_spec (child s) (sce_maturity (p_val (i2_parent i)))); [discriminate|].
    intros Hv. unbind Hv. destruct x0.
    apply policy_authorises in E0. destruct E0 as [Ha _].
    destruct (IH _ Hv) as (F & ND & NS).
    assert (Hnotin : ~ In (sce_id (p_val (i2_parent i))) seen).
    { intros Hin. assert (existsb (beq (sce_id (p_val (i2_parent i)))) seen = true).
      { apply existsb_exists. eexists; split; [exact Hin|apply beq_refl]. } congruence. }
    split; [|split].
    + constructor; [|exact F]. repeat split; auto.
      intros Hne. destruct (Z.eqb_spec (p_leaf (i2_parent i)) UNASSIGNED); [contradiction|].
      destruct (mem_sc s (i2_parent i)) as [u sp]. simpl. destruct u; [reflexivity|]. destruct sp; discriminate.
    + simpl. constructor; [|exact ND].
      intros Hin. apply in_map_iff in Hin. destruct Hin as (j & Ej & Hj). apply (NS j Hj). rewrite Ej. left; reflexivity.
    + intros j [<-|Hj]; [exact Hnotin|]. intros Hin. apply (NS j Hj). right; exact Hin.
Qed.

Theorem v2_inputs_distinct_unspent_mature s m t : validate_v2_siacoins H net vt pt se sd s m t = Ok tt ->
  Forall (fun i =>
    is_spent m (sce_id (p_val (i2_parent i))) = false /\
    sce_maturity (p_val (i2_parent i)) <= child s /\
    (p_leaf (i2_parent i) <> UNASSIGNED -> fst (mem_sc s (i2_parent i)) = true) /\
    address H (sp_policy (i2_policy i)) = sco_addr (sce_out (p_val (i2_parent i)))) (t2_sci t) /\
  NoDup (map (fun i => sce_id (p_val (i2_parent i))) (t2_sci t)).
Proof.
  unfold validate_v2_siacoins. intros Hv.
  match type of Hv with bind ?X _ = _ => destruct X as [[]| |] eqn:E; cbn [bind] in Hv; try discriminate end.
  destruct (sci_loop_ok s m (t2_sighash t) (t2_sci t) [] E) as (F & ND & _). auto.
Qed.

(* ================= C08: gates ================= *)
Theorem v1_not_after_require s m t ts : validate_txn1 H net vt se sd s m t ts = Ok tt -> child s < ln_v2_require net.
Proof. unfold validate_txn1. destruct (Z.leb_spec (ln_v2_require net) (child s)); [discriminate|]. lia. Qed.
Theorem v2_not_before_allow s m t : validate_txn2 H net vt pt se sd s m t = Ok tt -> ln_v2_allow net <= child s.
Proof. unfold validate_txn2. destruct (Z.ltb_spec (child s) (ln_v2_allow net)); [discriminate|]. lia. Qed.

(* ================= C06: the diff of a spend records exactly what undoing it needs ================= *)
Lemma set_nth_restore {A} (ls : list A) k (orig new : A) : nth_error ls k = Some orig ->
  Mid.set_nth k orig (Mid.set_nth k new ls) = ls.
Proof.
  revert k. induction ls as [|x r IH]; intros [|k]; simpl; try discriminate.
  - intros E; inversion E; reflexivity.
  - intros E. f_equal. apply IH; exact E.
Qed.

Theorem spend_then_restore s p ls' : fst (mem_sc s p) = true ->
  ls' = Mid.set_nth (Z.to_nat (p_leaf p)) {| l_elem := ESC (p_val p); l_spent := true |} (s_leaves s) ->
  (* a store that puts the element recorded in the diff back, unspent, at the recorded leaf index *)
  Mid.set_nth (Z.to_nat (p_leaf p)) {| l_elem := ESC (p_val p); l_spent := false |} ls' = s_leaves s.
Proof.
  intros Hm ->. destruct (mem_sc_sound s p Hm) as [_ Hn]. now apply set_nth_restore.
Qed.

Theorem appended_leaves_truncate (ls added : list leaf) : firstn (length ls) (ls ++ added) = ls.
Proof. rewrite firstn_app, Nat.sub_diag, firstn_all. simpl. now rewrite app_nil_r. Qed.
End Props.

Lemma claim_exact : forall pool start value c, claim_portion pool start value = Ok c ->
  c = (pool - start) / 10000 * value /\ start <= pool.
Proof.
  intros pool start value c. unfold claim_portion. intros Hc.
  destruct (csub pool start) as [d| |] eqn:E1; simpl in Hc; try discriminate.
  destruct (cdiv64 d 10000) as [q| |] eqn:E2; simpl in Hc; try discriminate.
  apply csub_ok in E1. apply cdiv64_ok in E2. destruct E1 as [-> ?], E2 as [-> _].
  unfold cmul64 in Hc. destruct (C128 <=? (pool - start) / 10000 * value); inversion Hc. auto.
Qed.

Lemma leaf_index_in_range : forall H filesize window fcid, 0 < filesize ->
  0 <= sp_leaf_index H filesize window fcid < filesize / 64 + (if filesize mod 64 =? 0 then 0 else 1).
Proof.
  intros H filesize window fcid Hf. unfold sp_leaf_index.
  set (n := filesize / 64 + (if filesize mod 64 =? 0 then 0 else 1)).
  assert (Hn : 0 < n).
  { unfold n. pose proof (Z.div_mod filesize 64 ltac:(lia)). pose proof (Z.mod_pos_bound filesize 64 ltac:(lia)).
    destruct (Z.eqb_spec (filesize mod 64) 0); [|assert (0 <= filesize / 64) by (apply Z.div_pos; lia); lia].
    assert (filesize = 64 * (filesize / 64)) by lia. assert (0 < filesize / 64) by lia. lia. }
  destruct (Z.eqb_spec n 0); [lia|].
  generalize (be_words (H (window ++ fcid))). intros ws.
  assert (G : forall r0, 0 <= r0 < n -> 0 <= fold_left (fun r w => (r * 2 ^ 64 + w) mod n) ws r0 < n).
  { induction ws as [|w ws IH]; intros r0 Hr; simpl; [exact Hr|]. apply IH. apply Z.mod_pos_bound; lia. }
  apply G. lia.
Qed.

Lemma spend_records_presented : forall m e lf txid m', spend_sce m e lf txid = Ok m' ->
  exists k, nth_error (m_sces m') k = Some {| d_sce := e; d_sc_leaf := lf; d_sc_created := d_sc_created (nth k (m_sces m) dummy_sced); d_sc_spent := true |}.
Proof.
  intros m e lf txid m'. unfold spend_sce, slot.
  destruct (elem_idx m (sce_id e)) as [k|] eqn:Ei.
  - destruct (Nat.ltb_spec k (length (m_sces m))); [|discriminate]. simpl. intros E; inversion E; subst; simpl.
    exists k. unfold put.
    assert (G : forall (l : list sced) k x, (k < length l)%nat -> nth_error (Mid.set_nth k x l) k = Some x).
    { clear. induction l as [|y l IH]; intros [|k] x Hk; simpl in *; try lia; auto. apply IH; lia. }
    apply G; assumption.
  - simpl. intros E; inversion E; subst; simpl. exists (length (m_sces m)). unfold put.
    rewrite nth_error_app2 by lia. rewrite Nat.sub_diag. simpl.
    rewrite nth_overflow by lia. reflexivity.
Qed.
