(* C06, all eras: for every accepted block -- v1 transactions, v1 contracts revised, proven or expiring included -- every
   diff with an assigned leaf records exactly the element that leaf held, so undoing the block restores the element store. *)
From Coq Require Import ZArith List Bool Lia.
From Sia Require Import Prim.Result Prim.Tok Policy.Model Ledger.Types Ledger.Mid Ledger.Validate Ledger.Apply Ledger.Proofs Ledger.Spends Ledger.Persist Ledger.VApply Ledger.Persist1 Ledger.Revert Ledger.RevertOk.
Import ListNotations.
Open Scope Z_scope.

Lemma list_sco_eqb_eq : forall a b, list_eqb sco_eqb a b = true -> a = b.
Proof.
  induction a as [|x a IH]; intros [|y b] E; cbn [list_eqb] in E; try discriminate; [reflexivity|].
  apply andb_true_iff in E. destruct E as [E1 E2]. apply sco_eqb_eq in E1. rewrite E1, (IH b E2). reflexivity.
Qed.
Lemma fce1_eqb_eq a b : fce1_eqb a b = true -> a = b.
Proof.
  unfold fce1_eqb, fc1_eqb. destruct a as [ai af], b as [bi bf]. destruct af, bf. cbn. intros E. split_ands. eqs.
  repeat match goal with H : list_eqb sco_eqb _ _ = true |- _ => apply list_sco_eqb_eq in H end. subst. reflexivity.
Qed.

Section RevertOk1.
Variable H : bytes -> bytes.
Variable net : lnetwork.
Variable vt : vtab.
Variable pt : ptab.
Variable se sd : bytes.
Variable s : lstate.
Notation holds := (RevertOk.holds s).
Notation Qsc := (RevertOk.Qsc s).
Notation Qsf := (RevertOk.Qsf s).
Notation Qv2 := (RevertOk.Qv2 s).

Definition Qfc (d : fced) : Prop := d_fc_leaf d = UNASSIGNED \/ (d_fc_created d = false /\ holds (d_fc_leaf d) (EFC (d_fce d))).
Definition QInv1 (m : mid) : Prop := Forall Qsc (m_sces m) /\ Forall Qsf (m_sfes m) /\ Forall Qfc (m_fces m) /\ Forall Qv2 (m_v2fces m).
Lemma q1_new : QInv1 (new_mid s). Proof. unfold QInv1, new_mid. cbn. repeat split; constructor. Qed.

(* ---- primitives (the v2 ones as in RevertOk, with the v1 contract slice carried along) ---- *)
Lemma create_sce_q1 m i o mt m' : create_sce m i o mt = Ok m' -> QInv1 m -> QInv1 m'.
Proof.
  unfold create_sce. intros E (I1 & I2 & I3 & I4). apply bind_ok in E. destruct E as ([k fresh] & _ & E). inversion E; subst. clear E.
  unfold QInv1, with_sces. cbn. repeat split; try assumption. apply put_forall; [exact I1|]. left. reflexivity.
Qed.
Lemma spend_sce_q1 m e lf tx m' : (lf = UNASSIGNED \/ holds lf (ESC e)) -> spend_sce m e lf tx = Ok m' -> QInv1 m -> QInv1 m'.
Proof.
  unfold spend_sce. intros Hl E (I1 & I2 & I3 & I4). apply bind_ok in E. destruct E as ([k fresh] & _ & E). inversion E; subst. clear E.
  unfold QInv1, with_sces. cbn. repeat split; try assumption. apply put_forall; [exact I1|]. exact Hl.
Qed.
Lemma create_sfe_q1 m i v a m' : create_sfe m i v a = Ok m' -> QInv1 m -> QInv1 m'.
Proof.
  unfold create_sfe. intros E (I1 & I2 & I3 & I4). apply bind_ok in E. destruct E as ([k fresh] & _ & E). inversion E; subst. clear E.
  unfold QInv1, with_sfes. cbn. repeat split; try assumption. apply put_forall; [exact I2|]. left. reflexivity.
Qed.
Lemma spend_sfe_q1 m e lf tx m' : (lf = UNASSIGNED \/ holds lf (ESF e)) -> spend_sfe m e lf tx = Ok m' -> QInv1 m -> QInv1 m'.
Proof.
  unfold spend_sfe. intros Hl E (I1 & I2 & I3 & I4). apply bind_ok in E. destruct E as ([k fresh] & _ & E). inversion E; subst. clear E.
  unfold QInv1, with_sfes. cbn. repeat split; try assumption. apply put_forall; [exact I2|]. exact Hl.
Qed.
Lemma create_v2_q1 m i fc m' : create_v2 m i fc = Ok m' -> QInv1 m -> QInv1 m'.
Proof.
  unfold create_v2. intros E (I1 & I2 & I3 & I4). apply bind_ok in E. destruct E as ([k fresh] & _ & E).
  apply bind_ok in E. destruct E as (tax & _ & E). apply bind_ok in E. destruct E as (pool & _ & E). inversion E; subst. clear E.
  unfold QInv1, with_v2fces. cbn. repeat split; try assumption. apply put_forall; [exact I4|]. left. reflexivity.
Qed.
Lemma resolve_v2_q1 m e lf kind tx m' : holds lf (EV2 e) -> resolve_v2 m e lf kind tx = Ok m' -> QInv1 m -> QInv1 m'.
Proof.
  unfold resolve_v2. intros Hl E (I1 & I2 & I3 & I4). apply bind_ok in E. destruct E as ([k fresh] & _ & E).
  destruct (d_v2_created (nth k (m_v2fces m) dummy_v2fced)); [discriminate|]. inversion E; subst. clear E.
  unfold QInv1, with_v2fces. cbn. repeat split; try assumption. apply put_forall; [exact I4|]. right. split; [reflexivity | exact Hl].
Qed.
Lemma revise_v2_q1 m e lf rev m' : holds lf (EV2 e) -> revise_v2 m e lf rev = Ok m' -> QInv1 m -> QInv1 m'.
Proof.
  unfold revise_v2. intros Hl E (I1 & I2 & I3 & I4). apply bind_ok in E. destruct E as ([k fresh] & Sl & E). inversion E; subst m'. clear E.
  unfold QInv1, with_v2fces. cbn. repeat split; try assumption. apply put_forall; [exact I4|].
  destruct fresh.
  - assert (k = length (m_v2fces m)) by (unfold slot in Sl; destruct (elem_idx m (v2_id e)) as [k'|]; [destruct (k' <? length (m_v2fces m))%nat; inversion Sl | inversion Sl; reflexivity]).
    subst k. rewrite nth_overflow by lia. cbn. right. split; [reflexivity | exact Hl].
  - pose proof (nth_forall Qv2 _ k dummy_v2fced I4 (slot_old _ _ _ _ Sl)) as Po. set (old := nth k (m_v2fces m) dummy_v2fced) in *.
    destruct (d_v2_created old) eqn:Cr.
    + left. cbn. destruct Po as [U|[C _]]; [exact U | congruence].
    + destruct (d_v2_rev old).
      * destruct Po as [U|[C Hh]]; [left; exact U | right; split; [reflexivity | exact Hh]].
      * right. split; [reflexivity | exact Hl].
Qed.
Lemma create_fce_q1 m i fc tax m' : create_fce m i fc tax = Ok m' -> QInv1 m -> QInv1 m'.
Proof.
  unfold create_fce. intros E (I1 & I2 & I3 & I4). apply bind_ok in E. destruct E as ([k fresh] & _ & E).
  apply bind_ok in E. destruct E as (pool & _ & E). inversion E; subst. clear E.
  unfold QInv1, with_fces. cbn. repeat split; try assumption. apply put_forall; [exact I3|]. left. reflexivity.
Qed.
(* what a record of the presented (e, lf) needs: only when the slot holds neither a creation nor a revision *)
Definition RecOK (m : mid) (e : fce1) (lf : Z) : Prop :=
  forall k fresh, slot m (fce_id e) (m_fces m) = Ok (k, fresh) ->
    d_fc_created (nth k (m_fces m) dummy_fced) = false -> d_fc_rev (nth k (m_fces m) dummy_fced) = None ->
    lf = UNASSIGNED \/ holds lf (EFC e).
Lemma revise_fce_q1 m e lf rev m' : RecOK m e lf -> revise_fce m e lf rev = Ok m' -> QInv1 m -> QInv1 m'.
Proof.
  unfold revise_fce. intros Hr E (I1 & I2 & I3 & I4). apply bind_ok in E. destruct E as ([k fresh] & Sl & E). inversion E; subst m'. clear E.
  unfold QInv1, with_fces. cbn. repeat split; try assumption. apply put_forall; [exact I3|].
  specialize (Hr k fresh Sl). set (old := nth k (m_fces m) dummy_fced) in *.
  assert (Po : fresh = false -> Qfc old) by (intros ->; exact (nth_forall Qfc _ k dummy_fced I3 (slot_old _ _ _ _ Sl))).
  assert (Od : fresh = true -> old = dummy_fced).
  { intros ->. unfold old. assert (k = length (m_fces m)) by (unfold slot in Sl; destruct (elem_idx m (fce_id e)) as [k'|]; [destruct (k' <? length (m_fces m))%nat; inversion Sl | inversion Sl; reflexivity]).
    subst k. apply nth_overflow. lia. }
  destruct (d_fc_created old) eqn:Cr.
  - destruct fresh; [rewrite (Od eq_refl) in Cr; discriminate|]. left. cbn. destruct (Po eq_refl) as [U|[C _]]; [exact U | congruence].
  - destruct (d_fc_rev old) eqn:Rv.
    + destruct fresh; [rewrite (Od eq_refl) in Rv; discriminate|]. destruct (Po eq_refl) as [U|[C Hh]]; [left; exact U | right; split; [reflexivity | exact Hh]].
    + destruct (Hr eq_refl eq_refl) as [U|Hh]; [left; exact U | right; split; [reflexivity | exact Hh]].
Qed.
Lemma resolve_fce_q1 m e lf valid tx m' : RecOK m e lf -> resolve_fce m e lf valid tx = Ok m' -> QInv1 m -> QInv1 m'.
Proof.
  unfold resolve_fce. intros Hr E (I1 & I2 & I3 & I4). apply bind_ok in E. destruct E as ([k fresh] & Sl & E). inversion E; subst m'. clear E.
  unfold QInv1, with_fces. cbn. repeat split; try assumption. apply put_forall; [exact I3|].
  specialize (Hr k fresh Sl). set (old := nth k (m_fces m) dummy_fced) in *.
  assert (Po : fresh = false -> Qfc old) by (intros ->; exact (nth_forall Qfc _ k dummy_fced I3 (slot_old _ _ _ _ Sl))).
  assert (Od : fresh = true -> old = dummy_fced).
  { intros ->. unfold old. assert (k = length (m_fces m)) by (unfold slot in Sl; destruct (elem_idx m (fce_id e)) as [k'|]; [destruct (k' <? length (m_fces m))%nat; inversion Sl | inversion Sl; reflexivity]).
    subst k. apply nth_overflow. lia. }
  destruct (d_fc_created old) eqn:Cr; cbn [orb].
  - destruct fresh; [rewrite (Od eq_refl) in Cr; discriminate|]. unfold Qfc. cbn. destruct (Po eq_refl) as [U|[C _]]; [left; exact U | congruence].
  - destruct (d_fc_rev old) eqn:Rv.
    + destruct fresh; [rewrite (Od eq_refl) in Rv; discriminate|]. unfold Qfc. cbn. destruct (Po eq_refl) as [U|[C Hh]]; [left; exact U | right; split; [reflexivity | exact Hh]].
    + unfold Qfc. cbn. destruct (Hr eq_refl eq_refl) as [U|Hh]; [left; exact U | right; split; [reflexivity | exact Hh]].
Qed.

Lemma fold_q1 {A} (P : A -> Prop) (f : mid -> A -> R mid) :
  (forall m x m', P x -> f m x = Ok m' -> QInv1 m -> QInv1 m') -> forall l m m', Forall P l -> fold_r f l m = Ok m' -> QInv1 m -> QInv1 m'.
Proof.
  intros Hf. induction l as [|x r IH]; intros m m' F E I; cbn [fold_r] in E; [inversion E; subst; exact I|].
  inversion F; subst. apply bind_ok in E. destruct E as (m1 & E1 & E). apply (IH m1 m'); [assumption | exact E | eapply Hf; eassumption].
Qed.

(* ---- a v2 transaction ---- *)
Lemma apply_txn2_q1 m t m' : RevertOk.Presented s t -> apply_txn2 net s m t = Ok m' -> QInv1 m -> QInv1 m'.
Proof.
  intros (P1 & P3 & P6 & P7) E I. unfold Apply.apply_txn2 in E.
  apply bind_ok in E. destruct E as (m1 & E1 & E). apply bind_ok in E. destruct E as (m2 & E2 & E).
  apply bind_ok in E. destruct E as (m3 & E3 & E). apply bind_ok in E. destruct E as (m4 & E4 & E).
  apply bind_ok in E. destruct E as (m5 & E5 & E). apply bind_ok in E. destruct E as (m6 & E6 & E).
  apply bind_ok in E. destruct E as (m7 & E7 & E).
  assert (I1 : QInv1 m1) by (refine (fold_q1 _ _ _ _ _ _ P1 E1 I); intros ? ? ? Px Ex; exact (spend_sce_q1 _ _ _ _ _ Px Ex)).
  assert (I2 : QInv1 m2) by (refine (fold_q1 (fun _ => True) _ _ _ _ _ (Forall_true _) E2 I1); intros ? ? ? _ Ex; exact (create_sce_q1 _ _ _ _ _ Ex)).
  assert (I3 : QInv1 m3).
  { refine (fold_q1 _ _ _ _ _ _ P3 E3 I2). intros m0 x m0' Px Ex I0.
    apply bind_ok in Ex. destruct Ex as (ma & Ea & Ex). apply bind_ok in Ex. destruct Ex as (c & _ & Ex).
    apply (create_sce_q1 _ _ _ _ _ Ex). apply (spend_sfe_q1 _ _ _ _ _ Px Ea). exact I0. }
  assert (I4 : QInv1 m4) by (refine (fold_q1 (fun _ => True) _ _ _ _ _ (Forall_true _) E4 I3); intros ? ? ? _ Ex; exact (create_sfe_q1 _ _ _ _ _ Ex)).
  assert (I5 : QInv1 m5) by (refine (fold_q1 (fun _ => True) _ _ _ _ _ (Forall_true _) E5 I4); intros ? ? ? _ Ex; exact (create_v2_q1 _ _ _ _ Ex)).
  assert (I6 : QInv1 m6) by (refine (fold_q1 _ _ _ _ _ _ P6 E6 I5); intros ? ? ? Px Ex; exact (revise_v2_q1 _ _ _ _ _ Px Ex)).
  assert (I7 : QInv1 m7).
  { refine (fold_q1 _ _ _ _ _ _ P7 E7 I6). intros m0 rs m0' Px Ex I0. cbv zeta in Ex.
    apply bind_ok in Ex. destruct Ex as (ma & Ea & Ex). apply bind_ok in Ex. destruct Ex as (mb & Eb & Ex).
    assert (Ib : QInv1 mb).
    { destruct (rs_res rs); [apply (create_v2_q1 _ _ _ _ Eb) | inversion Eb; subst mb | inversion Eb; subst mb]; apply (resolve_v2_q1 _ _ _ _ _ _ Px Ea I0). }
    destruct (match rs_res rs with RRenewal rn => (rn_final_renter rn, rn_final_host rn) | RProof _ => (c_renter (v2_fc (p_val (rs_parent rs))), c_host (v2_fc (p_val (rs_parent rs))))
              | RExpiration => (c_renter (v2_fc (p_val (rs_parent rs))), missed_host_output (v2_fc (p_val (rs_parent rs)))) end) as [renter host].
    apply bind_ok in Ex. destruct Ex as (mc & Ec & Ex). apply (create_sce_q1 _ _ _ _ _ Ex). apply (create_sce_q1 _ _ _ _ _ Ec). exact Ib. }
  assert (I8 : QInv1 (fold_left (fun m a => create_att m (at_id a)) (t2_att t) m7)).
  { clear E. revert I7. generalize m7. induction (t2_att t) as [|a l IHl]; intros m0 I0; cbn [fold_left]; [exact I0|]. apply IHl. exact I0. }
  destruct (t2_new_foundation t); inversion E; subst m'; exact I8.
Qed.

(* ---- v1 lookups: what they return is what the diff holds already, or a checked supplement element ---- *)
Definition SuppAll (u : supp1) : Prop :=
  Forall (fun p => fst (mem_sc s p) = true) (u_sci u) /\ Forall (fun p => fst (mem_sf s p) = true) (u_sfi u) /\
  Forall (fun p => fst (mem_fc s p) = true) (u_rev u) /\ Forall (fun x => fst (mem_fc s (ss_fc x)) = true) (u_sp u).
Lemma mem_fc_holds p : fst (mem_fc s p) = true -> holds (p_leaf p) (EFC (p_val p)).
Proof.
  unfold mem_fc, mem_gen, leaf_at, RevertOk.holds.
  destruct ((0 <=? p_leaf p) && (p_leaf p <? Z.of_nat (length (s_leaves s)))); [|cbn; discriminate].
  destruct (nth_error (s_leaves s) (Z.to_nat (p_leaf p))) as [[el sp]|]; [|cbn; discriminate].
  destruct (p_proof_ok p); [|cbn; discriminate]. cbn [andb l_elem l_spent].
  destruct el; try (cbn; discriminate). destruct (fce1_eqb e (p_val p)) eqn:Eq; [|cbn; discriminate]. apply fce1_eqb_eq in Eq. subst e.
  cbn [fst]. destruct sp; [discriminate|]. reflexivity.
Qed.
Lemma sc_element_rec m ts i e lf : QInv1 m -> SuppAll ts -> sc_element m ts i = Some (e, lf) -> lf = UNASSIGNED \/ holds lf (ESC e).
Proof.
  intros (I1 & _) (S1 & _) E. unfold sc_element in E.
  assert (FB : option_map (fun p : pres sce => (p_val p, p_leaf p)) (find_pres sce_id i (u_sci ts)) = Some (e, lf) -> lf = UNASSIGNED \/ holds lf (ESC e)).
  { unfold find_pres. destruct (find (fun p => beq (sce_id (p_val p)) i) (u_sci ts)) as [p|] eqn:F; [|discriminate]. cbn. intros Ep. inversion Ep; subst.
    apply find_some in F. destruct F as [Hin _]. rewrite Forall_forall in S1. right. exact (proj2 (mem_sc_sound s p (S1 p Hin))). }
  destruct (elem_idx m i) as [k|]; [|exact (FB E)]. destruct (nth_error (m_sces m) k) as [d|] eqn:N; [|exact (FB E)].
  destruct (beq (sce_id (d_sce d)) i); [|exact (FB E)]. inversion E; subst. rewrite Forall_forall in I1. exact (I1 d (nth_error_In _ _ N)).
Qed.
Lemma sf_element_rec m ts i e lf : QInv1 m -> SuppAll ts -> sf_element m ts i = Some (e, lf) -> lf = UNASSIGNED \/ holds lf (ESF e).
Proof.
  intros (_ & I2 & _) (_ & S2 & _) E. unfold sf_element in E.
  assert (FB : option_map (fun p : pres sfe => (p_val p, p_leaf p)) (find_pres sfe_id i (u_sfi ts)) = Some (e, lf) -> lf = UNASSIGNED \/ holds lf (ESF e)).
  { unfold find_pres. destruct (find (fun p => beq (sfe_id (p_val p)) i) (u_sfi ts)) as [p|] eqn:F; [|discriminate]. cbn. intros Ep. inversion Ep; subst.
    apply find_some in F. destruct F as [Hin _]. rewrite Forall_forall in S2. right. exact (RevertOk.mem_sf_holds s p (S2 p Hin)). }
  destruct (elem_idx m i) as [k|]; [|exact (FB E)]. destruct (nth_error (m_sfes m) k) as [d|] eqn:N; [|exact (FB E)].
  destruct (beq (sfe_id (d_sfe d)) i); [|exact (FB E)]. inversion E; subst. rewrite Forall_forall in I2. exact (I2 d (nth_error_In _ _ N)).
Qed.
Lemma fc_element_rec m ts i e lf : QInv1 m -> SuppAll ts -> fc_element m ts i = Some (e, lf) -> RecOK m e lf.
Proof.
  intros (_ & _ & I3 & _) (_ & _ & S3 & S4) E. unfold fc_element in E.
  assert (FB : forall e lf,
    match find_pres fce_id i (u_rev ts) with
    | Some p => Some (p_val p, p_leaf p)
    | None => match find (fun s0 => beq (fce_id (p_val (ss_fc s0))) i) (u_sp ts) with Some s0 => Some (p_val (ss_fc s0), p_leaf (ss_fc s0)) | None => None end
    end = Some (e, lf) -> holds lf (EFC e)).
  { intros e1 lf1 F. unfold find_pres in F. destruct (find (fun p => beq (fce_id (p_val p)) i) (u_rev ts)) as [p|] eqn:F1.
    - inversion F; subst. apply find_some in F1. destruct F1 as [Hin _]. rewrite Forall_forall in S3. exact (mem_fc_holds p (S3 p Hin)).
    - destruct (find (fun s0 => beq (fce_id (p_val (ss_fc s0))) i) (u_sp ts)) as [x|] eqn:F2; [|discriminate].
      inversion F; subst. apply find_some in F2. destruct F2 as [Hin _]. rewrite Forall_forall in S4. exact (mem_fc_holds _ (S4 x Hin)). }
  intros k fresh Sl Cr Rv.
  destruct (elem_idx m i) as [k0|] eqn:Ei; [|right; exact (FB e lf E)].
  destruct (nth_error (m_fces m) k0) as [d|] eqn:N; [|right; exact (FB e lf E)].
  destruct (beq (fce_id (d_fce d)) i) eqn:B; [|right; exact (FB e lf E)].
  apply beq_eq in B.
  (* the diff the MidState already holds for this ID: the slot of the record is this very diff *)
  assert (Ie : fce_id e = i) by (destruct (d_fc_rev d); injection E as Ee El; rewrite <- Ee; cbn [fce_id]; exact B).
  rewrite Ie in Sl. unfold slot in Sl. rewrite Ei in Sl. destruct (Nat.ltb_spec k0 (length (m_fces m))); [|discriminate]. inversion Sl; subst k fresh.
  rewrite (nth_error_nth _ _ dummy_fced N) in Cr, Rv. rewrite Rv in E. inversion E; subst.
  rewrite Forall_forall in I3. destruct (I3 d (nth_error_In _ _ N)) as [U|[_ Hh]]; [left; exact U | right; exact Hh].
Qed.

Lemma apply_txn1_q1 m t ts m' : SuppAll ts -> apply_txn1 net s m t ts = Ok m' -> QInv1 m -> QInv1 m'.
Proof.
  intros So E I. unfold Apply.apply_txn1 in E.
  apply bind_ok in E. destruct E as (m1 & E1 & E). apply bind_ok in E. destruct E as (m2 & E2 & E).
  apply bind_ok in E. destruct E as (m3 & E3 & E). apply bind_ok in E. destruct E as (m4 & E4 & E).
  apply bind_ok in E. destruct E as (m5 & E5 & E). apply bind_ok in E. destruct E as (m6 & E6 & E).
  apply bind_ok in E. destruct E as (m7 & E7 & E).
  assert (I1 : QInv1 m1).
  { refine (fold_q1 (fun _ => True) _ _ _ _ _ (Forall_true _) E1 I). intros m0 x m0' _ Ex I0.
    destruct (sc_element m0 ts (i1_parent x)) as [[e lf]|] eqn:Se; [|discriminate]. exact (spend_sce_q1 _ _ _ _ _ (sc_element_rec _ _ _ _ _ I0 So Se) Ex I0). }
  assert (I2 : QInv1 m2) by (refine (fold_q1 (fun _ => True) _ _ _ _ _ (Forall_true _) E2 I1); intros ? ? ? _ Ex; exact (create_sce_q1 _ _ _ _ _ Ex)).
  assert (I3 : QInv1 m3).
  { refine (fold_q1 (fun _ => True) _ _ _ _ _ (Forall_true _) E3 I2). intros m0 x m0' _ Ex I0.
    destruct (sf_element m0 ts (f1_parent x)) as [[e lf]|] eqn:Se; [|discriminate].
    apply bind_ok in Ex. destruct Ex as (c & _ & Ex). apply bind_ok in Ex. destruct Ex as (ma & Ea & Ex).
    apply (create_sce_q1 _ _ _ _ _ Ex). exact (spend_sfe_q1 _ _ _ _ _ (sf_element_rec _ _ _ _ _ I0 So Se) Ea I0). }
  assert (I4 : QInv1 m4) by (refine (fold_q1 (fun _ => True) _ _ _ _ _ (Forall_true _) E4 I3); intros ? ? ? _ Ex; exact (create_sfe_q1 _ _ _ _ _ Ex)).
  assert (I5 : QInv1 m5).
  { refine (fold_q1 (fun _ => True) _ _ _ _ _ (Forall_true _) E5 I4). intros m0 [[i fc] tx] m0' _ Ex. exact (create_fce_q1 _ _ _ _ _ Ex). }
  assert (I6 : QInv1 m6).
  { refine (fold_q1 (fun _ => True) _ _ _ _ _ (Forall_true _) E6 I5). intros m0 rv m0' _ Ex I0.
    destruct (fc_element m0 ts (r1_parent rv)) as [[e lf]|] eqn:Fe; [|discriminate]. exact (revise_fce_q1 _ _ _ _ _ (fc_element_rec _ _ _ _ _ I0 So Fe) Ex I0). }
  assert (I7 : QInv1 m7).
  { refine (fold_q1 (fun _ => True) _ _ _ _ _ (Forall_true _) E7 I6). intros m0 sp m0' _ Ex I0.
    destruct (fc_element m0 ts (s1_parent sp)) as [[e lf]|] eqn:Fe; [|discriminate].
    apply bind_ok in Ex. destruct Ex as (ma & Ea & Ex).
    refine (fold_q1 (fun _ => True) _ _ _ _ _ (Forall_true _) Ex (resolve_fce_q1 _ _ _ _ _ _ (fc_element_rec _ _ _ _ _ I0 So Fe) Ea I0)). intros ? ? ? _ Ey. exact (create_sce_q1 _ _ _ _ _ Ey). }
  destruct (ln_foundation_height net <=? s_height s); inversion E; subst m'; [|exact I7].
  clear E. revert I7. generalize m7. induction (t1_arb t) as [|a l IHl]; intros m0 I0; cbn [fold_left]; [exact I0|]. apply IHl. destruct a; exact I0.
Qed.
Lemma apply_txns1_q1 : forall ts us m m', Forall SuppAll us -> apply_txns1 net s m ts us = Ok m' -> QInv1 m -> QInv1 m'.
Proof.
  induction ts as [|t r IH]; intros us m m' So E I; cbn [apply_txns1] in E; [inversion E; subst; exact I|].
  destruct us as [|u ur]; [discriminate|]. apply bind_ok in E. destruct E as (m1 & E1 & E).
  apply (IH ur m1 m' (Forall_inv_tail So) E). exact (apply_txn1_q1 m t u m1 (Forall_inv So) E1 I).
Qed.
Lemma block2_q1 txns : forall m m', fold_r (vstep H net vt pt se sd s) txns m = Ok m' -> QInv1 m -> QInv1 m'.
Proof.
  induction txns as [|t r IH]; intros m m' E I; cbn [fold_r] in *; [inversion E; subst; exact I|].
  apply bind_ok in E. destruct E as (m1 & E1 & E). unfold vstep in E1. apply bind_ok in E1. destruct E1 as ([] & V & A).
  apply (IH m1 m' E). exact (apply_txn2_q1 m t m1 (RevertOk.validate_presented H net vt pt se sd s m t V) A I).
Qed.

Lemma supplement_all b : validate_supplement net s b = Ok tt ->
  Forall SuppAll (b_supp b) /\ Forall (fun p : pres fce1 * list id => holds (p_leaf (fst p)) (EFC (p_val (fst p)))) (b_expiring b).
Proof.
  unfold validate_supplement. destruct ((ln_v2_require net <=? child s) && _); [discriminate|]. destruct (negb _); [discriminate|].
  intros E. apply bind_ok in E. destruct E as ([] & Es & Ee). split.
  - revert Es. induction (b_supp b) as [|u r IH]; intros Es; [constructor|].
    apply bind_ok in Es. destruct Es as ([] & E1 & Es). apply bind_ok in Es. destruct Es as ([] & E2 & Es).
    apply bind_ok in Es. destruct Es as ([] & E3 & Es). apply bind_ok in Es. destruct Es as ([] & E4 & Es).
    constructor; [repeat split; eapply first_err_all; eassumption | apply IH; exact Es].
  - apply first_err_all in Ee. eapply Forall_impl; [|exact Ee]. cbv beta. intros p Hp. apply mem_fc_holds. exact Hp.
Qed.

(* undoing any accepted block restores the element store *)
Theorem revert_restores_any b s' m : validate_block H net vt pt se sd s b = Ok tt -> apply_block net s b = Ok (s', m) ->
  revert_leaves s s' m b = s_leaves s.
Proof.
  intros V A. apply (revert_restores net s b s' m A).
  destruct (accepted_transactions_apply H net vt pt se sd s b V) as (m1 & m2 & _ & A1 & V2 & A2).
  assert (So : Forall SuppAll (b_supp b) /\ Forall (fun p : pres fce1 * list id => holds (p_leaf (fst p)) (EFC (p_val (fst p)))) (b_expiring b)).
  { unfold validate_block in V. apply bind_ok in V. destruct V as (? & _ & V). apply bind_ok in V. destruct V as ([] & Vs & _). exact (supplement_all b Vs). }
  destruct So as [So Sx].
  pose proof (apply_txns1_q1 _ _ _ _ So A1 q1_new) as Q1. pose proof (block2_q1 _ _ _ V2 Q1) as Q2.
  unfold apply_block in A. apply bind_ok in A. destruct A as (mf & Am & A). inversion A; subst s' m. clear A.
  unfold mid_apply_block in Am. destruct ((ln_v2_require net <=? child s) && _); [discriminate|].
  rewrite A1 in Am. cbn [bind] in Am. rewrite A2 in Am. cbn [bind] in Am.
  apply bind_ok in Am. destruct Am as (m3 & E3 & Am). apply bind_ok in Am. destruct Am as (sub & _ & Am). apply bind_ok in Am. destruct Am as (m4 & E4 & Am).
  assert (Q3 : QInv1 m3) by (refine (fold_q1 (fun _ => True) _ _ _ _ _ (Forall_true _) E3 Q2); intros ? ? ? _ Ex; exact (create_sce_q1 _ _ _ _ _ Ex)).
  assert (Q4 : QInv1 m4) by (destruct sub; [apply (create_sce_q1 _ _ _ _ _ E4 Q3) | inversion E4; subst; exact Q3]).
  assert (Q5 : QInv1 mf).
  { refine (fold_q1 _ _ _ _ _ _ Sx Am Q4). intros m0 [p ids] m0' Hp Ex I0. cbn [fst] in Hp.
    destruct (is_spent m0 (fce_id (p_val p))); [inversion Ex; subst; exact I0|].
    apply bind_ok in Ex. destruct Ex as (ma & Ea & Ex).
    refine (fold_q1 (fun _ => True) _ _ _ _ _ (Forall_true _) Ex (resolve_fce_q1 _ _ _ _ _ _ _ Ea I0)); [intros ? ? ? _ Ey; exact (create_sce_q1 _ _ _ _ _ Ey)|].
    intros k fresh _ _ _. right. exact Hp. }
  destruct Q5 as (J1 & J2 & J3 & J4). unfold old_updates.
  repeat (apply Forall_app; split).
  - apply Forall_map. eapply Forall_impl; [|exact J1]. cbv beta. intros d [U|Hh]; [left; exact U | right; exact Hh].
  - apply Forall_map. eapply Forall_impl; [|exact J2]. cbv beta. intros d [U|Hh]; [left; exact U | right; exact Hh].
  - apply Forall_map. eapply Forall_impl; [|exact J3]. cbv beta. intros d [U|[_ Hh]]; [left; exact U | right; exact Hh].
  - apply Forall_map. eapply Forall_impl; [|exact J4]. cbv beta. intros d [U|[_ Hh]]; [left; exact U | right; exact Hh].
  - apply Forall_map. apply Forall_forall. intros i _. left. reflexivity.
  - constructor; [left; reflexivity | constructor].
Qed.
End RevertOk1.
