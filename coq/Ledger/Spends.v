(* No element is consumed twice inside a block: the shared spends map of the MidState only grows, every consumed
   element is entered, and validation refuses an element that is already there. *)
From Coq Require Import ZArith List Bool Lia.
From Sia Require Import Prim.Result Prim.Tok Policy.Model Ledger.Types Ledger.Mid Ledger.Validate Ledger.Apply Ledger.Proofs.
Import ListNotations.
Open Scope Z_scope.

Lemma NoDup_app_iff' {A} (l1 l2 : list A) : NoDup l1 -> NoDup l2 -> (forall x, In x l1 -> In x l2 -> False) -> NoDup (l1 ++ l2).
Proof.
  induction l1 as [|a l1 IH]; intros N1 N2 D; [exact N2|]. inversion N1; subst. cbn [app]. constructor.
  - intros Hin. apply in_app_or in Hin. destruct Hin as [Hin|Hin]; [contradiction | apply (D a); [left; reflexivity | exact Hin]].
  - apply IH; auto. intros x Hx1 Hx2. apply (D x); [right; exact Hx1 | exact Hx2].
Qed.

(* m' extends m: the spends map of m' is that of m with entries put in front *)
Definition ext (m m' : mid) : Prop := exists L, m_spends m' = L ++ m_spends m.
Lemma ext_refl m : ext m m. Proof. exists []. reflexivity. Qed.
Lemma ext_trans a b c : ext a b -> ext b c -> ext a c.
Proof. intros [L1 E1] [L2 E2]. exists (L2 ++ L1). rewrite E2, E1, app_assoc. reflexivity. Qed.
Lemma ext_eq m m' : m_spends m' = m_spends m -> ext m m'. Proof. intros E. exists []. exact E. Qed.
Lemma ext_cons m m' k v : m_spends m' = (k, v) :: m_spends m -> ext m m'. Proof. intros E. exists [(k, v)]. exact E. Qed.

Lemma assoc_app {A} k (L1 L2 : list (id * A)) : assoc k L2 <> None -> assoc k (L1 ++ L2) <> None.
Proof. induction L1 as [|[k' v] L1 IH]; intros Hn; cbn [app assoc]; [exact Hn|]. destruct (beq k k'); [discriminate | apply IH; exact Hn]. Qed.
Lemma spent_mono m m' i : ext m m' -> is_spent m i = true -> is_spent m' i = true.
Proof.
  intros [L E]. unfold is_spent, spent_in. rewrite E. intros Hs.
  destruct (assoc i (L ++ m_spends m)) eqn:A; [reflexivity|]. exfalso.
  apply (assoc_app i L (m_spends m)); [|exact A]. destruct (assoc i (m_spends m)); [discriminate | discriminate].
Qed.
Lemma spent_head m' i v rest : m_spends m' = (i, v) :: rest -> is_spent m' i = true.
Proof. intros E. unfold is_spent, spent_in. rewrite E. cbn [assoc]. rewrite beq_refl. reflexivity. Qed.

(* the primitives *)
Ltac prim := let Hh := fresh in intros Hh; unbind Hh;
  repeat match goal with x : (nat * bool)%type |- _ => destruct x end;
  unbind Hh; try (inversion Hh; subst; clear Hh); cbn; try reflexivity.
Lemma create_sce_sp m i o mt m' : create_sce m i o mt = Ok m' -> m_spends m' = m_spends m.
Proof. unfold create_sce. prim. Qed.
Lemma create_sfe_sp m i v a m' : create_sfe m i v a = Ok m' -> m_spends m' = m_spends m.
Proof. unfold create_sfe. prim. Qed.
Lemma create_v2_sp m i fc m' : create_v2 m i fc = Ok m' -> m_spends m' = m_spends m.
Proof. unfold create_v2. prim. Qed.
Lemma revise_v2_sp m e lf rev m' : revise_v2 m e lf rev = Ok m' -> m_spends m' = m_spends m.
Proof. unfold revise_v2. prim. Qed.
Lemma spend_sce_sp m e lf tx m' : spend_sce m e lf tx = Ok m' -> m_spends m' = (sce_id e, tx) :: m_spends m.
Proof. unfold spend_sce. prim. Qed.
Lemma spend_sfe_sp m e lf tx m' : spend_sfe m e lf tx = Ok m' -> m_spends m' = (sfe_id e, tx) :: m_spends m.
Proof. unfold spend_sfe. prim. Qed.
Lemma resolve_v2_sp m e lf k tx m' : resolve_v2 m e lf k tx = Ok m' -> m_spends m' = (v2_id e, tx) :: m_spends m.
Proof. unfold resolve_v2. intros Hh. unbind Hh. destruct x. destruct (d_v2_created _); [discriminate|]. inversion Hh; subst. reflexivity. Qed.
Lemma create_att_sp m i : m_spends (create_att m i) = m_spends m. Proof. reflexivity. Qed.

Lemma fold_r_ext {A} (f : mid -> A -> R mid) l : (forall m x m', f m x = Ok m' -> ext m m') -> forall m m', fold_r f l m = Ok m' -> ext m m'.
Proof.
  intros Hf. induction l as [|x l IH]; intros m m' E; cbn [fold_r] in E; [inversion E; apply ext_refl|].
  unbind E. eapply ext_trans; [eapply Hf; eassumption | eapply IH; eassumption].
Qed.
(* a fold whose step enters [key x] first and may enter more afterwards *)
Lemma fold_r_entered {A} (f : mid -> A -> R mid) (key : A -> id) l :
  (forall m x m', f m x = Ok m' -> ext m m' /\ is_spent m' (key x) = true) ->
  forall m m', fold_r f l m = Ok m' -> ext m m' /\ Forall (fun x => is_spent m' (key x) = true) l.
Proof.
  intros Hf. induction l as [|x l IH]; intros m m' E; cbn [fold_r] in E; [inversion E; split; [apply ext_refl | constructor]|].
  unbind E. destruct (Hf _ _ _ E0) as [X1 S1]. destruct (IH _ _ E) as [X2 F2]. split; [eapply ext_trans; eassumption|].
  constructor; [eapply spent_mono; eassumption | exact F2].
Qed.

Section Block.
Variable H : bytes -> bytes.
Variable net : lnetwork.
Variable vt : vtab.
Variable pt : ptab.
Variable se sd : bytes.
Notation apply_txn2 := (apply_txn2 net).
Notation validate_txn2 := (validate_txn2 H net vt pt se sd).

Definition sci_ids (t : txn2) : list id := map (fun i => sce_id (p_val (i2_parent i))) (t2_sci t).
Definition sfi_ids (t : txn2) : list id := map (fun i => sfe_id (p_val (f2_parent i))) (t2_sfi t).
Definition res_ids (t : txn2) : list id := map (fun rs => v2_id (p_val (rs_parent rs))) (t2_res t).

Lemma step_sci m i tx m' : spend_sce m (p_val (i2_parent i)) (p_leaf (i2_parent i)) tx = Ok m' ->
  ext m m' /\ is_spent m' (sce_id (p_val (i2_parent i))) = true.
Proof. intros Hs. pose proof (spend_sce_sp _ _ _ _ _ Hs) as Sp. split; [eapply ext_cons; exact Sp | eapply spent_head; exact Sp]. Qed.
Lemma step_sfi s m i tx m' :
  (let e := p_val (f2_parent i) in
   do m1 <- spend_sfe m e (p_leaf (f2_parent i)) tx;
   do c <- claim_portion (m_pool m1) (sfe_claim e) (sfe_value e);
   create_sce m1 (f2_claim_id i) {| sco_value := c; sco_addr := f2_claim_addr i |} (maturity_height net s)) = Ok m' ->
  ext m m' /\ is_spent m' (sfe_id (p_val (f2_parent i))) = true.
Proof.
  cbv zeta. intros Hs. apply bind_ok in Hs. destruct Hs as (m1 & A & Hs). apply bind_ok in Hs. destruct Hs as (c & B & Hs).
  pose proof (spend_sfe_sp _ _ _ _ _ A) as Sp. pose proof (create_sce_sp _ _ _ _ _ Hs) as Sc.
  split; [eapply ext_trans; [eapply ext_cons; exact Sp | apply ext_eq; exact Sc]|].
  unfold is_spent, spent_in. rewrite Sc, Sp. cbn [assoc]. rewrite beq_refl. reflexivity.
Qed.
Lemma step_res s m rs tx m' :
  (let e := p_val (rs_parent rs) in
   let fc := v2_fc e in
   let kind := match rs_res rs with RRenewal _ => 0 | RProof _ => 1 | RExpiration => 2 end in
   do m1 <- resolve_v2 m e (p_leaf (rs_parent rs)) kind tx;
   do m2 <- match rs_res rs with RRenewal rn => create_v2 m1 (rn_new_id rn) (rn_new rn) | _ => Ok m1 end;
   let '(renter, host) := match rs_res rs with
                          | RRenewal rn => (rn_final_renter rn, rn_final_host rn)
                          | RProof _ => (c_renter fc, c_host fc)
                          | RExpiration => (c_renter fc, missed_host_output fc)
                          end in
   do m3 <- create_sce m2 (rs_renter_id rs) renter (maturity_height net s);
   create_sce m3 (rs_host_id rs) host (maturity_height net s)) = Ok m' ->
  ext m m' /\ is_spent m' (v2_id (p_val (rs_parent rs))) = true.
Proof.
  cbv zeta. intros Hs. apply bind_ok in Hs. destruct Hs as (m1 & A & Hs). apply bind_ok in Hs. destruct Hs as (m2 & B & Hs).
  destruct (match rs_res rs with RRenewal rn => (rn_final_renter rn, rn_final_host rn) | RProof _ => _ | RExpiration => _ end) as [renter host].
  apply bind_ok in Hs. destruct Hs as (m3 & C & Hs).
  pose proof (resolve_v2_sp _ _ _ _ _ _ A) as Sp.
  assert (S2 : m_spends m2 = m_spends m1) by (destruct (rs_res rs); [eapply create_v2_sp; exact B | inversion B; reflexivity | inversion B; reflexivity]).
  pose proof (create_sce_sp _ _ _ _ _ C) as S3. pose proof (create_sce_sp _ _ _ _ _ Hs) as S4.
  split; [exists [(v2_id (p_val (rs_parent rs)), tx)]; rewrite S4, S3, S2, Sp; reflexivity|].
  unfold is_spent, spent_in. rewrite S4, S3, S2, Sp. cbn [assoc]. rewrite beq_refl. reflexivity.
Qed.

(* applying a transaction enters every element it consumes and forgets nothing *)
Theorem apply_txn2_spends s m t m' : apply_txn2 s m t = Ok m' ->
  ext m m' /\ Forall (fun i => is_spent m' i = true) (sci_ids t ++ sfi_ids t ++ res_ids t).
Proof.
  unfold Apply.apply_txn2. intros E.
  apply bind_ok in E. destruct E as (m1 & E1 & E). apply bind_ok in E. destruct E as (m2 & E2 & E).
  apply bind_ok in E. destruct E as (m3 & E3 & E). apply bind_ok in E. destruct E as (m4 & E4 & E).
  apply bind_ok in E. destruct E as (m5 & E5 & E). apply bind_ok in E. destruct E as (m6 & E6 & E).
  apply bind_ok in E. destruct E as (m7 & E7 & E).
  destruct (fold_r_entered _ (fun i => sce_id (p_val (i2_parent i))) (t2_sci t) (fun m0 x0 m1' => step_sci m0 x0 (t2_id t) m1') _ _ E1) as [X1 F1].
  pose proof (fold_r_ext _ (t2_sco t) (fun m0 x0 m1' Hs => ext_eq _ _ (create_sce_sp _ _ _ _ _ Hs)) _ _ E2) as X2.
  destruct (fold_r_entered _ (fun i => sfe_id (p_val (f2_parent i))) (t2_sfi t) (fun m0 x0 m1' => step_sfi s m0 x0 (t2_id t) m1') _ _ E3) as [X3 F3].
  pose proof (fold_r_ext _ (t2_sfo t) (fun m0 x0 m1' Hs => ext_eq _ _ (create_sfe_sp _ _ _ _ _ Hs)) _ _ E4) as X4.
  pose proof (fold_r_ext _ (t2_fc t) (fun m0 x0 m1' Hs => ext_eq _ _ (create_v2_sp _ _ _ _ Hs)) _ _ E5) as X5.
  pose proof (fold_r_ext _ (t2_rev t) (fun m0 x0 m1' Hs => ext_eq _ _ (revise_v2_sp _ _ _ _ _ Hs)) _ _ E6) as X6.
  destruct (fold_r_entered _ (fun rs => v2_id (p_val (rs_parent rs))) (t2_res t) (fun m0 x0 m1' => step_res s m0 x0 (t2_id t) m1') _ _ E7) as [X7 F7].
  assert (X8 : ext m7 (fold_left (fun m a => create_att m (at_id a)) (t2_att t) m7)).
  { clear. generalize m7. induction (t2_att t) as [|att0 l IHl]; intros m0; cbn [fold_left]; [apply ext_refl|].
    eapply ext_trans; [|apply IHl]. apply ext_eq. apply create_att_sp. }
  set (m8 := fold_left (fun m a => create_att m (at_id a)) (t2_att t) m7) in *.
  assert (X9 : ext m8 m') by (destruct (t2_new_foundation t); inversion E; subst; [apply ext_eq; reflexivity | apply ext_refl]).
  assert (T7 : ext m7 m') by (eapply ext_trans; eassumption).
  assert (T3 : ext m3 m') by (eapply ext_trans; [exact X4|]; eapply ext_trans; [exact X5|]; eapply ext_trans; [exact X6|]; eapply ext_trans; [exact X7 | exact T7]).
  assert (T1 : ext m1 m') by (eapply ext_trans; [exact X2|]; eapply ext_trans; [exact X3 | exact T3]).
  split; [eapply ext_trans; [exact X1 | exact T1]|].
  apply Forall_app. split; [|apply Forall_app; split].
  - unfold sci_ids. apply Forall_map. eapply Forall_impl; [|exact F1]. cbv beta. intros i Hs. eapply spent_mono; [exact T1 | exact Hs].
  - unfold sfi_ids. apply Forall_map. eapply Forall_impl; [|exact F3]. cbv beta. intros i Hs. eapply spent_mono; [exact T3 | exact Hs].
  - unfold res_ids. apply Forall_map. eapply Forall_impl; [|exact F7]. cbv beta. intros i Hs. eapply spent_mono; [exact T7 | exact Hs].
Qed.

(* ---- what validation guarantees about the consumed elements of one transaction ---- *)
Lemma not_seen i seen : existsb (beq i) seen = false -> ~ In i seen.
Proof. intros E Hin. assert (existsb (beq i) seen = true) by (apply existsb_exists; eexists; split; [exact Hin | apply beq_refl]). congruence. Qed.

Lemma sfi_fresh s m t : validate_v2_siafunds H net vt pt se sd s m t = Ok tt ->
  Forall (fun i => is_spent m i = false) (sfi_ids t) /\ NoDup (sfi_ids t).
Proof.
  unfold validate_v2_siafunds. intros Hv. apply bind_ok in Hv. destruct Hv as ([] & Hl & _). revert Hl. unfold sfi_ids.
  assert (G : forall l seen,
    (fix go (l : list sfi2) (seen : list id) {struct l} : R unit :=
       match l with
       | [] => Ok tt
       | i :: r =>
         let p := f2_parent i in
         let pid := sfe_id (p_val p) in
         if is_spent m pid then err 86
         else if existsb (beq pid) seen then err 87
         else
           do _ <- (if p_leaf p =? UNASSIGNED then validate_ephemeral_sf net s m p
                    else let '(u, sp) := mem_sf s p in if u then Ok tt else if sp then err 90 else err 91);
           do _ <- validate_policy H vt pt se sd s (t2_sighash t) (f2_policy i) (sfe_addr (p_val p)) 92 93;
           go r (pid :: seen)
       end) l seen = Ok tt ->
    Forall (fun i => is_spent m i = false) (map (fun i => sfe_id (p_val (f2_parent i))) l) /\
    NoDup (map (fun i => sfe_id (p_val (f2_parent i))) l) /\
    (forall i, In i (map (fun i => sfe_id (p_val (f2_parent i))) l) -> ~ In i seen)).
  { induction l as [|i r IH]; intros seen Hg; [repeat split; [constructor | constructor | intros ? []]|].
    cbv zeta in Hg. destruct (is_spent m (sfe_id (p_val (f2_parent i)))) eqn:Esp; [discriminate|].
    destruct (existsb (beq (sfe_id (p_val (f2_parent i)))) seen) eqn:Eex; [discriminate|].
    apply bind_ok in Hg. destruct Hg as (? & _ & Hg). apply bind_ok in Hg. destruct Hg as (? & _ & Hg).
    destruct (IH _ Hg) as (F & ND & NS). cbn [map]. split; [constructor; assumption|]. split.
    - constructor; [|exact ND]. intros Hin. apply (NS _ Hin). left. reflexivity.
    - intros j [<-|Hj]; [apply not_seen; exact Eex|]. intros Hin. apply (NS j Hj). right. exact Hin. }
  intros Hl. destruct (G _ _ Hl) as (F & ND & _). split; assumption.
Qed.

Lemma res_fresh s m revised l : forall resolved, check_resolutions H vt s m revised l resolved = Ok tt ->
  Forall (fun i => is_spent m i = false) (map (fun rs => v2_id (p_val (rs_parent rs))) l) /\
  NoDup (map (fun rs => v2_id (p_val (rs_parent rs))) l) /\
  (forall i, In i (map (fun rs => v2_id (p_val (rs_parent rs))) l) -> ~ In i resolved).
Proof.
  induction l as [|rs r IH]; intros resolved Hc; [repeat split; [constructor | constructor | intros ? []]|].
  cbn [check_resolutions] in Hc. apply bind_ok in Hc. destruct Hc as (? & Hp & Hc). apply bind_ok in Hc. destruct Hc as (? & _ & Hc).
  unfold validate_parent2 in Hp. destruct (is_spent m (v2_id (p_val (rs_parent rs)))) eqn:Esp; [discriminate|].
  destruct (existsb (beq (v2_id (p_val (rs_parent rs)))) revised); [discriminate|].
  destruct (existsb (beq (v2_id (p_val (rs_parent rs)))) resolved) eqn:Eex; [discriminate|].
  destruct (IH _ Hc) as (F & ND & NS). cbn [map]. split; [constructor; assumption|]. split.
  - constructor; [|exact ND]. intros Hin. apply (NS _ Hin). left. reflexivity.
  - intros j [<-|Hj]; [apply not_seen; exact Eex|]. intros Hin. apply (NS j Hj). right. exact Hin.
Qed.

Theorem validate_txn2_fresh s m t : validate_txn2 s m t = Ok tt ->
  Forall (fun i => is_spent m i = false) (sci_ids t) /\ NoDup (sci_ids t) /\
  Forall (fun i => is_spent m i = false) (sfi_ids t) /\ NoDup (sfi_ids t) /\
  Forall (fun i => is_spent m i = false) (res_ids t) /\ NoDup (res_ids t).
Proof.
  unfold Validate.validate_txn2. intros Hv. destruct (child s <? ln_v2_allow net); [discriminate|].
  apply bind_ok in Hv. destruct Hv as (? & _ & Hv). destruct (t2_weight t =? 0); [discriminate|]. destruct (MAXW <? t2_weight t); [discriminate|].
  apply bind_ok in Hv. destruct Hv as (? & Hsc & Hv). apply bind_ok in Hv. destruct Hv as (? & Hsf & Hv). apply bind_ok in Hv. destruct Hv as (? & Hfc & Hv).
  destruct x0, x1.
  destruct (v2_inputs_distinct_unspent_mature H net vt pt se sd s m t Hsc) as [F1 N1].
  destruct (sfi_fresh s m t Hsf) as [F2 N2].
  unfold validate_v2_contracts in Hfc. apply bind_ok in Hfc. destruct Hfc as (? & _ & Hfc). apply bind_ok in Hfc. destruct Hfc as (revised & _ & Hfc).
  destruct x2. destruct (res_fresh s m revised _ _ Hfc) as (F3 & N3 & _).
  repeat split; try assumption.
  unfold sci_ids. apply Forall_map. eapply Forall_impl; [|exact F1]. cbv beta. tauto.
Qed.

(* ---- a block: transactions are validated and applied one after the other on the same MidState ---- *)
Definition vstep (s : lstate) (m : mid) (t : txn2) : R mid := do _ <- validate_txn2 s m t; apply_txn2 s m t.

Theorem block_no_double_spend s (sel : txn2 -> list id) :
  (forall m t, validate_txn2 s m t = Ok tt -> Forall (fun i => is_spent m i = false) (sel t) /\ NoDup (sel t)) ->
  (forall m t m', apply_txn2 s m t = Ok m' -> ext m m' /\ Forall (fun i => is_spent m' i = true) (sel t)) ->
  forall txns m m', fold_r (vstep s) txns m = Ok m' ->
  NoDup (flat_map sel txns) /\ Forall (fun i => is_spent m i = false) (flat_map sel txns).
Proof.
  intros Hval Happ. induction txns as [|t r IH]; intros m m' E; cbn [fold_r flat_map] in *; [split; constructor|].
  apply bind_ok in E. destruct E as (m1 & E1 & E). unfold vstep in E1. apply bind_ok in E1. destruct E1 as ([] & V & A).
  destruct (Hval _ _ V) as [F0 N0]. destruct (Happ _ _ _ A) as [X S1]. destruct (IH _ _ E) as [Nr Fr].
  assert (Fr' : Forall (fun i => is_spent m i = false) (flat_map sel r)).
  { eapply Forall_impl; [|exact Fr]. cbv beta. intros i Hi. destruct (is_spent m i) eqn:Es; [|reflexivity].
    rewrite (spent_mono m m1 i X Es) in Hi. discriminate. }
  split; [|apply Forall_app; split; assumption].
  apply NoDup_app_iff'; auto. intros i Hin1 Hin2.
  pose proof (proj1 (Forall_forall _ _) S1 i Hin1) as A1. pose proof (proj1 (Forall_forall _ _) Fr i Hin2) as A2. congruence.
Qed.

Lemma Forall_app_l {A} (P : A -> Prop) l1 l2 : Forall P (l1 ++ l2) -> Forall P l1.
Proof. intros F. apply Forall_app in F. tauto. Qed.
Lemma Forall_app_r {A} (P : A -> Prop) l1 l2 : Forall P (l1 ++ l2) -> Forall P l2.
Proof. intros F. apply Forall_app in F. tauto. Qed.

(* an accepted block consumes no siacoin element, no siafund element and no v2 contract twice, across all of its v2
   transactions *)
Theorem v2_block_no_double_spend s b : validate_block H net vt pt se sd s b = Ok tt ->
  NoDup (flat_map sci_ids (b_v2txns b)) /\ NoDup (flat_map sfi_ids (b_v2txns b)) /\ NoDup (flat_map res_ids (b_v2txns b)).
Proof.
  unfold validate_block. intros Hv. apply bind_ok in Hv. destruct Hv as (? & _ & Hv). apply bind_ok in Hv. destruct Hv as (? & _ & Hv).
  destruct (b_is_v2 b && negb (b_commit_ok b)); [discriminate|].
  apply bind_ok in Hv. destruct Hv as (m1 & _ & Hv). apply bind_ok in Hv. destruct Hv as (m2 & Hf & _).
  change (fold_r (vstep s) (b_v2txns b) m1 = Ok m2) in Hf.
  split; [|split].
  - refine (proj1 (block_no_double_spend s sci_ids _ _ _ _ _ Hf)).
    + intros m t V. destruct (validate_txn2_fresh s m t V) as (A & B & _). split; assumption.
    + intros m t m' A. destruct (apply_txn2_spends s m t m' A) as [X F]. split; [exact X | exact (Forall_app_l _ _ _ F)].
  - refine (proj1 (block_no_double_spend s sfi_ids _ _ _ _ _ Hf)).
    + intros m t V. destruct (validate_txn2_fresh s m t V) as (_ & _ & A & B & _). split; assumption.
    + intros m t m' A. destruct (apply_txn2_spends s m t m' A) as [X F]. split; [exact X | exact (Forall_app_l _ _ _ (Forall_app_r _ _ _ F))].
  - refine (proj1 (block_no_double_spend s res_ids _ _ _ _ _ Hf)).
    + intros m t V. destruct (validate_txn2_fresh s m t V) as (_ & _ & _ & _ & A & B). split; assumption.
    + intros m t m' A. destruct (apply_txn2_spends s m t m' A) as [X F]. split; [exact X | exact (Forall_app_r _ _ _ (Forall_app_r _ _ _ F))].
Qed.
End Block.
