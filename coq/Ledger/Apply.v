(* consensus/application.go: ApplyTransaction, ApplyV2Transaction, MidState.ApplyBlock, and the state
   update of ApplyBlock (element store = the true forest's leaf list); ValidateBlock. *)
From Coq Require Import ZArith List Bool.
From Sia Require Import Prim.Result Prim.Tok Policy.Model Ledger.Types Ledger.Mid Ledger.Validate.
Import ListNotations.
Open Scope Z_scope.

Section Apply.
Variable H : bytes -> bytes.
Variable net : lnetwork.
Variable vt : vtab.
Variable pt : ptab.
Variable spec_entropy spec_ed25519 : bytes.

Notation child := Validate.child.
Definition maturity_height (s : lstate) : Z := (child s + ln_maturity_delay net) mod 2 ^ 64.

Definition claim_portion (pool claim_start value : Z) : R Z :=
  do d <- csub pool claim_start; do q <- cdiv64 d 10000; cmul64 q value.

Fixpoint fold_r {A} (f : mid -> A -> R mid) (l : list A) (m : mid) : R mid :=
  match l with [] => Ok m | x :: r => do m' <- f m x; fold_r f r m' end.

Definition apply_txn1 (s : lstate) (m : mid) (t : txn1) (ts : supp1) : R mid :=
  let txid := t1_id t in
  do m <- fold_r (fun m i => match sc_element m ts (i1_parent i) with
                             | None => Panic PMissing
                             | Some (e, lf) => spend_sce m e lf txid end) (t1_sci t) m;
  do m <- fold_r (fun m x => create_sce m (fst x) (snd x) 0) (t1_sco t) m;
  do m <- fold_r (fun m i => match sf_element m ts (f1_parent i) with
                             | None => Panic PMissing
                             | Some (e, lf) =>
                               do c <- claim_portion (m_pool m) (sfe_claim e) (sfe_value e);
                               do m1 <- spend_sfe m e lf txid;
                               create_sce m1 (f1_claim_id i) {| sco_value := c; sco_addr := f1_claim_addr i |} (maturity_height s)
                             end) (t1_sfi t) m;
  do m <- fold_r (fun m x => create_sfe m (fst x) (fst (snd x)) (snd (snd x))) (t1_sfo t) m;
  do m <- fold_r (fun m x => let '(i, fc, _) := x in create_fce m i fc (fc_tax net s (fc_payout fc))) (t1_fc t) m;
  do m <- fold_r (fun m rv => match fc_element m ts (r1_parent rv) with
                              | None => Panic PMissing
                              | Some (e, lf) => revise_fce m e lf (r1_fc rv) end) (t1_rev t) m;
  do m <- fold_r (fun m sp => match fc_element m ts (s1_parent sp) with
                              | None => Panic PMissing
                              | Some (e, lf) =>
                                do m1 <- resolve_fce m e lf true txid;
                                fold_r (fun m io => create_sce m (fst io) (snd io) (maturity_height s))
                                       (combine (s1_valid_ids sp) (fc_valid (fce_fc e))) m1
                              end) (t1_sp t) m;
  if ln_foundation_height net <=? s_height s then
    Ok (fold_left (fun m a => match a with ArbUpdate p f => with_foundation m p f | ArbBadUpdate => m | ArbOther => m end) (t1_arb t) m)
  else Ok m.

Definition missed_host_output (fc : fc2) : sco := {| sco_value := c_missed_host fc; sco_addr := sco_addr (c_host fc) |}.

Definition apply_txn2 (s : lstate) (m : mid) (t : txn2) : R mid :=
  let txid := t2_id t in
  do m <- fold_r (fun m i => spend_sce m (p_val (i2_parent i)) (p_leaf (i2_parent i)) txid) (t2_sci t) m;
  do m <- fold_r (fun m x => create_sce m (fst x) (snd x) 0) (t2_sco t) m;
  do m <- fold_r (fun m i =>
                    let e := p_val (f2_parent i) in
                    do m1 <- spend_sfe m e (p_leaf (f2_parent i)) txid;
                    do c <- claim_portion (m_pool m1) (sfe_claim e) (sfe_value e);
                    create_sce m1 (f2_claim_id i) {| sco_value := c; sco_addr := f2_claim_addr i |} (maturity_height s)) (t2_sfi t) m;
  do m <- fold_r (fun m x => create_sfe m (fst x) (fst (snd x)) (snd (snd x))) (t2_sfo t) m;
  do m <- fold_r (fun m x => create_v2 m (fst x) (snd x)) (t2_fc t) m;
  do m <- fold_r (fun m rv => revise_v2 m (p_val (r2_parent rv)) (p_leaf (r2_parent rv)) (r2_rev rv)) (t2_rev t) m;
  do m <- fold_r (fun m rs =>
                    let e := p_val (rs_parent rs) in
                    let fc := v2_fc e in
                    let kind := match rs_res rs with RRenewal _ => 0 | RProof _ => 1 | RExpiration => 2 end in
                    do m1 <- resolve_v2 m e (p_leaf (rs_parent rs)) kind txid;
                    do m2 <- match rs_res rs with RRenewal rn => create_v2 m1 (rn_new_id rn) (rn_new rn) | _ => Ok m1 end;
                    let '(renter, host) := match rs_res rs with
                                           | RRenewal rn => (rn_final_renter rn, rn_final_host rn)
                                           | RProof _ => (c_renter fc, c_host fc)
                                           | RExpiration => (c_renter fc, missed_host_output fc)
                                           end in
                    do m3 <- create_sce m2 (rs_renter_id rs) renter (maturity_height s);
                    create_sce m3 (rs_host_id rs) host (maturity_height s)) (t2_res t) m;
  let m := fold_left (fun m a => create_att m (at_id a)) (t2_att t) m in
  match t2_new_foundation t with
  | None => Ok m
  | Some a => Ok (with_foundation m a (if beq a void_addr then m_fmgmt m else a))
  end.

Fixpoint apply_txns1 (s : lstate) (m : mid) (ts : list txn1) (us : list supp1) : R mid :=
  match ts with
  | [] => Ok m
  | t :: r => match us with
              | u :: ur => do m' <- apply_txn1 s m t u; apply_txns1 s m' r ur
              | [] => Panic PIndex
              end
  end.

(* MidState.ApplyBlock *)
Definition mid_apply_block (s : lstate) (m : mid) (b : lblock) : R mid :=
  if (ln_v2_require net <=? child s) && (negb (length (b_supp b) =? 0)%nat || negb (length (b_expiring b) =? 0)%nat) then Panic PMissing
  else
  do m <- apply_txns1 s m (b_txns b) (b_supp b);
  do m <- fold_r (apply_txn2 s) (b_v2txns b) m;
  do m <- fold_r (fun m p => create_sce m (fst p) (snd p) (maturity_height s)) (b_payouts b) m;
  do sub <- foundation_subsidy net s;
  do m <- match sub with Some o => create_sce m (b_foundation_id b) o (maturity_height s) | None => Ok m end;
  fold_r (fun m (pe : pres fce1 * list id) =>
            let '(p, ids) := pe in
            if is_spent m (fce_id (p_val p)) then Ok m
            else do m1 <- resolve_fce m (p_val p) (p_leaf p) false (b_id b);
                 fold_r (fun m io => create_sce m (fst io) (snd io) (maturity_height s)) (combine ids (fc_missed (fce_fc (p_val p)))) m1)
         (b_expiring b) m.

(* ValidateBlock *)
Fixpoint validate_txns1 (s : lstate) (m : mid) (ts : list txn1) (us : list supp1) : R mid :=
  match ts with
  | [] => Ok m
  | t :: r => match us with
              | u :: ur =>
                do _ <- validate_txn1 H net vt spec_entropy spec_ed25519 s m t u;
                do m' <- apply_txn1 s m t u; validate_txns1 s m' r ur
              | [] => Panic PIndex
              end
  end.
Definition validate_block (s : lstate) (b : lblock) : R unit :=
  do _ <- validate_orphan net s b;
  do _ <- validate_supplement net s b;
  if b_is_v2 b && negb (b_commit_ok b) then err 18
  else
  do m <- validate_txns1 s (new_mid s) (b_txns b) (b_supp b);
  do _ <- fold_r (fun m t => do _ <- validate_txn2 H net vt pt spec_entropy spec_ed25519 s m t; apply_txn2 s m t) (b_v2txns b) m;
  Ok tt.

(* ApplyBlock: the new state. Elements with an assigned leaf index are rewritten in place, the
   others are appended, in the order siacoin, siafund, v1 contract, v2 contract, attestation, chain index *)
Definition leaf_updates (s : lstate) (m : mid) (b : lblock) : list (Z * leaf) :=
  map (fun d => (d_sc_leaf d, {| l_elem := ESC (d_sce d); l_spent := d_sc_spent d |})) (m_sces m)
  ++ map (fun d => (d_sf_leaf d, {| l_elem := ESF (d_sfe d); l_spent := d_sf_spent d |})) (m_sfes m)
  ++ map (fun d => (d_fc_leaf d, {| l_elem := EFC (match d_fc_rev d with Some r => {| fce_id := fce_id (d_fce d); fce_fc := r |} | None => d_fce d end);
                                   l_spent := d_fc_resolved d |})) (m_fces m)
  ++ map (fun d => (d_v2_leaf d, {| l_elem := EV2 (match d_v2_rev d with Some r => {| v2_id := v2_id (d_v2 d); v2_fc := r |} | None => d_v2 d end);
                                   l_spent := match d_v2_res d with Some _ => true | None => false end |})) (m_v2fces m)
  ++ map (fun i => (UNASSIGNED, {| l_elem := EAT i; l_spent := false |})) (m_aes m)
  ++ [(UNASSIGNED, {| l_elem := ECI (b_id b) (child s); l_spent := false |})].

Definition apply_leaves (ls : list leaf) (ups : list (Z * leaf)) : list leaf :=
  let updated := fold_left (fun ls u => if fst u =? UNASSIGNED then ls else Mid.set_nth (Z.to_nat (fst u)) (snd u) ls) ups ls in
  updated ++ map snd (filter (fun u => fst u =? UNASSIGNED) ups).

Definition apply_block (s : lstate) (b : lblock) : R (lstate * mid) :=
  do m <- mid_apply_block s (new_mid s) b;
  Ok ({| s_height := child s; s_index_id := b_id b; s_pool := m_pool m; s_found_subsidy := m_fsub m; s_found_mgmt := m_fmgmt m;
         s_median := b_next_median b; s_leaves := apply_leaves (s_leaves s) (leaf_updates s m b) |}, m).

(* the ledger sum of C01: unspent siacoin outputs + unresolved contracts (v1 valid sum; v2 renter + host)
   + unclaimed pool share is accounted separately by the caller *)
Definition leaf_value (l : leaf) : Z :=
  if l_spent l then 0 else
  match l_elem l with
  | ESC e => sco_value (sce_out e)
  | EFC e => fold_left (fun a o => a + sco_value o) (fc_valid (fce_fc e)) 0
  | EV2 e => sco_value (c_renter (v2_fc e)) + sco_value (c_host (v2_fc e))
  | _ => 0
  end.
Definition siacoin_total (s : lstate) : Z := fold_left (fun a l => a + leaf_value l) (s_leaves s) 0.
Definition siafund_total (s : lstate) : Z :=
  fold_left (fun a l => if l_spent l then a else match l_elem l with ESF e => a + sfe_value e | _ => a end) (s_leaves s) 0.
End Apply.
