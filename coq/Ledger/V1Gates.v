(* v1 inputs: what validation guarantees about each accepted siacoin input (C03, C08). *)
From Coq Require Import ZArith List Bool Lia.
From Sia Require Import Prim.Result Prim.Tok Policy.Model Ledger.Types Ledger.Mid Ledger.Validate Ledger.Apply Ledger.Proofs.
Import ListNotations.
Open Scope Z_scope.

Section V1.
Variable H : bytes -> bytes.
Variable net : lnetwork.
Variable vt : vtab.
Variable se sd : bytes.

(* every accepted v1 siacoin input: its timelock has passed, it is not yet spent in this block, its parent is known
   (from the block so far or the supplement), the revealed unlock conditions hash to the parent's address, and the parent
   has matured *)
Lemma in_sci1_gates s m ts l : forall acc r, in_sci1 s m ts l acc = Ok r ->
  Forall (fun i => i1_timelock i <= child s /\ is_spent m (i1_parent i) = false /\
                   exists p lf, sc_element m ts (i1_parent i) = Some (p, lf) /\ i1_uh i = sco_addr (sce_out p) /\ sce_maturity p <= child s) l.
Proof.
  induction l as [|i l IH]; intros acc r E; [constructor|]. cbn [in_sci1] in E.
  destruct (Z.ltb_spec (child s) (i1_timelock i)); [discriminate|]. destruct (is_spent m (i1_parent i)) eqn:Sp; [discriminate|].
  destruct (sc_element m ts (i1_parent i)) as [[p lf]|] eqn:Q; [|discriminate].
  destruct (beq (i1_uh i) (sco_addr (sce_out p))) eqn:B; [|discriminate]. cbn [negb] in E.
  destruct (Z.ltb_spec (child s) (sce_maturity p)); [discriminate|].
  apply bind_ok in E. destruct E as (a & _ & E). constructor; [|eapply IH; exact E].
  split; [lia|]. split; [exact Sp|]. exists p, lf. split; [exact Q|]. split; [apply beq_eq; exact B | lia].
Qed.

Theorem v1_inputs_gated s m t ts : validate_txn1 H net vt se sd s m t ts = Ok tt ->
  Forall (fun i => i1_timelock i <= child s /\ is_spent m (i1_parent i) = false /\
                   exists p lf, sc_element m ts (i1_parent i) = Some (p, lf) /\ i1_uh i = sco_addr (sce_out p) /\ sce_maturity p <= child s) (t1_sci t).
Proof.
  unfold validate_txn1. intros Hv. destruct (ln_v2_require net <=? child s); [discriminate|].
  apply bind_ok in Hv. destruct Hv as (? & _ & Hv). destruct (MAXW <? t1_weight t); [discriminate|].
  apply bind_ok in Hv. destruct Hv as (? & _ & Hv). apply bind_ok in Hv. destruct Hv as (? & Hsc & _).
  unfold validate_siacoins in Hsc. apply bind_ok in Hsc. destruct Hsc as (insum & Hin & _).
  exact (in_sci1_gates s m ts _ _ _ Hin).
Qed.
End V1.
