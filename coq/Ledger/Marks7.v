(* C02: applying an accepted block marks the siafund leaves it consumed as spent. *)
From Coq Require Import ZArith List Bool Lia.
From Sia Require Import Prim.Result Prim.Tok Policy.Model Ledger.Types Ledger.Mid Ledger.Validate Ledger.Apply Ledger.Proofs Ledger.Spends Ledger.Persist.
From Sia Require Import Ledger.Marks1 Ledger.Marks3 Ledger.Marks5 Ledger.Marks6.
Import ListNotations.
Open Scope Z_scope.

Section Marks7.
Variable H : bytes -> bytes.
Variable net : lnetwork.
Variable vt : vtab.
Variable pt : ptab.
Variable se sd : bytes.
Variable s : lstate.
Variable kind_of : id -> kind.
Variable id0 : id.
Variable lf0 : Z.
Hypothesis K0 : kind_of id0 = KSF.
Notation Good := (Marks5.Good kind_of id0 lf0).
Notation TxOK := (Marks6.TxOK kind_of id0 lf0).

Lemma txns_good txns : forall m m', Forall TxOK txns -> fold_r (apply_txn2 net s) txns m = Ok m' -> Good m -> Good m'.
Proof. intros m m' F E G. refine (Marks6.fold_r_gen _ _ _ _ _ _ _ F E G). intros m0 t m0' Ot Ex. exact (Marks6.apply_txn2_good kind_of id0 lf0 K0 net s m0 t m0' Ot Ex). Qed.

Lemma txns_spent txns t0 : In t0 txns -> In id0 (sfi_ids t0) -> forall m m', fold_r (apply_txn2 net s) txns m = Ok m' -> is_spent m' id0 = true.
Proof.
  intros Hin Hid. induction txns as [|t r IH]; intros m m' E; [destruct Hin|]. cbn [fold_r] in E. apply bind_ok in E. destruct E as (m1 & E1 & E).
  destruct Hin as [->|Hin]; [|apply (IH Hin m1 m' E)].
  destruct (apply_txn2_spends net s m t0 m1 E1) as [_ F]. rewrite Forall_forall in F.
  assert (S1 : is_spent m1 id0 = true) by (apply F; apply in_or_app; right; apply in_or_app; left; exact Hid).
  assert (X : ext m1 m').
  { refine (fold_r_ext _ _ _ _ _ E). intros m0 x m0' Ex. destruct (apply_txn2_spends net s m0 x m0' Ex) as [X _]. exact X. }
  apply (spent_mono m1 m' id0 X S1).
Qed.

(* every update of a siacoin leaf's index marks it spent *)
Lemma leaf_updates_sf m b k e : Inv s m -> nth_error (s_leaves s) k = Some {| l_elem := ESF e; l_spent := false |} ->
  forall u, In u (leaf_updates s m b) -> fst u <> UNASSIGNED -> Z.to_nat (fst u) = k -> l_spent (snd u) = true.
Proof.
  intros (I1 & I2 & I3 & I4) N0 u Hin Ne Ek. unfold leaf_updates in Hin. rewrite I3 in Hin. cbn [map app] in Hin.
  rewrite !in_app_iff in Hin. destruct Hin as [Hin|[Hin|[Hin|[Hin|Hin]]]].
  - apply in_map_iff in Hin. destruct Hin as (d & <- & Hd). cbn [fst snd l_spent] in *. rewrite Forall_forall in I1. destruct (I1 d Hd) as [U|T]; [contradiction | exact T].
  - apply in_map_iff in Hin. destruct Hin as (d & <- & Hd). cbn [fst snd l_spent] in *. rewrite Forall_forall in I2. destruct (I2 d Hd) as [U|T]; [contradiction | exact T].
  - apply in_map_iff in Hin. destruct Hin as (d & <- & Hd). cbn [fst snd l_spent] in *. rewrite Forall_forall in I4. destruct (I4 d Hd) as [U|[T|(e' & Lv)]]; [contradiction | destruct (d_v2_res d); [reflexivity | contradiction] |].
    rewrite Ek in Lv. rewrite N0 in Lv. discriminate.
  - apply in_map_iff in Hin. destruct Hin as (i & <- & _). cbn [fst] in Ne. contradiction.
  - destruct Hin as [<-|[]]. cbn [fst] in Ne. contradiction.
Qed.

Lemma mem_sf_kind p : fst (mem_sf s p) = true -> exists x, nth_error (s_leaves s) (Z.to_nat (p_leaf p)) = Some {| l_elem := ESF x; l_spent := false |}.
Proof.
  unfold mem_sf, mem_gen, leaf_at.
  destruct ((0 <=? p_leaf p) && (p_leaf p <? Z.of_nat (length (s_leaves s)))); [|cbn; discriminate].
  destruct (nth_error (s_leaves s) (Z.to_nat (p_leaf p))) as [[el sp]|]; [|cbn; discriminate].
  destruct (p_proof_ok p); [|cbn; discriminate]. cbn [andb l_elem l_spent].
  destruct el; try (cbn; discriminate). destruct (sfe_eqb e (p_val p)); [|cbn; discriminate].
  cbn [fst]. destruct sp; [discriminate|]. intros _. exists e. reflexivity.
Qed.

(* an accepted v2-only block, applied: the leaf of every siafund input with an assigned leaf index is spent afterwards *)
Theorem consumed_sf_leaf_marked b s' m t0 i0 :
  validate_block H net vt pt se sd s b = Ok tt -> apply_block net s b = Ok (s', m) -> b_txns b = [] -> b_expiring b = [] ->
  Forall TxOK (b_v2txns b) ->
  Forall (fun p : id * sco => kind_of (fst p) = KSC) (b_payouts b) -> kind_of (b_foundation_id b) = KSC ->
  In t0 (b_v2txns b) -> In i0 (t2_sfi t0) -> sfe_id (p_val (f2_parent i0)) = id0 -> p_leaf (f2_parent i0) = lf0 -> lf0 <> UNASSIGNED ->
  SpentAt (s_leaves s') (Z.to_nat lf0).
Proof.
  intros V A T0 X0 Otx Opay Kf Ht0 Hi0 Eid Elf Nun.
  assert (Mem : exists x, nth_error (s_leaves s) (Z.to_nat lf0) = Some {| l_elem := ESF x; l_spent := false |}).
  { pose proof V as V'. unfold validate_block in V'. apply bind_ok in V'. destruct V' as (? & _ & V'). apply bind_ok in V'. destruct V' as (? & _ & V').
    destruct (b_is_v2 b && negb (b_commit_ok b)); [discriminate|]. rewrite T0 in V'. cbn [validate_txns1] in V'.
    apply bind_ok in V'. destruct V' as (m0 & E0 & V'). inversion E0; subst m0. apply bind_ok in V'. destruct V' as (m2 & Hf & _).
    change (fold_r (vstep H net vt pt se sd s) (b_v2txns b) (new_mid s) = Ok m2) in Hf.
    clear -Hf Ht0 Hi0 Elf Nun. revert Hf. generalize (new_mid s) as ma. induction (b_v2txns b) as [|t r IH]; intros ma Hf; [destruct Ht0|].
    cbn [fold_r] in Hf. apply bind_ok in Hf. destruct Hf as (mb & E1 & Hf). destruct Ht0 as [->|Hin]; [|apply (IH Hin mb Hf)].
    unfold vstep in E1. apply bind_ok in E1. destruct E1 as ([] & Vt & _).
    pose proof (validate_sfi_mem H net vt pt se sd s ma t0 Vt) as F. rewrite Forall_forall in F.
    rewrite <- Elf. apply mem_sf_kind. apply (F i0 Hi0). rewrite Elf. exact Nun. }
  destruct Mem as (x0 & Mem).
  unfold validate_block in V. apply bind_ok in V. destruct V as (? & _ & V). apply bind_ok in V. destruct V as (? & _ & V).
  destruct (b_is_v2 b && negb (b_commit_ok b)); [discriminate|]. rewrite T0 in V. cbn [validate_txns1] in V.
  apply bind_ok in V. destruct V as (m0 & E0 & V). inversion E0; subst m0. clear E0. apply bind_ok in V. destruct V as (m2 & Hf & _).
  change (fold_r (vstep H net vt pt se sd s) (b_v2txns b) (new_mid s) = Ok m2) in Hf.
  destruct (block_inv H net vt pt se sd s _ _ _ Hf (inv_new s)) as [Ap I2].
  assert (G0 : Good (new_mid s)) by (split; [apply wk_new | intros Sp; unfold is_spent, spent_in, new_mid in Sp; cbn in Sp; discriminate]).
  pose proof (txns_good _ _ _ Otx Ap G0) as G2.
  assert (S2 : is_spent m2 id0 = true).
  { apply (txns_spent (b_v2txns b) t0 Ht0) with (m := new_mid s); [|exact Ap]. unfold sfi_ids. apply in_map_iff. exists i0. split; [exact Eid | exact Hi0]. }
  unfold apply_block in A. apply bind_ok in A. destruct A as (mf & Am & A). inversion A; subst s' m. clear A. cbn [s_leaves].
  unfold mid_apply_block in Am. destruct ((ln_v2_require net <=? child s) && _); [discriminate|]. rewrite T0, X0 in Am. cbn [apply_txns1 bind] in Am.
  rewrite Ap in Am. cbn [bind] in Am. apply bind_ok in Am. destruct Am as (m3 & E3 & Am). apply bind_ok in Am. destruct Am as (sub & _ & Am).
  apply bind_ok in Am. destruct Am as (m4 & E4 & Am). cbn [fold_r] in Am. inversion Am; subst mf. clear Am.
  assert (I3 : Inv s m3) by (refine (fold_r_inv s (fun _ => True) _ _ _ _ _ (Forall_true _) E3 I2); intros ? ? ? _ Ex; exact (create_sce_inv s _ _ _ _ _ Ex)).
  assert (I4 : Inv s m4) by (destruct sub; [apply (create_sce_inv s _ _ _ _ _ E4 I3) | inversion E4; subst; exact I3]).
  assert (GS3 : Good m3 /\ is_spent m3 id0 = true).
  { clear E4 I3 I4. revert E3 G2 S2. generalize m2 as ma. induction (b_payouts b) as [|p r IH]; intros ma E3 Ga Sa; cbn [fold_r] in E3; [inversion E3 as [Eq]; rewrite <- Eq; split; assumption|].
    pose proof (Forall_inv Opay) as Kp. pose proof (Forall_inv_tail Opay) as Or. apply bind_ok in E3. destruct E3 as (mb & Eb & E3). apply (IH Or mb E3).
    - exact (Marks6.create_sce_good kind_of id0 lf0 K0 _ _ _ _ _ Kp Eb Ga).
    - rewrite <- Sa. apply (Marks5.is_spent_same id0). exact (create_sce_sp _ _ _ _ _ Eb). }
  destruct GS3 as [G3 S3].
  assert (GS4 : Good m4 /\ is_spent m4 id0 = true).
  { destruct sub; [|inversion E4 as [Eq]; rewrite <- Eq; split; assumption]. split; [exact (Marks6.create_sce_good kind_of id0 lf0 K0 _ _ _ _ _ Kf E4 G3)|].
    rewrite <- S3. apply (Marks5.is_spent_same id0). exact (create_sce_sp _ _ _ _ _ E4). }
  destruct GS4 as [[_ T4] S4]. destruct (T4 S4) as (k & d & _ & Nd & Ld & Sd).
  apply apply_leaves_marks.
  - apply nth_error_Some. congruence.
  - right. exists (d_sf_leaf d, {| l_elem := ESF (d_sfe d); l_spent := d_sf_spent d |}). cbn [fst snd l_spent]. rewrite Ld. split; [|auto].
    unfold leaf_updates. apply in_or_app. right. apply in_or_app. left. apply in_map_iff. exists d. split; [rewrite Ld; reflexivity | eapply nth_error_In; exact Nd].
  - apply (leaf_updates_sf m4 b _ _ I4 Mem).
Qed.
End Marks7.

Section NeverSF.
Variable H : bytes -> bytes.
Variable net : lnetwork.
Variable vt : vtab.
Variable pt : ptab.
Variable se sd : bytes.
(* a siafund element consumed by an accepted block is never again accepted as a parent by a later block of the chain *)
Theorem consumed_sf_never_again (kind_of : id -> kind) (id0 : id) (lf0 : Z) s b s1 m t0 i0 bs s' :
  kind_of id0 = KSF ->
  validate_block H net vt pt se sd s b = Ok tt -> apply_block net s b = Ok (s1, m) -> b_txns b = [] -> b_expiring b = [] ->
  Forall (Marks6.TxOK kind_of id0 lf0) (b_v2txns b) ->
  Forall (fun p : id * sco => kind_of (fst p) = KSC) (b_payouts b) -> kind_of (b_foundation_id b) = KSC ->
  In t0 (b_v2txns b) -> In i0 (t2_sfi t0) -> sfe_id (p_val (f2_parent i0)) = id0 -> p_leaf (f2_parent i0) = lf0 -> lf0 <> UNASSIGNED ->
  chain H net vt pt se sd s1 bs s' ->
  forall mm t, validate_txn2 H net vt pt se sd s' mm t = Ok tt ->
    (forall i, In i (t2_sci t) -> p_leaf (i2_parent i) <> UNASSIGNED -> Z.to_nat (p_leaf (i2_parent i)) <> Z.to_nat lf0) /\
    (forall i, In i (t2_sfi t) -> p_leaf (f2_parent i) <> UNASSIGNED -> Z.to_nat (p_leaf (f2_parent i)) <> Z.to_nat lf0) /\
    (forall rv, In rv (t2_rev t) -> Z.to_nat (p_leaf (r2_parent rv)) <> Z.to_nat lf0) /\
    (forall rs, In rs (t2_res t) -> Z.to_nat (p_leaf (rs_parent rs)) <> Z.to_nat lf0).
Proof.
  intros K0 V A T0 X0 Otx Opay Kf Ht0 Hi0 Eid Elf Nun C mm t Vt.
  pose proof (consumed_sf_leaf_marked H net vt pt se sd s kind_of id0 lf0 K0 b s1 m t0 i0 V A T0 X0 Otx Opay Kf Ht0 Hi0 Eid Elf Nun) as S1.
  split; [|split].
  - exact (chain_no_respend H net vt pt se sd s1 bs s' _ C S1 mm t Vt).
  - exact (chain_no_respend_sf H net vt pt se sd s1 bs s' _ C S1 mm t Vt).
  - exact (chain_no_rerevise H net vt pt se sd s1 bs s' _ C S1 mm t Vt).
Qed.
End NeverSF.
