(* C06: for an accepted block the hypothesis of the revert theorem holds -- every diff with an assigned leaf records exactly
   the element that leaf held -- so undoing the block restores the element store. (v2-only blocks.) *)
From Coq Require Import ZArith List Bool Lia.
From Sia Require Import Prim.Result Prim.Tok Policy.Model Ledger.Types Ledger.Mid Ledger.Validate Ledger.Apply Ledger.Proofs Ledger.Spends Ledger.Persist Ledger.Revert.
Import ListNotations.
Open Scope Z_scope.

(* ---- the boolean equalities decide equality ---- *)
Lemma sco_eqb_eq a b : sco_eqb a b = true -> a = b.
Proof.
  unfold sco_eqb. destruct a, b. cbn. intros E. apply andb_true_iff in E. destruct E as [E1 E2]. apply Z.eqb_eq in E1. apply beq_eq in E2. subst. reflexivity.
Qed.
Ltac split_ands := repeat match goal with H : _ && _ = true |- _ => apply andb_true_iff in H; destruct H end.
Ltac eqs := repeat match goal with
         | H : (_ =? _) = true |- _ => apply Z.eqb_eq in H
         | H : beq _ _ = true |- _ => apply beq_eq in H
         | H : sco_eqb _ _ = true |- _ => apply sco_eqb_eq in H
         end.
Lemma sfe_eqb_eq a b : sfe_eqb a b = true -> a = b.
Proof. unfold sfe_eqb. destruct a, b. cbn. intros E. split_ands. eqs. subst. reflexivity. Qed.
Lemma fce2_eqb_eq a b : fce2_eqb a b = true -> a = b.
Proof.
  unfold fce2_eqb, fc2_eqb. destruct a as [ai af], b as [bi bf]. destruct af, bf. cbn. intros E. split_ands. eqs. subst. reflexivity.
Qed.

Section RevertOk.
Variable H : bytes -> bytes.
Variable net : lnetwork.
Variable vt : vtab.
Variable pt : ptab.
Variable se sd : bytes.
Variable s : lstate.

Definition holds (j : Z) (e : elem) : Prop := nth_error (s_leaves s) (Z.to_nat j) = Some {| l_elem := e; l_spent := false |}.
Definition Qsc (d : sced) : Prop := d_sc_leaf d = UNASSIGNED \/ holds (d_sc_leaf d) (ESC (d_sce d)).
Definition Qsf (d : sfed) : Prop := d_sf_leaf d = UNASSIGNED \/ holds (d_sf_leaf d) (ESF (d_sfe d)).
Definition Qv2 (d : v2fced) : Prop := d_v2_leaf d = UNASSIGNED \/ (d_v2_created d = false /\ holds (d_v2_leaf d) (EV2 (d_v2 d))).
Definition QInv (m : mid) : Prop := Forall Qsc (m_sces m) /\ Forall Qsf (m_sfes m) /\ m_fces m = [] /\ Forall Qv2 (m_v2fces m).

Lemma q_new : QInv (new_mid s). Proof. unfold QInv, new_mid. cbn. repeat split; constructor. Qed.

Lemma create_sce_q m i o mt m' : create_sce m i o mt = Ok m' -> QInv m -> QInv m'.
Proof.
  unfold create_sce. intros E (I1 & I2 & I3 & I4). apply bind_ok in E. destruct E as ([k fresh] & _ & E). inversion E; subst. clear E.
  unfold QInv, with_sces. cbn. repeat split; try assumption. apply put_forall; [exact I1|]. left. reflexivity.
Qed.
Lemma spend_sce_q m e lf tx m' : (lf = UNASSIGNED \/ holds lf (ESC e)) -> spend_sce m e lf tx = Ok m' -> QInv m -> QInv m'.
Proof.
  unfold spend_sce. intros Hl E (I1 & I2 & I3 & I4). apply bind_ok in E. destruct E as ([k fresh] & _ & E). inversion E; subst. clear E.
  unfold QInv, with_sces. cbn. repeat split; try assumption. apply put_forall; [exact I1|]. exact Hl.
Qed.
Lemma create_sfe_q m i v a m' : create_sfe m i v a = Ok m' -> QInv m -> QInv m'.
Proof.
  unfold create_sfe. intros E (I1 & I2 & I3 & I4). apply bind_ok in E. destruct E as ([k fresh] & _ & E). inversion E; subst. clear E.
  unfold QInv, with_sfes. cbn. repeat split; try assumption. apply put_forall; [exact I2|]. left. reflexivity.
Qed.
Lemma spend_sfe_q m e lf tx m' : (lf = UNASSIGNED \/ holds lf (ESF e)) -> spend_sfe m e lf tx = Ok m' -> QInv m -> QInv m'.
Proof.
  unfold spend_sfe. intros Hl E (I1 & I2 & I3 & I4). apply bind_ok in E. destruct E as ([k fresh] & _ & E). inversion E; subst. clear E.
  unfold QInv, with_sfes. cbn. repeat split; try assumption. apply put_forall; [exact I2|]. exact Hl.
Qed.
Lemma create_v2_q m i fc m' : create_v2 m i fc = Ok m' -> QInv m -> QInv m'.
Proof.
  unfold create_v2. intros E (I1 & I2 & I3 & I4). apply bind_ok in E. destruct E as ([k fresh] & _ & E).
  apply bind_ok in E. destruct E as (tax & _ & E). apply bind_ok in E. destruct E as (pool & _ & E). inversion E; subst. clear E.
  unfold QInv, with_v2fces. cbn. repeat split; try assumption. apply put_forall; [exact I4|]. left. reflexivity.
Qed.
Lemma resolve_v2_q m e lf kind tx m' : holds lf (EV2 e) -> resolve_v2 m e lf kind tx = Ok m' -> QInv m -> QInv m'.
Proof.
  unfold resolve_v2. intros Hl E (I1 & I2 & I3 & I4). apply bind_ok in E. destruct E as ([k fresh] & _ & E).
  destruct (d_v2_created (nth k (m_v2fces m) dummy_v2fced)); [discriminate|]. inversion E; subst. clear E.
  unfold QInv, with_v2fces. cbn. repeat split; try assumption. apply put_forall; [exact I4|]. right. split; [reflexivity | exact Hl].
Qed.
Lemma revise_v2_q m e lf rev m' : holds lf (EV2 e) -> revise_v2 m e lf rev = Ok m' -> QInv m -> QInv m'.
Proof.
  unfold revise_v2. intros Hl E (I1 & I2 & I3 & I4). apply bind_ok in E. destruct E as ([k fresh] & Sl & E). inversion E; subst m'. clear E.
  unfold QInv, with_v2fces. cbn. repeat split; try assumption. apply put_forall; [exact I4|].
  destruct fresh.
  - assert (k = length (m_v2fces m)) by (unfold slot in Sl; destruct (elem_idx m (v2_id e)) as [k'|]; [destruct (k' <? length (m_v2fces m))%nat; inversion Sl | inversion Sl; reflexivity]).
    subst k. rewrite nth_overflow by lia. cbn. right. split; [reflexivity | exact Hl].
  - pose proof (nth_forall Qv2 _ k dummy_v2fced I4 (slot_old _ _ _ _ Sl)) as Po. set (old := nth k (m_v2fces m) dummy_v2fced) in *.
    destruct (d_v2_created old) eqn:Cr.
    + left. cbn. destruct Po as [U|[C _]]; [exact U | congruence].
    + destruct (d_v2_rev old).
      * destruct Po as [U|[C Hh]]; [left; exact U | right; split; [reflexivity | exact Hh]].
      * right. split; [reflexivity | exact Hl].
Qed.

Lemma fold_q {A} (P : A -> Prop) (f : mid -> A -> R mid) :
  (forall m x m', P x -> f m x = Ok m' -> QInv m -> QInv m') -> forall l m m', Forall P l -> fold_r f l m = Ok m' -> QInv m -> QInv m'.
Proof.
  intros Hf. induction l as [|x r IH]; intros m m' F E I; cbn [fold_r] in E; [inversion E; subst; exact I|].
  inversion F; subst. apply bind_ok in E. destruct E as (m1 & E1 & E). apply (IH m1 m'); [assumption | exact E | eapply Hf; eassumption].
Qed.

(* what validation establishes about the presented parents of one transaction *)
Definition Presented (t : txn2) : Prop :=
  Forall (fun i => p_leaf (i2_parent i) = UNASSIGNED \/ holds (p_leaf (i2_parent i)) (ESC (p_val (i2_parent i)))) (t2_sci t) /\
  Forall (fun i => p_leaf (f2_parent i) = UNASSIGNED \/ holds (p_leaf (f2_parent i)) (ESF (p_val (f2_parent i)))) (t2_sfi t) /\
  Forall (fun rv => holds (p_leaf (r2_parent rv)) (EV2 (p_val (r2_parent rv)))) (t2_rev t) /\
  Forall (fun rs => holds (p_leaf (rs_parent rs)) (EV2 (p_val (rs_parent rs)))) (t2_res t).

Lemma apply_txn2_q m t m' : Presented t -> apply_txn2 net s m t = Ok m' -> QInv m -> QInv m'.
Proof.
  intros (P1 & P3 & P6 & P7) E I. unfold Apply.apply_txn2 in E.
  apply bind_ok in E. destruct E as (m1 & E1 & E). apply bind_ok in E. destruct E as (m2 & E2 & E).
  apply bind_ok in E. destruct E as (m3 & E3 & E). apply bind_ok in E. destruct E as (m4 & E4 & E).
  apply bind_ok in E. destruct E as (m5 & E5 & E). apply bind_ok in E. destruct E as (m6 & E6 & E).
  apply bind_ok in E. destruct E as (m7 & E7 & E).
  assert (I1 : QInv m1) by (refine (fold_q _ _ _ _ _ _ P1 E1 I); intros ? ? ? Px Ex; exact (spend_sce_q _ _ _ _ _ Px Ex)).
  assert (I2 : QInv m2) by (refine (fold_q (fun _ => True) _ _ _ _ _ (Forall_true _) E2 I1); intros ? ? ? _ Ex; exact (create_sce_q _ _ _ _ _ Ex)).
  assert (I3 : QInv m3).
  { refine (fold_q _ _ _ _ _ _ P3 E3 I2). intros m0 x m0' Px Ex I0.
    apply bind_ok in Ex. destruct Ex as (ma & Ea & Ex). apply bind_ok in Ex. destruct Ex as (c & _ & Ex).
    apply (create_sce_q _ _ _ _ _ Ex). apply (spend_sfe_q _ _ _ _ _ Px Ea). exact I0. }
  assert (I4 : QInv m4) by (refine (fold_q (fun _ => True) _ _ _ _ _ (Forall_true _) E4 I3); intros ? ? ? _ Ex; exact (create_sfe_q _ _ _ _ _ Ex)).
  assert (I5 : QInv m5) by (refine (fold_q (fun _ => True) _ _ _ _ _ (Forall_true _) E5 I4); intros ? ? ? _ Ex; exact (create_v2_q _ _ _ _ Ex)).
  assert (I6 : QInv m6) by (refine (fold_q _ _ _ _ _ _ P6 E6 I5); intros ? ? ? Px Ex; exact (revise_v2_q _ _ _ _ _ Px Ex)).
  assert (I7 : QInv m7).
  { refine (fold_q _ _ _ _ _ _ P7 E7 I6). intros m0 rs m0' Px Ex I0. cbv zeta in Ex.
    apply bind_ok in Ex. destruct Ex as (ma & Ea & Ex). apply bind_ok in Ex. destruct Ex as (mb & Eb & Ex).
    assert (Ib : QInv mb).
    { destruct (rs_res rs); [apply (create_v2_q _ _ _ _ Eb) | inversion Eb; subst mb | inversion Eb; subst mb]; apply (resolve_v2_q _ _ _ _ _ _ Px Ea I0). }
    destruct (match rs_res rs with RRenewal rn => (rn_final_renter rn, rn_final_host rn) | RProof _ => (c_renter (v2_fc (p_val (rs_parent rs))), c_host (v2_fc (p_val (rs_parent rs))))
              | RExpiration => (c_renter (v2_fc (p_val (rs_parent rs))), missed_host_output (v2_fc (p_val (rs_parent rs)))) end) as [renter host].
    apply bind_ok in Ex. destruct Ex as (mc & Ec & Ex). apply (create_sce_q _ _ _ _ _ Ex). apply (create_sce_q _ _ _ _ _ Ec). exact Ib. }
  assert (I8 : QInv (fold_left (fun m a => create_att m (at_id a)) (t2_att t) m7)).
  { clear E. revert I7. generalize m7. induction (t2_att t) as [|a l IHl]; intros m0 I0; cbn [fold_left]; [exact I0|]. apply IHl. exact I0. }
  destruct (t2_new_foundation t); inversion E; subst m'; exact I8.
Qed.

(* ---- validation ---- *)
Lemma mem_sf_holds p : fst (mem_sf s p) = true -> holds (p_leaf p) (ESF (p_val p)).
Proof.
  unfold mem_sf, mem_gen, leaf_at, holds.
  destruct ((0 <=? p_leaf p) && (p_leaf p <? Z.of_nat (length (s_leaves s)))); [|cbn; discriminate].
  destruct (nth_error (s_leaves s) (Z.to_nat (p_leaf p))) as [[el sp]|]; [|cbn; discriminate].
  destruct (p_proof_ok p); [|cbn; discriminate]. cbn [andb l_elem l_spent].
  destruct el; try (cbn; discriminate). destruct (sfe_eqb e (p_val p)) eqn:Eq; [|cbn; discriminate]. apply sfe_eqb_eq in Eq. subst e.
  cbn [fst]. destruct sp; [discriminate|]. reflexivity.
Qed.
Lemma mem_v2_holds p : fst (mem_v2 s p) = true -> holds (p_leaf p) (EV2 (p_val p)).
Proof.
  unfold mem_v2, mem_gen, leaf_at, holds.
  destruct ((0 <=? p_leaf p) && (p_leaf p <? Z.of_nat (length (s_leaves s)))); [|cbn; discriminate].
  destruct (nth_error (s_leaves s) (Z.to_nat (p_leaf p))) as [[el sp]|]; [|cbn; discriminate].
  destruct (p_proof_ok p); [|cbn; discriminate]. cbn [andb l_elem l_spent].
  destruct el; try (cbn; discriminate). destruct (fce2_eqb e (p_val p)) eqn:Eq; [|cbn; discriminate]. apply fce2_eqb_eq in Eq. subst e.
  cbn [fst]. destruct sp; [discriminate|]. reflexivity.
Qed.
Lemma parent2_holds m p revised resolved : validate_parent2 s m p revised resolved = Ok tt -> holds (p_leaf p) (EV2 (p_val p)).
Proof.
  unfold validate_parent2. destruct (is_spent m (v2_id (p_val p))); [discriminate|].
  destruct (existsb (beq (v2_id (p_val p))) revised); [discriminate|]. destruct (existsb (beq (v2_id (p_val p))) resolved); [discriminate|].
  intros E. apply mem_v2_holds. destruct (mem_v2 s p) as [u sp]. destruct u; [reflexivity|]. destruct sp; discriminate.
Qed.
Lemma check_res_holds m revised l : forall resolved, check_resolutions H vt s m revised l resolved = Ok tt ->
  Forall (fun rs => holds (p_leaf (rs_parent rs)) (EV2 (p_val (rs_parent rs)))) l.
Proof.
  induction l as [|rs r IH]; intros resolved Hc; [constructor|]. cbn [check_resolutions] in Hc.
  apply bind_ok in Hc. destruct Hc as ([] & Hp & Hc). apply bind_ok in Hc. destruct Hc as (? & _ & Hc).
  constructor; [eapply parent2_holds; exact Hp | eapply IH; exact Hc].
Qed.
Lemma validate_presented m t : validate_txn2 H net vt pt se sd s m t = Ok tt -> Presented t.
Proof.
  intros V. pose proof V as V0. unfold Validate.validate_txn2 in V. destruct (child s <? ln_v2_allow net); [discriminate|].
  apply bind_ok in V. destruct V as (? & _ & V). destruct (t2_weight t =? 0); [discriminate|]. destruct (MAXW <? t2_weight t); [discriminate|].
  apply bind_ok in V. destruct V as ([] & Hsc & V). apply bind_ok in V. destruct V as ([] & Hsf & V). apply bind_ok in V. destruct V as ([] & Hfc & _).
  split; [|split; [|split]].
  - destruct (v2_inputs_distinct_unspent_mature H net vt pt se sd s m t Hsc) as [F _]. eapply Forall_impl; [|exact F]. cbv beta. intros i (_ & _ & Mem & _).
    destruct (Z.eq_dec (p_leaf (i2_parent i)) UNASSIGNED) as [U|N]; [left; exact U | right]. exact (proj2 (mem_sc_sound s _ (Mem N))).
  - pose proof (sfi_mem H net vt pt se sd s m t Hsf) as F. eapply Forall_impl; [|exact F]. cbv beta. intros i Mem.
    destruct (Z.eq_dec (p_leaf (f2_parent i)) UNASSIGNED) as [U|N]; [left; exact U | right; apply mem_sf_holds; exact (Mem N)].
  - unfold validate_v2_contracts in Hfc. apply bind_ok in Hfc. destruct Hfc as (? & _ & Hfc). apply bind_ok in Hfc. destruct Hfc as (revised & Hr & _). revert Hr.
    assert (G : forall l revised0 out,
      (fix go (l : list rev2) (revised : list id) {struct l} : R (list id) :=
         match l with
         | [] => Ok revised
         | rv :: r =>
           do _ <- validate_parent2 s m (r2_parent rv) revised [];
           if c_proof_height (v2_fc (p_val (r2_parent rv))) <? child s then err 115
           else do _ <- validate_revision net vt s m (p_val (r2_parent rv)) (r2_rev rv);
             go r (v2_id (p_val (r2_parent rv)) :: revised)
         end) l revised0 = Ok out -> Forall (fun rv => holds (p_leaf (r2_parent rv)) (EV2 (p_val (r2_parent rv)))) l).
    { induction l as [|rv r IH]; intros revised0 out Hr; [constructor|].
      apply bind_ok in Hr. destruct Hr as ([] & Hp & Hr). destruct (c_proof_height (v2_fc (p_val (r2_parent rv))) <? child s); [discriminate|].
      apply bind_ok in Hr. destruct Hr as (? & _ & Hr). constructor; [eapply parent2_holds; exact Hp | eapply IH; exact Hr]. }
    intros Hr. exact (G _ _ _ Hr).
  - unfold validate_v2_contracts in Hfc. apply bind_ok in Hfc. destruct Hfc as (? & _ & Hfc). apply bind_ok in Hfc. destruct Hfc as (revised & _ & Hs).
    eapply check_res_holds. exact Hs.
Qed.
Lemma block_q txns : forall m m', fold_r (vstep H net vt pt se sd s) txns m = Ok m' -> QInv m -> QInv m'.
Proof.
  induction txns as [|t r IH]; intros m m' E I; cbn [fold_r] in *; [inversion E; subst; exact I|].
  apply bind_ok in E. destruct E as (m1 & E1 & E). unfold vstep in E1. apply bind_ok in E1. destruct E1 as ([] & V & A).
  apply (IH m1 m' E). exact (apply_txn2_q m t m1 (validate_presented m t V) A I).
Qed.

(* ---- the revert theorem without its hypothesis ---- *)
Theorem revert_restores_accepted b s' m : validate_block H net vt pt se sd s b = Ok tt -> apply_block net s b = Ok (s', m) ->
  b_txns b = [] -> b_expiring b = [] -> revert_leaves s s' m b = s_leaves s.
Proof.
  intros V A T0 X0. apply (revert_restores net s b s' m A).
  unfold validate_block in V. apply bind_ok in V. destruct V as (? & _ & V). apply bind_ok in V. destruct V as (? & _ & V).
  destruct (b_is_v2 b && negb (b_commit_ok b)); [discriminate|]. rewrite T0 in V. cbn [validate_txns1] in V.
  apply bind_ok in V. destruct V as (m0 & E0 & V). inversion E0; subst m0. clear E0. apply bind_ok in V. destruct V as (m2 & Hf & _).
  change (fold_r (vstep H net vt pt se sd s) (b_v2txns b) (new_mid s) = Ok m2) in Hf.
  pose proof (block_q _ _ _ Hf q_new) as Q2. destruct (block_inv H net vt pt se sd s _ _ _ Hf (inv_new s)) as [Ap _].
  unfold apply_block in A. apply bind_ok in A. destruct A as (mf & Am & A). inversion A; subst s' m. clear A.
  unfold mid_apply_block in Am. destruct ((ln_v2_require net <=? child s) && _); [discriminate|]. rewrite T0, X0 in Am. cbn [apply_txns1 bind] in Am.
  rewrite Ap in Am. cbn [bind] in Am. apply bind_ok in Am. destruct Am as (m3 & E3 & Am). apply bind_ok in Am. destruct Am as (sub & _ & Am).
  apply bind_ok in Am. destruct Am as (m4 & E4 & Am). cbn [fold_r] in Am. inversion Am; subst mf. clear Am.
  assert (Q3 : QInv m3) by (refine (fold_q (fun _ => True) _ _ _ _ _ (Forall_true _) E3 Q2); intros ? ? ? _ Ex; exact (create_sce_q _ _ _ _ _ Ex)).
  assert (Q4 : QInv m4) by (destruct sub; [apply (create_sce_q _ _ _ _ _ E4 Q3) | inversion E4; subst; exact Q3]).
  destruct Q4 as (J1 & J2 & J3 & J4). unfold old_updates. rewrite J3. cbn [map app].
  repeat (apply Forall_app; split).
  - apply Forall_map. eapply Forall_impl; [|exact J1]. cbv beta. intros d [U|Hh]; [left; exact U | right; exact Hh].
  - apply Forall_map. eapply Forall_impl; [|exact J2]. cbv beta. intros d [U|Hh]; [left; exact U | right; exact Hh].
  - apply Forall_map. eapply Forall_impl; [|exact J4]. cbv beta. intros d [U|[_ Hh]]; [left; exact U | right; exact Hh].
  - apply Forall_map. apply Forall_forall. intros i _. left. reflexivity.
  - constructor; [left; reflexivity | constructor].
Qed.
End RevertOk.
