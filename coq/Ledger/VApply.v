(* What ValidateBlock has executed, ApplyBlock executes again: the MidState application reaches through the block's
   transactions is the one validation reached, so that phase of ApplyBlock neither fails nor panics on an accepted block. *)
From Coq Require Import ZArith List Bool Lia.
From Sia Require Import Prim.Result Prim.Tok Policy.Model Ledger.Types Ledger.Mid Ledger.Validate Ledger.Apply Ledger.Proofs Ledger.Spends.
Import ListNotations.
Open Scope Z_scope.

Section VApply.
Variable H : bytes -> bytes.
Variable net : lnetwork.
Variable vt : vtab.
Variable pt : ptab.
Variable se sd : bytes.

Lemma validate_txns1_applies s : forall ts us m m', validate_txns1 H net vt se sd s m ts us = Ok m' -> apply_txns1 net s m ts us = Ok m'.
Proof.
  induction ts as [|t r IH]; intros us m m' E; cbn [validate_txns1 apply_txns1] in *; [exact E|].
  destruct us as [|u ur]; [discriminate|]. apply bind_ok in E. destruct E as ([] & _ & E). apply bind_ok in E. destruct E as (m1 & A & E).
  rewrite A. cbn [bind]. apply IH. exact E.
Qed.
Lemma validate_txns2_applies s : forall txns m m', fold_r (vstep H net vt pt se sd s) txns m = Ok m' -> fold_r (apply_txn2 net s) txns m = Ok m'.
Proof.
  induction txns as [|t r IH]; intros m m' E; cbn [fold_r] in *; [exact E|].
  apply bind_ok in E. destruct E as (m1 & E1 & E). unfold vstep in E1. apply bind_ok in E1. destruct E1 as ([] & _ & A).
  rewrite A. cbn [bind]. apply IH. exact E.
Qed.

(* an accepted block's v1 and v2 transactions apply, in ApplyBlock's order, without error or panic, and reach the MidState
   validation reached *)
Theorem accepted_transactions_apply s b : validate_block H net vt pt se sd s b = Ok tt ->
  exists m1 m2, validate_txns1 H net vt se sd s (new_mid s) (b_txns b) (b_supp b) = Ok m1 /\
                apply_txns1 net s (new_mid s) (b_txns b) (b_supp b) = Ok m1 /\
                fold_r (vstep H net vt pt se sd s) (b_v2txns b) m1 = Ok m2 /\
                fold_r (apply_txn2 net s) (b_v2txns b) m1 = Ok m2.
Proof.
  intros V. unfold validate_block in V. apply bind_ok in V. destruct V as (? & _ & V). apply bind_ok in V. destruct V as (? & _ & V).
  destruct (b_is_v2 b && negb (b_commit_ok b)); [discriminate|].
  apply bind_ok in V. destruct V as (m1 & E1 & V). apply bind_ok in V. destruct V as (m2 & E2 & _).
  change (fold_r (vstep H net vt pt se sd s) (b_v2txns b) m1 = Ok m2) in E2.
  exists m1, m2. split; [exact E1|]. split; [apply validate_txns1_applies; exact E1|]. split; [exact E2 | apply validate_txns2_applies; exact E2].
Qed.
End VApply.
