(* C02: applying an accepted block marks the leaves of the v2 contracts it resolves as spent. *)
From Coq Require Import ZArith List Bool Lia.
From Sia Require Import Prim.Result Prim.Tok Policy.Model Ledger.Types Ledger.Mid Ledger.Validate Ledger.Apply Ledger.Proofs Ledger.Spends Ledger.Persist.
From Sia Require Import Ledger.Marks1 Ledger.Marks2 Ledger.Marks3 Ledger.Marks8 Ledger.Marks9.
Import ListNotations.
Open Scope Z_scope.

Section Marks10.
Variable H : bytes -> bytes.
Variable net : lnetwork.
Variable vt : vtab.
Variable pt : ptab.
Variable se sd : bytes.
Variable s : lstate.

(* every v2 contract diff with an assigned leaf points at the live leaf of the contract with its own ID *)
Definition LiveId (j : Z) (i : id) : Prop := exists e, nth_error (s_leaves s) (Z.to_nat j) = Some {| l_elem := EV2 e; l_spent := false |} /\ v2_id e = i.
Definition Pid (d : v2fced) : Prop := d_v2_leaf d = UNASSIGNED \/ LiveId (d_v2_leaf d) (v2_id (d_v2 d)).
Definition IdInv (m : mid) : Prop := Forall Pid (m_v2fces m).

Lemma idinv_new : IdInv (new_mid s). Proof. constructor. Qed.
Lemma create_sce_v2 m i o mt m' : create_sce m i o mt = Ok m' -> m_v2fces m' = m_v2fces m.
Proof. unfold create_sce. intros E. apply bind_ok in E. destruct E as ([k f] & _ & E). inversion E. reflexivity. Qed.
Lemma spend_sce_v2 m e lf tx m' : spend_sce m e lf tx = Ok m' -> m_v2fces m' = m_v2fces m.
Proof. unfold spend_sce. intros E. apply bind_ok in E. destruct E as ([k f] & _ & E). inversion E. reflexivity. Qed.
Lemma create_sfe_v2 m i v a m' : create_sfe m i v a = Ok m' -> m_v2fces m' = m_v2fces m.
Proof. unfold create_sfe. intros E. apply bind_ok in E. destruct E as ([k f] & _ & E). inversion E. reflexivity. Qed.
Lemma spend_sfe_v2 m e lf tx m' : spend_sfe m e lf tx = Ok m' -> m_v2fces m' = m_v2fces m.
Proof. unfold spend_sfe. intros E. apply bind_ok in E. destruct E as ([k f] & _ & E). inversion E. reflexivity. Qed.
Lemma idinv_eq m m' : m_v2fces m' = m_v2fces m -> IdInv m -> IdInv m'.
Proof. unfold IdInv. intros ->. exact (fun x => x). Qed.

Lemma create_v2_id m i fc m' : create_v2 m i fc = Ok m' -> IdInv m -> IdInv m'.
Proof.
  unfold create_v2. intros E I. apply bind_ok in E. destruct E as ([k fresh] & _ & E).
  apply bind_ok in E. destruct E as (tax & _ & E). apply bind_ok in E. destruct E as (pool & _ & E). inversion E; subst m'. clear E.
  unfold IdInv, with_v2fces. cbn. apply put_forall; [exact I|]. left. reflexivity.
Qed.
Lemma resolve_v2_id m e lf kd tx m' : LiveId lf (v2_id e) -> resolve_v2 m e lf kd tx = Ok m' -> IdInv m -> IdInv m'.
Proof.
  unfold resolve_v2. intros Lv E I. apply bind_ok in E. destruct E as ([k fresh] & _ & E).
  destruct (d_v2_created (nth k (m_v2fces m) dummy_v2fced)); [discriminate|]. inversion E; subst m'. clear E.
  unfold IdInv, with_v2fces. cbn. apply put_forall; [exact I|]. right. exact Lv.
Qed.
Lemma revise_v2_id m e lf rev m' : LiveId lf (v2_id e) -> revise_v2 m e lf rev = Ok m' -> IdInv m -> IdInv m'.
Proof.
  unfold revise_v2. intros Lv E I. apply bind_ok in E. destruct E as ([k fresh] & Sl & E). inversion E; subst m'. clear E.
  unfold IdInv, with_v2fces. cbn. apply put_forall; [exact I|].
  destruct fresh.
  - assert (k = length (m_v2fces m)) by (unfold slot in Sl; destruct (elem_idx m (v2_id e)) as [k'|]; [destruct (k' <? length (m_v2fces m))%nat; inversion Sl | inversion Sl; reflexivity]).
    subst k. rewrite nth_overflow by lia. cbn. right. exact Lv.
  - pose proof (nth_forall Pid _ k dummy_v2fced I (slot_old _ _ _ _ Sl)) as Po. set (old := nth k (m_v2fces m) dummy_v2fced) in *.
    destruct (d_v2_created old); [exact Po|]. destruct (d_v2_rev old); [exact Po|]. right. exact Lv.
Qed.

Lemma apply_txn2_id m t m' : Forall (fun rv => LiveId (p_leaf (r2_parent rv)) (v2_id (p_val (r2_parent rv)))) (t2_rev t) ->
  Forall (fun rs => LiveId (p_leaf (rs_parent rs)) (v2_id (p_val (rs_parent rs)))) (t2_res t) ->
  apply_txn2 net s m t = Ok m' -> IdInv m -> IdInv m'.
Proof.
  intros Lr Ls E I. unfold Apply.apply_txn2 in E.
  apply bind_ok in E. destruct E as (m1 & E1 & E). apply bind_ok in E. destruct E as (m2 & E2 & E).
  apply bind_ok in E. destruct E as (m3 & E3 & E). apply bind_ok in E. destruct E as (m4 & E4 & E).
  apply bind_ok in E. destruct E as (m5 & E5 & E). apply bind_ok in E. destruct E as (m6 & E6 & E).
  apply bind_ok in E. destruct E as (m7 & E7 & E).
  assert (I1 : IdInv m1) by (refine (fold_r_gen _ (fun _ => True) _ _ _ _ _ (Forall_true _) E1 I); intros ? ? ? _ Ex; exact (idinv_eq _ _ (spend_sce_v2 _ _ _ _ _ Ex))).
  assert (I2 : IdInv m2) by (refine (fold_r_gen _ (fun _ => True) _ _ _ _ _ (Forall_true _) E2 I1); intros ? ? ? _ Ex; exact (idinv_eq _ _ (create_sce_v2 _ _ _ _ _ Ex))).
  assert (I3 : IdInv m3).
  { refine (fold_r_gen _ (fun _ => True) _ _ _ _ _ (Forall_true _) E3 I2). intros m0 x m0' _ Ex I0.
    apply bind_ok in Ex. destruct Ex as (ma & Ea & Ex). apply bind_ok in Ex. destruct Ex as (c & _ & Ex).
    apply (idinv_eq _ _ (create_sce_v2 _ _ _ _ _ Ex)). apply (idinv_eq _ _ (spend_sfe_v2 _ _ _ _ _ Ea)). exact I0. }
  assert (I4 : IdInv m4) by (refine (fold_r_gen _ (fun _ => True) _ _ _ _ _ (Forall_true _) E4 I3); intros ? ? ? _ Ex; exact (idinv_eq _ _ (create_sfe_v2 _ _ _ _ _ Ex))).
  assert (I5 : IdInv m5) by (refine (fold_r_gen _ (fun _ => True) _ _ _ _ _ (Forall_true _) E5 I4); intros ? ? ? _ Ex; exact (create_v2_id _ _ _ _ Ex)).
  assert (I6 : IdInv m6) by (refine (fold_r_gen _ _ _ _ _ _ _ Lr E6 I5); intros ? ? ? Lx Ex; exact (revise_v2_id _ _ _ _ _ Lx Ex)).
  assert (I7 : IdInv m7).
  { refine (fold_r_gen _ _ _ _ _ _ _ Ls E7 I6). intros m0 rs m0' Lx Ex I0. cbv zeta in Ex.
    apply bind_ok in Ex. destruct Ex as (ma & Ea & Ex). apply bind_ok in Ex. destruct Ex as (mb & Eb & Ex).
    assert (Ib : IdInv mb).
    { destruct (rs_res rs); [apply (create_v2_id _ _ _ _ Eb) | inversion Eb; subst mb | inversion Eb; subst mb]; apply (resolve_v2_id _ _ _ _ _ _ Lx Ea I0). }
    destruct (match rs_res rs with RRenewal rn => (rn_final_renter rn, rn_final_host rn) | RProof _ => (c_renter (v2_fc (p_val (rs_parent rs))), c_host (v2_fc (p_val (rs_parent rs))))
              | RExpiration => (c_renter (v2_fc (p_val (rs_parent rs))), missed_host_output (v2_fc (p_val (rs_parent rs)))) end) as [renter host].
    apply bind_ok in Ex. destruct Ex as (mc & Ec & Ex). apply (idinv_eq _ _ (create_sce_v2 _ _ _ _ _ Ex)). apply (idinv_eq _ _ (create_sce_v2 _ _ _ _ _ Ec)). exact Ib. }
  assert (I8 : IdInv (fold_left (fun m a => create_att m (at_id a)) (t2_att t) m7)).
  { clear E. revert I7. generalize m7. induction (t2_att t) as [|a l IHl]; intros m0 I0; cbn [fold_left]; [exact I0|]. apply IHl. exact I0. }
  destruct (t2_new_foundation t); inversion E; subst m'; exact I8.
Qed.

(* validation: revised and resolved contracts are presented as the live leaf of the contract with that ID *)
Lemma mem_v2_liveid p : fst (mem_v2 s p) = true -> LiveId (p_leaf p) (v2_id (p_val p)).
Proof.
  unfold mem_v2, mem_gen, leaf_at, LiveId.
  destruct ((0 <=? p_leaf p) && (p_leaf p <? Z.of_nat (length (s_leaves s)))); [|cbn; discriminate].
  destruct (nth_error (s_leaves s) (Z.to_nat (p_leaf p))) as [[el sp]|]; [|cbn; discriminate].
  destruct (p_proof_ok p); [|cbn; discriminate]. cbn [andb l_elem l_spent].
  destruct el; try (cbn; discriminate). destruct (fce2_eqb e (p_val p)) eqn:Eq; [|cbn; discriminate].
  cbn [fst]. destruct sp; [discriminate|]. intros _. exists e. split; [reflexivity|].
  unfold fce2_eqb in Eq. apply andb_true_iff in Eq. destruct Eq as [Eq _]. apply beq_eq. exact Eq.
Qed.
Lemma parent2_liveid m p revised resolved : validate_parent2 s m p revised resolved = Ok tt -> LiveId (p_leaf p) (v2_id (p_val p)).
Proof.
  unfold validate_parent2. destruct (is_spent m (v2_id (p_val p))); [discriminate|].
  destruct (existsb (beq (v2_id (p_val p))) revised); [discriminate|]. destruct (existsb (beq (v2_id (p_val p))) resolved); [discriminate|].
  intros E. apply mem_v2_liveid. destruct (mem_v2 s p) as [u sp]. destruct u; [reflexivity|]. destruct sp; discriminate.
Qed.
Lemma check_res_liveid m revised l : forall resolved, check_resolutions H vt s m revised l resolved = Ok tt ->
  Forall (fun rs => LiveId (p_leaf (rs_parent rs)) (v2_id (p_val (rs_parent rs)))) l.
Proof.
  induction l as [|rs r IH]; intros resolved Hc; [constructor|]. cbn [check_resolutions] in Hc.
  apply bind_ok in Hc. destruct Hc as ([] & Hp & Hc). apply bind_ok in Hc. destruct Hc as (? & _ & Hc).
  constructor; [eapply parent2_liveid; exact Hp | eapply IH; exact Hc].
Qed.
Lemma validate_liveid m t : validate_txn2 H net vt pt se sd s m t = Ok tt ->
  Forall (fun rv => LiveId (p_leaf (r2_parent rv)) (v2_id (p_val (r2_parent rv)))) (t2_rev t) /\
  Forall (fun rs => LiveId (p_leaf (rs_parent rs)) (v2_id (p_val (rs_parent rs)))) (t2_res t).
Proof.
  unfold Validate.validate_txn2. intros Hv. destruct (child s <? ln_v2_allow net); [discriminate|].
  apply bind_ok in Hv. destruct Hv as (? & _ & Hv). destruct (t2_weight t =? 0); [discriminate|]. destruct (MAXW <? t2_weight t); [discriminate|].
  apply bind_ok in Hv. destruct Hv as (? & _ & Hv). apply bind_ok in Hv. destruct Hv as (? & _ & Hv). apply bind_ok in Hv. destruct Hv as ([] & Hfc & _).
  unfold validate_v2_contracts in Hfc. apply bind_ok in Hfc. destruct Hfc as (? & _ & Hfc). apply bind_ok in Hfc. destruct Hfc as (revised & Hr & Hs).
  split; [|eapply check_res_liveid; exact Hs]. revert Hr.
  assert (G : forall l revised0 out,
    (fix go (l : list rev2) (revised : list id) {struct l} : R (list id) :=
       match l with
       | [] => Ok revised
       | rv :: r =>
         do _ <- validate_parent2 s m (r2_parent rv) revised [];
         if c_proof_height (v2_fc (p_val (r2_parent rv))) <? child s then err 115
         else do _ <- validate_revision net vt s m (p_val (r2_parent rv)) (r2_rev rv);
           go r (v2_id (p_val (r2_parent rv)) :: revised)
       end) l revised0 = Ok out -> Forall (fun rv => LiveId (p_leaf (r2_parent rv)) (v2_id (p_val (r2_parent rv)))) l).
  { induction l as [|rv r IH]; intros revised0 out Hr; [constructor|].
    apply bind_ok in Hr. destruct Hr as ([] & Hp & Hr). destruct (c_proof_height (v2_fc (p_val (r2_parent rv))) <? child s); [discriminate|].
    apply bind_ok in Hr. destruct Hr as (? & _ & Hr). constructor; [eapply parent2_liveid; exact Hp | eapply IH; exact Hr]. }
  intros Hr. exact (G _ _ _ Hr).
Qed.
Lemma block_idinv txns : forall m m', fold_r (vstep H net vt pt se sd s) txns m = Ok m' -> IdInv m -> IdInv m'.
Proof.
  induction txns as [|t r IH]; intros m m' E I; cbn [fold_r] in *; [inversion E; subst; exact I|].
  apply bind_ok in E. destruct E as (m1 & E1 & E). unfold vstep in E1. apply bind_ok in E1. destruct E1 as ([] & V & A).
  apply (IH m1 m' E). destruct (validate_liveid m t V) as [Lr Ls]. exact (apply_txn2_id m t m1 Lr Ls A I).
Qed.

Variable kind_of : id -> kind.
Variable id0 : id.
Variable lf0 : Z.
Hypothesis K0 : kind_of id0 = KV2.
Notation G := (Marks9.G kind_of id0 lf0).
Notation TxOK := (Marks9.TxOK kind_of id0 lf0).

Lemma txns_g txns : forall m m', Forall TxOK txns -> fold_r (apply_txn2 net s) txns m = Ok m' -> G m -> G m'.
Proof. intros m m' F E Gm. refine (fold_r_gen _ _ _ _ _ _ _ F E Gm). intros m0 t m0' Ot Ex. exact (apply_txn2_g kind_of id0 lf0 K0 net s m0 t m0' Ot Ex). Qed.
Lemma txns_resolved txns t0 : In t0 txns -> In id0 (res_ids t0) -> forall m m', fold_r (apply_txn2 net s) txns m = Ok m' -> is_spent m' id0 = true.
Proof.
  intros Hin Hid. induction txns as [|t r IH]; intros m m' E; [destruct Hin|]. cbn [fold_r] in E. apply bind_ok in E. destruct E as (m1 & E1 & E).
  destruct Hin as [->|Hin]; [|apply (IH Hin m1 m' E)].
  destruct (apply_txn2_spends net s m t0 m1 E1) as [_ F]. rewrite Forall_forall in F.
  assert (S1 : is_spent m1 id0 = true) by (apply F; apply in_or_app; right; apply in_or_app; right; exact Hid).
  assert (X : ext m1 m').
  { refine (fold_r_ext _ _ _ _ _ E). intros m0 x m0' Ex. destruct (apply_txn2_spends net s m0 x m0' Ex) as [X _]. exact X. }
  apply (spent_mono m1 m' id0 X S1).
Qed.

(* every update of the contract's leaf index marks it spent: the only contract diff that can point at this leaf is the
   resolved one *)
Lemma leaf_updates_v2 m b e0 k0 d0 : Inv s m -> IdInv m -> Marks8.U kind_of m ->
  nth_error (s_leaves s) (Z.to_nat lf0) = Some {| l_elem := EV2 e0; l_spent := false |} -> v2_id e0 = id0 ->
  elem_idx m id0 = Some k0 -> nth_error (m_v2fces m) k0 = Some d0 -> d_v2_res d0 <> None ->
  forall u, In u (leaf_updates s m b) -> fst u <> UNASSIGNED -> Z.to_nat (fst u) = Z.to_nat lf0 -> l_spent (snd u) = true.
Proof.
  intros (I1 & I2 & I3 & I4) Iid Um N0 Ee E0 Nd Rd u Hin Ne Ek. unfold leaf_updates in Hin. rewrite I3 in Hin. cbn [map app] in Hin.
  rewrite !in_app_iff in Hin. destruct Hin as [Hin|[Hin|[Hin|[Hin|Hin]]]].
  - apply in_map_iff in Hin. destruct Hin as (d & <- & Hd). cbn [fst snd l_spent] in *. rewrite Forall_forall in I1. destruct (I1 d Hd) as [Un|T]; [contradiction | exact T].
  - apply in_map_iff in Hin. destruct Hin as (d & <- & Hd). cbn [fst snd l_spent] in *. rewrite Forall_forall in I2. destruct (I2 d Hd) as [Un|T]; [contradiction | exact T].
  - apply in_map_iff in Hin. destruct Hin as (d & <- & Hd). cbn [fst snd l_spent] in *. destruct (d_v2_res d) eqn:Rs; [reflexivity|]. exfalso.
    unfold IdInv in Iid. rewrite Forall_forall in Iid. destruct (Iid d Hd) as [Un|(e & Ne' & Ie)]; [contradiction|].
    rewrite Ek, N0 in Ne'. inversion Ne'; subst e. destruct (In_nth_error _ _ Hd) as (k' & Nk').
    destruct (Um k' d Nk') as [Ek' _]. rewrite <- Ie, Ee, E0 in Ek'. inversion Ek'; subst k'. rewrite Nd in Nk'. inversion Nk'; subst d. contradiction.
  - apply in_map_iff in Hin. destruct Hin as (i & <- & _). cbn [fst] in Ne. contradiction.
  - destruct Hin as [<-|[]]. cbn [fst] in Ne. contradiction.
Qed.

(* an accepted v2-only block, applied: the leaf of every v2 contract it resolves is spent afterwards *)
Theorem resolved_leaf_marked b s' m t0 rs0 :
  validate_block H net vt pt se sd s b = Ok tt -> apply_block net s b = Ok (s', m) -> b_txns b = [] -> b_expiring b = [] ->
  Forall TxOK (b_v2txns b) ->
  Forall (fun p : id * sco => kind_of (fst p) = KSC) (b_payouts b) -> kind_of (b_foundation_id b) = KSC ->
  In t0 (b_v2txns b) -> In rs0 (t2_res t0) -> v2_id (p_val (rs_parent rs0)) = id0 -> p_leaf (rs_parent rs0) = lf0 -> lf0 <> UNASSIGNED ->
  SpentAt (s_leaves s') (Z.to_nat lf0).
Proof.
  intros V A T0 X0 Otx Opay Kf Ht0 Hi0 Eid Elf Nun.
  assert (Mem : LiveId lf0 id0).
  { pose proof V as V'. unfold validate_block in V'. apply bind_ok in V'. destruct V' as (? & _ & V'). apply bind_ok in V'. destruct V' as (? & _ & V').
    destruct (b_is_v2 b && negb (b_commit_ok b)); [discriminate|]. rewrite T0 in V'. cbn [validate_txns1] in V'.
    apply bind_ok in V'. destruct V' as (m0 & E0 & V'). inversion E0; subst m0. apply bind_ok in V'. destruct V' as (m2 & Hf & _).
    change (fold_r (vstep H net vt pt se sd s) (b_v2txns b) (new_mid s) = Ok m2) in Hf.
    clear -Hf Ht0 Hi0 Elf Eid. revert Hf. generalize (new_mid s) as ma. induction (b_v2txns b) as [|t r IH]; intros ma Hf; [destruct Ht0|].
    cbn [fold_r] in Hf. apply bind_ok in Hf. destruct Hf as (mb & E1 & Hf). destruct Ht0 as [->|Hin]; [|apply (IH Hin mb Hf)].
    unfold vstep in E1. apply bind_ok in E1. destruct E1 as ([] & Vt & _).
    destruct (validate_liveid ma t0 Vt) as [_ F]. rewrite Forall_forall in F. rewrite <- Elf, <- Eid. exact (F rs0 Hi0). }
  destruct Mem as (e0 & Mem & Ee).
  unfold validate_block in V. apply bind_ok in V. destruct V as (? & _ & V). apply bind_ok in V. destruct V as (? & _ & V).
  destruct (b_is_v2 b && negb (b_commit_ok b)); [discriminate|]. rewrite T0 in V. cbn [validate_txns1] in V.
  apply bind_ok in V. destruct V as (m0 & E0 & V). inversion E0; subst m0. clear E0. apply bind_ok in V. destruct V as (m2 & Hf & _).
  change (fold_r (vstep H net vt pt se sd s) (b_v2txns b) (new_mid s) = Ok m2) in Hf.
  destruct (block_inv H net vt pt se sd s _ _ _ Hf (inv_new s)) as [Ap I2].
  pose proof (block_idinv _ _ _ Hf idinv_new) as J2.
  assert (G0 : G (new_mid s)).
  { split; [split; [apply wk_new | intros Sp; unfold is_spent, spent_in, new_mid in Sp; cbn in Sp; discriminate] | apply u_new]. }
  pose proof (txns_g _ _ _ Otx Ap G0) as G2.
  assert (S2 : is_spent m2 id0 = true).
  { apply (txns_resolved (b_v2txns b) t0 Ht0) with (m := new_mid s); [|exact Ap]. unfold res_ids. apply in_map_iff. exists rs0. split; [exact Eid | exact Hi0]. }
  unfold apply_block in A. apply bind_ok in A. destruct A as (mf & Am & A). inversion A; subst s' m. clear A. cbn [s_leaves].
  unfold mid_apply_block in Am. destruct ((ln_v2_require net <=? child s) && _); [discriminate|]. rewrite T0, X0 in Am. cbn [apply_txns1 bind] in Am.
  rewrite Ap in Am. cbn [bind] in Am. apply bind_ok in Am. destruct Am as (m3 & E3 & Am). apply bind_ok in Am. destruct Am as (sub & _ & Am).
  apply bind_ok in Am. destruct Am as (m4 & E4 & Am). cbn [fold_r] in Am. inversion Am; subst mf. clear Am.
  assert (I3 : Inv s m3) by (refine (fold_r_inv s (fun _ => True) _ _ _ _ _ (Forall_true _) E3 I2); intros ? ? ? _ Ex; exact (create_sce_inv s _ _ _ _ _ Ex)).
  assert (I4 : Inv s m4) by (destruct sub; [apply (create_sce_inv s _ _ _ _ _ E4 I3) | inversion E4; subst; exact I3]).
  assert (J3 : IdInv m3) by (refine (fold_r_gen _ (fun _ => True) _ _ _ _ _ (Forall_true _) E3 J2); intros ? ? ? _ Ex; exact (idinv_eq _ _ (create_sce_v2 _ _ _ _ _ Ex))).
  assert (J4 : IdInv m4) by (destruct sub; [apply (idinv_eq _ _ (create_sce_v2 _ _ _ _ _ E4) J3) | inversion E4; subst; exact J3]).
  assert (GS3 : G m3 /\ is_spent m3 id0 = true).
  { clear E4 I3 I4 J3 J4. revert E3 G2 S2. generalize m2 as ma. induction (b_payouts b) as [|p r IH]; intros ma E3 Ga Sa; cbn [fold_r] in E3; [inversion E3 as [Eq]; rewrite <- Eq; split; assumption|].
    pose proof (Forall_inv Opay) as Kp. pose proof (Forall_inv_tail Opay) as Or. apply bind_ok in E3. destruct E3 as (mb & Eb & E3). apply (IH Or mb E3).
    - exact (create_sce_g kind_of id0 lf0 K0 _ _ _ _ _ Kp Eb Ga).
    - rewrite <- Sa. apply (Marks8.is_spent_same id0). exact (create_sce_sp _ _ _ _ _ Eb). }
  destruct GS3 as [G3 S3].
  assert (GS4 : G m4 /\ is_spent m4 id0 = true).
  { destruct sub; [|inversion E4 as [Eq]; rewrite <- Eq; split; assumption]. split; [exact (create_sce_g kind_of id0 lf0 K0 _ _ _ _ _ Kf E4 G3)|].
    rewrite <- S3. apply (Marks8.is_spent_same id0). exact (create_sce_sp _ _ _ _ _ E4). }
  destruct GS4 as [[[_ T4] U4] S4]. destruct (T4 S4) as (k & d & Ek & Nd & Ld & Rd).
  apply apply_leaves_marks.
  - apply nth_error_Some. congruence.
  - right. exists (d_v2_leaf d, {| l_elem := EV2 (match d_v2_rev d with Some r => {| v2_id := v2_id (d_v2 d); v2_fc := r |} | None => d_v2 d end);
                                   l_spent := match d_v2_res d with Some _ => true | None => false end |}).
    cbn [fst snd l_spent]. rewrite Ld. split; [|split; [exact Nun | split; [reflexivity | destruct (d_v2_res d); [reflexivity | contradiction]]]].
    unfold leaf_updates. apply in_or_app. right. apply in_or_app. right. apply in_or_app. right. apply in_or_app. left.
    apply in_map_iff. exists d. split; [rewrite Ld; reflexivity | eapply nth_error_In; exact Nd].
  - apply (leaf_updates_v2 m4 b e0 k d I4 J4 U4 Mem Ee Ek Nd Rd).
Qed.
End Marks10.

Section NeverV2.
Variable H : bytes -> bytes.
Variable net : lnetwork.
Variable vt : vtab.
Variable pt : ptab.
Variable se sd : bytes.
(* a v2 contract resolved by an accepted block is never again revised or resolved (nor its leaf accepted as any other
   parent) by a later block of the chain *)
Theorem resolved_never_again (kind_of : id -> kind) (id0 : id) (lf0 : Z) s b s1 m t0 rs0 bs s' :
  kind_of id0 = KV2 ->
  validate_block H net vt pt se sd s b = Ok tt -> apply_block net s b = Ok (s1, m) -> b_txns b = [] -> b_expiring b = [] ->
  Forall (Marks9.TxOK kind_of id0 lf0) (b_v2txns b) ->
  Forall (fun p : id * sco => kind_of (fst p) = KSC) (b_payouts b) -> kind_of (b_foundation_id b) = KSC ->
  In t0 (b_v2txns b) -> In rs0 (t2_res t0) -> v2_id (p_val (rs_parent rs0)) = id0 -> p_leaf (rs_parent rs0) = lf0 -> lf0 <> UNASSIGNED ->
  chain H net vt pt se sd s1 bs s' ->
  forall mm t, validate_txn2 H net vt pt se sd s' mm t = Ok tt ->
    (forall i, In i (t2_sci t) -> p_leaf (i2_parent i) <> UNASSIGNED -> Z.to_nat (p_leaf (i2_parent i)) <> Z.to_nat lf0) /\
    (forall i, In i (t2_sfi t) -> p_leaf (f2_parent i) <> UNASSIGNED -> Z.to_nat (p_leaf (f2_parent i)) <> Z.to_nat lf0) /\
    (forall rv, In rv (t2_rev t) -> Z.to_nat (p_leaf (r2_parent rv)) <> Z.to_nat lf0) /\
    (forall rs, In rs (t2_res t) -> Z.to_nat (p_leaf (rs_parent rs)) <> Z.to_nat lf0).
Proof.
  intros K0 V A T0 X0 Otx Opay Kf Ht0 Hi0 Eid Elf Nun C mm t Vt.
  pose proof (resolved_leaf_marked H net vt pt se sd s kind_of id0 lf0 K0 b s1 m t0 rs0 V A T0 X0 Otx Opay Kf Ht0 Hi0 Eid Elf Nun) as S1.
  split; [|split].
  - exact (chain_no_respend H net vt pt se sd s1 bs s' _ C S1 mm t Vt).
  - exact (chain_no_respend_sf H net vt pt se sd s1 bs s' _ C S1 mm t Vt).
  - exact (chain_no_rerevise H net vt pt se sd s1 bs s' _ C S1 mm t Vt).
Qed.
End NeverV2.
