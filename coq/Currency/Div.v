(* Currency.Div / quoRem for a divisor above 64 bits: the trial-quotient algorithm is exact. *)
From Coq Require Import ZArith Bool List Lia.
From Sia Require Import Prim.Result Currency.Model Currency.Proofs.
Open Scope Z_scope.

(* ---- arithmetic core ---- *)
(* D is V with its low bits cleared (V < D + 2a), D >= 2^64 a, C < 2^128 = 2^64 a * 2b: the quotient by D exceeds the
   quotient by V by at most one *)
Lemma trial_quotient C V D a b : 1 <= a -> 1 <= b -> a * b = 2 ^ 63 ->
  0 <= C < 2 ^ 128 -> 2 ^ 64 * a <= D -> D <= V < D + 2 * a ->
  C / V <= C / D <= C / V + 1.
Proof.
  intros Ha Hb Hab HC HD HV.
  assert (P64 : 2 ^ 64 = 18446744073709551616) by reflexivity.
  assert (P63 : 2 ^ 63 = 9223372036854775808) by reflexivity.
  assert (P128 : 2 ^ 128 = 340282366920938463463374607431768211456) by reflexivity.
  assert (Dpos : 0 < D) by nia. assert (Vpos : 0 < V) by lia.
  split.
  - apply Z.div_le_compat_l; lia.
  - set (q := C / V). set (t := C / D).
    assert (Q1 : V * q <= C) by (apply Z.mul_div_le; lia).
    assert (Q2 : C < V * (q + 1)) by (pose proof (Z.mul_succ_div_gt C V Vpos); unfold q; lia).
    assert (T1 : D * t <= C) by (apply Z.mul_div_le; lia).
    assert (Q0 : 0 <= q) by (apply Z.div_pos; lia).
    destruct (Z.le_gt_cases t (q + 1)) as [|G]; [assumption|]. exfalso.
    assert (T2 : D * (q + 2) <= C) by nia.
    assert (QB : q < 2 * b).
    { destruct (Z.lt_ge_cases q (2 * b)) as [|GE]; [assumption|]. exfalso.
      assert (2 ^ 64 * a * (2 * b) <= V * q) by nia. nia. }
    assert (X : D < (2 * a - 1) * (q + 1)) by nia.
    assert (Y : (2 * a - 1) * (q + 1) <= (2 * a - 1) * (2 * b)) by nia.
    destruct (Z.eq_dec a 1) as [->|NA]; [nia|].
    assert (2 <= a) by lia. nia.
Qed.

(* ---- the bit-level steps ---- *)
Lemma land_disjoint x y n : 0 <= n -> 0 <= y < 2 ^ n -> Z.land (x * 2 ^ n) y = 0.
Proof.
  intros Hn Hy. apply Z.bits_inj'. intros i Hi. rewrite Z.land_spec, Z.bits_0.
  destruct (Z.lt_ge_cases i n) as [L|G].
  - rewrite Z.mul_pow2_bits_low by lia. reflexivity.
  - destruct (Z.eq_dec y 0) as [->|NZ]; [rewrite Z.bits_0; apply andb_false_r|].
    rewrite (Z.bits_above_log2 y i); [apply andb_false_r | lia |].
    assert (Z.log2 y < n) by (apply Z.log2_lt_pow2; lia). lia.
Qed.
Lemma lor_disjoint x y n : 0 <= n -> 0 <= y < 2 ^ n -> Z.lor (x * 2 ^ n) y = x * 2 ^ n + y.
Proof.
  intros Hn Hy. pose proof (land_disjoint x y n Hn Hy) as L0.
  rewrite (Z.add_nocarry_lxor _ _ L0), (Z.lxor_lor _ _ L0). reflexivity.
Qed.

Lemma lz64_spec h : 0 < h < W -> let n := lz64 h in 0 <= n <= 63 /\ 2 ^ (63 - n) <= h < 2 ^ (64 - n).
Proof.
  intros Hh. unfold lz64, bitlen. destruct (Z.eqb_spec h 0); [lia|].
  pose proof (Z.log2_spec h ltac:(lia)) as [L1 L2]. pose proof (Z.log2_nonneg h).
  assert (Z.log2 h < 64) by (apply Z.log2_lt_pow2; [lia|]; change (2 ^ 64) with W; lia).
  cbv zeta. replace (63 - (64 - (Z.log2 h + 1))) with (Z.log2 h) by lia.
  replace (64 - (64 - (Z.log2 h + 1))) with (Z.succ (Z.log2 h)) by lia. lia.
Qed.

Lemma pow_split n : 0 <= n <= 63 -> 2 ^ (63 - n) * 2 ^ n = 2 ^ 63 /\ 2 ^ (64 - n) = 2 * 2 ^ (63 - n) /\ 1 <= 2 ^ (63 - n) /\ 1 <= 2 ^ n.
Proof.
  intros Hn. rewrite <- Z.pow_add_r by lia. replace (63 - n + n) with 63 by lia.
  replace (64 - n) with (Z.succ (63 - n)) by lia. rewrite Z.pow_succ_r by lia.
  pose proof (Z.pow_pos_nonneg 2 (63 - n) ltac:(lia) ltac:(lia)). pose proof (Z.pow_pos_nonneg 2 n ltac:(lia) ltac:(lia)). lia.
Qed.

Theorem quorem_big_exact c v : wfc c -> wfc v -> hi v <> 0 ->
  exists q r, quorem c v = Ok (q, r) /\ wfc q /\ wfc r /\ val q = val c / val v /\ val r = val c mod val v.
Proof.
  intros Hc Hv Hnz. pose proof Hc as [Hcl Hch]. pose proof Hv as [Hvl Hvh].
  assert (PW : W = 2 ^ 64) by reflexivity. assert (PW' : W = 18446744073709551616) by reflexivity.
  unfold quorem. destruct (Z.eqb_spec (hi v) 0) as [E0|_]; [contradiction|].
  set (n := lz64 (hi v)). destruct (lz64_spec (hi v) ltac:(lia)) as [Hn Hh]. fold n in Hn, Hh.
  destruct (pow_split n Hn) as (Pab & P64n & Pa & Pb).
  set (a := 2 ^ (63 - n)) in *. set (b := 2 ^ n) in *.
  (* v1.hi *)
  assert (S1 : shl64 (hi v) n = hi v * b).
  { unfold shl64. apply Z.mod_small. rewrite PW. replace (2 ^ 64) with (2 ^ (64 - n) * b) by (unfold b; rewrite <- Z.pow_add_r by lia; f_equal; lia). fold b. nia. }
  assert (S2 : 0 <= shr64 (lo v) (64 - n) < b).
  { unfold shr64. split; [apply Z.div_pos; lia|]. apply Z.div_lt_upper_bound; [lia|].
    replace (2 ^ (64 - n) * b) with (2 ^ 64) by (unfold b; rewrite <- Z.pow_add_r by lia; f_equal; lia). lia. }
  set (v1hi := Z.lor (shl64 (hi v) n) (shr64 (lo v) (64 - n))).
  assert (E1 : v1hi = hi v * b + lo v / 2 ^ (64 - n)).
  { unfold v1hi. rewrite S1. unfold b. rewrite lor_disjoint; [reflexivity | lia | exact S2]. }
  set (k := 2 ^ (64 - n)) in *. assert (Kpos : 0 < k) by lia.
  set (D := v1hi * k).
  assert (HbK : b * k = W) by (unfold b, k; rewrite <- Z.pow_add_r by lia; rewrite PW; f_equal; lia).
  assert (DV : D <= val v < D + k).
  { unfold D, val. rewrite E1. pose proof (Z.div_mod (lo v) k ltac:(lia)) as DM. pose proof (Z.mod_pos_bound (lo v) k Kpos). nia. }
  assert (V1lo : 2 ^ 63 <= v1hi) by (rewrite E1; pose proof (Z.div_pos (lo v) k ltac:(lia) Kpos); fold k; nia).
  assert (V1hi : v1hi < W).
  { rewrite E1. fold k. assert (lo v / k < b) by (apply Z.div_lt_upper_bound; [lia|]; rewrite Z.mul_comm, HbK; lia). nia. }
  (* u1 *)
  assert (U1h : shr64 (hi c) 1 = hi c / 2) by reflexivity.
  assert (U1l : Z.lor (shr64 (lo c) 1) (shl64 (hi c) 63) = lo c / 2 + (hi c mod 2) * 2 ^ 63).
  { unfold shr64, shl64. change (2 ^ 1) with 2.
    assert (E : (hi c * 2 ^ 63) mod W = (hi c mod 2) * 2 ^ 63).
    { rewrite PW. change (2 ^ 64) with (2 * 2 ^ 63). rewrite Z.mul_mod_distr_r by lia. reflexivity. }
    rewrite E, Z.lor_comm, lor_disjoint; [lia | lia |]. split; [apply Z.div_pos; lia|]. apply Z.div_lt_upper_bound; [lia|]. change (2 * 2 ^ 63) with W. lia. }
  cbn [lo hi]. fold v1hi. rewrite U1h, U1l.
  set (u1h := hi c / 2). set (u1l := lo c / 2 + hi c mod 2 * 2 ^ 63).
  assert (U1 : u1h * W + u1l = val c / 2).
  { unfold u1h, u1l, val. rewrite PW. pose proof (Z.div_mod (hi c) 2 ltac:(lia)). pose proof (Z.div_mod (lo c) 2 ltac:(lia)).
    apply Z.div_unique with (lo c mod 2); [pose proof (Z.mod_pos_bound (lo c) 2); lia|].
    change (2 ^ 64) with (2 * 2 ^ 63). lia. }
  unfold div64. destruct (Z.eqb_spec v1hi 0); [lia|]. assert (u1h < 2 ^ 63) by (unfold u1h; apply Z.div_lt_upper_bound; [lia|]; change (2 * 2 ^ 63) with W; lia).
  destruct (Z.leb_spec v1hi u1h); [lia|]. cbn [bind fst snd]. rewrite U1.
  (* the trial quotient *)
  set (tq1 := shr64 (val c / 2 / v1hi) (63 - n)).
  assert (T : tq1 = val c / D).
  { unfold tq1, shr64, D. fold a. rewrite !Z.div_div by lia. f_equal. rewrite P64n. ring. }
  pose proof (val_range c Hc) as RC. pose proof (val_range v Hv) as RV.
  assert (C128 : 0 <= val c < 2 ^ 128) by (change (2 ^ 128) with (W * W); lia).
  assert (HD : 2 ^ 64 * a <= D) by (unfold D; rewrite P64n; clear - V1lo Pa; nia).
  assert (Vpos : 0 < val v) by (unfold val; clear - Hvl Hvh Hnz PW'; rewrite PW' in *; lia).
  assert (VW : W <= val v) by (unfold val; clear - Hvl Hvh Hnz PW'; rewrite PW' in *; lia).
  clearbody tq1 D v1hi u1h u1l a b k n.
  clear S1 S2 E1 HbK V1lo V1hi U1h U1l U1 H H0 Hh Hn.
  destruct (trial_quotient (val c) (val v) D a b Pa Pb Pab C128 HD ltac:(rewrite <- P64n; exact DV)) as [TQ1 TQ2].
  rewrite <- T in TQ1, TQ2.
  set (q := val c / val v) in *.
  assert (Q0 : 0 <= q) by (apply Z.div_pos; lia).
  assert (QW : q < W). { apply Z.div_lt_upper_bound; [lia|]. clear - RC VW PW'. rewrite PW' in *. nia. }
  assert (Q1 : val v * q <= val c) by (apply Z.mul_div_le; lia).
  assert (Q2 : val c < val v * (q + 1)) by (pose proof (Z.mul_succ_div_gt (val c) (val v) Vpos) as G0; fold q in G0; lia).
  assert (QM : val c mod val v = val c - val v * q) by (rewrite Z.mod_eq by lia; reflexivity).
  set (tq := if tq1 =? 0 then tq1 else tq1 - 1).
  assert (TQ : (tq = q \/ tq = q - 1) /\ 0 <= tq).
  { unfold tq. destruct (Z.eqb_spec tq1 0); lia. }
  destruct TQ as [TQ TQ0].
  assert (TQW : 0 <= tq < W) by lia.
  (* everything below is linear in P = val v * q *)
  set (P := val v * q) in *.
  assert (Q2' : val c < P + val v) by (unfold P; lia).
  assert (PT : val v * tq = P \/ val v * tq = P - val v) by (destruct TQ as [->| ->]; [left; reflexivity | right; unfold P; ring]).
  clearbody P. clear T TQ1 TQ2 Q2.
  destruct (mul64_checked v tq Hv TQW) as [M _]. destruct M as (vt & Evt & Wvt & Vvt); [lia|]. rewrite Evt. cbn [bind].
  destruct (sub_checked c vt Hc Wvt) as [S _]. destruct S as (r & Er & Wr & Vr); [lia|]. rewrite Er. cbn [bind].
  rewrite (cmp_exact r v Wr Hv).
  destruct (Z.compare_spec (val r) (val v)) as [E|L|G].
  - (* remainder = divisor: the trial quotient was one too small *)
    assert (PT' : val v * tq = P - val v) by lia. assert (TQ' : tq = q - 1) by (destruct TQ as [-> | ?]; [lia | assumption]).
    destruct (sub_checked r v Wr Hv) as [S2' _]. destruct S2' as (r' & Er' & Wr' & Vr'); [lia|].
    change (0 <=? 0) with true. cbv iota. rewrite TQ'. replace ((q - 1 + 1) mod W) with q by (replace (q - 1 + 1) with q by ring; symmetry; apply Z.mod_small; lia).
    rewrite Er'. cbn [bind]. destruct (Z.eqb_spec q 0); [lia|].
    eexists _, _. split; [reflexivity|]. split; [unfold wfc; cbn [lo hi]; lia|]. split; [exact Wr'|]. unfold val at 1. cbn [lo hi]. split; lia.
  - (* remainder below the divisor: exact *)
    assert (PT' : val v * tq = P) by lia. assert (TQ' : tq = q) by (destruct TQ as [? | ->]; [assumption | lia]).
    change (0 <=? -1) with false. cbv iota.
    eexists _, _. split; [reflexivity|]. split; [unfold wfc; cbn [lo hi]; lia|]. split; [exact Wr|]. unfold val at 1. cbn [lo hi]. split; lia.
  - (* remainder above the divisor: one too small *)
    assert (PT' : val v * tq = P - val v) by lia. assert (TQ' : tq = q - 1) by (destruct TQ as [-> | ?]; [lia | assumption]).
    destruct (sub_checked r v Wr Hv) as [S2' _]. destruct S2' as (r' & Er' & Wr' & Vr'); [lia|].
    change (0 <=? 1) with true. cbv iota. rewrite TQ'. replace ((q - 1 + 1) mod W) with q by (replace (q - 1 + 1) with q by ring; symmetry; apply Z.mod_small; lia).
    rewrite Er'. cbn [bind]. destruct (Z.eqb_spec q 0); [lia|].
    eexists _, _. split; [reflexivity|]. split; [unfold wfc; cbn [lo hi]; lia|]. split; [exact Wr'|]. unfold val at 1. cbn [lo hi]. split; lia.
Qed.

(* Currency.Div / quoRem: exact for every 128-bit dividend and every non-zero 128-bit divisor *)
Theorem quorem_exact c v : wfc c -> wfc v -> val v <> 0 ->
  exists q r, quorem c v = Ok (q, r) /\ wfc q /\ wfc r /\ val q = val c / val v /\ val r = val c mod val v.
Proof.
  intros Hc Hv Hnz. destruct (Z.eq_dec (hi v) 0) as [E|NE]; [|apply quorem_big_exact; assumption].
  pose proof Hv as [Hvl Hvh]. assert (Vv : val v = lo v) by (unfold val; rewrite E; ring).
  unfold quorem. rewrite E. cbn [Z.eqb].
  destruct (quorem64_exact c (lo v) Hc ltac:(lia)) as (q & r & Eq & Wq & Vq & Vr). rewrite Eq. cbn [bind fst snd].
  exists q, (mkCur r 0). split; [reflexivity|]. split; [exact Wq|]. rewrite Vv.
  assert (0 <= r < lo v) by (rewrite Vr; apply Z.mod_pos_bound; lia).
  split; [unfold wfc; cbn [lo hi]; lia|]. split; [exact Vq|]. unfold val at 1; cbn [lo hi]. lia.
Qed.
Theorem quorem_zero c v : val v = 0 -> wfc v -> quorem c v = Panic PDivZero.
Proof.
  intros E [Hl Hh]. unfold val in E. rewrite W_val in *. assert (hi v = 0) by lia. assert (lo v = 0) by lia.
  unfold quorem. rewrite H, H0. cbn [Z.eqb]. rewrite quorem64_zero. reflexivity.
Qed.
Theorem div_exact c v : wfc c -> wfc v -> val v <> 0 -> exists q, div c v = Ok q /\ wfc q /\ val q = val c / val v.
Proof.
  intros Hc Hv Hnz. destruct (quorem_exact c v Hc Hv Hnz) as (q & r & E & Wq & _ & Vq & _).
  exists q. unfold div. rewrite E. cbn [bind fst]. auto.
Qed.
