(* Executable model of types/currency.go: 128-bit unsigned arithmetic on two 64-bit limbs,
   written with the math/bits primitives exactly as the Go code uses them.
   Limbs are Z in [0, 2^64); every wrap is written explicitly. *)
From Coq Require Import ZArith Bool List.
From Sia Require Import Prim.Result.
Open Scope Z_scope.

Definition W : Z := 2^64.

Record cur := mkCur { lo : Z; hi : Z }.
Definition val (c : cur) : Z := lo c + W * hi c.
Definition wfc (c : cur) : Prop := 0 <= lo c < W /\ 0 <= hi c < W.
Definition cur_of_Z (z : Z) : cur := mkCur (z mod W) ((z / W) mod W).
Definition zero_cur := mkCur 0 0.

(* math/bits *)
Definition add64 (x y c : Z) : Z * Z := ((x + y + c) mod W, (x + y + c) / W).          (* sum, carryOut *)
Definition sub64 (x y b : Z) : Z * Z := ((x - y - b) mod W, if x - y - b <? 0 then 1 else 0). (* diff, borrowOut *)
Definition mul64 (x y : Z) : Z * Z := ((x * y) / W, (x * y) mod W).                     (* hi, lo *)
Definition div64 (h l y : Z) : res unit (Z * Z) :=                                      (* quo, rem *)
  if y =? 0 then Panic PDivZero
  else if y <=? h then Panic POverflow
  else Ok ((h * W + l) / y, (h * W + l) mod y).
Definition bitlen (x : Z) : Z := if x =? 0 then 0 else Z.log2 x + 1.
Definition lz64 (x : Z) : Z := 64 - bitlen x.
Definition shl64 (x n : Z) : Z := (x * 2^n) mod W.
Definition shr64 (x n : Z) : Z := x / 2^n.       (* Go: x >> 64 = 0, and x / 2^64 = 0 for x < 2^64 *)

(* Currency methods *)
Definition cmp (c v : cur) : Z :=
  if (lo c =? lo v) && (hi c =? hi v) then 0
  else if (hi c <? hi v) || ((hi c =? hi v) && (lo c <? lo v)) then -1 else 1.

Definition add_wo (c v : cur) : cur * bool :=
  let '(l, carry) := add64 (lo c) (lo v) 0 in
  let '(h, carry) := add64 (hi c) (hi v) carry in
  (mkCur l h, negb (carry =? 0)).

Definition sub_wu (c v : cur) : cur * bool :=
  let '(l, borrow) := sub64 (lo c) (lo v) 0 in
  let '(h, borrow) := sub64 (hi c) (hi v) borrow in
  (mkCur l h, negb (borrow =? 0)).

Definition mul_wo (c v : cur) : cur * bool :=
  let '(h, l) := mul64 (lo c) (lo v) in
  let '(p0, p1) := mul64 (hi c) (lo v) in
  let '(p2, p3) := mul64 (lo c) (hi v) in
  let '(h, c0) := add64 h p1 0 in
  let '(h, c1) := add64 h p3 0 in
  (mkCur l h,
   (negb (hi c =? 0) && negb (hi v =? 0)) || negb (p0 =? 0) || negb (p2 =? 0)
   || negb (c0 =? 0) || negb (c1 =? 0)).

Definition mul64_wo (c : cur) (v : Z) : cur * bool :=
  let '(hi0, lo0) := mul64 (lo c) v in
  let '(hi1, lo1) := mul64 (hi c) v in
  let '(hi2, c0) := add64 hi0 lo1 0 in
  (mkCur lo0 hi2, negb (hi1 =? 0) || negb (c0 =? 0)).

Definition checked {A} (p : pan) (r : A * bool) : res unit A :=
  if snd r then Panic p else Ok (fst r).
Definition add (c v : cur) := checked POverflow (add_wo c v).
Definition sub (c v : cur) := checked PUnderflow (sub_wu c v).
Definition mul (c v : cur) := checked POverflow (mul_wo c v).
Definition mul_64 (c : cur) (v : Z) := checked POverflow (mul64_wo c v).

Definition quorem64 (c : cur) (v : Z) : res unit (cur * Z) :=
  if hi c <? v then
    do qr <- div64 (hi c) (lo c) v; Ok (mkCur (fst qr) 0, snd qr)
  else
    do qr1 <- div64 0 (hi c) v;
    do qr2 <- div64 (snd qr1) (lo c) v;
    Ok (mkCur (fst qr2) (fst qr1), snd qr2).

Definition quorem (c v : cur) : res unit (cur * cur) :=
  if hi v =? 0 then
    do qr <- quorem64 c (lo v); Ok (fst qr, mkCur (snd qr) 0)
  else
    let n := lz64 (hi v) in
    let v1 := mkCur (shl64 (lo v) n) (Z.lor (shl64 (hi v) n) (shr64 (lo v) (64 - n))) in
    let u1 := mkCur (Z.lor (shr64 (lo c) 1) (shl64 (hi c) 63)) (shr64 (hi c) 1) in
    do tqr <- div64 (hi u1) (lo u1) (hi v1);
    let tq := shr64 (fst tqr) (63 - n) in
    let tq := if tq =? 0 then tq else tq - 1 in
    do vt <- mul_64 v tq;
    do r <- sub c vt;
    if 0 <=? cmp r v then
      let ql := (tq + 1) mod W in
      let qh := if ql =? 0 then 1 else 0 in
      do r' <- sub r v; Ok (mkCur ql qh, r')
    else Ok (mkCur tq 0, r).

Definition div (c v : cur) : res unit cur := do qr <- quorem c v; Ok (fst qr).
Definition div_64 (c : cur) (v : Z) : res unit cur := do qr <- quorem64 c v; Ok (fst qr).
