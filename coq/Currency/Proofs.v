From Coq Require Import ZArith Bool Lia ZifyBool.
From Sia Require Import Prim.Result Currency.Model.
Open Scope Z_scope.
Ltac Zify.zify_post_hook ::= Z.div_mod_to_equations.

Lemma W_val : W = 18446744073709551616. Proof. reflexivity. Qed.
Global Opaque W.

Lemma val_range c : wfc c -> 0 <= val c < W * W.
Proof. unfold wfc, val. rewrite W_val. lia. Qed.

Lemma val_inj a b : wfc a -> wfc b -> val a = val b -> a = b.
Proof.
  destruct a as [al ah], b as [bl bh]; unfold wfc, val; simpl; rewrite ?W_val.
  intros ? ? ?. assert (al = bl /\ ah = bh) as [-> ->] by lia. reflexivity.
Qed.

Theorem add_exact a b : wfc a -> wfc b ->
  wfc (fst (add_wo a b)) /\
  val (fst (add_wo a b)) = (val a + val b) mod (W * W) /\
  (snd (add_wo a b) = true <-> W * W <= val a + val b).
Proof.
  destruct a as [al ah], b as [bl bh]; unfold wfc, val, add_wo, add64; simpl. rewrite W_val.
  intros [? ?] [? ?].
  split; [lia|]. split; [lia|].
  destruct (Z.eqb_spec ((ah + bh + (al + bl + 0) / 18446744073709551616) / 18446744073709551616) 0);
    cbn [negb]; split; intros; try discriminate; try reflexivity; lia.
Qed.

Theorem sub_exact a b : wfc a -> wfc b ->
  wfc (fst (sub_wu a b)) /\
  val (fst (sub_wu a b)) = (val a - val b) mod (W * W) /\
  (snd (sub_wu a b) = true <-> val a < val b).
Proof.
  destruct a as [al ah], b as [bl bh]; unfold wfc, val, sub_wu, sub64; simpl. rewrite W_val.
  intros [? ?] [? ?].
  destruct (Z.ltb_spec (al - bl - 0) 0);
    match goal with |- context [?x <? 0] => destruct (Z.ltb_spec x 0) end;
    cbn [negb Z.eqb]; (split; [lia|]); (split; [lia|]);
    split; intros; try discriminate; try reflexivity; try lia.
Qed.

Theorem mul_exact a b : wfc a -> wfc b ->
  wfc (fst (mul_wo a b)) /\
  val (fst (mul_wo a b)) = (val a * val b) mod (W * W) /\
  (snd (mul_wo a b) = true <-> W * W <= val a * val b).
Proof.
  destruct a as [clo chi], b as [vlo vhi]; unfold wfc, val, mul_wo, mul64, add64; simpl.
  intros [Hcl Hch] [Hvl Hvh].
  remember (clo * vlo) as a. remember (chi * vlo) as b. remember (clo * vhi) as c. remember (chi * vhi) as d.
  rewrite W_val in *.
  assert (Ha : 0 <= a <= 18446744073709551615*18446744073709551615) by nia.
  assert (Hb : 0 <= b <= 18446744073709551615*18446744073709551615) by nia.
  assert (Hc : 0 <= c <= 18446744073709551615*18446744073709551615) by nia.
  assert (Hd : 0 <= d) by nia.
  assert (Hd0 : (chi =? 0) = false -> (vhi =? 0) = false -> 1 <= d) by (intros; nia).
  assert (Hd1 : chi = 0 \/ vhi = 0 -> d = 0) by (intros [?|?]; subst; nia).
  assert (E : (clo + 18446744073709551616 * chi) * (vlo + 18446744073709551616 * vhi)
              = a + 18446744073709551616 * (b + c) + 18446744073709551616 * 18446744073709551616 * d) by (subst; ring).
  rewrite E. clear E Heqa Heqb Heqc Heqd.
  split; [lia|].
  destruct (chi =? 0) eqn:E1; destruct (vhi =? 0) eqn:E2; cbn [negb andb orb];
  try (specialize (Hd0 eq_refl eq_refl));
  repeat match goal with |- context [negb (?x =? 0)] => destruct (Z.eqb_spec x 0) end; cbn [negb andb orb];
  (split; [|split; intros; try discriminate; try reflexivity]); try lia.
Qed.

Theorem mul64_exact a v : wfc a -> 0 <= v < W ->
  wfc (fst (mul64_wo a v)) /\
  val (fst (mul64_wo a v)) = (val a * v) mod (W * W) /\
  (snd (mul64_wo a v) = true <-> W * W <= val a * v).
Proof.
  destruct a as [clo chi]; unfold wfc, val, mul64_wo, mul64, add64; simpl.
  intros [Hcl Hch] Hv.
  remember (clo * v) as a. remember (chi * v) as b.
  rewrite W_val in *.
  assert (Ha : 0 <= a <= 18446744073709551615*18446744073709551615) by nia.
  assert (Hb : 0 <= b <= 18446744073709551615*18446744073709551615) by nia.
  assert (E : (clo + 18446744073709551616 * chi) * v = a + 18446744073709551616 * b) by (subst; ring).
  rewrite E. clear E Heqa Heqb.
  split; [lia|].
  repeat match goal with |- context [negb (?x =? 0)] => destruct (Z.eqb_spec x 0) end; cbn [negb andb orb];
  (split; [|split; intros; try discriminate; try reflexivity]); try lia.
Qed.

Theorem cmp_exact a b : wfc a -> wfc b ->
  cmp a b = match Z.compare (val a) (val b) with Eq => 0 | Lt => -1 | Gt => 1 end.
Proof.
  destruct a as [al ah], b as [bl bh]; unfold wfc, val, cmp; simpl. rewrite W_val.
  intros [? ?] [? ?].
  destruct (Z.compare_spec (al + 18446744073709551616 * ah) (bl + 18446744073709551616 * bh));
  destruct (Z.eqb_spec al bl); destruct (Z.eqb_spec ah bh); cbn [andb orb];
  destruct (Z.ltb_spec ah bh); destruct (Z.ltb_spec al bl); cbn [andb orb]; try reflexivity; try lia.
Qed.

(* panicking wrappers: panic exactly when the exact result does not fit *)
Theorem add_checked a b : wfc a -> wfc b ->
  (val a + val b < W * W -> exists r, add a b = Ok r /\ wfc r /\ val r = val a + val b) /\
  (W * W <= val a + val b -> add a b = Panic POverflow).
Proof.
  intros Ha Hb. destruct (add_exact a b Ha Hb) as (Hw & Hv & Hf).
  pose proof (val_range a Ha). pose proof (val_range b Hb).
  unfold add, checked. destruct (snd (add_wo a b)) eqn:E.
  - split; intros; [|reflexivity]. destruct Hf as [Hf _]. specialize (Hf eq_refl). lia.
  - split; intros.
    + eexists; split; [reflexivity|]. split; [assumption|]. rewrite Hv. apply Z.mod_small. lia.
    + destruct Hf as [_ Hf]. specialize (Hf H1). discriminate.
Qed.

Theorem sub_checked a b : wfc a -> wfc b ->
  (val b <= val a -> exists r, sub a b = Ok r /\ wfc r /\ val r = val a - val b) /\
  (val a < val b -> sub a b = Panic PUnderflow).
Proof.
  intros Ha Hb. destruct (sub_exact a b Ha Hb) as (Hw & Hv & Hf).
  pose proof (val_range a Ha). pose proof (val_range b Hb).
  unfold sub, checked. destruct (snd (sub_wu a b)) eqn:E.
  - split; intros; [|reflexivity]. destruct Hf as [Hf _]. specialize (Hf eq_refl). lia.
  - split; intros.
    + eexists; split; [reflexivity|]. split; [assumption|]. rewrite Hv. apply Z.mod_small. lia.
    + destruct Hf as [_ Hf]. specialize (Hf H1). discriminate.
Qed.

Theorem mul64_checked a v : wfc a -> 0 <= v < W ->
  (val a * v < W * W -> exists r, mul_64 a v = Ok r /\ wfc r /\ val r = val a * v) /\
  (W * W <= val a * v -> mul_64 a v = Panic POverflow).
Proof.
  intros Ha Hb. destruct (mul64_exact a v Ha Hb) as (Hw & Hv & Hf).
  pose proof (val_range a Ha).
  unfold mul_64, checked. destruct (snd (mul64_wo a v)) eqn:E.
  - split; intros; [|reflexivity]. destruct Hf as [Hf _]. specialize (Hf eq_refl). lia.
  - split; intros.
    + eexists; split; [reflexivity|]. split; [assumption|]. rewrite Hv. apply Z.mod_small. nia.
    + destruct Hf as [_ Hf]. specialize (Hf H0). discriminate.
Qed.

Theorem mul_checked a b : wfc a -> wfc b ->
  (val a * val b < W * W -> exists r, mul a b = Ok r /\ wfc r /\ val r = val a * val b) /\
  (W * W <= val a * val b -> mul a b = Panic POverflow).
Proof.
  intros Ha Hb. destruct (mul_exact a b Ha Hb) as (Hw & Hv & Hf).
  pose proof (val_range a Ha). pose proof (val_range b Hb).
  unfold mul, checked. destruct (snd (mul_wo a b)) eqn:E.
  - split; intros; [|reflexivity]. destruct Hf as [Hf _]. specialize (Hf eq_refl). lia.
  - split; intros.
    + eexists; split; [reflexivity|]. split; [assumption|]. rewrite Hv. apply Z.mod_small. nia.
    + destruct Hf as [_ Hf]. specialize (Hf H1). discriminate.
Qed.

(* division by a 64-bit value: exact quotient and remainder, no primitive panics *)
Theorem quorem64_exact c v : wfc c -> 0 < v < W ->
  exists q r, quorem64 c v = Ok (q, r) /\ wfc q /\ val q = val c / v /\ r = val c mod v.
Proof.
  destruct c as [cl ch]; unfold wfc, val, quorem64, div64; cbn [lo hi].
  intros [Hl Hh] Hv. rewrite W_val in *.
  destruct (Z.ltb_spec ch v).
  - destruct (Z.eqb_spec v 0); [lia|]. destruct (Z.leb_spec v ch); [lia|]. cbn [bind fst snd].
    eexists _, _. split; [reflexivity|]. unfold wfc, val; cbn [lo hi]; rewrite ?W_val.
    assert (cl + 18446744073709551616 * ch = ch * 18446744073709551616 + cl) as -> by ring.
    split; [split; [|lia]|split; [|reflexivity]].
    + split; [apply Z.div_pos; lia|]. apply Z.div_lt_upper_bound; nia.
    + ring.
  - destruct (Z.eqb_spec v 0); [lia|]. destruct (Z.leb_spec v 0); [lia|]. cbn [bind fst snd].
    replace (0 * 18446744073709551616 + ch) with ch by ring.
    destruct (Z.leb_spec v (ch mod v)); [lia|]. cbn [bind fst snd].
    eexists _, _. split; [reflexivity|]. unfold wfc, val; cbn [lo hi]; rewrite ?W_val.
    set (r1 := ch mod v). set (q1 := ch / v).
    assert (Hq1 : ch = v * q1 + r1) by (apply Z.div_mod; lia).
    assert (Hr1 : 0 <= r1 < v) by (apply Z.mod_pos_bound; lia).
    assert (0 <= q1 < 18446744073709551616) by (split; [apply Z.div_pos; lia| apply Z.div_lt_upper_bound; nia]).
    set (x := r1 * 18446744073709551616 + cl).
    assert (Hx : cl + 18446744073709551616 * ch = x + (q1 * 18446744073709551616) * v) by (unfold x; rewrite Hq1 at 1; ring).
    rewrite Hx. rewrite Z.div_add by lia. rewrite Z.mod_add by lia.
    split; [split; [|lia]|split; [ring|reflexivity]].
    split; [apply Z.div_pos; unfold x; lia|]. apply Z.div_lt_upper_bound; unfold x; nia.
Qed.

Theorem quorem64_zero c : quorem64 c 0 = Panic PDivZero.
Proof. unfold quorem64, div64. destruct (hi c <? 0); reflexivity. Qed.
